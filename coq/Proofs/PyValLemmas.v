(** * Lemmas about the Python value universe (Lib/PyVal.v) used by the source-tie proofs
    (Proofs/SrcTie*.v): how the operations act on encoded lists of integers. *)
From Coq Require Import ZArith List Bool String Lia.
From Exactly Require Import Lib.PyVal.
Import ListNotations.
Local Open Scope Z_scope.

(** reduction of translated code: everything of PyVal computes, integer arithmetic stays symbolic *)
Ltac pycbn :=
  cbn -[Z.max Z.min Z.add Z.sub Z.mul Z.opp Z.abs Z.leb Z.geb Z.ltb Z.gtb Z.compare Z.eqb Z.of_nat
        py_sorted py_filter py_max1 py_min1 py_for py_le py_lt py_ge py_gt].

Lemma py_le_int a b : py_le (VInt a) (VInt b) = VBool (a <=? b). Proof. reflexivity. Qed.
Lemma py_lt_int a b : py_lt (VInt a) (VInt b) = VBool (a <? b). Proof. reflexivity. Qed.
Lemma py_ge_int a b : py_ge (VInt a) (VInt b) = VBool (b <=? a). Proof. unfold py_ge, py_cmp_with. cbn [py_cmp]. now rewrite <- Z.geb_leb. Qed.
Lemma py_gt_int a b : py_gt (VInt a) (VInt b) = VBool (b <? a). Proof. unfold py_gt, py_cmp_with. cbn [py_cmp]. now rewrite <- Z.gtb_ltb. Qed.
Ltac pyint := rewrite ?py_le_int, ?py_lt_int, ?py_ge_int, ?py_gt_int.

Definition enc_ints (l : list Z) : pyval := VList (map VInt l).
Definition enc_opt (o : option Z) : pyval := match o with Some z => VInt z | None => VNone end.

Lemma py_for_list l body init :
  py_for (VList l) body init
  = fold_left (fun st x => match st with VRet _ | VErr => st | _ => body x st end) l init.
Proof. reflexivity. Qed.

Lemma fold1_ints_go f xs : forall x,
  fold_left (fun acc y => match acc, y with VInt a, VInt b => VInt (f a b) | _, _ => VErr end) (map VInt xs) (VInt x)
  = VInt (fold_left f xs x).
Proof. induction xs as [|y xs IH]; intro x; cbn [fold_left map]; [reflexivity | apply IH]. Qed.

Lemma py_max1_ints x xs : py_max1 (enc_ints (x :: xs)) = VInt (fold_left Z.max xs x).
Proof. unfold py_max1, py_fold1, enc_ints. cbn [seq_items map]. apply fold1_ints_go. Qed.

Lemma py_min1_ints x xs : py_min1 (enc_ints (x :: xs)) = VInt (fold_left Z.min xs x).
Proof. unfold py_min1, py_fold1, enc_ints. cbn [seq_items map]. apply fold1_ints_go. Qed.

Lemma py_max1_nil : py_max1 (enc_ints []) = VErr.
Proof. reflexivity. Qed.

Lemma all_ok_ints l : all_ok (map VInt l) = true.
Proof. induction l; cbn; auto. Qed.

(** values known to be proper ([py_ok v = true] in the context) pass through the strict operations *)
Lemma py_ret_ok v : py_ok v = true -> py_ret v = VRet v.
Proof. unfold py_ret. now intros ->. Qed.
Lemma py_let_ok v k : py_ok v = true -> py_let v k = k v.
Proof. unfold py_let. now intros ->. Qed.
Lemma py_strict_ok v k : py_ok v = true -> py_strict v k = k.
Proof. unfold py_strict. now intros ->. Qed.
Lemma py_obj_ok c l : all_ok l = true -> py_obj c l = VObj c l.
Proof. unfold py_obj. now intros ->. Qed.
Lemma py_tuple_ok l : all_ok l = true -> py_tuple l = VTuple l.
Proof. unfold py_tuple. now intros ->. Qed.
Lemma py_list_ok l : all_ok l = true -> py_list l = VList l.
Proof. unfold py_list. now intros ->. Qed.

Ltac ok_side :=
  first [ assumption
        | reflexivity
        | cbn [all_ok forallb py_ok andb]; repeat match goal with H : py_ok _ = true |- _ => rewrite H end; reflexivity ].
Ltac pyoks :=
  repeat (progress (
    repeat match goal with H : py_ok ?v = true |- _ =>
      progress (rewrite ?(py_ret_ok v H), ?(py_strict_ok v _ H), ?(py_let_ok v _ H)) end;
    repeat match goal with
    | |- context [py_obj ?c ?l] => rewrite (py_obj_ok c l) by ok_side
    | |- context [py_tuple ?l] => rewrite (py_tuple_ok l) by ok_side
    | |- context [py_list ?l] => rewrite (py_list_ok l) by ok_side
    end;
    pycbn)).

(** a str as the list of its character codes (Coq strings: characters 0..255) *)
From Coq Require Import Ascii NArith.
Definition str_codes (s : string) : list N := map N_of_ascii (list_ascii_of_string s).
Lemma ascii_code_eqb a c : (N_of_ascii a =? N_of_ascii c)%N = Ascii.eqb a c.
Proof.
  destruct (Ascii.eqb_spec a c) as [->|H]; [apply N.eqb_refl|].
  apply N.eqb_neq. intro E. apply H. rewrite <- (ascii_N_embedding a), <- (ascii_N_embedding c). now rewrite E.
Qed.
