(** * C19 o C01 o C04: an expired process, seen through the executor model and the world around it.

    The timeout model ([Model/Timeout.v]) assigns to every process start site the behaviour "raises
    HardErrorException" iff one of its processes exceeds the timeout in force ([lower tc], a test
    case of [Model/Exec.v]; [Proofs/TimeoutSim.v] proves the simulation).  Here that is composed
    with the executor ([full_execute], every test-case status), the outcome table
    ([translate_status], exit code) and the world ([World.process]): the C19 clause "the step is
    HARD_ERROR, cleanup still runs, the sandbox is removed" becomes a theorem about the executor
    model run on the lowered case. *)
From Coq Require Import ZArith List Bool Arith NArith Lia.
From Exactly Require Import Lib.Harness Model.Outcome Model.Exec Model.World Model.Timeout Spec.C01 Spec.C02 Spec.C19
  Proofs.ExecSpec Proofs.ExecCorollaries Proofs.WorldProofs Proofs.OutcomeTable
  Proofs.TimeoutSim Proofs.TimeoutExpiry Proofs.TimeoutBound Proofs.Compose.
Import ListNotations.

(** The lowered test case under an arbitrary test-case status ([lower] fixes PASS). *)
Definition with_status (mode : Outcome.tc_status) (tc : testcase) : testcase :=
  TC (tc_conf tc) (tc_setup tc) (tc_atc tc) (tc_before_assert tc) (tc_assert tc) (tc_cleanup tc) mode (tc_act_only tc).
Definition lower_mode (mode : Outcome.tc_status) (tc : tcase) : testcase := with_status mode (lower tc).

Lemma partial_execute_with_status mode tc : partial_execute (with_status mode tc) = partial_execute tc.
Proof. destruct tc. reflexivity. Qed.

Lemma full_execute_lower_mode mode tc :
  full_execute (lower_mode mode tc) =
  match mode with
  | TSkip => ([], FResult SKIPPED None false false)
  | _ => (erase (fst (texecute tc)),
          FResult (translate_status mode (option_map f_status (pr_failure (snd (texecute tc)))))
                  (pr_failure (snd (texecute tc))) true (pr_has_atc_outcome (snd (texecute tc))))
  end.
Proof.
  unfold full_execute, lower_mode.
  change (run_step (with_status mode (lower tc)) (Conf, SMain)) with (@nil event, @None failure).
  change (tc_status (with_status mode (lower tc))) with mode. cbn iota beta.
  rewrite partial_execute_with_status, texecute_is_partial_execute. cbn [fst snd app]. rewrite texecute_has_sds.
  destruct mode; reflexivity.
Qed.

(** the phase cleanup is told, as a function of the phase of the failing step *)
Definition prev_of_phase (p : phase) : prev_phase :=
  match p with Setup => PSetup | Exec.Act => PAct | BeforeAssert => PBeforeAssert | _ => PAssert end.

(** which failure is reported after a step failed with [site] and cleanup ended with [rc] *)
Definition pick (prev : prev_phase) (rc : option failure) (site : failure) : failure :=
  match prev with
  | PBeforeAssert => site
  | _ => match rc with Some f' => f' | None => site end
  end.

Lemma tmain_prev tc :
  let '(_, f0, _, prev, _) := tmain tc in forall f, f0 = Some f -> prev = prev_of_phase (f_phase f).
Proof.
  unfold tmain.
  pose proof (trun_list_failure Setup None (t_setup tc) 0 (TS (t_default tc) None)) as HS.
  destruct (trun_list Setup None 0 (TS (t_default tc) None) (t_setup tc)) as [[ts st1] rs]. cbn [snd] in HS.
  destruct rs as [f|].
  { intros f' [= <-]. destruct (HS f eq_refl) as [-> _]. reflexivity. }
  destruct (spawn_all Exec.Act 0 (s_timeout st1) (act_procs tc st1)) as [ta xa].
  destruct xa; [intros f' [= <-]; reflexivity|]. destruct (t_act_only tc); [discriminate|].
  pose proof (trun_list_failure BeforeAssert None (t_before_assert tc) 0 st1) as HB.
  destruct (trun_list BeforeAssert None 0 st1 (t_before_assert tc)) as [[t4 st2] r4]. cbn [snd] in HB.
  destruct r4 as [f|].
  { intros f' [= <-]. destruct (HB f eq_refl) as [-> _]. reflexivity. }
  pose proof (trun_list_failure Assert None (t_assert tc) 0 st2) as HA.
  destruct (trun_list Assert None 0 st2 (t_assert tc)) as [[t5 st3] r5]. cbn [snd] in HA.
  intros f' ->. destruct (HA f' eq_refl) as [-> _]. reflexivity.
Qed.

(** ** The first expiry, outside cleanup: exactly what follows and exactly what is reported *)
Theorem expiry_exact tc pre c post :
  fst (texecute tc) = pre ++ TCall c :: post -> exp_call c -> no_exp pre -> c_phase c <> Cleanup ->
  let prev := prev_of_phase (c_phase c) in
  post = fst (tcleanup tc prev (cleanup_entry tc)) /\
  pr_failure (snd (texecute tc)) = Some (pick prev (snd (tcleanup tc prev (cleanup_entry tc))) (site_failure c)).
Proof.
  intros E Hc Hpre Hnotcl. cbn zeta. unfold texecute, cleanup_entry in *.
  pose proof (texecute_st_shape tc) as Hs. pose proof (tmain_exp tc) as Hm. pose proof (tmain_prev tc) as Hpv.
  destruct (tmain tc) as [[[[tm f0] stc] prev] atc]. rewrite Hs in *. cbn [fst snd pr_failure] in *. clear Hs.
  pose proof (tcleanup_exp tc prev stc) as Hcl.
  destruct (tcleanup tc prev stc) as [tcl rc] eqn:Etc. cbn [fst snd] in *.
  destruct Hm as [Hba [Hm|(c1 & (pm & -> & Hpm & Hc1) & Hnc & Hf0 & Hb1 & Hb2)]].
  - exfalso. destruct Hcl as [Hcl|(c1 & (pc & -> & Hpc & Hc1) & Hp1 & Hrc)].
    + assert (Hall : no_exp (ok_steps tc block_validate ++ TEv ESandbox :: tm ++ tcl)).
      { apply no_exp_app; [apply no_exp_ok_steps|]. apply no_exp_ev, no_exp_app; assumption. }
      rewrite E in Hall. apply no_exp_app_inv in Hall as [_ Hall]. unfold no_exp in Hall. cbn in Hall.
      unfold exp_call in Hc. rewrite Hc in Hall. discriminate.
    + assert (E' : (ok_steps tc block_validate ++ TEv ESandbox :: tm ++ pc) ++ TCall c1 :: [] = pre ++ TCall c :: post).
      { rewrite <- E. rewrite <- !app_assoc. cbn. rewrite <- !app_assoc. reflexivity. }
      apply first_exp_unique in E' as (_ & -> & <-); try assumption.
      2:{ apply no_exp_app; [apply no_exp_ok_steps|]. apply no_exp_ev, no_exp_app; assumption. }
      contradiction.
  - assert (E' : (ok_steps tc block_validate ++ TEv ESandbox :: pm) ++ TCall c1 :: tcl = pre ++ TCall c :: post).
    { rewrite <- E. rewrite <- !app_assoc. cbn. rewrite <- !app_assoc. reflexivity. }
    apply first_exp_unique in E' as (_ & -> & <-); try assumption.
    2:{ apply no_exp_app; [apply no_exp_ok_steps|]. apply no_exp_ev, Hpm. }
    specialize (Hpv _ Hf0). change (f_phase (site_failure c)) with (c_phase c) in Hpv. subst prev f0.
    rewrite Etc. cbn [fst snd]. split; [reflexivity|].
    unfold pick. destruct (prev_of_phase (c_phase c)), rc; reflexivity.
Qed.

(** ** Composition with the executor, the outcome table and the world *)
Definition cleanup_failure (tc : tcase) (c : call) : option failure :=
  snd (tcleanup tc (prev_of_phase (c_phase c)) (cleanup_entry tc)).
Definition reported_after_expiry (tc : tcase) (c : call) : failure :=
  pick (prev_of_phase (c_phase c)) (cleanup_failure tc c) (site_failure c).

(** Executor level.  The k-th process ([pre] contains the earlier ones, none expired) started by a
    step outside cleanup expires.  Then [full_execute] of the lowered case, under ANY test-case
    status other than SKIP:
      (b) executes, after the events up to the step that started the process, nothing but the cleanup
          phase: its begin marker and the main steps of cleanup instructions 0..n-1 in order, all of
          them unless one fails;
      (c) cleanup is entered exactly once, told the phase of the expired step;
      (a) reports [reported_after_expiry]: the step that started the process, as HARD_ERROR - unless
          a cleanup instruction fails afterwards (its failure then replaces it; never after
          before-assert); the sandbox exists. *)
Theorem expiry_in_the_executor tc mode pre c post :
  fst (texecute tc) = pre ++ TCall c :: post -> exp_call c -> no_exp pre -> c_phase c <> Cleanup ->
  mode <> TSkip ->
  let prev := prev_of_phase (c_phase c) in
  let f := reported_after_expiry tc c in
  exists n,
    full_execute (lower_mode mode tc) =
      (erase pre ++ ECleanupBegin prev :: cleanup_mains prev 0 n,
       FResult (translate_status mode (Some (f_status f))) (Some f) true (pr_has_atc_outcome (snd (texecute tc)))) /\
    n <= length (t_cleanup tc) /\
    match cleanup_failure tc c with None => n = length (t_cleanup tc) | Some f' => n = S (f_idx f') end /\
    count_ev is_cleanup_begin (fst (full_execute (lower_mode mode tc))) = 1.
Proof.
  intros E Hc Hpre Hncl Hmode. cbn zeta.
  destruct (expiry_exact tc pre c post E Hc Hpre Hncl) as [Hpost Hf]. cbn zeta in Hpost, Hf.
  pose proof (cleanup_runs_in_order tc (prev_of_phase (c_phase c)) (cleanup_entry tc)) as Hord.
  unfold reported_after_expiry, cleanup_failure.
  destruct (tcleanup tc (prev_of_phase (c_phase c)) (cleanup_entry tc)) as [tcl rc] eqn:Etc. cbn [fst snd] in *.
  destruct Hord as (n & Her & Hn & Hrc). exists n.
  assert (Hfull : full_execute (lower_mode mode tc) =
    (erase pre ++ ECleanupBegin (prev_of_phase (c_phase c)) :: cleanup_mains (prev_of_phase (c_phase c)) 0 n,
     FResult (translate_status mode (Some (f_status (pick (prev_of_phase (c_phase c)) rc (site_failure c)))))
       (Some (pick (prev_of_phase (c_phase c)) rc (site_failure c)))
       true (pr_has_atc_outcome (snd (texecute tc))))).
  { rewrite full_execute_lower_mode, E, Hf, erase_app, erase_cons_call, Hpost, Her. cbn [option_map].
    destruct mode; [reflexivity|contradiction Hmode; reflexivity|reflexivity]. }
  split; [exact Hfull|]. split; [exact Hn|]. split; [exact Hrc|].
  rewrite full_execute_lower_mode. pose proof (cleanup_entered_once tc) as H1.
  destruct mode; [exact H1|contradiction Hmode; reflexivity|exact H1].
Qed.

(** (a) with the verdict spelled out: when no cleanup instruction fails afterwards (or the expired
    step is in before-assert), the case ends HARD_ERROR at exactly that step - status FAIL does not
    turn it into XFAIL - and the process exits 128. *)
Theorem expiry_is_hard_error_in_every_mode tc mode pre c post :
  fst (texecute tc) = pre ++ TCall c :: post -> exp_call c -> no_exp pre -> c_phase c <> Cleanup ->
  mode <> TSkip ->
  (c_phase c = BeforeAssert \/ cleanup_failure tc c = None) ->
  fr_status (snd (full_execute (lower_mode mode tc))) = HARD_ERROR /\
  fr_failure (snd (full_execute (lower_mode mode tc))) = Some (site_failure c) /\
  forall keep eff w,
    exit_value (snd (process keep (src_of (lower_mode mode tc)) eff w)) = (128%Z, IdFull HARD_ERROR).
Proof.
  intros E Hc Hpre Hncl Hmode Hclean.
  destruct (expiry_in_the_executor tc mode pre c post E Hc Hpre Hncl Hmode) as (n & Hfull & _). cbn zeta in Hfull.
  assert (Hrep : reported_after_expiry tc c = site_failure c).
  { unfold reported_after_expiry, pick. destruct Hclean as [-> | ->]; [reflexivity|].
    destruct (prev_of_phase (c_phase c)); reflexivity. }
  rewrite Hrep in Hfull. rewrite Hfull. cbn [snd fr_status fr_failure site_failure f_status].
  assert (Hst : translate_status mode (Some FHard) = HARD_ERROR) by (destruct mode; reflexivity).
  split; [exact Hst|]. split; [reflexivity|].
  intros keep eff w. rewrite (proj1 (process_parts keep _ eff w)). cbn [src_of access s_readable s_preprocess_ok
    s_includes_readable s_parses s_case negb]. cbn zeta. rewrite Hfull. cbn [snd fr_status site_failure f_status].
  rewrite Hst. reflexivity.
Qed.

(** an expiry inside cleanup: nothing at all runs afterwards; it is the reported HARD_ERROR unless
    cleanup was entered after a failure of before-assert (which stays the reported failure) *)
Theorem expiry_in_cleanup tc mode pre c post :
  fst (texecute tc) = pre ++ TCall c :: post -> exp_call c -> no_exp pre -> c_phase c = Cleanup ->
  mode <> TSkip ->
  exists f,
    full_execute (lower_mode mode tc) =
      (erase pre, FResult (translate_status mode (Some (f_status f))) (Some f) true (pr_has_atc_outcome (snd (texecute tc)))) /\
    (f = site_failure c \/ f_phase f = BeforeAssert).
Proof.
  intros E Hc Hpre Hcl Hmode.
  destruct (expiry_is_hard_error tc pre c post E Hc Hpre) as (_ & Hpost & _ & f & Hf & Hwhich).
  rewrite (Hpost Hcl) in E. exists f. split.
  - rewrite full_execute_lower_mode, E, Hf, erase_app, erase_cons_call. cbn [erase flat_map option_map]. rewrite app_nil_r.
    destruct mode; [reflexivity|contradiction Hmode; reflexivity|reflexivity].
  - destruct Hwhich as [H|[(H & _)|(_ & H)]]; [left; exact H|contradiction|right; exact H].
Qed.

(** (d) the world: whatever expires (anywhere, cleanup included) and however the case ends, under
    every status, the sandbox is removed unless --keep (then exactly the one fresh directory is
    left), and the current directory and the environment of the Exactly process are what they were. *)
Theorem world_after_timeout tc mode keep eff w :
  mode <> TSkip -> (forall r, In r (w_roots w) -> r < w_next w) ->
  let '(w', t, r) := process keep (src_of (lower_mode mode tc)) eff w in
  t = erase (fst (texecute tc)) /\
  existsb is_sandbox t = true /\
  w_roots w' = (if keep then w_next w :: w_roots w else w_roots w) /\ ~ In (w_next w) (w_roots w) /\
  w_cwd w' = w_cwd w /\ w_environ w' = w_environ w.
Proof.
  intros Hmode Hfresh. unfold process.
  cbn [src_of access s_readable s_preprocess_ok s_includes_readable s_parses s_case negb].
  pose proof (execute_in_world_parts keep (lower_mode mode tc) eff w) as [Ht Hr].
  pose proof (sandbox_removed_or_kept keep (lower_mode mode tc) eff w Hfresh) as Hroots.
  pose proof (cwd_restored keep (lower_mode mode tc) eff w) as Hcwd.
  pose proof (environ_untouched keep (lower_mode mode tc) eff w) as Henv.
  destruct (execute_in_world keep (lower_mode mode tc) eff w) as [[w' t] r]. cbn [fst snd] in *.
  assert (Hfull : full_execute (lower_mode mode tc) =
            (erase (fst (texecute tc)),
             FResult (translate_status mode (option_map f_status (pr_failure (snd (texecute tc)))))
                     (pr_failure (snd (texecute tc))) true (pr_has_atc_outcome (snd (texecute tc))))).
  { rewrite full_execute_lower_mode. destruct mode; [reflexivity|contradiction Hmode; reflexivity|reflexivity]. }
  assert (Hsds : fr_has_sds r = true) by (rewrite Hr, Hfull; reflexivity).
  rewrite Hsds in Hroots. destruct Hroots as [Hroots Hnin].
  split; [rewrite Ht, Hfull; reflexivity|].
  split; [rewrite Ht, has_sds_iff_sandbox_event, <- Hr; exact Hsds|].
  split; [destruct keep; exact Hroots|]. split; [exact Hnin|]. split; [exact Hcwd|exact Henv].
Qed.

(** Non-vacuity: the example of Props/C19.v (timeout = 2 set in setup; the second process of
    before-assert[1] needs 3 s; the limit is lifted in cleanup and a 100 s child is waited for),
    under status FAIL, with --keep and without. *)
Definition tc19 : tcase :=
  TCase (Some 60%N) [TSpawn [60%N; 0%N]; TSet (Some 2%N)] [1%N] true
        [TSpawn [2%N]; TSpawn [0%N; 3%N; 0%N]; TSpawn [0%N]] [TSpawn [0%N]]
        [TSet None; TSpawn [100%N]] false.
Definition the_call : call := Call BeforeAssert 1 (Some 2%N) 3%N.
Definition pre19 : list tev := firstn 39 (fst (texecute tc19)).
Definition post19 : list tev := skipn 40 (fst (texecute tc19)).
Example expiry_example :
  fst (texecute tc19) = pre19 ++ TCall the_call :: post19 /\ exp_call the_call /\ no_exp pre19 /\
  length (calls_of pre19) = 5 /\ cleanup_failure tc19 the_call = None /\
  fr_status (snd (full_execute (lower_mode TFail tc19))) = HARD_ERROR /\
  fr_failure (snd (full_execute (lower_mode TFail tc19))) = Some (Failure BeforeAssert SMain 1 FHard) /\
  filter is_cleanup_main (fst (full_execute (lower_mode TFail tc19))) =
    [EInstr Cleanup SMain 0 (Some PBeforeAssert); EInstr Cleanup SMain 1 (Some PBeforeAssert)] /\
  existsb (fun e => match e with EInstr Assert SMain _ _ => true | _ => false end)
          (fst (full_execute (lower_mode TFail tc19))) = false /\
  exit_value (snd (process false (src_of (lower_mode TFail tc19)) no_eff w1)) = (128%Z, IdFull HARD_ERROR) /\
  w_roots (fst (fst (process false (src_of (lower_mode TFail tc19)) no_eff w1))) = [] /\
  w_roots (fst (fst (process true (src_of (lower_mode TFail tc19)) no_eff w1))) = [5].
Proof. vm_compute. repeat split. Qed.

(** a cleanup instruction that fails after the expiry replaces it (not a HARD_ERROR of the expired
    step any more): the side condition of [expiry_is_hard_error_in_every_mode] is necessary *)
Definition tc19r : tcase := TCase (Some 1%N) [TSpawn [5%N]] [] false [] [] [TPlain BExn] false.
Theorem expiry_reported_unconditionally_refuted :
  exists tc pre c post,
    fst (texecute tc) = pre ++ TCall c :: post /\ exp_call c /\ no_exp pre /\ c_phase c <> Cleanup /\
    fr_status (snd (full_execute (lower_mode TPass tc))) = INTERNAL_ERROR /\
    option_map f_phase (fr_failure (snd (full_execute (lower_mode TPass tc)))) = Some Cleanup.
Proof.
  exists tc19r, (firstn 9 (fst (texecute tc19r))), (Call Setup 0 (Some 1%N) 5%N), (skipn 10 (fst (texecute tc19r))).
  split; [vm_compute; reflexivity|]. split; [reflexivity|]. split; [vm_compute; reflexivity|].
  split; [discriminate|]. split; vm_compute; reflexivity.
Qed.
