(** Composition C07 -> C01: the test case that is EXECUTED (Model/Exec.v) is a function of the per-phase
    instruction elements of the parsed document (Model/Doc.v) only; so the order in which the phases appear
    in the file does not influence execution, and a failure reported by the executor can be traced to the
    exact source lines of the failing instruction. *)
From Coq Require Import NArith List Bool Arith Lia.
From Exactly Require Import Model.Outcome Model.Exec.
From Exactly Require Import Model.Doc Spec.C07 Proofs.DocReader Proofs.DocOrder Proofs.DocLocated.
Import ListNotations.

Definition sec_of_phase (p : phase) : sec :=
  match p with
  | Conf => SConf | Setup => SSetup | Act => SAct | BeforeAssert => SBefore | Assert => SAssert | Cleanup => SCleanup
  end.

(** the instruction elements of a phase, in reading order (comments and empty lines dropped; elements of
    included files are already spliced in by the reader), and their source texts *)
Definition instr_elements (d : rawdoc) (s : sec) : list element := filter is_instr (d s).
Definition instr_sources (d : rawdoc) (s : sec) : list (list text) := map (fun e => ls_lines (e_src e)) (instr_elements d s).

Section ToTestcase.
  (** Instruction semantics is outside C07: oracles on the source text (and phase) of an instruction. *)
  Variable sem : sec -> list text -> instr.            (* an instruction of a phase other than [act] *)
  Variable act_sem : list text -> instr.               (* actor + action to check, from the act phase's source lines *)
  Variable status_of : list (list text) -> Outcome.tc_status.  (* the status in force after the conf phase *)
  Variable act_only : bool.

  Definition to_testcase (d : rawdoc) : testcase :=
    TC (map (sem SConf) (instr_sources d SConf))
       (map (sem SSetup) (instr_sources d SSetup))
       (act_sem (concat (instr_sources d SAct)))
       (map (sem SBefore) (instr_sources d SBefore))
       (map (sem SAssert) (instr_sources d SAssert))
       (map (sem SCleanup) (instr_sources d SCleanup))
       (status_of (instr_sources d SConf))
       act_only.

  Lemma instr_sources_contents : forall d s,
      instr_sources d s = map (fun c : content => fst (fst c)) (instr_contents (d s)).
  Proof. intros. unfold instr_sources, instr_elements, instr_contents. rewrite map_map. reflexivity. Qed.

  (** the executed test case depends on the per-phase instruction contents only *)
  Lemma to_testcase_ext : forall d d',
      (forall s, instr_contents (d' s) = instr_contents (d s)) -> to_testcase d' = to_testcase d.
  Proof.
    intros d d' H.
    assert (E : forall s, instr_sources d' s = instr_sources d s).
    { intros s. rewrite !instr_sources_contents, H. reflexivity. }
    unfold to_testcase. rewrite !E. reflexivity.
  Qed.

  (** ** Phase order does not influence execution *)
  Theorem phase_order_same_execution :
    forall iparse fs contents depth root path dir (C : block -> list content) bs bs',
      let fi := FileInfo path [] dir in
      let finc := flat_include iparse fs contents depth [root] fi in
      Forall header_ok bs -> Forall (fun b => self_contained iparse finc fi b (C b)) bs -> same_order bs bs' ->
      exists d d',
        parse_root iparse fs contents depth root path dir (doc_of_blocks bs) = Ok d /\
        parse_root iparse fs contents depth root path dir (doc_of_blocks bs') = Ok d' /\
        to_testcase d' = to_testcase d /\
        full_execute (to_testcase d') = full_execute (to_testcase d).
  Proof.
    intros iparse fs contents depth root path dir C bs bs' fi finc Hh Hsc Hso.
    destruct (phase_order_irrelevant iparse fs contents depth root path dir C bs bs' Hh Hsc Hso) as [d [d' [H1 [H2 H3]]]].
    exists d, d'. repeat split; try assumption.
    - apply to_testcase_ext. exact H3.
    - rewrite (to_testcase_ext d d' H3). reflexivity.
  Qed.

  (** ** Failures name an instruction of the test case *)
  Definition good_failure (tc : testcase) (f : failure) : Prop :=
    exists i, nth_error (instrs_of tc (f_phase f)) (f_idx f) = Some i /\ outcome (i (f_step f)) = Some (f_status f).

  Lemma run_list_failure : forall p k prev is_ idx0 t f,
      run_list p k prev idx0 is_ = (t, Some f) ->
      f_phase f = p /\ f_step f = k /\
      exists j i, f_idx f = (idx0 + j)%nat /\ nth_error is_ j = Some i /\ outcome (i k) = Some (f_status f).
  Proof.
    intros p k prev. induction is_ as [|i is' IH]; intros idx0 t f H; cbn [run_list] in H.
    - discriminate.
    - destruct (outcome (i k)) as [st|] eqn:E.
      + injection H as _ <-. cbn. repeat split. exists 0%nat, i. repeat split; [lia|assumption].
      + destruct (run_list p k prev (S idx0) is') as [t' r'] eqn:Er. injection H as _ ->.
        destruct (IH (S idx0) t' f Er) as [Hp [Hk [j [i' [Hi [Hn Ho]]]]]].
        repeat split; try assumption. exists (S j), i'. repeat split; [lia|assumption|assumption].
  Qed.

  Lemma run_step_good : forall tc pk t f, run_step tc pk = (t, Some f) -> good_failure tc f.
  Proof.
    intros tc pk t f H. unfold run_step in H.
    destruct (run_list_failure _ _ _ _ _ _ _ H) as [Hp [Hk [j [i [Hi [Hn Ho]]]]]].
    exists i. rewrite Hp, Hk, Hi. cbn. split; assumption.
  Qed.

  Lemma run_steps_good : forall tc ss t f, run_steps tc ss = (t, Some f) -> good_failure tc f.
  Proof.
    intros tc. induction ss as [|s ss IH]; intros t f H; cbn [run_steps] in H; [discriminate|].
    destruct (run_step tc s) as [t1 [f1|]] eqn:E1.
    - injection H as _ <-. eapply run_step_good; eassumption.
    - destruct (run_steps tc ss) as [t2 r2] eqn:E2. injection H as _ ->. eapply IH; reflexivity.
  Qed.

  Lemma run_cleanup_good : forall tc prev t f, run_cleanup tc prev = (t, Some f) -> good_failure tc f.
  Proof.
    intros tc prev t f H. unfold run_cleanup in H.
    destruct (run_list Cleanup SMain (Some prev) 0 (tc_cleanup tc)) as [t' r'] eqn:E. injection H as _ ->.
    destruct (run_list_failure _ _ _ _ _ _ _ E) as [Hp [Hk [j [i [Hi [Hn Ho]]]]]].
    exists i. rewrite Hp, Hk, Hi. cbn. split; assumption.
  Qed.

  Lemma with_cleanup_good : forall tc prev f t f',
      good_failure tc f -> with_cleanup_replace tc prev f = (t, f') -> good_failure tc f'.
  Proof.
    intros tc prev f t f' Hg H. unfold with_cleanup_replace in H.
    destruct (run_cleanup tc prev) as [tc' [fc|]] eqn:E; cbv beta iota in H; injection H as _ <-.
    - eapply run_cleanup_good; eassumption.
    - assumption.
  Qed.

  Lemma finish_good : forall tc prev pf t f',
      (forall f, pf = Some f -> good_failure tc f) ->
      finish_with_cleanup tc prev pf = (t, Some f') -> good_failure tc f'.
  Proof.
    intros tc prev pf t f' Hg H. unfold finish_with_cleanup in H.
    destruct (run_cleanup tc prev) as [tc' [fc|]] eqn:E; cbv beta iota in H; injection H as _ H.
    - subst fc. eapply run_cleanup_good; eassumption.
    - apply Hg. assumption.
  Qed.

  Lemma partial_execute_good : forall tc t pr f,
      partial_execute tc = (t, pr) -> pr_failure pr = Some f -> good_failure tc f.
  Proof.
    intros tc t pr f H Hf. unfold partial_execute in H.
    destruct (run_steps tc block_validate) as [t1 [f1|]] eqn:E1.
    { injection H as _ <-. cbn in Hf. injection Hf as <-. eapply run_steps_good; eassumption. }
    destruct (run_steps tc block_setup) as [t2 [f2|]] eqn:E2.
    { destruct (with_cleanup_replace tc PSetup f2) as [tcl f'] eqn:Ec. injection H as _ <-. cbn in Hf. injection Hf as <-.
      eapply with_cleanup_good; [|eassumption]. eapply run_steps_good; eassumption. }
    destruct (run_steps tc block_act) as [t3 [f3|]] eqn:E3.
    { destruct (with_cleanup_replace tc PAct f3) as [tcl f'] eqn:Ec. injection H as _ <-. cbn in Hf. injection Hf as <-.
      eapply with_cleanup_good; [|eassumption]. eapply run_steps_good; eassumption. }
    destruct (tc_act_only tc).
    { destruct (finish_with_cleanup tc PAct None) as [tcl r] eqn:Ec. injection H as _ <-. cbn in Hf. subst r.
      eapply finish_good; [|eassumption]. intros f0 Hf0. discriminate. }
    destruct (run_step tc (BeforeAssert, SMain)) as [t4 [f4|]] eqn:E4.
    { destruct (run_cleanup tc PBeforeAssert) as [tcl rr]. injection H as _ <-. cbn in Hf. injection Hf as <-.
      eapply run_step_good; eassumption. }
    destruct (run_step tc (Assert, SMain)) as [t5 r5] eqn:E5.
    destruct (finish_with_cleanup tc PAssert r5) as [tcl r] eqn:Ec. injection H as _ <-. cbn in Hf. subst r.
    eapply finish_good; [|eassumption]. intros f0 Hf0. subst r5. eapply run_step_good; eassumption.
  Qed.

  Theorem full_execute_good : forall tc t r f,
      full_execute tc = (t, r) -> fr_failure r = Some f -> good_failure tc f.
  Proof.
    intros tc t r f H Hf. unfold full_execute in H.
    destruct (run_step tc (Conf, SMain)) as [t0 [f0|]] eqn:E0.
    { injection H as _ <-. cbn in Hf. injection Hf as <-. eapply run_step_good; eassumption. }
    destruct (partial_execute tc) as [tp pr] eqn:Ep.
    destruct (tc_status tc); injection H as _ <-; cbn in Hf; try discriminate;
      eapply partial_execute_good; eassumption.
  Qed.

  (** ** ... and that instruction is an element of the document, with its exact source location *)
  Lemma instrs_of_to_testcase : forall d p,
      p <> Act -> instrs_of (to_testcase d) p = map (sem (sec_of_phase p)) (instr_sources d (sec_of_phase p)).
  Proof. intros d p Hp. destruct p; try reflexivity. contradiction. Qed.

  Theorem failure_traced_to_source :
    forall iparse fs contents depth root path dir ls d t r f,
      contents root = Some ls ->
      parse_root iparse fs contents depth root path dir ls = Ok d ->
      full_execute (to_testcase d) = (t, r) -> fr_failure r = Some f ->
      (f_phase f <> Act ->
       exists e, nth_error (instr_elements d (sec_of_phase (f_phase f))) (f_idx f) = Some e /\
                 e_kind e = KInstr /\
                 located_element fs contents root dir path (sec_of_phase (f_phase f)) e = true /\
                 outcome (sem (sec_of_phase (f_phase f)) (ls_lines (e_src e)) (f_step f)) = Some (f_status f)) /\
      (f_phase f = Act ->
       f_idx f = 0%nat /\
       outcome (act_sem (concat (instr_sources d SAct)) (f_step f)) = Some (f_status f) /\
       forall e, In e (instr_elements d SAct) -> located_element fs contents root dir path SAct e = true).
  Proof.
    intros iparse fs contents depth root path dir ls d t r f Hc Hp He Hf.
    destruct (full_execute_good _ _ _ _ He Hf) as [i [Hn Ho]].
    pose proof (source_location_exact iparse fs contents depth root path dir ls d Hc Hp) as Hloc.
    split.
    - intros Hna. rewrite (instrs_of_to_testcase d _ Hna) in Hn. unfold instr_sources in Hn. rewrite map_map in Hn.
      destruct (nth_error (instr_elements d (sec_of_phase (f_phase f))) (f_idx f)) as [e|] eqn:En.
      + rewrite (map_nth_error _ _ _ En) in Hn. injection Hn as <-.
        exists e. pose proof (nth_error_In _ _ En) as Hin. unfold instr_elements in Hin. apply filter_In in Hin as [Hin Hk].
        repeat split; try assumption.
        * unfold is_instr in Hk. destruct (e_kind e); try discriminate. reflexivity.
        * apply Hloc. assumption.
      + exfalso. apply nth_error_None in En.
        assert (Hlen : nth_error (map (fun x => sem (sec_of_phase (f_phase f)) (ls_lines (e_src x)))
                                      (instr_elements d (sec_of_phase (f_phase f)))) (f_idx f) = None).
        { apply nth_error_None. rewrite map_length. assumption. }
        congruence.
    - intros Ha. rewrite Ha in Hn. cbn [instrs_of to_testcase tc_atc] in Hn.
      destruct (f_idx f) as [|k] eqn:Ek.
      + cbn in Hn. injection Hn as <-. repeat split; try assumption.
        intros e Hin. unfold instr_elements in Hin. apply filter_In in Hin as [Hin _]. apply Hloc. assumption.
      + cbn in Hn. destruct k; discriminate.
  Qed.
End ToTestcase.
