(** * Source tie, target Outcome (C02): [translate_status] of execution/full_execution/result.py and the exit values
    of processing/exit_values.py as TRANSLATED FROM THE CURRENT SOURCE TEXT (Gen/Src_Outcome.v) against
    Model/Outcome.v.  The domains are finite enumerations: every lemma is a case analysis closed by computation. *)
From Coq Require Import ZArith List Bool String.
From Exactly Require Import Lib.PyVal Model.Outcome Gen.Src_Outcome Proofs.SrcTieOutcomeEnc.
Import ListNotations.
Local Open Scope Z_scope.

(** the members of the translated enum classes are exactly the encoded constructors of the model *)
Lemma tie_members :
  py_test_case_status_TestCaseStatus_members = map enc_tc [TPass; TSkip; TFail] /\
  py_result_ExecutionFailureStatus_members = map enc_fail [FSyntax; FValidation; FFail; FHard; FInternal] /\
  py_result_FullExeResultStatus_members
  = map enc_full [SYNTAX_ERROR; PASS; VALIDATION_ERROR; FAIL; SKIPPED; XFAIL; XPASS; HARD_ERROR; INTERNAL_ERROR] /\
  py_test_case_processing_AccessErrorType_members = map enc_access [FILE_ACCESS_ERROR; PRE_PROCESS_ERROR; ACC_SYNTAX_ERROR].
Proof. repeat split. Qed.

Theorem tie_translate_status mode ps :
  py_result_translate_status (enc_tc mode) (enc_opt_fail ps) = enc_full (translate_status mode ps).
Proof. destruct mode, ps as [[]|]; reflexivity. Qed.

(** exit_values.from_full_result / from_access_error: exit code and identifier *)
Theorem tie_from_full_result s :
  py_attr_exit_code (py_exit_values_from_full_result (enc_full s)) = VInt (exit_code_of_full s) /\
  py_attr_exit_identifier (py_exit_values_from_full_result (enc_full s)) = VStr (full_status_name s).
Proof. destruct s; split; reflexivity. Qed.

Theorem tie_from_access_error a :
  py_attr_exit_code (py_exit_values_from_access_error (enc_access a)) = VInt (fst (exit_value (AccessErr a))) /\
  py_attr_exit_identifier (py_exit_values_from_access_error (enc_access a))
  = VStr (ident_name (snd (exit_value (AccessErr a)))).
Proof. destruct a; split; reflexivity. Qed.

(** the [else] branch of exit_values.from_result *)
Theorem tie_internal_error :
  py_attr_exit_code py_exit_values_EXECUTION__INTERNAL_ERROR = VInt (fst (exit_value InternalErr)) /\
  py_attr_exit_identifier py_exit_values_EXECUTION__INTERNAL_ERROR = VStr (ident_name (snd (exit_value InternalErr))).
Proof. split; reflexivity. Qed.
