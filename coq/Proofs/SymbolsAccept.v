(** C08: validation by the model ([validate_all]: lazy look-ups, depth-first indirect check, fuel)
    accepts exactly the test cases the specification accepts ([spec_accept]: one pass with eager
    summaries); a rejection is always a validation error, never an escaping exception. *)
From Coq Require Import List Bool Arith NArith Lia.
From Exactly Require Import Lib.Harness Model.Exec Model.Symbols Spec.C08
  Proofs.SymbolsLazy Proofs.SymbolsReach Proofs.SymbolsSound.
Import ListNotations.

Definition is_exn (e : verr) : Prop := match e with VExn _ => True | _ => False end.

Lemma flat_map_ext_in' {A B} (f g : A -> list B) l :
  (forall a, In a l -> f a = g a) -> flat_map f l = flat_map g l.
Proof.
  induction l as [|a l IH]; intros H; [reflexivity|]. cbn [flat_map].
  rewrite (H a) by (left; reflexivity). rewrite IH; [reflexivity|]. intros b Hb. apply H. right. exact Hb.
Qed.

Section Accept.
  Variable roots : rel -> text.
  Notation Inv := (Inv roots).

  Lemma inv_entry t e n c :
    Inv t e -> lookup t n = Some c ->
    wf_container c = true /\
    exists d, find e n = Some d /\ d_type d = c_type c /\
              d_reach d = reach_of e (sdv_refs (c_sdv c)) /\
              (forall r, In r (sdv_refs (c_sdv c)) -> find e (r_name r) <> None).
  Proof.
    induction 1 as [|n0 c0 t e HI IH Hn Hwf Hok]; intros Hl; [discriminate|].
    assert (Hfn : find e n0 = None) by (apply (aligned_find_none roots t e n0 (inv_aligned roots t e HI) Hn)).
    assert (Hext : forall rs, (forall r, In r rs -> find e (r_name r) <> None) ->
                     reach_of (define roots e n0 c0) rs = reach_of e rs).
    { intros rs Hb. unfold reach_of. apply flat_map_ext_in'. intros r Hr.
      rewrite (find_define_other roots e n0 c0 (r_name r) Hfn (Hb r Hr)). reflexivity. }
    cbn [lookup] in Hl. rewrite find_define. destruct (N.eqb n0 n) eqn:E.
    - injection Hl as <-. split; [exact Hwf|]. eexists. split; [reflexivity|]. cbn [d_type d_reach].
      assert (Hb : forall r, In r (sdv_refs (c_sdv c0)) -> find e (r_name r) <> None).
      { intros r Hr. apply ref_ok_bound. apply Hok. exact Hr. }
      split; [reflexivity|]. split; [symmetry; apply Hext; exact Hb|].
      intros r Hr. rewrite find_define. destruct (N.eqb n0 (r_name r)); [discriminate|]. apply Hb. exact Hr.
    - destruct (IH Hl) as (Hwf' & d & Hd & Hty & Hreach & Hb). split; [exact Hwf'|].
      exists d. split; [exact Hd|]. split; [exact Hty|]. split.
      + rewrite Hreach. symmetry. apply Hext. exact Hb.
      + intros r Hr. rewrite find_define. destruct (N.eqb n0 (r_name r)); [discriminate|]. apply Hb. exact Hr.
  Qed.

  Lemma inv_lookup_of_find t e n : Inv t e -> find e n <> None -> lookup t n <> None.
  Proof.
    intros HI Hf Hl. apply Hf. apply (aligned_find_none roots t e n (inv_aligned roots t e HI) Hl).
  Qed.

  Lemma path_container_shape c : wf_container c = true -> (c_type c = TPath <-> exists p, c_sdv c = SPth p).
  Proof.
    destruct c as [ty s]. cbn [c_type c_sdv]. intros Hwf. split.
    - intros ->. destruct s; try discriminate Hwf. eexists. reflexivity.
    - intros (p & ->). destruct ty; try discriminate Hwf. reflexivity.
  Qed.

  Lemma vrestr_sat_ok t e v n c d :
    Inv t e -> lookup t n = Some c -> find e n = Some d ->
    vrestr_sat roots t v c = if vr_ok v d then Sat else Unsat.
  Proof.
    intros HI Hl Hf. destruct (inv_entry t e n c HI Hl) as (Hwf & d' & Hd' & Hty & _).
    rewrite Hf in Hd'. injection Hd' as <-.
    destruct v as [acc|rels ab]; cbn [vrestr_sat vr_ok].
    - rewrite Hty. reflexivity.
    - destruct (inv_good roots t e HI n d Hf) as [(v & Hv & Hk & Ha & _) _].
      destruct (c_sdv c) as [| |p|] eqn:Hs.
      1,2,4: (assert (Hnp : d_type d <> TPath);
              [rewrite Hty; intros Hp; apply (path_container_shape c Hwf) in Hp as (p & Hp); congruence|];
              destruct (d_type d); try reflexivity; contradiction).
      assert (Hp : d_type d = TPath) by (rewrite Hty; apply (path_container_shape c Hwf); eauto).
      rewrite <- Hs.
      assert (Hr := resolve_entry_eager roots t (inv_closed roots t e HI) [] n c (fuel_of t) false
                      (fun _ _ => eq_refl) Hl ltac:(unfold fuel_of; lia)).
      cbn [app] in Hr. rewrite Hr. clear Hr.
      rewrite Ha, Hp, Hv. rewrite Hp in Hk. destruct v as [| |rl ss|]; try discriminate Hk.
      destruct rl as [r|].
      + destruct (existsb (rel_eqb r) rels); reflexivity.
      + destruct ab; reflexivity.
  Qed.

  Lemma scan_ok t e v ns :
    Inv t e -> (forall m, In m ns -> find e m <> None) ->
    scan roots t v ns =
    if forallb (fun m => match find e m with Some dm => vr_ok v dm | None => false end) ns then Sat else Unsat.
  Proof.
    intros HI. induction ns as [|m ns IH]; intros Hb; [reflexivity|]. cbn [scan forallb].
    assert (Hm := Hb m (or_introl eq_refl)).
    destruct (lookup t m) as [c|] eqn:Hl; [|exfalso; exact (inv_lookup_of_find t e m HI Hm Hl)].
    destruct (find e m) as [d|] eqn:Hf; [|contradiction].
    rewrite (vrestr_sat_ok t e v m c d HI Hl Hf). destruct (vr_ok v d); [|reflexivity]. cbn [andb].
    apply IH. intros k Hk. apply Hb. right. exact Hk.
  Qed.

  Lemma di_sat_ok t e dv iv n c d :
    Inv t e -> lookup t n = Some c -> find e n = Some d ->
    di_sat roots t dv iv c = if di_ok e dv iv d then Sat else Unsat.
  Proof.
    intros HI Hl Hf. unfold di_sat, di_ok. rewrite (vrestr_sat_ok t e dv n c d HI Hl Hf).
    destruct (vr_ok dv d); [|reflexivity]. cbn [andb]. destruct iv as [v|]; [|reflexivity].
    destruct (inv_entry t e n c HI Hl) as (_ & d' & Hd' & _ & Hreach & Hb).
    rewrite Hf in Hd'. injection Hd' as <-.
    unfold fuel_of.
    rewrite (check_indirect_scan roots t v t (inv_closed roots t e HI) e [] (inv_aligned roots t e HI) eq_refl);
      [| reflexivity | | lia].
    - rewrite <- Hreach. apply scan_ok; [exact HI|].
      destruct (inv_good roots t e HI n d Hf) as [_ Hbound]. exact Hbound.
    - intros r Hr. apply (inv_lookup_of_find t e _ HI). apply Hb. exact Hr.
  Qed.

  Lemma restr_sat_ok t e r n c d :
    Inv t e -> lookup t n = Some c -> find e n = Some d ->
    restr_sat roots t r c = if restr_ok e r d then Sat else Unsat.
  Proof.
    intros HI Hl Hf. destruct (inv_entry t e n c HI Hl) as (_ & d' & Hd' & Hty & _).
    rewrite Hf in Hd'. injection Hd' as <-.
    destruct r as [expected|dv iv|parts]; cbn [restr_sat restr_ok].
    - rewrite Hty. reflexivity.
    - apply (di_sat_ok t e dv iv n c d HI Hl Hf).
    - rewrite Hty. destruct (wstr_of_vtype (c_type c)) as [w|]; [|reflexivity].
      destruct (find_part w parts) as [[dv iv]|]; [|reflexivity].
      apply (di_sat_ok t e dv iv n c d HI Hl Hf).
  Qed.

  Lemma validate_ref_ok t e r :
    Inv t e ->
    validate_ref roots t r =
    match find e (r_name r) with
    | None => Some (VUndefined (r_name r))
    | Some d => if restr_ok e (r_restr r) d then None else Some (VRestriction (r_name r))
    end.
  Proof.
    intros HI. unfold validate_ref. destruct (lookup t (r_name r)) as [c|] eqn:Hl.
    - destruct (aligned_find_some roots t e _ c (inv_aligned roots t e HI) Hl) as (d & Hf & _).
      rewrite Hf, (restr_sat_ok t e (r_restr r) _ c d HI Hl Hf). destruct (restr_ok e (r_restr r) d); reflexivity.
    - rewrite (aligned_find_none roots t e _ (inv_aligned roots t e HI) Hl). reflexivity.
  Qed.

  Lemma validate_refs_ok t e rs :
    Inv t e ->
    if forallb (ref_ok e) rs then validate_refs roots t rs = None
    else exists err, validate_refs roots t rs = Some err /\ ~ is_exn err.
  Proof.
    intros HI. induction rs as [|r rs IH]; [reflexivity|]. cbn [forallb validate_refs].
    rewrite (validate_ref_ok t e r HI). unfold ref_ok at 1.
    destruct (find e (r_name r)) as [d|].
    - destruct (restr_ok e (r_restr r) d); cbn [andb].
      + exact IH.
      + eexists. split; [reflexivity|]. intros [].
    - cbn [andb]. eexists. split; [reflexivity|]. intros [].
  Qed.

  Lemma contains_find t e n : Inv t e -> contains t n = existsb (fun d => N.eqb (d_name d) n) e.
  Proof.
    intros HI. unfold contains. induction HI as [|n0 c0 t e HI IH]; [reflexivity|].
    cbn [lookup existsb define d_name]. destruct (N.eqb n0 n); [reflexivity|]. exact IH.
  Qed.
  Lemma contains_false_lookup t n : contains t n = false -> lookup t n = None.
  Proof. unfold contains. destruct (lookup t n); [discriminate|reflexivity]. Qed.

  (** one instruction *)
  Lemma validate_instr_ok t e i :
    Inv t e -> wf_instr i = true ->
    if instr_ok e i
    then exists t', validate_usages roots t (usages_of i) = inl t' /\ Inv t' (env_after roots e i) /\
                    t' = match i with IDef n c => put t n c | _ => t end
    else exists err, validate_usages roots t (usages_of i) = inr err /\ ~ is_exn err.
  Proof.
    intros HI Hwf. destruct i as [n c|refs vals|hard]; cbn [instr_ok usages_of env_after].
    - cbn [validate_usages validate_usage]. rewrite (contains_find t e n HI).
      destruct (existsb (fun d => N.eqb (d_name d) n) e) eqn:Hc; cbn [negb andb].
      + eexists. split; [reflexivity|]. intros [].
      + assert (H := validate_refs_ok t e (sdv_refs (c_sdv c)) HI).
        destruct (forallb (ref_ok e) (sdv_refs (c_sdv c))) eqn:Hall.
        * rewrite H. eexists. split; [reflexivity|]. split; [|reflexivity].
          constructor; [exact HI| | exact Hwf |].
          -- apply contains_false_lookup. rewrite (contains_find t e n HI). exact Hc.
          -- intros r Hr. rewrite forallb_forall in Hall. apply Hall. exact Hr.
        * destruct H as (err & -> & Hne). eexists. split; [reflexivity|exact Hne].
    - assert (H : forall t0, Inv t0 e ->
                if forallb (ref_ok e) refs
                then validate_usages roots t0 (map URef refs) = inl t0
                else exists err, validate_usages roots t0 (map URef refs) = inr err /\ ~ is_exn err).
      { clear. intros t0 HI. induction refs as [|r rs IH]; [reflexivity|].
        cbn [map validate_usages validate_usage forallb]. rewrite (validate_ref_ok t0 e r HI). unfold ref_ok at 1.
        destruct (find e (r_name r)) as [d|].
        - destruct (restr_ok e (r_restr r) d); cbn [andb]; [exact IH|].
          eexists. split; [reflexivity|]. intros [].
        - cbn [andb]. eexists. split; [reflexivity|]. intros []. }
      specialize (H t HI). destruct (forallb (ref_ok e) refs).
      + exists t. auto.
      + exact H.
    - exists t. auto.
  Qed.

  Fixpoint env_afters (e : env) (is_ : list instr) : env :=
    match is_ with [] => e | i :: is' => env_afters (env_after roots e i) is' end.
  Lemma accept_from_app e a b :
    accept_from roots e (a ++ b) = accept_from roots e a && accept_from roots (env_afters e a) b.
  Proof.
    revert e. induction a as [|i a IH]; intros e; [reflexivity|]. cbn [app accept_from env_afters].
    rewrite IH. apply andb_assoc.
  Qed.
  Lemma env_afters_app e a b : env_afters e (a ++ b) = env_afters (env_afters e a) b.
  Proof. revert e. induction a as [|i a IH]; intros e; [reflexivity|]. cbn. apply IH. Qed.

  (** one phase *)
  Lemma validate_phase_ok is_ : forall t e idx,
    Inv t e -> forallb wf_instr is_ = true ->
    if accept_from roots e is_
    then validate_phase roots t idx is_ = inl (puts t is_) /\ Inv (puts t is_) (env_afters e is_)
    else exists j err, validate_phase roots t idx is_ = inr (j, err) /\ ~ is_exn err.
  Proof.
    induction is_ as [|i is_ IH]; intros t e idx HI Hwf; [cbn; auto|].
    cbn [forallb] in Hwf. apply andb_true_iff in Hwf as [Hwi Hwf].
    cbn [accept_from validate_phase]. assert (H := validate_instr_ok t e i HI Hwi).
    destruct (instr_ok e i); cbn [andb].
    - destruct H as (t' & -> & HI' & ->).
      specialize (IH _ _ (S idx) HI' Hwf).
      assert (Hp : puts t (i :: is_) = puts match i with IDef n c => put t n c | _ => t end is_)
        by (destruct i; reflexivity).
      cbn [env_afters]. rewrite Hp. exact IH.
    - destruct H as (err & -> & Hne). eexists _, _. split; [reflexivity|exact Hne].
  Qed.
End Accept.
