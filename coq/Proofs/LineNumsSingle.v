(** C13 part 2: each single-range streaming transformer of sources.py (the "pocket" algorithms)
    produces exactly the lines of the reference semantics; [single_range_correct] for the
    dispatch of transformers._SingleRangeSourceConstructor. *)
From Coq Require Import ZArith List Bool Lia ZifyBool.
From Exactly Require Import Model.LineNums Spec.C13b Proofs.LineNumsLists.
Import ListNotations.
Local Open Scope Z_scope.

Lemma abs_num_neg : forall N n, n < 0 -> abs_num N n = N + n + 1.
Proof. intros. unfold abs_num. now replace (n <? 0) with true by lia. Qed.
Lemma abs_num_nonneg : forall N n, 0 <= n -> abs_num N n = n.
Proof. intros. unfold abs_num. now replace (n <? 0) with false by lia. Qed.

Section S.
  Context {A : Type}.
  Implicit Types ls p : list A.

  Lemma fs_eq : forall ls (a a' b b' : nat), a = a' -> b = b' ->
      firstn a (skipn b ls) = firstn a' (skipn b' ls).
  Proof. intros; subst; reflexivity. Qed.

  Lemma nonnil_length : forall ls, (0 < length ls)%nat -> ls <> [].
  Proof. intros [|] H; [cbn in H; lia|discriminate]. Qed.

  Lemma firstn_skipn_all : forall ls (n : nat), (length ls <= n)%nat -> skipn n ls = [].
  Proof. intros. now apply skipn_all2. Qed.

  Lemma head_of_skipn : forall ls (n : nat), (n < length ls)%nat ->
      match skipn n ls with [] => None | x :: _ => Some [x] end = Some (firstn 1 (skipn n ls)).
  Proof.
    intros ls n H. destruct (skipn n ls) eqn:E; [|reflexivity].
    apply (f_equal (@length A)) in E. rewrite skipn_length in E. cbn in E. lia.
  Qed.

  Lemma firstn_plus : forall (s z : nat) ls, firstn s ls ++ firstn z (skipn s ls) = firstn (s + z) ls.
  Proof.
    induction s as [|s IH]; intros z [|l ls]; cbn; try reflexivity.
    - now rewrite firstn_nil.
    - f_equal. apply IH.
  Qed.

  Lemma skipn_plus : forall (s z : nat) ls, skipn z (skipn s ls) = skipn (s + z) ls.
  Proof.
    induction s as [|s IH]; intros z [|l ls]; cbn; try reflexivity.
    - now rewrite skipn_nil.
    - apply IH.
  Qed.

  (** the pocket after [_forward_pocket_to_lower_limit], followed by the unread lines *)
  Lemma pocket_after_forward : forall ls (s z : nat), (z + s <= length ls)%nat ->
      skipn z (firstn s ls ++ firstn z (skipn s ls)) ++ skipn z (skipn s ls) = skipn z ls.
  Proof.
    intros ls s z H. rewrite firstn_plus, skipn_plus.
    rewrite <- (firstn_skipn (s + z) ls) at 3. rewrite skipn_app.
    replace (z - length (firstn (s + z) ls))%nat with 0%nat by (rewrite firstn_length; lia).
    rewrite skipn_O. reflexivity.
  Qed.

  (** **** the counting transformers *)
  Lemma single_non_neg_go_spec : forall ls req cur, cur <= req ->
      single_non_neg_go req cur ls = firstn 1 (skipn (Z.to_nat (req - cur)) ls).
  Proof.
    induction ls as [|l ls IH]; intros req cur H; cbn [single_non_neg_go].
    - now rewrite skipn_nil.
    - destruct (req =? cur) eqn:E.
      + replace (Z.to_nat (req - cur)) with 0%nat by lia. reflexivity.
      + replace (Z.to_nat (req - cur)) with (S (Z.to_nat (req - (cur + 1)))) by lia. cbn [skipn].
        apply IH. lia.
  Qed.

  Lemma upper_non_neg_go_spec : forall ls limit cur, cur <= limit ->
      upper_non_neg_go limit cur ls = firstn (Z.to_nat (limit - cur + 1)) ls.
  Proof.
    induction ls as [|l ls IH]; intros limit cur H; cbn [upper_non_neg_go].
    - now rewrite firstn_nil.
    - replace (Z.to_nat (limit - cur + 1)) with (S (Z.to_nat (limit - cur))) by lia. cbn [firstn]. f_equal.
      destruct (limit =? cur) eqn:E.
      + replace (Z.to_nat (limit - cur)) with 0%nat by lia. reflexivity.
      + rewrite IH by lia. f_equal. lia.
  Qed.

  (** **** N (positive) *)
  Lemma single_pos_correct : forall ls n, 0 < n ->
      single_non_neg (n - 1) ls = Some (line_nums_spec [RSingle n] ls).
  Proof.
    intros ls n H. unfold single_non_neg. rewrite single_non_neg_go_spec by lia.
    rewrite (spec_one_between (RSingle n) ls n n); [|lia|].
    - f_equal. apply fs_eq; lia.
    - intros k Hk. cbn [in_range]. rewrite abs_num_nonneg by lia. unfold between. lia.
  Qed.

  (** **** N (negative) *)
  Lemma single_neg_correct : forall ls n, n < 0 ->
      single_neg n ls = Some (line_nums_spec [RSingle n] ls).
  Proof.
    intros ls n H. unfold single_neg, filled_pocket. rewrite limited_spec by lia.
    unfold len. rewrite firstn_length.
    destruct (Z.of_nat (Nat.min (Z.to_nat (Z.abs n)) (length ls)) <? Z.abs n) eqn:E.
    - rewrite spec_one_empty; [reflexivity|].
      intros k Hk. cbn [in_range]. rewrite abs_num_neg by lia. lia.
    - rewrite rotate_all_spec by (apply nonnil_length; rewrite firstn_length; lia).
      rewrite firstn_skipn, skipn_length.
      rewrite head_of_skipn by lia.
      rewrite (spec_one_between (RSingle n) ls (Z.of_nat (length ls) + n + 1) (Z.of_nat (length ls) + n + 1)); [|lia|].
      + f_equal. apply fs_eq; lia.
      + intros k Hk. cbn [in_range]. rewrite abs_num_neg by lia. unfold between. lia.
  Qed.

  (** **** :N (positive) *)
  Lemma upper_pos_correct : forall ls n, 0 < n ->
      upper_non_neg (n - 1) ls = Some (line_nums_spec [RUpper n] ls).
  Proof.
    intros ls n H. unfold upper_non_neg. rewrite upper_non_neg_go_spec by lia.
    rewrite (spec_one_between (RUpper n) ls 1 n); [|lia|].
    - f_equal. rewrite skipn_O. f_equal. lia.
    - intros k Hk. cbn [in_range]. rewrite abs_num_nonneg by lia. unfold between. lia.
  Qed.

  (** **** :N (negative) *)
  Lemma upper_neg_correct : forall ls n, n < 0 ->
      upper_neg n ls = Some (line_nums_spec [RUpper n] ls).
  Proof.
    intros ls n H. unfold upper_neg, filled_pocket. rewrite limited_spec by lia.
    unfold len. rewrite firstn_length.
    destruct (Z.of_nat (Nat.min (Z.to_nat (Z.abs n)) (length ls)) <? Z.abs n) eqn:E.
    - rewrite spec_one_empty; [reflexivity|].
      intros k Hk. cbn [in_range]. rewrite abs_num_neg by lia. lia.
    - destruct (firstn (Z.to_nat (Z.abs n)) ls) as [|x p'] eqn:Ep.
      + apply (f_equal (@length A)) in Ep. rewrite firstn_length in Ep. cbn in Ep. lia.
      + rewrite head_then_rotate_yielding. rewrite <- Ep, firstn_skipn, skipn_length.
        rewrite (spec_one_between (RUpper n) ls 1 (Z.of_nat (length ls) + n + 1)); [|lia|].
        * f_equal. rewrite skipn_O. f_equal. lia.
        * intros k Hk. cbn [in_range]. rewrite abs_num_neg by lia. unfold between. lia.
  Qed.

  (** **** N: (non-negative: zero-based limit [max (n-1) 0]) *)
  Lemma lower_non_neg_correct : forall ls n zb, 0 <= n -> zb = Z.max (n - 1) 0 ->
      lower_non_neg zb ls = Some (line_nums_spec [RLower n] ls).
  Proof.
    intros ls n zb H ->. unfold lower_non_neg. rewrite skip_spec by lia.
    rewrite (spec_one_between (RLower n) ls (Z.max n 1) (Z.of_nat (length ls))); [|lia|].
    - f_equal. rewrite firstn_ge by (rewrite skipn_length; lia). f_equal. lia.
    - intros k Hk. cbn [in_range]. rewrite abs_num_nonneg by lia. unfold between. lia.
  Qed.

  (** **** N: (negative) *)
  Lemma lower_neg_correct : forall ls n, n < 0 ->
      lower_neg n ls = Some (line_nums_spec [RLower n] ls).
  Proof.
    intros ls n H. unfold lower_neg, filled_pocket. rewrite limited_spec by lia.
    rewrite rotate_all_spec'.
    2:{ destruct (Z_lt_le_dec (Z.of_nat (length ls)) (Z.abs n)).
        - right. apply firstn_skipn_all. lia.
        - left. apply nonnil_length. rewrite firstn_length. lia. }
    rewrite firstn_skipn, skipn_length.
    rewrite (spec_one_between (RLower n) ls (Z.max (Z.of_nat (length ls) + n + 1) 1) (Z.of_nat (length ls))); [|lia|].
    - f_equal. rewrite firstn_ge by (rewrite skipn_length; lia). f_equal. lia.
    - intros k Hk. cbn [in_range]. rewrite abs_num_neg by lia. unfold between. lia.
  Qed.

  (** **** N:M (both non-negative, N <= M, M <> 0) *)
  Lemma both_non_neg_correct : forall ls lo hi, 0 <= lo -> lo <= hi -> hi <> 0 ->
      lower_non_neg_upper_non_neg (if 0 <? lo then lo - 1 else lo) (hi - 1) ls
      = Some (line_nums_spec [RBoth lo hi] ls).
  Proof.
    intros ls lo hi H1 H2 H3. unfold lower_non_neg_upper_non_neg.
    assert (Hz : (if 0 <? lo then lo - 1 else lo) = Z.max lo 1 - 1) by (destruct (0 <? lo) eqn:E; lia).
    rewrite Hz. rewrite skip_spec by lia. rewrite limited_spec by lia. cbn [fst].
    rewrite (spec_one_between (RBoth lo hi) ls (Z.max lo 1) hi); [|lia|].
    - f_equal. apply fs_eq; lia.
    - intros k Hk. cbn [in_range]. rewrite !abs_num_nonneg by lia. unfold between. lia.
  Qed.

  (** **** N:M (N non-negative, M negative) *)
  Lemma lower_non_neg_upper_neg_correct : forall ls lo hi, 0 <= lo -> hi < 0 ->
      lower_non_neg_upper_neg (if 0 <? lo then lo - 1 else lo) hi ls
      = Some (line_nums_spec [RBoth lo hi] ls).
  Proof.
    intros ls lo hi H1 H2. unfold lower_non_neg_upper_neg, filled_pocket.
    assert (Hz : (if 0 <? lo then lo - 1 else lo) = Z.max lo 1 - 1) by (destruct (0 <? lo) eqn:E; lia).
    rewrite Hz. set (zb := Z.max lo 1 - 1). assert (Hzb : 0 <= zb) by lia.
    set (N := Z.of_nat (length ls)).
    assert (Hspec : forall k, 1 <= k <= N -> in_range N (RBoth lo hi) k = between (zb + 1) (N + hi + 1) k).
    { intros k Hk. cbn [in_range]. rewrite abs_num_nonneg, abs_num_neg by lia. unfold between. lia. }
    rewrite limited_spec by lia.
    unfold len. rewrite firstn_length.
    destruct (Z.of_nat (Nat.min (Z.to_nat (Z.abs hi)) (length ls)) <? Z.abs hi) eqn:E.
    { rewrite spec_one_empty; [reflexivity|]. intros k Hk. fold N in Hk |- *. rewrite Hspec by lia. unfold between. lia. }
    rewrite limited_spec by lia.
    rewrite forward_go_spec by (left; apply nonnil_length; rewrite firstn_length; lia).
    rewrite firstn_length, skipn_length.
    match goal with |- context [negb (?x =? 0)] => destruct (negb (x =? 0)) eqn:E2 end.
    { rewrite spec_one_empty; [reflexivity|]. intros k Hk. fold N in Hk |- *. rewrite Hspec by lia. unfold between. lia. }
    (* the pocket now is lines [zb .. zb + |hi|) *)
    set (s := Z.to_nat (Z.abs hi)) in *. set (z := Z.to_nat zb) in *.
    replace (Nat.min z (length ls - s)) with z by lia.
    assert (Hp := pocket_after_forward ls s z ltac:(lia)).
    destruct (skipn z (firstn s ls ++ firstn z (skipn s ls))) as [|x p'] eqn:Ep.
    { apply (f_equal (@length A)) in Ep. rewrite skipn_length, app_length, !firstn_length, skipn_length in Ep.
      cbn in Ep. lia. }
    rewrite head_then_rotate_yielding, Hp, !skipn_length.
    rewrite (spec_one_between (RBoth lo hi) ls (zb + 1) (N + hi + 1)); [|lia|exact Hspec].
    f_equal. apply fs_eq; lia.
  Qed.

  (** **** N:M (N negative, M positive) *)
  Lemma lower_neg_upper_non_neg_correct : forall ls lo hi, lo < 0 -> 0 < hi ->
      lower_neg_upper_non_neg lo (if 0 <? hi then hi - 1 else hi) ls
      = Some (line_nums_spec [RBoth lo hi] ls).
  Proof.
    intros ls lo hi H1 H2. unfold lower_neg_upper_non_neg, filled_pocket.
    replace (0 <? hi) with true by lia.
    set (N := Z.of_nat (length ls)).
    assert (Hspec : forall k, 1 <= k <= N -> in_range N (RBoth lo hi) k = between (Z.max (N + lo + 1) 1) hi k).
    { intros k Hk. cbn [in_range]. rewrite (abs_num_neg _ lo), (abs_num_nonneg _ hi) by lia. unfold between. lia. }
    rewrite limited_spec by lia.
    set (s := Z.to_nat (Z.abs lo)).
    rewrite lnun_go_spec.
    2:{ destruct (Z_lt_le_dec N (Z.abs lo)).
        - right. apply firstn_skipn_all. lia.
        - left. apply nonnil_length. rewrite firstn_length. lia. }
    rewrite firstn_skipn, skipn_length.
    destruct (hi - 1 <? 0 + Z.of_nat (length ls - s)) eqn:E.
    - destruct (skipn s ls) eqn:Es.
      + apply (f_equal (@length A)) in Es. rewrite skipn_length in Es. cbn in Es. lia.
      + cbn [is_nil]. rewrite spec_one_empty; [reflexivity|].
        intros k Hk. fold N in Hk |- *. rewrite Hspec by lia. unfold between. lia.
    - rewrite produce_spec by lia.
      rewrite (spec_one_between (RBoth lo hi) ls (Z.max (N + lo + 1) 1) hi); [|lia|exact Hspec].
      f_equal. apply fs_eq; lia.
  Qed.

  (** **** N:M (both negative, N <= M) *)
  Lemma both_neg_correct : forall ls lo hi, lo <= hi -> hi < 0 ->
      lower_neg_upper_neg lo hi ls = Some (line_nums_spec [RBoth lo hi] ls).
  Proof.
    intros ls lo hi H1 H2. unfold lower_neg_upper_neg, filled_pocket.
    set (N := Z.of_nat (length ls)).
    assert (Hspec : forall k, 1 <= k <= N -> in_range N (RBoth lo hi) k = between (Z.max (N + lo + 1) 1) (N + hi + 1) k).
    { intros k Hk. cbn [in_range]. rewrite !abs_num_neg by lia. unfold between. lia. }
    rewrite limited_spec by lia.
    set (s := Z.to_nat (Z.abs lo)).
    unfold len. rewrite firstn_length.
    destruct (negb (Z.abs lo - Z.of_nat (Nat.min s (length ls)) =? 0)) eqn:E1; cbn [andb].
    - (* fewer lines than |lo| *)
      match goal with |- context [if ?c then _ else _] => destruct c eqn:E2 end.
      + rewrite spec_one_empty; [reflexivity|].
        intros k Hk. fold N in Hk |- *. rewrite Hspec by lia. unfold between. lia.
      + rewrite (firstn_skipn_all ls s) by lia. rewrite rotate_all_nil.
        rewrite produce_spec by lia.
        rewrite (spec_one_between (RBoth lo hi) ls (Z.max (N + lo + 1) 1) (N + hi + 1)); [|lia|exact Hspec].
        f_equal. rewrite (firstn_ge s ls) by lia.
        replace (Z.to_nat (Z.max (N + lo + 1) 1 - 1)) with 0%nat by lia. rewrite skipn_O. f_equal. lia.
    - rewrite rotate_all_spec by (apply nonnil_length; rewrite firstn_length; lia).
      rewrite firstn_skipn, skipn_length.
      rewrite produce_spec by lia.
      rewrite (spec_one_between (RBoth lo hi) ls (Z.max (N + lo + 1) 1) (N + hi + 1)); [|lia|exact Hspec].
      f_equal. apply fs_eq; lia.
  Qed.

  (** **** ranges that select nothing *)
  Lemma zero_single_empty : forall ls, line_nums_spec [RSingle 0] ls = [].
  Proof. intros. apply spec_one_empty. intros k Hk. cbn. lia. Qed.
  Lemma zero_upper_empty : forall ls, line_nums_spec [RUpper 0] ls = [].
  Proof. intros. apply spec_one_empty. intros k Hk. cbn. lia. Qed.
  Lemma both_upper_zero_empty : forall ls lo, line_nums_spec [RBoth lo 0] ls = [].
  Proof. intros. apply spec_one_empty. intros k Hk. cbn [in_range]. rewrite (abs_num_nonneg _ 0) by lia. lia. Qed.
  Lemma both_reversed_empty : forall ls lo hi, hi < lo -> (0 <= lo /\ 0 <= hi) \/ (lo < 0 /\ hi < 0) ->
      line_nums_spec [RBoth lo hi] ls = [].
  Proof.
    intros ls lo hi H [[H1 H2]|[H1 H2]]; apply spec_one_empty; intros k Hk; cbn [in_range].
    - rewrite !abs_num_nonneg by lia. lia.
    - rewrite !abs_num_neg by lia. lia.
  Qed.

  (** *** transformers._SingleRangeSourceConstructor: every range form, every sign combination *)
  Theorem single_range_correct : forall (r : range) ls,
      single_range_transform r ls = Some (line_nums_spec [r] ls).
  Proof.
    intros [n|lo|hi|lo hi] ls; cbn [single_range_transform].
    - destruct (n =? 0) eqn:E0; [replace n with 0 by lia; now rewrite zero_single_empty|].
      destruct (0 <? n) eqn:E1; [apply single_pos_correct|apply single_neg_correct]; lia.
    - destruct (lo =? 0) eqn:E0; [apply lower_non_neg_correct; lia|].
      destruct (0 <? lo) eqn:E1; [apply lower_non_neg_correct|apply lower_neg_correct]; lia.
    - destruct (hi =? 0) eqn:E0; [replace hi with 0 by lia; now rewrite zero_upper_empty|].
      destruct (0 <? hi) eqn:E1; [apply upper_pos_correct|apply upper_neg_correct]; lia.
    - destruct (hi =? 0) eqn:E0; [replace hi with 0 by lia; now rewrite both_upper_zero_empty|].
      destruct (0 <=? lo) eqn:E1; destruct (0 <=? hi) eqn:E2.
      + destruct (hi <? lo) eqn:E3; [rewrite both_reversed_empty by lia; reflexivity|].
        apply both_non_neg_correct; lia.
      + apply lower_non_neg_upper_neg_correct; lia.
      + apply lower_neg_upper_non_neg_correct; lia.
      + destruct (hi <? lo) eqn:E3; [rewrite both_reversed_empty by lia; reflexivity|].
        apply both_neg_correct; lia.
  Qed.
End S.
