(** C20: the HTML target renderer (help/html_doc/cross_ref_target_renderer.py) gives different anchors to different
    cross-reference targets — except for entity names that differ only in ' ' versus '-'. *)
From Coq Require Import List Bool String Ascii.
From Exactly Require Import Model.Help.
Import ListNotations.
Local Open Scope string_scope.

Fixpoint dotfree (s : string) : bool :=
  match s with EmptyString => true | String c r => negb (Ascii.eqb c "."%char) && dotfree r end.

(** names that become part of a dotted path before another component *)
Definition ref_dotfree (x : cross_ref) : bool :=
  match x with
  | XEntity t _ => dotfree t
  | XPhaseInstruction p _ => dotfree p
  | XSuiteSectionInstruction s _ => dotfree s
  | _ => true
  end.

(** the only way two different targets can share an anchor *)
Definition same_anchor_class (x y : cross_ref) : Prop :=
  x = y \/ exists t n n', x = XEntity t n /\ y = XEntity t n' /\ replace_space n = replace_space n'.

Lemma split_at_dot : forall p p' i i',
  dotfree p = true -> dotfree p' = true -> p ++ "." ++ i = p' ++ "." ++ i' -> p = p' /\ i = i'.
Proof.
  induction p as [|c p IH]; intros p' i i' Hp Hp' E.
  - destruct p' as [|c' p'].
    + cbn in E. injection E as E. split; [reflexivity | exact E].
    + cbn in E. injection E as Ec E. subst c'. cbn in Hp'. discriminate.
  - destruct p' as [|c' p'].
    + cbn in E. injection E as Ec E. subst c. cbn in Hp. discriminate.
    + cbn in E. injection E as Ec E. subst c'. cbn in Hp, Hp'.
      apply andb_true_iff in Hp as [_ Hp]. apply andb_true_iff in Hp' as [_ Hp'].
      destruct (IH p' i i' Hp Hp' E) as [-> ->]. split; reflexivity.
Qed.

Theorem html_target_injective : forall x y,
  ref_dotfree x = true -> ref_dotfree y = true -> html_target x = html_target y -> same_anchor_class x y.
Proof.
  intros x y Hx Hy E.
  destruct x, y; cbn [html_target] in E; cbn [ref_dotfree] in Hx, Hy;
    try (exfalso; cbn in E; discriminate E).
  - (* entity / entity *)
    cbn in E. injection E as E.
    destruct (split_at_dot _ _ _ _ Hx Hy E) as [-> E2].
    right. exists entity_type0, entity_name, entity_name0. repeat split. exact E2.
  - cbn in E. injection E as E. left. subst. reflexivity.
  - cbn in E. injection E as E. destruct (split_at_dot _ _ _ _ Hx Hy E) as [-> ->]. left. reflexivity.
  - cbn in E. injection E as E. left. subst. reflexivity.
  - cbn in E. injection E as E. destruct (split_at_dot _ _ _ _ Hx Hy E) as [-> ->]. left. reflexivity.
  - cbn in E. injection E as E. left. subst. reflexivity.
  - cbn in E. injection E as E. left. subst. reflexivity.
Qed.

Lemma replace_space_id : forall s, replace_space (replace_space s) = replace_space s.
Proof.
  induction s as [|c s IH]; [reflexivity|]. cbn [replace_space].
  destruct (Ascii.eqb c " "%char) eqn:E; cbn; rewrite IH; [reflexivity|]. rewrite E. reflexivity.
Qed.
