(** C09: TokenStream.consume (as repaired) never raises IndexError, whatever the source and the
    lexer state; consuming the rest of a line acts on (source, position) only. *)
From Coq Require Import NArith List Bool Arith Lia.
From Exactly Require Import Lib.Harness Model.Tok Spec.C09 Proofs.TokLex Proofs.TokStream.
Import ListNotations.
Local Open Scope N_scope.

Arguments is_shlex_ws : simpl never.
Arguments is_quote : simpl never.

(** * the lexer reads forward *)
Lemma lex_go_mono : forall inp st qd tok n r k e, lex_go st qd tok n inp = (r, k, e) -> (n <= k)%nat.
Proof.
  induction inp as [|c inp IH]; intros st qd tok n r k e H.
  - cbn in H. destruct st; injection H as _ <- _; lia.
  - cbn [lex_go] in H. destruct st as [| |q].
    + destruct (is_shlex_ws c).
      * destruct (nonempty tok || qd); [injection H as _ <- _; lia | apply IH in H; lia].
      * destruct (is_quote c); apply IH in H; lia.
    + destruct (is_shlex_ws c).
      * destruct (nonempty tok || qd); [injection H as _ <- _; lia | apply IH in H; lia].
      * destruct (is_quote c); apply IH in H; lia.
    + destruct (c =? q); apply IH in H; lia.
Qed.

Lemma lex_go_bound : forall inp st qd tok n r k e, lex_go st qd tok n inp = (r, k, e) -> (k <= n + length inp)%nat.
Proof.
  induction inp as [|c inp IH]; intros st qd tok n r k e H.
  - cbn in H. destruct st; injection H as _ <- _; cbn; lia.
  - cbn [lex_go] in H. cbn [length]. destruct st as [| |q].
    + destruct (is_shlex_ws c).
      * destruct (nonempty tok || qd); [injection H as _ <- _; lia | apply IH in H; lia].
      * destruct (is_quote c); apply IH in H; lia.
    + destruct (is_shlex_ws c).
      * destruct (nonempty tok || qd); [injection H as _ <- _; lia | apply IH in H; lia].
      * destruct (is_quote c); apply IH in H; lia.
    + destruct (c =? q); apply IH in H; lia.
Qed.

(** a token was delivered: a character that is not lexer white space was read *)
Lemma lex_go_tok_has_nonws : forall inp n s k e,
  lex_go SWs false [] n inp = (LexTok s, k, e) ->
  exists j c, (n + j < k)%nat /\ nth_error inp j = Some c /\ is_shlex_ws c = false.
Proof.
  induction inp as [|c inp IH]; intros n s k e H.
  - cbn in H. discriminate.
  - cbn [lex_go] in H. destruct (is_shlex_ws c) eqn:W.
    + cbn [nonempty orb] in H. apply IH in H as (j & c' & Hj & Hn & Hc).
      exists (S j), c'. cbn [nth_error]. repeat split; auto. lia.
    + exists 0%nat, c. cbn [nth_error]. split; [|auto].
      destruct (is_quote c); apply lex_go_mono in H; lia.
Qed.

(** * strip *)
Lemma lstrip_nil_all : forall p s, lstrip_by p s = [] -> forallb p s = true.
Proof.
  induction s as [|c s IH]; intros H; [reflexivity|].
  cbn in H. destruct (p c) eqn:E; [|discriminate]. cbn. rewrite E. auto.
Qed.

Lemma strip_nil_all : forall p s, strip_by p s = [] -> forallb p s = true.
Proof.
  intros p s H. unfold strip_by, rstrip_by in H.
  apply (f_equal (@rev _)) in H. rewrite rev_involutive in H. cbn in H.
  apply lstrip_nil_all in H. rewrite forallb_rev in H.
  (* lstrip s is all-p; so is what lstrip removed *)
  clear -H. induction s as [|c s IH]; [reflexivity|].
  cbn in H |- *. destruct (p c) eqn:E; [cbn; auto|]. cbn in H. rewrite E in H. discriminate.
Qed.

Lemma forallb_nth_error {A} (f : A -> bool) : forall l j x, forallb f l = true -> nth_error l j = Some x -> f x = true.
Proof.
  induction l as [|a l IH]; intros j x H Hn; [destruct j; discriminate|].
  cbn in H. apply andb_true_iff in H as [Ha Hl]. destruct j; cbn in Hn; [injection Hn as <-; assumption | eauto].
Qed.

Lemma nth_error_slice {A} : forall (s : list A) a b j,
  (a + j < b)%nat -> nth_error (slice s a b) j = nth_error (skipn a s) j.
Proof.
  intros s a b j H. unfold slice.
  assert (G : forall (l : list A) m i, (i < m)%nat -> nth_error (firstn m l) i = nth_error l i).
  { induction l as [|x l IH]; intros m i Hi; [rewrite firstn_nil; reflexivity|].
    destruct m; [lia|]. destruct i; [reflexivity|]. cbn. apply IH. lia. }
  apply G. lia.
Qed.

Lemma nth_error_skipn {A} : forall (s : list A) a j, nth_error (skipn a s) j = nth_error s (a + j).
Proof.
  induction s as [|x s IH]; intros a j.
  - rewrite skipn_nil. destruct j, a; reflexivity.
  - destruct a; [reflexivity|]. cbn. apply IH.
Qed.

(** * consume is total *)
Lemma revert_newline_cases : forall src pos,
  (0 < pos)%nat ->
  revert_newline src pos = pos \/ (revert_newline src pos = Nat.pred pos /\ nth (Nat.pred pos) src 0 = NL).
Proof.
  intros src pos H. unfold revert_newline. destruct pos as [|p]; [lia|]. cbn [Nat.pred].
  destruct (nth p src 0 =? NL) eqn:E; [right; split; [reflexivity | apply N.eqb_eq; assumption] | left; reflexivity].
Qed.

Theorem consume_total : forall ts, ts_err ts = false ->
  exists ts', ts_consume ts = Ok (ts_head ts, ts') /\ ts_src ts' = ts_src ts /\ ts_start ts' = ts_io ts.
Proof.
  intros [src io start head err eof] Herr. cbn [ts_err] in Herr. subst err.
  unfold ts_consume, ts_consume_with. cbn [ts_err ts_src ts_head ts_io ts_eof].
  destruct (lex_go SWs false [] 0 (skipn io src)) as [[r k] e'] eqn:L.
  destruct r as [s| |]; try (eexists; split; [reflexivity | split; reflexivity]).
  (* a token: its trimmed source is not empty *)
  pose proof (lex_go_tok_has_nonws _ _ _ _ _ L) as (j & c & Hj & Hn & Hc). cbn [Nat.add] in Hj.
  rewrite nth_error_skipn in Hn.
  set (io2 := revert_newline src (io + k)).
  assert (Hin : (io + j < io2)%nat).
  { destruct (revert_newline_cases src (io + k) ltac:(lia)) as [E | [E Enl]]; unfold io2; rewrite E; [lia|].
    destruct (Nat.eq_dec (io + j) (Nat.pred (io + k))) as [Eq | Ne]; [|lia].
    exfalso. rewrite <- Eq in Enl. apply nth_error_nth with (d := 0) in Hn. rewrite Hn in Enl. rewrite Enl in Hc. vm_compute in Hc. discriminate. }
  destruct (strip_ws (slice src io io2)) as [|c0 rest0] eqn:S.
  - exfalso. apply strip_nil_all in S.
    assert (Hs : nth_error (slice src io io2) j = Some c).
    { rewrite nth_error_slice by assumption. rewrite nth_error_skipn. assumption. }
    pose proof (forallb_nth_error _ _ _ _ S Hs) as C. congruence.
  - eexists. split; [reflexivity | split; reflexivity].
Qed.

(** * the rest of the line *)
Definition line_end (src : text) (start : nat) : nat :=
  match find_nl src start with None => length src | Some p => p end.

Definition next_start (fwd : bool) (src : text) (start : nat) : nat :=
  if Nat.eqb start (length src) then start
  else match find_nl src start with
       | None => length src
       | Some p => (p + if fwd then 1 else 0)%nat
       end.

(** consuming the rest of the current line never fails; it returns the rest of the line and moves
    the position to the end of the line (or to the next line), whatever the look-ahead state *)
Theorem consume_line_spec : forall fwd ts,
  exists ts', ts_consume_line fwd ts = Ok (ts_remaining_part_of_current_line ts, ts') /\
              ts_src ts' = ts_src ts /\ ts_start ts' = next_start fwd (ts_src ts) (ts_start ts).
Proof.
  intros fwd [src io start head err eof].
  unfold ts_consume_line, ts_consume_line_with, ts_remaining_part_of_current_line, next_start. cbn [ts_src ts_start ts_io ts_head ts_err ts_eof].
  destruct (Nat.eqb start (length src)) eqn:E.
  - eexists. split; [reflexivity|]. cbn. auto.
  - destruct (find_nl src start) as [p|] eqn:F.
    + destruct (relex_lexer_blank (slice src start p)).
      * destruct (consume_total (TS src (p + (if fwd then 1 else 0)) start head false eof) eq_refl) as (ts' & Hc & Hsrc & Hst).
        rewrite Hc. cbn [bind snd]. eexists. split; [reflexivity|]. cbn [ts_src ts_io] in *. auto.
      * eexists. split; [reflexivity|]. cbn. auto.
    + eexists. split; [reflexivity|]. cbn. auto.
Qed.
