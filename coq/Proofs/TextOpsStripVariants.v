(** C05: [strip], [strip -trailing-space], [strip -trailing-new-lines] as streaming algorithms over
    well-formed lines = the whole-text functions of the specification. *)
From Coq Require Import ZArith NArith List Bool Lia.
From Exactly Require Import Lib.Text Lib.TextLemmas Lib.Lines Model.Interval Model.TextOps Spec.C05 Proofs.TextOpsStrip.
Import ListNotations.

Lemma not_some_not_forallb : forall p t, some_not p t = false -> forallb p t = true.
Proof.
  induction t as [|c t IH]; intros H; [reflexivity|]. cbn in *. destruct (p c); cbn in *; [now apply IH | discriminate].
Qed.

Lemma no_nl_suffix : forall a b, no_nl (a ++ b) = true -> no_nl b = true.
Proof. intros a b H. rewrite no_nl_app in H. now apply andb_true_iff in H as [_ H]. Qed.

Lemma no_nl_prefix : forall a b, no_nl (a ++ b) = true -> no_nl a = true.
Proof. intros a b H. rewrite no_nl_app in H. now apply andb_true_iff in H as [H _]. Qed.

Lemma full_suffix : forall a b, is_full_line (a ++ b) = true -> b <> [] -> is_full_line b = true.
Proof.
  induction a as [|c a IH]; intros b H Hb; [exact H|].
  apply IH; [|exact Hb]. cbn [app] in H. destruct (a ++ b) eqn:E.
  - apply app_eq_nil in E as [_ E]. contradiction.
  - change (negb (N.eqb c NL) && is_full_line (c0 :: l) = true) in H. now apply andb_true_iff in H as [_ H].
Qed.

(** [chop_nl] *)
Lemma chop_nl_snoc : forall b, chop_nl (b ++ [NL]) = Some b.
Proof.
  induction b as [|c b IH]; [reflexivity|]. cbn [app chop_nl]. rewrite IH.
  destruct (b ++ [NL]) eqn:E; [destruct b; discriminate | reflexivity].
Qed.

Lemma chop_nl_no_nl : forall l, no_nl l = true -> chop_nl l = None.
Proof.
  induction l as [|c l IH]; intros H; [reflexivity|]. cbn in H. apply andb_true_iff in H as [H1 H2].
  cbn [chop_nl]. destruct l as [|d l].
  - unfold not_nl in H1. apply negb_true_iff in H1. now rewrite H1.
  - rewrite IH by exact H2. reflexivity.
Qed.

Section Variants.
  Variable is_space : char -> bool.
  Hypothesis Hsp : is_space NL = true.

  Lemma isspace_true : forall l, isspace is_space l = true -> forallb is_space l = true.
  Proof. intros [|c l] H; [discriminate | exact H]. Qed.

  Lemma isspace_false : forall l, l <> [] -> isspace is_space l = false -> some_not is_space l = true.
  Proof. intros [|c l] Hl H; [contradiction|]. apply forallb_false_some_not. exact H. Qed.

  Lemma some_not_body : forall body, some_not is_space (body ++ [NL]) = true -> some_not is_space body = true.
  Proof.
    intros body H. unfold some_not in *. rewrite existsb_app in H. cbn in H. rewrite Hsp in H. cbn in H.
    now rewrite orb_false_r in H.
  Qed.

  Lemma rstrip_full : forall body, rstrip_by is_space (body ++ [NL]) = rstrip_by is_space body.
  Proof. intros. apply rstrip_by_app_drop. cbn. now rewrite Hsp. Qed.

  Lemma rstrip_no_nl : forall t, no_nl t = true -> no_nl (rstrip_by is_space t) = true.
  Proof.
    intros t H. destruct (rstrip_by_prefix is_space t) as [suf [E _]]. rewrite E in H. eapply no_nl_prefix; exact H.
  Qed.

  Lemma rstrip_line_no_nl : forall c, line_ok c -> no_nl (rstrip_by is_space c) = true.
  Proof.
    intros c [H|H].
    - apply full_line_inv in H as [body [-> Hb]]. rewrite rstrip_full. now apply rstrip_no_nl.
    - apply rstrip_no_nl. now apply partial_line_no_nl in H.
  Qed.

  Lemma rstrip_line_partial : forall c, line_ok c -> some_not is_space c = true ->
    is_partial_line (rstrip_by is_space c) = true.
  Proof.
    intros c Hc Hs. apply partial_line_intro; [now apply rstrip_by_nonnil | now apply rstrip_line_no_nl].
  Qed.

  Lemma lstrip_line_ok : forall l, some_not is_space l = true ->
    (is_full_line l = true -> is_full_line (lstrip_by is_space l) = true) /\
    (is_partial_line l = true -> is_partial_line (lstrip_by is_space l) = true).
  Proof.
    intros l Hs. destruct (lstrip_by_suffix is_space l) as [pre [E _]].
    assert (Hne : lstrip_by is_space l <> []) by (apply (some_not_nonnil is_space); now apply lstrip_by_some_not).
    split; intros H.
    - rewrite E in H. eapply full_suffix; eassumption.
    - apply partial_line_no_nl in H as [_ H]. rewrite E in H. apply partial_line_intro; [exact Hne|].
      eapply no_nl_suffix; exact H.
  Qed.

  (** *** strip -trailing-space *)
  Lemma strip_trailing_space_text : forall lines, wf_lines lines = true ->
    concat (strip_trailing_space is_space lines) = drop_trailing is_space (concat lines).
  Proof.
    intros [|l lines] Hwf; [reflexivity|]. rewrite <- rstrip_by_drop_trailing.
    unfold strip_trailing_space.
    rewrite (strip_loop_text is_space (isspace is_space) _ line_ok).
    - reflexivity.
    - intros x _ H. now apply isspace_true.
    - intros x Hx H. apply isspace_false; [now apply line_ok_nonempty | exact H].
    - apply wf_lines_Forall. eapply wf_lines_tail; exact Hwf.
    - intros c _. destruct (rstrip_by is_space c); [reflexivity | cbn; now rewrite app_nil_r].
    - reflexivity.
  Qed.

  Lemma strip_trailing_space_wf : forall lines, wf_lines lines = true ->
    wf_lines (strip_trailing_space is_space lines) = true.
  Proof.
    intros [|l lines] Hwf; [reflexivity|]. unfold strip_trailing_space.
    apply (strip_loop_wf (isspace is_space) _ (fun _ => True)).
    - trivial.
    - intros c Hc _. destruct (rstrip_by is_space c) eqn:E; [now left|]. right. eexists. split; [reflexivity|].
      right. rewrite <- E. apply partial_line_intro; [rewrite E; discriminate | now apply rstrip_line_no_nl].
    - exact Hwf.
    - exact I.
  Qed.

  (** *** strip -trailing-new-lines *)
  Lemma final_tnl : forall c, line_ok c ->
    (match chop_nl c with Some body => body | None => c end) = rstrip_by (N.eqb NL) c /\
    no_nl (match chop_nl c with Some body => body | None => c end) = true.
  Proof.
    assert (Hnn : forall t, no_nl t = true -> rstrip_by (N.eqb NL) t = t).
    { induction t as [|x t IH]; intros H; [reflexivity|]. cbn in H. apply andb_true_iff in H as [H1 H2].
      cbn [rstrip_by]. rewrite IH by exact H2. unfold not_nl in H1. apply negb_true_iff in H1.
      rewrite N.eqb_sym in H1. rewrite H1. destruct t; reflexivity. }
    intros c [H|H].
    - apply full_line_inv in H as [body [-> Hb]]. rewrite chop_nl_snoc. split; [|exact Hb].
      rewrite rstrip_by_app_drop by reflexivity. symmetry. now apply Hnn.
    - apply partial_line_no_nl in H as [_ H]. rewrite chop_nl_no_nl by exact H. split; [|exact H].
      symmetry. now apply Hnn.
  Qed.

  Lemma skip_tnl_keep : forall l, line_ok l -> text_eqb l [NL] = false -> some_not (N.eqb NL) l = true.
  Proof.
    intros l [H|H] E.
    - apply full_line_inv in H as [body [-> Hb]]. destruct body as [|x body]; [discriminate E|].
      cbn in Hb. apply andb_true_iff in Hb as [Hx _]. unfold not_nl in Hx. apply negb_true_iff in Hx.
      unfold some_not. cbn [app existsb]. rewrite (N.eqb_sym NL x), Hx. reflexivity.
    - destruct l as [|x l]; [discriminate H|]. cbn in H. apply andb_true_iff in H as [Hx _]. apply negb_true_iff in Hx.
      unfold some_not. cbn [existsb]. rewrite (N.eqb_sym NL x), Hx. reflexivity.
  Qed.

  Lemma strip_trailing_new_lines_text : forall lines, wf_lines lines = true ->
    concat (strip_trailing_new_lines lines) = drop_trailing (N.eqb NL) (concat lines).
  Proof.
    intros [|l lines] Hwf; [reflexivity|]. rewrite <- rstrip_by_drop_trailing.
    unfold strip_trailing_new_lines.
    rewrite (strip_loop_text (N.eqb NL) (fun l => text_eqb l [NL]) _ line_ok).
    - reflexivity.
    - intros x _ H. apply text_eqb_eq in H. now subst x.
    - intros x Hx H. now apply skip_tnl_keep.
    - apply wf_lines_Forall. eapply wf_lines_tail; exact Hwf.
    - intros c Hc. assert (Hok : line_ok c).
      { destruct Hc as [->|Hc]; [eapply wf_lines_head_ok; exact Hwf|].
        apply wf_lines_tail in Hwf. apply wf_lines_Forall in Hwf. rewrite Forall_forall in Hwf. now apply Hwf. }
      destruct (final_tnl c Hok) as [E _]. rewrite <- E.
      destruct (match chop_nl c with Some body => body | None => c end); [reflexivity | cbn; now rewrite app_nil_r].
    - reflexivity.
  Qed.

  Lemma strip_trailing_new_lines_wf : forall lines, wf_lines lines = true ->
    wf_lines (strip_trailing_new_lines lines) = true.
  Proof.
    intros [|l lines] Hwf; [reflexivity|]. unfold strip_trailing_new_lines.
    apply (strip_loop_wf (fun l => text_eqb l [NL]) _ (fun _ => True)).
    - trivial.
    - intros c Hc _. destruct (final_tnl c Hc) as [_ E].
      destruct (match chop_nl c with Some body => body | None => c end) eqn:E2; [now left|]. right.
      eexists. split; [reflexivity|]. right. exact E.
    - exact Hwf.
    - exact I.
  Qed.

  (** *** strip *)
  Lemma first_non_space_spec : forall lines,
    match first_non_space is_space lines with
    | None => Forall (fun l => isspace is_space l = true) lines
    | Some (l, rest) => exists pre, lines = pre ++ l :: rest /\ Forall (fun l => isspace is_space l = true) pre /\
                                    isspace is_space l = false
    end.
  Proof.
    induction lines as [|l lines IH]; [constructor|]. cbn [first_non_space]. destruct (isspace is_space l) eqn:E.
    - destruct (first_non_space is_space lines) as [[l' rest]|].
      + destruct IH as [pre [H1 [H2 H3]]]. exists (l :: pre). split; [cbn; now rewrite H1 | split; [now constructor | exact H3]].
      + now constructor.
    - exists []. split; [reflexivity | split; [constructor | exact E]].
  Qed.

  Lemma all_space_concat : forall ls, Forall (fun l => isspace is_space l = true) ls -> forallb is_space (concat ls) = true.
  Proof.
    induction 1 as [|l ls Hl _ IH]; [reflexivity|]. cbn [concat]. rewrite forallb_app, IH. rewrite isspace_true by exact Hl. reflexivity.
  Qed.

  Lemma strip_space_text : forall lines, wf_lines lines = true ->
    concat (strip_space is_space lines) = drop_trailing is_space (drop_leading is_space (concat lines)).
  Proof.
    intros lines Hwf. rewrite <- rstrip_by_drop_trailing, <- lstrip_by_dropwhile. unfold strip_space.
    pose proof (first_non_space_spec lines) as Hf. destruct (first_non_space is_space lines) as [[l rest]|].
    - destruct Hf as [pre [-> [Hpre Hl]]]. rewrite concat_app. cbn [concat].
      rewrite lstrip_by_app_all by (now apply all_space_concat).
      destruct pre as [|x pre].
      + assert (Hs : some_not is_space l = true).
        { apply isspace_false; [|exact Hl]. apply line_ok_nonempty. eapply wf_lines_head_ok; exact Hwf. }
        rewrite lstrip_by_app_keep by exact Hs.
        rewrite (strip_loop_text is_space (isspace is_space) _ line_ok).
        * reflexivity.
        * intros y _ H. now apply isspace_true.
        * intros y Hy H. apply isspace_false; [now apply line_ok_nonempty | exact H].
        * apply wf_lines_Forall. eapply wf_lines_tail; exact Hwf.
        * intros c _. cbn. now rewrite app_nil_r.
        * reflexivity.
      + change ((x :: pre) ++ l :: rest) with ((x :: pre) ++ l :: rest) in Hwf.
        apply wf_lines_app_inv in Hwf as [_ Hwf].
        assert (Hs : some_not is_space l = true).
        { apply isspace_false; [|exact Hl]. apply line_ok_nonempty. eapply wf_lines_head_ok; exact Hwf. }
        rewrite lstrip_by_app_keep by exact Hs.
        rewrite (strip_loop_text is_space (isspace is_space) _ line_ok).
        * reflexivity.
        * intros y _ H. now apply isspace_true.
        * intros y Hy H. apply isspace_false; [now apply line_ok_nonempty | exact H].
        * apply wf_lines_Forall. eapply wf_lines_tail; exact Hwf.
        * intros c _. cbn. now rewrite app_nil_r.
        * reflexivity.
    - cbn [concat]. rewrite rstrip_by_all; [reflexivity|].
      destruct (lstrip_by_suffix is_space (concat lines)) as [p0 [E _]].
      pose proof (all_space_concat lines Hf) as Ha. rewrite E in Ha. rewrite forallb_app in Ha.
      now apply andb_true_iff in Ha as [_ Ha].
  Qed.

  Lemma strip_space_wf : forall lines, wf_lines lines = true -> wf_lines (strip_space is_space lines) = true.
  Proof.
    intros lines Hwf. unfold strip_space.
    pose proof (first_non_space_spec lines) as Hf. destruct (first_non_space is_space lines) as [[l rest]|]; [|reflexivity].
    destruct Hf as [pre [-> [_ Hl]]].
    assert (Hwf' : wf_lines (l :: rest) = true).
    { destruct pre; [exact Hwf|]. now apply wf_lines_app_inv in Hwf as [_ Hwf]. }
    assert (Hs : some_not is_space l = true).
    { apply isspace_false; [|exact Hl]. apply line_ok_nonempty. eapply wf_lines_head_ok; exact Hwf'. }
    apply (strip_loop_wf (isspace is_space) _ (fun c => some_not is_space c = true)).
    - intros y Hy Hok. apply isspace_false; [now apply line_ok_nonempty | exact Hy].
    - intros c Hc Hg. right. eexists. split; [reflexivity|]. right. now apply rstrip_line_partial.
    - cbn [app]. destruct (lstrip_line_ok l Hs) as [Hfull Hpart].
      apply wf_lines_cons_inv in Hwf' as [[-> [H|H]]|[Hne [H1 H2]]].
      + apply wf_lines_single. left. now apply Hfull.
      + apply wf_lines_single. right. now apply Hpart.
      + apply wf_lines_cons_full; [now apply Hfull | exact H2].
    - now apply lstrip_by_some_not.
  Qed.
End Variants.
