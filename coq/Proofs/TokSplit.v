(** C09: symbol_syntax.split (model) computes the documented decomposition of a text into
    constants and symbol references; so does the specification's own scanner [ref_split]. *)
From Coq Require Import NArith List Bool Arith Lia.
From Exactly Require Import Lib.Harness Model.Tok Spec.C09.
Import ListNotations.
Local Open Scope N_scope.

Section Split.
  Variable alnum : N -> bool.
  (** facts about Python's str.isalnum that the proofs need (checked against the running
      interpreter on every run: Gen/C09_tables.v) *)
  Hypothesis alnum_at : alnum AT = false.
  Hypothesis alnum_rbr : alnum RBR = false.

  Notation ident := (ident_char alnum).
  Notation is_name := (is_name alnum).
  Notation occurs_at := (occurs_at alnum).
  Notation Decomp := (Decomp alnum).

  Lemma ident_model_spec : forall c, is_identifier alnum c = ident c.
  Proof. reflexivity. Qed.

  Lemma ident_at : ident AT = false.
  Proof. unfold ident_char. rewrite alnum_at. reflexivity. Qed.
  Lemma ident_rbr : ident RBR = false.
  Proof. unfold ident_char. rewrite alnum_rbr. reflexivity. Qed.

  (** * "something starts at the head of a suffix", and its absence within a prefix *)
  Definition RefAtHead (t : text) : Prop := exists n post, is_name n /\ t = ref_text n ++ post.
  Definition BeginAtHead (t : text) : Prop := exists post, t = AT :: LBR :: post.

  Fixpoint none_in (P : text -> Prop) (pre rest : text) : Prop :=
    match pre with
    | [] => True
    | c :: pre' => ~ P (pre ++ rest) /\ none_in P pre' rest
    end.

  Lemma none_in_app : forall P a b rest, none_in P (a ++ b) rest <-> none_in P a (b ++ rest) /\ none_in P b rest.
  Proof.
    induction a as [|c a IH]; intros b rest; cbn [app none_in]; [tauto|].
    rewrite IH. rewrite <- app_assoc. cbn [app]. tauto.
  Qed.

  Lemma none_in_weaken : forall (P Q : text -> Prop), (forall t, Q t -> P t) ->
    forall pre rest, none_in P pre rest -> none_in Q pre rest.
  Proof.
    intros P Q H. induction pre as [|c pre IH]; intros rest; cbn [none_in]; [auto|].
    intros [H1 H2]. split; [intros C; apply H1, H, C | apply IH, H2].
  Qed.

  Lemma ref_is_begin : forall t, RefAtHead t -> BeginAtHead t.
  Proof. intros t (n & post & _ & ->). unfold ref_text. cbn. eexists. reflexivity. Qed.

  (** positions and suffixes *)
  Lemma occurs_at_iff : forall s p, occurs_at s p <-> (p <= length s)%nat /\ RefAtHead (skipn p s).
  Proof.
    intros s p. unfold C09.occurs_at, RefAtHead. split.
    - intros (n & post & Hn & Hp & E). split; [assumption|]. eauto.
    - intros (Hp & n & post & Hn & E). eauto.
  Qed.

  Lemma none_in_positions : forall pre rest,
    none_in RefAtHead pre rest <-> (forall p, (p < length pre)%nat -> ~ occurs_at (pre ++ rest) p).
  Proof.
    induction pre as [|c pre IH]; intros rest; cbn [none_in length].
    - split; [intros _ p Hp; lia | auto].
    - rewrite IH. split.
      + intros [H0 H] p Hp. destruct p as [|p].
        * rewrite occurs_at_iff. cbn [skipn]. tauto.
        * intros C. apply (H p ltac:(lia)). rewrite occurs_at_iff in *. cbn [app skipn length] in C.
          destruct C as [C1 C2]. split; [lia | assumption].
      + intros H. split.
        * intros C. apply (H 0%nat ltac:(lia)). rewrite occurs_at_iff. cbn [skipn]. split; [lia | assumption].
        * intros p Hp C. apply (H (S p) ltac:(lia)). rewrite occurs_at_iff in *. cbn [app skipn length].
          destruct C as [C1 C2]. split; [lia | assumption].
  Qed.

  Lemma no_ref_at_end : forall s, ~ occurs_at s (length s).
  Proof.
    intros s. rewrite occurs_at_iff. rewrite skipn_all. intros (_ & n & post & _ & E). unfold ref_text in E. discriminate.
  Qed.

  Lemma none_in_all_positions : forall s, none_in RefAtHead s [] -> forall p, ~ occurs_at s p.
  Proof.
    intros s H p C. rewrite none_in_positions in H. rewrite app_nil_r in H.
    destruct (Nat.lt_ge_cases p (length s)) as [Hlt | Hge].
    - exact (H p Hlt C).
    - pose proof C as C'. rewrite occurs_at_iff in C'. destruct C' as [Hle _].
      assert (p = length s) by lia. subst p. exact (no_ref_at_end s C).
  Qed.

  (** * find_begin *)
  Lemma find_begin_cons2 : forall a b s,
    find_begin (a :: b :: s) =
    if (a =? AT) && (b =? LBR) then Some 0%nat
    else match find_begin (b :: s) with Some k => Some (S k) | None => None end.
  Proof. reflexivity. Qed.

  Lemma find_begin_some : forall s k, find_begin s = Some k ->
    exists pre post, s = pre ++ AT :: LBR :: post /\ length pre = k /\ none_in BeginAtHead pre (AT :: LBR :: post).
  Proof.
    induction s as [|a s IH]; intros k H; [discriminate|].
    destruct s as [|b s']; [discriminate|].
    revert H. rewrite find_begin_cons2.
    destruct ((a =? AT) && (b =? LBR)) eqn:E.
    - intros H. injection H as <-. apply andb_true_iff in E as [E1 E2]. apply N.eqb_eq in E1, E2. subst a b.
      exists [], s'. cbn. auto.
    - destruct (find_begin (b :: s')) as [k'|] eqn:F; intros H; [|discriminate]. injection H as <-.
      destruct (IH k' eq_refl) as (pre & post & Es & Hlen & Hnone).
      exists (a :: pre), post. rewrite Es. cbn [app length none_in]. repeat split; auto.
      intros (post' & C). cbn [app] in C. rewrite <- Es in C. injection C as -> -> _.
      rewrite !N.eqb_refl in E. discriminate.
  Qed.

  Lemma find_begin_none : forall s, find_begin s = None -> none_in BeginAtHead s [].
  Proof.
    induction s as [|a s IH]; intros H; [exact I|].
    destruct s as [|b s'].
    - cbn. split; [|exact I]. intros (post & C). discriminate.
    - revert H. rewrite find_begin_cons2.
      destruct ((a =? AT) && (b =? LBR)) eqn:E; [discriminate|].
      destruct (find_begin (b :: s')) as [k'|] eqn:F; [discriminate|]. intros _.
      cbn [none_in]. split; [|apply IH; reflexivity].
      intros (post & C). rewrite app_nil_r in C. injection C as -> -> _. rewrite !N.eqb_refl in E. discriminate.
  Qed.

  (** * take_ident *)
  Lemma take_ident_app : forall n r,
    Forall (fun c => ident c = true) n -> (match r with [] => True | c :: _ => ident c = false end) ->
    take_ident alnum (n ++ r) = n.
  Proof.
    induction n as [|c n IH]; intros r Hn Hr.
    - destruct r as [|c r]; [reflexivity|]. cbn. rewrite ident_model_spec, Hr. reflexivity.
    - inversion Hn as [|? ? Hc Hn']; subst. cbn [app take_ident]. rewrite ident_model_spec, Hc. f_equal. apply IH; assumption.
  Qed.

  Lemma take_ident_prefix : forall s, exists r,
    s = take_ident alnum s ++ r /\ Forall (fun c => ident c = true) (take_ident alnum s) /\
    (match r with [] => True | c :: _ => ident c = false end).
  Proof.
    induction s as [|c s IH].
    - exists []. cbn. auto.
    - cbn [take_ident]. rewrite ident_model_spec. destruct (ident c) eqn:E.
      + destruct IH as (r & Es & Hf & Hr). exists r. cbn [app]. split; [f_equal; assumption|]. split; [constructor; assumption | assumption].
      + exists (c :: s). cbn. auto.
  Qed.

  Lemma name_no_at : forall n, Forall (fun c => ident c = true) n -> ~ In AT n.
  Proof.
    intros n Hn C. rewrite Forall_forall in Hn. specialize (Hn _ C). rewrite ident_at in Hn. discriminate.
  Qed.

  (** is a reference written at the head of [@[ ++ b]?  decided exactly as the code does *)
  Lemma ref_at_begin_iff : forall b,
    RefAtHead (AT :: LBR :: b) <->
    (take_ident alnum b <> [] /\ starts_with_end (skipn (length (take_ident alnum b)) b) = true).
  Proof.
    intros b. split.
    - intros (n & post & [Hne Hn] & E). unfold ref_text in E. cbn [app] in E. injection E as ->.
      rewrite <- app_assoc. cbn [app].
      rewrite take_ident_app; [|assumption | exact ident_rbr].
      split; [assumption|]. rewrite skipn_app. rewrite skipn_all, Nat.sub_diag. reflexivity.
    - intros [Hne He].
      destruct (take_ident_prefix b) as (r & Eb & Hf & Hr).
      set (n := take_ident alnum b) in *.
      rewrite Eb in He. rewrite skipn_app, skipn_all, Nat.sub_diag in He. cbn [app skipn] in He.
      destruct r as [|x [|y r']]; try discriminate. cbn in He.
      apply andb_true_iff in He as [E1 E2]. apply N.eqb_eq in E1, E2. subst x y.
      exists n, r'. split; [split; assumption|]. unfold ref_text. cbn [app]. rewrite <- app_assoc. cbn [app].
      rewrite Eb at 1. reflexivity.
  Qed.

  (** no "@[" begins within [LBR :: name] (when something follows that does not make one either) *)
  Lemma none_begin_in_name : forall n rest,
    Forall (fun c => ident c = true) n -> none_in BeginAtHead n rest.
  Proof.
    induction n as [|c n IH]; intros rest Hn; [exact I|].
    inversion Hn as [|? ? Hc Hn']; subst. cbn [none_in]. split; [|apply IH; assumption].
    intros (post & C). cbn [app] in C. injection C as -> _. rewrite ident_at in Hc. discriminate.
  Qed.

  (** * _find_symbol_reference *)
  Lemma find_from_spec : forall fuel s base, (length s < fuel)%nat ->
    match find_symbol_reference_from alnum fuel base s with
    | None => none_in RefAtHead s []
    | Some (pos, n, rest) =>
        exists pre, s = pre ++ ref_text n ++ rest /\ is_name n /\ pos = (base + length pre)%nat /\
                    none_in RefAtHead pre (ref_text n ++ rest)
    end.
  Proof.
    induction fuel as [|fuel IH]; intros s base Hfuel; [lia|].
    cbn [find_symbol_reference_from].
    destruct (find_begin s) as [k|] eqn:F.
    - destruct (find_begin_some _ _ F) as (pre & b & Es & Hlen & Hnone). subst k.
      assert (Eskip : skipn (length pre + 2) s = b).
      { rewrite Es. rewrite skipn_app. rewrite skipn_all2 by lia.
        replace (length pre + 2 - length pre)%nat with 2%nat by lia. reflexivity. }
      rewrite Eskip.
      destruct (take_ident_prefix b) as (r & Eb & Hf & Hr).
      set (n := take_ident alnum b) in *.
      assert (Eafter : skipn (length n) b = r).
      { rewrite Eb at 1. rewrite skipn_app, skipn_all, Nat.sub_diag. reflexivity. }
      rewrite Eafter.
      destruct (nonempty n && starts_with_end r) eqn:Q.
      + (* found *)
        apply andb_true_iff in Q as [Q1 Q2].
        destruct r as [|x [|y r']]; try discriminate. cbn in Q2.
        apply andb_true_iff in Q2 as [E1 E2]. apply N.eqb_eq in E1, E2. subst x y.
        exists pre. cbn [skipn].
        assert (En : n <> []) by (destruct n; [discriminate | discriminate]).
        assert (Esrc : s = pre ++ ref_text n ++ r').
        { rewrite Es, Eb. unfold ref_text. cbn [app]. rewrite <- app_assoc. reflexivity. }
        repeat split; auto.
        replace (AT :: LBR :: b) with (ref_text n ++ r') in Hnone
          by (rewrite Eb; unfold ref_text; cbn [app]; rewrite <- app_assoc; reflexivity).
        eapply none_in_weaken; [exact ref_is_begin | exact Hnone].
      + (* not a reference here: continue after the name *)
        assert (Hnot : ~ RefAtHead (AT :: LBR :: b)).
        { rewrite ref_at_begin_iff. fold n. rewrite Eafter. intros [C1 C2].
          destruct n; [contradiction | cbn in Q; rewrite C2 in Q; discriminate]. }
        assert (Hlen_r : (length r < fuel)%nat).
        { rewrite Es in Hfuel. rewrite app_length in Hfuel. cbn [length] in Hfuel.
          rewrite Eb, app_length in Hfuel. lia. }
        specialize (IH r (base + length pre + 2 + length n)%nat Hlen_r).
        assert (Esrc : s = (pre ++ AT :: LBR :: n) ++ r).
        { rewrite Es, Eb. rewrite <- app_assoc. reflexivity. }
        assert (Hpre_none : none_in RefAtHead (pre ++ AT :: LBR :: n) r).
        { rewrite none_in_app. split.
          - eapply none_in_weaken; [exact ref_is_begin|]. cbn [app]. rewrite <- Eb. exact Hnone.
          - cbn [none_in app]. split; [rewrite <- Eb; exact Hnot|]. split.
            + intros C. apply ref_is_begin in C. destruct C as (post & C). discriminate.
            + eapply none_in_weaken; [exact ref_is_begin | apply none_begin_in_name; assumption]. }
        destruct (find_symbol_reference_from alnum fuel (base + length pre + 2 + length n) r) as [[[pos n'] rest]|].
        * destruct IH as (pre2 & Er & Hn' & Hpos & Hnone2).
          exists ((pre ++ AT :: LBR :: n) ++ pre2). rewrite Esrc, Er. rewrite <- !app_assoc.
          split; [reflexivity|]. split; [exact Hn'|]. split.
          -- rewrite Hpos. rewrite !app_length. cbn [length]. lia.
          -- assert (G : none_in RefAtHead ((pre ++ AT :: LBR :: n) ++ pre2) (ref_text n' ++ rest)).
             { rewrite none_in_app. split; [|assumption]. rewrite <- Er. exact Hpre_none. }
             rewrite <- !app_assoc in G. exact G.
        * rewrite Esrc. rewrite none_in_app. rewrite app_nil_r. split; assumption.
    - apply find_begin_none in F. eapply none_in_weaken; [exact ref_is_begin | exact F].
  Qed.

  (** * split *)
  Lemma flat_render_Decomp : forall s frs, Decomp s frs ->
    concat (map (fun f => match f with FConst c => c | FSym n => ref_text n end) frs) = s.
  Proof.
    induction 1; cbn [map concat]; rewrite ?app_nil_r; try reflexivity.
    - rewrite IHDecomp. reflexivity.
    - rewrite IHDecomp. reflexivity.
  Qed.

  Lemma split_fuel_Decomp : forall fuel s, (length s < fuel)%nat -> Decomp s (split_fuel alnum fuel s).
  Proof.
    induction fuel as [|fuel IH]; intros s Hfuel; [lia|].
    cbn [split_fuel]. destruct s as [|c s]; [constructor|].
    set (s0 := c :: s) in *.
    unfold extract_fragment, find_symbol_reference.
    pose proof (find_from_spec (S (length s0)) s0 0%nat ltac:(lia)) as Hfind.
    destruct (find_symbol_reference_from alnum (S (length s0)) 0 s0) as [[[pos n] rest]|].
    - destruct Hfind as (pre & Es & Hn & Hpos & Hnone). cbn [Nat.add] in Hpos. subst pos.
      assert (Hrest : (length rest < fuel)%nat).
      { rewrite Es in Hfuel. rewrite !app_length in Hfuel. unfold ref_text in Hfuel. cbn [length app] in Hfuel. lia. }
      destruct pre as [|p0 pre].
      + cbn [length]. cbn [app] in Es |- *. rewrite Es. apply D_ref0; [assumption | apply IH; assumption].
      + cbn [length]. rewrite Es.
        replace (firstn (S (length pre)) ((p0 :: pre) ++ ref_text n ++ rest)) with (p0 :: pre)
          by (symmetry; apply (firstn_app_2 0 (p0 :: pre)) || (cbn [app firstn]; f_equal; rewrite firstn_app, firstn_all, Nat.sub_diag; cbn; rewrite app_nil_r; reflexivity)).
        cbn [app]. apply (D_ref alnum (p0 :: pre)); [discriminate | assumption | | apply IH; assumption].
        apply none_in_positions. exact Hnone.
    - cbn [app]. destruct fuel; cbn [split_fuel]; apply D_const; try discriminate; apply none_in_all_positions; assumption.
  Qed.

  (** C09_split_correct, part 1 *)
  Theorem split_Decomp : forall s, Decomp s (split alnum s).
  Proof. intros s. apply split_fuel_Decomp. lia. Qed.

  (** part 2: nothing is lost *)
  Theorem split_concat : forall s,
    concat (map (fun f => match f with FConst c => c | FSym n => ref_text n end) (split alnum s)) = s.
  Proof. intros s. apply flat_render_Decomp, split_Decomp. Qed.

  (** * the decomposition is unique *)
  Lemma app_eq_len {A} : forall (a a' b b' : list A), a ++ b = a' ++ b' -> length a = length a' -> a = a' /\ b = b'.
  Proof.
    induction a as [|x a IH]; intros [|x' a'] b b' E L; try discriminate; [auto|].
    cbn in E, L. injection E as -> E. injection L as L. destruct (IH _ _ _ E L) as [-> ->]. auto.
  Qed.

  Lemma RefAtHead_inj : forall n post n' post',
    is_name n -> is_name n' -> ref_text n ++ post = ref_text n' ++ post' -> n = n' /\ post = post'.
  Proof.
    intros n post n' post' [_ Hn] [_ Hn'] E. unfold ref_text in E. cbn [app] in E. injection E as E.
    rewrite <- !app_assoc in E. cbn [app] in E.
    assert (T1 : take_ident alnum (n ++ RBR :: AT :: post) = n) by (apply take_ident_app; [assumption | exact ident_rbr]).
    assert (T2 : take_ident alnum (n' ++ RBR :: AT :: post') = n') by (apply take_ident_app; [assumption | exact ident_rbr]).
    rewrite E in T1. rewrite T1 in T2. subst n'. apply app_inv_head in E. injection E as ->. auto.
  Qed.

  (** the first reference of a text *)
  Definition first_ref (s pre n post : text) : Prop :=
    s = pre ++ ref_text n ++ post /\ is_name n /\ (forall p, (p < length pre)%nat -> ~ occurs_at s p).

  Lemma first_ref_occurs : forall s pre n post, first_ref s pre n post -> occurs_at s (length pre).
  Proof.
    intros s pre n post (-> & Hn & _). rewrite occurs_at_iff. rewrite skipn_app, skipn_all, Nat.sub_diag.
    cbn [app skipn]. split; [rewrite app_length; lia|]. exists n, post. auto.
  Qed.

  Lemma first_ref_fun : forall s pre n post pre' n' post',
    first_ref s pre n post -> first_ref s pre' n' post' -> pre = pre' /\ n = n' /\ post = post'.
  Proof.
    intros s pre n post pre' n' post' H1 H2.
    pose proof (first_ref_occurs _ _ _ _ H1) as O1. pose proof (first_ref_occurs _ _ _ _ H2) as O2.
    destruct H1 as (E1 & Hn & Hno1). destruct H2 as (E2 & Hn' & Hno2).
    assert (Hlen : length pre = length pre').
    { destruct (Nat.lt_trichotomy (length pre) (length pre')) as [L | [L | L]]; [exfalso | assumption | exfalso].
      - exact (Hno2 _ L O1).
      - exact (Hno1 _ L O2). }
    rewrite E1 in E2. destruct (app_eq_len _ _ _ _ E2 Hlen) as [-> E'].
    destruct (RefAtHead_inj _ _ _ _ Hn Hn' E') as [-> ->]. auto.
  Qed.

  Lemma Decomp_inv : forall s frs, Decomp s frs ->
    (s = [] /\ frs = []) \/
    (s <> [] /\ (forall p, ~ occurs_at s p) /\ frs = [FConst s]) \/
    (exists pre n post frs', first_ref s pre n post /\ Decomp post frs' /\
                             frs = match pre with [] => [] | _ => [FConst pre] end ++ FSym n :: frs').
  Proof.
    intros s frs H. destruct H as [|s Hne Hno|n post frs Hn Hd|pre n post frs Hpre Hn Hno Hd].
    - left. auto.
    - right. left. auto.
    - right. right. exists [], n, post, frs. split; [|split; [assumption | reflexivity]].
      split; [reflexivity|]. split; [assumption|]. intros p Hp. cbn in Hp. lia.
    - right. right. exists pre, n, post, frs. split; [|split; [assumption|]].
      + split; [reflexivity|]. split; assumption.
      + destruct pre; [contradiction | reflexivity].
  Qed.

  Lemma Decomp_fun : forall s f1, Decomp s f1 -> forall f2, Decomp s f2 -> f1 = f2.
  Proof.
    induction 1 as [|s Hne Hno|n post frs Hn Hd IH|pre n post frs Hpre Hn Hno Hd IH]; intros f2 H2;
      apply Decomp_inv in H2;
      destruct H2 as [(E & ->) | [(Hne2 & Hno2 & ->) | (pre' & n' & post' & frs' & Hfr & Hd' & ->)]].
    - reflexivity.
    - contradiction.
    - destruct Hfr as (E & _). symmetry in E. apply app_eq_nil in E as [_ E]. unfold ref_text in E. discriminate.
    - contradiction.
    - reflexivity.
    - exfalso. exact (Hno _ (first_ref_occurs _ _ _ _ Hfr)).
    - unfold ref_text in E. discriminate.
    - exfalso. apply (Hno2 0%nat). rewrite occurs_at_iff. cbn [skipn]. split; [lia|]. exists n, post. auto.
    - assert (H1 : first_ref (ref_text n ++ post) [] n post).
      { split; [reflexivity|]. split; [assumption|]. intros p Hp. cbn in Hp. lia. }
      destruct (first_ref_fun _ _ _ _ _ _ _ H1 Hfr) as (<- & <- & <-). cbn [app]. f_equal. apply IH. assumption.
    - destruct pre; [contradiction | discriminate].
    - exfalso. assert (H1 : first_ref (pre ++ ref_text n ++ post) pre n post) by (split; [reflexivity | split; assumption]).
      exact (Hno2 _ (first_ref_occurs _ _ _ _ H1)).
    - assert (H1 : first_ref (pre ++ ref_text n ++ post) pre n post) by (split; [reflexivity | split; assumption]).
      destruct (first_ref_fun _ _ _ _ _ _ _ H1 Hfr) as (<- & <- & <-).
      destruct pre; [contradiction|]. cbn [app]. f_equal. f_equal. apply IH. assumption.
  Qed.

  (** hence: split computes THE decomposition *)
  Theorem split_unique : forall s frs, Decomp s frs -> frs = split alnum s.
  Proof. intros s frs H. eapply Decomp_fun; [exact H | apply split_Decomp]. Qed.

  (** * the specification's scanner [ref_split] also computes the decomposition *)
  Lemma span_ident_spec : forall s n r, span_ident alnum s = (n, r) ->
    s = n ++ r /\ Forall (fun c => ident c = true) n /\ (match r with [] => True | c :: _ => ident c = false end).
  Proof.
    induction s as [|c s IH]; intros n r H.
    - cbn in H. injection H as <- <-. auto.
    - cbn [span_ident] in H. destruct (ident c) eqn:E.
      + destruct (span_ident alnum s) as [n0 r0] eqn:S. injection H as <- <-.
        destruct (IH _ _ eq_refl) as (-> & Hf & Hr). repeat split; auto.
      + injection H as <- <-. cbn. auto.
  Qed.

  Lemma span_ident_app : forall n r,
    Forall (fun c => ident c = true) n -> (match r with [] => True | c :: _ => ident c = false end) ->
    span_ident alnum (n ++ r) = (n, r).
  Proof.
    induction n as [|c n IH]; intros r Hn Hr.
    - destruct r as [|c r]; [reflexivity|]. cbn. rewrite Hr. reflexivity.
    - inversion Hn as [|? ? Hc Hn']; subst. cbn [app span_ident]. rewrite Hc, IH by assumption. reflexivity.
  Qed.

  Lemma ref_here_some : forall s n r, ref_here alnum s = Some (n, r) -> is_name n /\ s = ref_text n ++ r.
  Proof.
    intros s n r H. unfold ref_here in H.
    destruct s as [|a [|b s1]]; try discriminate.
    destruct ((a =? AT) && (b =? LBR)) eqn:E; [|discriminate].
    apply andb_true_iff in E as [E1 E2]. apply N.eqb_eq in E1, E2. subst a b.
    destruct (span_ident alnum s1) as [n0 r0] eqn:S.
    destruct (span_ident_spec _ _ _ S) as (-> & Hf & _).
    destruct n0 as [|c0 n0]; [discriminate|].
    destruct r0 as [|c [|d r1]]; try discriminate.
    destruct ((c =? RBR) && (d =? AT)) eqn:E; [|discriminate].
    apply andb_true_iff in E as [E1 E2]. apply N.eqb_eq in E1, E2. subst c d.
    injection H as <- <-. split; [split; [discriminate | assumption]|].
    unfold ref_text. cbn [app]. rewrite <- app_assoc. reflexivity.
  Qed.

  Lemma ref_here_none : forall s, ref_here alnum s = None -> ~ RefAtHead s.
  Proof.
    intros s H (n & post & [Hne Hn] & ->). unfold ref_here, ref_text in H. cbn [app] in H.
    rewrite !N.eqb_refl in H. cbn [andb] in H. rewrite <- app_assoc in H. cbn [app] in H.
    rewrite span_ident_app in H; [|assumption | exact ident_rbr].
    destruct n; [contradiction|]. rewrite !N.eqb_refl in H. discriminate.
  Qed.

  Lemma ref_split_go_Decomp : forall fuel acc s, (length s < fuel)%nat ->
    none_in RefAtHead acc s -> Decomp (acc ++ s) (ref_split_go alnum fuel acc s).
  Proof.
    induction fuel as [|fuel IH]; intros acc s Hfuel Hacc; [lia|].
    cbn [ref_split_go]. destruct s as [|c s'].
    - rewrite app_nil_r. destruct acc as [|a acc]; [constructor|].
      cbn [flush]. apply D_const; [discriminate|]. apply none_in_all_positions. exact Hacc.
    - destruct (ref_here alnum (c :: s')) as [[n r]|] eqn:R.
      + destruct (ref_here_some _ _ _ R) as (Hn & E). rewrite E in *.
        assert (Hr : (length r < fuel)%nat).
        { rewrite app_length in Hfuel. unfold ref_text in Hfuel. cbn [length app] in Hfuel. lia. }
        specialize (IH [] r Hr I). cbn [app] in IH.
        destruct acc as [|a acc]; cbn [flush app].
        * apply D_ref0; assumption.
        * apply (D_ref alnum (a :: acc)); [discriminate | assumption | | assumption].
          apply none_in_positions. exact Hacc.
      + apply ref_here_none in R.
        replace (acc ++ c :: s') with ((acc ++ [c]) ++ s') by (rewrite <- app_assoc; reflexivity).
        apply IH; [cbn [length] in Hfuel; lia|].
        rewrite none_in_app. split; [exact Hacc|]. cbn [none_in app]. auto.
  Qed.

  Theorem ref_split_Decomp : forall s, Decomp s (ref_split alnum s).
  Proof. intros s. apply (ref_split_go_Decomp (S (length s)) [] s); [lia | exact I]. Qed.

  (** the code's algorithm and the specification's scanner agree on every text *)
  Corollary split_eq_ref_split : forall s, split alnum s = ref_split alnum s.
  Proof. intros s. symmetry. apply split_unique, ref_split_Decomp. Qed.
End Split.
