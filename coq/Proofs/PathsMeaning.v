(** C12: the resolved value of an argument is its documented meaning ([spec_meaning] of Spec/C12.v), for every
    table of definitions - under the guards of the known finding. *)
From Coq Require Import NArith List Bool.
From Exactly Require Import Model.Paths Spec.C12 Proofs.PathsJoin Proofs.PathsValid.
Import ListNotations.
Local Open Scope N_scope.

(** the meaning a path value carries *)
Fixpoint ddv_meaning (d : ddv) : meaning :=
  match d with
  | DRel r p => MRel r (components (part_value p))
  | DAbs p => MAbs (parse_pp (part_value p))
  | DStacked b p => extend (ddv_meaning b) (components (part_value p))
  end.

Lemma denote_extend : forall e m cs, denote e (extend m cs) = under (denote e m) cs.
Proof.
  intros e [r sfx | p] cs; cbn [extend denote]; unfold under; cbn [pp_root pp_parts].
  - rewrite app_assoc. reflexivity.
  - reflexivity.
Qed.

Lemma extend_nil : forall m, extend m [] = m.
Proof. intros [r sfx | [r ps]]; cbn [extend pp_root pp_parts]; rewrite app_nil_r; reflexivity. Qed.

Lemma ddv_meaning_sound : forall d, ddv_parts_rel d = true ->
  (forall e, ddv_value e d = denote e (ddv_meaning d)) /\ ddv_relativity d = meaning_rel (ddv_meaning d).
Proof.
  induction d as [r p | p | b IH p]; cbn [ddv_parts_rel ddv_meaning ddv_relativity]; intros H.
  - split; [|reflexivity]. intros e. rewrite ddv_value_eq. cbn [ddv_value_dep denote].
    apply negb_true_iff in H. apply join_rel; assumption.
  - split; [|reflexivity]. intros e. rewrite ddv_value_eq. reflexivity.
  - apply andb_true_iff in H as [Hb Hp]. apply negb_true_iff in Hp. destruct (IH Hb) as [IHv IHr]. split.
    + intros e. rewrite ddv_value_eq. cbn [ddv_value_dep]. rewrite <- ddv_value_eq, IHv, (join_rel _ _ Hp), denote_extend. reflexivity.
    + rewrite IHr. destruct (ddv_meaning b); reflexivity.
Qed.

(** ** agreement of the model's symbol table with the documented meaning of the definitions *)
Definition agree (tbl : table) (look : sym -> smeaning) : Prop :=
  (forall n s, rvalue_of_sym tbl n = Ok (RVStr s) -> look n = SMStr s) /\
  (forall n d, rvalue_of_sym tbl n = Ok (RVPath d) -> ddv_parts_rel d = true -> look n = SMPath (ddv_meaning d)).

Lemma agree_subst : forall tbl look fs s,
  agree tbl look -> concat_frags (rvalue_of_sym tbl) fs = Ok s -> subst look fs = Some s.
Proof.
  intros tbl look fs. induction fs as [|f fs IH]; intros s A H; cbn [concat_frags] in H.
  - injection H as <-. reflexivity.
  - destruct f as [c|n]; cbn [subst].
    + destruct (concat_frags (rvalue_of_sym tbl) fs) as [t|] eqn:E; [|discriminate]. cbn [bind] in H. injection H as <-.
      rewrite (IH t A eq_refl). reflexivity.
    + unfold look_str in H. destruct (rvalue_of_sym tbl n) as [[sn| | |]|] eqn:En; try discriminate. cbn [bind] in H.
      destruct (concat_frags (rvalue_of_sym tbl) fs) as [t|] eqn:E; [|discriminate]. cbn [bind] in H. injection H as <-.
      rewrite (proj1 A n sn En), (IH t A eq_refl). reflexivity.
Qed.

(** ** the PATH-STRING behind an explicit relativity *)
Lemma explicit_cases : forall t ctor,
  (all_const (st_frags t) = true /\ str_abs (const_concat (st_frags t)) = true)
  \/ (exists p, with_explicit_relativity t ctor = ctor p /\
                forall tbl sfx, resolve_psdv (rvalue_of_sym tbl) p = Ok sfx ->
                                concat_frags (rvalue_of_sym tbl) (st_frags t) = Ok (part_value sfx)).
Proof.
  intros [q fs] ctor. unfold with_explicit_relativity. cbn [st_frags].
  destruct (all_const fs) eqn:AC.
  - rewrite abs_iff. destruct (str_abs (const_concat fs)) eqn:SA; [left; auto|].
    right. exists (PSConst (const_concat fs)). split; [reflexivity|]. intros tbl sfx H. cbn [resolve_psdv] in H.
    injection H as <-. apply concat_all_const; assumption.
  - right. exists (PSString fs). split; [reflexivity|]. intros tbl sfx H. cbn [resolve_psdv] in H.
    destruct (concat_frags (rvalue_of_sym tbl) fs); [|discriminate]. injection H as <-. reflexivity.
Qed.

Lemma explicit_abs_excluded : forall tbl rel t,
  all_const (st_frags t) = true -> str_abs (const_concat (st_frags t)) = true ->
  own_string_abs tbl (PArg rel (Some t)) = true.
Proof.
  intros tbl rel [q fs] AC SA. unfold own_string_abs. cbn [st_frags] in *. rewrite (own_const rel q fs AC). assumption.
Qed.

Lemma is_empty_components : forall s, is_empty s = true -> components s = [].
Proof. intros [|c s] H; [reflexivity | discriminate]. Qed.

Lemma spec_fs : forall rel t, match pa_str (PArg rel (Some t)) with Some t0 => st_frags t0 | None => [] end = st_frags t.
Proof. reflexivity. Qed.

(** ** meanings of the resolved forms *)
Lemma meaning_rel_opt : forall tbl look r p d fs,
  agree tbl look -> resolve tbl (SRelOpt r p) = Ok d ->
  (forall sfx, resolve_psdv (rvalue_of_sym tbl) p = Ok sfx -> concat_frags (rvalue_of_sym tbl) fs = Ok (part_value sfx)) ->
  option_map (fun s => MRel r (components s)) (subst look fs) = Some (ddv_meaning d).
Proof.
  intros tbl look r p d fs A HR HL. unfold resolve in HR. cbn [resolve_sdv] in HR.
  destruct (resolve_psdv (rvalue_of_sym tbl) p) as [sfx|] eqn:RP; [|discriminate]. cbn [bind] in HR. injection HR as <-.
  rewrite (agree_subst _ _ _ _ A (HL sfx eq_refl)). reflexivity.
Qed.

Lemma meaning_rel_sym : forall tbl look n acc p d fs,
  agree tbl look -> resolve tbl (SRelSym n acc p) = Ok d -> ddv_parts_rel d = true ->
  (forall sfx, resolve_psdv (rvalue_of_sym tbl) p = Ok sfx -> concat_frags (rvalue_of_sym tbl) fs = Ok (part_value sfx)) ->
  match look n with
  | SMPath m => option_map (fun s => extend m (components s)) (subst look fs)
  | _ => None
  end = Some (ddv_meaning d).
Proof.
  intros tbl look n acc p d fs A HR HP HL. unfold resolve in HR. cbn [resolve_sdv] in HR. unfold look_path in HR.
  destruct (rvalue_of_sym tbl n) as [[sn|base| |]|] eqn:En; try discriminate. cbn [bind] in HR.
  destruct (resolve_psdv (rvalue_of_sym tbl) p) as [sfx|] eqn:RP; [|discriminate]. cbn [bind] in HR. injection HR as <-.
  rewrite (agree_subst _ _ _ _ A (HL sfx eq_refl)). cbn [option_map].
  destruct (is_empty (part_value sfx)) eqn:EM.
  - rewrite (proj2 A n base En HP), (is_empty_components _ EM), extend_nil. reflexivity.
  - cbn [ddv_parts_rel] in HP. apply andb_true_iff in HP as [HB _]. rewrite (proj2 A n base En HB). reflexivity.
Qed.

Definition default_meaning (dflt : relopt) (s : text) : meaning :=
  if str_abs s then MAbs (parse_pp s) else MRel dflt (components s).

Lemma lstrip_not_abs : forall s, str_abs (lstrip_slash s) = false.
Proof.
  induction s as [|c s IH]; [reflexivity|]. cbn [lstrip_slash]. destruct (N.eqb c SLASH) eqn:E; [assumption|].
  cbn [str_abs]. assumption.
Qed.

(** a leading symbol reference: [@[n]@] followed by [rest] (empty, or beginning with a constant that begins with a slash) *)
Lemma meaning_ref : forall tbl look n acc rest dflt d,
  agree tbl look -> resolve tbl (SRef n acc (suffix_of_frags rest) dflt) = Ok d -> ddv_parts_rel d = true ->
  starts_with_slash_frag rest = true ->
  match look n with
  | SMPath m => if starts_with_slash_frag rest then option_map (fun s => extend m (components s)) (subst look rest) else None
  | _ => option_map (default_meaning dflt) (subst look (FSym n :: rest))
  end = Some (ddv_meaning d).
Proof.
  intros tbl look n acc rest dflt d A HR HP HS. unfold resolve in HR. cbn [resolve_sdv] in HR.
  destruct (rvalue_of_sym tbl n) as [[first|path| |]|] eqn:En; try discriminate; cbn [bind] in HR.
  - (* a string symbol *)
    destruct (resolve_psdv (rvalue_of_sym tbl) (suffix_of_frags rest)) as [sfx|] eqn:RP; [|discriminate]. cbn [bind] in HR.
    rewrite (proj1 A n first En).
    assert (concat_frags (rvalue_of_sym tbl) rest = Ok (part_value sfx)) as HC.
    { destruct rest as [|f rest']; cbn [suffix_of_frags resolve_psdv] in RP.
      - injection RP as <-. reflexivity.
      - destruct (concat_frags (rvalue_of_sym tbl) (f :: rest')); [|discriminate]. injection RP as <-. reflexivity. }
    cbn [subst]. rewrite (proj1 A n first En), (agree_subst _ _ _ _ A HC). cbn [option_map]. unfold default_meaning.
    rewrite abs_iff in HR. destruct (str_abs (first ++ part_value sfx)); injection HR as <-; reflexivity.
  - (* a path symbol *)
    destruct (resolve_psdv (rvalue_of_sym tbl) (suffix_of_frags rest)) as [sfx|] eqn:RP; [|discriminate]. cbn [bind] in HR.
    assert (concat_frags (rvalue_of_sym tbl) rest = Ok (part_value sfx)) as HC.
    { destruct rest as [|f rest']; cbn [suffix_of_frags resolve_psdv] in RP.
      - injection RP as <-. reflexivity.
      - destruct (concat_frags (rvalue_of_sym tbl) (f :: rest')); [|discriminate]. injection RP as <-. reflexivity. }
    injection HR as <-. rewrite HS, (agree_subst _ _ _ _ A HC). cbn [option_map].
    destruct (is_empty (part_value sfx)) eqn:EM.
    + rewrite (proj2 A n path En HP), (is_empty_components _ EM), extend_nil. reflexivity.
    + cbn [ddv_parts_rel] in HP. apply andb_true_iff in HP as [HB _]. rewrite (proj2 A n path En HB).
      cbn [ddv_meaning part_value]. rewrite lstrip_components. reflexivity.
Qed.

(** no relativity, a PATH-STRING with symbol references that is not of the form of a leading reference:
    every symbol must be a string; the default relativity is attached *)
Lemma meaning_default_string : forall tbl look dflt fs d,
  agree tbl look -> resolve tbl (SRelOpt dflt (PSString fs)) = Ok d -> ddv_parts_rel d = true ->
  option_map (default_meaning dflt) (subst look fs) = Some (ddv_meaning d).
Proof.
  intros tbl look dflt fs d A HR HP. unfold resolve in HR. cbn [resolve_sdv resolve_psdv] in HR.
  destruct (concat_frags (rvalue_of_sym tbl) fs) as [str|] eqn:HC; [|discriminate]. cbn [bind] in HR. injection HR as <-.
  rewrite (agree_subst _ _ _ _ A HC). cbn [option_map ddv_parts_rel part_value] in *. unfold default_meaning.
  apply negb_true_iff in HP. rewrite HP. reflexivity.
Qed.

Lemma look_str_head : forall tbl n fs s, concat_frags (rvalue_of_sym tbl) (FSym n :: fs) = Ok s ->
  exists first, rvalue_of_sym tbl n = Ok (RVStr first).
Proof.
  intros tbl n fs s H. cbn [concat_frags] in H. unfold look_str in H.
  destruct (rvalue_of_sym tbl n) as [[first| | |]|]; try discriminate. eexists; reflexivity.
Qed.

(** ** the argument *)
Theorem arg_meaning : forall tbl look c a s d,
  agree tbl look ->
  parse_path c a = PParsed s -> resolve tbl s = Ok d ->
  ddv_parts_rel d = true -> explicit_ok tbl a = true ->
  spec_arg look (c_default c) (c_here c) a = Some (ddv_meaning d).
Proof.
  intros tbl look c [rel st] s d A HP HR HD HE. unfold parse_path in HP. cbn [pa_rel pa_str] in HP.
  unfold explicit_ok in HE. cbn [pa_rel] in HE. unfold spec_arg. cbn [pa_rel].
  destruct rel as [|o|n| |]; [| | |discriminate|destruct st; discriminate].
  - (* no relativity *)
    destruct st as [t|].
    + cbn [relativity_ctor] in HP. destruct (tok_is_reserved t); [discriminate|]. destruct (tok_is_optionlike t); [discriminate|].
      destruct t as [q fs]. unfold without_explicit_relativity in HP. cbn [st_frags pa_str] in *.
      destruct fs as [|f1 fs1].
      { injection HP as <-. unfold resolve in HR. cbn [resolve_sdv suffix_of_frags resolve_psdv bind] in HR. injection HR as <-. reflexivity. }
      destruct f1 as [c1|n1].
      * destruct fs1 as [|f2 fs2].
        -- injection HP as <-. unfold just_string_argument in HR. rewrite abs_iff in HR. cbn [subst option_map]. rewrite app_nil_r.
           unfold resolve in HR. destruct (str_abs c1); cbn [resolve_sdv] in HR; injection HR as <-; reflexivity.
        -- injection HP as <-. apply (meaning_default_string _ _ _ _ _ A HR HD).
      * destruct fs1 as [|f2 fs2].
        -- injection HP as <-. apply (meaning_ref tbl look n1 (c_acc c) [] (c_default c) d A HR HD eq_refl).
        -- destruct f2 as [k|n2].
           ++ destruct (str_abs k) eqn:SK; injection HP as <-.
              ** apply (meaning_ref tbl look n1 (c_acc c) (FConst k :: fs2) (c_default c) d A HR HD). exact SK.
              ** pose proof (meaning_default_string _ _ _ _ _ A HR HD) as HM.
                 unfold resolve in HR. cbn [resolve_sdv resolve_psdv suffix_of_frags] in HR.
                 destruct (concat_frags (rvalue_of_sym tbl) (FSym n1 :: FConst k :: fs2)) as [str|] eqn:HC; [|discriminate].
                 destruct (look_str_head _ _ _ _ HC) as [first Hf]. rewrite (proj1 A n1 first Hf). exact HM.
           ++ injection HP as <-. pose proof (meaning_default_string _ _ _ _ _ A HR HD) as HM.
              unfold resolve in HR. cbn [resolve_sdv resolve_psdv suffix_of_frags] in HR.
              destruct (concat_frags (rvalue_of_sym tbl) (FSym n1 :: FSym n2 :: fs2)) as [str|] eqn:HC; [|discriminate].
              destruct (look_str_head _ _ _ _ HC) as [first Hf]. rewrite (proj1 A n1 first Hf). exact HM.
    + destruct (c_suffix_required c); [discriminate|]. injection HP as <-. unfold resolve in HR. cbn [resolve_sdv] in HR.
      injection HR as <-. reflexivity.
  - (* a relativity option *)
    cbn [relativity_ctor] in HP. destruct (rel_in o (v_rels (c_acc c))); [|destruct st; discriminate].
    destruct st as [t|].
    + destruct (tok_is_reserved t); [discriminate|]. destruct (tok_is_optionlike t); [discriminate|].
      injection HP as <-. cbn [pa_str].
      destruct (explicit_cases t (SRelOpt o)) as [[AC SA] | (p & EQ & HL)].
      * rewrite (explicit_abs_excluded tbl (ROpt o) t AC SA) in HE. discriminate.
      * rewrite EQ in HR. apply (meaning_rel_opt _ _ _ _ _ _ A HR). intros sfx. apply HL.
    + destruct (c_suffix_required c); [discriminate|]. injection HP as <-. cbn [pa_str].
      apply (meaning_rel_opt _ _ _ _ _ _ A HR). intros sfx H. cbn [resolve_psdv] in H. injection H as <-. reflexivity.
  - (* -rel SYMBOL *)
    cbn [relativity_ctor] in HP. destruct st as [t|].
    + destruct (tok_is_reserved t); [discriminate|]. destruct (tok_is_optionlike t); [discriminate|].
      injection HP as <-. cbn [pa_str].
      destruct (explicit_cases t (SRelSym n (c_acc c))) as [[AC SA] | (p & EQ & HL)].
      * rewrite (explicit_abs_excluded tbl (RSym n) t AC SA) in HE. discriminate.
      * rewrite EQ in HR. apply (meaning_rel_sym _ _ _ _ _ _ _ A HR HD). intros sfx. apply HL.
    + destruct (c_suffix_required c); [discriminate|]. injection HP as <-. cbn [pa_str].
      apply (meaning_rel_sym _ _ _ _ _ _ _ A HR HD). intros sfx H. cbn [resolve_psdv] in H. injection H as <-. reflexivity.
Qed.

(** ** the table of definitions *)
Lemma agree_nil : forall look, agree [] look.
Proof. intros look. split; intros n x H; discriminate. Qed.

Lemma agree_cons : forall here tbl0 sd0 n d v,
  agree tbl0 (spec_sym here sd0) ->
  compile_def here d = Some v ->
  (match d with SDPath a => explicit_ok tbl0 a | _ => true end) = true ->
  agree ((n, v) :: tbl0) (spec_sym here ((n, d) :: sd0)).
Proof.
  intros here tbl0 sd0 n d v A HC HG. split; intros k x H; cbn [rvalue_of_sym] in H; cbn [spec_sym]; destruct (N.eqb n k) eqn:E;
    try (apply A; assumption).
  - (* strings *)
    destruct d as [fs | a | | ]; cbn [compile_def] in HC.
    + injection HC as <-. destruct (concat_frags (rvalue_of_sym tbl0) fs) as [t|] eqn:CF; [|discriminate]. cbn [bind] in H.
      injection H as <-. rewrite (agree_subst _ _ _ _ A CF). reflexivity.
    + destruct (parse_path (def_conf here) a); try discriminate. injection HC as <-.
      destruct (resolve_sdv (rvalue_of_sym tbl0) s); discriminate.
    + injection HC as <-. discriminate.
    + injection HC as <-. discriminate.
  - (* paths *)
    intros HP. destruct d as [fs | a | | ]; cbn [compile_def] in HC.
    + injection HC as <-. destruct (concat_frags (rvalue_of_sym tbl0) fs); discriminate.
    + destruct (parse_path (def_conf here) a) as [| |s0] eqn:PP0; try discriminate. injection HC as <-.
      destruct (resolve_sdv (rvalue_of_sym tbl0) s0) as [d'|] eqn:R; [|discriminate]. cbn [bind] in H. injection H as <-.
      pose proof (arg_meaning tbl0 (spec_sym here sd0) (def_conf here) a s0 d' A PP0 R HP HG) as HM.
      cbn [def_conf c_default c_here] in HM. rewrite HM. reflexivity.
    + injection HC as <-. discriminate.
    + injection HC as <-. discriminate.
Qed.

Lemma run_defs_agree : forall defs here tbl0 sd0 i tbl,
  agree tbl0 (spec_sym here sd0) ->
  run_defs here tbl0 i defs = (None, tbl) -> defs_explicit_ok here tbl0 defs = true ->
  agree tbl (spec_sym here (rev defs ++ sd0)).
Proof.
  induction defs as [|[n d] defs IH]; intros here tbl0 sd0 i tbl A HR HG; cbn [run_defs] in HR.
  - injection HR as <-. exact A.
  - cbn [defs_explicit_ok] in HG. apply andb_true_iff in HG as [HG1 HG2].
    destruct (compile_def here d) as [v|] eqn:CD; [|discriminate].
    unfold validate_def in HR. destruct (contains tbl0 n); [discriminate|].
    destruct (validate_refs tbl0 (value_refs v)); try discriminate.
    cbn [rev]. rewrite <- app_assoc. cbn [app].
    eapply IH; [apply agree_cons; eassumption | exact HR | exact HG2].
Qed.

(** The resolved value of an argument is its documented meaning: for every list of definitions that symbol
    validation accepts, every argument configuration, every argument. *)
Theorem argument_meaning : forall here defs tbl c a s d,
  run_defs here [] 0 defs = (None, tbl) ->
  c_here c = None ->
  parse_path c a = PParsed s -> resolve tbl s = Ok d ->
  ddv_parts_rel d = true -> explicit_ok tbl a = true -> defs_explicit_ok here [] defs = true ->
  exists m, spec_meaning here defs (c_default c) a = Some m /\
            (forall e, ddv_value e d = denote e m) /\ ddv_relativity d = meaning_rel m.
Proof.
  intros here defs tbl c a s d HRun HH HP HR HD HE HG. exists (ddv_meaning d).
  pose proof (run_defs_agree defs here [] [] 0 tbl (agree_nil _) HRun HG) as A. rewrite app_nil_r in A.
  pose proof (arg_meaning _ _ _ _ _ _ A HP HR HD HE) as HM. rewrite HH in HM.
  split; [exact HM | apply ddv_meaning_sound; assumption].
Qed.
