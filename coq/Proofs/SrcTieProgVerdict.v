(** * Source tie, targets ProgVerdict and Accumulate (C10). *)
From Coq Require Import ZArith NArith List Bool String Lia.
From Exactly Require Import Lib.PyVal Model.Prog Gen.Src_ProgVerdict Proofs.PyValLemmas.
Import ListNotations. Local Open Scope Z_scope.

(** ** result_to_sh / result_to_pfh: the ExecutionResultAndStderr of a run with exit code [code]; stderr contents,
    output directory and program description are arbitrary values *)
Definition enc_result (code : N) (stderr dir prog : pyval) : pyval :=
  VObj "instruction_from_parts_for_executing_program.ExecutionResultAndStderr"%string [VInt (Z.of_N code); stderr; dir; prog].

Definition enc_pfh_status (s : status) : pyval :=
  match s with
  | StPass => VEnum "pfh.PassOrFailOrHardErrorEnum" "PASS" (VInt 0)
  | StFail => VEnum "pfh.PassOrFailOrHardErrorEnum" "FAIL" (VInt 2)
  | StHard => VEnum "pfh.PassOrFailOrHardErrorEnum" "HARD_ERROR" (VInt 99)
  end%string.
Definition is_pass (s : status) : bool := match s with StPass => true | _ => false end.
Definition is_hard (s : status) : bool := match s with StHard => true | _ => false end.

Lemma code_zero code : (Z.of_N code =? 0) = (code =? 0)%N.
Proof. now destruct code. Qed.

Section Results.
  Variables (code : N) (stderr dir prog : pyval).
  Hypothesis (Hs : py_ok stderr = true) (Hd : py_ok dir = true) (Hp : py_ok prog = true).
  Let r := enc_result code stderr dir prog.

  Lemma sh_value :
    py_instruction_from_parts_for_executing_program_result_to_sh r
    = if (code =? 0)%N then VObj "sh.SuccessOrHardError"%string [VNone]
      else VObj "sh.SuccessOrHardError"%string
             [VObj "call:top_lvl_error_msg_rendering.non_zero_exit_code_msg"%string [prog; VInt (Z.of_N code); stderr]].
  Proof.
    unfold r, enc_result, py_instruction_from_parts_for_executing_program_result_to_sh.
    pycbn. rewrite code_zero. destruct (code =? 0)%N; pycbn; [reflexivity|].
    pyoks. reflexivity.
  Qed.

  Lemma pfh_value :
    py_instruction_from_parts_for_executing_program_result_to_pfh r
    = if (code =? 0)%N then VObj "pfh.PassOrFailOrHardError"%string [enc_pfh_status StPass; VNone]
      else VObj "pfh.PassOrFailOrHardError"%string
             [enc_pfh_status StFail;
              VObj "call:top_lvl_error_msg_rendering.non_zero_exit_code_msg"%string [prog; VInt (Z.of_N code); stderr]].
  Proof.
    unfold r, enc_result, py_instruction_from_parts_for_executing_program_result_to_pfh.
    pycbn. rewrite code_zero. destruct (code =? 0)%N; pycbn; [reflexivity|].
    pyoks. reflexivity.
  Qed.

  (** non-assertion phases: success or HARD ERROR *)
  Theorem tie_result_to_sh ph : ph <> PhAssert ->
    py_attr_is_success (py_instruction_from_parts_for_executing_program_result_to_sh r)
    = VBool (is_pass (exit_code_verdict ph false code)) /\
    py_attr_is_hard_error (py_instruction_from_parts_for_executing_program_result_to_sh r)
    = VBool (is_hard (exit_code_verdict ph false code)).
  Proof.
    intro H. rewrite sh_value. unfold exit_code_verdict.
    destruct (code =? 0)%N; [split; reflexivity|].
    destruct ph; try congruence; split; reflexivity.
  Qed.

  (** the assert phase: PASS or FAIL *)
  Theorem tie_result_to_pfh :
    py_attr_status (py_instruction_from_parts_for_executing_program_result_to_pfh r)
    = enc_pfh_status (exit_code_verdict PhAssert false code) /\
    py_attr_is_error (py_instruction_from_parts_for_executing_program_result_to_pfh r)
    = VBool (negb (is_pass (exit_code_verdict PhAssert false code))).
  Proof.
    rewrite pfh_value. unfold exit_code_verdict. destruct (code =? 0)%N; split; reflexivity.
  Qed.

  (** ResultTranslator just calls the two functions *)
  Theorem tie_result_translator self : py_ok self = true ->
    py_instruction_from_parts_for_executing_program_ResultTranslator_translate_for_non_assertion self r
    = py_instruction_from_parts_for_executing_program_result_to_sh r /\
    py_instruction_from_parts_for_executing_program_ResultTranslator_translate_for_assertion self r
    = py_instruction_from_parts_for_executing_program_result_to_pfh r.
  Proof.
    intro Hself. unfold py_instruction_from_parts_for_executing_program_ResultTranslator_translate_for_non_assertion,
      py_instruction_from_parts_for_executing_program_ResultTranslator_translate_for_assertion, py_strict.
    rewrite Hself, sh_value, pfh_value. cbn [r enc_result py_ok].
    split; destruct (code =? 0)%N; reflexivity.
  Qed.

  (** -ignore-exit-code: MainStepResultTranslatorForUnconditionalSuccess *)
  Theorem tie_unconditional_success self x ph : py_ok self = true -> py_ok x = true ->
    py_attr_is_success (py_instruction_part_utils_MainStepResultTranslatorForUnconditionalSuccess_translate_for_non_assertion self x)
    = VBool (is_pass (exit_code_verdict ph true code)) /\
    py_attr_status (py_instruction_part_utils_MainStepResultTranslatorForUnconditionalSuccess_translate_for_assertion self x)
    = enc_pfh_status (exit_code_verdict PhAssert true code).
  Proof.
    intros Hself Hx.
    unfold py_instruction_part_utils_MainStepResultTranslatorForUnconditionalSuccess_translate_for_non_assertion,
      py_instruction_part_utils_MainStepResultTranslatorForUnconditionalSuccess_translate_for_assertion, py_strict.
    rewrite Hself, Hx. split; reflexivity.
  Qed.
End Results.
