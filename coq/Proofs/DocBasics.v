(** Basic facts about the document reader model (C07). *)
From Coq Require Import NArith List Bool Arith Lia.
From Exactly Require Import Model.Doc Spec.C07.
Import ListNotations.
Local Open Scope N_scope.

Section Basics.
  Variable iparse : sec -> text -> list text -> ires.

  (** A header line that does not name a phase stops the reader with an error located at that line. *)
  Lemma unknown_header_is_error :
    forall inc fuel fi cur n l0 rest doc,
      at_eof (l0 :: rest) = false -> is_header_line l0 = true ->
      (forall s, header_of l0 <> HSec s) ->
      loop iparse inc (S fuel) fi cur n (l0 :: rest) doc = Err (ESource None (LineSeq n [l0]) (fi_path fi) (fi_chain fi)).
  Proof.
    intros inc fuel fi cur n l0 rest doc Heof Hh Hno.
    cbn [loop]. rewrite Heof, Hh.
    destruct (header_of l0) eqn:E; try reflexivity.
    exfalso. apply (Hno s). reflexivity.
  Qed.
  (** A malformed inclusion directive (`including` with no or with several arguments) in a phase other than
      [act] stops the reader with an error located at the directive's OWN line (number, text, file, chain),
      although the directive parser has already consumed that line when it raises. *)
  Lemma malformed_directive_is_error :
    forall inc fuel fi cur n l0 rest doc args,
      cur <> SAct -> at_eof (l0 :: rest) = false -> is_header_line l0 = false ->
      is_empty_line l0 = false -> is_comment_line l0 = false ->
      split_ws l0 = including_token :: args -> length args <> 1%nat ->
      loop iparse inc (S fuel) fi cur n (l0 :: rest) doc
      = Err (ESource (Some cur) (LineSeq n [l0]) (fi_path fi) (fi_chain fi)).
  Proof.
    intros inc fuel fi cur n l0 rest doc args Hc Heof Hh He Hco Hsp Hlen.
    assert (Hst : elem_step iparse cur n l0 rest = SErr (LineSeq n [l0])).
    { assert (Hna : nonact_step iparse cur n l0 rest = SErr (LineSeq n [l0])).
      { unfold nonact_step. rewrite He, Hco. unfold incl_step. rewrite Hsp.
        assert (Hr : text_eqb including_token including_token = true) by reflexivity. rewrite Hr.
        destruct args as [|a [|b args']]; try reflexivity. cbn in Hlen. contradiction. }
      destruct cur; try exact Hna. contradiction. }
    cbn [loop]. rewrite Heof, Hh, Hst. reflexivity.
  Qed.
End Basics.
