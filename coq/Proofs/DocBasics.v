(** Basic facts about the document reader model (C07). *)
From Coq Require Import NArith List Bool Arith Lia.
From Exactly Require Import Model.Doc Spec.C07.
Import ListNotations.
Local Open Scope N_scope.

Section Basics.
  Variable iparse : sec -> text -> list text -> ires.

  (** A header line that does not name a phase stops the reader with an error located at that line. *)
  Lemma unknown_header_is_error :
    forall inc fuel fi cur n l0 rest doc,
      at_eof (l0 :: rest) = false -> is_header_line l0 = true ->
      (forall s, header_of l0 <> HSec s) ->
      loop iparse inc (S fuel) fi cur n (l0 :: rest) doc = Err (ESource None (LineSeq n [l0]) (fi_path fi) (fi_chain fi)).
  Proof.
    intros inc fuel fi cur n l0 rest doc Heof Hh Hno.
    cbn [loop]. rewrite Heof, Hh.
    destruct (header_of l0) eqn:E; try reflexivity.
    exfalso. apply (Hno s). reflexivity.
  Qed.
End Basics.
