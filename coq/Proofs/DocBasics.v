(** Basic facts about the document reader model (C07). *)
From Coq Require Import NArith List Bool Arith Lia.
From Exactly Require Import Model.Doc Spec.C07.
Import ListNotations.
Local Open Scope N_scope.

Section Basics.
  Variable iparse : sec -> text -> list text -> ires.

  (** A header line that does not name a phase stops the reader with an error located at that line. *)
  Lemma unknown_header_is_error :
    forall inc fuel fi cur n l0 rest doc,
      at_eof (l0 :: rest) = false -> is_header_line l0 = true ->
      (forall s, header_of l0 <> HSec s) ->
      loop iparse inc (S fuel) fi cur n (l0 :: rest) doc = Err (ESource None (LineSeq n [l0]) (fi_path fi) (fi_chain fi)).
  Proof.
    intros inc fuel fi cur n l0 rest doc Heof Hh Hno.
    cbn [loop]. rewrite Heof, Hh.
    destruct (header_of l0) eqn:E; try reflexivity.
    exfalso. apply (Hno s). reflexivity.
  Qed.
  (** A malformed inclusion directive (`including` with no or with several arguments) in a phase other than
      [act] stops the reader with an error located at the directive's OWN line (number, text, file, chain),
      although the directive parser has already consumed that line when it raises. *)
  Lemma malformed_directive_is_error :
    forall inc fuel fi cur n l0 rest doc args,
      cur <> SAct -> at_eof (l0 :: rest) = false -> is_header_line l0 = false ->
      is_empty_line l0 = false -> is_comment_line l0 = false ->
      split_ws l0 = including_token :: args -> length args <> 1%nat ->
      loop iparse inc (S fuel) fi cur n (l0 :: rest) doc
      = Err (ESource (Some cur) (LineSeq n [l0]) (fi_path fi) (fi_chain fi)).
  Proof.
    intros inc fuel fi cur n l0 rest doc args Hc Heof Hh He Hco Hsp Hlen.
    assert (Hst : elem_step iparse cur n l0 rest = SErr (LineSeq n [l0])).
    { assert (Hna : nonact_step iparse cur n l0 rest = SErr (LineSeq n [l0])).
      { unfold nonact_step. rewrite He, Hco. unfold incl_step. rewrite Hsp.
        assert (Hr : text_eqb including_token including_token = true) by reflexivity. rewrite Hr.
        destruct args as [|a [|b args']]; try reflexivity. cbn in Hlen. contradiction. }
      destruct cur; try exact Hna. contradiction. }
    cbn [loop]. rewrite Heof, Hh, Hst. reflexivity.
  Qed.
  (** A description on the first line of an element: `D` REST with no back-tick in D.  The description text is D
      without surrounding white space, and the instruction parser continues right after the CLOSING back-tick
      (column |D| + 2) — whatever white space D has inside the delimiters. *)
  Lemma find_char_app : forall c d r, (forall x, In x d -> (x =? c) = false) -> find_char c (d ++ c :: r) = Some (length d).
  Proof.
    intros c. induction d as [|x d IH]; intros r H; cbn [app find_char length].
    - rewrite N.eqb_refl. reflexivity.
    - rewrite (H x (or_introl eq_refl)), IH by (intros y Hy; apply H; right; exact Hy). reflexivity.
  Qed.

  Lemma described_on_first_line :
    forall s n d r rest,
      (forall x, In x d -> (x =? c_btick) = false) ->
      let l0 := c_btick :: d ++ c_btick :: r in
      instr_desc l0 rest = Some (strip d) /\
      instr_step iparse s n l0 rest = skip_cursor iparse s n l0 n l0 (length d + 2) rest.
  Proof.
    intros s n d r rest Hd l0. subst l0. split.
    - unfold instr_desc. cbn [count_while is_space skipn]. change (is_space c_btick) with false. cbn [skipn].
      rewrite N.eqb_refl, (find_char_app c_btick d r Hd).
      assert (E : firstn (length d) (d ++ c_btick :: r) = d).
      { rewrite firstn_app, firstn_all, Nat.sub_diag. cbn. apply app_nil_r. }
      rewrite E. reflexivity.
    - unfold instr_step. cbn [count_while is_space skipn]. change (is_space c_btick) with false. cbn [skipn].
      rewrite N.eqb_refl, (find_char_app c_btick d r Hd).
      replace (0 + 1 + length d + 1)%nat with (length d + 2)%nat by lia. reflexivity.
  Qed.
End Basics.
