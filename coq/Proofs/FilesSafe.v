(** C15, populate side: with validated FILE-NAMEs and no symbolic link in the tree the model never
    abstains ([OutsideModel]); so the confinement and denotation theorems say something for every
    validated FILE-LIST. *)
From Coq Require Import NArith List Bool Arith Lia.
From Exactly Require Import Lib.Tree Model.Files Spec.C15 Proofs.FilesPopulate Proofs.FilesDenote.
Import ListNotations.

Lemma link_free_lookup : forall n es c, link_free (Dir es) = true -> lookup n es = Some c -> link_free c = true.
Proof.
  intros n es c H L. rewrite link_free_Dir in H. rewrite forallb_forall in H.
  apply lookup_In in L. apply (H (n, c)). exact L.
Qed.

Lemma link_free_update : forall n c es, link_free (Dir es) = true -> link_free c = true -> link_free (Dir (update n c es)) = true.
Proof.
  intros n c es H Hc. rewrite link_free_Dir in *. induction es as [|[k w] es IH]; cbn in *; [reflexivity|].
  apply andb_true_iff in H as [H1 H2]. destruct (name_eqb k n); cbn; [rewrite Hc, H2 | rewrite H1, (IH H2)]; reflexivity.
Qed.

Lemma link_free_app : forall n c es, link_free (Dir es) = true -> link_free c = true -> link_free (Dir (es ++ [(n, c)])) = true.
Proof.
  intros n c es H Hc. rewrite link_free_Dir in *. rewrite forallb_app, H. cbn. rewrite Hc. reflexivity.
Qed.

Lemma link_free_chain : forall q, link_free (chain q) = true.
Proof. induction q as [|n q IH]; [reflexivity|]. cbn [chain]. rewrite link_free_Dir. cbn. rewrite IH. reflexivity. Qed.

Lemma lstat_link_free : forall p st, link_free st = true -> lstat p st <> LViaLink /\ forall x, lstat p st = LFound x -> link_free x = true.
Proof.
  induction p as [|n p IH]; intros st H; cbn [lstat].
  - split; [discriminate | intros x E; injection E as <-; exact H].
  - destruct st as [c|es|l]; [split; [discriminate | intros; discriminate] | | discriminate].
    destruct (lookup n es) as [c|] eqn:E; [|split; [discriminate | intros; discriminate]].
    apply IH. eapply link_free_lookup; eassumption.
Qed.

Lemma mkdirs_link_free : forall p st, link_free st = true ->
  match mkdirs p st with MOk st' => link_free st' = true | MNotDir => True | MViaLink => False end.
Proof.
  induction p as [|n p IH]; intros st H; destruct st as [c|es|l]; try discriminate; cbn [mkdirs]; try exact I; [exact H|].
  destruct (lookup n es) as [c|] eqn:E.
  - specialize (IH c (link_free_lookup _ _ _ H E)). destruct (mkdirs p c); try exact IH.
    apply link_free_update; assumption.
  - apply link_free_app; [exact H | apply link_free_chain].
Qed.

Lemma alter_link_free : forall p f st st', link_free st = true ->
  (forall x x', link_free x = true -> f x = Some x' -> link_free x' = true) ->
  alter p f st = Some st' -> link_free st' = true.
Proof.
  induction p as [|n p IH]; intros f st st' H Hf E; cbn [alter] in E.
  - eapply Hf; eassumption.
  - destruct st as [c|es|l]; try discriminate. destruct (lookup n es) as [c|] eqn:El; [|discriminate].
    destruct (alter p f c) as [c'|] eqn:Ea; [|discriminate]. injection E as <-.
    apply link_free_update; [exact H|]. eapply IH; [eapply link_free_lookup; eassumption | exact Hf | exact Ea].
Qed.

Lemma add_entry_link_free : forall n new x x', link_free new = true -> link_free x = true -> add_entry n new x = Some x' -> link_free x' = true.
Proof.
  intros n new x x' Hn Hx E. unfold add_entry in E. destruct x as [c|es|l]; try discriminate.
  destruct (lookup n es); [discriminate|]. injection E as <-. apply link_free_app; assumption.
Qed.

(** "safe": the run stays inside the model and keeps the tree free of links *)
Definition safe (r : tree * outcome) : Prop := link_free (fst r) = true /\ snd r <> OutsideModel.

Lemma create_safe : forall p new st, link_free st = true -> link_free new = true -> safe (create p new st).
Proof.
  intros p new st H Hn. unfold create, safe. destruct (lstat_link_free p st H) as [Hv _].
  destruct (lstat p st) eqn:El; cbn [fst snd]; try (split; [exact H | discriminate]); try contradiction;
    (destruct (split_last p) as [[q l]|]; [|split; [exact H | discriminate]];
     pose proof (mkdirs_link_free q st H) as M; destruct (mkdirs q st) as [st1| |]; [|split; [exact H | discriminate] | contradiction];
     destruct (alter q (add_entry l new) st1) as [st2|] eqn:Ea; cbn [fst snd]; (split; [|discriminate]); [|exact M];
     eapply alter_link_free; [exact M | | exact Ea]; intros x x' Hx; apply add_entry_link_free; assumption).
Qed.

Lemma stat_existing_link_free : forall p st, link_free st = true -> stat_existing p st <> ExViaLink.
Proof.
  intros p st H. unfold stat_existing. destruct (lstat_link_free p st H) as [Hv Hf].
  destruct (lstat p st) as [[c|sub|l]| | |]; try discriminate; try contradiction.
  specialize (Hf _ eq_refl). discriminate.
Qed.

Lemma deref_link_free : forall t c, fst (deref t) = Some c -> link_free c = true.
Proof.
  induction t as [c0|es IH| |t IH] using tree_ind'; intros c E.
  - cbn in E. injection E as <-. reflexivity.
  - rewrite deref_Dir in E. cbn [fst] in E. injection E as <-. rewrite link_free_Dir.
    induction es as [|p es IHes]; [reflexivity|]. inversion IH as [|? ? Hp Hes]; subst. cbn [deref_list fst].
    destruct (fst (deref (snd p))) as [c|] eqn:Ed; [|apply IHes; exact Hes].
    cbn [forallb snd]. rewrite (Hp c eq_refl). apply IHes. exact Hes.
  - discriminate.
  - cbn [deref] in E. apply IH. exact E.
Qed.

Lemma copy_into_safe : forall src p st, link_free st = true -> safe (copy_into src p st).
Proof.
  induction src as [|[n s] src IH]; intros p st H; cbn [copy_into]; [split; [exact H | discriminate]|].
  destruct (lstat_link_free (p ++ [n]) st H) as [Hv _].
  destruct (lstat (p ++ [n]) st); try (split; [exact H | discriminate]); try contradiction.
  destruct (deref s) as [[c|] er] eqn:Ed; [|split; [exact H | discriminate]].
  destruct (alter p (add_entry n c) st) as [st1|] eqn:Ea; [|split; [exact H | discriminate]].
  assert (link_free st1 = true) as H1.
  { eapply alter_link_free; [exact H | | exact Ea]. intros x x' Hx. apply add_entry_link_free; [|exact Hx].
    apply (deref_link_free s). rewrite Ed. reflexivity. }
  destruct er; [split; [exact H1 | discriminate] | apply IH; exact H1].
Qed.

Lemma entry_valid_eq : forall e,
  entry_valid e = valid_name (entry_name e) && match e with EDirList _ _ sub => forallb entry_valid sub | _ => true end.
Proof.
  intros e. destruct e as [nm m|nm|nm md es|nm md src]; reflexivity.
Qed.

Definition make_safe_stmt (e : entry) : Prop :=
  entry_valid e = true -> forall base st, link_free st = true -> safe (make e base st).

Lemma populate_safe_of : forall es, Forall make_safe_stmt es -> forallb entry_valid es = true ->
  forall base st, link_free st = true -> safe (populate es base st).
Proof.
  induction es as [|e es IH]; intros F V base st H; cbn [populate]; [split; [exact H | discriminate]|].
  inversion F as [|? ? He Fes]; subst. cbn [forallb] in V. apply andb_true_iff in V as [Ve Ves].
  destruct (He Ve base st H) as [H1 H2]. destruct (make e base st) as [st1 [| |]]; cbn [fst snd] in *;
    [apply IH; assumption | split; [exact H1 | discriminate] | contradiction].
Qed.

Lemma make_safe : forall e, make_safe_stmt e.
Proof.
  induction e as [nm m|nm|nm md es IH|nm md src] using entry_ind'; intros V base st H; rewrite entry_valid_eq in V;
    apply andb_true_iff in V as [Vn Vs]; cbn [entry_name] in Vn; rewrite make_eq; cbn zeta; cbn [entry_name];
    rewrite (valid_name_not_escaping _ Vn).
  - destruct m as [[[|] c]|]; try (apply create_safe; [exact H | reflexivity]).
    pose proof (stat_existing_link_free (base ++ posix_parts nm) st H) as Hs.
    destruct (stat_existing (base ++ posix_parts nm) st); try (split; [exact H | discriminate]); try contradiction.
    destruct (alter (base ++ posix_parts nm) (append_text c) st) as [st1|] eqn:Ea; [|split; [exact H | discriminate]].
    split; [|discriminate]. cbn [fst]. eapply alter_link_free; [exact H | | exact Ea].
    intros x x' _ E. unfold append_text in E. destruct x; try discriminate. injection E as <-. reflexivity.
  - apply create_safe; [exact H | reflexivity].
  - destruct md.
    + destruct (create_safe (base ++ posix_parts nm) (Dir []) st H eq_refl) as [H1 H2].
      destruct (create (base ++ posix_parts nm) (Dir []) st) as [st1 [| |]]; cbn [fst snd] in *;
        [apply (populate_safe_of es IH Vs); exact H1 | split; [exact H1 | discriminate] | contradiction].
    + pose proof (stat_existing_link_free (base ++ posix_parts nm) st H) as Hs.
      destruct (stat_existing (base ++ posix_parts nm) st); try (split; [exact H | discriminate]); try contradiction.
      apply (populate_safe_of es IH Vs); exact H.
  - destruct md.
    + destruct (create_safe (base ++ posix_parts nm) (Dir []) st H eq_refl) as [H1 H2].
      destruct (create (base ++ posix_parts nm) (Dir []) st) as [st1 [| |]]; cbn [fst snd] in *;
        [apply copy_into_safe; exact H1 | split; [exact H1 | discriminate] | contradiction].
    + pose proof (stat_existing_link_free (base ++ posix_parts nm) st H) as Hs.
      destruct (stat_existing (base ++ posix_parts nm) st); try (split; [exact H | discriminate]); try contradiction.
      apply copy_into_safe; exact H.
Qed.

(** Validated names, no symbolic link in the tree: [populate] stays inside the model. *)
Theorem populate_safe : forall es base st,
  entries_valid es = true -> link_free st = true ->
  link_free (fst (populate es base st)) = true /\ snd (populate es base st) <> OutsideModel.
Proof.
  intros es base st V H. apply populate_safe_of; [|exact V|exact H]. apply Forall_forall. intros e _. apply make_safe.
Qed.
