(** The reader that skips/stops by interval, and exactness of [filter LINE-MATCHER]. *)
From Coq Require Import ZArith List Bool Lia ZifyBool.
From Exactly Require Import Model.Interval Proofs.IntervalSound.
Import ListNotations.
Local Open Scope Z_scope.

(** Well-formed line-number interval: what [adapt_to_line_num_range] and the combinations of
    its results produce: an upper bound is >= 1 and >= the lower bound. *)
Definition wf_itv (i : itv) : Prop :=
  match i with
  | Emp => True
  | NE lo (Some u) => 1 <= u /\ match lo with Some l => l <= u | None => True end
  | NE _ None => True
  end.

Section Reader.
  Variable line : Type.
  Local Notation enum := (enumerate_from line).

  Lemma enum_ge n ls : forall p, In p (enum n ls) -> n <= fst p.
  Proof.
    revert n; induction ls as [|l ls IH]; cbn; intros n p H; [contradiction|].
    destruct H as [<-|H]; cbn; [lia|]. apply IH in H; lia.
  Qed.

  Lemma filter_none {A} (f : A -> bool) l : (forall a, In a l -> f a = false) -> filter f l = [].
  Proof. induction l as [|a l IH]; cbn; intros H; [reflexivity|]. rewrite (H a) by auto. apply IH; auto. Qed.
  Lemma filter_all {A} (f : A -> bool) l : (forall a, In a l -> f a = true) -> filter f l = l.
  Proof. induction l as [|a l IH]; cbn; intros H; [reflexivity|]. rewrite (H a) by auto. f_equal; apply IH; auto. Qed.

  Definition le_opt (x : Z) (hi : option Z) : bool := match hi with Some u => x <=? u | None => true end.

  Lemma take_until_spec hi : forall ls ln,
      match hi with Some u => ln < u | None => True end ->
      take_until line hi ln ls = filter (fun p => le_opt (fst p) hi) (enum (ln + 1) ls).
  Proof.
    induction ls as [|l ls IH]; intros ln H; [reflexivity|].
    cbn [take_until enumerate_from filter fst]. destruct hi as [u|]; cbn [le_opt].
    - destruct (Z.leb_spec (ln + 1) u); [|lia]. f_equal.
      destruct (Z.eqb_spec (ln + 1) u) as [E|E].
      + symmetry. apply filter_none. intros p Hp. apply enum_ge in Hp. cbn. lia.
      + apply IH. lia.
    - f_equal. apply IH. exact I.
  Qed.

  Lemma skip_lines_spec : forall k ls s,
      enum (s + Z.of_nat (Nat.min k (length ls))) (skip_lines line k ls)
      = filter (fun p => s + Z.of_nat k <=? fst p) (enum s ls).
  Proof.
    induction k as [|k IH]; intros ls s.
    - cbn [Nat.min skip_lines]. rewrite Z.add_0_r. symmetry. apply filter_all.
      intros p Hp. apply enum_ge in Hp. cbn. lia.
    - destruct ls as [|l ls]; [reflexivity|].
      cbn [skip_lines length Nat.min enumerate_from filter fst].
      destruct (Z.leb_spec (s + Z.of_nat (S k)) s); [lia|].
      replace (s + Z.of_nat (S (Nat.min k (length ls)))) with ((s + 1) + Z.of_nat (Nat.min k (length ls))) by lia.
      rewrite IH. apply filter_ext. intros p. f_equal. lia.
  Qed.

  Lemma filter_filter {A} (f g : A -> bool) l : filter f (filter g l) = filter (fun a => g a && f a) l.
  Proof. induction l as [|a l IH]; cbn; [reflexivity|]. destruct (g a); cbn; [destruct (f a)|]; congruence. Qed.

  Theorem read_interval_spec i ls :
    wf_itv i -> read_interval line i ls = filter (fun p => mem (fst p) i) (enum 1 ls).
  Proof.
    intros Hwf. destruct i as [|lo hi]; [symmetry; apply filter_none; reflexivity|].
    assert (G : take_until line hi
                  (Z.of_nat (Nat.min (Z.to_nat match lo with None => 0 | Some l => l - 1 end) (length ls)))
                  (skip_lines line (Z.to_nat match lo with None => 0 | Some l => l - 1 end) ls)
                = filter (fun p => mem (fst p) (NE lo hi)) (enum 1 ls)).
    { set (k := Z.to_nat match lo with None => 0 | Some l => l - 1 end).
      rewrite take_until_spec.
      - replace (Z.of_nat (Nat.min k (length ls)) + 1) with (1 + Z.of_nat (Nat.min k (length ls))) by lia.
        rewrite skip_lines_spec, filter_filter. apply filter_ext_in. intros p Hp. apply enum_ge in Hp.
        subst k. cbn [mem]. destruct lo as [l|], hi as [u|]; cbn [le_opt]; lia.
      - destruct hi as [u|]; [|exact I]. cbn in Hwf. subst k. destruct lo as [l|]; lia. }
    unfold read_interval. destruct lo as [l|], hi as [u|]; try exact G.
    symmetry. apply filter_all. reflexivity.
  Qed.
End Reader.

(** *** every interval the analysis computes at line level is well-formed *)
Lemma wf_of lo hi : wf_itv (NE lo hi) -> wf_itv (pos (of_ lo hi)).
Proof. destruct lo, hi; cbn; auto. Qed.

Lemma wf_union a b : wf_itv (pos a) -> wf_itv (pos b) -> wf_itv (pos (union a b)).
Proof.
  unfold union. destruct (pos a) as [|la ua] eqn:Ea; [auto|].
  destruct (pos b) as [|lb ub] eqn:Eb; [rewrite Ea; auto|].
  intros Ha Hb. apply wf_of. destruct la, ua, lb, ub; cbn in *; lia.
Qed.
Lemma wf_intersection a b : wf_itv (pos a) -> wf_itv (pos b) -> wf_itv (pos (intersection a b)).
Proof.
  unfold intersection. destruct (pos a) as [|la ua] eqn:Ea; [rewrite Ea; auto|].
  destruct (pos b) as [|lb ub] eqn:Eb; [rewrite Eb; auto|].
  intros Ha Hb. destruct la, ua, lb, ub; cbn [anyof] in *;
    try match goal with |- context [?p >? ?q] => destruct (Z.gtb_spec p q) end; cbn in *; lia.
Qed.
Lemma wf_adapt w : wf_itv (pos (adapt_to_line_num_range w)).
Proof.
  unfold adapt_to_line_num_range, adapt_limit, FIRST_LINE_NUMBER.
  destruct (pos w) as [|lo hi] eqn:E; [rewrite E; exact I|].
  destruct lo as [l|], hi as [u|]; cbn [option_map].
  - destruct (Z.ltb_spec u 1); [exact I|]. destruct (Z.eqb_spec (Z.max 1 l) 1); cbn; [lia|].
    destruct (Z.gtb_spec (Z.max 1 l) (Z.max 1 u)); cbn; lia.
  - destruct (Z.eqb_spec (Z.max 1 l) 1); cbn; exact I.
  - destruct (Z.ltb_spec u 1); [exact I|]. cbn; lia.
  - exact I.
Qed.
Lemma wf_fold (op : wi -> wi -> wi) :
  (forall a b, wf_itv (pos a) -> wf_itv (pos b) -> wf_itv (pos (op a b))) ->
  forall xs a, wf_itv (pos a) -> Forall (fun w => wf_itv (pos w)) xs -> wf_itv (pos (fold_left op xs a)).
Proof.
  intros Hop. induction xs as [|y ys IH]; cbn; intros a Ha HF; [exact Ha|].
  inversion HF; subst. apply IH; auto.
Qed.

Lemma wf_interval_of_lmatcher (m : lmatcher) : wf_itv (pos (interval_of_lmatcher true m)).
Proof.
  unfold interval_of_lmatcher.
  induction m as [b|m IH|m ms IHm IHms|m ms IHm IHms|l] using mexpr_ind'.
  - cbn. apply wf_adapt.
  - cbn [eval]. apply wf_adapt.
  - cbn [eval]. unfold bin, bin_op, custom, reduce; cbn [pos]. apply wf_fold; [apply wf_intersection|exact IHm|].
    apply Forall_map. exact IHms.
  - cbn [eval]. unfold bin, bin_op, custom, reduce; cbn [pos]. apply wf_fold; [apply wf_union|exact IHm|].
    apply Forall_map. exact IHms.
  - cbn [eval]. destruct (lleaf_interval true l); [apply wf_adapt|].
    unfold unknown', custom; cbn [pos]. apply wf_adapt.
Qed.

(** ** [filter LINE-MATCHER] keeps exactly the lines the matcher accepts. *)
Theorem filter_exact {line} (io : nat -> Z -> bool) (lo : nat -> Z -> line -> bool)
        (m : lmatcher) (ls : list line) :
  filter_impl line io lo true m ls = filter_spec line io lo m ls.
Proof.
  unfold filter_impl, filter_spec. f_equal.
  rewrite read_interval_spec by apply wf_interval_of_lmatcher.
  rewrite filter_filter. apply filter_ext_in. intros [n l] Hp. apply enum_ge in Hp. cbn [fst snd] in *.
  destruct (lmatches line io lo m n l) eqn:E; [|apply andb_false_r].
  rewrite (line_interval_pos_sound io lo m n l Hp E). reflexivity.
Qed.
