(** Which blocks are self-contained (hypothesis of the phase-order theorem): sufficient syntactic conditions.
      - an [act] block whose body contains no header line;
      - a block of another phase built from instructions (of one or several lines, here-documents included)
        whose extent does not depend on what follows them, and from single comment / empty lines that are
        followed, inside the block, by a line of another kind. *)
From Coq Require Import NArith List Bool Arith Lia.
From Exactly Require Import Model.Doc Spec.C07 Proofs.DocReader Proofs.DocTerm Proofs.DocOrder.
Import ListNotations.
Local Open Scope N_scope.

Lemma rbind_ok_id : forall (r : res tagged), rbind r (fun o => Ok o) = r.
Proof. destruct r; reflexivity. Qed.

Lemma good_tail_cons : forall tail, good_tail tail -> exists t r, tail = t :: r.
Proof. intros tail [->|[h [r [-> _]]]]; eexists _, _; reflexivity. Qed.

Lemma good_tail_not_eof_after : forall l body tail, good_tail tail -> at_eof (l :: body ++ tail) = false.
Proof.
  intros l body tail Ht. destruct (good_tail_cons tail Ht) as [t [r ->]].
  destruct body; reflexivity.
Qed.

Lemma skipn_app_exact {A} : forall (a b : list A), skipn (length a) (a ++ b) = b.
Proof. induction a as [|x a IH]; intros b; [reflexivity|apply IH]. Qed.

Section Blocks.
  Variable iparse : sec -> text -> list text -> ires.
  Variable finc : sec -> lineseq -> text -> res tagged.
  Variable fi : fileinfo.

  (** more fuel than lines: the amount does not matter *)
  Lemma flat_loop_fuel : forall f1 ls f2 cur m,
      (length ls < f1)%nat -> (length ls < f2)%nat ->
      flat_loop iparse finc f1 fi cur m ls = flat_loop iparse finc f2 fi cur m ls.
  Proof.
    induction f1 as [|f1 IH]; intros ls f2 cur m H1 H2; [lia|]. destruct f2 as [|f2]; [lia|].
    cbn [flat_loop]. destruct ls as [|l0 rest]; [reflexivity|].
    destruct (at_eof (l0 :: rest)); [reflexivity|]. cbn [length] in H1, H2.
    destruct (is_header_line l0).
    - destruct (header_of l0); try reflexivity. apply IH; lia.
    - destruct (elem_step iparse cur m l0 rest) as [k src consumed|src tok|src| |] eqn:Est; try reflexivity.
      + pose proof (elem_step_pos iparse cur m l0 rest k src consumed Est) as Hp.
        rewrite (IH (skipn consumed (l0 :: rest)) f2); [reflexivity| |]; rewrite skipn_length; cbn [length]; lia.
      + destruct (finc cur src tok); [|reflexivity]. cbn [rbind]. rewrite (IH rest f2); [reflexivity|lia|lia].
  Qed.

  Lemma flat_loop_elem : forall fuel cur n l0 rest k src c,
      at_eof (l0 :: rest) = false -> is_header_line l0 = false -> elem_step iparse cur n l0 rest = SElem k src c ->
      flat_loop iparse finc (S fuel) fi cur n (l0 :: rest)
      = rbind (flat_loop iparse finc fuel fi cur (n + N.of_nat c) (skipn c (l0 :: rest)))
              (fun out => Ok ((cur, Element k src (fi_path fi) (fi_chain fi) (elem_desc cur l0 rest)) :: out)).
  Proof. intros fuel cur n l0 rest k src c He Hh Hs. cbn [flat_loop]. rewrite He, Hh, Hs. reflexivity. Qed.

  (** ** [act]: the whole body is one instruction *)
  Lemma act_take_body : forall body tail,
      Forall (fun l => is_header_line l = false) body -> good_tail tail ->
      act_take (body ++ tail) = map un_escape body.
  Proof.
    induction body as [|l body IH]; intros tail Hb Ht.
    - cbn [app map]. destruct Ht as [->|[h [r [-> Hh]]]].
      + reflexivity.
      + cbn [act_take]. rewrite (header_not_eof h r Hh), Hh. reflexivity.
    - apply Forall_cons_iff in Hb as [Hl Hb]. cbn [app act_take map].
      rewrite (good_tail_not_eof_after l body tail Ht), Hl. f_equal. apply IH; assumption.
  Qed.

  Theorem act_block_self_contained :
    forall h l body,
      Forall (fun l => is_header_line l = false) (l :: body) ->
      self_contained iparse finc fi (Block SAct h (l :: body))
                     [(map un_escape (l :: body), fi_path fi, map l_path (fi_chain fi))].
  Proof.
    intros h l body Hb n tail Ht. cbn [b_sec b_body].
    exists [(SAct, Element KInstr (LineSeq n (map un_escape (l :: body))) (fi_path fi) (fi_chain fi) None)].
    split; [|split].
    - intros fuel Hlen. destruct fuel as [|fuel]; [lia|].
      apply Forall_cons_iff in Hb as [Hl Hb].
      cbn [app flat_loop]. rewrite (good_tail_not_eof_after l body tail Ht), Hl.
      cbn [elem_step]. unfold act_step. rewrite (act_take_body body tail Hb Ht).
      cbn [length]. rewrite map_length.
      change (l :: body ++ tail) with ((l :: body) ++ tail).
      replace (S (length body)) with (length (l :: body)) by reflexivity.
      rewrite skipn_app_exact. cbn [length app] in Hlen. rewrite app_length in Hlen.
      rewrite (flat_loop_fuel fuel tail (S fuel)) by lia. reflexivity.
    - constructor; [reflexivity|constructor].
    - reflexivity.
  Qed.

  (** ** other phases *)
  Lemma nil_self_contained : forall s h, self_contained iparse finc fi (Block s h []) [].
  Proof.
    intros s h n tail Ht. exists []. split; [|split]; [|constructor|reflexivity].
    intros fuel Hlen. cbn [b_body b_sec app length]. rewrite N.add_0_r. cbn [app].
    rewrite rbind_ok_id. reflexivity.
  Qed.

  (** an instruction that starts on line [l] (after [c] white-space characters, no description), occupies the
      [S k'] lines [l :: more], whatever follows *)
  Definition fixed_extent_instruction (s : sec) (l : text) (more : list text) : Prop :=
    is_header_line l = false /\ is_empty_line l = false /\ is_comment_line l = false /\
    (forall n, incl_step n l = None) /\
    (exists ch r0, skipn (count_while is_space l) l = ch :: r0 /\ (ch =? c_btick) = false) /\
    (forall rest, iparse s (skipn (count_while is_space l) l) (more ++ rest) = IOk (S (length more))).

  Lemma skip_cursor_direct : forall s n l rest ch r0,
      skipn (count_while is_space l) l = ch :: r0 ->
      skip_cursor iparse s n l n l (count_while is_space l) rest
      = instr_at iparse s n n l (count_while is_space l) rest.
  Proof.
    intros s n l rest ch r0 Hsk. unfold skip_cursor. rewrite Hsk.
    assert (Hc : count_while is_space (ch :: r0) = 0%nat \/ True) by (right; exact I).
    (* the column does not move: the character at the column is not white space *)
    assert (Hns : count_while is_space (ch :: r0) = 0%nat).
    { cbn [count_while]. destruct (is_space ch) eqn:E; [|reflexivity]. exfalso.
      (* [count_while] stops at the first non-space character, so the character at that column is not a space *)
      assert (G : forall t, match skipn (count_while is_space t) t with c :: _ => is_space c = false | [] => True end).
      { induction t as [|c t IHt]; cbn [count_while]; [exact I|]. destruct (is_space c) eqn:Ec; cbn [skipn]; [exact IHt|exact Ec]. }
      specialize (G l). rewrite Hsk in G. congruence. }
    rewrite Hns, Nat.add_0_r.
    assert (Hlt : (count_while is_space l <? length l)%nat = true).
    { apply Nat.ltb_lt. pose proof (skipn_length (count_while is_space l) l) as HL. rewrite Hsk in HL. cbn in HL. lia. }
    rewrite Hlt. reflexivity.
  Qed.

  Theorem instr_cons_self_contained :
    forall s h l more body C,
      s <> SAct -> fixed_extent_instruction s l more ->
      self_contained iparse finc fi (Block s h body) C ->
      self_contained iparse finc fi (Block s h ((l :: more) ++ body))
                     ((skipn (count_while is_space l) l :: more, fi_path fi, map l_path (fi_chain fi)) :: C).
  Proof.
    intros s h l more body C Hs [Hh [He [Hc [Hi [[ch [r0 [Hsk Hbt]]] Hext]]]]] Hsc n tail Ht.
    cbn [b_sec b_body] in *.
    destruct (Hsc (n + N.of_nat (S (length more))) tail Ht) as [E [HE [Htag HC]]].
    cbn [b_sec b_body] in HE, Htag.
    exists ((s, Element KInstr (LineSeq n (skipn (count_while is_space l) l :: more)) (fi_path fi) (fi_chain fi) (elem_desc s l ((more ++ body) ++ tail))) :: E).
    split; [|split].
    - intros fuel Hlen. destruct fuel as [|fuel]; [lia|].
      assert (Hstep : elem_step iparse s n l ((more ++ body) ++ tail)
                      = SElem KInstr (LineSeq n (skipn (count_while is_space l) l :: more)) (S (length more))).
      { rewrite <- app_assoc.
        assert (Hna : nonact_step iparse s n l (more ++ body ++ tail)
                      = SElem KInstr (LineSeq n (skipn (count_while is_space l) l :: more)) (S (length more))).
        { unfold nonact_step. rewrite He, Hc, Hi. unfold instr_step. rewrite Hsk, Hbt.
          rewrite (skip_cursor_direct s n l _ ch r0 Hsk). unfold instr_at. rewrite Hext.
          assert (Hle : (length more <=? length (more ++ body ++ tail))%nat = true).
          { apply Nat.leb_le. rewrite app_length. lia. }
          rewrite Hle, N.sub_diag. cbn [N.to_nat Nat.add].
          rewrite firstn_app, firstn_all, Nat.sub_diag. cbn [firstn]. rewrite app_nil_r, ?Hsk. reflexivity. }
        destruct s; try exact Hna. contradiction. }
      change (((l :: more) ++ body) ++ tail) with (l :: (more ++ body) ++ tail).
      rewrite (flat_loop_elem fuel s n l _ _ _ _ (good_tail_not_eof_after l (more ++ body) tail Ht) Hh Hstep).
      assert (Hsk2 : skipn (S (length more)) (l :: (more ++ body) ++ tail) = body ++ tail).
      { cbn [skipn]. rewrite <- app_assoc. apply skipn_app_exact. }
      rewrite Hsk2.
      change (length (((l :: more) ++ body) ++ tail)) with (S (length ((more ++ body) ++ tail))) in Hlen.
      rewrite !app_length in Hlen.
      rewrite (flat_loop_fuel fuel (body ++ tail) (S fuel)) by (rewrite app_length; lia).
      rewrite HE by (rewrite app_length; lia).
      change (length ((l :: more) ++ body)) with (S (length (more ++ body))). rewrite app_length.
      replace (n + N.of_nat (S (length more)) + N.of_nat (length body))
        with (n + N.of_nat (S (length more + length body))) by lia.
      destruct (flat_loop iparse finc (S fuel) fi s (n + N.of_nat (S (length more + length body))) tail); reflexivity.
    - constructor; [reflexivity|assumption].
    - cbn [map]. unfold instr_contents in *. cbn [filter is_instr e_kind map snd]. rewrite HC. reflexivity.
  Qed.

  (** a single empty or comment line followed, inside the block, by a line that is neither *)
  Theorem noninstr_cons_self_contained :
    forall s h l l1 body C,
      s <> SAct -> is_empty_or_comment l = true -> is_empty_or_comment l1 = false ->
      self_contained iparse finc fi (Block s h (l1 :: body)) C ->
      self_contained iparse finc fi (Block s h (l :: l1 :: body)) C.
  Proof.
    intros s h l l1 body C Hs Hl Hl1 Hsc n tail Ht. cbn [b_sec b_body] in *.
    destruct (Hsc (n + 1) tail Ht) as [E [HE [Htag HC]]].
    cbn [b_sec b_body] in HE, Htag.
    apply orb_false_iff in Hl1 as [Hl1e Hl1c].
    assert (Hhl : is_header_line l = false).
    { unfold is_empty_or_comment in Hl. unfold is_header_line.
      apply orb_true_iff in Hl as [Hl|Hl].
      - assert (G : forall t, forallb is_sptab t = true -> drop_while is_sptab t = []).
        { induction t as [|c t IHt]; cbn; [reflexivity|]. destruct (is_sptab c); [exact IHt|discriminate]. }
        unfold is_empty_line in Hl. rewrite (G l Hl). reflexivity.
      - unfold is_comment_line in Hl. destruct (drop_while is_sptab l) as [|c r]; [discriminate|].
        apply N.eqb_eq in Hl. subst c. reflexivity. }
    assert (Hstep : exists k, elem_step iparse s n l ((l1 :: body) ++ tail) = SElem k (LineSeq n [l]) 1 /\ k <> KInstr).
    { assert (Hna : exists k, nonact_step iparse s n l ((l1 :: body) ++ tail) = SElem k (LineSeq n [l]) 1 /\ k <> KInstr).
      { unfold nonact_step. cbn [app take_while_lines]. destruct (is_empty_line l) eqn:Ee.
        - rewrite Hl1e. exists KEmpty. split; [reflexivity|discriminate].
        - unfold is_empty_or_comment in Hl. rewrite Ee in Hl. cbn [orb] in Hl. rewrite Hl, Hl1c.
          exists KComment. split; [reflexivity|discriminate]. }
      destruct s; try exact Hna. contradiction. }
    destruct Hstep as [k [Hstep Hk]].
    exists ((s, Element k (LineSeq n [l]) (fi_path fi) (fi_chain fi) (elem_desc s l ((l1 :: body) ++ tail))) :: E).
    split; [|split].
    - intros fuel Hlen. destruct fuel as [|fuel]; [lia|].
      change ((l :: l1 :: body) ++ tail) with (l :: (l1 :: body) ++ tail) in *.
      rewrite (flat_loop_elem fuel s n l _ _ _ _ (good_tail_not_eof_after l (l1 :: body) tail Ht) Hhl Hstep).
      cbn [skipn].
      change (length (l :: (l1 :: body) ++ tail)) with (S (length ((l1 :: body) ++ tail))) in Hlen.
      rewrite (flat_loop_fuel fuel ((l1 :: body) ++ tail) (S fuel)) by lia.
      replace (n + N.of_nat 1) with (n + 1) by lia.
      rewrite HE by lia.
      replace (n + 1 + N.of_nat (length (l1 :: body))) with (n + N.of_nat (length (l :: l1 :: body))) by (cbn [length]; lia).
      destruct (flat_loop iparse finc (S fuel) fi s (n + N.of_nat (length (l :: l1 :: body))) tail); reflexivity.
    - constructor; [reflexivity|assumption].
    - cbn [map]. unfold instr_contents in *. cbn [filter is_instr e_kind snd]. destruct k; try contradiction; exact HC.
  Qed.
End Blocks.
