(** C09: parse_string on a token written from fragments: which fragments the StringSdv gets, where
    the stream is afterwards, and that its value is the documented denotation when the token is
    uniformly quoted. *)
From Coq Require Import NArith List Bool Arith Lia.
From Exactly Require Import Lib.Harness Model.Tok Spec.C09 Proofs.TokLex Proofs.TokStream Proofs.TokTotal
     Proofs.TokSplit Proofs.TokHere.
Import ListNotations.
Local Open Scope N_scope.

Arguments py_isspace : simpl never.
Arguments is_sep : simpl never.
Arguments is_shlex_ws : simpl never.
Arguments naked_char : simpl never.

(** * reserved words *)
Lemma reserved_lists_agree : reserved_tokens = spec_reserved.
Proof. reflexivity. Qed.

Lemma reserved_no_quotes : forallb (fun r => forallb (fun c => negb (is_quote c)) r) reserved_tokens = true.
Proof. reflexivity. Qed.

Lemma render_no_quote_naked : forall t,
  forallb (fun c => negb (is_quote c)) (render_tok t) = true -> all_naked t = true /\ chars_tok t = render_tok t.
Proof.
  induction t as [|f t IH]; intros H; [auto|].
  change (render_tok (f :: t)) with (render_frag f ++ render_tok t) in *.
  change (chars_tok (f :: t)) with (chars_frag f ++ chars_tok t).
  rewrite forallb_app in H. apply andb_true_iff in H as [Hf Ht]. destruct (IH Ht) as [I1 I2].
  destruct f as [cs|cs|cs]; cbn [render_frag] in Hf; try (cbn in Hf; discriminate).
  cbn [all_naked forallb chars_frag render_frag] in *. unfold all_naked in I1. rewrite I1, I2. auto.
Qed.

Lemma existsb_text_eqb_In : forall x l, existsb (text_eqb x) l = true -> In x l.
Proof.
  intros x l H. apply existsb_exists in H as (y & Hy & E). apply text_eqb_eq in E. subst. assumption.
Qed.

(** the code's test (plain token whose SOURCE is a reserved token) implies the documented one *)
Lemma model_reserved_is_reserved : forall t,
  existsb (text_eqb (render_tok t)) reserved_tokens = true -> is_reserved_word t = true.
Proof.
  intros t H. pose proof (existsb_text_eqb_In _ _ H) as Hin.
  pose proof reserved_no_quotes as Hq. rewrite forallb_forall in Hq. specialize (Hq _ Hin).
  destruct (render_no_quote_naked t Hq) as [Hn Hc]. unfold is_reserved_word. rewrite Hn, Hc.
  rewrite <- reserved_lists_agree. exact H.
Qed.

Section Parse.
  Variable alnum : N -> bool.
  Hypothesis alnum_at : alnum AT = false.
  Hypothesis alnum_rbr : alnum RBR = false.

  Definition first_is_hard (t : stoken) : bool := match t with Hard _ :: _ => true | _ => false end.

  (** the fragments the code gives to the StringSdv for the token [t] *)
  Definition fragments_of (t : stoken) : list fragment :=
    if first_is_hard t then [FConst (chars_tok t)] else split alnum (chars_tok t).

  Lemma parse_fragments_spec_token : forall t, wf_tok t = true ->
    parse_fragments_from_token alnum (spec_token t) = fragments_of t.
  Proof.
    intros t Hwf. unfold parse_fragments_from_token, fragments_of, spec_token, is_quoted, is_plain, is_hard_quote_type, tok_type.
    cbn [t_type t_source t_string].
    destruct t as [|f t]; [discriminate|].
    unfold wf_tok in Hwf. cbn in Hwf. apply andb_true_iff in Hwf as [Hf _].
    destruct f as [cs|cs|cs]; cbn [tok_quoted first_is_hard negb andb]; try reflexivity.
  Qed.

  (** C09_substitution, part 1: what parse_string delivers, and where it stops.  [rest] is
      arbitrary (following arguments, following lines) except that it is empty or begins with a
      separator. *)
  Theorem parse_string_token : forall lead t rest,
    forallb is_sep lead = true -> wf_tok t = true -> rest_ok rest -> is_reserved_word t = false ->
    exists ts ts',
      ts_init (lead ++ render_tok t ++ rest) = Ok ts /\
      parse_string alnum ts = Ok (fragments_of t, ts') /\
      ts_position ts' = (length lead + length (render_tok t) + adv rest)%nat /\
      ts_src ts' = lead ++ render_tok t ++ rest.
  Proof.
    intros lead t rest Hlead Hwf Hr Hres.
    pose proof (consume_token [] lead t rest 0%nat None Hlead Hwf Hr) as H0. cbn [app length] in H0.
    unfold ts_init. rewrite H0. cbn [bind snd]. eexists.
    set (ts0 := TS (lead ++ render_tok t ++ rest) (0 + length lead + length (render_tok t) + adv rest) 0
                   (Some (spec_token t)) false (hits_eof rest)).
    destruct (consume_total ts0 eq_refl) as (ts1 & Hc & Hsrc & Hst).
    exists ts1. split; [reflexivity|].
    unfold parse_string, parse_fragments_w_is_plain. fold ts0.
    change (ts_is_null ts0) with false. cbn iota. rewrite Hc. cbn [bind fst snd ts_head ts0].
    assert (Hnot : is_plain (spec_token t) && existsb (text_eqb (t_source (spec_token t))) reserved_tokens = false).
    { destruct (existsb (text_eqb (t_source (spec_token t))) reserved_tokens) eqn:E; [|apply andb_false_r].
      cbn [spec_token t_source] in E. apply model_reserved_is_reserved in E. congruence. }
    rewrite Hnot. rewrite parse_fragments_spec_token by assumption. cbn [fst snd].
    split; [reflexivity|]. unfold ts_position. rewrite Hst, Hsrc. cbn [ts_io ts_src ts0]. split; [lia | reflexivity].
  Qed.

  (** a reserved word written naked is rejected *)
  Theorem parse_string_reserved : forall lead t rest,
    forallb is_sep lead = true -> wf_tok t = true -> rest_ok rest -> is_reserved_word t = true ->
    exists ts, ts_init (lead ++ render_tok t ++ rest) = Ok ts /\ parse_string alnum ts = Raise ExInvalidArg.
  Proof.
    intros lead t rest Hlead Hwf Hr Hres.
    pose proof (consume_token [] lead t rest 0%nat None Hlead Hwf Hr) as H0. cbn [app length] in H0.
    unfold ts_init. rewrite H0. cbn [bind snd]. eexists. split; [reflexivity|].
    set (ts0 := TS (lead ++ render_tok t ++ rest) (0 + length lead + length (render_tok t) + adv rest) 0
                   (Some (spec_token t)) false (hits_eof rest)).
    destruct (consume_total ts0 eq_refl) as (ts1 & Hc & Hsrc & Hst).
    unfold parse_string, parse_fragments_w_is_plain. change (ts_is_null ts0) with false. cbn iota.
    rewrite Hc. cbn [bind fst snd ts_head ts0].
    unfold is_reserved_word in Hres. apply andb_true_iff in Hres as [Hn He].
    assert (Hpl : is_plain (spec_token t) = true).
    { unfold is_plain, spec_token, tok_type. cbn [t_type]. destruct t as [|[cs|cs|cs] t]; try discriminate; reflexivity. }
    assert (Hch : chars_tok t = render_tok t).
    { clear -Hn. induction t as [|f t IH]; [reflexivity|]. cbn in Hn. destruct f; try discriminate.
      change (chars_tok (Naked cs :: t)) with (cs ++ chars_tok t). change (render_tok (Naked cs :: t)) with (cs ++ render_tok t).
      rewrite IH by assumption. reflexivity. }
    rewrite Hpl. cbn [spec_token t_source]. rewrite <- Hch. rewrite reserved_lists_agree, He. reflexivity.
  Qed.

  (** * the value *)
  Lemma resolve_app : forall e a b, resolve e (a ++ b) =
    match resolve e a, resolve e b with Some x, Some y => Some (x ++ y) | _, _ => None end.
  Proof.
    induction a as [|f a IH]; intros b.
    - cbn. destruct (resolve e b); reflexivity.
    - cbn [app resolve]. rewrite IH.
      destruct (match f with FConst s => Some s | FSym n => lookup e n end); [|reflexivity].
      destruct (resolve e a); [|reflexivity]. destruct (resolve e b); [|reflexivity]. rewrite app_assoc. reflexivity.
  Qed.

  Lemma soft_runs_no_hard : forall t cur, forallb (fun f => negb (is_hard f)) t = true ->
    soft_runs t cur = match cur ++ chars_tok t with [] => [] | x => [(false, x)] end.
  Proof.
    induction t as [|f t IH]; intros cur H.
    - cbn. rewrite app_nil_r. destruct cur; reflexivity.
    - cbn in H. apply andb_true_iff in H as [Hf Ht].
      change (chars_tok (f :: t)) with (chars_frag f ++ chars_tok t).
      destruct f as [cs|cs|cs]; try discriminate; cbn [soft_runs chars_frag]; rewrite IH by assumption; rewrite <- app_assoc; reflexivity.
  Qed.

  Lemma soft_runs_all_hard : forall t, forallb is_hard t = true ->
    denote_runs alnum [] (soft_runs t []) = Some (chars_tok t) /\
    (forall e, denote_runs alnum e (soft_runs t []) = Some (chars_tok t)).
  Proof.
    intros t H. assert (G : forall e, denote_runs alnum e (soft_runs t []) = Some (chars_tok t)).
    { induction t as [|f t IH]; intros e; [reflexivity|].
      cbn in H. apply andb_true_iff in H as [Hf Ht]. destruct f as [cs|cs|cs]; try discriminate.
      cbn [soft_runs app denote_runs]. rewrite IH by assumption. reflexivity. }
    split; auto.
  Qed.

  (** C09_substitution, part 2: for a token that is quoted uniformly (no hard-quoted fragment, or
      only hard-quoted fragments) the value of the parsed string is the documented denotation:
      references substituted everywhere (no hard quotes) / nowhere (all hard quotes). *)
  Theorem uniform_value : forall e t,
    wf_tok t = true -> uniform_quoting t = true ->
    resolve e (fragments_of t) = denoteA alnum e t.
  Proof.
    intros e t Hwf Hu. unfold uniform_quoting in Hu. apply orb_true_iff in Hu as [Hh | Hs].
    - (* all hard *)
      destruct t as [|f t]; [discriminate|]. pose proof Hh as Hh'. cbn in Hh. apply andb_true_iff in Hh as [Hf _].
      destruct f; try discriminate. unfold fragments_of. cbn [first_is_hard]. cbn [resolve]. rewrite app_nil_r.
      unfold denoteA. destruct (soft_runs_all_hard _ Hh') as [_ G]. rewrite G. reflexivity.
    - (* no hard *)
      assert (Hfirst : first_is_hard t = false).
      { destruct t as [|f t]; [reflexivity|]. cbn in Hs. apply andb_true_iff in Hs as [Hf _]. destruct f; try discriminate; reflexivity. }
      unfold fragments_of. rewrite Hfirst. unfold denoteA. rewrite soft_runs_no_hard by assumption. cbn [app].
      rewrite (split_eq_ref_split alnum alnum_at alnum_rbr).
      destruct (chars_tok t) eqn:E.
      + reflexivity.
      + cbn [denote_runs]. unfold subst. destruct (resolve e (ref_split alnum (n :: t0))); [rewrite app_nil_r|]; reflexivity.
  Qed.
End Parse.
