(** C12: facts about the parser of a PATH argument. *)
From Coq Require Import NArith List Bool.
From Exactly Require Import Model.Paths.
Import ListNotations.

(** An option that is not in the accepted set of the argument is a syntax error, whatever follows it. *)
Lemma option_not_accepted_is_syntax_error :
  forall (c : conf) (r : relopt) (st : option strtok),
    rel_in r (v_rels (c_acc c)) = false -> parse_path c (PArg (ROpt r) st) = PSyntaxError.
Proof.
  intros c r st H. unfold parse_path. cbn [pa_rel pa_str relativity_ctor]. rewrite H. reflexivity.
Qed.

Lemma unknown_option_is_syntax_error :
  forall (c : conf) (st : option strtok), parse_path c (PArg RUnknownOpt st) = PSyntaxError.
Proof. intros c st. reflexivity. Qed.
