(** C14: every view of a source shows the text the source denotes (under the guard). *)
From Coq Require Import NArith List Bool Lia ZifyBool.
From Exactly Require Import Lib.Text Lib.TextLemmas Model.StrSrc Spec.C14 Proofs.Utf8 Proofs.StrSrcSpool.
Import ListNotations.
Local Open Scope N_scope.

(** ** Texts and line sequences the guard admits *)
(** no [str.splitlines] boundary other than "\n"; only Unicode scalar values *)
Definition text_ok (t : text) : bool := no_exotic_breaks t && valid_text t.

Definition good_lines (ls : list text) : Prop := wf_lines ls = true /\ forallb text_ok ls = true.

(** A line transformation is admitted when it maps well-formed sequences of admitted lines to
    such sequences (identity, filters, case conversion of ASCII letters ... see the instances at
    the end of this file). *)
Definition lf_ok (f : lfun) : Prop := forall ls, good_lines ls -> good_lines (f ls).

Lemma text_ok_app : forall a b, text_ok (a ++ b) = text_ok a && text_ok b.
Proof.
  intros. unfold text_ok. rewrite no_exotic_app, valid_text_app.
  destruct (no_exotic_breaks a), (no_exotic_breaks b), (valid_text a), (valid_text b); reflexivity.
Qed.

Lemma text_ok_concat : forall ls, text_ok (concat ls) = forallb text_ok ls.
Proof. induction ls as [|l ls IH]; [reflexivity|]. cbn [concat forallb]. now rewrite text_ok_app, IH. Qed.

Lemma good_lines_of_text : forall t, text_ok t = true -> good_lines (lines_lf t).
Proof.
  intros t H. split; [apply wf_lines_lines_lf|]. rewrite <- text_ok_concat, concat_lines_lf. exact H.
Qed.

Lemma good_lines_concat_ok : forall ls, good_lines ls -> text_ok (concat ls) = true.
Proof. intros ls [_ H]. now rewrite text_ok_concat. Qed.

Lemma good_lines_canonical : forall ls, good_lines ls -> lines_lf (concat ls) = ls.
Proof. intros ls [H _]. now apply lines_lf_concat. Qed.

Lemma text_ok_clean : forall t, text_ok t = true -> no_exotic_breaks t = true.
Proof. intros t H. apply andb_true_iff in H. tauto. Qed.

Lemma text_ok_valid : forall t, text_ok t = true -> valid_text t = true.
Proof. intros t H. apply andb_true_iff in H. tauto. Qed.

Lemma read_text_ok : forall t, text_ok t = true -> read_text t = t.
Proof. intros t H. apply universal_nl_clean. now apply text_ok_clean. Qed.

Lemma str_lines_ok : forall t, text_ok t = true -> str_lines t = lines_lf t.
Proof. intros t H. apply splitlines_eq_lines_lf. now apply text_ok_clean. Qed.

Lemma file_lines_ok : forall t, text_ok t = true -> file_lines t = lines_lf t.
Proof. intros t H. unfold file_lines. now rewrite read_text_ok. Qed.

(** An external program is admitted when it maps admitted texts to admitted texts. *)
Definition g_ok (g : raw -> raw) : Prop := forall r, text_ok r = true -> text_ok (g r) = true.

(** The program of a program source is admitted when it prints the same at every run, and that is admitted.
    (A program that prints something different at every run has no single text before it is frozen; for such
    sources the check demands - on the running code - one text after freezing: Spec [one_text_after_freeze].) *)
Definition pg_ok (g : nat -> raw -> raw) : Prop := (forall n r, g n r = g 0%nat r) /\ g_ok (g 0%nat).


(** ** Predicates over the parts of a node (nested recursion through [list src]) *)
Definition allP (P : src -> Prop) : list src -> Prop :=
  fix go (ps : list src) : Prop := match ps with [] => True | p :: ps' => P p /\ go ps' end.
Definition all2P (R : src -> src -> Prop) : list src -> list src -> Prop :=
  fix go (ps qs : list src) : Prop :=
    match ps, qs with
    | [], [] => True
    | p :: ps', q :: qs' => R p q /\ go ps' qs'
    | _, _ => False
    end.

Lemma allP_impl : forall (P Q : src -> Prop) ps, allP (fun p => P p -> Q p) ps -> allP P ps -> allP Q ps.
Proof. induction ps as [|p ps IH]; cbn; [auto|]. intros [H1 H2] [H3 H4]. auto. Qed.

Lemma allP_and : forall (P Q : src -> Prop) ps, allP P ps -> allP Q ps -> allP (fun p => P p /\ Q p) ps.
Proof. induction ps as [|p ps IH]; cbn; [auto|]. intros [H1 H2] [H3 H4]. auto. Qed.

Lemma allP_weaken : forall (P Q : src -> Prop) ps, (forall p, P p -> Q p) -> allP P ps -> allP Q ps.
Proof. induction ps as [|p ps IH]; cbn; [auto|]. intros H [H1 H2]. auto. Qed.

(** Induction on source trees. *)
Section SrcInd.
  Variable P : src -> Prop.
  Hypothesis HStr : forall s, P (SStr s).
  Hypothesis HFile : forall r, P (SFile r).
  Hypothesis HProg : forall k g st ins, allP P ins -> P (SProg k g st ins).
  Hypothesis HLines : forall f dep path isfz u, P u -> P (SLines f dep path isfz u).
  Hypothesis HFilter : forall f st u, P u -> P (SFilter f st u).
  Hypothesis HRun : forall g st u, P u -> P (SRun g st u).
  Hypothesis HConcat : forall st ps, allP P ps -> P (SConcat st ps).
  Fixpoint src_ind2 (x : src) : P x :=
    match x with
    | SStr s => HStr s
    | SFile r => HFile r
    | SProg k g st ins =>
        HProg k g st ins ((fix go (ps : list src) : allP P ps :=
                             match ps with [] => I | p :: ps' => conj (src_ind2 p) (go ps') end) ins)
    | SLines f dep path isfz u => HLines f dep path isfz u (src_ind2 u)
    | SFilter f st u => HFilter f st u (src_ind2 u)
    | SRun g st u => HRun g st u (src_ind2 u)
    | SConcat st ps =>
        HConcat st ps ((fix go (ps : list src) : allP P ps :=
                          match ps with [] => I | p :: ps' => conj (src_ind2 p) (go ps') end) ps)
    end.
End SrcInd.

(** ** Same expression, possibly different state *)
Fixpoint skel_eq (x y : src) : Prop :=
  match x, y with
  | SStr s, SStr s' => s = s'
  | SFile r, SFile r' => r = r'
  | SProg k g _ ins, SProg k' g' _ ins' => k = k' /\ g = g' /\ all2P skel_eq ins ins'
  | SLines f d _ _ u, SLines f' d' _ _ u' => f = f' /\ d = d' /\ skel_eq u u'
  | SFilter f _ u, SFilter f' _ u' => f = f' /\ skel_eq u u'
  | SRun g _ u, SRun g' _ u' => g = g' /\ skel_eq u u'
  | SConcat _ ps, SConcat _ ps' => all2P skel_eq ps ps'
  | _, _ => False
  end.

Lemma all2P_refl : forall ps, allP (fun p => skel_eq p p) ps -> all2P skel_eq ps ps.
Proof. induction ps as [|p ps IH]; cbn; [auto|]. intros [H1 H2]. auto. Qed.

Lemma skel_eq_refl : forall x, skel_eq x x.
Proof. induction x using src_ind2; cbn; auto using all2P_refl. Qed.

Lemma all2P_skel_refl : forall ps, all2P skel_eq ps ps.
Proof. induction ps as [|p ps IH]; cbn; auto using skel_eq_refl. Qed.

Lemma all2P_trans : forall ps qs rs,
  allP (fun p => forall y z, skel_eq p y -> skel_eq y z -> skel_eq p z) ps ->
  all2P skel_eq ps qs -> all2P skel_eq qs rs -> all2P skel_eq ps rs.
Proof.
  induction ps as [|p ps IH]; destruct qs as [|q qs]; destruct rs as [|r rs]; cbn; try tauto.
  intros [H1 H2] [H3 H4] [H5 H6]. split; [eapply H1; eassumption | eapply IH; eassumption].
Qed.

Lemma skel_eq_trans : forall x y z, skel_eq x y -> skel_eq y z -> skel_eq x z.
Proof.
  induction x using src_ind2; destruct y; cbn; try contradiction; destruct z; cbn; try contradiction; intros; subst; auto.
  - destruct H0 as [-> [-> H0]]. destruct H1 as [-> [-> H1]]. repeat split. eapply all2P_trans; eassumption.
  - destruct H as [-> [-> H]]. destruct H0 as [-> [-> H0]]. repeat split. eapply IHx; eassumption.
  - destruct H as [-> H]. destruct H0 as [-> H0]. split; [reflexivity|]. eapply IHx; eassumption.
  - destruct H as [-> H]. destruct H0 as [-> H0]. split; [reflexivity|]. eapply IHx; eassumption.
  - eapply all2P_trans; eassumption.
Qed.

Lemma all2P_skel_trans : forall ps qs rs, all2P skel_eq ps qs -> all2P skel_eq qs rs -> all2P skel_eq ps rs.
Proof.
  intros ps qs rs. apply all2P_trans. induction ps; cbn; [auto|]. split; [apply skel_eq_trans | assumption].
Qed.

Lemma all2P_map_den : forall ps qs, allP (fun p => forall y, skel_eq p y -> den y = den p) ps ->
  all2P skel_eq ps qs -> map den qs = map den ps.
Proof.
  induction ps as [|p ps IH]; destruct qs as [|q qs]; cbn; try tauto.
  intros [H1 H2] [H3 H4]. rewrite (H1 _ H3), (IH _ H2 H4). reflexivity.
Qed.

Lemma skel_eq_den : forall x y, skel_eq x y -> den y = den x.
Proof.
  induction x using src_ind2; destruct y; cbn; try contradiction; intros HH; subst; auto.
  - destruct HH as [-> [-> HH]]. now rewrite (all2P_map_den _ _ H HH).
  - destruct HH as [-> [-> HH]]. now rewrite (IHx _ HH).
  - destruct HH as [-> HH]. now rewrite (IHx _ HH).
  - destruct HH as [-> HH]. now rewrite (IHx _ HH).
  - now rewrite (all2P_map_den _ _ H HH).
Qed.

Lemma skel_map_den : forall ps qs, all2P skel_eq ps qs -> map den qs = map den ps.
Proof.
  intros ps qs. apply all2P_map_den. induction ps; cbn; [auto|]. split; [apply skel_eq_den | assumption].
Qed.

(** ** The state invariant *)
Definition cs_ok (t : text) (st : cstate) : Prop :=
  (c_path st = None \/ c_path st = Some t) /\
  (c_fz st = None \/ exists z, c_fz st = Some z /\ good_fz t z).

Fixpoint Inv (x : src) : Prop :=
  match x with
  | SStr s => text_ok s = true
  | SFile r => text_ok r = true
  | SProg k g st ins => allP Inv ins /\ pg_ok g /\ cs_ok (g 0%nat (concat (map den ins))) st
  | SLines f dep path isfz u =>
      Inv u /\ lf_ok f /\ (path = None \/ path = Some (concat (f (lines_lf (den u)))))
  | SFilter f st u => Inv u /\ lf_ok f /\ cs_ok (concat (f (lines_lf (den u)))) st
  | SRun g st u => Inv u /\ g_ok g /\ cs_ok (g (den u)) st
  | SConcat st ps => ps <> [] /\ allP Inv ps /\ cs_ok (concat (map den ps)) st
  end.

Lemma parts_text_ok : forall ps, allP (fun p => text_ok (den p) = true) ps -> text_ok (concat (map den ps)) = true.
Proof.
  induction ps as [|p ps IH]; cbn [allP map concat]; [reflexivity|]. intros [H1 H2]. rewrite text_ok_app, H1. now apply IH.
Qed.

Lemma inv_den_ok : forall x, Inv x -> text_ok (den x) = true.
Proof.
  induction x using src_ind2; cbn [Inv den]; intros HI.
  - exact HI.
  - now rewrite read_text_ok.
  - destruct HI as [Hi [[_ Hg] _]]. pose proof (Hg _ (parts_text_ok _ (allP_impl _ _ _ H Hi))) as G. now rewrite read_text_ok.
  - destruct HI as [Hu [Hf _]]. apply good_lines_concat_ok, Hf, good_lines_of_text, IHx, Hu.
  - destruct HI as [Hu [Hf _]]. apply good_lines_concat_ok, Hf, good_lines_of_text, IHx, Hu.
  - destruct HI as [Hu [Hg _]]. pose proof (Hg _ (IHx Hu)) as G. now rewrite read_text_ok.
  - destruct HI as [_ [Hp _]]. apply parts_text_ok. apply (allP_impl _ _ _ H Hp).
Qed.

Lemma inv_parts_ok : forall ps, allP Inv ps -> text_ok (concat (map den ps)) = true.
Proof. intros ps H. apply parts_text_ok. eapply allP_weaken; [apply inv_den_ok | exact H]. Qed.

Lemma den_run : forall g u, Inv u -> g_ok g -> read_text (g (den u)) = g (den u).
Proof. intros g u Hu Hg. apply read_text_ok, Hg, inv_den_ok, Hu. Qed.

Lemma den_prog : forall g ins, allP Inv ins -> pg_ok g ->
  read_text (g 0%nat (concat (map den ins))) = g 0%nat (concat (map den ins)).
Proof. intros g ins Hi [_ Hg]. apply read_text_ok, Hg, inv_parts_ok, Hi. Qed.

Lemma den_lines_canonical : forall f u, Inv u -> lf_ok f ->
  f (lines_lf (den u)) = lines_lf (concat (f (lines_lf (den u)))).
Proof.
  intros f u Hu Hf. symmetry. apply good_lines_canonical, Hf, good_lines_of_text, inv_den_ok, Hu.
Qed.

(** ** Views of a good frozen representation *)
Lemma good_fz_views : forall t z, text_ok t = true -> good_fz t z ->
  fz_lines z = Some (lines_lf t) /\ fz_str z = Some t /\ fz_file z = Some (FText t) /\
  (exists d, fz_dep z = Some d) /\
  (exists e, fz_write z = Some [e] /\ wev_text e = t).
Proof.
  intros t z Ht [ -> | [ -> | -> ] ]; cbn [fz_lines fz_str fz_file fz_dep fz_write].
  - rewrite str_lines_ok by exact Ht. rewrite file_of_events_single. cbn [wev_text]. unfold write_text.
    split; [reflexivity|]. split; [reflexivity|]. split; [reflexivity|]. split; [eauto|].
    exists (WStr t). split; reflexivity.
  - rewrite file_lines_ok, read_text_ok by exact Ht.
    split; [reflexivity|]. split; [reflexivity|]. split; [reflexivity|]. split; [eauto|].
    exists (WLines (lines_lf t)). cbn [wev_text]. unfold write_text. rewrite concat_lines_lf.
    split; reflexivity.
  - rewrite str_lines_ok by exact Ht.
    split; [reflexivity|]. split; [reflexivity|]. split; [reflexivity|]. split; [eauto|].
    exists (WStr t). split; reflexivity.
Qed.

Lemma cs_ok_set_path : forall t st, cs_ok t st -> cs_ok t (cs_set_path st t).
Proof. intros t st [_ H]. split; [right; reflexivity | exact H]. Qed.

Lemma cs_ok_freeze : forall t st, cs_ok t st -> cs_ok t (cs_freeze st).
Proof. intros t st H. unfold cs_freeze. destruct (c_isfz st); exact H. Qed.

Lemma cs_ok_ran : forall t st, cs_ok t st -> cs_ok t (cs_ran st).
Proof. intros t st H. exact H. Qed.

Lemma cs_ok_cs0 : forall t, cs_ok t cs0.
Proof. intros. split; left; reflexivity. Qed.

(** Looking at a frozen node through its frozen contents, materialised from events that write [t]. *)
Lemma via_frozen_ok : forall {A} b t st evs (view : frozen -> option A) (v : A),
  text_ok t = true -> cs_ok t st -> text_of evs = t ->
  (forall z, good_fz t z -> view z = Some v) ->
  exists st', via_frozen b st (Some evs) view = (Some v, st') /\ cs_ok t st'.
Proof.
  intros A b t st evs view v Ht [Hp Hz] Et Hv. unfold via_frozen, cached_get.
  destruct Hz as [Hz|[z0 [Hz G0]]]; rewrite Hz.
  - destruct (frozen_from_events b evs) as [z [Ez Gz]].
    + rewrite Et. now apply text_ok_valid.
    + rewrite Et. now apply read_text_ok.
    + rewrite Ez. rewrite Et in Gz. cbn [obind]. rewrite (Hv z Gz). exists (cs_set_fz st z). split; [reflexivity|].
      split; [exact Hp | right; exists z; split; [reflexivity | exact Gz]].
  - cbn [obind]. rewrite (Hv z0 G0). exists st. split; [reflexivity|]. split; [exact Hp | right; eauto].
Qed.

(** the same when the frozen contents may already be there ([c_fz = Some z] is looked at directly) *)
Lemma frozen_known : forall t st z, cs_ok t st -> c_fz st = Some z -> good_fz t z.
Proof. intros t st z [_ [H|[z0 [H G]]]] E; rewrite E in H; [discriminate | now injection H as ->]. Qed.

Lemma text_of_fd : forall r, text_of [WFd r] = r.
Proof. intros. unfold text_of. cbn. apply app_nil_r. Qed.

Lemma text_of_lines : forall ls, text_of [WLines ls] = concat ls.
Proof. intros. unfold text_of, write_text. cbn. apply app_nil_r. Qed.

Lemma text_of_str : forall s, text_of [WStr s] = s.
Proof. intros. unfold text_of, write_text. cbn. apply app_nil_r. Qed.

Lemma file_of_fd : forall r, file_of_events [WFd r] = r.
Proof. intros. now rewrite file_of_events_single. Qed.

Lemma file_of_lines : forall ls, file_of_events [WLines ls] = concat ls.
Proof. intros. now rewrite file_of_events_single. Qed.

Lemma file_of_str : forall s, file_of_events [WStr s] = s.
Proof. intros. now rewrite file_of_events_single. Qed.

(** ** concat._lines_iter on well-formed line sequences *)
Lemma full_is_nl_ended : forall l, is_full_line l = true -> is_nl_ended l = true.
Proof.
  unfold is_nl_ended. induction l as [|c l IH]; intros H; [discriminate|]. destruct l as [|d l].
  - cbn in *. exact H.
  - change (is_full_line (c :: d :: l)) with (negb (N.eqb c NL) && is_full_line (d :: l)) in H.
    apply andb_true_iff in H as [_ H]. change (last (c :: d :: l) 0) with (last (d :: l) 0). now apply IH.
Qed.

Lemma partial_not_nl_ended : forall l, is_partial_line l = true -> is_nl_ended l = false.
Proof.
  unfold is_nl_ended. induction l as [|c l IH]; intros H; [discriminate|]. destruct l as [|d l].
  - cbn in *. rewrite andb_true_r in H. now apply negb_true_iff.
  - cbn [is_partial_line forallb] in H. apply andb_true_iff in H as [_ H].
    change (last (c :: d :: l) 0) with (last (d :: l) 0). apply IH. exact H.
Qed.

Lemma full_app_partial : forall p l, is_partial_line p = true -> is_full_line l = true -> is_full_line (p ++ l) = true.
Proof.
  induction p as [|c p IH]; intros l Hp Hl; [discriminate|].
  cbn [is_partial_line forallb] in Hp. apply andb_true_iff in Hp as [Hc Hp]. apply negb_true_iff in Hc.
  cbn [app]. apply is_full_line_cons; [exact Hc|]. destruct p as [|d p]; [exact Hl|]. apply IH; [exact Hp | exact Hl].
Qed.

Lemma partial_app_partial : forall p l, is_partial_line p = true -> is_partial_line l = true -> is_partial_line (p ++ l) = true.
Proof.
  intros p l Hp Hl. destruct p as [|c p]; [discriminate|]. destruct l as [|d l]; [discriminate|].
  unfold is_partial_line in *. cbn [app]. apply forallb_forall. intros x Hx.
  rewrite forallb_forall in Hp, Hl. change (In x ((c :: p) ++ (d :: l))) in Hx.
  apply in_app_or in Hx as [Hx|Hx]; [now apply Hp | now apply Hl].
Qed.

Lemma concat_rest_cons : forall l ls lst,
  concat_rest (l :: ls) lst =
  if is_nl_ended l then (let (ys, lst') := concat_rest ls lst in (l :: ys, lst')) else concat_rest ls (Some l).
Proof. reflexivity. Qed.

(** the non-first lines of a non-last part *)
Lemma concat_rest_wf : forall ls lst, wf_lines ls = true ->
  (concat_rest ls lst = (ls, lst) /\ Forall (fun l => is_full_line l = true) ls) \/
  (exists ys p, ls = ys ++ [p] /\ is_partial_line p = true /\ Forall (fun l => is_full_line l = true) ys /\
                concat_rest ls lst = (ys, Some p)).
Proof.
  induction ls as [|l ls IH]; intros lst H.
  - left. split; [reflexivity | constructor].
  - destruct ls as [|l2 ls].
    + cbn [wf_lines] in H. apply orb_true_iff in H as [H|H].
      * left. cbn [concat_rest]. rewrite (full_is_nl_ended l H). split; [reflexivity | repeat constructor; exact H].
      * right. exists [], l. cbn [concat_rest app]. rewrite (partial_not_nl_ended l H). repeat split; auto.
    + change (wf_lines (l :: l2 :: ls)) with (is_full_line l && wf_lines (l2 :: ls)) in H.
      apply andb_true_iff in H as [Hl H]. rewrite concat_rest_cons. rewrite (full_is_nl_ended l Hl).
      destruct (IH lst H) as [[E F]|[ys [p [E [Hp [F E2]]]]]].
      * left. rewrite E. split; [reflexivity | constructor; assumption].
      * right. exists (l :: ys), p. rewrite E2. rewrite E. repeat split; auto.
Qed.

Lemma lines_lf_full_prefix : forall ys t, Forall (fun l => is_full_line l = true) ys ->
  lines_lf (concat ys ++ t) = ys ++ lines_lf t.
Proof.
  induction ys as [|y ys IH]; intros t H; [reflexivity|]. inversion H as [|? ? Hy Hys]; subst.
  cbn [concat]. rewrite <- app_assoc. rewrite lines_lf_app_full by exact Hy. cbn [app]. f_equal. now apply IH.
Qed.

Lemma wf_lines_glue : forall p l ls, is_partial_line p = true -> wf_lines (l :: ls) = true -> wf_lines ((p ++ l) :: ls) = true.
Proof.
  intros p l ls Hp H. destruct ls as [|l2 ls].
  - cbn [wf_lines] in *. apply orb_true_iff in H as [H|H]; apply orb_true_iff.
    + left. now apply full_app_partial.
    + right. now apply partial_app_partial.
  - change (wf_lines (l :: l2 :: ls)) with (is_full_line l && wf_lines (l2 :: ls)) in H.
    apply andb_true_iff in H as [H1 H2].
    change (wf_lines ((p ++ l) :: l2 :: ls)) with (is_full_line (p ++ l) && wf_lines (l2 :: ls)).
    now rewrite full_app_partial, H2.
Qed.


(** *** any number of parts *)
Definition pend (lst : option text) : text := match lst with None => [] | Some p => p end.
Definition pend_ok (lst : option text) : Prop := match lst with None => True | Some p => is_partial_line p = true end.

Lemma glue_pend : forall lst s, glue lst s = pend lst ++ s.
Proof. intros [p|] s; reflexivity. Qed.

Lemma partial_not_full : forall l, is_partial_line l = true -> is_full_line l = false.
Proof.
  intros l H. destruct (is_full_line l) eqn:E; [|reflexivity].
  pose proof (full_is_nl_ended l E) as F. rewrite (partial_not_nl_ended l H) in F. discriminate.
Qed.

Lemma glue_full : forall lst l, pend_ok lst -> is_full_line l = true -> is_full_line (glue lst l) = true.
Proof. intros [p|] l H Hl; cbn [glue]; [now apply full_app_partial | exact Hl]. Qed.

Lemma glue_partial : forall lst l, pend_ok lst -> is_partial_line l = true -> is_partial_line (glue lst l) = true.
Proof. intros [p|] l H Hl; cbn [glue]; [now apply partial_app_partial | exact Hl]. Qed.

(** one non-last part: the completed lines are yielded, an unterminated last line stays pending *)
Lemma concat_nonlast_ok : forall l lst, wf_lines l = true -> pend_ok lst ->
  exists ys lst', concat_nonlast l lst = (ys, lst') /\ pend_ok lst' /\
    forall rest, lines_lf (pend lst ++ concat l ++ rest) = ys ++ lines_lf (pend lst' ++ rest).
Proof.
  intros l lst Hw Hl. destruct l as [|f1 r1].
  - exists [], lst. split; [reflexivity|]. split; [exact Hl|]. intros rest. reflexivity.
  - cbn [concat_nonlast]. destruct r1 as [|l2 r2].
    + cbn [wf_lines] in Hw. apply orb_true_iff in Hw as [Hf|Hp].
      * rewrite (full_is_nl_ended f1 Hf). cbn [concat_rest]. exists [glue lst f1], None.
        split; [reflexivity|]. split; [exact I|]. intros rest. cbn [concat pend app]. rewrite app_nil_r.
        rewrite app_assoc, <- glue_pend. rewrite lines_lf_app_full by (now apply glue_full). reflexivity.
      * rewrite (partial_not_nl_ended f1 Hp). cbn [concat_rest]. exists [], (Some (glue lst f1)).
        split; [reflexivity|]. split; [now apply glue_partial|]. intros rest. cbn [concat pend app]. rewrite app_nil_r.
        rewrite app_assoc, <- glue_pend. reflexivity.
    + change (wf_lines (f1 :: l2 :: r2)) with (is_full_line f1 && wf_lines (l2 :: r2)) in Hw.
      apply andb_true_iff in Hw as [Hf Hr]. rewrite (full_is_nl_ended f1 Hf).
      destruct (concat_rest_wf (l2 :: r2) None Hr) as [[E F]|[ys [p [E [Hp [F E2]]]]]].
      * rewrite E. exists (glue lst f1 :: l2 :: r2), None. split; [reflexivity|]. split; [exact I|]. intros rest.
        change (concat (f1 :: l2 :: r2)) with (f1 ++ concat (l2 :: r2)). cbn [pend app].
        rewrite <- app_assoc. rewrite app_assoc, <- glue_pend. rewrite lines_lf_app_full by (now apply glue_full).
        f_equal. now rewrite lines_lf_full_prefix.
      * rewrite E2. exists (glue lst f1 :: ys), (Some p). split; [reflexivity|]. split; [exact Hp|]. intros rest.
        change (concat (f1 :: l2 :: r2)) with (f1 ++ concat (l2 :: r2)). cbn [pend app].
        rewrite <- app_assoc. rewrite app_assoc, <- glue_pend. rewrite lines_lf_app_full by (now apply glue_full).
        f_equal. rewrite E, concat_app. cbn [concat]. rewrite app_nil_r, <- app_assoc.
        now rewrite lines_lf_full_prefix.
Qed.

Lemma concat_last_ok : forall l lst, wf_lines l = true -> pend_ok lst ->
  concat_last l lst = lines_lf (pend lst ++ concat l).
Proof.
  intros l lst Hw Hl. destruct lst as [p|]; cbn [pend pend_ok app] in *.
  - destruct l as [|f2 r2]; cbn [concat_last glue concat].
    + rewrite app_nil_r. symmetry. now apply lines_lf_partial.
    + rewrite app_assoc. change ((p ++ f2) ++ concat r2) with (concat ((p ++ f2) :: r2)).
      symmetry. apply lines_lf_concat. now apply wf_lines_glue.
  - rewrite lines_lf_concat by exact Hw. destruct l; reflexivity.
Qed.

Lemma concat_lines_from_ok : forall lss lst, lss <> [] -> Forall (fun l => wf_lines l = true) lss -> pend_ok lst ->
  concat_lines_from lss lst = Some (lines_lf (pend lst ++ concat (map (@concat char) lss))).
Proof.
  induction lss as [|l lss IH]; intros lst Hne Hw Hl; [contradiction|].
  inversion Hw as [|? ? Hw1 Hw2]; subst. destruct lss as [|l2 lss].
  - cbn [concat_lines_from map concat]. rewrite app_nil_r. f_equal. now apply concat_last_ok.
  - change (concat_lines_from (l :: l2 :: lss) lst) with
      (let (ys, lst') := concat_nonlast l lst in option_map (app ys) (concat_lines_from (l2 :: lss) lst')).
    destruct (concat_nonlast_ok l lst Hw1 Hl) as [ys [lst' [E [Hl' Hs]]]]. rewrite E.
    rewrite (IH lst') by (try discriminate; assumption). cbn [option_map]. f_equal.
    change (map (@concat char) (l :: l2 :: lss)) with (concat l :: map (@concat char) (l2 :: lss)).
    cbn [concat]. rewrite Hs. reflexivity.
Qed.

Lemma concat_lines_n_ok : forall ts, ts <> [] ->
  concat_lines_n (map lines_lf ts) = Some (lines_lf (concat ts)).
Proof.
  intros ts Hne. unfold concat_lines_n. rewrite concat_lines_from_ok.
  - cbn [pend app]. rewrite map_map. f_equal. f_equal. f_equal. rewrite <- (map_id ts) at 2.
    apply map_ext. intros t. apply concat_lines_lf.
  - destruct ts; [contradiction | discriminate].
  - apply Forall_forall. intros l Hl. apply in_map_iff in Hl as [t [<- _]]. apply wf_lines_lines_lf.
  - exact I.
Qed.
(** ** The views *)
Definition lines_spec (b : N) (x : src) : Prop :=
  exists x', s_lines b x = (Some (lines_lf (den x)), x') /\ Inv x' /\ skel_eq x x'.
Definition file_spec (b : N) (x : src) : Prop :=
  exists x', s_file b x = (Some (FText (den x)), x') /\ Inv x' /\ skel_eq x x'.
Definition write_spec (b : N) (x : src) : Prop :=
  exists evs x', s_write b x = (Some evs, x') /\ Inv x' /\ skel_eq x x' /\ text_of evs = den x.

Local Ltac fin := split; [reflexivity | split; [cbn [Inv]; auto | cbn [skel_eq]; auto using skel_eq_refl]].

(** what a node needs from its frozen side, for any view *)
Local Ltac frozen_view Ht Hs V :=
  match goal with
  | |- context [via_frozen ?b ?st (Some ?evs) ?view] =>
      let st' := fresh "st'" in let E := fresh "E" in let Hs' := fresh "Hs'" in
      destruct (via_frozen_ok b _ st evs view _ Ht Hs V) as [st' [E Hs']]
  end.


(** Applying a view to all parts. *)
Lemma map_st_ok : forall {A} (f : src -> option A * src) (Q : src -> A -> Prop) ps,
  allP (fun p => Inv p -> exists v p', f p = (Some v, p') /\ Inv p' /\ skel_eq p p' /\ Q p v) ps ->
  allP Inv ps ->
  exists vs ps', map_st f ps = (map Some vs, ps') /\ allP Inv ps' /\ all2P skel_eq ps ps' /\ Forall2 Q ps vs.
Proof.
  intros A f Q. induction ps as [|p ps IH]; cbn [allP map_st]; intros HS HI.
  - exists [], []. cbn. auto.
  - destruct HS as [H1 H2]. destruct HI as [I1 I2]. destruct (H1 I1) as [v [p' [E [Ip [Sp Qp]]]]].
    destruct (IH H2 I2) as [vs [ps' [E2 [Ips [Sps Qps]]]]]. fold (map_st f) in *. rewrite E, E2.
    exists (v :: vs), (p' :: ps'). cbn. auto.
Qed.

Lemma oall_map_some : forall {A} (vs : list A), oall (map Some vs) = Some vs.
Proof. induction vs as [|v vs IH]; cbn; [reflexivity|]. now rewrite IH. Qed.

Lemma oconcat_map_some : forall {A} (vs : list (list A)), oconcat (map Some vs) = Some (concat vs).
Proof. intros. unfold oconcat. now rewrite oall_map_some. Qed.

Lemma text_of_concat : forall ws, text_of (concat ws) = concat (map text_of ws).
Proof. induction ws as [|w ws IH]; [reflexivity|]. cbn [concat map]. now rewrite text_of_app, IH. Qed.

Lemma forall2_texts : forall ps ws, Forall2 (fun p w => text_of w = den p) ps ws -> map text_of ws = map den ps.
Proof. induction 1; cbn; congruence. Qed.

Lemma forall2_lines : forall ps ls, Forall2 (fun p l => l = lines_lf (den p)) ps ls -> ls = map lines_lf (map den ps).
Proof. induction 1; cbn; congruence. Qed.

(** writing all parts *)
Lemma write_parts_ok : forall b ps,
  allP (fun p => Inv p -> write_spec b p) ps -> allP Inv ps ->
  exists ws ps', map_st (s_write b) ps = (map Some ws, ps') /\ allP Inv ps' /\ all2P skel_eq ps ps' /\
                 text_of (concat ws) = concat (map den ps).
Proof.
  intros b ps HS HI.
  destruct (map_st_ok (s_write b) (fun p w => text_of w = den p) ps) as [ws [ps' [E [I [S Q]]]]]; [|exact HI|].
  - eapply allP_weaken; [|exact HS]. intros p Hp Ip. destruct (Hp Ip) as [evs [p' [E [I [S T]]]]]. eauto 8.
  - exists ws, ps'. repeat split; auto. rewrite text_of_concat. f_equal. now apply forall2_texts.
Qed.

(** the stdin of a program *)
Lemma stdin_ok : forall b ins,
  allP (fun p => Inv p -> file_spec b p /\ write_spec b p) ins -> allP Inv ins ->
  exists ins', stdin_with (s_file b) (s_write b) ins = (@Some raw (concat (map den ins)), ins') /\
               allP Inv ins' /\ all2P skel_eq ins ins'.
Proof.
  intros b ins HS HI. destruct ins as [|p [|q r]].
  - exists []. cbn. auto.
  - cbn [allP] in *. destruct HS as [H1 _]. destruct HI as [I1 _]. destruct (H1 I1) as [[p' [E [Ip Sp]]] _].
    cbn [stdin_with]. rewrite E. exists [p']. cbn. rewrite app_nil_r. auto.
  - destruct (write_parts_ok b (p :: q :: r)) as [ws [ps' [E [I [S T]]]]]; [|exact HI|].
    + eapply allP_weaken; [|exact HS]. intros x Hx Ix. apply (Hx Ix).
    + unfold stdin_with. rewrite E. rewrite oconcat_map_some. cbn [option_map]. rewrite file_of_events_text, T.
      exists ps'. auto.
Qed.

Lemma prog_write_of_ok : forall k g st sin t, g (c_runs st) sin = t -> text_ok t = true -> cs_ok t st ->
  exists w st1, prog_write_of k g st (Some sin) = (Some w, st1) /\ text_of w = t /\ cs_ok t st1.
Proof.
  intros k g st sin t E Ht Hs. unfold prog_write_of. cbn [option_map]. rewrite E. destruct k.
  - exists [WFd t], (cs_ran st). split; [reflexivity|]. split; [apply text_of_fd | now apply cs_ok_ran].
  - exists [WLines (file_lines t)], (cs_set_path (cs_ran st) t). split; [reflexivity|]. split.
    + rewrite text_of_lines. unfold file_lines. rewrite concat_lines_lf. now apply read_text_ok.
    + now apply cs_ok_set_path, cs_ok_ran.
Qed.

Lemma inv_prog : forall k g st ins st' ins', pg_ok g -> allP Inv ins' -> all2P skel_eq ins ins' ->
  cs_ok (g 0%nat (concat (map den ins))) st' -> Inv (SProg k g st' ins') /\ skel_eq (SProg k g st ins) (SProg k g st' ins').
Proof.
  intros k g st ins st' ins' Hg Hi Hsk Hs. split.
  - cbn [Inv]. rewrite (skel_map_den _ _ Hsk). auto.
  - cbn [skel_eq]. auto.
Qed.

Lemma inv_concat : forall st ps st' ps', ps <> [] -> allP Inv ps' -> all2P skel_eq ps ps' ->
  cs_ok (concat (map den ps)) st' -> Inv (SConcat st' ps') /\ skel_eq (SConcat st ps) (SConcat st' ps').
Proof.
  intros st ps st' ps' Hne Hi Hsk Hs. split.
  - cbn [Inv]. rewrite (skel_map_den _ _ Hsk). split; [|auto].
    destruct ps; [contradiction|]. destruct ps'; [destruct Hsk | discriminate].
  - exact Hsk.
Qed.

(** a view through the frozen contents, generalised: the view's value satisfies [Q] *)
Lemma via_frozen_ok' : forall {A} b t st evs (view : frozen -> option A) (Q : A -> Prop),
  text_ok t = true -> cs_ok t st -> text_of evs = t ->
  (forall z, good_fz t z -> exists v, view z = Some v /\ Q v) ->
  exists v st', via_frozen b st (Some evs) view = (Some v, st') /\ cs_ok t st' /\ Q v.
Proof.
  intros A b t st evs view Q Ht [Hp Hz] Et Hv. unfold via_frozen, cached_get.
  destruct Hz as [Hz|[z0 [Hz G0]]]; rewrite Hz.
  - destruct (frozen_from_events b evs) as [z [Ez Gz]].
    + rewrite Et. now apply text_ok_valid.
    + rewrite Et. now apply read_text_ok.
    + rewrite Ez. rewrite Et in Gz. destruct (Hv z Gz) as [v [Vv Qv]]. cbn [obind]. rewrite Vv.
      exists v, (cs_set_fz st z). split; [reflexivity|]. split; [|exact Qv].
      split; [exact Hp | right; exists z; split; [reflexivity | exact Gz]].
  - destruct (Hv z0 G0) as [v [Vv Qv]]. cbn [obind]. rewrite Vv. exists v, st. split; [reflexivity|].
    split; [|exact Qv]. split; [exact Hp | right; eauto].
Qed.

Definition single_text (t : text) (w : list wev) : Prop := text_of w = t.

Lemma fz_write_single : forall t z, text_ok t = true -> good_fz t z -> exists w, fz_write z = Some w /\ single_text t w.
Proof.
  intros t z Ht G. destruct (good_fz_views t z Ht G) as [_ [_ [_ [_ [e [Vw Te]]]]]]. exists [e]. split; [exact Vw|].
  unfold single_text, text_of. cbn. now rewrite app_nil_r.
Qed.

Lemma views_ok : forall b x, Inv x -> lines_spec b x /\ file_spec b x /\ write_spec b x.
Proof.
  intros b. unfold lines_spec, file_spec, write_spec.
  induction x as [s|r|k g st ins IHins|f dep path isfz u IH|f st u IH|g st u IH|st ps IHps] using src_ind2; cbn [Inv]; intros H.
  - (* SStr *)
    split; [|split].
    + exists (SStr s). cbn [s_lines den]. rewrite str_lines_ok by exact H. fin.
    + exists (SStr s). cbn [s_file den]. rewrite file_of_str. fin.
    + exists [WStr s], (SStr s). cbn [s_write den]. rewrite text_of_str. split; [reflexivity|]. split; [exact H|]. split; reflexivity.
  - (* SFile *)
    split; [|split].
    + exists (SFile r). cbn [s_lines den]. fin.
    + exists (SFile r). cbn [s_file den]. rewrite (read_text_ok r H). fin.
    + exists [WLines (file_lines r)], (SFile r). cbn [s_write den]. rewrite text_of_lines.
      unfold file_lines. rewrite concat_lines_lf. split; [reflexivity|]. split; [exact H|]. split; reflexivity.
  - (* SProg *)
    destruct H as [Hi [Hg Hs]]. cbn [s_lines s_file s_write den]. rewrite (den_prog g ins Hi Hg).
    set (t := g 0%nat (concat (map den ins))) in *.
    assert (Ht : text_ok t = true) by (apply (proj2 Hg), inv_parts_ok, Hi).
    assert (Hdet : forall n, g n (concat (map den ins)) = t) by (intros n; apply (proj1 Hg)).
    assert (HSI : allP (fun p => Inv p -> file_spec b p /\ write_spec b p) ins).
    { eapply allP_weaken; [|exact IHins]. unfold file_spec, write_spec. intros p Hp Ip. apply (Hp Ip). }
    destruct (stdin_ok b ins HSI Hi) as [ins' [Est [Ii' Si']]].
    assert (Ew2 : text_of [WLines (file_lines t)] = t).
    { rewrite text_of_lines. unfold file_lines. rewrite concat_lines_lf. now apply read_text_ok. }
    assert (VL : forall z, good_fz t z -> exists v, fz_lines z = Some v /\ v = lines_lf t).
    { intros z G. destruct (good_fz_views t z Ht G) as [V _]. eauto. }
    assert (VF : forall z, good_fz t z -> exists v, fz_file z = Some v /\ v = FText t).
    { intros z G. destruct (good_fz_views t z Ht G) as [_ [_ [V _]]]. eauto. }
    assert (VW : forall z, good_fz t z -> exists w, fz_write z = Some w /\ single_text t w) by (intros; now apply fz_write_single).
    destruct (c_isfz st) eqn:Ef.
    + (* frozen *)
      assert (FZ : forall {A} (view : frozen -> option A) (Q : A -> Prop),
                 (forall z, good_fz t z -> exists v, view z = Some v /\ Q v) ->
                 exists v x', (match c_fz st with
                               | Some z => (view z, SProg k g st ins)
                               | None =>
                                   match c_path st with
                                   | Some r => let (v, st') := via_frozen b st (Some [WLines (file_lines r)]) view in (v, SProg k g st' ins)
                                   | None =>
                                       let (o, ins') := stdin_with (s_file b) (s_write b) ins in
                                       let (w, st1) := prog_write_of k g st o in
                                       let (v, st') := via_frozen b st1 w view in (v, SProg k g st' ins')
                                   end
                               end) = (Some v, x') /\ Q v /\ Inv x' /\ skel_eq (SProg k g st ins) x').
      { intros A view Q HV. destruct (c_fz st) as [z|] eqn:Hz.
        - destruct (HV z (frozen_known t st z Hs Hz)) as [v [Vv Qv]]. rewrite Vv. exists v, (SProg k g st ins).
          split; [reflexivity|]. split; [exact Qv|]. apply inv_prog; auto using all2P_skel_refl.
        - pose proof Hs as [[Hp|Hp] _]; rewrite Hp.
          + rewrite Est. destruct (prog_write_of_ok k g st (concat (map den ins)) t (Hdet _) Ht Hs) as [w [st1 [Ew [Tw Hs1]]]].
            rewrite Ew. destruct (via_frozen_ok' b t st1 w view Q Ht Hs1 Tw HV) as [v [st' [E2 [Hs' Qv]]]]. rewrite E2.
            exists v, (SProg k g st' ins'). split; [reflexivity|]. split; [exact Qv|]. now apply inv_prog.
          + destruct (via_frozen_ok' b t st _ view Q Ht Hs Ew2 HV) as [v [st' [E2 [Hs' Qv]]]]. rewrite E2.
            exists v, (SProg k g st' ins). split; [reflexivity|]. split; [exact Qv|]. apply inv_prog; auto using all2P_skel_refl. }
      split; [|split].
      * destruct (FZ _ fz_lines _ VL) as [v [x' [E [-> [I S]]]]]. exists x'. rewrite E. auto.
      * destruct (FZ _ fz_file _ VF) as [v [x' [E [-> [I S]]]]]. exists x'. rewrite E. auto.
      * destruct (FZ _ fz_write _ VW) as [w [x' [E [Tw [I S]]]]]. exists w, x'. rewrite E. auto.
    + (* not frozen *)
      pose proof Hs as [[Hp|Hp] _]; rewrite Hp.
      * rewrite Est. cbn [option_map]. rewrite (Hdet (c_runs st)). split; [|split].
        -- rewrite file_lines_ok by exact Ht. exists (SProg k g (cs_set_path (cs_ran st) t) ins'). split; [reflexivity|].
           apply inv_prog; auto. now apply cs_ok_set_path, cs_ok_ran.
        -- exists (SProg k g (cs_set_path (cs_ran st) t) ins'). split; [reflexivity|]. apply inv_prog; auto. now apply cs_ok_set_path, cs_ok_ran.
        -- destruct (prog_write_of_ok k g st (concat (map den ins)) t (Hdet _) Ht Hs) as [w [st1 [Ew [Tw Hs1]]]].
           rewrite Ew. exists w, (SProg k g st1 ins'). split; [reflexivity|].
           destruct (inv_prog k g st ins st1 ins' Hg Ii' Si' Hs1) as [I S]. auto.
      * split; [|split].
        -- rewrite file_lines_ok by exact Ht. exists (SProg k g st ins). split; [reflexivity|]. apply inv_prog; auto using all2P_skel_refl.
        -- exists (SProg k g st ins). split; [reflexivity|]. apply inv_prog; auto using all2P_skel_refl.
        -- exists [WLines (file_lines t)], (SProg k g st ins). split; [reflexivity|].
           destruct (inv_prog k g st ins st ins Hg Hi (all2P_skel_refl ins) Hs) as [I S]. auto.
  - (* SLines *)
    destruct H as [Hu [Hf Hp]]. destruct (IH Hu) as [[u' [E [Iu' Su]]] _].
    cbn [s_lines s_file s_write den]. rewrite E. cbn [option_map].
    assert (I' : forall path', (path' = None \/ path' = Some (concat (f (lines_lf (den u))))) -> Inv (SLines f dep path' isfz u')).
    { intros path' Hp'. cbn [Inv]. rewrite (skel_eq_den _ _ Su). auto. }
    split; [|split].
    + exists (SLines f dep path isfz u'). rewrite <- den_lines_canonical by assumption.
      split; [reflexivity|]. split; [now apply I' | cbn; auto].
    + destruct Hp as [Hp|Hp]; rewrite Hp.
      * rewrite file_of_lines. exists (SLines f dep (Some (concat (f (lines_lf (den u))))) isfz u').
        split; [reflexivity|]. split; [apply I'; now right | cbn; auto].
      * exists (SLines f dep (Some (concat (f (lines_lf (den u))))) isfz u). fin.
    + exists [WLines (f (lines_lf (den u)))], (SLines f dep path isfz u'). split; [reflexivity|].
      split; [now apply I'|]. split; [cbn; auto|]. apply text_of_lines.
  - (* SFilter *)
    destruct H as [Hu [Hf Hs]]. cbn [s_lines s_file s_write den].
    set (t := concat (f (lines_lf (den u)))) in *.
    assert (Ht : text_ok t = true) by (apply good_lines_concat_ok, Hf, good_lines_of_text, inv_den_ok, Hu).
    destruct (IH Hu) as [[u' [E [Iu' Su]]] _].
    assert (I' : forall st', cs_ok t st' -> Inv (SFilter f st' u')).
    { intros st' Hs'. cbn [Inv]. rewrite (skel_eq_den _ _ Su). auto. }
    assert (Ew : text_of [WLines (f (lines_lf (den u)))] = t) by apply text_of_lines.
    destruct (c_isfz st) eqn:Ef.
    + destruct (c_fz st) as [z|] eqn:Hz.
      * pose proof (frozen_known t st z Hs Hz) as G.
        destruct (good_fz_views t z Ht G) as [V1 [_ [V3 [_ [e [Vw Te]]]]]].
        split; [|split].
        -- rewrite V1. exists (SFilter f st u). fin.
        -- rewrite V3. exists (SFilter f st u). fin.
        -- rewrite Vw. exists [e], (SFilter f st u). split; [reflexivity|]. split; [cbn [Inv]; auto|].
           split; [apply skel_eq_refl|]. unfold text_of; cbn; now rewrite app_nil_r.
      * rewrite E. cbn [option_map]. split; [|split].
        -- destruct (via_frozen_ok b t st _ fz_lines (lines_lf t) Ht Hs Ew) as [st' [E2 Hs']].
           { intros z G. apply (good_fz_views t z Ht G). }
           rewrite E2. exists (SFilter f st' u'). split; [reflexivity|]. split; [now apply I' | cbn; auto].
        -- destruct (via_frozen_ok b t st _ fz_file (FText t) Ht Hs Ew) as [st' [E2 Hs']].
           { intros z G. apply (good_fz_views t z Ht G). }
           rewrite E2. exists (SFilter f st' u'). split; [reflexivity|]. split; [now apply I' | cbn; auto].
        -- destruct (frozen_from_events b [WLines (f (lines_lf (den u)))]) as [z [Ez Gz]];
             [rewrite Ew; now apply text_ok_valid | rewrite Ew; now apply read_text_ok |].
           rewrite Ew in Gz. destruct (good_fz_views t z Ht Gz) as [_ [_ [_ [_ [e [Vw Te]]]]]].
           unfold via_frozen, cached_get. rewrite Hz, Ez. cbn [obind]. rewrite Vw.
           exists [e], (SFilter f (cs_set_fz st z) u'). split; [reflexivity|]. split.
           { apply I'. destruct Hs as [Hp _]. split; [exact Hp | right; exists z; auto]. }
           split; [cbn; auto|]. unfold text_of; cbn; now rewrite app_nil_r.
    + rewrite E. cbn [option_map]. split; [|split].
      * exists (SFilter f st u'). unfold t. rewrite <- den_lines_canonical by assumption.
        split; [reflexivity|]. split; [now apply I' | cbn; auto].
      * pose proof Hs as [[Hp|Hp] Hz]; rewrite Hp.
        -- rewrite file_of_lines. fold t. exists (SFilter f (cs_set_path st t) u'). split; [reflexivity|].
           split; [apply I'; now apply cs_ok_set_path | cbn; auto].
        -- exists (SFilter f st u). fin.
      * exists [WLines (f (lines_lf (den u)))], (SFilter f st u'). split; [reflexivity|].
        split; [now apply I'|]. split; [cbn; auto|]. exact Ew.
  - (* SRun *)
    destruct H as [Hu [Hg Hs]]. cbn [s_lines s_file s_write den]. rewrite (den_run g u Hu Hg).
    set (t := g (den u)) in *.
    assert (Ht : text_ok t = true) by (apply Hg, inv_den_ok, Hu).
    destruct (IH Hu) as [_ [[u' [E [Iu' Su]]] _]].
    assert (I' : forall st', cs_ok t st' -> Inv (SRun g st' u')).
    { intros st' Hs'. cbn [Inv]. rewrite (skel_eq_den _ _ Su). auto. }
    assert (Ew : text_of [WFd t] = t) by apply text_of_fd.
    assert (Ew2 : text_of [WLines (file_lines t)] = t).
    { rewrite text_of_lines. unfold file_lines. rewrite concat_lines_lf. now apply read_text_ok. }
    destruct (c_isfz st) eqn:Ef.
    + destruct (c_fz st) as [z|] eqn:Hz.
      * pose proof (frozen_known t st z Hs Hz) as G.
        destruct (good_fz_views t z Ht G) as [V1 [_ [V3 [_ [e [Vw Te]]]]]].
        split; [|split].
        -- rewrite V1. exists (SRun g st u). fin.
        -- rewrite V3. exists (SRun g st u). fin.
        -- rewrite Vw. exists [e], (SRun g st u). split; [reflexivity|]. split; [cbn [Inv]; auto|].
           split; [apply skel_eq_refl|]. unfold text_of; cbn; now rewrite app_nil_r.
      * pose proof Hs as [[Hp|Hp] _]; rewrite Hp.
        -- (* no cached file: the program is run on the operand's file *)
           rewrite E. cbn [run_on]. fold t. split; [|split].
           ++ destruct (via_frozen_ok b t st _ fz_lines (lines_lf t) Ht Hs Ew) as [st' [E2 Hs']].
              { intros z G. apply (good_fz_views t z Ht G). }
              rewrite E2. exists (SRun g st' u'). split; [reflexivity|]. split; [now apply I' | cbn; auto].
           ++ destruct (via_frozen_ok b t st _ fz_file (FText t) Ht Hs Ew) as [st' [E2 Hs']].
              { intros z G. apply (good_fz_views t z Ht G). }
              rewrite E2. exists (SRun g st' u'). split; [reflexivity|]. split; [now apply I' | cbn; auto].
           ++ destruct (frozen_from_events b [WFd t]) as [z [Ez Gz]];
                [rewrite Ew; now apply text_ok_valid | rewrite Ew; now apply read_text_ok |].
              rewrite Ew in Gz. destruct (good_fz_views t z Ht Gz) as [_ [_ [_ [_ [e [Vw Te]]]]]].
              unfold via_frozen, cached_get. rewrite Hz, Ez. cbn [obind]. rewrite Vw.
              exists [e], (SRun g (cs_set_fz st z) u'). split; [reflexivity|]. split.
              { apply I'. destruct Hs as [Hp' _]. split; [exact Hp' | right; exists z; auto]. }
              split; [cbn; auto|]. unfold text_of; cbn; now rewrite app_nil_r.
        -- (* the cached file is copied *)
           split; [|split].
           ++ destruct (via_frozen_ok b t st _ fz_lines (lines_lf t) Ht Hs Ew2) as [st' [E2 Hs']].
              { intros z G. apply (good_fz_views t z Ht G). }
              rewrite E2. exists (SRun g st' u). fin.
           ++ destruct (via_frozen_ok b t st _ fz_file (FText t) Ht Hs Ew2) as [st' [E2 Hs']].
              { intros z G. apply (good_fz_views t z Ht G). }
              rewrite E2. exists (SRun g st' u). fin.
           ++ destruct (frozen_from_events b [WLines (file_lines t)]) as [z [Ez Gz]];
                [rewrite Ew2; now apply text_ok_valid | rewrite Ew2; now apply read_text_ok |].
              rewrite Ew2 in Gz. destruct (good_fz_views t z Ht Gz) as [_ [_ [_ [_ [e [Vw Te]]]]]].
              unfold via_frozen, cached_get. rewrite Hz, Ez. cbn [obind]. rewrite Vw.
              exists [e], (SRun g (cs_set_fz st z) u). split; [reflexivity|]. split.
              { cbn [Inv]. split; [exact Hu|]. split; [exact Hg|]. destruct Hs as [Hp' _]. split; [exact Hp' | right; exists z; auto]. }
              split; [cbn [skel_eq]; auto using skel_eq_refl|]. unfold text_of; cbn; now rewrite app_nil_r.
    + pose proof Hs as [[Hp|Hp] _]; rewrite Hp.
      * rewrite E. cbn [run_on]. fold t. rewrite file_of_fd. split; [|split].
        -- rewrite file_lines_ok by exact Ht. exists (SRun g (cs_set_path st t) u'). split; [reflexivity|].
           split; [apply I'; now apply cs_ok_set_path | cbn; auto].
        -- exists (SRun g (cs_set_path st t) u'). split; [reflexivity|].
           split; [apply I'; now apply cs_ok_set_path | cbn; auto].
        -- exists [WFd t], (SRun g st u'). split; [reflexivity|]. split; [now apply I'|].
           split; [cbn; auto|]. exact Ew.
      * split; [|split].
        -- rewrite file_lines_ok by exact Ht. exists (SRun g st u). fin.
        -- exists (SRun g st u). fin.
        -- exists [WLines (file_lines t)], (SRun g st u). split; [reflexivity|]. split; [cbn [Inv]; auto|].
           split; [apply skel_eq_refl|]. exact Ew2.
  - (* SConcat *)
    destruct H as [Hne [Hp Hs]]. cbn [s_lines s_file s_write den].
    set (t := concat (map den ps)) in *.
    assert (Ht : text_ok t = true) by (apply inv_parts_ok, Hp).
    assert (HSW : allP (fun p => Inv p -> write_spec b p) ps).
    { eapply allP_weaken; [|exact IHps]. unfold write_spec. intros p Hq Ip. apply (Hq Ip). }
    destruct (write_parts_ok b ps HSW Hp) as [ws [ps2 [Ew [Ip2 [Sp2 Tw]]]]].
    destruct (map_st_ok (s_lines b) (fun p l => l = lines_lf (den p)) ps) as [ls [ps1 [El [Ip1 [Sp1 Ql]]]]]; [|exact Hp|].
    { eapply allP_weaken; [|exact IHps]. unfold lines_spec. intros p Hq Ip. destruct (Hq Ip) as [[p' [E [I S]]] _]. eauto 8. }
    assert (VL : forall z, good_fz t z -> exists v, fz_lines z = Some v /\ v = lines_lf t).
    { intros z G. destruct (good_fz_views t z Ht G) as [V _]. eauto. }
    assert (VF : forall z, good_fz t z -> exists v, fz_file z = Some v /\ v = FText t).
    { intros z G. destruct (good_fz_views t z Ht G) as [_ [_ [V _]]]. eauto. }
    assert (VW : forall z, good_fz t z -> exists w, fz_write z = Some w /\ single_text t w) by (intros; now apply fz_write_single).
    destruct (c_isfz st) eqn:Ef.
    + assert (FZ : forall {A} (view : frozen -> option A) (Q : A -> Prop),
                 (forall z, good_fz t z -> exists v, view z = Some v /\ Q v) ->
                 exists v x', (match c_fz st with
                               | Some z => (view z, SConcat st ps)
                               | None =>
                                   let (ws, ps') := map_st (s_write b) ps in
                                   let (v, st') := via_frozen b st (oconcat ws) view in (v, SConcat st' ps')
                               end) = (Some v, x') /\ Q v /\ Inv x' /\ skel_eq (SConcat st ps) x').
      { intros A view Q HV. destruct (c_fz st) as [z|] eqn:Hz.
        - destruct (HV z (frozen_known t st z Hs Hz)) as [v [Vv Qv]]. rewrite Vv. exists v, (SConcat st ps).
          split; [reflexivity|]. split; [exact Qv|]. apply inv_concat; auto using all2P_skel_refl.
        - rewrite Ew, oconcat_map_some.
          destruct (via_frozen_ok' b t st _ view Q Ht Hs Tw HV) as [v [st' [E2 [Hs' Qv]]]]. rewrite E2.
          exists v, (SConcat st' ps2). split; [reflexivity|]. split; [exact Qv|]. now apply inv_concat. }
      split; [|split].
      * destruct (FZ _ fz_lines _ VL) as [v [x' [E [-> [I S]]]]]. exists x'. rewrite E. auto.
      * destruct (FZ _ fz_file _ VF) as [v [x' [E [-> [I S]]]]]. exists x'. rewrite E. auto.
      * destruct (FZ _ fz_write _ VW) as [w [x' [E [Tw' [I S]]]]]. exists w, x'. rewrite E. auto.
    + split; [|split].
      * rewrite El, oall_map_some. cbn [obind]. rewrite (forall2_lines _ _ Ql).
        rewrite concat_lines_n_ok by (destruct ps; [contradiction | discriminate]). fold t.
        exists (SConcat st ps1). split; [reflexivity|]. now apply inv_concat.
      * pose proof Hs as [[Hpa|Hpa] _]; rewrite Hpa.
        -- rewrite Ew, oconcat_map_some. rewrite file_of_events_text, Tw.
           exists (SConcat (cs_set_path st t) ps2). split; [reflexivity|]. apply inv_concat; auto. now apply cs_ok_set_path.
        -- exists (SConcat st ps). split; [reflexivity|]. apply inv_concat; auto using all2P_skel_refl.
      * rewrite Ew, oconcat_map_some. exists (concat ws), (SConcat st ps2). split; [reflexivity|].
        destruct (inv_concat st ps st ps2 Hne Ip2 Sp2 Hs) as [I S]. auto.
Qed.
Lemma s_lines_ok : forall b x, Inv x -> lines_spec b x.
Proof. intros b x H. apply (views_ok b x H). Qed.
Lemma s_file_ok : forall b x, Inv x -> file_spec b x.
Proof. intros b x H. apply (views_ok b x H). Qed.
Lemma s_write_ok : forall b x, Inv x -> write_spec b x.
Proof. intros b x H. apply (views_ok b x H). Qed.

Lemma all_specs : forall b ps, allP (fun p => Inv p -> lines_spec b p /\ file_spec b p /\ write_spec b p) ps.
Proof. intros b. induction ps as [|p ps IH]; cbn; [exact I|]. split; [apply views_ok | exact IH]. Qed.

(** any view of a frozen program source / concat *)
Lemma prog_frozen_ok : forall {A} b k g st ins (view : frozen -> option A) (Q : A -> Prop),
  allP Inv ins -> pg_ok g -> cs_ok (g 0%nat (concat (map den ins))) st ->
  (forall z, good_fz (g 0%nat (concat (map den ins))) z -> exists v, view z = Some v /\ Q v) ->
  exists v x', (match c_fz st with
                | Some z => (view z, SProg k g st ins)
                | None =>
                    match c_path st with
                    | Some r => let (v, st') := via_frozen b st (Some [WLines (file_lines r)]) view in (v, SProg k g st' ins)
                    | None =>
                        let (o, ins') := stdin_with (s_file b) (s_write b) ins in
                        let (w, st1) := prog_write_of k g st o in
                        let (v, st') := via_frozen b st1 w view in (v, SProg k g st' ins')
                    end
                end) = (Some v, x') /\ Q v /\ Inv x' /\ skel_eq (SProg k g st ins) x'.
Proof.
  intros A b k g st ins view Q Hi Hg Hs HV. set (t := g 0%nat (concat (map den ins))) in *.
  assert (Ht : text_ok t = true) by (apply (proj2 Hg), inv_parts_ok, Hi).
  assert (Hdet : forall n, g n (concat (map den ins)) = t) by (intros n; apply (proj1 Hg)).
  assert (HSI : allP (fun p => Inv p -> file_spec b p /\ write_spec b p) ins).
  { eapply allP_weaken; [|apply (all_specs b ins)]. intros p Hp Ip. apply (Hp Ip). }
  destruct (stdin_ok b ins HSI Hi) as [ins' [Est [Ii' Si']]].
  assert (Ew2 : text_of [WLines (file_lines t)] = t).
  { rewrite text_of_lines. unfold file_lines. rewrite concat_lines_lf. now apply read_text_ok. }
  destruct (c_fz st) as [z|] eqn:Hz.
  - destruct (HV z (frozen_known t st z Hs Hz)) as [v [Vv Qv]]. rewrite Vv. exists v, (SProg k g st ins).
    split; [reflexivity|]. split; [exact Qv|]. apply inv_prog; auto using all2P_skel_refl.
  - pose proof Hs as [[Hp|Hp] _]; rewrite Hp.
    + rewrite Est. destruct (prog_write_of_ok k g st (concat (map den ins)) t (Hdet _) Ht Hs) as [w [st1 [Ew [Tw Hs1]]]].
      rewrite Ew. destruct (via_frozen_ok' b t st1 w view Q Ht Hs1 Tw HV) as [v [st' [E2 [Hs' Qv]]]]. rewrite E2.
      exists v, (SProg k g st' ins'). split; [reflexivity|]. split; [exact Qv|]. now apply inv_prog.
    + destruct (via_frozen_ok' b t st _ view Q Ht Hs Ew2 HV) as [v [st' [E2 [Hs' Qv]]]]. rewrite E2.
      exists v, (SProg k g st' ins). split; [reflexivity|]. split; [exact Qv|]. apply inv_prog; auto using all2P_skel_refl.
Qed.

Lemma concat_frozen_ok : forall {A} b st ps (view : frozen -> option A) (Q : A -> Prop),
  ps <> [] -> allP Inv ps -> cs_ok (concat (map den ps)) st ->
  (forall z, good_fz (concat (map den ps)) z -> exists v, view z = Some v /\ Q v) ->
  exists v x', (match c_fz st with
                | Some z => (view z, SConcat st ps)
                | None =>
                    let (ws, ps') := map_st (s_write b) ps in
                    let (v, st') := via_frozen b st (oconcat ws) view in (v, SConcat st' ps')
                end) = (Some v, x') /\ Q v /\ Inv x' /\ skel_eq (SConcat st ps) x'.
Proof.
  intros A b st ps view Q Hne Hp Hs HV. set (t := concat (map den ps)) in *.
  assert (Ht : text_ok t = true) by (apply inv_parts_ok, Hp).
  assert (HSW : allP (fun p => Inv p -> write_spec b p) ps).
  { eapply allP_weaken; [|apply (all_specs b ps)]. intros p Hq Ip. apply (Hq Ip). }
  destruct (write_parts_ok b ps HSW Hp) as [ws [ps2 [Ew [Ip2 [Sp2 Tw]]]]].
  destruct (c_fz st) as [z|] eqn:Hz.
  - destruct (HV z (frozen_known t st z Hs Hz)) as [v [Vv Qv]]. rewrite Vv. exists v, (SConcat st ps).
    split; [reflexivity|]. split; [exact Qv|]. apply inv_concat; auto using all2P_skel_refl.
  - rewrite Ew, oconcat_map_some.
    destruct (via_frozen_ok' b t st _ view Q Ht Hs Tw HV) as [v [st' [E2 [Hs' Qv]]]]. rewrite E2.
    exists v, (SConcat st' ps2). split; [reflexivity|]. split; [exact Qv|]. now apply inv_concat.
Qed.

Definition str_spec (b : N) (x : src) : Prop :=
  exists x', s_str b x = (Some (den x), x') /\ Inv x' /\ skel_eq x x'.

Lemma str_via_file_ok : forall b x, Inv x -> read_text (den x) = den x ->
  exists x', str_via_file b x = (Some (den x), x') /\ Inv x' /\ skel_eq x x'.
Proof.
  intros b x H Hr. unfold str_via_file. destruct (s_file_ok b x H) as [x' [E [I S]]]. rewrite E. cbn [ftext option_map]. rewrite Hr. eauto.
Qed.

Lemma s_str_ok : forall b x, Inv x -> str_spec b x.
Proof.
  intros b x H. unfold str_spec. pose proof (inv_den_ok x H) as Ot.
  destruct x as [s|r|k g st ins|f dep path isfz u|f st u|g st u|st ps].
  - exists (SStr s). cbn [s_str den]. fin.
  - exists (SFile r). cbn [s_str den]. fin.
  - cbn [s_str]. destruct (c_isfz st) eqn:Ef.
    + cbn [Inv] in H. destruct H as [Hi [Hg Hs]]. cbn [den]. rewrite (den_prog g ins Hi Hg).
      destruct (prog_frozen_ok b k g st ins fz_str (fun v => v = g 0%nat (concat (map den ins))) Hi Hg Hs) as [v [x' [E [-> [I S]]]]].
      { intros z G. destruct (good_fz_views _ z (proj2 Hg _ (inv_parts_ok _ Hi)) G) as [_ [V _]]. eauto. }
      rewrite E. eauto.
    + apply str_via_file_ok; [exact H | now apply read_text_ok].
  - cbn [Inv] in H. destruct H as [Hu [Hf Hp]]. destruct (s_lines_ok b u Hu) as [u' [E [Iu' Su]]].
    cbn [s_str den]. rewrite E. cbn [option_map].
    exists (SLines f dep path isfz u'). split; [reflexivity|]. split.
    + cbn [Inv]. rewrite (skel_eq_den _ _ Su). auto.
    + cbn. auto.
  - cbn [Inv] in H. destruct H as [Hu [Hf Hs]]. cbn [s_str den] in *.
    set (t := concat (f (lines_lf (den u)))) in *.
    destruct (s_lines_ok b u Hu) as [u' [E [Iu' Su]]].
    assert (I' : forall st', cs_ok t st' -> Inv (SFilter f st' u')).
    { intros st' Hs'. cbn [Inv]. rewrite (skel_eq_den _ _ Su). auto. }
    destruct (c_isfz st) eqn:Ef.
    + destruct (c_fz st) as [z|] eqn:Hz.
      * pose proof (frozen_known t st z Hs Hz) as G. destruct (good_fz_views t z Ot G) as [_ [V _]]. rewrite V.
        exists (SFilter f st u). fin.
      * rewrite E. cbn [option_map].
        destruct (via_frozen_ok b t st _ fz_str t Ot Hs (text_of_lines _)) as [st' [E2 Hs']].
        { intros z G. apply (good_fz_views t z Ot G). }
        rewrite E2. exists (SFilter f st' u'). split; [reflexivity|]. split; [now apply I' | cbn; auto].
    + rewrite E. cbn [option_map]. exists (SFilter f st u'). split; [reflexivity|]. split; [now apply I' | cbn; auto].
  - cbn [s_str]. destruct (c_isfz st) eqn:Ef.
    + cbn [Inv] in H. destruct H as [Hu [Hg Hs]]. cbn [den] in *. rewrite (den_run g u Hu Hg) in *.
      set (t := g (den u)) in *.
      destruct (s_file_ok b u Hu) as [u' [E [Iu' Su]]].
      assert (I' : forall st', cs_ok t st' -> Inv (SRun g st' u')).
      { intros st' Hs'. cbn [Inv]. rewrite (skel_eq_den _ _ Su). auto. }
      destruct (c_fz st) as [z|] eqn:Hz.
      * pose proof (frozen_known t st z Hs Hz) as G. destruct (good_fz_views t z Ot G) as [_ [V _]]. rewrite V.
        exists (SRun g st u). fin.
      * pose proof Hs as [[Hp|Hp] _]; rewrite Hp.
        -- rewrite E. cbn [run_on]. fold t.
           destruct (via_frozen_ok b t st _ fz_str t Ot Hs (text_of_fd t)) as [st' [E2 Hs']].
           { intros z G. apply (good_fz_views t z Ot G). }
           rewrite E2. exists (SRun g st' u'). split; [reflexivity|]. split; [now apply I' | cbn; auto].
        -- assert (Ew2 : text_of [WLines (file_lines t)] = t).
           { rewrite text_of_lines. unfold file_lines. rewrite concat_lines_lf. now apply read_text_ok. }
           destruct (via_frozen_ok b t st _ fz_str t Ot Hs Ew2) as [st' [E2 Hs']].
           { intros z G. apply (good_fz_views t z Ot G). }
           rewrite E2. exists (SRun g st' u). fin.
    + apply str_via_file_ok; [exact H | now apply read_text_ok].
  - cbn [Inv] in H. destruct H as [Hne [Hp Hs]]. cbn [s_str den] in *.
    set (t := concat (map den ps)) in *.
    destruct (c_isfz st) eqn:Ef.
    + destruct (concat_frozen_ok b st ps fz_str (fun v => v = t) Hne Hp Hs) as [v [x' [E [-> [I S]]]]].
      { intros z G. destruct (good_fz_views t z Ot G) as [_ [V _]]. eauto. }
      rewrite E. eauto.
    + destruct (map_st_ok (s_lines b) (fun p l => l = lines_lf (den p)) ps) as [ls [ps1 [El [Ip1 [Sp1 Ql]]]]]; [|exact Hp|].
      { eapply allP_weaken; [|apply (all_specs b ps)]. unfold lines_spec. intros p Hq Ip. destruct (Hq Ip) as [[p' [E [I S]]] _]. eauto 8. }
      rewrite El, oall_map_some. cbn [obind]. rewrite (forall2_lines _ _ Ql).
      rewrite concat_lines_n_ok by (destruct ps; [contradiction | discriminate]). fold t. cbn [option_map].
      rewrite concat_lines_lf. exists (SConcat st ps1). split; [reflexivity|]. now apply inv_concat.
Qed.

Lemma s_dep_ok : forall b x, Inv x -> exists d x', s_dep b x = (Some d, x') /\ Inv x' /\ skel_eq x x'.
Proof.
  intros b. induction x as [s|r|k g st ins IHins|f dep path isfz u IH|f st u IH|g st u IH|st ps IHps] using src_ind2; intros H;
    pose proof (inv_den_ok _ H) as Ot; cbn [Inv] in H.
  - exists false, (SStr s). cbn [s_dep]. fin.
  - exists true, (SFile r). cbn [s_dep]. fin.
  - destruct H as [Hi [Hg Hs]]. cbn [s_dep]. destruct (c_isfz st) eqn:Ef.
    + destruct (prog_frozen_ok b k g st ins fz_dep (fun _ => True) Hi Hg Hs) as [d [x' [E [_ [I S]]]]].
      { intros z G. destruct (good_fz_views _ z (proj2 Hg _ (inv_parts_ok _ Hi)) G) as [_ [_ [_ [[d V] _]]]]. eauto. }
      rewrite E. eauto.
    + exists true, (SProg k g st ins). split; [reflexivity|]. apply inv_prog; auto using all2P_skel_refl.
  - destruct H as [Hu [Hf Hp]]. cbn [s_dep]. destruct dep.
    + exists true, (SLines f true path isfz u). fin.
    + destruct (IH Hu) as [d [u' [E [Iu' Su]]]]. rewrite E.
      exists d, (SLines f false path isfz u'). split; [reflexivity|]. split.
      * cbn [Inv]. rewrite (skel_eq_den _ _ Su). auto.
      * cbn. auto.
  - destruct H as [Hu [Hf Hs]]. cbn [s_dep den] in *.
    set (t := concat (f (lines_lf (den u)))) in *.
    assert (V : forall z, good_fz t z -> exists d, fz_dep z = Some d) by (intros z G; apply (good_fz_views t z Ot G)).
    destruct (c_isfz st) eqn:Ef; [|exists true, (SFilter f st u); fin].
    destruct (c_fz st) as [z|] eqn:Hz.
    + destruct (V z (frozen_known t st z Hs Hz)) as [d Vd]. rewrite Vd. exists d, (SFilter f st u). fin.
    + destruct (s_lines_ok b u Hu) as [u' [E [Iu' Su]]]. rewrite E. cbn [option_map].
      destruct (frozen_from_events b [WLines (f (lines_lf (den u)))]) as [z [Ez Gz]];
        [rewrite text_of_lines; now apply text_ok_valid | rewrite text_of_lines; now apply read_text_ok |].
      rewrite text_of_lines in Gz. destruct (V z Gz) as [d Vd].
      unfold via_frozen, cached_get. rewrite Hz, Ez. cbn [obind]. rewrite Vd.
      exists d, (SFilter f (cs_set_fz st z) u'). split; [reflexivity|]. split; [|cbn; auto].
      cbn [Inv]. rewrite (skel_eq_den _ _ Su). split; [exact Iu'|]. split; [exact Hf|].
      destruct Hs as [Hp _]. split; [exact Hp | right; exists z; auto].
  - destruct H as [Hu [Hg Hs]]. cbn [s_dep den] in *. rewrite (den_run g u Hu Hg) in *.
    set (t := g (den u)) in *.
    assert (V : forall z, good_fz t z -> exists d, fz_dep z = Some d) by (intros z G; apply (good_fz_views t z Ot G)).
    destruct (c_isfz st) eqn:Ef; [|exists true, (SRun g st u); fin].
    destruct (c_fz st) as [z|] eqn:Hz.
    + destruct (V z (frozen_known t st z Hs Hz)) as [d Vd]. rewrite Vd. exists d, (SRun g st u). fin.
    + pose proof Hs as [[Hp|Hp] _]; rewrite Hp.
      * destruct (s_file_ok b u Hu) as [u' [E [Iu' Su]]]. rewrite E. cbn [run_on]. fold t.
        destruct (frozen_from_events b [WFd t]) as [z [Ez Gz]];
          [rewrite text_of_fd; now apply text_ok_valid | rewrite text_of_fd; now apply read_text_ok |].
        rewrite text_of_fd in Gz. destruct (V z Gz) as [d Vd].
        unfold via_frozen, cached_get. rewrite Hz, Ez. cbn [obind]. rewrite Vd.
        exists d, (SRun g (cs_set_fz st z) u'). split; [reflexivity|]. split; [|cbn; auto].
        cbn [Inv]. rewrite (skel_eq_den _ _ Su). split; [exact Iu'|]. split; [exact Hg|].
        destruct Hs as [Hp' _]. split; [exact Hp' | right; exists z; auto].
      * assert (Ew2 : text_of [WLines (file_lines t)] = t).
        { rewrite text_of_lines. unfold file_lines. rewrite concat_lines_lf. now apply read_text_ok. }
        destruct (frozen_from_events b [WLines (file_lines t)]) as [z [Ez Gz]];
          [rewrite Ew2; now apply text_ok_valid | rewrite Ew2; now apply read_text_ok |].
        rewrite Ew2 in Gz. destruct (V z Gz) as [d Vd].
        unfold via_frozen, cached_get. rewrite Hz, Ez. cbn [obind]. rewrite Vd.
        exists d, (SRun g (cs_set_fz st z) u). split; [reflexivity|]. split; [|cbn; auto using skel_eq_refl].
        cbn [Inv]. split; [exact Hu|]. split; [exact Hg|].
        destruct Hs as [Hp' _]. split; [exact Hp' | right; exists z; auto].
  - destruct H as [Hne [Hp Hs]]. cbn [s_dep den] in *.
    set (t := concat (map den ps)) in *.
    destruct (c_isfz st) eqn:Ef.
    + destruct (concat_frozen_ok b st ps fz_dep (fun _ => True) Hne Hp Hs) as [d [x' [E [_ [I S]]]]].
      { intros z G. destruct (good_fz_views t z Ot G) as [_ [_ [_ [[d V] _]]]]. eauto. }
      rewrite E. eauto.
    + destruct (map_st_ok (s_dep b) (fun _ _ => True) ps) as [ds [ps1 [Ed [Ip1 [Sp1 _]]]]]; [|exact Hp|].
      { eapply allP_weaken; [|exact IHps]. intros p Hq Ip. destruct (Hq Ip) as [d [p' [E [I S]]]]. eauto 8. }
      rewrite Ed, oall_map_some. cbn [option_map]. exists (existsb (fun d => d) ds), (SConcat st ps1).
      split; [reflexivity|]. now apply inv_concat.
Qed.

Lemma s_freeze_ok : forall x, Inv x -> Inv (s_freeze x) /\ skel_eq x (s_freeze x).
Proof.
  induction x as [s|r|k g st ins IHins|f dep path isfz u IH|f st u IH|g st u IH|st ps IHps] using src_ind2; cbn [Inv s_freeze]; intros H.
  - split; [exact H | reflexivity].
  - split; [exact H | reflexivity].
  - destruct H as [Hi [Hg Hs]]. apply inv_prog; auto using all2P_skel_refl. now apply cs_ok_freeze.
  - destruct H as [Hu [Hf Hp]]. destruct isfz.
    + split; [cbn [Inv]; auto | apply skel_eq_refl].
    + destruct (IH Hu) as [I S]. split.
      * cbn [Inv]. rewrite (skel_eq_den _ _ S). auto.
      * cbn. auto.
  - destruct H as [Hu [Hf Hs]]. split.
    + cbn [Inv]. split; [exact Hu|]. split; [exact Hf|]. now apply cs_ok_freeze.
    + cbn. split; [reflexivity | apply skel_eq_refl].
  - destruct H as [Hu [Hg Hs]]. split.
    + cbn [Inv]. split; [exact Hu|]. split; [exact Hg|]. now apply cs_ok_freeze.
    + cbn. split; [reflexivity | apply skel_eq_refl].
  - destruct H as [Hne [Hp Hs]]. apply inv_concat; auto using all2P_skel_refl. now apply cs_ok_freeze.
Qed.

(** ** Access sequences *)
Lemma step_ok : forall b a x, Inv x ->
  exists o x', step b a x = (o, x') /\ obs_ok (den x) o = true /\ Inv x' /\ skel_eq x x'.
Proof.
  intros b a x H. destruct a; cbn [step].
  - destruct (s_str_ok b x H) as [x' [E [I S]]]. rewrite E. exists (OStr (den x)), x'. cbn. rewrite text_eqb_refl. auto.
  - destruct (s_lines_ok b x H) as [x' [E [I S]]]. rewrite E. exists (OLines (lines_lf (den x))), x'. cbn. rewrite lines_eqb_refl. auto.
  - destruct (s_file_ok b x H) as [x' [E [I S]]]. rewrite E. exists (OFile (FText (den x))), x'. cbn. rewrite text_eqb_refl. auto.
  - destruct (s_dep_ok b x H) as [d [x' [E [I S]]]]. rewrite E. exists (ODep d), x'. cbn. auto.
  - destruct (s_freeze_ok x H) as [I S]. exists OFrozen, (s_freeze x). auto.
  - destruct (s_write_ok b x H) as [evs [x' [E [I [S T]]]]]. rewrite E. cbn [option_map oobs].
    rewrite file_of_events_text, T. exists (OWritten (FText (den x))), x'. cbn. rewrite text_eqb_refl. auto.
Qed.

Lemma run_ok : forall b accs x, Inv x ->
  forallb (obs_ok (den x)) (fst (run b accs x)) = true /\ Inv (snd (run b accs x)) /\ skel_eq x (snd (run b accs x)).
Proof.
  intros b. induction accs as [|a accs IH]; intros x H; cbn [run].
  - cbn. split; [reflexivity|]. split; [exact H | apply skel_eq_refl].
  - destruct (step_ok b a x H) as [o [x' [E [O [I S]]]]]. rewrite E.
    destruct (IH x' I) as [F [I2 S2]]. destruct (run b accs x') as [os x''] eqn:Er. cbn [fst snd] in *.
    split.
    + cbn [forallb]. rewrite O. rewrite (skel_eq_den _ _ S) in F. exact F.
    + split; [exact I2 | eapply skel_eq_trans; eassumption].
Qed.

(** ** The guard on the INPUT and the initial state *)
(** every line transformation and every external program of the expression is admitted *)
Fixpoint lfs_ok (x : src) : Prop :=
  match x with
  | SStr _ | SFile _ => True
  | SProg _ g _ ins => pg_ok g /\ allP lfs_ok ins
  | SLines f _ _ _ u => lf_ok f /\ lfs_ok u
  | SFilter f _ u => lf_ok f /\ lfs_ok u
  | SRun g _ u => g_ok g /\ lfs_ok u
  | SConcat _ ps => ps <> [] /\ allP lfs_ok ps
  end.

(** every text of the expression is admitted *)
Fixpoint leaves_ok (x : src) : bool :=
  match x with
  | SStr s => text_ok s
  | SFile r => text_ok r
  | SProg _ _ _ ins => forallb leaves_ok ins
  | SLines _ _ _ _ u => leaves_ok u
  | SFilter _ _ u => leaves_ok u
  | SRun _ _ u => leaves_ok u
  | SConcat _ ps => forallb leaves_ok ps
  end.

(** the state of newly created objects: nothing cached, nothing frozen *)
Fixpoint fresh (x : src) : Prop :=
  match x with
  | SStr _ | SFile _ => True
  | SProg _ _ st ins => st = cs0 /\ allP fresh ins
  | SLines _ _ path isfz u => path = None /\ isfz = false /\ fresh u
  | SFilter _ st u => st = cs0 /\ fresh u
  | SRun _ st u => st = cs0 /\ fresh u
  | SConcat st ps => st = cs0 /\ allP fresh ps
  end.

Lemma parts_inv : forall ps,
  allP (fun p => fresh p -> leaves_ok p = true -> lfs_ok p -> Inv p) ps ->
  allP fresh ps -> forallb leaves_ok ps = true -> allP lfs_ok ps -> allP Inv ps.
Proof.
  induction ps as [|p ps IH]; cbn [allP forallb]; [auto|]. intros [H1 H2] [F1 F2] L [K1 K2].
  apply andb_true_iff in L as [L1 L2]. auto.
Qed.

Lemma fresh_inv : forall x, fresh x -> leaves_ok x = true -> lfs_ok x -> Inv x.
Proof.
  induction x as [s|r|k g st ins IHins|f dep path isfz u IH|f st u IH|g st u IH|st ps IHps] using src_ind2;
    cbn [fresh leaves_ok lfs_ok Inv]; intros F L K.
  - exact L.
  - exact L.
  - destruct F as [-> F]. destruct K as [K1 K2]. split; [now apply parts_inv|]. split; [exact K1 | apply cs_ok_cs0].
  - destruct F as [-> [-> F]]. destruct K as [K1 K2]. auto.
  - destruct F as [-> F]. destruct K as [K1 K2]. split; [auto|]. split; [exact K1 | apply cs_ok_cs0].
  - destruct F as [-> F]. destruct K as [K1 K2]. split; [auto|]. split; [exact K1 | apply cs_ok_cs0].
  - destruct F as [-> F]. destruct K as [K1 K2]. split; [exact K1|]. split; [now apply parts_inv | apply cs_ok_cs0].
Qed.

Theorem views_agree : forall x b accs,
  fresh x -> leaves_ok x = true -> lfs_ok x ->
  forallb (obs_ok (den x)) (fst (run b accs x)) = true.
Proof. intros x b accs F L K. apply run_ok. now apply fresh_inv. Qed.

(** ** Admitted line transformations: the ones the correspondence cases use *)
Lemma lf_ok_identity : lf_ok lf_identity.
Proof. intros ls H. exact H. Qed.

Lemma wf_lines_tail : forall l ls, wf_lines (l :: ls) = true -> wf_lines ls = true.
Proof. intros l [|l2 ls] H; [reflexivity|]. cbn [wf_lines] in H. apply andb_true_iff in H. tauto. Qed.

Lemma wf_lines_head_full : forall l l2 ls, wf_lines (l :: l2 :: ls) = true -> is_full_line l = true.
Proof. intros l l2 ls H. cbn [wf_lines] in H. apply andb_true_iff in H. tauto. Qed.

(** Dropping elements of a well-formed line sequence keeps it well formed. *)
Lemma wf_lines_filter_from : forall p ls n, wf_lines ls = true -> wf_lines (filter_from p n ls) = true.
Proof.
  intros p. induction ls as [|l ls IH]; intros n H; [reflexivity|]. cbn [filter_from].
  pose proof (wf_lines_tail l ls H) as Ht. destruct (p n (rstrip_nl l)).
  - destruct ls as [|l2 ls].
    + cbn [filter_from]. exact H.
    + apply wf_lines_cons_full; [eapply wf_lines_head_full; exact H | apply IH; exact Ht].
  - apply IH; exact Ht.
Qed.

Lemma forallb_filter_from : forall (q : text -> bool) p ls n, forallb q ls = true -> forallb q (filter_from p n ls) = true.
Proof.
  intros q p. induction ls as [|l ls IH]; intros n H; [reflexivity|]. cbn [filter_from].
  cbn in H. apply andb_true_iff in H as [H1 H2]. destruct (p n (rstrip_nl l)).
  - cbn. rewrite H1. now apply IH.
  - now apply IH.
Qed.

Lemma lf_ok_filter : forall p, lf_ok (lf_filter p).
Proof.
  intros p ls [H1 H2]. split; [now apply wf_lines_filter_from | now apply forallb_filter_from].
Qed.

(** char-case -to-upper on ASCII letters: a character-wise map that neither creates nor removes
    "\n" and maps admitted characters to admitted characters. *)
Definition char_map_ok (g : char -> char) : Prop :=
  (forall c, N.eqb (g c) NL = N.eqb c NL) /\
  (forall c, is_exotic_break c = false -> is_exotic_break (g c) = false) /\
  (forall c, valid_char c = true -> valid_char (g c) = true).

Lemma forallb_map' : forall {A B} (q : B -> bool) (g : A -> B) l, forallb q (map g l) = forallb (fun x => q (g x)) l.
Proof. intros. induction l as [|x l IH]; [reflexivity|]. cbn. now rewrite IH. Qed.

Lemma forallb_ext' : forall {A} (p q : A -> bool) l, (forall x, p x = q x) -> forallb p l = forallb q l.
Proof. intros. induction l as [|x l IH]; [reflexivity|]. cbn. now rewrite H, IH. Qed.

Lemma is_full_line_map : forall g l, (forall c, N.eqb (g c) NL = N.eqb c NL) -> is_full_line (map g l) = is_full_line l.
Proof.
  intros g l Hg. induction l as [|c l IH]; [reflexivity|]. destruct l as [|d l].
  - cbn. apply Hg.
  - change (map g (c :: d :: l)) with (g c :: map g (d :: l)).
    change (is_full_line (c :: d :: l)) with (negb (N.eqb c NL) && is_full_line (d :: l)).
    cbn [map] in *. change (is_full_line (g c :: g d :: map g l)) with (negb (N.eqb (g c) NL) && is_full_line (g d :: map g l)).
    now rewrite Hg, IH.
Qed.

Lemma is_partial_line_map : forall g l, (forall c, N.eqb (g c) NL = N.eqb c NL) -> is_partial_line (map g l) = is_partial_line l.
Proof.
  intros g l Hg. destruct l as [|c l]; [reflexivity|]. unfold is_partial_line. cbn [map].
  change (g c :: map g l) with (map g (c :: l)).
  rewrite forallb_map'. apply forallb_ext'. intros x. now rewrite Hg.
Qed.

Lemma wf_lines_map : forall g ls, (forall c, N.eqb (g c) NL = N.eqb c NL) -> wf_lines (map (map g) ls) = wf_lines ls.
Proof.
  intros g ls Hg. induction ls as [|l ls IH]; [reflexivity|]. destruct ls as [|l2 ls].
  - cbn. now rewrite is_full_line_map, is_partial_line_map.
  - change (wf_lines (l :: l2 :: ls)) with (is_full_line l && wf_lines (l2 :: ls)).
    cbn [map] in *. change (wf_lines (map g l :: map g l2 :: map (map g) ls)) with (is_full_line (map g l) && wf_lines (map g l2 :: map (map g) ls)).
    now rewrite is_full_line_map, IH.
Qed.

Lemma text_ok_map : forall g t, char_map_ok g -> text_ok t = true -> text_ok (map g t) = true.
Proof.
  intros g t [_ [He Hv]] H. unfold text_ok in *. apply andb_true_iff in H as [H1 H2]. apply andb_true_iff. split.
  - unfold no_exotic_breaks in *. rewrite forallb_map'. rewrite forallb_forall in *. intros c Hc.
    apply negb_true_iff, He, negb_true_iff, H1, Hc.
  - unfold valid_text in *. rewrite forallb_map'. rewrite forallb_forall in *. intros c Hc. apply Hv, H2, Hc.
Qed.

Lemma lf_ok_char_map : forall g, char_map_ok g -> lf_ok (map (map g)).
Proof.
  intros g Hg ls [H1 H2]. split.
  - rewrite wf_lines_map; [exact H1 | apply Hg].
  - rewrite forallb_map'. rewrite forallb_forall in *. intros l Hl. apply text_ok_map; [exact Hg | apply H2, Hl].
Qed.

Lemma ascii_upper_cases : forall c, ascii_upper c = c \/ (97 <= c <= 122 /\ ascii_upper c = c - 32).
Proof.
  intros c. unfold ascii_upper. destruct ((97 <=? c) && (c <=? 122)) eqn:E; [right | left; reflexivity].
  split; [lia | reflexivity].
Qed.

Lemma char_map_ok_upper : char_map_ok ascii_upper.
Proof.
  split; [|split]; intros c.
  - destruct (ascii_upper_cases c) as [->|[R ->]]; [reflexivity|]. unfold NL. lia.
  - intros H. destruct (ascii_upper_cases c) as [->|[R ->]]; [exact H|].
    unfold is_exotic_break, is_break, NL. lia.
  - intros H. destruct (ascii_upper_cases c) as [->|[R ->]]; [exact H|]. unfold valid_char. lia.
Qed.

Lemma lf_ok_upper : lf_ok lf_upper.
Proof. apply lf_ok_char_map, char_map_ok_upper. Qed.


(** the external programs the correspondence cases use *)
Lemma g_ok_cat : g_ok g_cat.
Proof. intros r H. exact H. Qed.

Lemma pg_ok_det : forall g, g_ok g -> pg_ok (det g).
Proof. intros g H. split; [reflexivity | exact H]. Qed.

Lemma g_ok_const : forall out, text_ok out = true -> g_ok (g_const out).
Proof. intros out H r _. exact H. Qed.

Lemma g_ok_prefix : forall out, text_ok out = true -> g_ok (g_prefix out).
Proof. intros out H r Hr. unfold g_prefix. now rewrite text_ok_app, H, Hr. Qed.

Lemma char_map_ok_swap : char_map_ok swap_ab.
Proof.
  assert (C : forall c, swap_ab c = c \/ (c = 97 /\ swap_ab c = 98) \/ (c = 98 /\ swap_ab c = 97)).
  { intros c. unfold swap_ab. destruct (c =? 97) eqn:E1; [right; left; split; [lia | reflexivity]|].
    destruct (c =? 98) eqn:E2; [right; right; split; [lia | reflexivity] | left; reflexivity]. }
  split; [|split]; intros c; destruct (C c) as [->|[[-> ->]|[-> ->]]]; auto.
Qed.

Lemma g_ok_tr : g_ok g_tr_ab.
Proof. intros r H. apply text_ok_map; [apply char_map_ok_swap | exact H]. Qed.

Lemma g_ok_tail : g_ok g_tail2.
Proof.
  intros r H. unfold g_tail2. rewrite text_ok_concat.
  pose proof (good_lines_of_text r H) as [_ G]. destruct (lines_lf r) as [|l ls]; [reflexivity|].
  cbn [skipn]. cbn in G. apply andb_true_iff in G. tauto.
Qed.

(** ** replace: whatever the substitution does to the single lines (remove new-lines, insert
    new-lines), the line iterator it returns is the division into lines of the substituted text. *)
Definition no_nl (t : text) : bool := forallb (fun c => negb (N.eqb c NL)) t.

Lemma no_nl_app : forall a b, no_nl (a ++ b) = no_nl a && no_nl b.
Proof. intros. apply forallb_app. Qed.

Lemma full_line_of_no_nl : forall seg, no_nl seg = true -> is_full_line (seg ++ [NL]) = true.
Proof.
  induction seg as [|c seg IH]; intros H; [reflexivity|].
  cbn in H. apply andb_true_iff in H as [Hc Hs]. apply negb_true_iff in Hc.
  cbn [app]. apply is_full_line_cons; [exact Hc | now apply IH].
Qed.

Lemma rep_feed_spec : forall s seg ys seg' rest, no_nl seg = true -> rep_feed seg s = (ys, seg') ->
  no_nl seg' = true /\ lines_lf (seg ++ s ++ rest) = ys ++ lines_lf (seg' ++ rest).
Proof.
  induction s as [|c s IH]; intros seg ys seg' rest Hs E; cbn [rep_feed] in E.
  - injection E as <- <-. split; [exact Hs | reflexivity].
  - destruct (c =? NL) eqn:Ec.
    + destruct (rep_feed [] s) as [ys0 r0] eqn:E0. injection E as <- <-.
      destruct (IH [] ys0 r0 rest eq_refl E0) as [H1 H2]. split; [exact H1|].
      apply N.eqb_eq in Ec. subst c.
      change (seg ++ (NL :: s) ++ rest) with (seg ++ [NL] ++ (s ++ rest)). rewrite app_assoc.
      rewrite lines_lf_app_full by (now apply full_line_of_no_nl). cbn [app] in H2. rewrite H2. reflexivity.
    + assert (Hs' : no_nl (seg ++ [c]) = true).
      { rewrite no_nl_app, Hs. cbn. now rewrite Ec. }
      destruct (IH (seg ++ [c]) ys seg' rest Hs' E) as [H1 H2]. split; [exact H1|].
      rewrite <- H2. rewrite <- app_assoc. reflexivity.
Qed.

Lemma replace_lines_spec : forall sub ls seg, no_nl seg = true ->
  replace_lines sub seg ls = lines_lf (seg ++ concat (map sub ls)).
Proof.
  intros sub. induction ls as [|l ls IH]; intros seg Hs; cbn [replace_lines map concat].
  - rewrite app_nil_r. destruct seg as [|c seg]; [reflexivity|]. symmetry. apply lines_lf_partial. exact Hs.
  - destruct (rep_feed seg (sub l)) as [ys seg'] eqn:E.
    destruct (rep_feed_spec (sub l) seg ys seg' (concat (map sub ls)) Hs E) as [H1 H2].
    rewrite H2. f_equal. now apply IH.
Qed.

Theorem lf_replace_spec : forall sub ls, lf_replace sub ls = lines_lf (concat (map sub ls)).
Proof. intros. unfold lf_replace. now rewrite replace_lines_spec. Qed.

(** a substitution is admitted when it maps admitted strings to admitted strings *)
Definition sub_ok (sub : text -> text) : Prop := forall l, text_ok l = true -> text_ok (sub l) = true.

Lemma lf_ok_replace : forall sub, sub_ok sub -> lf_ok (lf_replace sub).
Proof.
  intros sub Hs ls [_ H]. rewrite lf_replace_spec. apply good_lines_of_text.
  rewrite text_ok_concat, forallb_map'. rewrite forallb_forall in *. intros l Hl. apply Hs, H, Hl.
Qed.

Lemma subst_go_forallb : forall (P : char -> bool) pat rep, forallb P rep = true ->
  forall s skip, forallb P s = true -> forallb P (subst_go pat rep skip s) = true.
Proof.
  intros P pat rep Hr. induction s as [|c s IH]; intros skip H; [reflexivity|].
  cbn in H. apply andb_true_iff in H as [Hc Hs]. cbn [subst_go]. destruct skip as [|k]; [|now apply IH].
  destruct (is_prefix pat (c :: s)).
  - rewrite forallb_app, Hr. now apply IH.
  - cbn. rewrite Hc. now apply IH.
Qed.

Lemma sub_ok_subst : forall pat rep, text_ok rep = true -> sub_ok (subst pat rep).
Proof.
  intros pat rep Hr l Hl. unfold text_ok, no_exotic_breaks, valid_text in *.
  apply andb_true_iff in Hr as [R1 R2]. apply andb_true_iff in Hl as [L1 L2].
  unfold subst. rewrite !subst_go_forallb; auto.
Qed.

Lemma forallb_removelast : forall (P : char -> bool) l, forallb P l = true -> forallb P (removelast l) = true.
Proof.
  intros P. induction l as [|c l IH]; intros H; [reflexivity|]. cbn in H. apply andb_true_iff in H as [Hc Hl].
  destruct l as [|d l]; [reflexivity|]. change (removelast (c :: d :: l)) with (c :: removelast (d :: l)).
  cbn [forallb]. rewrite Hc. now apply IH.
Qed.

Lemma sub_ok_preserving_nl : forall sub, sub_ok sub -> sub_ok (sub_preserving_nl sub).
Proof.
  intros sub Hs l Hl. unfold sub_preserving_nl. destruct (N.eqb (last l 0) NL); [|now apply Hs].
  rewrite text_ok_app. rewrite Hs; [reflexivity|].
  unfold text_ok, no_exotic_breaks, valid_text in *. apply andb_true_iff in Hl as [L1 L2].
  now rewrite !forallb_removelast.
Qed.

(** ** Expressions of the modelled surface language, SOURCE [-transformed-by T], satisfy the guard
    as soon as their texts and external programs do. *)
Definition atom_ok (a : tatom) : Prop :=
  match a with TRun g => g_ok g | TReplace sub => sub_ok sub | TStrip v => lf_ok (lf_strip_of v) | _ => True end.
Definition trans_ok (t : trans) : Prop :=
  match t with TAtom a => atom_ok a | TSeq l => Forall atom_ok l | TChain c => Forall atom_ok (chain_atoms c) end.
Definition otrans_ok (t : option trans) : Prop := match t with Some t => trans_ok t | None => True end.

Lemma transform_atom_guard : forall a x, atom_ok a -> fresh x -> lfs_ok x ->
  fresh (transform_atom a x) /\ lfs_ok (transform_atom a x) /\ leaves_ok (transform_atom a x) = leaves_ok x.
Proof.
  intros a x A F K. destruct a; cbn [transform_atom fresh lfs_ok leaves_ok].
  - split; [auto|]. split; [|reflexivity]. split; [apply lf_ok_identity | exact K].
  - split; [auto|]. split; [|reflexivity]. split; [apply lf_ok_upper | exact K].
  - split; [auto|]. split; [|reflexivity]. split; [apply lf_ok_filter | exact K].
  - split; [auto|]. split; [|reflexivity]. split; [exact A | exact K].
  - split; [auto|]. split; [|reflexivity]. split; [now apply lf_ok_replace | exact K].
  - split; [auto|]. split; [|reflexivity]. split; [exact A | exact K].
Qed.

Lemma fold_atoms_guard : forall l x, Forall atom_ok l -> fresh x -> lfs_ok x ->
  fresh (fold_left (fun m a => transform_atom a m) l x) /\ lfs_ok (fold_left (fun m a => transform_atom a m) l x) /\
  leaves_ok (fold_left (fun m a => transform_atom a m) l x) = leaves_ok x.
Proof.
  induction l as [|a l IH]; intros x A F K; cbn [fold_left]; [auto|].
  inversion A as [|? ? A1 A2]; subst.
  destruct (transform_atom_guard a x A1 F K) as [F' [K' L']]. destruct (IH _ A2 F' K') as [F2 [K2 L2]].
  repeat split; auto. congruence.
Qed.

Lemma Forall_filter : forall {A} (P : A -> Prop) (f : A -> bool) l, Forall P l -> Forall P (filter f l).
Proof.
  intros A P f l H. induction H as [|x l Hx Hl IH]; cbn; [constructor|]. destruct (f x); [constructor; assumption | assumption].
Qed.

(** a tree of chains applies its atoms in order *)
Lemma fold_left_flat_map : forall {A B C} (f : C -> B -> C) (h : A -> list B) (l : list A) (x : C),
  fold_left f (flat_map h l) x = fold_left (fun m a => fold_left f (h a) m) l x.
Proof. intros A B C f h. induction l as [|a l IH]; intros x; cbn; [reflexivity|]. now rewrite fold_left_app, IH. Qed.

Lemma fold_left_ext_in : forall {A C} (f g : C -> A -> C) (l : list A), Forall (fun a => forall m, f m a = g m a) l ->
  forall x, fold_left f l x = fold_left g l x.
Proof. intros A C f g l H. induction H as [|a l Ha Hl IH]; intros x; cbn; [reflexivity|]. now rewrite Ha, IH. Qed.

Fixpoint tchain_ind2 (P : tchain -> Prop) (HA : forall a, P (CAtom a)) (HS : forall l, Forall P l -> P (CSeq l)) (c : tchain) : P c :=
  match c with
  | CAtom a => HA a
  | CSeq l => HS l ((fix go (l : list tchain) : Forall P l :=
                       match l with [] => Forall_nil P | c' :: l' => Forall_cons c' (tchain_ind2 P HA HS c') (go l') end) l)
  end.

Lemma chain_transform_atoms : forall c x, chain_transform c x = fold_left (fun m a => transform_atom a m) (chain_atoms c) x.
Proof.
  induction c as [a|l IH] using tchain_ind2; intros x; [reflexivity|].
  cbn [chain_transform chain_atoms]. rewrite fold_left_flat_map. apply fold_left_ext_in.
  eapply Forall_impl; [|exact IH]. intros c' Hc m. cbn beta. destruct (chain_is_identity c'); [reflexivity | apply Hc].
Qed.

Lemma transform_guard : forall t x, trans_ok t -> fresh x -> lfs_ok x ->
  fresh (transform t x) /\ lfs_ok (transform t x) /\ leaves_ok (transform t x) = leaves_ok x.
Proof.
  intros t x A F K. destruct t as [a|l|c]; cbn [transform trans_ok] in *.
  - now apply transform_atom_guard.
  - apply fold_atoms_guard; [now apply Forall_filter | exact F | exact K].
  - rewrite chain_transform_atoms. now apply fold_atoms_guard.
Qed.

Lemma build_guard : forall base t, otrans_ok t -> fresh base -> lfs_ok base ->
  fresh (build base t) /\ lfs_ok (build base t) /\ leaves_ok (build base t) = leaves_ok base.
Proof.
  intros base t A F K. destruct t as [t|]; cbn [build]; [now apply transform_guard | tauto].
Qed.

(** ** The observations are exactly the ideal ones: in particular they do not depend on the buffer size *)
Definition ideal (t : text) (a : access) : obs :=
  match a with
  | AStr => OStr t
  | ALines => OLines (lines_lf t)
  | AFile => OFile (FText t)
  | ADep => ODep false
  | AFreeze => OFrozen
  | AWrite => OWritten (FText t)
  end.
(** the dependency hint is not part of the text *)
Definition strip_dep (o : obs) : obs := match o with ODep _ => ODep false | _ => o end.

Lemma step_exact : forall b a x, Inv x ->
  exists o x', step b a x = (o, x') /\ strip_dep o = ideal (den x) a /\ Inv x' /\ skel_eq x x'.
Proof.
  intros b a x H. destruct a; cbn [step ideal].
  - destruct (s_str_ok b x H) as [x' [E [I S]]]. rewrite E. exists (OStr (den x)), x'. auto.
  - destruct (s_lines_ok b x H) as [x' [E [I S]]]. rewrite E. exists (OLines (lines_lf (den x))), x'. auto.
  - destruct (s_file_ok b x H) as [x' [E [I S]]]. rewrite E. exists (OFile (FText (den x))), x'. auto.
  - destruct (s_dep_ok b x H) as [d [x' [E [I S]]]]. rewrite E. exists (ODep d), x'. auto.
  - destruct (s_freeze_ok x H) as [I S]. exists OFrozen, (s_freeze x). auto.
  - destruct (s_write_ok b x H) as [evs [x' [E [I [S T]]]]]. rewrite E. cbn [option_map oobs].
    rewrite file_of_events_text, T. exists (OWritten (FText (den x))), x'. auto.
Qed.

Lemma run_exact : forall b accs x, Inv x -> map strip_dep (fst (run b accs x)) = map (ideal (den x)) accs.
Proof.
  intros b. induction accs as [|a accs IH]; intros x H; cbn [run]; [reflexivity|].
  destruct (step_exact b a x H) as [o [x' [E [O [I S]]]]]. rewrite E.
  pose proof (IH x' I) as R. destruct (run b accs x') as [os x'']. cbn [fst map] in *.
  rewrite O, R, (skel_eq_den _ _ S). reflexivity.
Qed.

Theorem buffer_size_irrelevant : forall x accs b1 b2,
  fresh x -> leaves_ok x = true -> lfs_ok x ->
  map strip_dep (fst (run b1 accs x)) = map strip_dep (fst (run b2 accs x)).
Proof. intros x accs b1 b2 F L K. pose proof (fresh_inv x F L K) as I. now rewrite !run_exact. Qed.
