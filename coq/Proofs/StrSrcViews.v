(** C14: every view of a source shows the text the source denotes (under the guard). *)
From Coq Require Import NArith List Bool Lia ZifyBool.
From Exactly Require Import Lib.Text Lib.TextLemmas Model.StrSrc Spec.C14 Proofs.Utf8 Proofs.StrSrcSpool.
Import ListNotations.
Local Open Scope N_scope.

(** ** Texts and line sequences the guard admits *)
(** no [str.splitlines] boundary other than "\n"; only Unicode scalar values *)
Definition text_ok (t : text) : bool := no_exotic_breaks t && valid_text t.

Definition good_lines (ls : list text) : Prop := wf_lines ls = true /\ forallb text_ok ls = true.

(** A line transformation is admitted when it maps well-formed sequences of admitted lines to
    such sequences (identity, filters, case conversion of ASCII letters ... see the instances at
    the end of this file). *)
Definition lf_ok (f : lfun) : Prop := forall ls, good_lines ls -> good_lines (f ls).

Lemma text_ok_app : forall a b, text_ok (a ++ b) = text_ok a && text_ok b.
Proof.
  intros. unfold text_ok. rewrite no_exotic_app, valid_text_app.
  destruct (no_exotic_breaks a), (no_exotic_breaks b), (valid_text a), (valid_text b); reflexivity.
Qed.

Lemma text_ok_concat : forall ls, text_ok (concat ls) = forallb text_ok ls.
Proof. induction ls as [|l ls IH]; [reflexivity|]. cbn [concat forallb]. now rewrite text_ok_app, IH. Qed.

Lemma good_lines_of_text : forall t, text_ok t = true -> good_lines (lines_lf t).
Proof.
  intros t H. split; [apply wf_lines_lines_lf|]. rewrite <- text_ok_concat, concat_lines_lf. exact H.
Qed.

Lemma good_lines_concat_ok : forall ls, good_lines ls -> text_ok (concat ls) = true.
Proof. intros ls [_ H]. now rewrite text_ok_concat. Qed.

Lemma good_lines_canonical : forall ls, good_lines ls -> lines_lf (concat ls) = ls.
Proof. intros ls [H _]. now apply lines_lf_concat. Qed.

Lemma text_ok_clean : forall t, text_ok t = true -> no_exotic_breaks t = true.
Proof. intros t H. apply andb_true_iff in H. tauto. Qed.

Lemma text_ok_valid : forall t, text_ok t = true -> valid_text t = true.
Proof. intros t H. apply andb_true_iff in H. tauto. Qed.

Lemma read_text_ok : forall t, text_ok t = true -> read_text t = t.
Proof. intros t H. apply universal_nl_clean. now apply text_ok_clean. Qed.

Lemma str_lines_ok : forall t, text_ok t = true -> str_lines t = lines_lf t.
Proof. intros t H. apply splitlines_eq_lines_lf. now apply text_ok_clean. Qed.

Lemma file_lines_ok : forall t, text_ok t = true -> file_lines t = lines_lf t.
Proof. intros t H. unfold file_lines. now rewrite read_text_ok. Qed.

(** An external program is admitted when it maps admitted texts to admitted texts. *)
Definition g_ok (g : raw -> raw) : Prop := forall r, text_ok r = true -> text_ok (g r) = true.

(** ** Same expression, possibly different state *)
Fixpoint skel_eq (x y : src) : Prop :=
  match x, y with
  | SStr s, SStr s' => s = s'
  | SFile r, SFile r' => r = r'
  | SProg o _, SProg o' _ => o = o'
  | SLines f d _ _ u, SLines f' d' _ _ u' => f = f' /\ d = d' /\ skel_eq u u'
  | SFilter f _ u, SFilter f' _ u' => f = f' /\ skel_eq u u'
  | SRun g _ u, SRun g' _ u' => g = g' /\ skel_eq u u'
  | SConcat _ p q, SConcat _ p' q' => skel_eq p p' /\ skel_eq q q'
  | _, _ => False
  end.

Lemma skel_eq_refl : forall x, skel_eq x x.
Proof. induction x; cbn; auto. Qed.

Lemma skel_eq_trans : forall x y z, skel_eq x y -> skel_eq y z -> skel_eq x z.
Proof.
  induction x; destruct y; cbn; try contradiction; destruct z; cbn; try contradiction; intros; subst; auto.
  - destruct H as [-> [-> H]]. destruct H0 as [-> [-> H0]]. repeat split. eapply IHx; eassumption.
  - destruct H as [-> H]. destruct H0 as [-> H0]. split; [reflexivity|]. eapply IHx; eassumption.
  - destruct H as [-> H]. destruct H0 as [-> H0]. split; [reflexivity|]. eapply IHx; eassumption.
  - destruct H as [H1 H2]. destruct H0 as [H3 H4]. split; [eapply IHx1 | eapply IHx2]; eassumption.
Qed.

Lemma skel_eq_den : forall x y, skel_eq x y -> den y = den x.
Proof.
  induction x; destruct y; cbn; try contradiction; intros H; subst; auto.
  - destruct H as [-> [-> H]]. now rewrite (IHx _ H).
  - destruct H as [-> H]. now rewrite (IHx _ H).
  - destruct H as [-> H]. now rewrite (IHx _ H).
  - destruct H as [H1 H2]. now rewrite (IHx1 _ H1), (IHx2 _ H2).
Qed.

(** a source none of whose unfrozen [write_to]s lets a child process write to the descriptor *)
Fixpoint fd_free (x : src) : bool :=
  match x with
  | SProg _ _ | SRun _ _ _ => false
  | SConcat _ p q => fd_free p && fd_free q
  | _ => true
  end.

Lemma skel_eq_fd_free : forall x y, skel_eq x y -> fd_free y = fd_free x.
Proof.
  induction x; destruct y; cbn; try contradiction; intros H; auto.
  destruct H as [H1 H2]. now rewrite (IHx1 _ H1), (IHx2 _ H2).
Qed.

(** ** The state invariant *)
Definition cs_ok (t : text) (st : cstate) : Prop :=
  (c_path st = None \/ c_path st = Some t) /\
  (c_fz st = None \/ exists z, c_fz st = Some z /\ good_fz t z).

Fixpoint Inv (x : src) : Prop :=
  match x with
  | SStr s => text_ok s = true
  | SFile r => text_ok r = true
  | SProg out st => text_ok out = true /\ cs_ok out st
  | SLines f dep path isfz u =>
      Inv u /\ lf_ok f /\ (path = None \/ path = Some (concat (f (lines_lf (den u)))))
  | SFilter f st u => Inv u /\ lf_ok f /\ cs_ok (concat (f (lines_lf (den u)))) st
  | SRun g st u => Inv u /\ g_ok g /\ cs_ok (g (den u)) st
  | SConcat st p q => Inv p /\ Inv q /\ fd_free p = true /\ fd_free q = true /\ cs_ok (den p ++ den q) st
  end.

Lemma inv_den_ok : forall x, Inv x -> text_ok (den x) = true.
Proof.
  induction x; cbn [Inv den]; intros H.
  - exact H.
  - now rewrite read_text_ok.
  - destruct H as [H _]. now rewrite read_text_ok.
  - destruct H as [Hu [Hf _]]. apply good_lines_concat_ok, Hf, good_lines_of_text, IHx, Hu.
  - destruct H as [Hu [Hf _]]. apply good_lines_concat_ok, Hf, good_lines_of_text, IHx, Hu.
  - destruct H as [Hu [Hg _]]. pose proof (Hg _ (IHx Hu)) as G. now rewrite read_text_ok.
  - destruct H as [Hp [Hq _]]. rewrite text_ok_app, IHx1, IHx2; auto.
Qed.

Lemma den_run : forall g u, Inv u -> g_ok g -> read_text (g (den u)) = g (den u).
Proof. intros g u Hu Hg. apply read_text_ok, Hg, inv_den_ok, Hu. Qed.

Lemma den_lines_canonical : forall f u, Inv u -> lf_ok f ->
  f (lines_lf (den u)) = lines_lf (concat (f (lines_lf (den u)))).
Proof.
  intros f u Hu Hf. symmetry. apply good_lines_canonical, Hf, good_lines_of_text, inv_den_ok, Hu.
Qed.

(** ** Views of a good frozen representation *)
Lemma good_fz_views : forall t z, text_ok t = true -> good_fz t z ->
  fz_lines z = Some (lines_lf t) /\ fz_str z = Some t /\ fz_file z = Some (FText t) /\
  (exists d, fz_dep z = Some d) /\
  (exists e, fz_write z = Some [e] /\ wev_text e = t /\ is_fd e = false).
Proof.
  intros t z Ht [ -> | [ -> | -> ] ]; cbn [fz_lines fz_str fz_file fz_dep fz_write].
  - rewrite str_lines_ok by exact Ht. rewrite file_of_events_single. cbn [wev_text]. unfold write_text.
    split; [reflexivity|]. split; [reflexivity|]. split; [reflexivity|]. split; [eauto|].
    exists (WStr t). split; [reflexivity|]. split; reflexivity.
  - rewrite file_lines_ok, read_text_ok by exact Ht.
    split; [reflexivity|]. split; [reflexivity|]. split; [reflexivity|]. split; [eauto|].
    exists (WLines (lines_lf t)). cbn [wev_text is_fd]. unfold write_text. rewrite concat_lines_lf.
    split; [reflexivity|]. split; reflexivity.
  - rewrite str_lines_ok by exact Ht.
    split; [reflexivity|]. split; [reflexivity|]. split; [reflexivity|]. split; [eauto|].
    exists (WStr t). split; [reflexivity|]. split; reflexivity.
Qed.

Lemma cs_ok_set_path : forall t st, cs_ok t st -> cs_ok t (cs_set_path st t).
Proof. intros t st [_ H]. split; [right; reflexivity | exact H]. Qed.

Lemma cs_ok_freeze : forall t st, cs_ok t st -> cs_ok t (cs_freeze st).
Proof. intros t st H. unfold cs_freeze. destruct (c_isfz st); exact H. Qed.

Lemma cs_ok_cs0 : forall t, cs_ok t cs0.
Proof. intros. split; left; reflexivity. Qed.

(** Looking at a frozen node through its frozen contents, materialised from events that write [t]. *)
Lemma via_frozen_ok : forall {A} b t st evs (view : frozen -> option A) (v : A),
  text_ok t = true -> cs_ok t st -> text_of evs = t ->
  (forall z, good_fz t z -> view z = Some v) ->
  exists st', via_frozen b st (Some evs) view = (Some v, st') /\ cs_ok t st'.
Proof.
  intros A b t st evs view v Ht [Hp Hz] Et Hv. unfold via_frozen, cached_get.
  destruct Hz as [Hz|[z0 [Hz G0]]]; rewrite Hz.
  - destruct (frozen_from_events b evs) as [z [Ez Gz]].
    + rewrite Et. now apply text_ok_valid.
    + rewrite Et. now apply read_text_ok.
    + rewrite Ez. rewrite Et in Gz. cbn [obind]. rewrite (Hv z Gz). exists (cs_set_fz st z). split; [reflexivity|].
      split; [exact Hp | right; exists z; split; [reflexivity | exact Gz]].
  - cbn [obind]. rewrite (Hv z0 G0). exists st. split; [reflexivity|]. split; [exact Hp | right; eauto].
Qed.

(** the same when the frozen contents may already be there ([c_fz = Some z] is looked at directly) *)
Lemma frozen_known : forall t st z, cs_ok t st -> c_fz st = Some z -> good_fz t z.
Proof. intros t st z [_ [H|[z0 [H G]]]] E; rewrite E in H; [discriminate | now injection H as ->]. Qed.

Lemma text_of_fd : forall r, text_of [WFd r] = r.
Proof. intros. unfold text_of. cbn. apply app_nil_r. Qed.

Lemma text_of_lines : forall ls, text_of [WLines ls] = concat ls.
Proof. intros. unfold text_of, write_text. cbn. apply app_nil_r. Qed.

Lemma text_of_str : forall s, text_of [WStr s] = s.
Proof. intros. unfold text_of, write_text. cbn. apply app_nil_r. Qed.

Lemma file_of_fd : forall r, file_of_events [WFd r] = r.
Proof. intros. now rewrite file_of_events_single. Qed.

Lemma file_of_lines : forall ls, file_of_events [WLines ls] = concat ls.
Proof. intros. now rewrite file_of_events_single. Qed.

Lemma file_of_str : forall s, file_of_events [WStr s] = s.
Proof. intros. now rewrite file_of_events_single. Qed.

Lemma text_of_prog_write : forall out st, text_ok out = true -> cs_ok out st -> text_of (prog_write out st) = out.
Proof.
  intros out st Ho [[Hp|Hp] _]; unfold prog_write; rewrite Hp.
  - apply text_of_fd.
  - rewrite text_of_lines. unfold file_lines. rewrite concat_lines_lf. now apply read_text_ok.
Qed.

(** ** concat._lines_iter on well-formed line sequences *)
Lemma full_is_nl_ended : forall l, is_full_line l = true -> is_nl_ended l = true.
Proof.
  unfold is_nl_ended. induction l as [|c l IH]; intros H; [discriminate|]. destruct l as [|d l].
  - cbn in *. exact H.
  - change (is_full_line (c :: d :: l)) with (negb (N.eqb c NL) && is_full_line (d :: l)) in H.
    apply andb_true_iff in H as [_ H]. change (last (c :: d :: l) 0) with (last (d :: l) 0). now apply IH.
Qed.

Lemma partial_not_nl_ended : forall l, is_partial_line l = true -> is_nl_ended l = false.
Proof.
  unfold is_nl_ended. induction l as [|c l IH]; intros H; [discriminate|]. destruct l as [|d l].
  - cbn in *. rewrite andb_true_r in H. now apply negb_true_iff.
  - cbn [is_partial_line forallb] in H. apply andb_true_iff in H as [_ H].
    change (last (c :: d :: l) 0) with (last (d :: l) 0). apply IH. exact H.
Qed.

Lemma full_app_partial : forall p l, is_partial_line p = true -> is_full_line l = true -> is_full_line (p ++ l) = true.
Proof.
  induction p as [|c p IH]; intros l Hp Hl; [discriminate|].
  cbn [is_partial_line forallb] in Hp. apply andb_true_iff in Hp as [Hc Hp]. apply negb_true_iff in Hc.
  cbn [app]. apply is_full_line_cons; [exact Hc|]. destruct p as [|d p]; [exact Hl|]. apply IH; [exact Hp | exact Hl].
Qed.

Lemma partial_app_partial : forall p l, is_partial_line p = true -> is_partial_line l = true -> is_partial_line (p ++ l) = true.
Proof.
  intros p l Hp Hl. destruct p as [|c p]; [discriminate|]. destruct l as [|d l]; [discriminate|].
  cbn [is_partial_line] in *. cbn [app]. change (c :: p ++ d :: l) with ((c :: p) ++ (d :: l)).
  rewrite forallb_app, Hp, Hl. reflexivity.
Qed.

(** the non-first lines of a non-last part *)
Lemma concat_rest_wf : forall ls lst, wf_lines ls = true ->
  (concat_rest ls lst = (ls, lst) /\ Forall (fun l => is_full_line l = true) ls) \/
  (exists ys p, ls = ys ++ [p] /\ is_partial_line p = true /\ Forall (fun l => is_full_line l = true) ys /\
                concat_rest ls lst = (ys, Some p)).
Proof.
  induction ls as [|l ls IH]; intros lst H.
  - left. split; [reflexivity | constructor].
  - destruct ls as [|l2 ls].
    + cbn [wf_lines] in H. apply orb_true_iff in H as [H|H].
      * left. cbn [concat_rest]. rewrite (full_is_nl_ended l H). split; [reflexivity | repeat constructor; exact H].
      * right. exists [], l. cbn [concat_rest app]. rewrite (partial_not_nl_ended l H). repeat split; auto.
    + change (wf_lines (l :: l2 :: ls)) with (is_full_line l && wf_lines (l2 :: ls)) in H.
      apply andb_true_iff in H as [Hl H]. cbn [concat_rest]. rewrite (full_is_nl_ended l Hl).
      destruct (IH lst H) as [[E F]|[ys [p [E [Hp [F E2]]]]]].
      * left. rewrite E. split; [reflexivity | constructor; assumption].
      * right. exists (l :: ys), p. rewrite E2. rewrite E. repeat split; auto.
Qed.

Lemma lines_lf_full_prefix : forall ys t, Forall (fun l => is_full_line l = true) ys ->
  lines_lf (concat ys ++ t) = ys ++ lines_lf t.
Proof.
  induction ys as [|y ys IH]; intros t H; [reflexivity|]. inversion H as [|? ? Hy Hys]; subst.
  cbn [concat]. rewrite <- app_assoc. rewrite lines_lf_app_full by exact Hy. cbn [app]. f_equal. now apply IH.
Qed.

Lemma wf_lines_glue : forall p l ls, is_partial_line p = true -> wf_lines (l :: ls) = true -> wf_lines ((p ++ l) :: ls) = true.
Proof.
  intros p l ls Hp H. destruct ls as [|l2 ls].
  - cbn [wf_lines] in *. apply orb_true_iff in H as [H|H]; apply orb_true_iff.
    + left. now apply full_app_partial.
    + right. now apply partial_app_partial.
  - change (wf_lines (l :: l2 :: ls)) with (is_full_line l && wf_lines (l2 :: ls)) in H.
    apply andb_true_iff in H as [H1 H2].
    change (wf_lines ((p ++ l) :: l2 :: ls)) with (is_full_line (p ++ l) && wf_lines (l2 :: ls)).
    now rewrite full_app_partial, H2.
Qed.

Lemma concat_lines2_ok : forall l1 l2, wf_lines l1 = true -> wf_lines l2 = true ->
  concat_lines2 l1 l2 = lines_lf (concat l1 ++ concat l2).
Proof.
  intros l1 l2 H1 H2. unfold concat_lines2.
  assert (Tail : forall p, is_partial_line p = true -> concat_last l2 (Some p) = lines_lf (p ++ concat l2)).
  { intros p Hp. destruct l2 as [|f2 r2]; cbn [concat_last glue concat].
    - rewrite app_nil_r. symmetry. now apply lines_lf_partial.
    - rewrite app_assoc. change ((p ++ f2) ++ concat r2) with (concat ((p ++ f2) :: r2)).
      symmetry. apply lines_lf_concat. now apply wf_lines_glue. }
  assert (Tail0 : concat_last l2 None = lines_lf (concat l2)).
  { rewrite lines_lf_concat by exact H2. destruct l2; reflexivity. }
  destruct l1 as [|f1 r1].
  - cbn [concat_nonlast concat app]. exact Tail0.
  - cbn [concat_nonlast glue]. destruct r1 as [|l r1'].
    + (* a single line: full, or partial *)
      cbn [wf_lines] in H1. cbn [concat]. rewrite app_nil_r. apply orb_true_iff in H1 as [Hf|Hp].
      * rewrite (full_is_nl_ended f1 Hf). cbn [concat_rest app]. rewrite Tail0.
        rewrite lines_lf_app_full by exact Hf. reflexivity.
      * rewrite (partial_not_nl_ended f1 Hp). cbn [concat_rest app]. now apply Tail.
    + change (wf_lines (f1 :: l :: r1')) with (is_full_line f1 && wf_lines (l :: r1')) in H1.
      apply andb_true_iff in H1 as [Hf Hr]. rewrite (full_is_nl_ended f1 Hf).
      destruct (concat_rest_wf (l :: r1') None Hr) as [[E F]|[ys [p [E [Hp [F E2]]]]]].
      * rewrite E. rewrite Tail0. cbn [concat]. rewrite <- app_assoc. rewrite lines_lf_app_full by exact Hf.
        cbn [app]. f_equal. rewrite lines_lf_full_prefix by exact F. reflexivity.
      * rewrite E2. rewrite (Tail p Hp). cbn [concat]. rewrite <- app_assoc. rewrite lines_lf_app_full by exact Hf.
        cbn [app]. f_equal. rewrite E. rewrite concat_app. cbn [concat]. rewrite app_nil_r, <- app_assoc.
        rewrite lines_lf_full_prefix by exact F. reflexivity.
Qed.

(** ** The views *)
Definition lines_spec (b : N) (x : src) : Prop :=
  exists x', s_lines b x = (Some (lines_lf (den x)), x') /\ Inv x' /\ skel_eq x x'.
Definition file_spec (b : N) (x : src) : Prop :=
  exists x', s_file b x = (Some (FText (den x)), x') /\ Inv x' /\ skel_eq x x'.
Definition write_spec (b : N) (x : src) : Prop :=
  exists evs x', s_write b x = (Some evs, x') /\ Inv x' /\ skel_eq x x' /\ text_of evs = den x /\
                 (fd_free x = true -> no_fd evs = true).

Local Ltac fin := split; [reflexivity | split; [cbn [Inv]; auto | cbn [skel_eq]; auto using skel_eq_refl]].

(** what a node needs from its frozen side, for any view *)
Local Ltac frozen_view Ht Hs V :=
  match goal with
  | |- context [via_frozen ?b ?st (Some ?evs) ?view] =>
      let st' := fresh "st'" in let E := fresh "E" in let Hs' := fresh "Hs'" in
      destruct (via_frozen_ok b _ st evs view _ Ht Hs V) as [st' [E Hs']]
  end.

Lemma views_ok : forall b x, Inv x -> lines_spec b x /\ file_spec b x /\ write_spec b x.
Proof.
  intros b. unfold lines_spec, file_spec, write_spec.
  induction x as [s|r|out st|f dep path isfz u IH|f st u IH|g st u IH|st p IHp q IHq]; cbn [Inv]; intros H.
  - (* SStr *)
    split; [|split].
    + exists (SStr s). cbn [s_lines den]. rewrite str_lines_ok by exact H. fin.
    + exists (SStr s). cbn [s_file den]. rewrite file_of_str. fin.
    + exists [WStr s], (SStr s). cbn [s_write den]. rewrite text_of_str. repeat split; auto.
  - (* SFile *)
    split; [|split].
    + exists (SFile r). cbn [s_lines den]. fin.
    + exists (SFile r). cbn [s_file den]. rewrite (read_text_ok r H). fin.
    + exists [WLines (file_lines r)], (SFile r). cbn [s_write den]. rewrite text_of_lines.
      unfold file_lines. rewrite concat_lines_lf. repeat split; auto.
  - (* SProg *)
    destruct H as [Ho Hs]. cbn [s_lines s_file s_write den fd_free]. rewrite (read_text_ok out Ho).
    pose proof (text_of_prog_write out st Ho Hs) as Ew.
    destruct (c_isfz st) eqn:Ef.
    + split; [|split].
      * destruct (via_frozen_ok b out st (prog_write out st) fz_lines (lines_lf out) Ho Hs Ew) as [st' [E Hs']].
        { intros z G. apply (good_fz_views out z Ho G). }
        rewrite E. exists (SProg out st'). fin.
      * destruct (via_frozen_ok b out st (prog_write out st) fz_file (FText out) Ho Hs Ew) as [st' [E Hs']].
        { intros z G. apply (good_fz_views out z Ho G). }
        rewrite E. exists (SProg out st'). fin.
      * pose proof Hs as [Hp [Hz|[z [Hz G]]]].
        -- destruct (frozen_from_events b (prog_write out st)) as [z [Ez Gz]];
             [rewrite Ew; now apply text_ok_valid | rewrite Ew; now apply read_text_ok |].
           rewrite Ew in Gz. destruct (good_fz_views out z Ho Gz) as [_ [_ [_ [_ [e [Vw [Te Fe]]]]]]].
           unfold via_frozen, cached_get. rewrite Hz, Ez. cbn [obind]. rewrite Vw.
           exists [e], (SProg out (cs_set_fz st z)). split; [reflexivity|]. split.
           { cbn [Inv]. split; [exact Ho|]. split; [exact Hp | right; exists z; auto]. }
           split; [reflexivity|]. split; [unfold text_of; cbn; now rewrite app_nil_r | discriminate].
        -- destruct (good_fz_views out z Ho G) as [_ [_ [_ [_ [e [Vw [Te Fe]]]]]]].
           unfold via_frozen, cached_get. rewrite Hz. cbn [obind]. rewrite Vw.
           exists [e], (SProg out st). split; [reflexivity|]. split; [cbn [Inv]; auto|].
           split; [reflexivity|]. split; [unfold text_of; cbn; now rewrite app_nil_r | discriminate].
    + split; [|split].
      * pose proof Hs as [[Hp|Hp] Hz]; rewrite Hp.
        -- rewrite file_of_fd. rewrite file_lines_ok by exact Ho.
           exists (SProg out (cs_set_path st out)). pose proof (cs_ok_set_path out st Hs). fin.
        -- rewrite file_lines_ok by exact Ho. exists (SProg out st). fin.
      * pose proof Hs as [[Hp|Hp] Hz]; rewrite Hp.
        -- rewrite file_of_fd. exists (SProg out (cs_set_path st out)). pose proof (cs_ok_set_path out st Hs). fin.
        -- exists (SProg out st). fin.
      * exists (prog_write out st), (SProg out st). split; [reflexivity|]. split; [cbn [Inv]; auto|].
        split; [reflexivity|]. split; [exact Ew | discriminate].
  - (* SLines *)
    destruct H as [Hu [Hf Hp]]. destruct (IH Hu) as [[u' [E [Iu' Su]]] _].
    cbn [s_lines s_file s_write den fd_free]. rewrite E. cbn [option_map].
    assert (I' : forall path', (path' = None \/ path' = Some (concat (f (lines_lf (den u))))) -> Inv (SLines f dep path' isfz u')).
    { intros path' Hp'. cbn [Inv]. rewrite (skel_eq_den _ _ Su). auto. }
    split; [|split].
    + exists (SLines f dep path isfz u'). rewrite <- den_lines_canonical by assumption.
      split; [reflexivity|]. split; [now apply I' | cbn; auto].
    + destruct Hp as [Hp|Hp]; rewrite Hp.
      * rewrite file_of_lines. exists (SLines f dep (Some (concat (f (lines_lf (den u))))) isfz u').
        split; [reflexivity|]. split; [apply I'; now right | cbn; auto].
      * exists (SLines f dep (Some (concat (f (lines_lf (den u))))) isfz u). fin.
    + exists [WLines (f (lines_lf (den u)))], (SLines f dep path isfz u'). split; [reflexivity|].
      split; [now apply I'|]. split; [cbn; auto|]. split; [apply text_of_lines | reflexivity].
  - (* SFilter *)
    destruct H as [Hu [Hf Hs]]. cbn [s_lines s_file s_write den fd_free].
    set (t := concat (f (lines_lf (den u)))) in *.
    assert (Ht : text_ok t = true) by (apply good_lines_concat_ok, Hf, good_lines_of_text, inv_den_ok, Hu).
    destruct (IH Hu) as [[u' [E [Iu' Su]]] _].
    assert (I' : forall st', cs_ok t st' -> Inv (SFilter f st' u')).
    { intros st' Hs'. cbn [Inv]. rewrite (skel_eq_den _ _ Su). auto. }
    assert (Ew : text_of [WLines (f (lines_lf (den u)))] = t) by apply text_of_lines.
    destruct (c_isfz st) eqn:Ef.
    + destruct (c_fz st) as [z|] eqn:Hz.
      * pose proof (frozen_known t st z Hs Hz) as G.
        destruct (good_fz_views t z Ht G) as [V1 [_ [V3 [_ [e [Vw [Te Fe]]]]]]].
        split; [|split].
        -- rewrite V1. exists (SFilter f st u). fin.
        -- rewrite V3. exists (SFilter f st u). fin.
        -- rewrite Vw. exists [e], (SFilter f st u). split; [reflexivity|]. split; [cbn [Inv]; auto|].
           split; [apply skel_eq_refl|]. split; [unfold text_of; cbn; now rewrite app_nil_r|].
           intros _. cbn. now rewrite Fe.
      * rewrite E. cbn [option_map]. split; [|split].
        -- destruct (via_frozen_ok b t st _ fz_lines (lines_lf t) Ht Hs Ew) as [st' [E2 Hs']].
           { intros z G. apply (good_fz_views t z Ht G). }
           rewrite E2. exists (SFilter f st' u'). split; [reflexivity|]. split; [now apply I' | cbn; auto].
        -- destruct (via_frozen_ok b t st _ fz_file (FText t) Ht Hs Ew) as [st' [E2 Hs']].
           { intros z G. apply (good_fz_views t z Ht G). }
           rewrite E2. exists (SFilter f st' u'). split; [reflexivity|]. split; [now apply I' | cbn; auto].
        -- destruct (frozen_from_events b [WLines (f (lines_lf (den u)))]) as [z [Ez Gz]];
             [rewrite Ew; now apply text_ok_valid | rewrite Ew; now apply read_text_ok |].
           rewrite Ew in Gz. destruct (good_fz_views t z Ht Gz) as [_ [_ [_ [_ [e [Vw [Te Fe]]]]]]].
           unfold via_frozen, cached_get. rewrite Hz, Ez. cbn [obind]. rewrite Vw.
           exists [e], (SFilter f (cs_set_fz st z) u'). split; [reflexivity|]. split.
           { apply I'. destruct Hs as [Hp _]. split; [exact Hp | right; exists z; auto]. }
           split; [cbn; auto|]. split; [unfold text_of; cbn; now rewrite app_nil_r|].
           intros _. cbn. now rewrite Fe.
    + rewrite E. cbn [option_map]. split; [|split].
      * exists (SFilter f st u'). unfold t. rewrite <- den_lines_canonical by assumption.
        split; [reflexivity|]. split; [now apply I' | cbn; auto].
      * pose proof Hs as [[Hp|Hp] Hz]; rewrite Hp.
        -- rewrite file_of_lines. fold t. exists (SFilter f (cs_set_path st t) u'). split; [reflexivity|].
           split; [apply I'; now apply cs_ok_set_path | cbn; auto].
        -- exists (SFilter f st u). fin.
      * exists [WLines (f (lines_lf (den u)))], (SFilter f st u'). split; [reflexivity|].
        split; [now apply I'|]. split; [cbn; auto|]. split; [exact Ew | reflexivity].
  - (* SRun *)
    destruct H as [Hu [Hg Hs]]. cbn [s_lines s_file s_write den fd_free]. rewrite (den_run g u Hu Hg).
    set (t := g (den u)) in *.
    assert (Ht : text_ok t = true) by (apply Hg, inv_den_ok, Hu).
    destruct (IH Hu) as [_ [[u' [E [Iu' Su]]] _]].
    assert (I' : forall st', cs_ok t st' -> Inv (SRun g st' u')).
    { intros st' Hs'. cbn [Inv]. rewrite (skel_eq_den _ _ Su). auto. }
    assert (Ew : text_of [WFd t] = t) by apply text_of_fd.
    assert (Ew2 : text_of [WLines (file_lines t)] = t).
    { rewrite text_of_lines. unfold file_lines. rewrite concat_lines_lf. now apply read_text_ok. }
    destruct (c_isfz st) eqn:Ef.
    + destruct (c_fz st) as [z|] eqn:Hz.
      * pose proof (frozen_known t st z Hs Hz) as G.
        destruct (good_fz_views t z Ht G) as [V1 [_ [V3 [_ [e [Vw [Te Fe]]]]]]].
        split; [|split].
        -- rewrite V1. exists (SRun g st u). fin.
        -- rewrite V3. exists (SRun g st u). fin.
        -- rewrite Vw. exists [e], (SRun g st u). split; [reflexivity|]. split; [cbn [Inv]; auto|].
           split; [apply skel_eq_refl|]. split; [unfold text_of; cbn; now rewrite app_nil_r | discriminate].
      * pose proof Hs as [[Hp|Hp] _]; rewrite Hp.
        -- (* no cached file: the program is run on the operand's file *)
           rewrite E. cbn [run_on]. fold t. split; [|split].
           ++ destruct (via_frozen_ok b t st _ fz_lines (lines_lf t) Ht Hs Ew) as [st' [E2 Hs']].
              { intros z G. apply (good_fz_views t z Ht G). }
              rewrite E2. exists (SRun g st' u'). split; [reflexivity|]. split; [now apply I' | cbn; auto].
           ++ destruct (via_frozen_ok b t st _ fz_file (FText t) Ht Hs Ew) as [st' [E2 Hs']].
              { intros z G. apply (good_fz_views t z Ht G). }
              rewrite E2. exists (SRun g st' u'). split; [reflexivity|]. split; [now apply I' | cbn; auto].
           ++ destruct (frozen_from_events b [WFd t]) as [z [Ez Gz]];
                [rewrite Ew; now apply text_ok_valid | rewrite Ew; now apply read_text_ok |].
              rewrite Ew in Gz. destruct (good_fz_views t z Ht Gz) as [_ [_ [_ [_ [e [Vw [Te Fe]]]]]]].
              unfold via_frozen, cached_get. rewrite Hz, Ez. cbn [obind]. rewrite Vw.
              exists [e], (SRun g (cs_set_fz st z) u'). split; [reflexivity|]. split.
              { apply I'. destruct Hs as [Hp' _]. split; [exact Hp' | right; exists z; auto]. }
              split; [cbn; auto|]. split; [unfold text_of; cbn; now rewrite app_nil_r | discriminate].
        -- (* the cached file is copied *)
           split; [|split].
           ++ destruct (via_frozen_ok b t st _ fz_lines (lines_lf t) Ht Hs Ew2) as [st' [E2 Hs']].
              { intros z G. apply (good_fz_views t z Ht G). }
              rewrite E2. exists (SRun g st' u). fin.
           ++ destruct (via_frozen_ok b t st _ fz_file (FText t) Ht Hs Ew2) as [st' [E2 Hs']].
              { intros z G. apply (good_fz_views t z Ht G). }
              rewrite E2. exists (SRun g st' u). fin.
           ++ destruct (frozen_from_events b [WLines (file_lines t)]) as [z [Ez Gz]];
                [rewrite Ew2; now apply text_ok_valid | rewrite Ew2; now apply read_text_ok |].
              rewrite Ew2 in Gz. destruct (good_fz_views t z Ht Gz) as [_ [_ [_ [_ [e [Vw [Te Fe]]]]]]].
              unfold via_frozen, cached_get. rewrite Hz, Ez. cbn [obind]. rewrite Vw.
              exists [e], (SRun g (cs_set_fz st z) u). split; [reflexivity|]. split.
              { cbn [Inv]. split; [exact Hu|]. split; [exact Hg|]. destruct Hs as [Hp' _]. split; [exact Hp' | right; exists z; auto]. }
              split; [apply skel_eq_refl|]. split; [unfold text_of; cbn; now rewrite app_nil_r | discriminate].
    + pose proof Hs as [[Hp|Hp] _]; rewrite Hp.
      * rewrite E. cbn [run_on]. fold t. rewrite file_of_fd. split; [|split].
        -- rewrite file_lines_ok by exact Ht. exists (SRun g (cs_set_path st t) u'). split; [reflexivity|].
           split; [apply I'; now apply cs_ok_set_path | cbn; auto].
        -- exists (SRun g (cs_set_path st t) u'). split; [reflexivity|].
           split; [apply I'; now apply cs_ok_set_path | cbn; auto].
        -- exists [WFd t], (SRun g st u'). split; [reflexivity|]. split; [now apply I'|].
           split; [cbn; auto|]. split; [exact Ew | discriminate].
      * split; [|split].
        -- rewrite file_lines_ok by exact Ht. exists (SRun g st u). fin.
        -- exists (SRun g st u). fin.
        -- exists [WLines (file_lines t)], (SRun g st u). split; [reflexivity|]. split; [cbn [Inv]; auto|].
           split; [apply skel_eq_refl|]. split; [exact Ew2 | discriminate].
  - (* SConcat *)
    destruct H as [Hp [Hq [Fp [Fq Hs]]]]. cbn [s_lines s_file s_write den fd_free]. rewrite Fp, Fq. cbn [andb].
    set (t := den p ++ den q) in *.
    assert (Ht : text_ok t = true) by (unfold t; rewrite text_ok_app, (inv_den_ok p Hp), (inv_den_ok q Hq); reflexivity).
    destruct (IHp Hp) as [[p1 [Elp [Ip1 Sp1]]] [_ [wp [p2 [Ewp [Ip2 [Sp2 [Twp Nwp]]]]]]]].
    destruct (IHq Hq) as [[q1 [Elq [Iq1 Sq1]]] [_ [wq [q2 [Ewq [Iq2 [Sq2 [Twq Nwq]]]]]]]].
    assert (I' : forall st' p' q', cs_ok t st' -> Inv p' -> Inv q' -> skel_eq p p' -> skel_eq q q' -> Inv (SConcat st' p' q')).
    { intros st' p' q' Hs' Ip' Iq' Sp' Sq'. cbn [Inv]. rewrite (skel_eq_den _ _ Sp'), (skel_eq_den _ _ Sq').
      rewrite (skel_eq_fd_free _ _ Sp'), (skel_eq_fd_free _ _ Sq'). auto. }
    assert (Ew : text_of (wp ++ wq) = t) by (rewrite text_of_app, Twp, Twq; reflexivity).
    assert (Nw : no_fd (wp ++ wq) = true) by (rewrite no_fd_app, (Nwp Fp), (Nwq Fq); reflexivity).
    destruct (c_isfz st) eqn:Ef.
    + destruct (c_fz st) as [z|] eqn:Hz.
      * pose proof (frozen_known t st z Hs Hz) as G.
        destruct (good_fz_views t z Ht G) as [V1 [_ [V3 [_ [e [Vw [Te Fe]]]]]]].
        split; [|split].
        -- rewrite V1. exists (SConcat st p q). fin.
        -- rewrite V3. exists (SConcat st p q). fin.
        -- rewrite Vw. exists [e], (SConcat st p q). split; [reflexivity|]. split; [cbn [Inv]; auto|].
           split; [apply skel_eq_refl|]. split; [unfold text_of; cbn; now rewrite app_nil_r|].
           intros _. cbn. now rewrite Fe.
      * rewrite Ewp, Ewq. cbn [oapp]. split; [|split].
        -- destruct (via_frozen_ok b t st _ fz_lines (lines_lf t) Ht Hs Ew) as [st' [E2 Hs']].
           { intros z G. apply (good_fz_views t z Ht G). }
           rewrite E2. exists (SConcat st' p2 q2). split; [reflexivity|]. split; [now apply I' | cbn; auto].
        -- destruct (via_frozen_ok b t st _ fz_file (FText t) Ht Hs Ew) as [st' [E2 Hs']].
           { intros z G. apply (good_fz_views t z Ht G). }
           rewrite E2. exists (SConcat st' p2 q2). split; [reflexivity|]. split; [now apply I' | cbn; auto].
        -- destruct (frozen_from_events b (wp ++ wq)) as [z [Ez Gz]];
             [rewrite Ew; now apply text_ok_valid | rewrite Ew; now apply read_text_ok |].
           rewrite Ew in Gz. destruct (good_fz_views t z Ht Gz) as [_ [_ [_ [_ [e [Vw [Te Fe]]]]]]].
           unfold via_frozen, cached_get. rewrite Hz, Ez. cbn [obind]. rewrite Vw.
           exists [e], (SConcat (cs_set_fz st z) p2 q2). split; [reflexivity|]. split.
           { apply I'; auto. destruct Hs as [Hp' _]. split; [exact Hp' | right; exists z; auto]. }
           split; [cbn; auto|]. split; [unfold text_of; cbn; now rewrite app_nil_r|].
           intros _. cbn. now rewrite Fe.
    + split; [|split].
      * rewrite Elp, Elq. cbn [olines2].
        rewrite concat_lines2_ok by apply wf_lines_lines_lf. rewrite !concat_lines_lf. fold t.
        exists (SConcat st p1 q1). split; [reflexivity|]. split; [now apply I' | cbn; auto].
      * pose proof Hs as [[Hpa|Hpa] _]; rewrite Hpa.
        -- rewrite Ewp, Ewq. cbn [oapp]. rewrite file_of_events_no_fd by exact Nw. rewrite Ew.
           exists (SConcat (cs_set_path st t) p2 q2). split; [reflexivity|].
           split; [apply I'; auto; now apply cs_ok_set_path | cbn; auto].
        -- exists (SConcat st p q). fin.
      * rewrite Ewp, Ewq. cbn [oapp]. exists (wp ++ wq), (SConcat st p2 q2). split; [reflexivity|].
        split; [now apply I'|]. split; [cbn; auto|]. split; [exact Ew | intros _; exact Nw].
Qed.
