(** C13 part 2: [filter -line-nums RANGE...] keeps exactly the lines whose number lies in at least
    one of the ranges — partitioning, translation of negative values, and the assembly of the
    single-range and multi-range paths. *)
From Coq Require Import ZArith List Bool Lia ZifyBool.
From Exactly Require Import Model.LineNums Spec.C13b Proofs.LineNumsLists Proofs.LineNumsSingle
  Proofs.LineNumsWalk Proofs.LineNumsMerge.
Import ListNotations.
Local Open Scope Z_scope.

(** ** _Partitioner *)
Definition mb_in (N : Z) (mb : option range) (k : Z) : bool :=
  match mb with Some x => in_range N x k | None => false end.

Lemma in_partitioning_head : forall o n k,
    in_partitioning (Part (head_to o ++ [n]) (segments o) (tail_from o)) k = in_partitioning o k || (k <=? n).
Proof.
  intros. unfold in_partitioning. cbn [head_to segments tail_from]. rewrite existsb_app. cbn [existsb].
  rewrite orb_false_r.
  destruct (existsb (fun h => k <=? h) (head_to o)), (k <=? n), (existsb (in_seg k) (segments o)),
    (existsb (fun t => t <=? k) (tail_from o)); reflexivity.
Qed.

Lemma in_partitioning_seg : forall o s k,
    in_partitioning (Part (head_to o) (segments o ++ [s]) (tail_from o)) k = in_partitioning o k || in_seg k s.
Proof.
  intros. unfold in_partitioning. cbn [head_to segments tail_from]. rewrite existsb_app. cbn [existsb].
  rewrite orb_false_r.
  destruct (existsb (fun h => k <=? h) (head_to o)), (in_seg k s), (existsb (in_seg k) (segments o)),
    (existsb (fun t => t <=? k) (tail_from o)); reflexivity.
Qed.

Lemma in_partitioning_tail : forall o n k,
    in_partitioning (Part (head_to o) (segments o) (tail_from o ++ [n])) k = in_partitioning o k || (n <=? k).
Proof.
  intros. unfold in_partitioning. cbn [head_to segments tail_from]. rewrite existsb_app. cbn [existsb].
  rewrite orb_false_r.
  destruct (existsb (fun h => k <=? h) (head_to o)), (n <=? k), (existsb (in_seg k) (segments o)),
    (existsb (fun t => t <=? k) (tail_from o)); reflexivity.
Qed.

Lemma in_partitioning_eta : forall o k,
    in_partitioning o k = in_partitioning (Part (head_to o) (segments o) (tail_from o)) k.
Proof. intros [] k. reflexivity. Qed.

Lemma partition_one_set : forall N r o mb o' k,
    1 <= k -> partition_one r o = (mb, o') ->
    in_partitioning o' k || mb_in N mb k = in_partitioning o k || in_range N r k.
Proof.
  intros N r o mb o' k Hk E. destruct r as [n|l|n|l u]; cbn [partition_one] in E.
  - destruct (n <? 0) eqn:En; [injection E as <- <-; reflexivity|].
    destruct (negb (n =? 0)) eqn:E0; injection E as <- <-; cbn [mb_in in_range]; rewrite orb_false_r.
    + rewrite in_partitioning_seg. f_equal. unfold in_seg, abs_num. cbn [fst snd]. rewrite En. lia.
    + unfold abs_num. rewrite En. replace (k =? n) with false by lia. now rewrite orb_false_r.
  - destruct (l <? 0) eqn:En; [injection E as <- <-; reflexivity|].
    injection E as <- <-. cbn [mb_in in_range]. rewrite orb_false_r.
    rewrite in_partitioning_tail. f_equal. unfold abs_num. rewrite En. lia.
  - destruct (n <? 0) eqn:En; [injection E as <- <-; reflexivity|].
    destruct (negb (n =? 0)) eqn:E0; injection E as <- <-; cbn [mb_in in_range]; rewrite orb_false_r.
    + rewrite in_partitioning_head. f_equal. unfold abs_num. now rewrite En.
    + unfold abs_num. rewrite En. replace (k <=? n) with false by lia. now rewrite orb_false_r.
  - destruct ((l <? 0) || (u <? 0)) eqn:En; [injection E as <- <-; reflexivity|].
    assert (El : (l <? 0) = false) by lia. assert (Eu : (u <? 0) = false) by lia.
    destruct (negb (u =? 0)) eqn:E0.
    + destruct (l <=? 1) eqn:E1; injection E as <- <-; cbn [mb_in in_range]; rewrite orb_false_r.
      * rewrite in_partitioning_head. f_equal. unfold abs_num. rewrite El, Eu. lia.
      * rewrite in_partitioning_seg. f_equal. unfold in_seg, abs_num. cbn [fst snd]. now rewrite El, Eu.
    + injection E as <- <-. cbn [mb_in in_range]. rewrite orb_false_r.
      unfold abs_num. rewrite El, Eu. replace (k <=? u) with false by lia. now rewrite andb_false_r, orb_false_r.
Qed.

Lemma part_ok_head : forall o n, part_ok o -> 1 <= n -> part_ok (Part (head_to o ++ [n]) (segments o) (tail_from o)).
Proof. intros o n (H1 & H2 & H3) Hn. repeat split; cbn; try assumption. apply Forall_app; split; [assumption|now constructor]. Qed.
Lemma part_ok_seg : forall o s, part_ok o -> 1 <= fst s -> part_ok (Part (head_to o) (segments o ++ [s]) (tail_from o)).
Proof. intros o n (H1 & H2 & H3) Hn. repeat split; cbn; try assumption. apply Forall_app; split; [assumption|now constructor]. Qed.
Lemma part_ok_tail : forall o n, part_ok o -> 1 <= n -> part_ok (Part (head_to o) (segments o) (tail_from o ++ [n])).
Proof. intros o n (H1 & H2 & H3) Hn. repeat split; cbn; try assumption. apply Forall_app; split; [assumption|now constructor]. Qed.

Lemma partition_one_ok : forall r o mb o', part_ok o -> partition_one r o = (mb, o') -> part_ok o'.
Proof.
  intros r o mb o' Ho E. destruct r as [n|l|n|l u]; cbn [partition_one] in E.
  - destruct (n <? 0) eqn:En; [injection E as <- <-; exact Ho|].
    destruct (negb (n =? 0)) eqn:E0; injection E as <- <-; [|exact Ho]. apply part_ok_seg; [exact Ho|cbn; lia].
  - destruct (l <? 0) eqn:En; [injection E as <- <-; exact Ho|].
    injection E as <- <-. apply part_ok_tail; [exact Ho|lia].
  - destruct (n <? 0) eqn:En; [injection E as <- <-; exact Ho|].
    destruct (negb (n =? 0)) eqn:E0; injection E as <- <-; [|exact Ho]. apply part_ok_head; [exact Ho|lia].
  - destruct ((l <? 0) || (u <? 0)) eqn:En; [injection E as <- <-; exact Ho|].
    destruct (negb (u =? 0)) eqn:E0; [|injection E as <- <-; exact Ho].
    destruct (l <=? 1) eqn:E1; injection E as <- <-.
    + apply part_ok_head; [exact Ho|lia].
    + apply part_ok_seg; [exact Ho|cbn; lia].
Qed.

Lemma partition_set : forall N rs o negs o' k,
    1 <= k -> partition rs o = (negs, o') ->
    in_partitioning o' k || in_ranges N negs k = in_partitioning o k || in_ranges N rs k.
Proof.
  intros N. induction rs as [|r rs IH]; intros o negs o' k Hk E; cbn [partition] in E.
  - injection E as <- <-. reflexivity.
  - destruct (partition_one r o) as [mb o1] eqn:E1. destruct (partition rs o1) as [negs' o2] eqn:E2.
    injection E as <- <-.
    pose proof (partition_one_set N _ _ _ _ k Hk E1) as H1. pose proof (IH _ _ _ k Hk E2) as H2.
    unfold in_ranges in *. cbn [existsb].
    assert (Hm : existsb (fun r0 => in_range N r0 k) (match mb with Some x => x :: negs' | None => negs' end)
                 = mb_in N mb k || existsb (fun r0 => in_range N r0 k) negs') by (destruct mb; reflexivity).
    rewrite Hm.
    destruct (in_partitioning o2 k), (mb_in N mb k), (existsb (fun r0 => in_range N r0 k) negs'),
      (in_partitioning o1 k), (existsb (fun r0 => in_range N r0 k) rs), (in_partitioning o k), (in_range N r k);
      cbn in *; congruence.
Qed.

Lemma partition_ok : forall rs o negs o', part_ok o -> partition rs o = (negs, o') -> part_ok o'.
Proof.
  induction rs as [|r rs IH]; intros o negs o' Ho E; cbn [partition] in E.
  - injection E as <- <-. exact Ho.
  - destruct (partition_one r o) as [mb o1] eqn:E1. destruct (partition rs o1) as [negs' o2] eqn:E2.
    injection E as <- <-. eapply IH; [|exact E2]. eapply partition_one_ok; eassumption.
Qed.

Definition non_neg_range (r : range) : Prop :=
  match r with
  | RSingle n | RLower n | RUpper n => 0 <= n
  | RBoth l u => 0 <= l /\ 0 <= u
  end.

Lemma partition_non_neg : forall rs o, Forall non_neg_range rs -> fst (partition rs o) = [].
Proof.
  induction rs as [|r rs IH]; intros o H; cbn [partition]; [reflexivity|].
  inversion H as [|? ? Hr Hrs]; subst.
  destruct (partition_one r o) as [mb o1] eqn:E1.
  assert (mb = None).
  { destruct r as [n|l|n|l u]; cbn [partition_one non_neg_range] in *.
    - replace (n <? 0) with false in E1 by lia. destruct (negb (n =? 0)); now injection E1 as <- <-.
    - replace (l <? 0) with false in E1 by lia. now injection E1 as <- <-.
    - replace (n <? 0) with false in E1 by lia. destruct (negb (n =? 0)); now injection E1 as <- <-.
    - replace ((l <? 0) || (u <? 0)) with false in E1 by lia.
      destruct (negb (u =? 0)); [destruct (l <=? 1)|]; now injection E1 as <- <-. }
  subst mb. specialize (IH o1 Hrs). destruct (partition rs o1) as [negs o2]. exact IH.
Qed.

(** ** _NegValuesTranslator *)
Lemma tr_non_neg : forall N n, 0 <= tr N n.
Proof. intros. unfold tr. destruct (0 <=? n) eqn:E; lia. Qed.

Lemma translate_non_neg : forall N rs, Forall non_neg_range (translate_neg_to_non_neg rs N).
Proof.
  intros N rs. unfold translate_neg_to_non_neg. apply Forall_forall. intros r Hr.
  apply in_map_iff in Hr. destruct Hr as (r0 & <- & _).
  destruct r0; cbn; try split; apply tr_non_neg.
Qed.

Lemma abs_num_tr : forall N n, abs_num N (tr N n) = if n <? 0 then Z.max 0 (N + n + 1) else n.
Proof.
  intros. unfold abs_num, tr. destruct (0 <=? n) eqn:E.
  - replace (n <? 0) with false by lia. reflexivity.
  - replace (n <? 0) with true by lia. now replace (Z.max 0 (N + n + 1) <? 0) with false by lia.
Qed.

Lemma translate_one_set : forall N r k, 1 <= k -> in_range N (translate_one N r) k = in_range N r k.
Proof.
  intros N r k Hk. destruct r as [n|l|n|l u]; cbn [translate_one in_range]; rewrite ?abs_num_tr; unfold abs_num.
  - destruct (n <? 0); lia.
  - destruct (l <? 0); lia.
  - destruct (n <? 0); lia.
  - destruct (l <? 0), (u <? 0); lia.
Qed.

Lemma translate_set : forall N rs k, 1 <= k -> in_ranges N (translate_neg_to_non_neg rs N) k = in_ranges N rs k.
Proof.
  intros N rs k Hk. unfold in_ranges, translate_neg_to_non_neg. induction rs as [|r rs IH]; cbn; [reflexivity|].
  now rewrite translate_one_set, IH.
Qed.

Section E.
  Context {A : Type}.
  Implicit Types ls : list A.

  (** ** the transformer chosen for merged ranges *)
  Lemma transform_merged_correct : forall (p : partitioning) ls,
      part_ok p ->
      transform_merged (merge p) ls
      = map snd (filter (fun nl => in_partitioning p (fst nl)) (enum_from 1 ls)).
  Proof.
    intros p ls Hp.
    rewrite <- (sel_ext (in_merged (merge p)) (in_partitioning p)) by (intros; now apply merge_preserves_set).
    pose proof (merge_invariant p Hp) as Hw. cbv zeta in Hw.
    unfold transform_merged. destruct (m_is_empty (merge p)) eqn:Ee.
    - symmetry. apply sel_false. intros k _. unfold in_merged. now rewrite Ee.
    - destruct (is_everything (merge p)) eqn:Eev.
      + symmetry. apply sel_true. intros k _. unfold in_merged. now rewrite Ee, Eev.
      + rewrite segments_walk_correct by exact Hw.
        apply sel_ext. intros k _. unfold in_merged. now rewrite Ee, Eev.
  Qed.

  (** ** MultipleLineRangesTransformer *)
  Theorem multiple_ranges_correct : forall (rs : list range) ls,
      multiple_ranges_transform rs ls = Some (line_nums_spec rs ls).
  Proof.
    intros rs ls. unfold multiple_ranges_transform, line_nums_spec.
    set (N := Z.of_nat (length ls)).
    destruct (partition rs empty_partitioning) as [negatives non_neg] eqn:E1.
    assert (Hok0 : part_ok empty_partitioning) by (repeat split; constructor).
    pose proof (partition_ok _ _ _ _ Hok0 E1) as Hok1.
    destruct (is_nil negatives) eqn:En.
    - destruct negatives; [|discriminate]. f_equal. rewrite transform_merged_correct by exact Hok1.
      apply sel_ext. intros k Hk. pose proof (partition_set N _ _ _ _ k Hk E1) as H.
      cbn in H. rewrite orb_false_r in H. exact H.
    - unfold len. fold N.
      destruct (partition (translate_neg_to_non_neg negatives N) non_neg) as [negs2 p] eqn:E2.
      pose proof (partition_ok _ _ _ _ Hok1 E2) as Hok2.
      f_equal. rewrite transform_merged_correct by exact Hok2.
      apply sel_ext. intros k Hk.
      pose proof (partition_set N _ _ _ _ k Hk E1) as H1. pose proof (partition_set N _ _ _ _ k Hk E2) as H2.
      pose proof (partition_non_neg (translate_neg_to_non_neg negatives N) non_neg (translate_non_neg N negatives)) as H3.
      rewrite E2 in H3. cbn [fst] in H3. subst negs2.
      rewrite translate_set in H2 by exact Hk.
      cbn in H1, H2. rewrite orb_false_r in H2. rewrite H2, H1. reflexivity.
  Qed.

  (** ** filter -line-nums *)
  Theorem line_nums_exact : forall (rs : list range) ls,
      line_nums_transform rs ls = Some (line_nums_spec rs ls).
  Proof.
    intros rs ls. unfold line_nums_transform.
    destruct rs as [|r [|r' rs]].
    - apply multiple_ranges_correct.
    - apply single_range_correct.
    - apply multiple_ranges_correct.
  Qed.
End E.
