(** C15, the recursive files generator: the queue-driven walk of the code
    ([_FilesGeneratorForRecursive.generate], model [gen_loop]) yields, for ANY order in which the OS
    lists directories, a permutation of the declaratively specified set [walk]; it never runs out
    of fuel. *)
From Coq Require Import NArith List Bool Arith Lia Permutation.
From Exactly Require Import Lib.Tree Model.Files Spec.C15.
Import ListNotations.

(** the implementation-side value agrees with the declarative one wherever that is defined *)
Definition agree {A} (s : A -> option bool) (i : A -> res bool) : Prop := forall x b, s x = Some b -> i x = Ok b.

Section Gen.
  Variable scandir : path -> dirc -> dirc.
  Hypothesis scandir_perm : forall p l, Permutation (scandir p l) l.
  Variable O : oracles.
  Variable ps : elem -> option bool.        (* declarative prune *)
  Variable pi : elem -> res bool.           (* prune matcher of the code *)
  Hypothesis prune_agree : agree ps pi.
  Variables mn mx : option nat.

  (** [walk] on a directory node is this function of its entries *)
  Fixpoint walk_list (es : dirc) (rel abs : path) (d : nat) : option (list elem) :=
    match es with
    | [] => Some []
    | p :: es' =>
        let e := Elem (rel ++ [fst p]) (abs ++ [fst p]) (snd p) in
        let here := if in_min mn d then [e] else [] in
        let below :=
          match (if at_max mx d then Some false else dir_test_spec O (snd p) (abs ++ [fst p])) with
          | Some true =>
              match ps e with
              | Some false => walk O ps mn mx (snd p) (rel ++ [fst p]) (abs ++ [fst p]) (S d)
              | Some true => Some []
              | None => None
              end
          | Some false => Some []
          | None => None
          end in
        match below, walk_list es' rel abs d with
        | Some b, Some r => Some (here ++ b ++ r)
        | _, _ => None
        end
    end.

  Lemma walk_Dir : forall es rel abs d, walk O ps mn mx (Dir es) rel abs d = walk_list es rel abs d.
  Proof.
    intros es rel abs d. cbn [walk]. induction es as [|p es IH]; [reflexivity|].
    cbn [walk_list]. rewrite <- IH. reflexivity.
  Qed.

  Lemma walk_children : forall t rel abs d, walk O ps mn mx t rel abs d = walk_list (children t) rel abs d.
  Proof.
    induction t as [c|es _| |t IH] using tree_ind'; intros rel abs d.
    - reflexivity.
    - apply walk_Dir.
    - reflexivity.
    - cbn [walk]. rewrite IH. unfold children. cbn [resolve]. reflexivity.
  Qed.

  (** the declarative set does not depend on the order of the entries (up to permutation) *)
  Lemma walk_list_perm : forall es es', Permutation es es' -> forall rel abs d L,
    walk_list es rel abs d = Some L -> exists L', walk_list es' rel abs d = Some L' /\ Permutation L L'.
  Proof.
    induction 1 as [|p es es' HP IH|p q es|es1 es2 es3 H1 IH1 H2 IH2]; intros rel abs d L H.
    - exists L. split; [exact H | apply Permutation_refl].
    - cbn [walk_list] in *. cbv zeta in *.
      destruct (match (if at_max mx d then Some false else dir_test_spec O (snd p) (abs ++ [fst p])) with Some true => _ | Some false => _ | None => _ end) as [b|]; [|discriminate].
      destruct (walk_list es rel abs d) as [r|] eqn:Er; [|discriminate]. injection H as <-.
      destruct (IH rel abs d r Er) as [r' [-> Hp]]. eexists. split; [reflexivity|].
      apply Permutation_app_head, Permutation_app_head. exact Hp.
    - cbn [walk_list] in *. cbv zeta in *.
      destruct (match (if at_max mx d then Some false else dir_test_spec O (snd q) (abs ++ [fst q])) with Some true => _ | Some false => _ | None => _ end) as [bq|]; [|discriminate].
      destruct (match (if at_max mx d then Some false else dir_test_spec O (snd p) (abs ++ [fst p])) with Some true => _ | Some false => _ | None => _ end) as [bp|]; [|discriminate].
      destruct (walk_list es rel abs d) as [r|]; [|discriminate]. injection H as <-.
      eexists. split; [reflexivity|].
      rewrite !app_assoc. apply Permutation_app_tail. rewrite <- !app_assoc.
      rewrite (app_assoc _ bq), (app_assoc _ bp). apply Permutation_app_comm.
    - destruct (IH1 rel abs d L H) as [L2 [E2 P2]]. destruct (IH2 rel abs d L2 E2) as [L3 [E3 P3]].
      exists L3. split; [exact E3 | eapply Permutation_trans; eassumption].
  Qed.

  Definition walk_item (q : qitem) : option (list elem) :=
    walk O ps mn mx (q_dir q) (q_rel q) (q_abs q) (q_depth q).

  Definition qsize (qs : list qitem) : nat := fold_right (fun q acc => tsize (q_dir q) + acc) 0 qs.

  Lemma qsize_app : forall a b, qsize (a ++ b) = qsize a + qsize b.
  Proof.
    induction a as [|q a IH]; intros b; [reflexivity|].
    change (qsize ((q :: a) ++ b)) with (tsize (q_dir q) + qsize (a ++ b)).
    change (qsize (q :: a)) with (tsize (q_dir q) + qsize a). rewrite IH. lia.
  Qed.

  (** one directory: what [scan_dir] yields and enqueues accounts exactly for [walk_list] *)
  Lemma scan_dir_spec : forall es rel abs d L,
    walk_list es rel abs d = Some L ->
    exists ys qs Ls,
      scan_dir O pi (in_min mn d) (negb (at_max mx d)) rel abs d es = (ys, qs, None)
      /\ Forall2 (fun q l => walk_item q = Some l) qs Ls
      /\ Permutation L (ys ++ concat Ls)
      /\ qsize qs <= dsize es.
  Proof.
    induction es as [|[n c] es IH]; intros rel abs d L H.
    - cbn in H. injection H as <-. exists [], [], []. cbn. repeat split; constructor.
    - cbn [walk_list fst snd] in H. cbv zeta in H. cbn [scan_dir].
      change (dsize ((n, c) :: es)) with (tsize c + dsize es).
      assert (Hdt : (if negb (at_max mx d) then dir_test O c (abs ++ [n]) else Ok false)
                    = match (if at_max mx d then Some false else dir_test_spec O c (abs ++ [n])) with
                      | Some b => Ok b
                      | None => (if negb (at_max mx d) then dir_test O c (abs ++ [n]) else Ok false)
                      end).
      { destruct (at_max mx d); cbn [negb]; [reflexivity|]. unfold dir_test, dir_test_spec.
        destruct (resolve c) as [[?|?|?]|]; try reflexivity. destruct (link_error O (abs ++ [n])) as [[|]|]; reflexivity. }
      rewrite Hdt. clear Hdt.
      destruct (if at_max mx d then Some false else dir_test_spec O c (abs ++ [n])) as [[|]|] eqn:Eg; [| |discriminate].
      + destruct (ps (Elem (rel ++ [n]) (abs ++ [n]) c)) as [[|]|] eqn:Ep; [| |discriminate].
        * (* pruned *)
          rewrite (prune_agree _ _ Ep).
          destruct (walk_list es rel abs d) as [r|] eqn:Er; [|discriminate]. injection H as <-.
          destruct (IH rel abs d r Er) as (ys & qs & Ls & Es & F & P & Hsz). rewrite Es.
          exists ((if in_min mn d then [Elem (rel ++ [n]) (abs ++ [n]) c] else []) ++ ys), qs, Ls.
          repeat split; [exact F | | lia]. cbn [app]. rewrite <- app_assoc. apply Permutation_app_head. exact P.
        * (* entered *)
          rewrite (prune_agree _ _ Ep).
          destruct (walk O ps mn mx c (rel ++ [n]) (abs ++ [n]) (S d)) as [b|] eqn:Eb; [|discriminate].
          destruct (walk_list es rel abs d) as [r|] eqn:Er; [|discriminate]. injection H as <-.
          destruct (IH rel abs d r Er) as (ys & qs & Ls & Es & F & P & Hsz). rewrite Es.
          exists ((if in_min mn d then [Elem (rel ++ [n]) (abs ++ [n]) c] else []) ++ ys),
                 (QItem (rel ++ [n]) (abs ++ [n]) c (S d) :: qs), (b :: Ls).
          repeat split.
          -- constructor; [exact Eb | exact F].
          -- cbn [concat]. rewrite <- app_assoc. apply Permutation_app_head.
             rewrite (app_assoc ys). eapply Permutation_trans; [|apply Permutation_app_tail, Permutation_app_comm].
             rewrite <- app_assoc. apply Permutation_app_head. exact P.
          -- cbn [qsize fold_right q_dir]. fold (qsize qs). lia.
      + destruct (walk_list es rel abs d) as [r|] eqn:Er; [|discriminate]. injection H as <-.
        destruct (IH rel abs d r Er) as (ys & qs & Ls & Es & F & P & Hsz). rewrite Es.
        exists ((if in_min mn d then [Elem (rel ++ [n]) (abs ++ [n]) c] else []) ++ ys), qs, Ls.
        repeat split; [exact F | | lia]. cbn [app]. rewrite <- app_assoc. apply Permutation_app_head. exact P.
  Qed.

  Lemma dsize_perm : forall a b, Permutation a b -> dsize a = dsize b.
  Proof. induction 1; cbn; try lia. unfold dsize in *. cbn. lia. Qed.

  (** the loop: enough fuel, a queue all of whose items have a defined declarative set *)
  Lemma gen_loop_spec : forall fuel queue Ls,
    qsize queue <= fuel ->
    Forall2 (fun q l => walk_item q = Some l) queue Ls ->
    exists L', gen_loop scandir O pi mn mx fuel queue = (L', None) /\ Permutation L' (concat Ls).
  Proof.
    induction fuel as [|fuel IH]; intros queue Ls Hf F.
    - destruct queue as [|q rest].
      + inversion F; subst. exists []. split; [reflexivity | constructor].
      + exfalso. cbn in Hf. pose proof (tsize_pos (q_dir q)). lia.
    - destruct queue as [|q rest]; [inversion F; subst; exists []; split; [reflexivity | constructor]|].
      inversion F as [|? Lq ? Lrest Hq Frest]; subst. cbn [gen_loop].
      unfold walk_item in Hq. rewrite walk_children in Hq.
      pose proof (scandir_perm (q_abs q) (children (q_dir q))) as HP.
      destruct (walk_list_perm _ _ (Permutation_sym HP) _ _ _ _ Hq) as [L1 [E1 P1]].
      destruct (scan_dir_spec _ _ _ _ _ E1) as (ys & qs & Ls1 & Es & F1 & P2 & Hsz).
      rewrite Es.
      assert (qsize (rest ++ qs) <= fuel) as Hf'.
      { rewrite qsize_app. cbn [qsize fold_right] in Hf. fold (qsize rest) in Hf.
        rewrite (dsize_perm _ _ HP) in Hsz. pose proof (children_size (q_dir q)). lia. }
      destruct (IH (rest ++ qs) (Lrest ++ Ls1) Hf' (Forall2_app Frest F1)) as [L' [E' P']].
      rewrite E'. exists (ys ++ L'). split; [reflexivity|].
      cbn [concat]. rewrite concat_app in P'.
      eapply Permutation_trans; [apply Permutation_app_head; exact P'|].
      eapply Permutation_trans; [apply Permutation_app_head; apply Permutation_app_comm|].
      rewrite app_assoc. apply Permutation_app_tail.
      eapply Permutation_trans; [apply Permutation_sym; exact P2 | apply Permutation_sym; exact P1].
  Qed.

  (** -recursive: the generated files are a permutation of the declarative set *)
  Theorem gen_recursive_spec : forall root abs L,
    walk O ps mn mx root [] abs 0 = Some L ->
    exists L', gen_loop scandir O pi mn mx (tsize root) [QItem [] abs root 0] = (L', None) /\ Permutation L' L.
  Proof.
    intros root abs L H.
    destruct (gen_loop_spec (tsize root) [QItem [] abs root 0] [L]) as [L' [E P]].
    - cbn. lia.
    - constructor; [exact H | constructor].
    - exists L'. split; [exact E|]. cbn [concat] in P. rewrite app_nil_r in P. exact P.
  Qed.
End Gen.
