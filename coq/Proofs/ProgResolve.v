(** Proofs about [resolve] (accumulation along chains of program symbols), C10. *)
From Coq Require Import NArith List Bool Lia.
From Exactly Require Import Model.Prog Spec.C10.
Import ListNotations.
Local Open Scope N_scope.

(** ** append algebra of accumulated components *)
Lemma acc_app_assoc (a b c : acc src) : acc_app (acc_app a b) c = acc_app a (acc_app b c).
Proof. unfold acc_app; cbn. now rewrite <- !app_assoc. Qed.

Lemma acc_app_empty_r (a : acc src) : acc_app a acc_empty = a.
Proof. destruct a; unfold acc_app; cbn. now rewrite !app_nil_r. Qed.

Lemma acc_app_empty_l (a : acc src) : acc_app acc_empty a = a.
Proof. now destruct a. Qed.

Lemma extend_extend r a b : extend (extend r a) b = extend r (acc_app a b).
Proof. unfold extend; cbn. now rewrite <- !app_assoc. Qed.

Lemma of_command_extend c a b : extend (of_command c a) b = of_command c (acc_app a b).
Proof. unfold extend, of_command; cbn. now rewrite <- !app_assoc. Qed.

(** ** lookup *)
Lemma lookup_app t1 t2 n :
  lookup (t1 ++ t2) n = match lookup t1 n with Some v => Some v | None => lookup t2 n end.
Proof.
  induction t1 as [|[m v] t1 IH]; cbn; [reflexivity|].
  destruct (m =? n); [reflexivity | exact IH].
Qed.

(** ** well-formed tables: every name is defined once, a program definition that is a reference refers to an
    older definition (this is what exactly's symbol validation enforces) *)
Fixpoint wf_table (t : table) : Prop :=
  match t with
  | [] => True
  | (n, v) :: older =>
      lookup older n = None /\
      match v with VProg (PRef n' _) => lookup older n' <> None | _ => True end /\
      wf_table older
  end.

Fixpoint wf_table_b (t : table) : bool :=
  match t with
  | [] => true
  | (n, v) :: older =>
      match lookup older n with None => true | Some _ => false end &&
      match v with
      | VProg (PRef n' _) => match lookup older n' with None => false | Some _ => true end
      | _ => true
      end &&
      wf_table_b older
  end.

Lemma wf_table_b_correct t : wf_table_b t = true -> wf_table t.
Proof.
  induction t as [|[n v] older IH]; cbn; [trivial|].
  intros H. apply andb_true_iff in H as [H H3]. apply andb_true_iff in H as [H1 H2].
  repeat split.
  - destruct (lookup older n); [discriminate | reflexivity].
  - destruct v as [d|[c a|n' a]]; trivial. destruct (lookup older n'); [discriminate | discriminate H2].
  - auto.
Qed.

(** the names of [newer] are fresh w.r.t. everything below them *)
Fixpoint fresh_over (newer below : table) : Prop :=
  match newer with
  | [] => True
  | (n, _) :: newer' => lookup (newer' ++ below) n = None /\ fresh_over newer' below
  end.

Lemma fresh_over_snoc newer m v older :
  fresh_over newer ((m, v) :: older) -> lookup older m = None -> fresh_over (newer ++ [(m, v)]) older.
Proof.
  induction newer as [|[k u] newer IH]; cbn; intros H Hm.
  - split; [exact Hm | trivial].
  - destruct H as [H1 H2]. split; [| auto].
    rewrite <- app_assoc. exact H1.
Qed.

Lemma fresh_over_lookup newer below n :
  fresh_over newer below -> lookup below n <> None -> lookup newer n = None.
Proof.
  induction newer as [|[k u] newer IH]; cbn; intros H Hn; [reflexivity|].
  destruct H as [H1 H2].
  destruct (k =? n) eqn:E.
  - apply N.eqb_eq in E; subst k. rewrite lookup_app in H1.
    destruct (lookup newer n); [discriminate | contradiction].
  - auto.
Qed.

(** ** [denote] never runs out of fuel (it has none) *)
Lemma denote_name_not_oof defs n : denote_name defs n <> Err EOutOfFuel.
Proof.
  revert n. induction defs as [|[m v] older IH]; intros n; cbn; [discriminate|].
  destruct (m =? n); [| apply IH].
  destruct v as [d|[c a|n' a]]; try discriminate.
  specialize (IH n'). destruct (denote_name older n') as [r|e]; cbn; [discriminate | congruence].
Qed.

Lemma denote_not_oof defs p : denote defs p <> Err EOutOfFuel.
Proof.
  destruct p as [c a|n a]; cbn; [discriminate|].
  pose proof (denote_name_not_oof defs n). destruct (denote_name defs n); cbn; [discriminate | congruence].
Qed.

(** ** the code's resolution = the declarative denotation, on well-formed tables *)
Lemma resolve_ref_denote :
  forall defs newer n a fuel,
    wf_table defs -> fresh_over newer defs -> lookup newer n = None ->
    (fuel > length defs)%nat ->
    resolve fuel (newer ++ defs) (PRef n a) = rbind (denote_name defs n) (fun r => Ok (extend r a)).
Proof.
  induction defs as [|[m v] older IH]; intros newer n a fuel Hwf Hfr Hn Hfuel.
  - destruct fuel as [|fuel]; [cbn in Hfuel; lia|].
    cbn. rewrite lookup_app, Hn. reflexivity.
  - cbn in Hwf. destruct Hwf as [Hm [Hv Hwf]].
    destruct fuel as [|fuel]; [cbn in Hfuel; lia|].
    cbn [resolve]. rewrite lookup_app, Hn. cbn [lookup denote_name].
    destruct (m =? n) eqn:E.
    + destruct v as [d|[c a0|n' a0]].
      * reflexivity.
      * cbn [new_accumulated]. destruct fuel as [|fuel]; [cbn in Hfuel; lia|].
        cbn. now rewrite of_command_extend.
      * cbn [new_accumulated].
        replace (newer ++ (m, VProg (PRef n' a0)) :: older) with ((newer ++ [(m, VProg (PRef n' a0))]) ++ older)
          by now rewrite <- app_assoc.
        rewrite IH.
        -- destruct (denote_name older n') as [r|e]; cbn; [now rewrite extend_extend | reflexivity].
        -- exact Hwf.
        -- now apply fresh_over_snoc.
        -- rewrite lookup_app.
           rewrite (fresh_over_lookup newer ((m, VProg (PRef n' a0)) :: older) n' Hfr).
           ++ cbn. destruct (m =? n') eqn:E'; [|reflexivity].
              apply N.eqb_eq in E'; subst n'. contradiction.
           ++ cbn. destruct (m =? n'); [discriminate | exact Hv].
        -- cbn in Hfuel. lia.
    + replace (newer ++ (m, v) :: older) with ((newer ++ [(m, v)]) ++ older) by now rewrite <- app_assoc.
      assert (Hres : resolve (S fuel) ((newer ++ [(m, v)]) ++ older) (PRef n a)
                     = rbind (denote_name older n) (fun r => Ok (extend r a))).
      { apply IH.
        - exact Hwf.
        - now apply fresh_over_snoc.
        - rewrite lookup_app, Hn. cbn. now rewrite E.
        - cbn in Hfuel. lia. }
      cbn [resolve] in Hres. rewrite <- Hres.
      rewrite !lookup_app, Hn. cbn [lookup]. rewrite E. rewrite <- app_assoc. reflexivity.
Qed.

Theorem resolve_refines_denote :
  forall tbl p, wf_table tbl -> resolve_tbl tbl p = denote tbl p.
Proof.
  intros tbl p Hwf. unfold resolve_tbl. destruct p as [c a|n a].
  - reflexivity.
  - apply (resolve_ref_denote tbl [] n a (S (length tbl))); cbn; auto.
Qed.

Corollary resolve_tbl_never_out_of_fuel :
  forall tbl p, wf_table tbl -> resolve_tbl tbl p <> Err EOutOfFuel.
Proof. intros tbl p Hwf. rewrite resolve_refines_denote by assumption. apply denote_not_oof. Qed.

(** ** more fuel does not change a result *)
Lemma resolve_stable :
  forall f1 f2 tbl p r, resolve f1 tbl p = Ok r -> resolve f2 tbl p <> Err EOutOfFuel -> resolve f2 tbl p = Ok r.
Proof.
  induction f1 as [|f1 IH]; intros f2 tbl p r H1 H2; [discriminate|].
  destruct f2 as [|f2]; [cbn in H2; congruence|].
  cbn in *. destruct p as [c a|n a]; [exact H1|].
  destruct (lookup tbl n) as [[d|q]|]; try discriminate.
  now apply IH.
Qed.

(** ** chains of definitions, in definition order.
    [chain_in tbl prev links]: the first link defines its name as a reference to [prev] plus components, the second
    refers to the first, ...  Other definitions may be interleaved. *)
Fixpoint chain_in (tbl : table) (prev : name) (links : list (name * acc src)) : Prop :=
  match links with
  | [] => True
  | (n, a) :: rest => lookup tbl n = Some (VProg (PRef prev a)) /\ chain_in tbl n rest
  end.

Fixpoint last_name (prev : name) (links : list (name * acc src)) : name :=
  match links with
  | [] => prev
  | (n, _) :: rest => last_name n rest
  end.

(** the components of all links, appended in definition order *)
Fixpoint acc_concat (l : list (acc src)) : acc src :=
  match l with
  | [] => acc_empty
  | a :: l' => acc_app a (acc_concat l')
  end.

Lemma chain_resolve_gen :
  forall tbl links prev R k,
    (forall extra fuel, (fuel > k)%nat -> resolve fuel tbl (PRef prev extra) = Ok (extend R extra)) ->
    chain_in tbl prev links ->
    forall extra fuel, (fuel > k + length links)%nat ->
      resolve fuel tbl (PRef (last_name prev links) extra)
      = Ok (extend R (acc_app (acc_concat (map snd links)) extra)).
Proof.
  intros tbl links. induction links as [|[n a] rest IH]; intros prev R k Hprev Hchain extra fuel Hfuel.
  - cbn. rewrite acc_app_empty_l. apply Hprev. cbn in Hfuel. lia.
  - cbn in Hchain. destruct Hchain as [Hn Hrest].
    cbn [last_name map snd acc_concat].
    rewrite acc_app_assoc, <- extend_extend.
    apply (IH n (extend R a) (S k)).
    + intros extra' fuel' Hf. destruct fuel' as [|fuel']; [lia|].
      cbn [resolve]. rewrite Hn. cbn [new_accumulated].
      rewrite Hprev by lia. now rewrite extend_extend.
    + exact Hrest.
    + cbn in Hfuel. lia.
Qed.

Lemma chain_resolve_fuel :
  forall tbl n0 c a0 links,
    lookup tbl n0 = Some (VProg (PCmd c a0)) -> chain_in tbl n0 links ->
    forall extra fuel, (fuel > 1 + length links)%nat ->
      resolve fuel tbl (PRef (last_name n0 links) extra)
      = Ok (of_command c (acc_app a0 (acc_app (acc_concat (map snd links)) extra))).
Proof.
  intros tbl n0 c a0 links H0 Hchain extra fuel Hfuel.
  rewrite <- of_command_extend.
  apply (chain_resolve_gen tbl links n0 (of_command c a0) 1%nat); auto.
  intros extra' fuel' Hf. destruct fuel' as [|[|fuel']]; try lia.
  cbn. rewrite H0. cbn. now rewrite of_command_extend.
Qed.

(** The chain theorem for the fuel the model uses. *)
Theorem chain_resolve :
  forall tbl n0 c a0 links extra,
    wf_table tbl ->
    lookup tbl n0 = Some (VProg (PCmd c a0)) -> chain_in tbl n0 links ->
    resolve_tbl tbl (PRef (last_name n0 links) extra)
    = Ok (of_command c (acc_app a0 (acc_app (acc_concat (map snd links)) extra))).
Proof.
  intros tbl n0 c a0 links extra Hwf H0 Hchain.
  apply (resolve_stable (2 + length links)).
  - apply chain_resolve_fuel; auto.
  - exact (resolve_tbl_never_out_of_fuel tbl _ Hwf).
Qed.

(** projections of [acc_concat] *)
Lemma acc_concat_args l : a_args (acc_concat l) = flat_map a_args l.
Proof. induction l as [|a l IH]; cbn; [reflexivity | now rewrite IH]. Qed.
Lemma acc_concat_stdin l : a_stdin (acc_concat l) = flat_map a_stdin l.
Proof. induction l as [|a l IH]; cbn; [reflexivity | now rewrite IH]. Qed.
Lemma acc_concat_tr l : a_tr (acc_concat l) = flat_map a_tr l.
Proof. induction l as [|a l IH]; cbn; [reflexivity | now rewrite IH]. Qed.

Theorem chain_components :
  forall tbl n0 c a0 links extra,
    wf_table tbl ->
    lookup tbl n0 = Some (VProg (PCmd c a0)) -> chain_in tbl n0 links ->
    exists r, resolve_tbl tbl (PRef (last_name n0 links) extra) = Ok r /\
      r_driver r = c_driver c /\
      r_args r = c_args c ++ a_args a0 ++ flat_map a_args (map snd links) ++ a_args extra /\
      r_stdin r = a_stdin a0 ++ flat_map a_stdin (map snd links) ++ a_stdin extra /\
      r_tr r = a_tr a0 ++ flat_map a_tr (map snd links) ++ a_tr extra.
Proof.
  intros tbl n0 c a0 links extra Hwf H0 Hchain. eexists. split; [exact (chain_resolve tbl n0 c a0 links extra Hwf H0 Hchain)|].
  cbn. rewrite acc_concat_args, acc_concat_stdin, acc_concat_tr. repeat split; reflexivity.
Qed.
