(** Proofs about the evaluation model of Model/Expr.v: lazy left-to-right evaluation of the matcher
    combinators, invariance under [flatten], left-to-right composition of transformers. *)
From Coq Require Import NArith List Bool Lia.
From Exactly Require Import Lib.Harness Model.Expr Spec.C06.
Import ListNotations.
Local Open Scope N_scope.

(** Induction principle for the nested type [expr]. *)
Lemma expr_ind' (P : expr -> Prop) :
  (forall w, P (ELeaf w)) ->
  (forall op e, P e -> P (EPre op e)) ->
  (forall op es, Forall P es -> P (EInf op es)) ->
  forall e, P e.
Proof.
  intros HL HP HI. fix IH 1. intros [w | op e | op es].
  - apply HL.
  - apply HP, IH.
  - apply HI. induction es as [|x xs IHxs]; constructor; [apply IH | exact IHxs].
Qed.

(** every operator node has at least one operand (the parser builds nodes with >= 2) *)
Fixpoint operands_nonempty (e : expr) : bool :=
  match e with
  | ELeaf _ => true
  | EPre _ e1 => operands_nonempty e1
  | EInf _ es => negb (match es with [] => true | _ => false end) && forallb operands_nonempty es
  end.

Section Lazy.
  Variable lv : N -> bool.

  Lemma eval_loop_spec (stop : bool) (es : list expr) :
    Forall (fun e => tr_value (eval lv e) = sem lv e /\ trace_leaves (eval lv e) = evaluated lv e) es ->
    forall acc,
      fst (eval_loop (eval lv) stop es acc) = (if stop then existsb (sem lv) es else forallb (sem lv) es) /\
      flat_map trace_leaves (snd (eval_loop (eval lv) stop es acc))
      = flat_map trace_leaves acc ++ evaluated_upto lv (evaluated lv) stop es /\
      (acc <> [] \/ es <> [] -> snd (eval_loop (eval lv) stop es acc) <> []).
  Proof.
    induction 1 as [|e es [Hv Hl] _ IH]; intros acc.
    - cbn. (split; [|split]).
      + destruct stop; reflexivity.
      + symmetry. apply app_nil_r.
      + intros [H|H]; [exact H | congruence].
    - cbn [eval_loop existsb forallb evaluated_upto]. rewrite Hv.
      destruct (Bool.eqb (sem lv e) stop) eqn:E.
      + apply eqb_prop in E. cbn [fst snd]. (split; [|split]).
        * rewrite E. destruct stop; reflexivity.
        * rewrite flat_map_app. cbn. rewrite Hl, !app_nil_r. reflexivity.
        * intros _. destruct acc; discriminate.
      + specialize (IH (acc ++ [eval lv e])). destruct IH as (IH1 & IH2 & IH3). (split; [|split]).
        * rewrite IH1. destruct stop, (sem lv e); cbn in *; try reflexivity; discriminate.
        * rewrite IH2, flat_map_app. cbn. rewrite Hl, app_nil_r, app_assoc. reflexivity.
        * intros _. apply IH3. left. destruct acc; discriminate.
  Qed.

  (** The trace that [Negation/Conjunction/Disjunction.matches_w_trace] build: the value is the boolean
      meaning, and the operands that were evaluated are, in order, exactly those that lazy
      left-to-right evaluation needs. *)
  Theorem lazy_left_to_right (e : expr) :
    operands_nonempty e = true ->
    tr_value (eval lv e) = sem lv e /\ trace_leaves (eval lv e) = evaluated lv e.
  Proof.
    induction e as [w | op e IH | op es IH] using expr_ind'; intros Hne.
    - split; reflexivity.
    - cbn in Hne. destruct (IH Hne) as [Hv Hl]. cbn [eval sem evaluated tr_value]. split.
      + now rewrite Hv.
      + cbn. now rewrite app_nil_r.
    - cbn in Hne. apply andb_true_iff in Hne as [Hn Hall].
      assert (IH' : Forall (fun e => tr_value (eval lv e) = sem lv e /\ trace_leaves (eval lv e) = evaluated lv e) es).
      { rewrite Forall_forall in *. intros x Hx. apply IH; [exact Hx|]. rewrite forallb_forall in Hall. now apply Hall. }
      destruct (eval_loop_spec (negb (op =? W_AND)) es IH' []) as (H1 & H2 & H3).
      cbn [eval sem evaluated tr_value]. split.
      + rewrite H1. destruct (op =? W_AND); reflexivity.
      + assert (Hc : snd (eval_loop (eval lv) (negb (op =? W_AND)) es []) <> []).
        { apply H3. right. destruct es; [discriminate | congruence]. }
        cbn [trace_leaves]. destruct (snd (eval_loop (eval lv) (negb (op =? W_AND)) es [])) eqn:E; [congruence|].
        rewrite H2. reflexivity.
  Qed.
End Lazy.

(** ** Invariance under [flatten] *)
Lemma forallb_flat_map {A B} (p : B -> bool) (f : A -> list B) l :
  forallb p (flat_map f l) = forallb (fun x => forallb p (f x)) l.
Proof. induction l as [|x l IH]; cbn; [reflexivity|]. now rewrite forallb_app, IH. Qed.

Lemma existsb_flat_map {A B} (p : B -> bool) (f : A -> list B) l :
  existsb p (flat_map f l) = existsb (fun x => existsb p (f x)) l.
Proof. induction l as [|x l IH]; cbn; [reflexivity|]. now rewrite existsb_app, IH. Qed.

Lemma forallb_ext' {A} (p q : A -> bool) l : Forall (fun x => p x = q x) l -> forallb p l = forallb q l.
Proof. induction 1 as [|x l H _ IH]; cbn; [reflexivity | now rewrite H, IH]. Qed.
Lemma existsb_ext' {A} (p q : A -> bool) l : Forall (fun x => p x = q x) l -> existsb p l = existsb q l.
Proof. induction 1 as [|x l H _ IH]; cbn; [reflexivity | now rewrite H, IH]. Qed.

Section FlattenInvariant.
  Variable lv : N -> bool.

  Lemma sem_flat_ops_and op x : op =? W_AND = true -> forallb (sem lv) (flat_ops op x) = sem lv x.
  Proof.
    intros E. destruct x as [w | o e | o es]; cbn [flat_ops forallb]; try apply andb_true_r.
    destruct (op =? o) eqn:E'; cbn [forallb]; [|apply andb_true_r].
    apply N.eqb_eq in E'. subst o. cbn [sem]. now rewrite E.
  Qed.

  Lemma sem_flat_ops_or op x : op =? W_AND = false -> existsb (sem lv) (flat_ops op x) = sem lv x.
  Proof.
    intros E. destruct x as [w | o e | o es]; cbn [flat_ops existsb]; try apply orb_false_r.
    destruct (op =? o) eqn:E'; cbn [existsb]; [|apply orb_false_r].
    apply N.eqb_eq in E'. subst o. cbn [sem]. now rewrite E.
  Qed.

  Theorem sem_flatten e : sem lv (flatten e) = sem lv e.
  Proof.
    induction e as [w | op e IH | op es IH] using expr_ind'; cbn [flatten sem].
    - reflexivity.
    - now rewrite IH.
    - destruct (op =? W_AND) eqn:E.
      + rewrite forallb_flat_map. apply forallb_ext'. revert IH. apply Forall_impl. intros x Hx.
        now rewrite sem_flat_ops_and.
      + rewrite existsb_flat_map. apply existsb_ext'. revert IH. apply Forall_impl. intros x Hx.
        now rewrite sem_flat_ops_or.
  Qed.

  (** some operand is decisive *)
  Definition decisive (stop : bool) (es : list expr) : bool := existsb (fun e => Bool.eqb (sem lv e) stop) es.

  Lemma upto_app stop xs ys :
    evaluated_upto lv (evaluated lv) stop (xs ++ ys)
    = evaluated_upto lv (evaluated lv) stop xs
      ++ (if decisive stop xs then [] else evaluated_upto lv (evaluated lv) stop ys).
  Proof.
    unfold decisive. induction xs as [|x xs IH]; cbn [app evaluated_upto existsb]; [reflexivity|].
    destruct (Bool.eqb (sem lv x) stop); cbn [orb].
    - rewrite !app_nil_r. reflexivity.
    - rewrite IH, app_assoc. reflexivity.
  Qed.

  Lemma decisive_node op xs :
    Bool.eqb (sem lv (EInf op xs)) (negb (op =? W_AND)) = decisive (negb (op =? W_AND)) xs.
  Proof.
    cbn [sem]. unfold decisive. destruct (op =? W_AND); cbn [negb].
    - induction xs as [|x xs IH]; cbn; [reflexivity|]. destruct (sem lv x); cbn; [exact IH | reflexivity].
    - induction xs as [|x xs IH]; cbn; [reflexivity|]. destruct (sem lv x); cbn; [reflexivity | exact IH].
  Qed.

  Lemma upto_flat_ops op x :
    evaluated_upto lv (evaluated lv) (negb (op =? W_AND)) (flat_ops op x) = evaluated lv x /\
    decisive (negb (op =? W_AND)) (flat_ops op x) = Bool.eqb (sem lv x) (negb (op =? W_AND)).
  Proof.
    assert (Hdef : evaluated_upto lv (evaluated lv) (negb (op =? W_AND)) [x] = evaluated lv x /\
                   decisive (negb (op =? W_AND)) [x] = Bool.eqb (sem lv x) (negb (op =? W_AND))).
    { cbn. split; [|apply orb_false_r]. destruct (Bool.eqb _ _); now rewrite app_nil_r. }
    destruct x as [w | o e | o es]; cbn [flat_ops]; try exact Hdef.
    destruct (op =? o) eqn:E; [|exact Hdef]. apply N.eqb_eq in E. subst o. split.
    - reflexivity.
    - symmetry. apply decisive_node.
  Qed.

  Theorem evaluated_flatten e : evaluated lv (flatten e) = evaluated lv e.
  Proof.
    induction e as [w | op e IH | op es IH] using expr_ind'; cbn [flatten evaluated].
    - reflexivity.
    - exact IH.
    - induction IH as [|x xs Hx _ IHxs]; cbn [flat_map evaluated_upto]; [reflexivity|].
      rewrite upto_app. destruct (upto_flat_ops op (flatten x)) as [H1 H2].
      rewrite H1, H2, Hx, sem_flatten, IHxs. reflexivity.
  Qed.

  Lemma leaves_flat_ops op x : flat_map leaves (flat_ops op x) = leaves x.
  Proof.
    destruct x as [w | o e | o es]; cbn [flat_ops flat_map]; try apply app_nil_r.
    destruct (op =? o); cbn [flat_map leaves]; [reflexivity | apply app_nil_r].
  Qed.

  Theorem leaves_flatten e : leaves (flatten e) = leaves e.
  Proof.
    induction e as [w | op e IH | op es IH] using expr_ind'; cbn [flatten leaves].
    - reflexivity.
    - exact IH.
    - induction IH as [|x xs Hx _ IHxs]; cbn [flat_map]; [reflexivity|].
      rewrite flat_map_app, leaves_flat_ops, Hx, IHxs. reflexivity.
  Qed.
End FlattenInvariant.

(** Equal modulo flatten: same value, same lazily evaluated operands, same composition. *)
Corollary flatten_preserves_eval lv e1 e2 :
  flatten e1 = flatten e2 -> sem lv e1 = sem lv e2 /\ evaluated lv e1 = evaluated lv e2 /\ leaves e1 = leaves e2.
Proof.
  intros E. repeat split.
  - rewrite <- (sem_flatten lv e1), <- (sem_flatten lv e2). now rewrite E.
  - rewrite <- (evaluated_flatten lv e1), <- (evaluated_flatten lv e2). now rewrite E.
  - rewrite <- (leaves_flatten e1), <- (leaves_flatten e2). now rewrite E.
Qed.

(** ** "|" composes left to right *)
Section Pipe.
  Variable text : Type.
  Variable lf : N -> text -> text.
  Variable lid : N -> bool.
  (** a leaf that says [is_identity_transformer] is the identity *)
  Hypothesis lid_sound : forall w, lid w = true -> forall x, lf w x = x.

  Lemma transform_pipe e : forall x, transform text lf lid e x = pipe_sem lf e x.
  Proof.
    unfold pipe_sem.
    induction e as [w | op e IH | op es IH] using expr_ind'; intros x; cbn [transform leaves].
    - reflexivity.
    - apply IH.
    - assert (Hid : Forall (fun t => t_is_identity lid t = true -> forall x, transform text lf lid t x = x) es).
      { clear IH. induction es as [|t ts IHts]; constructor; [|exact IHts]. clear IHts ts.
        induction t as [w | o e IHe | o ts IHts] using expr_ind'; cbn [t_is_identity transform].
        - intros H y. now apply lid_sound.
        - discriminate.
        - intros H. rewrite forallb_forall in H. rewrite Forall_forall in IHts.
          intros y. assert (G : forall l, incl l ts -> forall y,
                     fold_left (fun model t => if t_is_identity lid t then model else transform text lf lid t model) l y = y).
          { induction l as [|t l IHl]; intros Hincl z; cbn [fold_left]; [reflexivity|].
            rewrite (H t) by (apply Hincl; now left). apply IHl. intros u Hu. apply Hincl. now right. }
          apply G, incl_refl. }
      revert x. induction IH as [|t ts Ht _ IHts]; intros x; cbn [fold_left flat_map]; [reflexivity|].
      inversion Hid as [|? ? Hidt Hidts]; subst. rewrite fold_left_app, <- Ht.
      destruct (t_is_identity lid t) eqn:E.
      + rewrite (Hidt eq_refl x). now apply IHts.
      + now apply IHts.
  Qed.
End Pipe.
