(** Link between the two layers: the list-of-lines view used by the document reader is what ParseSource
    shows while the reader moves through a file line by line. *)
From Coq Require Import NArith List Bool Arith Lia.
From Exactly Require Import Model.Doc Proofs.DocParseSource.
Import ListNotations.
Local Open Scope N_scope.

(** ParseSource positioned at the start of the first of the remaining lines [ls], [k] lines consumed *)
Definition ps_at (k : nat) (ls : list text) : psrc :=
  match ls with
  | [] => PSrc [] 0 None []
  | l :: _ => PSrc (join_lines ls) 0 (Some (1 + N.of_nat k)) l
  end.

Definition line_ok (l : text) : Prop := no_nl l.

Lemma first_line_app_nl : forall l r, no_nl l -> first_line (l ++ NL :: r) = l.
Proof.
  induction l as [|c l IH]; intros r H; unfold first_line in *; cbn.
  - reflexivity.
  - unfold no_nl in H. rewrite count_nl_cons in H. destruct (c =? NL) eqn:E; [cbn in H; lia|].
    cbn. f_equal. apply IH. unfold no_nl. cbn in H. lia.
Qed.

Lemma first_line_no_nl_id : forall l, no_nl l -> first_line l = l.
Proof.
  induction l as [|c l IH]; intros H; unfold first_line in *; cbn; [reflexivity|].
  unfold no_nl in H. rewrite count_nl_cons in H. destruct (c =? NL) eqn:E; [cbn in H; lia|].
  cbn. f_equal. apply IH. unfold no_nl. cbn in H. lia.
Qed.

Lemma after_first_nl_app : forall l r, no_nl l -> after_first_nl (l ++ NL :: r) = Some r.
Proof.
  induction l as [|c l IH]; intros r H; cbn.
  - reflexivity.
  - unfold no_nl in H. rewrite count_nl_cons in H. destruct (c =? NL) eqn:E; [cbn in H; lia|].
    apply IH. unfold no_nl. cbn in H. lia.
Qed.

Lemma after_first_nl_none : forall l, no_nl l -> after_first_nl l = None.
Proof.
  induction l as [|c l IH]; intros H; cbn; [reflexivity|].
  unfold no_nl in H. rewrite count_nl_cons in H. destruct (c =? NL) eqn:E; [cbn in H; lia|].
  apply IH. unfold no_nl. cbn in H. lia.
Qed.

(** the source string of a file is the join of its lines; ParseSource starts at [ps_at 0] *)
Lemma ps_init_lines : forall l ls, Forall line_ok (l :: ls) -> ps_init (join_lines (l :: ls)) = ps_at 0 (l :: ls).
Proof.
  intros l ls H. apply Forall_cons_iff in H as [Hl _]. unfold ps_init, ps_at. f_equal.
  destruct ls as [|l' r]; cbn [join_lines].
  - apply first_line_no_nl_id. assumption.
  - apply first_line_app_nl. assumption.
Qed.

(** consuming the current line moves to the next line of the list, number + 1; after the last line there is
    no current line *)
Lemma ps_consume_line_lines : forall k l ls,
    Forall line_ok (l :: ls) -> ps_consume_current_line (ps_at k (l :: ls)) = Some (ps_at (S k) ls).
Proof.
  intros k l ls H. apply Forall_cons_iff in H as [Hl Hls]. unfold ps_consume_current_line, ps_at. cbn [ps_line ps_src].
  destruct ls as [|l' r]; cbn [join_lines].
  - rewrite (after_first_nl_none l Hl). reflexivity.
  - rewrite (after_first_nl_app l _ Hl). replace (1 + N.of_nat k + 1) with (1 + N.of_nat (S k)) by lia.
    f_equal. f_equal.
    apply Forall_cons_iff in Hls as [Hl' _].
    destruct r as [|l'' r']; cbn [join_lines]; [apply first_line_no_nl_id|apply first_line_app_nl]; assumption.
Qed.

(** the reader's end-of-file test on the list of lines is ParseSource.is_at_eof *)
Lemma ps_at_eof_lines : forall k ls, ps_is_at_eof (ps_at k ls) = at_eof ls.
Proof.
  intros k [|l [|l' r]]; try reflexivity.
  - destruct l; reflexivity.
  - unfold ps_at, ps_is_at_eof. cbn [ps_line ps_col ps_src join_lines at_eof].
    rewrite app_length. cbn [length]. apply Nat.eqb_neq. lia.
Qed.

(** ... and the current line (number, text) is (k + 1, head of the list) *)
Lemma ps_at_current : forall k l ls, ps_line (ps_at k (l :: ls)) = Some (1 + N.of_nat k) /\ ps_cur (ps_at k (l :: ls)) = l.
Proof. intros. split; reflexivity. Qed.
