(** Termination of the suite-hierarchy reader (C16): the fuel [S (length fs)] given by [read_root]
    is never exhausted — every nested read is of a file that was not visited before, and only
    files present in the file system are descended into, so the nesting depth is bounded by the
    number of files.  Hence [EOutOfFuel] is not an outcome of [read_root], and INVALID_SUITE is
    never the artefact of the model's totalisation. *)
From Coq Require Import ZArith NArith List Bool Lia.
From Exactly Require Import Model.Outcome Model.Suite.
Import ListNotations.

(** the nested fixpoint of [read], as a function of the reader for sub-suites *)
Fixpoint read_subs (rd : list fname -> fname -> read_error + (hierarchy * list fname))
         (ps : list fname) (v : list fname) : read_error + (list hierarchy * list fname) :=
  match ps with
  | [] => inr ([], v)
  | q :: ps' =>
      match rd v q with
      | inl e => inl e
      | inr (h, v') =>
          match read_subs rd ps' v' with
          | inl e => inl e
          | inr (hs, v'') => inr (h :: hs, v'')
          end
      end
  end.

Lemma read_unfold fuel fs visited p :
  read (S fuel) fs visited p =
  match lookup fs p with
  | None => inl ENotAccessible
  | Some SBad => inl EParse
  | Some (SGood ss cs) =>
      match resolve_suites visited ss with
      | inl e => inl e
      | inr (sub_paths, visited1) =>
          match resolve_cases cs with
          | inl e => inl e
          | inr case_paths =>
              match read_subs (read fuel fs) sub_paths visited1 with
              | inl e => inl e
              | inr (hs, v) => inr (H p hs case_paths, v)
              end
          end
      end
  end.
Proof.
  cbn [read]. destruct (lookup fs p) as [[|ss cs]|]; try reflexivity.
  destruct (resolve_suites visited ss) as [e|[sub_paths visited1]]; try reflexivity.
  destruct (resolve_cases cs) as [e|case_paths]; try reflexivity.
  assert (E : forall ps v,
             (fix subs (ps : list fname) (v : list fname) : read_error + (list hierarchy * list fname) :=
                match ps with
                | [] => inr ([], v)
                | q :: ps' =>
                    match read fuel fs v q with
                    | inl e => inl e
                    | inr (h, v') =>
                        match subs ps' v' with
                        | inl e => inl e
                        | inr (hs, v'') => inr (h :: hs, v'')
                        end
                    end
                end) ps v = read_subs (read fuel fs) ps v).
  { induction ps as [|q ps IH]; intros v; [reflexivity|].
    cbn [read_subs]. destruct (read fuel fs v q) as [e|[h v']]; [reflexivity|]. rewrite IH. reflexivity. }
  rewrite E. reflexivity.
Qed.

Lemma mem_N_In x l : mem_N x l = true <-> In x l.
Proof.
  unfold mem_N. rewrite existsb_exists. split.
  - intros (y & Hy & E). apply N.eqb_eq in E. subst. exact Hy.
  - intros H. exists x. split; [exact H|apply N.eqb_refl].
Qed.

(** [check_double]: the paths are new w.r.t. [visited] and distinct; the result extends [visited]. *)
Lemma check_double_spec paths : forall visited v',
  check_double visited paths = Some v' ->
  (forall q, In q paths -> ~ In q visited) /\ NoDup paths /\ incl visited v' /\ incl paths v'.
Proof.
  induction paths as [|p ps IH]; cbn [check_double]; intros visited v' E.
  - injection E as <-. split; [intros ? []|]. split; [apply NoDup_nil|]. split; [apply incl_refl|intros ? []].
  - destruct (mem_N p visited) eqn:M; [discriminate|].
    assert (Hp : ~ In p visited) by (intros Hin; apply mem_N_In in Hin; congruence).
    destruct (IH _ _ E) as (Hnew & Hnd & Hinc & Hps).
    repeat split.
    + intros q [<-|Hq]; [exact Hp|]. intros Hv. apply (Hnew q Hq). right. exact Hv.
    + constructor; [|exact Hnd]. intros Hin. apply (Hnew p Hin). left. reflexivity.
    + intros x Hx. apply Hinc. right. exact Hx.
    + intros x [<-|Hx]; [apply Hinc; left; reflexivity|apply Hps; exact Hx].
Qed.

Lemma resolve_suites_spec is_ : forall visited ps v1,
  resolve_suites visited is_ = inr (ps, v1) ->
  (forall q, In q ps -> ~ In q visited) /\ incl visited v1 /\ incl ps v1.
Proof.
  induction is_ as [|i is_ IH]; cbn [resolve_suites]; intros visited ps v1 E.
  - injection E as <- <-. split; [intros ? []|]. split; [apply incl_refl|intros ? []].
  - destruct (resolve_instr i) as [paths|]; [|discriminate].
    destruct (check_double visited paths) as [visited'|] eqn:C; [|discriminate].
    destruct (resolve_suites visited' is_) as [e|[rest v]] eqn:R; [discriminate|].
    injection E as <- <-.
    destruct (check_double_spec _ _ _ C) as (Hnew & _ & Hinc & Hpaths).
    destruct (IH _ _ _ R) as (Hnew' & Hinc' & Hrest).
    repeat split.
    + intros q Hq. apply in_app_or in Hq as [Hq|Hq]; [apply Hnew; exact Hq|].
      intros Hv. apply (Hnew' q Hq). apply Hinc. exact Hv.
    + intros x Hx. apply Hinc', Hinc, Hx.
    + intros x Hx. apply in_app_or in Hx as [Hx|Hx]; [apply Hinc', Hpaths, Hx|apply Hrest, Hx].
Qed.

(** the visited set only grows *)
Lemma read_mono fuel fs : forall v p h v', read fuel fs v p = inr (h, v') -> incl v v'.
Proof.
  induction fuel as [|fuel IH]; intros v p h v' E; [discriminate|].
  rewrite read_unfold in E.
  destruct (lookup fs p) as [[|ss cs]|]; try discriminate.
  destruct (resolve_suites v ss) as [e|[sub_paths visited1]] eqn:R; [discriminate|].
  destruct (resolve_cases cs) as [e|case_paths]; [discriminate|].
  destruct (read_subs (read fuel fs) sub_paths visited1) as [e|[hs v2]] eqn:S; [discriminate|].
  injection E as _ <-.
  destruct (resolve_suites_spec _ _ _ _ R) as (_ & Hinc & _).
  assert (Hsubs : forall ps w hs' w', read_subs (read fuel fs) ps w = inr (hs', w') -> incl w w').
  { induction ps as [|q ps IHps]; cbn [read_subs]; intros w hs' w' E'.
    - injection E' as _ <-. apply incl_refl.
    - destruct (read fuel fs w q) as [e|[h1 w1]] eqn:Rq; [discriminate|].
      destruct (read_subs (read fuel fs) ps w1) as [e|[hs1 w2]] eqn:Rs; [discriminate|].
      injection E' as _ <-. intros x Hx. eapply IHps; [exact Rs|]. eapply IH; [exact Rq|exact Hx]. }
  intros x Hx. eapply Hsubs; [exact S|]. apply Hinc, Hx.
Qed.

Lemma lookup_some_in fs : forall p, lookup fs p <> None -> In p (map fst fs).
Proof.
  induction fs as [|[q f] fs IH]; cbn [lookup map fst]; intros p Hp; [congruence|].
  destruct (N.eqb p q) eqn:E; [left; apply N.eqb_eq in E; congruence|right; apply IH, Hp].
Qed.

(** pigeonhole: distinct files present in the file system are at most [length fs] *)
Lemma known_bound fs anc : NoDup anc -> (forall a, In a anc -> lookup fs a <> None) -> length anc <= length fs.
Proof.
  intros Hnd Hk. rewrite <- (map_length fst fs). apply NoDup_incl_length; [exact Hnd|].
  intros a Ha. apply lookup_some_in, Hk, Ha.
Qed.

(** The invariant: [anc] is the chain of suites being read above [p]; all of them are distinct,
    present, and already visited. *)
Lemma read_fuel_enough fuel fs : forall anc v p,
  NoDup anc -> (forall a, In a anc -> lookup fs a <> None) -> ~ In p anc -> incl (p :: anc) v ->
  length fs < length anc + fuel ->
  read fuel fs v p <> inl EOutOfFuel.
Proof.
  induction fuel as [|fuel IH]; intros anc v p Hnd Hk Hp Hinc Hlen.
  - pose proof (known_bound fs anc Hnd Hk). lia.
  - rewrite read_unfold.
    destruct (lookup fs p) as [[|ss cs]|] eqn:L; try discriminate.
    destruct (resolve_suites v ss) as [e|[sub_paths visited1]] eqn:R.
    { (* errors of resolve_suites are never EOutOfFuel *)
      clear - R. revert v e R. induction ss as [|i ss IHs]; cbn [resolve_suites]; intros v e R; [discriminate|].
      destruct (resolve_instr i); [|injection R as <-; discriminate].
      destruct (check_double v l); [|injection R as <-; discriminate].
      destruct (resolve_suites l0 ss) as [e'|[? ?]] eqn:R'; [|discriminate].
      injection R as <-. eapply IHs. exact R'. }
    destruct (resolve_cases cs) as [e|case_paths] eqn:C.
    { clear - C. revert e C. induction cs as [|i cs IHc]; cbn [resolve_cases]; intros e C; [discriminate|].
      destruct (resolve_instr i); [|injection C as <-; discriminate].
      destruct (resolve_cases cs) as [e'|?] eqn:C'; [|discriminate].
      injection C as <-. eapply IHc. reflexivity. }
    destruct (resolve_suites_spec _ _ _ _ R) as (Hnew & Hinc1 & Hps).
    assert (Hnd' : NoDup (p :: anc)) by (constructor; assumption).
    assert (Hk' : forall a, In a (p :: anc) -> lookup fs a <> None).
    { intros a [<-|Ha]; [congruence|apply Hk, Ha]. }
    assert (Hsubs : forall ps w, incl ps sub_paths -> incl (p :: anc) w -> incl ps w ->
                                 read_subs (read fuel fs) ps w <> inl EOutOfFuel).
    { induction ps as [|q ps IHps]; cbn [read_subs]; intros w Hsub Hw Hpsw; [discriminate|].
      destruct (read fuel fs w q) as [e|[h1 w1]] eqn:Rq.
      - intros E. injection E as ->. revert Rq. apply (IH (p :: anc)); try assumption.
        + intros Hq. apply (Hnew q); [apply Hsub; left; reflexivity|apply Hinc, Hq].
        + intros x [<-|Hx]; [apply Hpsw; left; reflexivity|apply Hw, Hx].
        + cbn [length]. lia.
      - pose proof (read_mono _ _ _ _ _ _ Rq) as Hm.
        destruct (read_subs (read fuel fs) ps w1) as [e|[hs1 w2]] eqn:Rs; [|discriminate].
        intros E. injection E as ->. revert Rs. apply IHps.
        + intros x Hx. apply Hsub. right. exact Hx.
        + intros x Hx. apply Hm, Hw, Hx.
        + intros x Hx. apply Hm, Hpsw. right. exact Hx. }
    destruct (read_subs (read fuel fs) sub_paths visited1) as [e|[hs v2]] eqn:S; [|discriminate].
    intros E. injection E as ->. revert S. apply Hsubs.
    + apply incl_refl.
    + intros x Hx. apply Hinc1, Hinc, Hx.
    + exact Hps.
Qed.

Theorem read_root_never_out_of_fuel fs root : read_root fs root <> inl EOutOfFuel.
Proof.
  unfold read_root.
  destruct (read (S (length fs)) fs [root] root) as [e|[h v]] eqn:R; [|discriminate].
  intros E. injection E as ->. revert R.
  apply (read_fuel_enough _ _ []).
  - constructor.
  - intros a [].
  - intros [].
  - apply incl_refl.
  - cbn [length]. lia.
Qed.
