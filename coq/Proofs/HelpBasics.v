(** C20: lemmas about the data-structure models (dicts, stable sort, the derivation of parser dictionary and
    help from one list) and soundness of the boolean deciders of Spec/C20.v. *)
From Coq Require Import List Bool String Ascii Arith ZArith Lia Permutation.
From Exactly Require Import Lib.Harness Model.Help Spec.C20.
Import ListNotations.
Local Open Scope string_scope.

(** ** membership, subsets *)
Lemma mem_In : forall x l, mem x l = true <-> In x l.
Proof.
  intros x l. unfold mem. rewrite existsb_exists. split.
  - intros [y [Hy E]]. apply String.eqb_eq in E. subst. exact Hy.
  - intros H. exists x. split; [exact H | apply String.eqb_refl].
Qed.

Lemma mem_false_not_In : forall x l, mem x l = false <-> ~ In x l.
Proof.
  intros x l. rewrite <- mem_In. destruct (mem x l); split; intros H; congruence.
Qed.

Lemma subsetb_spec : forall l1 l2, subsetb l1 l2 = true <-> (forall x, In x l1 -> In x l2).
Proof.
  intros l1 l2. unfold subsetb. rewrite forallb_forall. split; intros H x Hx.
  - apply mem_In. apply H. exact Hx.
  - apply mem_In. apply H. exact Hx.
Qed.

Lemma agreeb_agree : forall l1 l2, agreeb l1 l2 = true <-> agree l1 l2.
Proof.
  intros l1 l2. unfold agreeb, agree. rewrite andb_true_iff, !subsetb_spec. split.
  - intros [H1 H2] x. split; [apply H1 | apply H2].
  - intros H. split; intros x Hx; apply H; exact Hx.
Qed.

Lemma argv_eqb_eq : forall a b, argv_eqb a b = true <-> a = b.
Proof. intros a b. unfold argv_eqb. apply list_eqb_eq. intros x y. apply String.eqb_eq. Qed.

Lemma countb_count_occ : forall x l, countb x l = count_occ string_dec l x.
Proof.
  intros x l. induction l as [|y l IH]; cbn [countb count_occ]; [reflexivity|].
  destruct (string_dec y x) as [E|N].
  - subst. rewrite String.eqb_refl. rewrite IH. reflexivity.
  - apply String.eqb_neq in N. rewrite N. rewrite IH. reflexivity.
Qed.

Lemma no_dead_linksb_spec : forall ids hrefs, no_dead_linksb ids hrefs = true <-> no_dead_links ids hrefs.
Proof.
  intros ids hrefs. unfold no_dead_linksb, no_dead_links. rewrite forallb_forall. split; intros H h Hh.
  - specialize (H h Hh). apply Nat.eqb_eq in H. rewrite <- countb_count_occ. exact H.
  - apply Nat.eqb_eq. rewrite countb_count_occ. apply H. exact Hh.
Qed.

Lemma displayed_successfullyb_spec : forall r, displayed_successfullyb r = true <-> displayed_successfully r.
Proof.
  intros r. unfold displayed_successfullyb, displayed_successfully.
  rewrite !andb_true_iff, Z.eqb_eq, negb_true_iff. tauto.
Qed.

Lemma has_successful_runb_spec : forall runs argv,
  has_successful_runb runs argv = true <-> has_successful_run runs argv.
Proof.
  intros runs argv. unfold has_successful_runb, has_successful_run. rewrite existsb_exists. split.
  - intros [r [Hr E]]. apply andb_true_iff in E as [E1 E2]. exists r. split; [exact Hr|]. split.
    + apply argv_eqb_eq. exact E1.
    + apply displayed_successfullyb_spec. exact E2.
  - intros [r [Hr [E1 E2]]]. exists r. split; [exact Hr|]. apply andb_true_iff. split.
    + apply argv_eqb_eq. exact E1.
    + apply displayed_successfullyb_spec. exact E2.
Qed.

(** ** the boolean decider of the whole property is sound and complete for the declarative one *)
Lemma mode_okb_spec : forall documented m, mode_okb documented m = true <-> mode_ok documented m.
Proof.
  intros documented m. unfold mode_okb, mode_ok. rewrite andb_true_iff, forallb_forall, subsetb_spec.
  split; intros [H1 H2]; (split; [|exact H2]).
  - intros n Hn. specialize (H1 n Hn). apply Bool.eqb_prop in H1. rewrite <- !mem_In. rewrite H1. reflexivity.
  - intros n Hn. specialize (H1 n Hn). rewrite <- !mem_In in H1.
    destruct (mem n (mo_accepted m)), (mem n documented); try reflexivity; exfalso.
    + assert (F : false = true) by (apply H1; reflexivity). discriminate.
    + assert (F : false = true) by (apply H1; reflexivity). discriminate.
Qed.

Lemma modes_okb_spec : forall documented ms,
  forallb (mode_okb documented) ms = true <-> (forall m, In m ms -> mode_ok documented m).
Proof.
  intros documented ms. rewrite forallb_forall. split; intros H m Hm; apply mode_okb_spec; apply H; exact Hm.
Qed.

Lemma phase_okb_spec : forall i p, phase_okb i p = true <-> phase_ok i p.
Proof.
  intros i p. unfold phase_okb, phase_ok. rewrite !andb_true_iff, !agreeb_agree, forallb_forall, modes_okb_spec.
  split.
  - intros [[[[H1 H2] H3] H4] H5]. split; [exact H1|]. split; [|split; [exact H3 | split; [exact H4 | exact H5]]].
    intros n Hn. apply has_successful_runb_spec. apply H2. exact Hn.
  - intros [H1 [H2 [H3 [H4 H5]]]]. split; [split; [split; [split; [exact H1|] | exact H3] | exact H4] | exact H5].
    intros n Hn. apply has_successful_runb_spec. apply H2. exact Hn.
Qed.

Lemma entity_okb_spec : forall i e, entity_okb i e = true <-> entity_ok i e.
Proof.
  intros i e. unfold entity_okb, entity_ok. rewrite !andb_true_iff, !agreeb_agree, forallb_forall, modes_okb_spec.
  split.
  - intros [[[H1 H2] H3] H4]. split; [exact H1|]. split; [|split; [exact H3 | exact H4]].
    intros n Hn. apply has_successful_runb_spec. apply H2. exact Hn.
  - intros [H1 [H2 [H3 H4]]]. split; [split; [split; [exact H1|] | exact H3] | exact H4].
    intros n Hn. apply has_successful_runb_spec. apply H2. exact Hn.
Qed.

Lemma suite_okb_spec : forall i s, suite_okb i s = true <-> suite_ok i s.
Proof.
  intros i s. unfold suite_okb, suite_ok. rewrite !andb_true_iff, agreeb_agree, forallb_forall, modes_okb_spec.
  split.
  - intros [[H1 H2] H3]. split; [exact H1|]. split; [|exact H3].
    intros n Hn. specialize (H2 n Hn). apply orb_true_iff in H2 as [H2|H2].
    + left. apply has_successful_runb_spec. exact H2.
    + right. apply existsb_exists in H2 as [ph [Hph H2]]. exists ph. split; [exact Hph|].
      apply has_successful_runb_spec. exact H2.
  - intros [H1 [H2 H3]]. split; [split; [exact H1|] | exact H3].
    intros n Hn. specialize (H2 n Hn). apply orb_true_iff. destruct H2 as [H2|[ph [Hph H2]]].
    + left. apply has_successful_runb_spec. exact H2.
    + right. apply existsb_exists. exists ph. split; [exact Hph|]. apply has_successful_runb_spec. exact H2.
Qed.

Lemma C20_holdsb_spec : forall i, C20_holdsb i = true <-> C20_holds i.
Proof.
  intros i. unfold C20_holdsb, C20_holds. rewrite !andb_true_iff, !forallb_forall, no_dead_linksb_spec.
  split.
  - intros [[[[H1 H2] H3] H4] H5]. split; [|split; [|split; [|split]]].
    + intros p Hp. apply phase_okb_spec. apply H1. exact Hp.
    + intros s Hs. apply suite_okb_spec. apply H2. exact Hs.
    + intros e He. apply entity_okb_spec. apply H3. exact He.
    + intros t Ht. specialize (H4 t Ht). apply existsb_exists in H4 as [e [He E]].
      exists e. split; [exact He|]. apply String.eqb_eq. exact E.
    + exact H5.
  - intros [H1 [H2 [H3 [H4 H5]]]]. repeat split.
    + intros p Hp. apply phase_okb_spec. apply H1. exact Hp.
    + intros s Hs. apply suite_okb_spec. apply H2. exact Hs.
    + intros e He. apply entity_okb_spec. apply H3. exact He.
    + intros t Ht. destruct (H4 t Ht) as [e [He E]]. apply existsb_exists. exists e. split; [exact He|].
      apply String.eqb_eq. exact E.
    + exact H5.
Qed.

(** ** Python dicts *)
Section DictLemmas.
  Context {V : Type}.

  Lemma dict_set_keys : forall k (v : V) d x,
    In x (dict_keys (dict_set k v d)) <-> x = k \/ In x (dict_keys d).
  Proof.
    intros k v d x. induction d as [|[k' v'] d IH]; cbn [dict_set dict_keys map fst].
    - cbn. intuition.
    - destruct (String.eqb k k') eqn:E.
      + apply String.eqb_eq in E. subst. cbn. intuition.
      + cbn [map fst In]. unfold dict_keys in IH. rewrite IH. intuition.
  Qed.

  Lemma dict_set_entries : forall k (v : V) d k0 v0,
    In (k0, v0) (dict_set k v d) -> (k0 = k /\ v0 = v) \/ In (k0, v0) d.
  Proof.
    intros k v d k0 v0. induction d as [|[k' v'] d IH]; cbn [dict_set].
    - cbn. intros [E|[]]. injection E as <- <-. left. split; reflexivity.
    - destruct (String.eqb k k') eqn:E.
      + apply String.eqb_eq in E. subst. cbn. intros [E|H].
        * injection E as <- <-. left. split; reflexivity.
        * right. right. exact H.
      + cbn. intros [E'|H].
        * right. left. exact E'.
        * destruct (IH H) as [H'|H']; [left; exact H' | right; right; exact H'].
  Qed.

  Lemma dict_set_NoDup : forall k (v : V) d, NoDup (dict_keys d) -> NoDup (dict_keys (dict_set k v d)).
  Proof.
    intros k v d. induction d as [|[k' v'] d IH]; cbn [dict_set dict_keys map fst]; intros H.
    - constructor; [intros []|constructor].
    - destruct (String.eqb k k') eqn:E.
      + exact H.
      + cbn [map fst]. inversion H as [|? ? Hn Hd]; subst. constructor.
        * intros Hin. apply (dict_set_keys k v d k') in Hin. destruct Hin as [Hin|Hin].
          -- subst. rewrite String.eqb_refl in E. discriminate.
          -- apply Hn. exact Hin.
        * apply IH. exact Hd.
  Qed.

  Lemma fold_dict_set_keys : forall (l : list (string * V)) d x,
    In x (dict_keys (fold_left (fun d kv => dict_set (fst kv) (snd kv) d) l d)) <-> In x (map fst l) \/ In x (dict_keys d).
  Proof.
    induction l as [|[k v] l IH]; intros d x; cbn [fold_left map fst snd].
    - cbn. intuition.
    - rewrite IH. rewrite dict_set_keys. cbn [In]. intuition.
  Qed.

  Lemma dict_of_pairs_keys : forall (l : list (string * V)) x,
    In x (dict_keys (dict_of_pairs l)) <-> In x (map fst l).
  Proof. intros l x. unfold dict_of_pairs. rewrite fold_dict_set_keys. cbn. intuition. Qed.

  Lemma fold_dict_set_entries : forall (l : list (string * V)) d k v,
    In (k, v) (fold_left (fun d kv => dict_set (fst kv) (snd kv) d) l d) -> In (k, v) l \/ In (k, v) d.
  Proof.
    induction l as [|[k' v'] l IH]; intros d k v; cbn [fold_left fst snd].
    - intros H. right. exact H.
    - intros H. apply IH in H. destruct H as [H|H].
      + left. right. exact H.
      + apply dict_set_entries in H. destruct H as [[-> ->]|H]; [left; left; reflexivity | right; exact H].
  Qed.

  Lemma dict_of_pairs_entries : forall (l : list (string * V)) k v, In (k, v) (dict_of_pairs l) -> In (k, v) l.
  Proof. intros l k v H. apply fold_dict_set_entries in H. destruct H as [H|[]]. exact H. Qed.

  Lemma fold_dict_set_NoDup : forall (l : list (string * V)) d,
    NoDup (dict_keys d) -> NoDup (dict_keys (fold_left (fun d kv => dict_set (fst kv) (snd kv) d) l d)).
  Proof.
    induction l as [|[k v] l IH]; intros d H; cbn [fold_left fst snd]; [exact H|].
    apply IH. apply dict_set_NoDup. exact H.
  Qed.

  Lemma dict_of_pairs_NoDup : forall (l : list (string * V)), NoDup (dict_keys (dict_of_pairs l)).
  Proof. intros l. apply fold_dict_set_NoDup. constructor. Qed.

  Lemma dict_mem_In : forall k (d : dict V), dict_mem k d = true <-> In k (dict_keys d).
  Proof. intros. unfold dict_mem. apply mem_In. Qed.

  Lemma dict_get_Some_iff_mem : forall k (d : dict V), (exists v, dict_get k d = Some v) <-> In k (dict_keys d).
  Proof.
    intros k d. induction d as [|[k' v'] d IH]; cbn [dict_get dict_keys map fst In].
    - split; [intros [v H]; discriminate | intros []].
    - destruct (String.eqb k k') eqn:E.
      + apply String.eqb_eq in E. subst. split; [intros _; left; reflexivity | intros _; exists v'; reflexivity].
      + apply String.eqb_neq in E. unfold dict_keys in IH. rewrite IH. split; [intros H; right; exact H|].
        intros [H|H]; [congruence | exact H].
  Qed.

  Lemma dict_get_In : forall k (d : dict V) v, dict_get k d = Some v -> In (k, v) d.
  Proof.
    intros k d v. induction d as [|[k' v'] d IH]; cbn [dict_get]; [discriminate|].
    destruct (String.eqb k k') eqn:E.
    - apply String.eqb_eq in E. subst. intros H. injection H as ->. left. reflexivity.
    - intros H. right. apply IH. exact H.
  Qed.
End DictLemmas.

(** ** stable sort is a permutation *)
Section SortLemmas.
  Context {A : Type}.
  Variable key : A -> string.

  Lemma insert_by_perm : forall x l, Permutation (x :: l) (insert_by key x l).
  Proof.
    intros x l. induction l as [|y l IH]; cbn [insert_by]; [apply Permutation_refl|].
    destruct (String.leb (key x) (key y)); [apply Permutation_refl|].
    eapply perm_trans; [apply perm_swap|]. apply perm_skip. exact IH.
  Qed.

  Lemma sort_by_perm : forall l, Permutation l (sort_by key l).
  Proof.
    induction l as [|x l IH]; cbn [sort_by fold_right]; [apply perm_nil|].
    eapply perm_trans; [|apply insert_by_perm]. apply perm_skip. exact IH.
  Qed.

  Lemma sort_by_In : forall l x, In x (sort_by key l) <-> In x l.
  Proof.
    intros l x. split; intros H.
    - eapply Permutation_in; [apply Permutation_sym; apply sort_by_perm | exact H].
    - eapply Permutation_in; [apply sort_by_perm | exact H].
  Qed.
End SortLemmas.

(** ** One list, two views: the structural reason why help and parser agree *)
Section SameSource.
  Context {parser doc : Type}.
  Variable doc_name : doc -> string.

  (** every setup constructor gives its documentation the name it is registered under *)
  Definition name_faithful (l : @ctor_list parser doc) : Prop :=
    forall n c, In (n, c) l -> doc_name (snd (c n)) = n.

  Lemma instruction_set_entries : forall (l : @ctor_list parser doc) k v,
    In (k, v) (instruction_set_from l) -> exists c, In (k, c) l /\ v = c k.
  Proof.
    intros l k v H. unfold instruction_set_from in H. apply dict_of_pairs_entries in H.
    apply in_map_iff in H as [[n c] [E Hin]]. cbn [fst snd] in E. injection E as <- <-.
    exists c. split; [exact Hin | reflexivity].
  Qed.

  Lemma instruction_set_keys : forall (l : @ctor_list parser doc) x,
    In x (dict_keys (instruction_set_from l)) <-> In x (map fst l).
  Proof.
    intros l x. unfold instruction_set_from. rewrite dict_of_pairs_keys. rewrite map_map. cbn [fst]. reflexivity.
  Qed.

  Lemma listed_names_In : forall (d : dict (@setup parser doc)) x,
    In x (listed_names doc_name d) <-> exists k v, In (k, v) d /\ doc_name (snd v) = x.
  Proof.
    intros d x. unfold listed_names, section_instruction_set. rewrite in_map_iff. split.
    - intros [y [E Hy]]. apply sort_by_In in Hy. apply in_map_iff in Hy as [[k v] [E' Hkv]].
      exists k, v. split; [exact Hkv|]. cbn [snd] in E'. rewrite E'. exact E.
    - intros [k [v [Hkv E]]]. exists (snd v). split; [exact E|]. apply sort_by_In.
      apply in_map_iff. exists (k, v). split; [reflexivity | exact Hkv].
  Qed.

  Theorem same_source_same_names : forall (l : @ctor_list parser doc),
    name_faithful l ->
    forall x, In x (listed_names doc_name (instruction_set_from l)) <-> parser_accepts (instruction_set_from l) x = true.
  Proof.
    intros l HF x. unfold parser_accepts. rewrite dict_mem_In. rewrite listed_names_In. split.
    - intros [k [v [Hkv E]]]. destruct (instruction_set_entries l k v Hkv) as [c [Hc ->]].
      rewrite (HF k c Hc) in E. subst x.
      change (In k (dict_keys (instruction_set_from l))). unfold dict_keys.
      apply in_map_iff. exists (k, c k). split; [reflexivity | exact Hkv].
    - intros H. unfold dict_keys in H. apply in_map_iff in H as [[k v] [E Hkv]]. cbn [fst] in E. subst k.
      exists x, v. split; [exact Hkv|]. destruct (instruction_set_entries l x v Hkv) as [c [Hc ->]].
      apply HF. exact Hc.
  Qed.

  (** ... and the help can be looked up under exactly those names *)
  Theorem same_source_help_keys : forall (l : @ctor_list parser doc),
    name_faithful l ->
    forall x, In x (help_keys doc_name (instruction_set_from l)) <-> parser_accepts (instruction_set_from l) x = true.
  Proof.
    intros l HF x. rewrite <- (same_source_same_names l HF x).
    unfold help_keys, name_2_description. rewrite dict_of_pairs_keys. rewrite map_map. cbn [fst].
    unfold listed_names. reflexivity.
  Qed.

  (** accepted names are exactly the names in the list the program was built from *)
  Theorem accepted_iff_registered : forall (l : @ctor_list parser doc) x,
    parser_accepts (instruction_set_from l) x = true <-> In x (map fst l).
  Proof. intros l x. unfold parser_accepts. rewrite dict_mem_In. apply instruction_set_keys. Qed.
End SameSource.
