(** C08: the depth-first walk [check_indirect] visits exactly the names the specification records as
    reachable ([d_reach]), in the same order, when the environment is the one built from the table. *)
From Coq Require Import List Bool Arith NArith Lia.
From Exactly Require Import Lib.Harness Model.Exec Model.Symbols Spec.C08 Proofs.SymbolsLazy.
Import ListNotations.

Section Reach.
  Variable roots : rel -> text.

  (** the specification's environment of a table *)
  Inductive Aligned : table -> env -> Prop :=
  | Aligned_nil : Aligned [] []
  | Aligned_cons n c t e : Aligned t e -> Aligned ((n, c) :: t) (define roots e n c).

  Lemma aligned_env_of_table t : Aligned t (env_of_table roots t).
  Proof. induction t as [|[n c] t IH]; cbn; constructor; exact IH. Qed.

  Lemma aligned_find_none t e n : Aligned t e -> lookup t n = None -> find e n = None.
  Proof.
    induction 1 as [|n0 c0 t e _ IH]; intros H; [reflexivity|]. cbn [lookup find define d_name] in *.
    destruct (N.eqb n0 n); [discriminate|]. apply IH. exact H.
  Qed.
  Lemma aligned_find_some t e n c :
    Aligned t e -> lookup t n = Some c -> exists d, find e n = Some d /\ d_type d = c_type c.
  Proof.
    induction 1 as [|n0 c0 t e _ IH]; intros H; [discriminate|]. cbn [lookup find define d_name] in *.
    destruct (N.eqb n0 n).
    - injection H as <-. eexists. split; reflexivity.
    - apply IH. exact H.
  Qed.

  (** the first restriction failure along a list of names *)
  Fixpoint scan (T : table) (v : vrestr) (ns : list name) : sat :=
    match ns with
    | [] => Sat
    | n :: ns' =>
        match lookup T n with
        | None => SatExn (XKeyError n)
        | Some c => match vrestr_sat roots T v c with Sat => scan T v ns' | other => other end
        end
    end.
  Lemma scan_app T v a b : scan T v (a ++ b) = match scan T v a with Sat => scan T v b | o => o end.
  Proof.
    induction a as [|n a IH]; [reflexivity|]. cbn [scan app].
    destruct (lookup T n); [|reflexivity]. destruct (vrestr_sat roots T v c); [exact IH|reflexivity|reflexivity].
  Qed.

  Lemma check_refs_cons T direct rec r rs :
    check_refs T direct rec (r :: rs) =
    match check_refs T direct rec [r] with Sat => check_refs T direct rec rs | o => o end.
  Proof.
    cbn [check_refs]. destruct (lookup T (r_name r)); [|reflexivity].
    destruct (direct c); [|reflexivity|reflexivity]. destruct (rec _); reflexivity.
  Qed.

  Lemma reach_of_cons (e : env) r rs : reach_of e (r :: rs) = reach_of e [r] ++ reach_of e rs.
  Proof. unfold reach_of. cbn [flat_map]. now rewrite app_nil_r. Qed.

  Lemma check_indirect_scan T v t :
    Closed t ->
    forall e pre, Aligned t e -> T = pre ++ t ->
      (forall k, lookup t k <> None -> lookup pre k = None) ->
      forall rs f, (forall r, In r rs -> lookup t (r_name r) <> None) -> length t <= f ->
        check_indirect roots (S f) T v rs = scan T v (reach_of e rs).
  Proof.
    induction 1 as [|n0 c0 t Hcl IH Hfresh Hrefs]; intros e pre Hal HT Hdisj rs f Hb Hf.
    - destruct rs as [|r rs]; [reflexivity|]. exfalso. apply (Hb r); [left; reflexivity|reflexivity].
    - inversion Hal as [|n' c' t' e' Hal' E1 E2]; subst n' c' t' e. clear Hal.
      assert (HT' : T = (pre ++ [(n0, c0)]) ++ t) by (rewrite <- app_assoc; exact HT).
      assert (Hdisj' : forall k, lookup t k <> None -> lookup (pre ++ [(n0, c0)]) k = None).
      { intros k Hk. apply lookup_snoc_none.
        - apply Hdisj. cbn [lookup]. destruct (N.eqb n0 k); [discriminate|exact Hk].
        - intros ->. contradiction. }
      (* one reference *)
      assert (Hone : forall r, lookup ((n0, c0) :: t) (r_name r) <> None ->
                 check_indirect roots (S f) T v [r] = scan T v (reach_of (define roots e' n0 c0) [r])).
      { intros r Hr. cbn [lookup] in Hr. destruct (N.eqb n0 (r_name r)) eqn:En.
        - apply N.eqb_eq in En. destruct r as [rn rr]. cbn [r_name] in *. subst rn.
          cbn [check_indirect check_refs r_name].
          assert (HlT : lookup T n0 = Some c0).
          { rewrite HT, lookup_app_r; [cbn [lookup]; rewrite N.eqb_refl; reflexivity|].
            apply Hdisj. cbn [lookup]. rewrite N.eqb_refl. discriminate. }
          rewrite HlT. unfold reach_of. cbn [flat_map find define d_name d_reach r_name]. rewrite N.eqb_refl.
          cbn [d_reach]. rewrite app_nil_r. cbn [scan]. rewrite HlT.
          destruct (vrestr_sat roots T v c0); [|reflexivity|reflexivity].
          cbn [length] in Hf. destruct f as [|f']; [lia|].
          rewrite (IH e' (pre ++ [(n0, c0)]) Hal' HT' Hdisj' (sdv_refs (c_sdv c0)) f' Hrefs) by lia.
          fold (reach_of e' (sdv_refs (c_sdv c0))).
          destruct (scan T v (reach_of e' (sdv_refs (c_sdv c0)))); reflexivity.
        - rewrite (IH e' (pre ++ [(n0, c0)]) Hal' HT' Hdisj' [r] f).
          + unfold reach_of. cbn [flat_map find define d_name]. rewrite En. reflexivity.
          + intros r' [<-|[]]. exact Hr.
          + cbn [length] in Hf. lia. }
      induction rs as [|r rs IHrs]; [reflexivity|].
      rewrite (reach_of_cons _ r rs), scan_app.
      cbn [check_indirect]. rewrite check_refs_cons.
      change (check_refs T (vrestr_sat roots T v) (check_indirect roots f T v) [r])
        with (check_indirect roots (S f) T v [r]).
      rewrite Hone by (apply Hb; left; reflexivity).
      destruct (scan T v (reach_of (define roots e' n0 c0) [r])); try reflexivity.
      change (check_refs T (vrestr_sat roots T v) (check_indirect roots f T v) rs)
        with (check_indirect roots (S f) T v rs).
      apply IHrs. intros r' Hr'. apply Hb. right. exact Hr'.
  Qed.
End Reach.
