(** C02: the property predicates of [check_c02] and [check_usage] hold of the model's own output,
    for every output mode, every processing result and EVERY exit code of the action to check
    (the exit code is an unbounded [Z]; no enumeration of a sample is involved).

    The property half of [check_c02] compares the observed report with the documented table
    [doc_program_output]; the correspondence half compares it with the model [program_output].
    Since the model equals the documented table everywhere ([program_output_matches_doc]), the two
    halves are the same boolean on every case; in particular the predicate is true of the model's
    own report, and correspondence on an input implies the property on that input. *)
From Coq Require Import ZArith List Bool String.
From Exactly Require Import Lib.Harness Model.Outcome Spec.C02 Proofs.OutcomeTable.
Import ListNotations.
Local Open Scope Z_scope.

(** The model's own observation for a case constructed to end with processing result [r] under
    output mode [m]. *)
Definition obs_of_model_c02 (m : mode) (r : proc_result) : c02_case := C02Case m r (program_output m r).

Lemma out_item_eqb_eq a b : out_item_eqb a b = true <-> a = b.
Proof.
  destruct a as [x| | |], b as [y| | |]; cbn; split; intros H; try reflexivity; try discriminate.
  - apply String.eqb_eq in H. congruence.
  - injection H as ->. apply String.eqb_refl.
Qed.

Lemma opt_string_eqb_eq (a b : option string) : option_eqb String.eqb a b = true <-> a = b.
Proof.
  destruct a as [x|], b as [y|]; cbn; split; intros H; try reflexivity; try discriminate.
  - apply String.eqb_eq in H. congruence.
  - injection H as ->. apply String.eqb_refl.
Qed.

Lemma report_eqb_eq a b : report_eqb a b = true <-> a = b.
Proof.
  destruct a as [e1 o1 i1 a1], b as [e2 o2 i2 a2]. unfold report_eqb. cbn [r_exit r_out r_err_ident r_atc_err].
  rewrite !andb_true_iff, Z.eqb_eq, (list_eqb_eq _ out_item_eqb_eq), opt_string_eqb_eq, eqb_true_iff.
  split; [intros [[[-> ->] ->] ->]; reflexivity|intros [= -> -> -> ->]; auto].
Qed.

Lemma report_eqb_refl a : report_eqb a a = true.
Proof. apply report_eqb_eq. reflexivity. Qed.

(** the two halves of the check are the same boolean, on every case *)
Theorem check_c02_halves_agree : forall c, fst (check_c02 c) = snd (check_c02 c).
Proof. intros c. unfold check_c02. cbn [fst snd]. rewrite program_output_matches_doc. reflexivity. Qed.

(** the predicate holds of the model's own report *)
Theorem check_c02_on_model : forall m r, check_c02 (obs_of_model_c02 m r) = (true, true).
Proof.
  intros m r. unfold check_c02, obs_of_model_c02. cbn [cc_mode cc_result cc_obs].
  rewrite <- program_output_matches_doc, report_eqb_refl. reflexivity.
Qed.

Theorem corr_determines_obs_c02 : forall c, fst (check_c02 c) = true -> c = obs_of_model_c02 (cc_mode c) (cc_result c).
Proof. intros [m r o]. unfold check_c02, obs_of_model_c02. cbn. intros H. apply report_eqb_eq in H. congruence. Qed.

Theorem corr_implies_property_c02 : forall c, fst (check_c02 c) = true -> snd (check_c02 c) = true.
Proof. intros c H. rewrite <- check_c02_halves_agree. exact H. Qed.

(** invalid usage *)
Theorem check_usage_on_model : check_usage report_invalid_usage = (true, true).
Proof. reflexivity. Qed.

Theorem corr_implies_property_usage : forall obs, fst (check_usage obs) = true -> snd (check_usage obs) = true.
Proof. intros obs H. cbn [fst check_usage] in H. apply report_eqb_eq in H. subst obs. reflexivity. Qed.

(** The documented exit code and identifier, spelled out for the model's report in each mode when
    the exit code of the action is not passed through (independent restatement of what the
    predicate demands; all results, every [c]). *)
Theorem model_report_exit_and_ident : forall m r,
  passes_through m r = None ->
  let rep := cc_obs (obs_of_model_c02 m r) in
  r_exit rep = doc_exit (verdict_ident r) /\
  match m with
  | Normal => List.In (OIdent (ident_name (verdict_ident r))) (r_out rep) /\ r_err_ident rep = None
  | _ => r_err_ident rep = Some (ident_name (verdict_ident r))
  end.
Proof.
  intros m r H. cbn [obs_of_model_c02 cc_obs]. cbn zeta. rewrite program_output_matches_doc.
  unfold doc_program_output. rewrite H. destruct m; cbn; auto.
Qed.

Theorem model_report_pass_through : forall m r c,
  passes_through m r = Some c ->
  let rep := cc_obs (obs_of_model_c02 m r) in
  r_exit rep = c /\ r_err_ident rep = None /\ r_atc_err rep = true.
Proof.
  intros m r c H. cbn [obs_of_model_c02 cc_obs]. cbn zeta. rewrite program_output_matches_doc.
  unfold doc_program_output. rewrite H. cbn. auto.
Qed.

(** Non-vacuity: the predicate accepts the model's report and rejects perturbed ones. *)
Example c02_predicate_accepts_and_rejects :
  let good := program_output Keep (Executed FAIL true (Some 3)) in
  good = Report 32 [OSdsPath] (Some "FAIL"%string) false /\
  snd (check_c02 (C02Case Keep (Executed FAIL true (Some 3)) good)) = true /\
  snd (check_c02 (C02Case Keep (Executed FAIL true (Some 3)) (Report 0 [OSdsPath] (Some "FAIL"%string) false))) = false /\
  snd (check_c02 (C02Case Keep (Executed FAIL true (Some 3)) (Report 32 [OSdsPath] (Some "PASS"%string) false))) = false /\
  snd (check_c02 (C02Case Keep (Executed FAIL true (Some 3)) (Report 32 [OIdent "FAIL"%string] None false))) = false /\
  snd (check_c02 (C02Case Act (Executed FAIL true (Some 3)) (Report 32 [OAtcOut] None true))) = false /\
  snd (check_c02 (C02Case Act (Executed FAIL true (Some 3)) (Report 3 [OAtcOut] None true))) = true /\
  snd (check_usage (Report 64 [OIdent "PASS"%string] None false)) = false /\
  snd (check_usage (Report 65 [] None false)) = false.
Proof. vm_compute. repeat split. Qed.
