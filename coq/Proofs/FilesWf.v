(** C15: on a tree with unique names in every directory, the files of a (recursive or not) model
    have pairwise different relative paths - the side condition under which Spec [sem_fsm] defines
    [matches] is always met for directory trees. *)
From Coq Require Import NArith List Bool Arith Lia Permutation.
From Exactly Require Import Lib.Tree Model.Files Spec.C15 Proofs.FilesGen Proofs.FilesMatch.
Import ListNotations.

Lemma NoDup_app_intro : forall A (a b : list A),
  NoDup a -> NoDup b -> (forall x, In x a -> In x b -> False) -> NoDup (a ++ b).
Proof.
  induction a as [|x a IH]; intros b Na Nb D; cbn; [exact Nb|].
  inversion Na as [|? ? Hx Na']; subst. constructor.
  - intros H. apply in_app_or in H as [H|H]; [contradiction | apply (D x); [left; reflexivity | exact H]].
  - apply IH; [exact Na' | exact Nb|]. intros y Ha Hb. apply (D y); [right; exact Ha | exact Hb].
Qed.

Section Wf.
  Variable O : oracles.
  Variable ps : elem -> option bool.
  Variables mn mx : option nat.

  Definition starts (rel : path) (ns : list name) (e : elem) : Prop :=
    exists n rest, e_rel e = rel ++ n :: rest /\ In n ns.

  Lemma app_cons_inj_len : forall (rel : path) n1 r1 n2 r2, rel ++ n1 :: r1 = rel ++ n2 :: r2 -> n1 = n2 /\ r1 = r2.
  Proof. intros rel n1 r1 n2 r2 H. apply app_inv_head in H. injection H as -> ->. split; reflexivity. Qed.

  Definition walk_ok (t : tree) : Prop :=
    wf_tree t -> forall rel abs d L, walk O ps mn mx t rel abs d = Some L ->
    NoDup (map e_rel L) /\ forall e, In e L -> starts rel (names (children t)) e.

  Lemma walk_list_ok : forall es, Forall (fun p => walk_ok (snd p)) es -> NoDup (names es) -> wf_dirc es ->
    forall rel abs d L, walk_list O ps mn mx es rel abs d = Some L ->
    NoDup (map e_rel L) /\ forall e, In e L -> starts rel (names es) e.
  Proof.
    induction es as [|[n c] es IH]; intros F ND WF rel abs d L H.
    - cbn in H. injection H as <-. split; [constructor | intros e []].
    - inversion F as [|? ? Hc Fes]; subst. cbn [names map fst] in ND. inversion ND as [|? ? Hn NDes]; subst.
      inversion WF as [|? ? Wc Wes]; subst. cbn [snd] in *.
      cbn [walk_list fst snd] in H. cbv zeta in H.
      set (e0 := Elem (rel ++ [n]) (abs ++ [n]) c) in *.
      destruct (match (if at_max mx d then Some false else dir_test_spec O c (abs ++ [n])) with Some true => _ | Some false => _ | None => _ end) as [b|] eqn:Eb; [|discriminate].
      destruct (walk_list O ps mn mx es rel abs d) as [r|] eqn:Er; [|discriminate]. injection H as <-.
      destruct (IH Fes NDes Wes rel abs d r Er) as [NDr Sr].
      (* what is below [c] *)
      assert (NoDup (map e_rel b) /\ forall e, In e b -> exists m rest, e_rel e = rel ++ n :: m :: rest) as [NDb Sb].
      { destruct (if at_max mx d then Some false else dir_test_spec O c (abs ++ [n])) as [[|]|]; [|injection Eb as <-; split; [constructor | intros e []] | discriminate].
        destruct (ps e0) as [[|]|]; [injection Eb as <-; split; [constructor | intros e []] | | discriminate].
        destruct (Hc Wc _ _ _ _ Eb) as [N S]. split; [exact N|]. intros e He. destruct (S e He) as (m & rest & E & _).
        exists m, rest. rewrite E, <- app_assoc. reflexivity. }
      set (here := if in_min mn d then [e0] else []).
      assert (forall e, In e here -> e_rel e = rel ++ [n]) as Sh.
      { intros e He. unfold here in He. destruct (in_min mn d); [destruct He as [<-|[]]; reflexivity | destruct He]. }
      split.
      + rewrite !map_app. apply NoDup_app_intro.
        * unfold here. destruct (in_min mn d); cbn; [constructor; [intros [] | constructor] | constructor].
        * apply NoDup_app_intro; [exact NDb | exact NDr|].
          intros x Hb Hr. apply in_map_iff in Hb as [eb [<- Hb]]. apply in_map_iff in Hr as [er [E Hr]].
          destruct (Sb eb Hb) as (m & rest & Eb'). destruct (Sr er Hr) as (n' & rest' & Er' & Hn').
          rewrite Eb', Er' in E. apply app_cons_inj_len in E as [-> _]. cbn [names] in Hn. contradiction.
        * intros x Hh Hbr. apply in_map_iff in Hh as [eh [<- Hh]]. rewrite (Sh eh Hh) in Hbr.
          apply in_app_or in Hbr as [Hb|Hr].
          -- apply in_map_iff in Hb as [eb [E Hb]]. destruct (Sb eb Hb) as (m & rest & Eb'). rewrite Eb' in E.
             apply app_inv_head in E. discriminate.
          -- apply in_map_iff in Hr as [er [E Hr]]. destruct (Sr er Hr) as (n' & rest' & Er' & Hn').
             rewrite Er' in E. change (rel ++ [n]) with (rel ++ n :: []) in E. apply app_cons_inj_len in E as [-> _]. contradiction.
      + intros e He. apply in_app_or in He as [He|He]; [|apply in_app_or in He as [He|He]].
        * exists n, []. split; [apply Sh; exact He | left; reflexivity].
        * destruct (Sb e He) as (m & rest & E). exists n, (m :: rest). split; [exact E | left; reflexivity].
        * destruct (Sr e He) as (n' & rest' & E & Hn'). exists n', rest'. split; [exact E | right; exact Hn'].
  Qed.

  Lemma walk_all_ok : forall t, walk_ok t.
  Proof.
    induction t as [c|es IH| |t IH] using tree_ind'; intros W rel abs d L H.
    - cbn in H. injection H as <-. split; [constructor | intros e []].
    - apply wf_tree_Dir in W as [ND WF]. rewrite walk_Dir in H. unfold children. cbn [resolve].
      exact (walk_list_ok es IH ND WF rel abs d L H).
    - cbn in H. injection H as <-. split; [constructor | intros e []].
    - cbn [walk] in H. cbn [wf_tree] in W. destruct (IH W rel abs d L H) as [N S]. split; [exact N|].
      intros e He. specialize (S e He). unfold children in *. cbn [resolve]. exact S.
  Qed.
End Wf.

(** The files of any model on a well-formed directory have distinct relative paths. *)
Theorem spec_files_distinct : forall (O : oracles) (M : smodel) L,
  wf_tree (sm_dir M) -> spec_files O M = Some L -> distinct_rels L = true.
Proof.
  intros O [d a c s p] L W H. unfold spec_files in H. cbn [sm_cfg sm_dir sm_abs sm_prune sm_sel] in *.
  assert (forall G, strict_filter s G = Some L -> NoDup (map e_rel G) -> NoDup (map e_rel L)) as Filt.
  { clear. intros G. revert L. induction G as [|e G IH]; intros L H N; cbn [strict_filter] in H.
    - injection H as <-. constructor.
    - cbn [map] in N. inversion N as [|? ? Hn NG]; subst. destruct (s e) as [b|]; [|discriminate].
      destruct (strict_filter s G) as [r|] eqn:Er; [|discriminate]. injection H as <-.
      specialize (IH r eq_refl NG). destruct b; [|exact IH]. cbn [map]. constructor; [|exact IH].
      intros Hin. apply Hn. clear -Hin Er. revert r Er Hin. induction G as [|g G IHG]; intros r Er Hin; cbn [strict_filter] in Er.
      + injection Er as <-. destruct Hin.
      + destruct (s g) as [bg|]; [|discriminate]. destruct (strict_filter s G) as [r'|]; [|discriminate]. injection Er as <-.
        cbn [map]. destruct bg; [destruct Hin as [<-|Hin]; [left; reflexivity | right; eapply IHG; [reflexivity | exact Hin]] | right; eapply IHG; [reflexivity | exact Hin]]. }
  unfold distinct_rels. apply distinct_paths_NoDup.
  destruct c as [|mn mx].
  - eapply Filt; [exact H|]. rewrite map_map. cbn [e_rel].
    assert (NoDup (names (children d))) as ND.
    { unfold children. destruct (resolve d) as [[?|es|?]|] eqn:Er; try constructor.
      assert (wf_tree (Dir es)) as We.
      { clear -W Er. revert es Er. induction d as [c|es' _| |t IH] using tree_ind'; intros es Er; cbn [resolve] in Er; try discriminate.
        - injection Er as <-. exact W.
        - cbn [wf_tree] in W. eapply IH; eassumption. }
      apply wf_tree_Dir in We. apply We. }
    clear -ND. induction (children d) as [|[n t] es IH]; cbn in *; [constructor|]. inversion ND as [|? ? Hn N]; subst.
    constructor; [|apply IH; exact N]. intros Hin. apply Hn. apply in_map_iff in Hin as [[n' t'] [E Hin]]. cbn in E. injection E as ->.
    apply in_map_iff. exists (n, t'). split; [reflexivity | exact Hin].
  - destruct (walk O p mn mx d [] a 0) as [G|] eqn:EW; [|discriminate].
    eapply Filt; [exact H|]. destruct (walk_all_ok O p mn mx d W [] a 0 G EW) as [N _]. exact N.
Qed.
