(** C19: the model's own behaviour satisfies the reference semantics [P_C19] that the check
    evaluates on the implementation's observed behaviour (so: correspondence => property). *)
From Coq Require Import List Bool Arith NArith Lia.
From Exactly Require Import Lib.Harness Model.Outcome Model.Exec Model.World Model.Timeout Spec.C01 Spec.C19
  Proofs.TimeoutForce Proofs.TimeoutSim Proofs.TimeoutExpiry Proofs.TimeoutBound.
Import ListNotations.

Lemma phase_eqb_refl p : phase_eqb p p = true.
Proof. destruct p; reflexivity. Qed.
Lemma fail_status_eqb_refl s : fail_status_eqb s s = true.
Proof. destruct s; reflexivity. Qed.
Lemma failure3_eqb_refl f : failure3_eqb f f = true.
Proof. destruct f as [[p i] s]. unfold failure3_eqb. cbn. rewrite phase_eqb_refl, Nat.eqb_refl, fail_status_eqb_refl. reflexivity. Qed.
Lemma opt_failure3_eqb_refl o : option_eqb failure3_eqb o o = true.
Proof. destruct o; cbn; [apply failure3_eqb_refl | reflexivity]. Qed.
Lemma ocall_eqb_refl chk c : ocall_eqb chk c c = true.
Proof. unfold ocall_eqb. rewrite phase_eqb_refl, Nat.eqb_refl, tmo_eqb_refl, orb_true_r. reflexivity. Qed.

Definition ocalls (t : list tev) : list ocall := map ocall_of (calls_of t).

Lemma ocalls_app a b : ocalls (a ++ b) = ocalls a ++ ocalls b.
Proof. unfold ocalls. rewrite calls_of_app, map_app. reflexivity. Qed.
Lemma ocalls_ev e t : ocalls (TEv e :: t) = ocalls t.
Proof. reflexivity. Qed.
Lemma ocalls_ok_steps tc ss : ocalls (ok_steps tc ss) = [].
Proof. unfold ocalls. rewrite calls_ok_steps. reflexivity. Qed.

Lemma expect_spawns_model chk p idx cur : forall ds rest,
  expect_spawns chk p idx cur ds (ocalls (fst (spawn_all p idx cur ds)) ++ rest) = Some (rest, snd (spawn_all p idx cur ds)).
Proof.
  induction ds as [|d ds IH]; intros rest; [reflexivity|].
  cbn [spawn_all]. destruct (expires cur d) eqn:E.
  - cbn [fst snd]. unfold ocalls. cbn [calls_of flat_map app map ocall_of c_phase c_idx c_timeout expect_spawns].
    rewrite ocall_eqb_refl, E. reflexivity.
  - specialize (IH rest). destruct (spawn_all p idx cur ds) as [l x]. cbn [fst snd] in *.
    change (ocalls (TCall (Call p idx cur d) :: l)) with (OCall p idx cur :: ocalls l).
    cbn [app expect_spawns]. rewrite ocall_eqb_refl, E. exact IH.
Qed.

Lemma expect_list_model chk p prev : forall is_ idx st sin rest,
  let '(t, st', r) := trun_list p prev idx st is_ in
  exists sout, expect_list chk p idx (s_timeout st) sin is_ (ocalls t ++ rest) =
               Some (Walk (s_timeout st') sout rest (option_map failure3_of r)) /\
               (sin = s_stdin st -> sout = s_stdin st').
Proof.
  induction is_ as [|i is_ IH]; intros idx st sin rest; [cbn; eexists; split; [reflexivity | auto]|].
  cbn [trun_list]. destruct i as [v|ds|d|b]; cbn [main_of expect_list].
  - specialize (IH (S idx) (TS v (s_stdin st)) sin rest).
    destruct (trun_list p prev (S idx) (TS v (s_stdin st)) is_) as [[t st''] r']. cbn [app]. rewrite ocalls_ev. exact IH.
  - pose proof (expect_spawns_model chk p idx (s_timeout st) ds) as Hs.
    destruct (spawn_all p idx (s_timeout st) ds) as [l x]. cbn [fst snd] in Hs. destruct x.
    + rewrite ocalls_ev, Hs. eexists. split; [reflexivity | auto].
    + specialize (IH (S idx) st sin rest). destruct (trun_list p prev (S idx) st is_) as [[t st''] r'].
      rewrite ocalls_ev, ocalls_app, <- app_assoc, Hs. exact IH.
  - specialize (IH (S idx) (TS (s_timeout st) (Some d)) (Some d) rest).
    destruct (trun_list p prev (S idx) (TS (s_timeout st) (Some d)) is_) as [[t st''] r']. cbn [app]. rewrite ocalls_ev.
    destruct IH as (sout & E & Hs). exists sout. split; [exact E|]. intros _. apply Hs. reflexivity.
  - destruct (outcome b) as [s|].
    + rewrite ocalls_ev. cbn. eexists. split; [reflexivity | auto].
    + specialize (IH (S idx) st sin rest). destruct (trun_list p prev (S idx) st is_) as [[t st''] r']. cbn [app].
      rewrite ocalls_ev. exact IH.
Qed.

Lemma expect_cleanup_model chk tc prev st tcl rc (first : option failure3) (swallow : bool) o :
  tcleanup tc prev st = (tcl, rc) ->
  o_failure o = (if swallow then first
                 else match option_map failure3_of rc with Some f => Some f | None => first end) ->
  expect_cleanup chk tc (s_timeout st) (ocalls tcl) first swallow o = true.
Proof.
  intros Hc Hf. unfold expect_cleanup, tcleanup in *.
  pose proof (expect_list_model chk Cleanup (Some prev) (t_cleanup tc) 0 st None []) as H.
  destruct (trun_list Cleanup (Some prev) 0 st (t_cleanup tc)) as [[t st'] r]. injection Hc as <- <-.
  rewrite ocalls_ev. destruct H as (sout & E & _). rewrite app_nil_r in E. rewrite E. cbn [w_rest w_fail].
  rewrite Hf. apply opt_failure3_eqb_refl.
Qed.

Ltac norm_ocalls :=
  change (map ocall_of (calls_of ?t)) with (ocalls t);
  repeat (first [rewrite ocalls_app | rewrite ocalls_ok_steps | rewrite ocalls_ev]);
  cbn [app]; rewrite ?app_nil_r.

Theorem model_meets_reference_semantics keep tc :
  (exists s, t_default tc = Some s) -> P_C19 true keep tc (model_obs keep tc) = true.
Proof.
  intros (s0 & Hd). unfold P_C19, model_obs. rewrite Hd. cbn [andb]. rewrite <- Hd.
  unfold texecute, texecute_st.
  assert (Hk : Bool.eqb (sandbox_left keep tc) keep = true) by (rewrite sandbox_removed_unless_keep; apply eqb_reflx).
  pose proof (expect_list_model true Setup None (t_setup tc) 0 (TS (t_default tc) None) None) as HS.
  destruct (trun_list Setup None 0 (TS (t_default tc) None) (t_setup tc)) as [[ts st1] rs]. cbn [s_timeout s_stdin] in HS.
  destruct rs as [f|].
  - destruct (tcleanup tc PSetup st1) as [tcl rc] eqn:Etc. cbn [fst snd o_calls o_failure o_sandbox_left pr_failure].
    rewrite Hk. cbn [andb]. norm_ocalls.
    destruct (HS (ocalls tcl)) as (sout & E & _). rewrite E. cbn [w_fail w_cur w_rest option_map].
    apply (expect_cleanup_model true tc PSetup st1 tcl rc _ _ _ Etc). cbn [o_failure option_map].
    destruct rc; reflexivity.
  - pose proof (expect_spawns_model true Act 0 (s_timeout st1) (act_procs tc st1)) as HA.
    destruct (spawn_all Act 0 (s_timeout st1) (act_procs tc st1)) as [ta xa]. cbn [fst snd] in HA.
    assert (Hpre : forall rest,
               exists sout, expect_list true Setup 0 (t_default tc) None (t_setup tc) (ocalls ts ++ ocalls ta ++ rest) =
                            Some (Walk (s_timeout st1) sout (ocalls ta ++ rest) None) /\ sout = s_stdin st1).
    { intros rest. destruct (HS (ocalls ta ++ rest)) as (sout & E & Hs). exists sout. split; [exact E | apply Hs; reflexivity]. }
    assert (Hact : forall sout, sout = s_stdin st1 ->
              (if t_act_uses_stdin tc then match sout with Some d => [d] | None => [] end else []) ++ t_act tc = act_procs tc st1).
    { intros sout ->. reflexivity. }
    destruct xa; [|destruct (t_act_only tc) eqn:Eao].
    + destruct (tcleanup tc PAct st1) as [tcl rc] eqn:Etc. cbn [fst snd o_calls o_failure o_sandbox_left pr_failure].
      rewrite Hk. cbn [andb]. norm_ocalls.
      destruct (Hpre (ocalls tcl)) as (sout & E & Hs). rewrite E. cbn [w_fail w_cur w_rest w_stdin].
      rewrite (Hact sout Hs), HA.
      apply (expect_cleanup_model true tc PAct st1 tcl rc _ _ _ Etc). cbn [o_failure option_map].
      destruct rc; reflexivity.
    + destruct (tcleanup tc PAct st1) as [tcl rc] eqn:Etc. cbn [fst snd o_calls o_failure o_sandbox_left pr_failure].
      rewrite Hk. cbn [andb]. norm_ocalls.
      destruct (Hpre (ocalls tcl)) as (sout & E & Hs). rewrite E. cbn [w_fail w_cur w_rest w_stdin].
      rewrite (Hact sout Hs), HA.
      apply (expect_cleanup_model true tc PAct st1 tcl rc _ _ _ Etc). cbn [o_failure option_map].
      destruct rc; reflexivity.
    + pose proof (expect_list_model true BeforeAssert None (t_before_assert tc) 0 st1 None) as HB.
      destruct (trun_list BeforeAssert None 0 st1 (t_before_assert tc)) as [[t4 st2] r4].
      destruct r4 as [f|].
      * destruct (tcleanup tc PBeforeAssert st2) as [tcl rc] eqn:Etc. cbn [fst snd o_calls o_failure o_sandbox_left pr_failure].
        rewrite Hk. cbn [andb]. norm_ocalls.
        destruct (Hpre (ocalls t4 ++ ocalls tcl)) as (sout & E & Hs). rewrite E. cbn [w_fail w_cur w_rest w_stdin].
        rewrite (Hact sout Hs), HA.
        destruct (HB (ocalls tcl)) as (sout' & E' & _). rewrite E'. cbn [w_fail w_cur w_rest option_map].
        apply (expect_cleanup_model true tc PBeforeAssert st2 tcl rc _ _ _ Etc). reflexivity.
      * pose proof (expect_list_model true Assert None (t_assert tc) 0 st2 None) as HC.
        destruct (trun_list Assert None 0 st2 (t_assert tc)) as [[t5 st3] r5].
        destruct (tcleanup tc PAssert st3) as [tcl rc] eqn:Etc. cbn [fst snd o_calls o_failure o_sandbox_left pr_failure].
        rewrite Hk. cbn [andb]. norm_ocalls.
        destruct (Hpre (ocalls t4 ++ ocalls t5 ++ ocalls tcl)) as (sout & E & Hs). rewrite E. cbn [w_fail w_cur w_rest w_stdin].
        rewrite (Hact sout Hs), HA.
        destruct (HB (ocalls t5 ++ ocalls tcl)) as (sout' & E' & _). rewrite E'. cbn [w_fail w_cur w_rest option_map].
        destruct (HC (ocalls tcl)) as (sout'' & E'' & _). rewrite E''. cbn [w_fail w_cur w_rest].
        apply (expect_cleanup_model true tc PAssert st3 tcl rc _ _ _ Etc). cbn [o_failure option_map].
        destruct rc; destruct r5; reflexivity.
Qed.

(** the status reported for an expiry, in every mode in which the case runs *)
Lemma expiry_reported_hard_error_in_every_mode :
  translate_status TPass (Some FHard) = HARD_ERROR /\ translate_status TFail (Some FHard) = HARD_ERROR /\
  forall mode act_only, mode <> TSkip ->
    decode_ident mode act_only (Some (translate_status mode (Some FHard))) = Some (Some FHard).
Proof. split; [reflexivity|]. split; [reflexivity|]. intros mode a H. destruct mode; reflexivity. Qed.
