(** C08: the whole test case.  Acceptance by [validate_all] = acceptance by the specification; an
    accepted case whose main steps run in schedule order resolves every reference against the
    execution-time table to the value the specification assigns; the refuted clause. *)
From Coq Require Import List Bool Arith NArith Lia.
From Exactly Require Import Lib.Harness Model.Exec Model.Symbols Spec.C08
  Proofs.SymbolsLazy Proofs.SymbolsReach Proofs.SymbolsSound Proofs.SymbolsAccept.
Import ListNotations.

(** *** decidable equality of references (only soundness is needed) *)
Lemma list_eqb_sound {A} (eqb : A -> A -> bool) :
  (forall x y, eqb x y = true -> x = y) -> forall l1 l2, list_eqb eqb l1 l2 = true -> l1 = l2.
Proof.
  intros H. induction l1 as [|x l1 IH]; destruct l2 as [|y l2]; cbn; intros E; try reflexivity; try discriminate.
  apply andb_true_iff in E as [E1 E2]. rewrite (H _ _ E1), (IH _ E2). reflexivity.
Qed.
Lemma rel_eqb_sound a b : rel_eqb a b = true -> a = b.
Proof. destruct a, b; cbn; intros H; try reflexivity; discriminate. Qed.
Lemma vrestr_eqb_sound a b : vrestr_eqb a b = true -> a = b.
Proof.
  destruct a as [x|r1 a1], b as [y|r2 a2]; cbn; intros H; try discriminate.
  - f_equal. apply (list_eqb_sound wstr_eqb); [intros ? ? E; apply wstr_eqb_eq; exact E|exact H].
  - apply andb_true_iff in H as [H1 H2]. apply eqb_prop in H2. subst. f_equal.
    apply (list_eqb_sound rel_eqb rel_eqb_sound). exact H1.
Qed.
Lemma ovrestr_eqb_sound a b : ovrestr_eqb a b = true -> a = b.
Proof.
  destruct a, b; cbn; intros H; try reflexivity; try discriminate. f_equal. apply vrestr_eqb_sound. exact H.
Qed.
Lemma restr_eqb_sound a b : restr_eqb a b = true -> a = b.
Proof.
  destruct a as [x|d1 i1|p1], b as [y|d2 i2|p2]; cbn; intros H; try discriminate.
  - f_equal. apply (list_eqb_sound vtype_eqb); [intros ? ? E; apply vtype_eqb_eq; exact E|exact H].
  - apply andb_true_iff in H as [H1 H2]. rewrite (vrestr_eqb_sound _ _ H1), (ovrestr_eqb_sound _ _ H2). reflexivity.
  - f_equal. revert H. apply list_eqb_sound. intros [w1 [a1 b1]] [w2 [a2 b2]]. cbn. intros E.
    apply andb_true_iff in E as [E E3]. apply andb_true_iff in E as [E1 E2].
    apply wstr_eqb_eq in E1. rewrite E1, (vrestr_eqb_sound _ _ E2), (ovrestr_eqb_sound _ _ E3). reflexivity.
Qed.
Lemma ref_eqb_sound a b : ref_eqb a b = true -> a = b.
Proof.
  destruct a as [n1 r1], b as [n2 r2]. unfold ref_eqb. cbn. intros H. apply andb_true_iff in H as [H1 H2].
  apply N.eqb_eq in H1. rewrite H1, (restr_eqb_sound _ _ H2). reflexivity.
Qed.

Section Run.
  Variable roots : rel -> text.
  Notation Inv := (Inv roots).

  Lemma builtins_inv b : builtins_ok b = true -> Inv b (env_of_table roots b).
  Proof.
    induction b as [|[n c] b IH]; intros H; [constructor|]. cbn [builtins_ok] in H.
    apply andb_true_iff in H as [H H4]. apply andb_true_iff in H as [H H3]. apply andb_true_iff in H as [H1 H2].
    cbn [env_of_table fold_right fst snd]. constructor.
    - apply IH. exact H4.
    - apply contains_false_lookup. destruct (contains b n); [discriminate|reflexivity].
    - exact H2.
    - destruct (sdv_refs (c_sdv c)); [intros r []|discriminate].
  Qed.

  Lemma puts_app t a b : puts (puts t a) b = puts t (a ++ b).
  Proof. revert t. induction a as [|i a IH]; intros t; [reflexivity|]. destruct i; cbn; apply IH. Qed.

  (** *** validation of all phases *)
  Lemma validate_phases_ok tc ps : forall t e,
    Inv t e -> (forall p, In p ps -> forallb wf_instr (t_instrs tc p) = true) ->
    if accept_from roots e (flat_map (t_instrs tc) ps)
    then validate_phases roots tc t ps = inl (puts t (flat_map (t_instrs tc) ps)) /\
         Inv (puts t (flat_map (t_instrs tc) ps)) (env_afters roots e (flat_map (t_instrs tc) ps))
    else exists p i err, validate_phases roots tc t ps = inr (p, i, err) /\ ~ is_exn err.
  Proof.
    induction ps as [|p ps IH]; intros t e HI Hwf; [cbn; auto|].
    cbn [flat_map validate_phases]. rewrite accept_from_app.
    assert (H := validate_phase_ok roots (t_instrs tc p) t e 0 HI (Hwf p (or_introl eq_refl))).
    destruct (accept_from roots e (t_instrs tc p)); cbn [andb].
    - destruct H as [-> HI']. specialize (IH _ _ HI' (fun q Hq => Hwf q (or_intror Hq))).
      rewrite <- puts_app, env_afters_app. exact IH.
    - destruct H as (j & err & -> & Hne). eexists _, _, _. split; [reflexivity|exact Hne].
  Qed.

  Lemma exec_order_flat tc : exec_order tc = flat_map (t_instrs tc) validation_order.
  Proof. unfold exec_order, validation_order. cbn [flat_map t_instrs]. now rewrite app_nil_r. Qed.

  Lemma wf_tcase_phase tc p : wf_tcase tc = true -> In p validation_order -> forallb wf_instr (t_instrs tc p) = true.
  Proof.
    unfold wf_tcase, exec_order. rewrite !forallb_app. intros H Hp.
    apply andb_true_iff in H as [H1 H]. apply andb_true_iff in H as [H2 H].
    apply andb_true_iff in H as [H3 H]. apply andb_true_iff in H as [H4 H5].
    destruct Hp as [<-|[<-|[<-|[<-|[<-|[]]]]]]; assumption.
  Qed.

  Theorem accept_iff b tc :
    builtins_ok b = true -> wf_tcase tc = true ->
    if spec_accept roots b tc
    then exists t, validate_all roots b tc = inl t /\ t = puts b (exec_order tc) /\
                   Inv t (env_afters roots (env_of_table roots b) (exec_order tc))
    else exists p i err, validate_all roots b tc = inr (p, i, err) /\ ~ is_exn err.
  Proof.
    intros Hb Hwf. unfold spec_accept, validate_all. rewrite exec_order_flat.
    assert (H := validate_phases_ok tc validation_order b (env_of_table roots b) (builtins_inv b Hb)
                   (fun p Hp => wf_tcase_phase tc p Hwf Hp)).
    destruct (accept_from roots (env_of_table roots b) (flat_map (t_instrs tc) validation_order)).
    - destruct H as [H1 H2]. eexists. split; [exact H1|]. split; [reflexivity|exact H2].
    - exact H.
  Qed.

  (** *** the main steps *)
  Lemma denote_vals_cons e v vs :
    denote_vals roots e (v :: vs) =
    match (match denote roots e v with
           | Some VOpaque => Some []
           | Some x => elements_of_value roots x
           | None => None
           end), denote_vals roots e vs with
    | Some l, Some r => Some (l ++ r)
    | _, _ => None
    end.
  Proof.
    unfold denote_vals. cbn [map all_some].
    destruct (match denote roots e v with Some VOpaque => Some [] | Some x => elements_of_value roots x | None => None end);
      [|reflexivity].
    destruct (all_some _); reflexivity.
  Qed.

  Definition shape_type (s : sdv) : vtype :=
    match s with SStr _ => TString | SLst _ => TList | SPth _ => TPath | SOther _ => TLineMatcher end.
  Lemma wf_val_container s : wf_val s = true -> wf_container (Cont (shape_type s) s) = true.
  Proof. destruct s; cbn; auto. Qed.

  Lemma resolve_vals_ok t e k vals :
    Inv t e -> forallb wf_val vals = true ->
    (forall r, In r (flat_map sdv_refs vals) -> ref_ok e r = true) ->
    exists ts, resolve_vals roots t k vals = Ok ts /\ denote_vals roots e vals = Some ts.
  Proof.
    intros HI. induction vals as [|v vals IH]; intros Hwf Hok; [exists []; split; reflexivity|].
    cbn [forallb] in Hwf. apply andb_true_iff in Hwf as [Hwv Hwf].
    destruct IH as (ts & Hts1 & Hts2); [exact Hwf | intros r Hr; apply Hok; cbn; apply in_or_app; right; exact Hr|].
    destruct (container_eval roots (aeval roots t) e (Cont (shape_type v) v) (inv_good roots t e HI)
                (wf_val_container v Hwv)) as (x & Hx1 & Hx2 & Hk).
    { intros r Hr. apply Hok. cbn. apply in_or_app. left. exact Hr. }
    cbn [c_sdv c_type] in *.
    cbn [resolve_vals]. rewrite (resolve_top_eager roots t (inv_closed roots t e HI)) by (unfold fuel_of; lia).
    rewrite Hx1. cbn [bind]. rewrite denote_vals_cons, Hx2, Hts2.
    destruct v as [fs|es|p|rs]; cbn [shape_type] in Hk; destruct x; try discriminate Hk; cbn [bind].
    - cbn. rewrite Hts1. eexists. split; reflexivity.
    - cbn. rewrite Hts1. eexists. split; reflexivity.
    - destruct (data_value_texts roots TPath (VPth rl suffixes) k eq_refl) as [_ (l & Hl1 & Hl2)]; [auto|].
      rewrite Hl1, Hl2. cbn [bind]. rewrite Hts1. eexists. split; reflexivity.
    - rewrite Hts1. eexists. split; reflexivity.
  Qed.

  Lemma touch_ok t e refs :
    Inv t e -> (forall r, In r refs -> ref_ok e r = true) ->
    resolve roots (fuel_of t) t false (SOther refs) = Ok VOpaque.
  Proof.
    intros HI Hok. rewrite (resolve_top_eager roots t (inv_closed roots t e HI)) by (unfold fuel_of; lia).
    unfold aev. cbn [resolve_step]. rewrite (touch_eval (aeval roots t) false refs); [reflexivity|].
    intros r Hr. specialize (Hok r Hr). unfold ref_ok in Hok.
    destruct (find e (r_name r)) as [d|] eqn:Hf; [|discriminate].
    destruct (inv_good roots t e HI _ _ Hf) as [(v & _ & _ & Ha & _) _]. exists v. exact Ha.
  Qed.

  Definition some_obs (o : observation) : phase * nat * option (list text) :=
    match o with (p, i, ts) => (p, i, Some ts) end.
  Definition is_stop (i : instr) : bool := match i with IStop _ => true | _ => false end.

  Lemma expect_phase_stopped p is_ : forall e idx,
    expect_phase roots p e idx true is_ = (env_afters roots e is_, true, []).
  Proof.
    induction is_ as [|i is_ IH]; intros e idx; [reflexivity|]. cbn [expect_phase env_afters orb].
    rewrite IH. destruct i as [| refs [|v vs] |]; reflexivity.
  Qed.

  (** One phase whose instructions are accepted, started with the execution-time table equal to the
      validated table: no look-up fails, the values are the specified ones, and the phase stops only
      at an instruction that fails by itself. *)
  Lemma run_main_ok p is_ : forall t e idx,
    Inv t e -> forallb wf_instr is_ = true -> accept_from roots e is_ = true ->
    exists rt f o,
      run_main roots p t idx is_ = (rt, f, o) /\
      expect_phase roots p e idx false is_ = (env_afters roots e is_, existsb is_stop is_, map some_obs o) /\
      (existsb is_stop is_ = false -> f = None /\ rt = puts t is_) /\
      (existsb is_stop is_ = true -> exists j (h : bool), f = Some (j, if h then MHard else MFail)).
  Proof.
    induction is_ as [|i is_ IH]; intros t e idx HI Hwf Hacc.
    - exists t, None, []. cbn. repeat split; try reflexivity. discriminate.
    - cbn [forallb] in Hwf. apply andb_true_iff in Hwf as [Hwi Hwf].
      cbn [accept_from] in Hacc. apply andb_true_iff in Hacc as [Hoki Hacc].
      assert (Hvi := validate_instr_ok roots t e i HI Hwi). rewrite Hoki in Hvi.
      destruct Hvi as (t' & _ & HI' & Ht').
      destruct i as [n c|refs vals|hard].
      + subst t'. destruct (IH _ _ (S idx) HI' Hwf Hacc) as (rt & f & o & Hrun & Hexp & Hns & Hs).
        exists rt, f, o. cbn [run_main expect_phase env_afters env_after existsb is_stop orb]. rewrite Hrun.
        cbn [env_after] in Hexp. rewrite Hexp. auto.
      + subst t'. cbn [env_after] in *.
        cbn [instr_ok] in Hoki. cbn [wf_instr] in Hwi. apply andb_true_iff in Hwi as [Hwv Hsub].
        assert (Hrefs : forall r, In r refs -> ref_ok e r = true) by (apply forallb_forall; exact Hoki).
        destruct (resolve_vals_ok t e 0%N vals HI Hwv) as (ts & Hts1 & Hts2).
        { intros r Hr. rewrite forallb_forall in Hsub. specialize (Hsub r Hr).
          apply existsb_exists in Hsub as (r' & Hr' & E). apply ref_eqb_sound in E. subst r'. apply Hrefs. exact Hr'. }
        destruct (IH _ _ (S idx) HI Hwf Hacc) as (rt & f & o & Hrun & Hexp & Hns & Hs).
        cbn [run_main expect_phase env_afters env_after existsb is_stop orb].
        rewrite (touch_ok t e refs HI Hrefs), Hts1, Hrun, Hexp.
        destruct vals as [|v vs].
        * exists rt, f, o. auto.
        * exists rt, f, ((p, idx, ts) :: o). rewrite Hts2. cbn [map some_obs]. auto.
      + exists t, (Some (idx, if hard then MHard else MFail)), [].
        cbn [run_main expect_phase env_afters env_after existsb is_stop orb].
        rewrite expect_phase_stopped. split; [reflexivity|]. split; [reflexivity|].
        split; [discriminate|]. intros _. exists idx, hard. reflexivity.
  Qed.
End Run.

(** *** the phases before cleanup, as a sequence *)
Section Seq.
  Variable roots : rel -> text.
  Notation Inv := (Inv roots).

  Definition main_phases : list phase := [Setup; Act; BeforeAssert; Assert].
  Definition main_instrs (tc : tcase) : list instr := flat_map (t_instrs tc) main_phases.

  Fixpoint run_seq (rt : table) (tc : tcase) (ps : list phase)
    : table * option (phase * nat * mfail) * list observation :=
    match ps with
    | [] => (rt, None, [])
    | p :: ps' =>
        let '(rt', f, o) := run_main roots p rt 0 (t_instrs tc p) in
        match f with
        | Some (i, x) => (rt', Some (p, i, x), o)
        | None => let '(rt'', f', o') := run_seq rt' tc ps' in (rt'', f', o ++ o')
        end
    end.
  Fixpoint expect_seq (e : env) (stopped : bool) (tc : tcase) (ps : list phase)
    : env * bool * list (phase * nat * option (list text)) :=
    match ps with
    | [] => (e, stopped, [])
    | p :: ps' =>
        let '(e', s', o) := expect_phase roots p e 0 stopped (t_instrs tc p) in
        let '(e'', s'', o') := expect_seq e' s' tc ps' in (e'', s'', o ++ o')
    end.

  Lemma expect_seq_stopped tc ps : forall e,
    expect_seq e true tc ps = (env_afters roots e (flat_map (t_instrs tc) ps), true, []).
  Proof.
    induction ps as [|p ps IH]; intros e; [reflexivity|]. cbn [expect_seq flat_map].
    rewrite expect_phase_stopped, IH, env_afters_app. reflexivity.
  Qed.

  Lemma run_main_obs_phase p is_ : forall rt idx rt' f o,
    run_main roots p rt idx is_ = (rt', f, o) -> Forall (fun x => fst (fst x) = p) o.
  Proof.
    induction is_ as [|i is_ IH]; intros rt idx rt' f o H; cbn [run_main] in H.
    - injection H as <- <- <-. constructor.
    - destruct i as [n c|refs vals|hard].
      + destruct (run_main roots p (put rt n c) (S idx) is_) as [[rt1 f1] o1] eqn:E.
        injection H as <- <- <-. apply (IH _ _ _ _ _ E).
      + destruct (resolve roots (fuel_of rt) rt false (SOther refs)); [|injection H as <- <- <-; constructor].
        destruct (resolve_vals roots rt 0%N vals); [|injection H as <- <- <-; constructor].
        destruct (run_main roots p rt (S idx) is_) as [[rt1 f1] o1] eqn:E.
        injection H as <- <- <-. specialize (IH _ _ _ _ _ E).
        destruct vals; [exact IH|constructor; [reflexivity|exact IH]].
      + injection H as <- <- <-. constructor.
  Qed.

  Lemma run_seq_ok tc ps : forall t e,
    Inv t e -> (forall p, In p ps -> forallb wf_instr (t_instrs tc p) = true) ->
    accept_from roots e (flat_map (t_instrs tc) ps) = true ->
    exists rt f om,
      run_seq t tc ps = (rt, f, om) /\
      expect_seq e false tc ps =
        (env_afters roots e (flat_map (t_instrs tc) ps), existsb is_stop (flat_map (t_instrs tc) ps), map some_obs om) /\
      (existsb is_stop (flat_map (t_instrs tc) ps) = false ->
         f = None /\ rt = puts t (flat_map (t_instrs tc) ps)) /\
      (existsb is_stop (flat_map (t_instrs tc) ps) = true ->
         exists p j (h : bool), In p ps /\ f = Some (p, j, if h then MHard else MFail)) /\
      Forall (fun x => In (fst (fst x)) ps) om.
  Proof.
    induction ps as [|p ps IH]; intros t e HI Hwf Hacc.
    - exists t, None, []. cbn. repeat split; try reflexivity; try discriminate. constructor.
    - cbn [flat_map] in *. rewrite accept_from_app in Hacc. apply andb_true_iff in Hacc as [Hacc1 Hacc2].
      assert (Hwp := Hwf p (or_introl eq_refl)).
      destruct (run_main_ok roots p (t_instrs tc p) t e 0 HI Hwp Hacc1) as (rt1 & f1 & o1 & Hrun & Hexp & Hns & Hs).
      assert (Hph := run_main_obs_phase p _ _ _ _ _ _ Hrun).
      cbn [run_seq expect_seq]. rewrite Hrun, Hexp, existsb_app, env_afters_app.
      destruct (existsb is_stop (t_instrs tc p)) eqn:Est.
      + destruct (Hs eq_refl) as (j & h & ->). rewrite expect_seq_stopped.
        exists rt1, (Some (p, j, if h then MHard else MFail)), o1. cbn [orb]. rewrite app_nil_r.
        split; [reflexivity|]. split; [reflexivity|]. split; [discriminate|]. split.
        * intros _. exists p, j, h. split; [left; reflexivity|reflexivity].
        * eapply Forall_impl; [|exact Hph]. intros x <-. left. reflexivity.
      + destruct (Hns eq_refl) as [-> ->].
        assert (Hv := validate_phase_ok roots (t_instrs tc p) t e 0 HI Hwp). rewrite Hacc1 in Hv. destruct Hv as [_ HI'].
        destruct (IH _ _ HI' (fun q Hq => Hwf q (or_intror Hq)) Hacc2) as (rt & f & om & Hseq & Hexs & Hns' & Hs' & Hphs).
        rewrite Hseq, Hexs. exists rt, f, (o1 ++ om). cbn [orb]. rewrite map_app.
        split; [reflexivity|]. split; [reflexivity|]. split; [|split].
        * intros E. destruct (Hns' E) as [-> ->]. rewrite puts_app. auto.
        * intros E. destruct (Hs' E) as (q & j & h & Hq & ->). exists q, j, h. split; [right; exact Hq|reflexivity].
        * apply Forall_app. split.
          -- eapply Forall_impl; [|exact Hph]. intros x <-. left. reflexivity.
          -- eapply Forall_impl; [|exact Hphs]. intros x Hx. right. exact Hx.
  Qed.

  (** the model's executor and the specification's expectation, phrased with the sequence *)
  Definition finish (f : option (phase * nat * mfail)) (fc : option (nat * mfail)) : verdict * option (phase * nat) :=
    match f with
    | Some (BeforeAssert, i, x) => (verdict_of_mfail x, Some (BeforeAssert, i))
    | Some (p, i, x) =>
        match fc with
        | Some (j, x') => (verdict_of_mfail x', Some (Cleanup, j))
        | None => (verdict_of_mfail x, Some (p, i))
        end
    | None =>
        match fc with
        | Some (j, x') => (verdict_of_mfail x', Some (Cleanup, j))
        | None => (VdPass, None)
        end
    end.

  Lemma main_instrs_eq tc : main_instrs tc = t_setup tc ++ t_act tc ++ t_before_assert tc ++ t_assert tc.
  Proof. unfold main_instrs, main_phases. cbn [flat_map t_instrs]. now rewrite app_nil_r. Qed.

  Lemma sym_execute_gen_seq repaired b tc :
    sym_execute_gen repaired roots b tc =
    match validate_all roots b tc with
    | inr (p, i, e) => Outcome (match e with VExn _ => VdInternal | _ => VdValidation end) (Some (p, i)) false []
    | inl _ =>
        let '(rt, f, om) := run_seq b tc main_phases in
        let '(_, fc, oc) := run_main roots Cleanup (if repaired then puts b (main_instrs tc) else rt) 0 (t_cleanup tc) in
        Outcome (fst (finish f fc)) (snd (finish f fc)) true (om ++ oc)
    end.
  Proof.
    unfold sym_execute_gen. rewrite main_instrs_eq.
    destruct (validate_all roots b tc) as [tv|[[p i] e]]; [|reflexivity].
    unfold main_phases. cbn [run_seq t_instrs].
    set (X := puts b (t_setup tc ++ t_act tc ++ t_before_assert tc ++ t_assert tc)).
    destruct (run_main roots Setup b 0 (t_setup tc)) as [[rt1 [[i1 x1]|]] o1].
    { destruct (run_main roots Cleanup (if repaired then X else rt1) 0 (t_cleanup tc)) as [[rtc [[j xc]|]] oc]; reflexivity. }
    destruct (run_main roots Act rt1 0 (t_act tc)) as [[rt2 [[i2 x2]|]] o2].
    { destruct (run_main roots Cleanup (if repaired then X else rt2) 0 (t_cleanup tc)) as [[rtc [[j xc]|]] oc];
        cbn; rewrite <- ?app_assoc; reflexivity. }
    destruct (run_main roots BeforeAssert rt2 0 (t_before_assert tc)) as [[rt3 [[i3 x3]|]] o3].
    { destruct (run_main roots Cleanup (if repaired then X else rt3) 0 (t_cleanup tc)) as [[rtc fc] oc].
      cbn. rewrite <- ?app_assoc. reflexivity. }
    destruct (run_main roots Assert rt3 0 (t_assert tc)) as [[rt4 [[i4 x4]|]] o4];
      destruct (run_main roots Cleanup (if repaired then X else rt4) 0 (t_cleanup tc)) as [[rtc [[j xc]|]] oc];
      cbn; rewrite <- ?app_assoc, ?app_nil_r; reflexivity.
  Qed.

  Lemma sym_execute_seq b tc :
    sym_execute roots b tc =
    match validate_all roots b tc with
    | inr (p, i, e) => Outcome (match e with VExn _ => VdInternal | _ => VdValidation end) (Some (p, i)) false []
    | inl _ =>
        let '(rt, f, om) := run_seq b tc main_phases in
        let '(_, fc, oc) := run_main roots Cleanup rt 0 (t_cleanup tc) in
        Outcome (fst (finish f fc)) (snd (finish f fc)) true (om ++ oc)
    end.
  Proof. unfold sym_execute. apply (sym_execute_gen_seq false). Qed.

  Lemma spec_expected_seq b tc :
    spec_expected roots b tc =
    let '(e4, _, om) := expect_seq (env_of_table roots b) false tc main_phases in
    let '(_, _, o5) := expect_phase roots Cleanup e4 0 false (t_cleanup tc) in
    om ++ o5.
  Proof.
    unfold spec_expected, main_phases. cbn [expect_seq t_instrs].
    destruct (expect_phase roots Setup (env_of_table roots b) 0 false (t_setup tc)) as [[e1 s1] o1].
    destruct (expect_phase roots Act e1 0 s1 (t_act tc)) as [[e2 s2] o2].
    destruct (expect_phase roots BeforeAssert e2 0 s2 (t_before_assert tc)) as [[e3 s3] o3].
    destruct (expect_phase roots Assert e3 0 s3 (t_assert tc)) as [[e4 s4] o4].
    destruct (expect_phase roots Cleanup e4 0 false (t_cleanup tc)) as [[e5 s5] o5].
    rewrite app_nil_r, <- !app_assoc. reflexivity.
  Qed.
End Seq.
