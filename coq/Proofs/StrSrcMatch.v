(** C14: the verdict of a matcher depends only on the text its model denotes (under the guard). *)
From Coq Require Import NArith List Bool Lia ZifyBool.
From Exactly Require Import Lib.Harness Lib.Text Lib.TextLemmas Model.StrSrc Spec.C14 Proofs.Utf8 Proofs.StrSrcSpool
  Proofs.StrSrcViews.
Import ListNotations.
Local Open Scope N_scope.

(** ** Reading "at least n characters, by whole lines" and comparing with a shorter text *)
Lemma read_min_lines_prefix : forall n ls have,
  exists rest, concat ls = concat (read_min_lines n have ls) ++ rest /\
               (rest = [] \/ n <= have + tlen (concat (read_min_lines n have ls))).
Proof.
  intros n. induction ls as [|l ls IH]; intros have; cbn [read_min_lines].
  - exists []. split; [reflexivity | left; reflexivity].
  - destruct (n <=? have + tlen l) eqn:E.
    + exists (concat ls). cbn [concat]. rewrite app_nil_r. split; [reflexivity | right; lia].
    + destruct (IH (have + tlen l)) as [rest [H1 H2]]. exists rest. cbn [concat]. split.
      * rewrite H1 at 1. now rewrite app_assoc.
      * destruct H2 as [H2|H2]; [left; exact H2 | right]. rewrite tlen_app. lia.
Qed.

Lemma text_eqb_sym : forall a b, text_eqb a b = text_eqb b a.
Proof.
  intros a b. destruct (text_eqb a b) eqn:E1, (text_eqb b a) eqn:E2; try reflexivity.
  - apply text_eqb_eq in E1. subst. rewrite text_eqb_refl in E2. discriminate.
  - apply text_eqb_eq in E2. subst. rewrite text_eqb_refl in E1. discriminate.
Qed.

Lemma text_eqb_longer : forall x a, tlen a < tlen x -> text_eqb x a = false.
Proof.
  intros x a H. destruct (text_eqb x a) eqn:E; [|reflexivity]. apply text_eqb_eq in E. subst. lia.
Qed.

Lemma read_min_eq : forall a extra ls,
  text_eqb (read_min (tlen a + 1 + extra) ls) a = text_eqb (concat ls) a.
Proof.
  intros a extra ls. unfold read_min.
  destruct (read_min_lines_prefix (tlen a + 1 + extra) ls 0) as [rest [H1 [H2|H2]]].
  - subst rest. rewrite app_nil_r in H1. now rewrite H1.
  - rewrite text_eqb_longer by lia. rewrite text_eqb_longer; [reflexivity|]. rewrite H1, tlen_app. lia.
Qed.

(** ** UTF-8 is injective on valid texts: comparing files = comparing texts *)
Lemma utf8_inj : forall a b, valid_text a = true -> valid_text b = true -> utf8 a = utf8 b -> a = b.
Proof.
  intros a b Ha Hb E. pose proof (utf8_roundtrip a Ha) as Ra. rewrite E, (utf8_roundtrip b Hb) in Ra. congruence.
Qed.

Lemma files_equal_text : forall a b, valid_text a = true -> valid_text b = true ->
  files_equal (FText a) (FText b) = text_eqb a b.
Proof.
  intros a b Ha Hb. unfold files_equal. cbn [fobs_bytes].
  destruct (text_eqb a b) eqn:E.
  - apply text_eqb_eq in E. subst. apply text_eqb_refl.
  - destruct (text_eqb (utf8 a) (utf8 b)) eqn:E2; [|reflexivity].
    apply text_eqb_eq in E2. apply utf8_inj in E2; try assumption. subst. rewrite text_eqb_refl in E. discriminate.
Qed.

(** ** equals *)
Lemma diff_detail_ok : forall b e x, Inv e -> Inv x ->
  exists e' x', diff_detail b e x = (Some false, e', x') /\ Inv x' /\ skel_eq x x'.
Proof.
  intros b e x He Hx. unfold diff_detail.
  destruct (s_lines_ok b e He) as [e' [E1 _]]. rewrite E1.
  destruct (s_lines_ok b x Hx) as [x' [E2 [I S]]]. rewrite E2. eauto.
Qed.

Lemma equals_match_ok : forall b extra e x, Inv e -> Inv x ->
  exists e' x', equals_match b extra e x = (Some (text_eqb (den e) (den x)), e', x') /\ Inv x' /\ skel_eq x x'.
Proof.
  intros b extra e x He Hx. unfold equals_match.
  destruct (s_freeze_ok e He) as [He1 Se1]. set (e1 := s_freeze e) in *.
  assert (De1 : den e1 = den e) by (apply skel_eq_den; exact Se1).
  destruct (s_dep_ok b e1 He1) as [de [e2 [Ed [He2 Se2]]]]. rewrite Ed.
  assert (De2 : den e2 = den e) by (rewrite (skel_eq_den _ _ Se2); exact De1).
  destruct (s_dep_ok b x Hx) as [da [x1 [Ea [Hx1 Sx1]]]]. rewrite Ea.
  assert (Dx1 : den x1 = den x) by (apply skel_eq_den; exact Sx1).
  pose proof (inv_den_ok e He) as Oe. pose proof (inv_den_ok x Hx) as Ox.
  destruct de, da.
  - (* both depend on external resources: filecmp *)
    destruct (s_file_ok b e2 He2) as [e3 [E3 [He3 Se3]]]. rewrite E3.
    destruct (s_file_ok b x1 Hx1) as [x2 [E4 [Hx2 Sx2]]]. rewrite E4.
    rewrite De2, Dx1. rewrite files_equal_text by (now apply text_ok_valid).
    rewrite (text_eqb_sym (den x) (den e)).
    destruct (text_eqb (den e) (den x)); cbn [fobs_lines]; exists e3, x2; (split; [reflexivity|]);
      (split; [exact Hx2 | eapply skel_eq_trans; eassumption]).
  - (* only the expected *)
    destruct (s_str_ok b x1 Hx1) as [x2 [E3 [Hx2 Sx2]]]. rewrite E3.
    destruct (s_file_ok b e2 He2) as [e3 [E4 [He3 Se3]]]. rewrite E4. cbn [fobs_lines].
    rewrite Dx1, De2. rewrite read_min_eq. unfold file_lines. rewrite concat_lines_lf, (read_text_ok _ Oe).
    destruct (text_eqb (den e) (den x)) eqn:Eq.
    + exists e3, x2. split; [reflexivity|]. split; [exact Hx2 | eapply skel_eq_trans; eassumption].
    + destruct (diff_detail_ok b e3 x2 He3 Hx2) as [e4 [x3 [E5 [Hx3 Sx3]]]]. rewrite E5.
      exists e4, x3. split; [reflexivity|]. split; [exact Hx3|].
      eapply skel_eq_trans; [exact Sx1|]. eapply skel_eq_trans; eassumption.
  - (* only the actual *)
    destruct (s_str_ok b e2 He2) as [e3 [E3 [He3 Se3]]]. rewrite E3.
    destruct (s_lines_ok b x1 Hx1) as [x2 [E4 [Hx2 Sx2]]]. rewrite E4.
    rewrite De2, Dx1. rewrite (text_eqb_sym (den e)). rewrite read_min_eq, concat_lines_lf.
    rewrite (text_eqb_sym (den x)).
    destruct (text_eqb (den e) (den x)) eqn:Eq.
    + exists e3, x2. split; [reflexivity|]. split; [exact Hx2 | eapply skel_eq_trans; eassumption].
    + destruct (diff_detail_ok b e3 x2 He3 Hx2) as [e4 [x3 [E5 [Hx3 Sx3]]]]. rewrite E5.
      exists e4, x3. split; [reflexivity|]. split; [exact Hx3|].
      eapply skel_eq_trans; [exact Sx1|]. eapply skel_eq_trans; eassumption.
  - (* none *)
    destruct (s_str_ok b x1 Hx1) as [x2 [E3 [Hx2 Sx2]]]. rewrite E3.
    destruct (s_str_ok b e2 He2) as [e3 [E4 [He3 Se3]]]. rewrite E4.
    rewrite De2, Dx1.
    destruct (text_eqb (den e) (den x)) eqn:Eq.
    + exists e3, x2. split; [reflexivity|]. split; [exact Hx2 | eapply skel_eq_trans; eassumption].
    + destruct (diff_detail_ok b e3 x2 He3 Hx2) as [e4 [x3 [E5 [Hx3 Sx3]]]]. rewrite E5.
      exists e4, x3. split; [reflexivity|]. split; [exact Hx3|].
      eapply skel_eq_trans; [exact Sx1|]. eapply skel_eq_trans; eassumption.
Qed.

(** ** Transformers *)
Lemma inv_transform_atom : forall a x, atom_ok a -> Inv x -> Inv (transform_atom a x).
Proof.
  intros a x A H. destruct a; cbn [transform_atom Inv].
  - split; [exact H|]. split; [apply lf_ok_identity | left; reflexivity].
  - split; [exact H|]. split; [apply lf_ok_upper | left; reflexivity].
  - split; [exact H|]. split; [apply lf_ok_filter | apply cs_ok_cs0].
  - split; [exact H|]. split; [exact A | apply cs_ok_cs0].
  - split; [exact H|]. split; [now apply lf_ok_replace | left; reflexivity].
  - split; [exact H|]. split; [exact A | left; reflexivity].
Qed.

Lemma inv_fold_atoms : forall l x, Forall atom_ok l -> Inv x -> Inv (fold_left (fun m a => transform_atom a m) l x).
Proof.
  induction l as [|a l IH]; intros x A H; cbn [fold_left]; [exact H|].
  inversion A; subst. apply IH; [assumption | now apply inv_transform_atom].
Qed.

Lemma inv_transform : forall t x, trans_ok t -> Inv x -> Inv (transform t x).
Proof.
  intros [a|l|c] x A H; cbn [transform trans_ok] in *; [now apply inv_transform_atom| |].
  - apply inv_fold_atoms; [now apply Forall_filter | exact H].
  - rewrite chain_transform_atoms. now apply inv_fold_atoms.
Qed.

(** The text of a transformed source depends only on the text of the operand. *)
Lemma den_transform_atom : forall a x y, den x = den y -> den (transform_atom a x) = den (transform_atom a y).
Proof. intros a x y H. destruct a; cbn [transform_atom den]; now rewrite H. Qed.

Lemma den_fold_atoms : forall l x y, den x = den y ->
  den (fold_left (fun m a => transform_atom a m) l x) = den (fold_left (fun m a => transform_atom a m) l y).
Proof. induction l as [|a l IH]; intros x y H; cbn [fold_left]; [exact H | apply IH, den_transform_atom, H]. Qed.

Lemma den_transform : forall t x y, den x = den y -> den (transform t x) = den (transform t y).
Proof.
  intros [a|l|c] x y H; cbn [transform]; [now apply den_transform_atom | now apply den_fold_atoms|].
  rewrite !chain_transform_atoms. now apply den_fold_atoms.
Qed.

Lemma den_build : forall tr x y, den x = den y -> den (build x tr) = den (build y tr).
Proof. intros [t|] x y H; cbn [build]; [now apply den_transform | exact H]. Qed.

Lemma sem_t_den : forall t x, sem_t t (den x) = den (transform t x).
Proof. intros t x. unfold sem_t. apply den_transform. reflexivity. Qed.

(** Unwrapping the layers a transformer added. *)
Lemma unwrap_leafish : forall m y, (match y with SLines _ _ _ _ _ | SFilter _ _ _ | SRun _ _ _ => False | _ => True end) -> unwrap m y = y.
Proof. intros [|m] y H; [reflexivity|]. destruct y; cbn in *; try reflexivity; contradiction. Qed.

Lemma unwrap_add : forall n m y, unwrap (n + m) y = unwrap m (unwrap n y).
Proof.
  induction n as [|n IH]; intros m y; [reflexivity|]. cbn [Nat.add unwrap].
  destruct y; try (symmetry; apply unwrap_leafish; exact I); apply IH.
Qed.

Lemma unwrap_atom : forall a x y, skel_eq (transform_atom a x) y -> skel_eq x (unwrap 1 y).
Proof.
  intros a x y H. destruct a; cbn [transform_atom] in H; destruct y; cbn in H; try contradiction; cbn [unwrap]; tauto.
Qed.

Lemma unwrap_fold : forall l x y,
  skel_eq (fold_left (fun m a => transform_atom a m) l x) y -> skel_eq x (unwrap (length l) y).
Proof.
  induction l as [|a l IH]; intros x y H; cbn [fold_left length] in *; [exact H|].
  replace (S (length l)) with (length l + 1)%nat by lia. rewrite unwrap_add.
  eapply unwrap_atom. apply IH. exact H.
Qed.

Lemma unwrap_transform : forall t x y, skel_eq (transform t x) y -> skel_eq x (unwrap (layers t) y).
Proof.
  intros [a|l|c] x y H; cbn [transform layers] in *; [eapply unwrap_atom; exact H | now apply unwrap_fold|].
  rewrite chain_transform_atoms in H. now apply unwrap_fold.
Qed.

Lemma inv_unwrap : forall n y, Inv y -> Inv (unwrap n y).
Proof.
  induction n as [|n IH]; intros y H; [exact H|]. destruct y; cbn [unwrap]; try exact H; apply IH; cbn [Inv] in H; tauto.
Qed.

(** ** Matchers *)
(** the expected operands of [equals] are newly created sources satisfying the guard *)
Fixpoint matcher_ok (m : smatcher) : Prop :=
  match m with
  | MNumLines _ _ | MEmpty => True
  | MEquals e => fresh e /\ leaves_ok e = true /\ lfs_ok e
  | MNeg m1 => matcher_ok m1
  | MConj m1 m2 | MDisj m1 m2 => matcher_ok m1 /\ matcher_ok m2
  | MOnTrans t m1 => trans_ok t /\ matcher_ok m1
  end.

Lemma lines_lf_head_nonempty : forall t l ls, lines_lf t = l :: ls -> l <> [].
Proof.
  intros [|c t] l ls H; [discriminate|]. cbn [lines_lf] in H. destruct (N.eqb c NL).
  - injection H as <- _. discriminate.
  - destruct (lines_lf t); cbn in H; injection H as <- _; discriminate.
Qed.

Lemma m_eval_ok : forall b extra m x, Inv x -> matcher_ok m ->
  exists x', m_eval b extra m x = (Some (sem_m m (den x)), x') /\ Inv x' /\ skel_eq x x'.
Proof.
  intros b extra. induction m as [c n| |e|m1 IH1|m1 IH1 m2 IH2|m1 IH1 m2 IH2|t m1 IH1]; intros x Hx Hm; cbn [m_eval sem_m matcher_ok] in *.
  - destruct (s_lines_ok b x Hx) as [x' [E [I S]]]. rewrite E. cbn [option_map]. eauto.
  - destruct (s_lines_ok b x Hx) as [x' [E [I S]]]. rewrite E. cbn [option_map]. exists x'. split; [|auto].
    f_equal. f_equal. destruct (den x) as [|c t] eqn:Ed; [reflexivity|].
    destruct (lines_lf (c :: t)) as [|l0 ls] eqn:El.
    + apply lines_lf_nil_iff in El. discriminate.
    + apply lines_lf_head_nonempty in El. destruct l0; [contradiction | reflexivity].
  - destruct Hm as [F [L K]]. pose proof (fresh_inv e F L K) as He.
    destruct (equals_match_ok b extra e x He Hx) as [e' [x' [E [I S]]]]. rewrite E. eauto.
  - destruct (IH1 x Hx Hm) as [x' [E [I S]]]. rewrite E. cbn [option_map]. eauto.
  - destruct Hm as [Hm1 Hm2]. destruct (s_freeze_ok x Hx) as [I0 S0].
    destruct (IH1 _ I0 Hm1) as [x1 [E1 [I1 S1]]]. rewrite E1. rewrite (skel_eq_den _ _ S0).
    destruct (sem_m m1 (den x)).
    + destruct (IH2 _ I1 Hm2) as [x2 [E2 [I2 S2]]]. rewrite E2.
      rewrite (skel_eq_den _ _ S1), (skel_eq_den _ _ S0). cbn [andb]. exists x2. split; [reflexivity|]. split; [exact I2|].
      eapply skel_eq_trans; [exact S0|]. eapply skel_eq_trans; eassumption.
    + cbn [andb]. exists x1. split; [reflexivity|]. split; [exact I1 | eapply skel_eq_trans; eassumption].
  - destruct Hm as [Hm1 Hm2]. destruct (s_freeze_ok x Hx) as [I0 S0].
    destruct (IH1 _ I0 Hm1) as [x1 [E1 [I1 S1]]]. rewrite E1. rewrite (skel_eq_den _ _ S0).
    destruct (sem_m m1 (den x)).
    + cbn [orb]. exists x1. split; [reflexivity|]. split; [exact I1 | eapply skel_eq_trans; eassumption].
    + destruct (IH2 _ I1 Hm2) as [x2 [E2 [I2 S2]]]. rewrite E2.
      rewrite (skel_eq_den _ _ S1), (skel_eq_den _ _ S0). cbn [orb]. exists x2. split; [reflexivity|]. split; [exact I2|].
      eapply skel_eq_trans; [exact S0|]. eapply skel_eq_trans; eassumption.
  - destruct Hm as [Ht Hm]. destruct (IH1 _ (inv_transform t x Ht Hx) Hm) as [x1 [E1 [I1 S1]]]. rewrite E1.
    rewrite sem_t_den. exists (unwrap (layers t) x1). split; [reflexivity|]. split.
    + now apply inv_unwrap.
    + now apply unwrap_transform.
Qed.

Theorem verdict_is_semantic : forall m x b extra,
  fresh x -> leaves_ok x = true -> lfs_ok x -> matcher_ok m ->
  fst (m_eval b extra m x) = Some (sem_m m (den x)).
Proof.
  intros m x b extra F L K Hm. destruct (m_eval_ok b extra m x (fresh_inv x F L K) Hm) as [x' [E _]].
  now rewrite E.
Qed.

(** ** The consequences named in the property statement *)
Lemma sem_identity : forall t, sem_t (TAtom TId) t = t.
Proof. intros t. unfold sem_t. cbn. unfold lf_identity. apply concat_lines_lf. Qed.

Lemma variants_semantic : forall m t, map (fun m' => sem_m m' t) (variants m) = [sem_m m t; sem_m m t; sem_m m t; sem_m m t].
Proof.
  intros m t. cbn [variants map sem_m]. rewrite andb_diag, orb_diag, sem_identity. reflexivity.
Qed.

Theorem variants_agree : forall m x b extra,
  fresh x -> leaves_ok x = true -> lfs_ok x -> matcher_ok m ->
  map (fun m' => fst (m_eval b extra m' x)) (variants m) = map (fun _ => Some (sem_m m (den x))) (variants m).
Proof.
  intros m x b extra F L K Hm. cbn [variants map].
  rewrite !verdict_is_semantic; cbn [matcher_ok trans_ok atom_ok]; auto.
  cbn [sem_m]. now rewrite andb_diag, orb_diag, sem_identity.
Qed.

Lemma kinds_den : forall pk sin t, text_ok t = true -> forall k, In k (kinds pk sin t) -> den k = t /\ fresh k /\ leaves_ok k = true /\ lfs_ok k.
Proof.
  intros pk sin t H k [<-|[<-|[<-|[]]]].
  - cbn. auto.
  - cbn. rewrite (read_text_ok t H). auto.
  - unfold prog_kind. destruct sin; cbn [den map concat fresh leaves_ok lfs_ok allP forallb].
    + unfold det, g_cat. rewrite app_nil_r, (read_text_ok t H). rewrite H. repeat split; auto. apply g_ok_cat.
    + unfold det, g_const. rewrite (read_text_ok t H). repeat split; auto. now apply g_ok_const.
Qed.

Theorem kinds_agree : forall pk sin te ta tr b extra,
  text_ok te = true -> text_ok ta = true -> otrans_ok tr ->
  forall v, In v (kind_verdicts pk sin b extra te ta tr) -> v = Some (text_eqb te (den (build (SStr ta) tr))).
Proof.
  intros pk sin te ta tr b extra He Ha Htr v Hv. unfold kind_verdicts in Hv.
  apply in_flat_map in Hv as [e [Ie Hv]]. apply in_map_iff in Hv as [x [<- Ix]].
  destruct (kinds_den pk sin te He e Ie) as [De [Fe [Le Ke]]].
  destruct (kinds_den pk sin ta Ha x Ix) as [Dx [Fx [Lx Kx]]].
  destruct (build_guard x tr Htr Fx Kx) as [F [G E]].
  rewrite verdict_is_semantic; cbn [matcher_ok]; auto; [|now rewrite E].
  cbn [sem_m]. rewrite De. f_equal. f_equal. apply den_build. rewrite Dx. reflexivity.
Qed.

(** ** [identity] anywhere in a chain, at any nesting level, changes nothing *)
Lemma chain_atoms_insert_identity : forall l1 l2,
  chain_atoms (CSeq (l1 ++ CAtom TId :: l2)) = chain_atoms (CSeq (l1 ++ l2)).
Proof. intros l1 l2. cbn [chain_atoms]. rewrite !flat_map_app. reflexivity. Qed.

Lemma chain_transform_insert_identity : forall l1 l2 x,
  chain_transform (CSeq (l1 ++ CAtom TId :: l2)) x = chain_transform (CSeq (l1 ++ l2)) x.
Proof. intros. now rewrite !chain_transform_atoms, chain_atoms_insert_identity. Qed.
