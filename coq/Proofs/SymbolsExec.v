(** C03 x C08: the symbol-level model (Model/Symbols.v) supplies what the scheduler model (Model/Exec.v)
    leaves opaque for the symbol-related classes of defects.  A symbol-level test case is translated
    to an Exec [testcase] whose instructions behave at step validate-symbols exactly as
    [validate_all] says: the instruction at which symbol validation fails reports a validation error
    there ([BValErr]; an escaping exception would be [BExn]), every other instruction and every other
    step is OK.  Then the theorems of C03 / C01 about the scheduler apply. *)
From Coq Require Import List Bool Arith NArith Lia.
From Exactly Require Import Lib.Harness Model.Outcome Model.Exec Spec.C01 Proofs.ExecSpec Proofs.ExecCorollaries
  Proofs.WorldProofs.
From Exactly Require Import Model.Symbols Spec.C08 Proofs.SymbolsSound Proofs.SymbolsAccept Proofs.SymbolsRun
  Proofs.SymbolsMain.
Import ListNotations.

(** ** the translation *)
Definition mk_instr (b : beh) : Exec.instr := fun k => match k with SValSym => b | _ => BOk end.
Definition beh_of_verr (e : verr) : beh := match e with VExn _ => BExn | _ => BValErr end.
Definition status_of_verr (e : verr) : fail_status := match e with VExn _ => FInternal | _ => FValidation end.
Definition bad_at (bad : option (phase * nat * verr)) (p : phase) (i : nat) : beh :=
  match bad with
  | Some (p', j, e) => if phase_eqb' p' p && Nat.eqb j i then beh_of_verr e else BOk
  | None => BOk
  end.
Definition mk_list (bad : option (phase * nat * verr)) (p : phase) (n : nat) : list Exec.instr :=
  map (fun i => mk_instr (bad_at bad p i)) (seq 0 n).
Definition bad_of (r : table + (phase * nat * verr)) : option (phase * nat * verr) :=
  match r with inr x => Some x | inl _ => None end.
(** the act phase is ONE symbol user (the action to check) for the scheduler *)
Definition act_beh (bad : option (phase * nat * verr)) : beh :=
  match bad with Some (Act, _, e) => beh_of_verr e | _ => BOk end.
Definition exec_idx (p : phase) (i : nat) : nat := match p with Act => 0 | _ => i end.

Definition to_testcase (roots : rel -> text) (builtins : table) (tc : tcase) : testcase :=
  let bad := bad_of (validate_all roots builtins tc) in
  TC [] (mk_list bad Setup (length (t_setup tc)))
     (mk_instr (act_beh bad))
     (mk_list bad BeforeAssert (length (t_before_assert tc)))
     (mk_list bad Assert (length (t_assert tc)))
     (mk_list bad Cleanup (length (t_cleanup tc)))
     TPass false.

(** ** scheduler facts about such instruction lists *)
Lemma ffail_all_ok p k prev : forall is_ idx,
  (forall i, In i is_ -> i k = BOk) -> ffail (sched_list p k prev idx is_) = None.
Proof.
  induction is_ as [|i is_ IH]; intros idx H; [reflexivity|]. cbn [sched_list ffail snd].
  rewrite (H i (or_introl eq_refl)). cbn. apply IH. intros j Hj. apply H. right. exact Hj.
Qed.

Lemma mk_list_other_steps bad p n k i : k <> SValSym -> In i (mk_list bad p n) -> i k = BOk.
Proof.
  intros Hk Hin. unfold mk_list in Hin. apply in_map_iff in Hin as (j & <- & _). unfold mk_instr.
  destruct k; try reflexivity. contradiction.
Qed.

Lemma outcome_beh_of_verr e : Exec.outcome (beh_of_verr e) = Some (status_of_verr e).
Proof. destruct e; reflexivity. Qed.

Lemma ffail_marked p prev (f : nat -> beh) : forall n s,
  ffail (sched_list p SValSym prev s (map (fun i => mk_instr (f i)) (seq s n))) =
  match List.find (fun i => match Exec.outcome (f i) with Some _ => true | None => false end) (seq s n) with
  | Some j => option_map (Failure p SValSym j) (Exec.outcome (f j))
  | None => None
  end.
Proof.
  induction n as [|n IH]; intros s; [reflexivity|]. cbn [seq map sched_list ffail snd List.find].
  unfold mk_instr at 1. destruct (Exec.outcome (f s)) as [st|] eqn:E; cbn [option_map].
  - rewrite E. reflexivity.
  - apply IH.
Qed.

Lemma find_marked (g : nat -> bool) j : forall n s,
  (forall i, g i = true <-> i = j) ->
  List.find g (seq s n) = if (s <=? j) && (j <? s + n) then Some j else None.
Proof.
  induction n as [|n IH]; intros s Hg; cbn [seq List.find].
  - destruct (Nat.leb_spec s j), (Nat.ltb_spec j (s + 0)); cbn [andb]; try reflexivity; lia.
  - destruct (g s) eqn:Egs.
    + apply Hg in Egs. subst s.
      destruct (Nat.leb_spec j j), (Nat.ltb_spec j (j + S n)); cbn [andb]; try reflexivity; lia.
    + rewrite (IH (S s) Hg).
      assert (s <> j) by (intros ->; rewrite (proj2 (Hg j) eq_refl) in Egs; discriminate).
      destruct (Nat.leb_spec s j), (Nat.leb_spec (S s) j), (Nat.ltb_spec j (S s + n)), (Nat.ltb_spec j (s + S n));
        cbn [andb]; try reflexivity; lia.
Qed.

Lemma phase_eqb'_eq a b : phase_eqb' a b = true <-> a = b.
Proof. split; [|intros ->; destruct b; reflexivity]. destruct a, b; cbn; intros H; try reflexivity; discriminate. Qed.

(** the validate-symbols step over one phase's list *)
Lemma ffail_mk_list bad p prev n :
  ffail (sched_list p SValSym prev 0 (mk_list bad p n)) =
  match bad with
  | Some (p', j, e) =>
      if phase_eqb' p' p && (j <? n) then Some (Failure p SValSym j (status_of_verr e)) else None
  | None => None
  end.
Proof.
  unfold mk_list. rewrite ffail_marked. destruct bad as [[[p' j] e]|].
  - destruct (phase_eqb' p' p) eqn:Ep.
    + rewrite (find_marked _ j n 0).
      * cbn [andb Nat.leb plus]. destruct (j <? n); [|reflexivity].
        unfold bad_at. rewrite Ep, Nat.eqb_refl. cbn [andb]. rewrite outcome_beh_of_verr. reflexivity.
      * intros i. unfold bad_at. rewrite Ep. cbn [andb]. destruct (Nat.eqb j i) eqn:E.
        -- apply Nat.eqb_eq in E. rewrite outcome_beh_of_verr. split; auto.
        -- apply Nat.eqb_neq in E. cbn. split; [discriminate|]. intros ->. contradiction.
    + cbn [andb]. replace (List.find _ (seq 0 n)) with (@None nat); [reflexivity|]. symmetry.
      assert (H : forall l, List.find (fun i => match Exec.outcome (bad_at (Some (p', j, e)) p i) with Some _ => true | None => false end) l = None).
      { induction l as [|x l IH]; [reflexivity|]. cbn [List.find]. unfold bad_at at 1. rewrite Ep. cbn. exact IH. }
      apply H.
  - replace (List.find _ (seq 0 n)) with (@None nat); [reflexivity|]. symmetry.
    generalize (seq 0 n). induction l as [|x l IH]; [reflexivity|]. cbn. exact IH.
Qed.

(** ** where [validate_all] can fail *)
Lemma validate_phase_fail_range roots is_ : forall t idx j e,
  validate_phase roots t idx is_ = inr (j, e) -> idx <= j < idx + length is_.
Proof.
  induction is_ as [|i is_ IH]; intros t idx j e H; cbn [validate_phase] in H; [discriminate|].
  destruct (validate_usages roots t (usages_of i)) as [t'|e'].
  - apply IH in H. cbn [length]. lia.
  - injection H as <- <-. cbn [length]. lia.
Qed.

Lemma validate_all_fail_range roots b tc p j e :
  validate_all roots b tc = inr (p, j, e) -> In p validation_order /\ j < length (t_instrs tc p).
Proof.
  unfold validate_all. generalize b as t. generalize validation_order as ps.
  induction ps as [|q ps IH]; intros t H; cbn [validate_phases] in H; [discriminate|].
  destruct (validate_phase roots t 0 (t_instrs tc q)) as [t'|[i e']] eqn:E.
  - destruct (IH _ H) as [H1 H2]. split; [right; exact H1|exact H2].
  - injection H as <- <- <-. apply validate_phase_fail_range in E. split; [left; reflexivity|lia].
Qed.

(** ** symbol validation fails => the validation block of the scheduler fails, at that instruction *)
Lemma sched_step_other roots b tc p k :
  k <> SValSym -> ffail (sched_step (to_testcase roots b tc) (p, k)) = None.
Proof.
  intros Hk. unfold sched_step, to_testcase. cbn [fst snd instrs_of].
  apply ffail_all_ok. intros i Hi.
  destruct p; cbn [instrs_of tc_conf tc_setup tc_atc tc_before_assert tc_assert tc_cleanup] in Hi.
  - destruct Hi.
  - eapply mk_list_other_steps; eauto.
  - destruct Hi as [<-|[]]. unfold mk_instr. destruct k; try reflexivity. contradiction.
  - eapply mk_list_other_steps; eauto.
  - eapply mk_list_other_steps; eauto.
  - eapply mk_list_other_steps; eauto.
Qed.

Lemma symbol_failure_is_scheduled roots b tc p j e :
  validate_all roots b tc = inr (p, j, e) ->
  ffail (sched_steps (to_testcase roots b tc) block_validate) =
  Some (Failure p SValSym (exec_idx p j) (status_of_verr e)).
Proof.
  intros Hv. destruct (validate_all_fail_range roots b tc p j e Hv) as [Hp Hj].
  unfold block_validate, sched_steps. cbn [flat_map]. rewrite !ffail_app.
  rewrite (sched_step_other roots b tc Act SActParse) by discriminate.
  unfold sched_step at 1 2 3 4 5. cbn [fst snd]. unfold to_testcase. rewrite Hv. cbn [bad_of].
  cbn [instrs_of tc_conf tc_setup tc_atc tc_before_assert tc_assert tc_cleanup].
  rewrite !ffail_mk_list.
  apply Nat.ltb_lt in Hj.
  destruct p; cbn [validation_order In] in Hp; cbn [t_instrs] in Hj; cbn [phase_eqb' andb exec_idx act_beh].
  - exfalso. intuition discriminate.
  - rewrite Hj. reflexivity.
  - cbn [sched_list ffail snd mk_instr option_map]. rewrite outcome_beh_of_verr. reflexivity.
  - cbn [sched_list ffail snd mk_instr option_map Exec.outcome]. rewrite Hj. reflexivity.
  - cbn [sched_list ffail snd mk_instr option_map Exec.outcome]. rewrite Hj. reflexivity.
  - cbn [sched_list ffail snd mk_instr option_map Exec.outcome]. rewrite Hj. reflexivity.
Qed.

Lemma full_execute_of_translation roots b tc :
  full_execute (to_testcase roots b tc) =
  let (t, pr) := partial_execute (to_testcase roots b tc) in
  (t, FResult (translate_status TPass (option_map f_status (pr_failure pr))) (pr_failure pr)
              (pr_has_sds pr) (pr_has_atc_outcome pr)).
Proof. unfold full_execute. cbn. destruct (partial_execute (to_testcase roots b tc)). reflexivity. Qed.

(** C08 (validation rejects) composed with C03 (an invalid case has no effect) *)
Theorem symbol_defect_has_no_effect roots b tc p j e :
  validate_all roots b tc = inr (p, j, e) ->
  let (t, r) := full_execute (to_testcase roots b tc) in
  Forall (fun ev => is_validation_event ev = true) t /\ ~ In ESandbox t /\
  fr_status r = full_of_fail (status_of_verr e) /\
  fr_failure r = Some (Failure p SValSym (exec_idx p j) (status_of_verr e)) /\
  fr_has_sds r = false /\ fr_has_atc_outcome r = false.
Proof.
  intros Hv. assert (Hf := symbol_failure_is_scheduled roots b tc p j e Hv).
  assert (H := invalid_case_has_no_effect _ _ Hf). rewrite full_execute_of_translation.
  destruct (partial_execute (to_testcase roots b tc)) as [t pr]. destruct H as (H1 & H2 & H3 & H4 & H5).
  cbn [fr_status fr_failure fr_has_sds fr_has_atc_outcome]. rewrite H3. cbn [option_map f_status].
  repeat split; auto.
Qed.

(** the property-level statement: a test case the SPECIFICATION rejects (a name defined twice, a
    reference without an earlier definition, a type or relativity that does not satisfy the context,
    directly or through other symbols) has no effect and ends in VALIDATION_ERROR at the instruction
    the validator names *)
Theorem rejected_symbols_have_no_effect roots b tc :
  builtins_ok b = true -> wf_tcase tc = true -> spec_accept roots b tc = false ->
  exists p j,
    sym_execute roots b tc = Outcome VdValidation (Some (p, j)) false [] /\
    let (t, r) := full_execute (to_testcase roots b tc) in
    Forall (fun ev => is_validation_event ev = true) t /\ ~ In ESandbox t /\
    fr_status r = VALIDATION_ERROR /\
    fr_failure r = Some (Failure p SValSym (exec_idx p j) FValidation) /\
    fr_has_sds r = false /\ fr_has_atc_outcome r = false.
Proof.
  intros Hb Hwf Hacc. assert (HA := accept_iff roots b tc Hb Hwf). rewrite Hacc in HA.
  destruct HA as (p & j & e & Hv & Hne). exists p, j. split.
  - unfold sym_execute, sym_execute_gen. rewrite Hv. destruct e; try reflexivity. exfalso. apply Hne. exact I.
  - assert (H := symbol_defect_has_no_effect roots b tc p j e Hv).
    destruct (full_execute (to_testcase roots b tc)) as [t r].
    assert (He : status_of_verr e = FValidation) by (destruct e; try reflexivity; exfalso; apply Hne; exact I).
    rewrite He in H. exact H.
Qed.

(** ** the converse: accepted symbols pass the validate-symbols step of every instruction *)
Lemma translation_all_ok roots b tc tv :
  validate_all roots b tc = inl tv ->
  forall p k i, In i (instrs_of (to_testcase roots b tc) p) -> i k = BOk.
Proof.
  intros Hv p k i Hi. unfold to_testcase in Hi. rewrite Hv in Hi. cbn [bad_of] in Hi.
  assert (Hl : forall q n x, In x (mk_list None q n) -> x k = BOk).
  { intros q n x Hx. unfold mk_list in Hx. apply in_map_iff in Hx as (m & <- & _). unfold mk_instr, bad_at. destruct k; reflexivity. }
  destruct p; cbn [instrs_of tc_conf tc_setup tc_atc tc_before_assert tc_assert tc_cleanup] in Hi.
  - destruct Hi.
  - eapply Hl; eauto.
  - destruct Hi as [<-|[]]. unfold mk_instr, act_beh. destruct k; reflexivity.
  - eapply Hl; eauto.
  - eapply Hl; eauto.
  - eapply Hl; eauto.
Qed.

Lemma ffail_sched_steps_all_ok tc ss :
  (forall p k i, In i (instrs_of tc p) -> i k = BOk) -> ffail (sched_steps tc ss) = None.
Proof.
  intros H. induction ss as [|[p k] ss IH]; [reflexivity|]. cbn [sched_steps flat_map]. rewrite ffail_app.
  unfold sched_step at 1. cbn [fst snd]. rewrite ffail_all_ok; [exact IH|]. intros i Hi. apply (H p k i Hi).
Qed.

Theorem accepted_symbols_pass_validation roots b tc tv :
  validate_all roots b tc = inl tv ->
  let etc := to_testcase roots b tc in
  ffail (sched_steps etc block_validate) = None /\
  Forall (fun it => snd it = None) (sched_steps etc block_validate) /\
  (let (t, r) := full_execute etc in In ESandbox t /\ fr_status r = PASS /\ fr_has_sds r = true).
Proof.
  intros Hv etc. assert (Hok := translation_all_ok roots b tc tv Hv). fold etc in Hok.
  assert (H0 : ffail (sched_steps etc block_validate) = None) by (apply ffail_sched_steps_all_ok; exact Hok).
  split; [exact H0|]. split; [apply ffail_none_all_ok; exact H0|].
  unfold etc. rewrite full_execute_of_translation. fold etc. rewrite partial_execute_refines_spec.
  assert (Hsch : ffail (schedule etc) = None).
  { unfold schedule. rewrite ffail_app, H0. cbn [ffail snd]. rewrite !ffail_app.
    rewrite (ffail_sched_steps_all_ok etc block_setup Hok), (ffail_sched_steps_all_ok etc block_act Hok).
    unfold etc at 1. cbn [tc_act_only to_testcase]. rewrite ffail_app.
    unfold sched_step. cbn [fst snd]. rewrite !ffail_all_ok; [reflexivity| |]; intros i Hi; eapply Hok; eauto. }
  unfold spec_partial. rewrite Hsch.
  assert (Hcl : ffail (sched_cleanup etc (prev_of (tc_act_only etc) None)) = None).
  { unfold sched_cleanup. cbn [ffail snd]. apply ffail_all_ok. intros i Hi. apply (Hok Cleanup SMain i). exact Hi. }
  rewrite Hcl. cbn [fr_status fr_has_sds pr_failure pr_has_sds option_map translate_status].
  split; [|split; reflexivity].
  apply in_or_app. left. rewrite (tuf_no_fail _ Hsch). unfold schedule.
  rewrite map_app. apply in_or_app. right. left. reflexivity.
Qed.
