(** * Source tie, target FilesDepth (C15): the depth-limit predicates of
    impls/types/files_matcher/models.py [_FilesGeneratorForRecursive] as translated from the current source
    (Gen/Src_FilesDepth.v) against [in_min] / [at_max] of Model/Files.v.  (The generator itself -- os.scandir, the queue,
    the prune matcher, exceptions -- is outside the translator's subset.) *)
From Coq Require Import ZArith List Bool String Lia.
From Exactly Require Import Lib.PyVal Model.Files Gen.Src_FilesDepth Proofs.PyValLemmas.
Import ListNotations.
Local Open Scope Z_scope.

Definition enc_depth (o : option nat) : pyval := match o with Some k => VInt (Z.of_nat k) | None => VNone end.
Definition enc_generator (mn mx : option nat) : pyval :=
  VObj "models._FilesGeneratorForRecursive"%string [enc_depth mn; enc_depth mx].

Lemma leb_nat_Z k d : (Z.of_nat k <=? Z.of_nat d) = Nat.leb k d.
Proof. destruct (Nat.leb_spec k d), (Z.leb_spec (Z.of_nat k) (Z.of_nat d)); try reflexivity; lia. Qed.
Lemma eqb_nat_Z d k : (Z.of_nat d =? Z.of_nat k) = Nat.eqb d k.
Proof. destruct (Nat.eqb_spec d k), (Z.eqb_spec (Z.of_nat d) (Z.of_nat k)); try reflexivity; lia. Qed.

Theorem tie_is_within_min_depth_limit mn mx d :
  py_models__FilesGeneratorForRecursive__is_within_min_depth_limit (enc_generator mn mx) (VInt (Z.of_nat d))
  = VBool (in_min mn d).
Proof. destruct mn as [k|], mx; pycbn; pyint; rewrite ?leb_nat_Z; reflexivity. Qed.

Theorem tie_is_at_max_depth_limit mn mx d :
  py_models__FilesGeneratorForRecursive__is_at_max_depth_limit (enc_generator mn mx) (VInt (Z.of_nat d))
  = VBool (at_max mx d).
Proof. destruct mn, mx as [k|]; pycbn; rewrite ?eqb_nat_Z; reflexivity. Qed.

(** [_is_within_max_depth_limit] (not used by the generator; the model has no separate name for it) *)
Theorem tie_is_within_max_depth_limit mn mx d :
  py_models__FilesGeneratorForRecursive__is_within_max_depth_limit (enc_generator mn mx) (VInt (Z.of_nat d))
  = VBool (match mx with None => true | Some k => Nat.leb d k end).
Proof. destruct mn, mx as [k|]; pycbn; pyint; rewrite ?leb_nat_Z; reflexivity. Qed.

Lemma tie_generator_ctor mn mx :
  py_models__FilesGeneratorForRecursive (enc_depth mn) (enc_depth mx) = enc_generator mn mx.
Proof. destruct mn, mx; reflexivity. Qed.
