(** C08: the acceptance predicate of the specification, unfolded into the wording of the property:
    "defined only once (builtin names included)", "every reference names a definition strictly earlier
    in execution order whose type satisfies the restriction of its context". *)
From Coq Require Import List Bool Arith NArith Lia Permutation.
From Exactly Require Import Lib.Harness Model.Exec Model.Symbols Spec.C08
  Proofs.SymbolsSound Proofs.SymbolsAccept Proofs.SymbolsRun Proofs.SymbolsMain.
Import ListNotations.

Definition def_names (is_ : list instr) : list name :=
  flat_map (fun i => match i with IDef n _ => [n] | _ => [] end) is_.

Section Decl.
  Variable roots : rel -> text.

  Lemma accept_from_splits is_ : forall e,
    accept_from roots e is_ = true <->
    (forall pre i post, is_ = pre ++ i :: post -> instr_ok (env_afters roots e pre) i = true).
  Proof.
    induction is_ as [|i0 is_ IH]; intros e.
    - split; [|reflexivity]. intros _ pre i post H. destruct pre; discriminate.
    - cbn [accept_from]. rewrite andb_true_iff, IH. split.
      + intros [H0 H] pre i post E. destruct pre as [|j pre]; cbn [app] in E.
        * injection E as <- <-. exact H0.
        * injection E as <- E. cbn [env_afters]. apply (H pre i post E).
      + intros H. split.
        * apply (H [] i0 is_ eq_refl).
        * intros pre i post E. apply (H (i0 :: pre) i post). cbn [app]. now rewrite E.
  Qed.

  Lemma env_names_table b : map d_name (env_of_table roots b) = map fst b.
  Proof.
    induction b as [|[n c] b IH]; [reflexivity|]. unfold env_of_table in *.
    cbn [fold_right map fst snd define d_name]. now rewrite IH.
  Qed.

  Lemma env_names_afters pre : forall e n,
    In n (map d_name (env_afters roots e pre)) <-> In n (map d_name e) \/ In n (def_names pre).
  Proof.
    induction pre as [|i pre IH]; intros e n.
    - cbn. tauto.
    - cbn [env_afters]. rewrite IH. unfold def_names. cbn [flat_map]. rewrite in_app_iff.
      destruct i as [m c|refs vals|hard]; cbn [env_after define map d_name In]; tauto.
  Qed.

  Lemma find_in_names e n : find e n <> None <-> In n (map d_name e).
  Proof.
    induction e as [|d e IH]; cbn [find map In]; [tauto|].
    destruct (N.eqb (d_name d) n) eqn:E.
    - apply N.eqb_eq in E. split; [auto|discriminate].
    - rewrite IH. split; [auto|]. intros [H|H]; [|exact H]. apply N.eqb_neq in E. contradiction.
  Qed.
  Lemma fresh_in_names e n : existsb (fun d => N.eqb (d_name d) n) e = false <-> ~ In n (map d_name e).
  Proof.
    induction e as [|d e IH]; cbn [existsb map In]; [tauto|].
    rewrite orb_false_iff, IH, N.eqb_neq. tauto.
  Qed.

  Theorem accept_declarative b tc :
    spec_accept roots b tc = true <->
    (forall pre i post, exec_order tc = pre ++ i :: post ->
       let e := env_afters roots (env_of_table roots b) pre in
       let earlier := map fst b ++ def_names pre in
       (forall n c, i = IDef n c -> ~ In n earlier) /\
       (forall r, In r (instr_refs i) ->
          In (r_name r) earlier /\ exists d, find e (r_name r) = Some d /\ restr_ok e (r_restr r) d = true)).
  Proof.
    unfold spec_accept. rewrite accept_from_splits. split; intros H pre i post E; specialize (H pre i post E).
    - cbn zeta. set (e := env_afters roots (env_of_table roots b) pre) in *.
      assert (Hnames : forall n, In n (map d_name e) <-> In n (map fst b ++ def_names pre)).
      { intros n. unfold e. rewrite env_names_afters, env_names_table, in_app_iff. tauto. }
      assert (Hrefs : forall rs, forallb (ref_ok e) rs = true -> forall r, In r rs ->
                In (r_name r) (map fst b ++ def_names pre) /\
                exists d, find e (r_name r) = Some d /\ restr_ok e (r_restr r) d = true).
      { intros rs Hall r Hr. rewrite forallb_forall in Hall. specialize (Hall r Hr). unfold ref_ok in Hall.
        destruct (find e (r_name r)) as [d|] eqn:Hf; [|discriminate]. split.
        - apply Hnames, find_in_names. rewrite Hf. discriminate.
        - exists d. auto. }
      destruct i as [n c|refs vals|hard]; cbn [instr_ok instr_refs] in *.
      + apply andb_true_iff in H as [H1 H2]. split.
        * intros n' c' E'. injection E' as <- <-. rewrite <- Hnames. apply fresh_in_names.
          destruct (existsb _ e); [discriminate|reflexivity].
        * apply Hrefs. exact H2.
      + split; [intros n c E'; discriminate|]. apply Hrefs. exact H.
      + split; [intros n c E'; discriminate|]. intros r [].
    - cbn zeta in H. set (e := env_afters roots (env_of_table roots b) pre) in *. destruct H as [H1 H2].
      assert (Hnames : forall n, In n (map d_name e) <-> In n (map fst b ++ def_names pre)).
      { intros n. unfold e. rewrite env_names_afters, env_names_table, in_app_iff. tauto. }
      assert (Hrefs : forall rs, (forall r, In r rs -> In r (instr_refs i)) -> forallb (ref_ok e) rs = true).
      { intros rs Hsub. apply forallb_forall. intros r Hr. destruct (H2 r (Hsub r Hr)) as (_ & d & Hf & Hok).
        unfold ref_ok. rewrite Hf. exact Hok. }
      destruct i as [n c|refs vals|hard]; cbn [instr_ok instr_refs] in *.
      + apply andb_true_iff. split.
        * apply negb_true_iff, fresh_in_names. rewrite Hnames. apply (H1 n c eq_refl).
        * apply Hrefs. auto.
      + apply Hrefs. auto.
      + reflexivity.
  Qed.

  (** in an accepted test case no name is defined twice, builtin names included *)
  Lemma nodup_names_afters pre : forall e,
    NoDup (map d_name e) -> accept_from roots e pre = true -> NoDup (map d_name (env_afters roots e pre)).
  Proof.
    induction pre as [|i pre IH]; intros e Hnd Hacc; [exact Hnd|].
    cbn [accept_from] in Hacc. apply andb_true_iff in Hacc as [Hi Hacc]. cbn [env_afters]. apply IH; [|exact Hacc].
    destruct i as [n c|refs vals|hard]; cbn [env_after define map d_name]; try exact Hnd.
    cbn [instr_ok] in Hi. apply andb_true_iff in Hi as [Hnew _]. constructor; [|exact Hnd].
    apply fresh_in_names. destruct (existsb _ e); [discriminate|reflexivity].
  Qed.

  Lemma builtins_nodup b : builtins_ok b = true -> NoDup (map fst b).
  Proof.
    induction b as [|[n c] b IH]; intros H; [constructor|]. cbn [builtins_ok] in H.
    apply andb_true_iff in H as [H H4]. apply andb_true_iff in H as [H _]. apply andb_true_iff in H as [H1 _].
    cbn [map fst]. constructor; [|apply IH; exact H4].
    intros Hin. unfold contains in H1. destruct (lookup b n) eqn:Hl; [discriminate|].
    clear -Hin Hl. induction b as [|[m c'] b IH]; [destruct Hin|]. cbn [lookup map fst In] in *.
    destruct (N.eqb m n) eqn:E; [discriminate|]. destruct Hin as [->|Hin]; [rewrite N.eqb_refl in E; discriminate|].
    apply IH; assumption.
  Qed.

  Theorem accepted_defined_once b tc :
    builtins_ok b = true -> spec_accept roots b tc = true ->
    NoDup (map fst b ++ def_names (exec_order tc)).
  Proof.
    intros Hb Hacc. unfold spec_accept in Hacc.
    assert (Hnd := nodup_names_afters (exec_order tc) (env_of_table roots b)).
    rewrite env_names_table in Hnd. specialize (Hnd (builtins_nodup b Hb) Hacc).
    (* the names of the final environment are the definitions in reverse order followed by the builtins *)
    assert (Hshape : forall pre e, map d_name (env_afters roots e pre) = rev (def_names pre) ++ map d_name e).
    { induction pre as [|i pre IH]; intros e; [reflexivity|]. cbn [env_afters def_names flat_map]. rewrite IH.
      fold (def_names pre). destruct i as [n c|refs vals|hard]; cbn [env_after define map d_name app rev]; try reflexivity.
      cbn. rewrite <- ?app_assoc. reflexivity. }
    rewrite Hshape, env_names_table in Hnd.
    clear -Hnd. revert Hnd. generalize (map fst b) as l1. generalize (def_names (exec_order tc)) as l2.
    intros l2 l1 H.
    assert (Hperm : Permutation.Permutation (rev l2 ++ l1) (l1 ++ l2)).
    { eapply Permutation.Permutation_trans; [apply Permutation.Permutation_app_comm|].
      apply Permutation.Permutation_app_head. apply Permutation.Permutation_sym, Permutation.Permutation_rev. }
    apply (Permutation.Permutation_NoDup Hperm H).
  Qed.
End Decl.
