(** * Source tie, target Relativity (C12): tcfs/path_relativity.py, tcfs/relativity_validation.py and the file-creation
    constants of type_val_deps/types/path/rel_opts_configuration.py as translated from the current source
    (Gen/Src_Relativity.v) against the relativity part of Model/Paths.v. *)
From Coq Require Import ZArith List Bool String.
From Exactly Require Import Lib.PyVal Model.Paths Gen.Src_Relativity Proofs.PyValLemmas.
Import ListNotations.
Local Open Scope Z_scope.
Local Open Scope string_scope.

Definition enc_rel (r : relopt) : pyval :=
  match r with
  | RCwd => VEnum "path_relativity.RelOptionType" "REL_CWD" (VInt 0)
  | RHdsCase => VEnum "path_relativity.RelOptionType" "REL_HDS_CASE" (VInt 1)
  | RHdsAct => VEnum "path_relativity.RelOptionType" "REL_HDS_ACT" (VInt 2)
  | RAct => VEnum "path_relativity.RelOptionType" "REL_ACT" (VInt 3)
  | RTmp => VEnum "path_relativity.RelOptionType" "REL_TMP" (VInt 4)
  | RResult => VEnum "path_relativity.RelOptionType" "REL_RESULT" (VInt 5)
  end.

(** SpecificPathRelativity: [None] = absolute *)
Definition enc_specific (o : option relopt) : pyval :=
  VObj "path_relativity.SpecificPathRelativity" [match o with Some r => enc_rel r | None => VNone end].
(** PathRelativityVariants: a set of options (the list of the model, as a set value) and the absolute flag *)
Definition enc_variants (v : variants) : pyval :=
  VObj "path_relativity.PathRelativityVariants" [VSet (map enc_rel (v_rels v)); VBool (v_abs v)].

Lemma tie_rel_members : py_path_relativity_RelOptionType_members = map enc_rel all_relopts.
Proof. reflexivity. Qed.

Lemma tie_specific r :
  py_path_relativity_specific_relative_relativity (enc_rel r) = enc_specific (Some r) /\
  py_path_relativity_SPECIFIC_ABSOLUTE_RELATIVITY = enc_specific None.
Proof. destruct r; split; reflexivity. Qed.

Lemma mem_enc r l : mem_go (enc_rel r) (map enc_rel l) = Some (rel_in r l).
Proof.
  induction l as [|x l IH]; [reflexivity|]. cbn [map mem_go rel_in existsb].
  replace (py_eqb (enc_rel x) (enc_rel r)) with (Some (relopt_eqb r x)) by (destruct x, r; reflexivity).
  destruct (relopt_eqb r x); [reflexivity|]. exact IH.
Qed.

(** relativity_validation.is_satisfied_by = [variants_sat], for every relativity and every set of variants *)
Theorem tie_is_satisfied_by rel acc :
  py_relativity_validation_is_satisfied_by (enc_specific rel) (enc_variants acc) = VBool (variants_sat rel acc).
Proof.
  destruct rel as [r|]; [|reflexivity].
  assert (Hok : py_ok (enc_rel r) = true) by now destruct r.
  assert (Hn : py_is_none (enc_rel r) = VBool false) by now destruct r.
  unfold py_relativity_validation_is_satisfied_by, enc_specific, enc_variants, variants_sat.
  cbn -[py_in enc_rel]. pyoks. rewrite Hn. cbn -[py_in enc_rel]. pyoks.
  unfold py_in. rewrite Hok, mem_enc. reflexivity.
Qed.

(** RELATIVITY_VARIANTS_FOR_FILE_CREATION / REL_OPTIONS_FOR_FILE_CREATION *)
Theorem tie_creation_variants :
  (forall r, py_in (enc_rel r) (py_attr_rel_option_types py_rel_opts_configuration_RELATIVITY_VARIANTS_FOR_FILE_CREATION)
             = VBool (rel_in r (v_rels creation_variants))) /\
  py_attr_absolute py_rel_opts_configuration_RELATIVITY_VARIANTS_FOR_FILE_CREATION = VBool (v_abs creation_variants) /\
  (forall rel, py_relativity_validation_is_satisfied_by (enc_specific rel) py_rel_opts_configuration_RELATIVITY_VARIANTS_FOR_FILE_CREATION
               = VBool (variants_sat rel creation_variants)) /\
  py_attr_accepted_relativity_variants py_rel_opts_configuration_REL_OPTIONS_FOR_FILE_CREATION
  = py_rel_opts_configuration_RELATIVITY_VARIANTS_FOR_FILE_CREATION /\
  py_attr_default_option py_rel_opts_configuration_REL_OPTIONS_FOR_FILE_CREATION = enc_rel RCwd.
Proof.
  repeat split.
  - intro r; destruct r; reflexivity.
  - intros [[]|]; reflexivity.
Qed.

(** the names of the sandbox sub directories (tcfs/sds.py) are the ones the model resolves relativities to *)
Theorem tie_sds_dir_names :
  (exists s, py_sds_SUB_DIRECTORY__ACT = VStr s /\ str_codes s = t_act) /\
  (exists s, py_sds_SUB_DIRECTORY__TMP_USER = VStr s /\ str_codes s = t_tmp) /\
  (exists s, py_sds_SUB_DIRECTORY__RESULT = VStr s /\ str_codes s = t_result).
Proof. repeat split; eexists; split; reflexivity. Qed.
