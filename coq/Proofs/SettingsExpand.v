(** Proofs about [_expand_vars]: the fuelled scanning loop of the model never runs out of fuel and
    computes the declarative left-to-right substitution of Spec/C11.v. *)
From Coq Require Import NArith List Bool Arith Lia ZifyBool.
From Exactly Require Import Lib.Harness Model.Settings Spec.C11.
Import ListNotations.
Local Open Scope N_scope.

(** ** equality on texts *)
Lemma text_eqb_eq : forall a b, text_eqb a b = true <-> a = b.
Proof. apply list_eqb_eq. intros x y. apply N.eqb_eq. Qed.

Lemma text_eqb_refl : forall a, text_eqb a a = true.
Proof. intros a. apply text_eqb_eq. reflexivity. Qed.

Lemma text_eqb_false : forall a b, text_eqb a b = false <-> a <> b.
Proof.
  intros a b. split.
  - intros E H. apply text_eqb_eq in H. congruence.
  - intros H. destruct (text_eqb a b) eqn:E; [|reflexivity]. apply text_eqb_eq in E. contradiction.
Qed.

(** ** name characters *)
Lemma name_charb_iff : forall c, name_charb c = true <-> name_char c.
Proof. intros c. unfold name_charb, name_char. lia. Qed.

Lemma rbrace_not_name_char : name_charb 125 = false.
Proof. reflexivity. Qed.

Lemma span_take : forall s, span_name s = (take_name s, skipn (length (take_name s)) s).
Proof.
  induction s as [|c s IH]; cbn [span_name take_name].
  - reflexivity.
  - change (name_charb c) with (is_name_char c). destruct (is_name_char c).
    + rewrite IH. reflexivity.
    + reflexivity.
Qed.

Lemma take_name_split : forall s, s = take_name s ++ skipn (length (take_name s)) s.
Proof.
  induction s as [|c s IH]; cbn [take_name].
  - reflexivity.
  - destruct (name_charb c); cbn [length skipn app].
    + f_equal. exact IH.
    + reflexivity.
Qed.

Lemma take_name_chars : forall s, Forall (fun c => name_charb c = true) (take_name s).
Proof.
  induction s as [|c s IH]; cbn [take_name].
  - constructor.
  - destruct (name_charb c) eqn:E; constructor; assumption.
Qed.

Lemma take_name_app : forall nm c rest,
  Forall (fun c => name_charb c = true) nm -> name_charb c = false -> take_name (nm ++ c :: rest) = nm.
Proof.
  induction nm as [|x nm IH]; intros c rest Hnm Hc; cbn [app take_name].
  - rewrite Hc. reflexivity.
  - inversion Hnm as [|? ? Hx Hnm']; subst. rewrite Hx. f_equal. apply IH; assumption.
Qed.

(** ** [ref_here]: shape of a reference *)
Lemma ref_here_shape : forall s nm,
  ref_here s = Some nm ->
  exists rest, s = reference nm ++ rest /\ nm <> [] /\ Forall (fun c => name_charb c = true) nm.
Proof.
  intros s nm H. destruct s as [|c1 [|c2 s']]; try discriminate. unfold ref_here in H.
  destruct ((c1 =? 36) && (c2 =? 123)) eqn:E; [|discriminate].
  assert (c1 = 36 /\ c2 = 123) as [-> ->] by lia.
  pose proof (take_name_split s') as Hs. pose proof (take_name_chars s') as Hc.
  destruct (take_name s') as [|x nm'] eqn:En; [discriminate|].
  destruct (skipn (length (x :: nm')) s') as [|c3 rest] eqn:Er; [discriminate|].
  destruct (c3 =? 125) eqn:E3; [|discriminate]. assert (c3 = 125) by lia. subst c3.
  injection H as <-. exists rest. split; [|split].
  - unfold reference. cbn [app]. f_equal. f_equal. rewrite Hs at 1. rewrite <- app_assoc. reflexivity.
  - discriminate.
  - exact Hc.
Qed.

Lemma ref_here_reference : forall nm rest,
  nm <> [] -> Forall (fun c => name_charb c = true) nm -> ref_here (reference nm ++ rest) = Some nm.
Proof.
  intros nm rest Hne Hc. unfold reference. cbn [app]. unfold ref_here.
  replace ((36 =? 36) && (123 =? 123)) with true by reflexivity.
  rewrite <- app_assoc. cbn [app].
  rewrite (take_name_app nm 125 rest Hc rbrace_not_name_char).
  destruct nm as [|x nm']; [contradiction|].
  rewrite skipn_app. rewrite skipn_all. rewrite Nat.sub_diag. cbn [skipn app].
  replace (125 =? 125) with true by reflexivity. reflexivity.
Qed.

Lemma length_reference : forall nm, length (reference nm) = (3 + length nm)%nat.
Proof. intros nm. unfold reference. cbn [length]. rewrite app_length. cbn [length]. lia. Qed.

Lemma match_here_ref_here : forall s,
  match_here s = match ref_here s with Some nm => Some (3 + length nm)%nat | None => None end.
Proof.
  intros s. destruct s as [|c1 [|c2 s']]; try reflexivity. unfold match_here, ref_here, DOLLAR, LBRACE, RBRACE.
  destruct ((c1 =? 36) && (c2 =? 123)); [|reflexivity].
  rewrite span_take. destruct (take_name s') as [|x nm']; [reflexivity|].
  destruct (skipn (length (x :: nm')) s') as [|c3 rest]; [reflexivity|].
  destruct (c3 =? 125); reflexivity.
Qed.

(** ** [re_search] finds the leftmost reference *)
Lemma ref_here_nil : ref_here [] = None.
Proof. reflexivity. Qed.

Lemma re_search_none : forall s, re_search s = None -> forall i, ref_here (skipn i s) = None.
Proof.
  induction s as [|c s IH]; intros H i.
  - rewrite skipn_nil. reflexivity.
  - cbn [re_search] in H. rewrite match_here_ref_here in H.
    destruct (ref_here (c :: s)) eqn:E; [discriminate|].
    destruct (re_search s) as [[a b]|] eqn:Es; [discriminate|].
    destruct i as [|i]; cbn [skipn]; [exact E | apply IH; reflexivity].
Qed.

Lemma re_search_some : forall s st en,
  re_search s = Some (st, en) ->
  exists nm, ref_here (skipn st s) = Some nm /\ en = (st + 3 + length nm)%nat /\
             (forall i, (i < st)%nat -> ref_here (skipn i s) = None) /\ (en <= length s)%nat.
Proof.
  induction s as [|c s IH]; intros st en H.
  - discriminate.
  - cbn [re_search] in H. rewrite match_here_ref_here in H.
    destruct (ref_here (c :: s)) as [nm|] eqn:E.
    + injection H as <- <-. exists nm. split; [exact E|]. split; [lia|]. split; [intros i Hi; lia|].
      apply ref_here_shape in E as (rest & Es & _). rewrite Es. rewrite app_length, length_reference. lia.
    + destruct (re_search s) as [[a b]|] eqn:Es; [|discriminate]. injection H as <- <-.
      destruct (IH a b eq_refl) as (nm & H1 & H2 & H3 & H4). exists nm. cbn [skipn length].
      split; [exact H1|]. split; [lia|]. split; [|lia].
      intros i Hi. destruct i as [|i]; cbn [skipn]; [exact E | apply H3; lia].
Qed.

(** ** [expand_from] *)
Lemma expand_from_skip : forall look s k, expand_from look k s = expand_from look 0 (skipn k s).
Proof.
  induction s as [|c s IH]; intros k.
  - rewrite skipn_nil. destruct k; reflexivity.
  - destruct k as [|k]; [reflexivity|]. cbn [expand_from skipn]. apply IH.
Qed.

Lemma expand_from_no_ref : forall look c s,
  ref_here (c :: s) = None -> expand_from look 0 (c :: s) = c :: expand_from look 0 s.
Proof. intros look c s H. cbn [expand_from]. rewrite H. reflexivity. Qed.

Lemma expand_from_ref : forall look s nm,
  ref_here s = Some nm ->
  expand_from look 0 s = value_of look nm ++ expand_from look 0 (skipn (3 + length nm) s).
Proof.
  intros look s nm H. destruct s as [|c s]; [discriminate|]. cbn [expand_from]. rewrite H.
  rewrite expand_from_skip. reflexivity.
Qed.

Lemma expand_from_prefix : forall look st s,
  (forall i, (i < st)%nat -> ref_here (skipn i s) = None) -> (st <= length s)%nat ->
  expand_from look 0 s = firstn st s ++ expand_from look 0 (skipn st s).
Proof.
  induction st as [|st IH]; intros s H Hl.
  - reflexivity.
  - destruct s as [|c s]; [cbn in Hl; lia|].
    rewrite expand_from_no_ref by (apply (H 0%nat); lia).
    cbn [firstn skipn app]. f_equal. apply IH.
    + intros i Hi. apply (H (S i)). lia.
    + cbn in Hl. lia.
Qed.

Lemma expand_from_none : forall look s,
  (forall i, ref_here (skipn i s) = None) -> expand_from look 0 s = s.
Proof.
  induction s as [|c s IH]; intros H.
  - reflexivity.
  - rewrite expand_from_no_ref by (apply (H 0%nat)). f_equal. apply IH. intros i. apply (H (S i)).
Qed.

Lemma expand_from_ext : forall look1 look2 s k,
  (forall n, look1 n = look2 n) -> expand_from look1 k s = expand_from look2 k s.
Proof.
  intros look1 look2 s. induction s as [|c s IH]; intros k H.
  - reflexivity.
  - cbn [expand_from]. destruct k as [|k]; [|apply IH; exact H].
    destruct (ref_here (c :: s)) as [nm|].
    + unfold value_of. rewrite H. f_equal. apply IH; exact H.
    + f_equal. apply IH; exact H.
Qed.

Lemma expand_spec_ext : forall look1 look2 s,
  (forall n, look1 n = look2 n) -> expand_spec look1 s = expand_spec look2 s.
Proof. intros. unfold expand_spec. apply expand_from_ext. assumption. Qed.

(** ** the loop of the model *)
Lemma skipn_skipn' : forall {A} (x y : nat) (l : list A), skipn x (skipn y l) = skipn (x + y) l.
Proof.
  intros A x y. induction y as [|y IH]; intros l.
  - rewrite Nat.add_0_r. reflexivity.
  - destruct l as [|a l]; [rewrite !skipn_nil; reflexivity|].
    rewrite Nat.add_succ_r. cbn [skipn]. apply IH.
Qed.

Lemma substitute_reference : forall e nm,
  substitute e (reference nm) = value_of (get e) nm.
Proof.
  intros e nm. unfold substitute, reference, value_of. cbn [skipn]. rewrite removelast_last. reflexivity.
Qed.

Lemma expand_loop_correct : forall fuel e processed remaining,
  (length remaining <= fuel)%nat ->
  expand_loop fuel e processed remaining = Some (processed ++ expand_from (get e) 0 remaining).
Proof.
  induction fuel as [|fuel IH]; intros e processed remaining Hf.
  - destruct remaining; [|cbn in Hf; lia]. reflexivity.
  - cbn [expand_loop]. destruct (re_search remaining) as [[st en]|] eqn:Es.
    + destruct (re_search_some _ _ _ Es) as (nm & Href & Hen & Hleft & Hlen).
      destruct (ref_here_shape _ _ Href) as (rest & Hshape & _ & _).
      rewrite IH by (rewrite skipn_length; lia).
      f_equal. rewrite <- !app_assoc. f_equal.
      rewrite (expand_from_prefix (get e) st remaining Hleft) by lia. f_equal.
      rewrite (expand_from_ref _ _ _ Href). rewrite skipn_skipn'.
      replace (3 + length nm + st)%nat with en by lia.
      f_equal. rewrite Hshape. replace (en - st)%nat with (length (reference nm)) by (rewrite length_reference; lia).
      rewrite firstn_app, firstn_all, Nat.sub_diag. cbn [firstn]. rewrite app_nil_r.
      apply substitute_reference.
    + rewrite (expand_from_none _ _ (re_search_none _ Es)). reflexivity.
Qed.

(** The model's [_expand_vars] never runs out of fuel and equals the specification function. *)
Theorem expand_vars_spec : forall value e, expand_vars value e = Some (expand_spec (get e) value).
Proof. intros value e. unfold expand_vars, expand_spec. rewrite expand_loop_correct by lia. reflexivity. Qed.

(** ** the specification function satisfies the declarative relation, which is functional *)
Lemma is_name_b : forall nm, is_name nm <-> (nm <> [] /\ Forall (fun c => name_charb c = true) nm).
Proof.
  intros nm. unfold is_name. split; intros [H1 H2]; (split; [exact H1|]);
    (eapply Forall_impl; [|exact H2]); intros c Hc; apply name_charb_iff; exact Hc.
Qed.

Lemma ref_at_iff : forall s i, ref_at s i <-> ((i <= length s)%nat /\ exists nm, ref_here (skipn i s) = Some nm).
Proof.
  intros s i. split.
  - intros (nm & rest & Hn & Hi & Hs). split; [exact Hi|]. exists nm. rewrite Hs.
    apply is_name_b in Hn as [H1 H2]. apply ref_here_reference; assumption.
  - intros (Hi & nm & H). destruct (ref_here_shape _ _ H) as (rest & Hs & H1 & H2).
    exists nm, rest. split; [apply is_name_b; split; assumption|]. split; assumption.
Qed.

Lemma no_ref_at : forall s i, ~ ref_at s i -> ref_here (skipn i s) = None.
Proof.
  intros s i H. destruct (ref_here (skipn i s)) as [nm|] eqn:E; [|reflexivity].
  exfalso. apply H. apply ref_at_iff. split.
  - destruct (le_lt_dec i (length s)) as [Hl|Hl]; [exact Hl|].
    rewrite skipn_all2 in E by lia. discriminate.
  - exists nm. exact E.
Qed.

Lemma expand_spec_step : forall look pre nm rest,
  is_name nm ->
  (forall i, (i < length pre)%nat -> ~ ref_at (pre ++ reference nm ++ rest) i) ->
  expand_spec look (pre ++ reference nm ++ rest) = pre ++ value_of look nm ++ expand_spec look rest.
Proof.
  intros look pre nm rest Hn Hleft. unfold expand_spec.
  apply is_name_b in Hn as [H1 H2].
  rewrite (expand_from_prefix look (length pre)).
  - rewrite firstn_app, firstn_all, Nat.sub_diag. cbn [firstn]. rewrite app_nil_r. f_equal.
    rewrite skipn_app, skipn_all, Nat.sub_diag. cbn [skipn app].
    rewrite (expand_from_ref look _ nm) by (apply ref_here_reference; assumption). f_equal.
    rewrite <- length_reference. rewrite skipn_app, skipn_all, Nat.sub_diag. reflexivity.
  - intros i Hi. apply no_ref_at. apply Hleft. exact Hi.
  - rewrite app_length. lia.
Qed.

Theorem Expands_functional : forall look s r, Expands look s r -> r = expand_spec look s.
Proof.
  intros look s r H. induction H as [s Hnone | pre nm rest out Hn Hleft Hrest IH].
  - unfold expand_spec. symmetry. apply expand_from_none. intros i. apply no_ref_at. apply Hnone.
  - rewrite expand_spec_step by assumption. rewrite IH. reflexivity.
Qed.

Theorem expand_spec_Expands : forall look s, Expands look s (expand_spec look s).
Proof.
  intros look s. remember (length s) as n eqn:Hlen. revert s Hlen.
  induction n as [n IH] using lt_wf_ind. intros s Hlen.
  destruct (re_search s) as [[st en]|] eqn:Es.
  - destruct (re_search_some _ _ _ Es) as (nm & Href & Hen & Hleft & Hl).
    destruct (ref_here_shape _ _ Href) as (rest & Hshape & H1 & H2).
    assert (Hs : s = firstn st s ++ reference nm ++ rest) by (rewrite <- Hshape; symmetry; apply firstn_skipn).
    assert (Hpre : length (firstn st s) = st) by (apply firstn_length_le; lia).
    assert (Hname : is_name nm) by (apply is_name_b; split; assumption).
    assert (Hno : forall i, (i < length (firstn st s))%nat -> ~ ref_at (firstn st s ++ reference nm ++ rest) i).
    { intros i Hi. rewrite <- Hs. intros Hr. apply ref_at_iff in Hr as (_ & nm' & Hr).
      rewrite Hleft in Hr by lia. discriminate. }
    rewrite Hs at 2. rewrite expand_spec_step by assumption.
    rewrite Hs at 1. apply Exp_ref; try assumption.
    apply (IH (length rest)); [|reflexivity].
    rewrite Hlen, Hs, !app_length, length_reference. lia.
  - replace (expand_spec look s) with s.
    + apply Exp_none. intros i Hr. apply ref_at_iff in Hr as (_ & nm & Hr).
      rewrite (re_search_none _ Es) in Hr. discriminate.
    + unfold expand_spec. symmetry. apply expand_from_none. apply re_search_none. exact Es.
Qed.

(** The result of the model's [_expand_vars] is THE text the declarative substitution relates to
    the value. *)
Theorem expand_vars_correct : forall value e,
  exists r, expand_vars value e = Some r /\ Expands (get e) value r /\
            forall r', Expands (get e) value r' -> r' = r.
Proof.
  intros value e. exists (expand_spec (get e) value). split; [apply expand_vars_spec|]. split.
  - apply expand_spec_Expands.
  - intros r' H. apply Expands_functional. exact H.
Qed.

(** ** corollaries for particular shapes of value *)
Theorem expand_vars_without_dollar : forall value e, ~ In 36 value -> expand_vars value e = Some value.
Proof.
  intros value e Hno. rewrite expand_vars_spec. f_equal. symmetry. apply Expands_functional. apply Exp_none.
  intros i (nm & rest & _ & _ & Hs). apply Hno.
  rewrite <- (firstn_skipn i value). apply in_or_app. right. rewrite Hs. left. reflexivity.
Qed.

Theorem expand_vars_one_reference : forall pre nm post e,
  ~ In 36 pre -> ~ In 36 post -> is_name nm ->
  expand_vars (pre ++ reference nm ++ post) e = Some (pre ++ value_of (get e) nm ++ post).
Proof.
  intros pre nm post e Hpre Hpost Hn. rewrite expand_vars_spec. f_equal. symmetry. apply Expands_functional.
  apply Exp_ref; [exact Hn| |].
  - intros i Hi (nm' & rest & _ & _ & Hs). apply Hpre.
    assert (Hin : In 36 (skipn i pre)).
    { rewrite skipn_app in Hs. replace (i - length pre)%nat with 0%nat in Hs by lia. cbn [skipn] in Hs.
      destruct (skipn i pre) as [|x xs] eqn:E.
      - exfalso. assert (length (skipn i pre) = 0%nat) by (rewrite E; reflexivity). rewrite skipn_length in H. lia.
      - cbn [app] in Hs. unfold reference in Hs. cbn [app] in Hs. injection Hs as -> _. left. reflexivity. }
    rewrite <- (firstn_skipn i pre). apply in_or_app. right. exact Hin.
  - apply Exp_none. intros i (nm' & rest & _ & _ & Hs). apply Hpost.
    rewrite <- (firstn_skipn i post). apply in_or_app. right. rewrite Hs. left. reflexivity.
Qed.
