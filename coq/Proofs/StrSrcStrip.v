(** C14: the [strip] transformers are admissible line transformations. *)
From Coq Require Import NArith List Bool Lia ZifyBool.
From Exactly Require Import Lib.Text Lib.TextLemmas Model.StrSrc Spec.C14 Proofs.Utf8 Proofs.StrSrcSpool Proofs.StrSrcViews.
Import ListNotations.
Local Open Scope N_scope.

(** ** Well-formed sequences: everything before a non-empty tail is a full line *)
Lemma wf_lines_app_inv : forall xs ys, ys <> [] -> wf_lines (xs ++ ys) = true ->
  Forall (fun l => is_full_line l = true) xs /\ wf_lines ys = true.
Proof.
  induction xs as [|x xs IH]; intros ys Hne H; [split; [constructor | exact H]|].
  cbn [app] in H. destruct (xs ++ ys) as [|z zs] eqn:E.
  - destruct xs; destruct ys; try discriminate; contradiction.
  - change (wf_lines (x :: z :: zs)) with (is_full_line x && wf_lines (z :: zs)) in H.
    apply andb_true_iff in H as [H1 H2]. rewrite <- E in H2. destruct (IH ys Hne H2) as [F W].
    split; [constructor; assumption | exact W].
Qed.

Lemma wf_lines_full_app : forall xs ys, Forall (fun l => is_full_line l = true) xs -> wf_lines ys = true -> wf_lines (xs ++ ys) = true.
Proof.
  induction xs as [|x xs IH]; intros ys F W; [exact W|]. inversion F; subst. cbn [app].
  apply wf_lines_cons_full; [assumption | now apply IH].
Qed.

Lemma wf_single_partial : forall m, m <> [] -> no_nl m = true -> wf_lines [m] = true.
Proof.
  intros m Hne Hn. cbn [wf_lines]. apply orb_true_iff. right. destruct m; [contradiction | exact Hn].
Qed.

(** a full or partial line without its last character / stripped has no new-line *)
Lemma line_body_no_nl : forall l, (is_full_line l = true \/ is_partial_line l = true) ->
  exists body, (l = body ++ [NL] \/ l = body) /\ no_nl body = true.
Proof.
  intros l [H|H].
  - apply is_full_line_spec in H as [body [E Hb]]. exists body. split; [left; exact E | exact Hb].
  - exists l. split; [right; reflexivity|]. destruct l; [discriminate | exact H].
Qed.

Lemma forallb_lstrip : forall (P : char -> bool) l, forallb P l = true -> forallb P (lstrip l) = true.
Proof.
  intros P. induction l as [|c l IH]; intros H; [reflexivity|]. cbn [lstrip]. destruct (is_space c); [|exact H].
  cbn in H. apply andb_true_iff in H. now apply IH.
Qed.

Lemma forallb_rev : forall (P : char -> bool) l, forallb P (rev l) = forallb P l.
Proof.
  intros P. induction l as [|c l IH]; [reflexivity|]. cbn [rev]. rewrite forallb_app, IH. cbn. rewrite andb_true_r. apply andb_comm.
Qed.

Lemma forallb_rstrip : forall (P : char -> bool) l, forallb P l = true -> forallb P (rstrip l) = true.
Proof. intros P l H. unfold rstrip. rewrite forallb_rev. apply forallb_lstrip. now rewrite forallb_rev. Qed.

Lemma rstrip_line_no_nl : forall l, (is_full_line l = true \/ is_partial_line l = true) -> no_nl (rstrip l) = true.
Proof.
  intros l H. destruct (line_body_no_nl l H) as [body [[E|E] Hb]]; subst l.
  - unfold rstrip. rewrite rev_app_distr. cbn [rev app lstrip]. change (is_space NL) with true. cbn iota.
    unfold no_nl. rewrite forallb_rev. apply forallb_lstrip. now rewrite forallb_rev.
  - now apply forallb_rstrip.
Qed.

Lemma text_ok_forallb : forall (f : text -> text),
  (forall (P : char -> bool) l, forallb P l = true -> forallb P (f l) = true) ->
  forall l, text_ok l = true -> text_ok (f l) = true.
Proof.
  intros f Hf l H. unfold text_ok, no_exotic_breaks, valid_text in *. apply andb_true_iff in H as [H1 H2].
  now rewrite !Hf.
Qed.

(** ** strip -trailing-new-lines *)
Lemma stn_loop_wf : forall ls cur n, wf_lines (cur :: ls) = true -> wf_lines (stn_loop cur n ls) = true.
Proof.
  induction ls as [|l ls IH]; intros cur n H; cbn [stn_loop].
  - cbn [wf_lines] in H. apply orb_true_iff in H.
    destruct (line_body_no_nl cur H) as [body [[E|E] Hb]]; subst cur.
    + rewrite last_last. change (N.eqb NL NL) with true. cbn iota. rewrite removelast_last.
      destruct body as [|c body]; [reflexivity|]. apply wf_single_partial; [discriminate | exact Hb].
    + destruct H as [H|H].
      * rewrite (full_is_nl_ended body H : N.eqb (last body 0) NL = true).
        apply is_full_line_spec in H as [b2 [E2 Hb2]]. subst body. rewrite removelast_last.
        destruct b2; [reflexivity|]. apply wf_single_partial; [discriminate | exact Hb2].
      * rewrite (partial_not_nl_ended body H : N.eqb (last body 0) NL = false).
        destruct body; [discriminate|]. apply wf_single_partial; [discriminate | exact Hb].
  - change (wf_lines (cur :: l :: ls)) with (is_full_line cur && wf_lines (l :: ls)) in H.
    apply andb_true_iff in H as [Hc Hl]. destruct (text_eqb l [NL]).
    + apply IH. destruct ls as [|l2 ls].
      * cbn [wf_lines]. now rewrite Hc.
      * change (wf_lines (cur :: l2 :: ls)) with (is_full_line cur && wf_lines (l2 :: ls)). rewrite Hc.
        eapply wf_lines_tail. exact Hl.
    + apply wf_lines_cons_full; [exact Hc|]. apply wf_lines_full_app; [|now apply IH].
      clear. induction n; cbn; constructor; [reflexivity | assumption].
Qed.

Lemma stn_loop_ok : forall ls cur n, text_ok cur = true -> forallb text_ok ls = true -> forallb text_ok (stn_loop cur n ls) = true.
Proof.
  induction ls as [|l ls IH]; intros cur n Hc Hl; cbn [stn_loop].
  - set (m := if N.eqb (last cur 0) NL then removelast cur else cur).
    assert (Hm : text_ok m = true).
    { unfold m. destruct (N.eqb (last cur 0) NL); [|exact Hc]. apply (text_ok_forallb (@removelast char)); [apply forallb_removelast | exact Hc]. }
    destruct m; [reflexivity|]. cbn [forallb]. now rewrite Hm.
  - cbn in Hl. apply andb_true_iff in Hl as [H1 H2]. destruct (text_eqb l [NL]); [now apply IH|].
    cbn [forallb]. rewrite Hc. cbn [andb]. rewrite forallb_app. apply andb_true_iff. split; [|now apply IH].
    clear. induction n; cbn; [reflexivity | assumption].
Qed.

Lemma lf_ok_strip_trailing_new_lines : lf_ok lf_strip_trailing_new_lines.
Proof.
  intros ls [Hw Ht]. unfold lf_strip_trailing_new_lines. destruct ls as [|l ls]; [split; reflexivity|].
  cbn in Ht. apply andb_true_iff in Ht as [H1 H2]. split; [now apply stn_loop_wf | now apply stn_loop_ok].
Qed.

(** ** strip -trailing-space *)
Lemma wf_cons_inv : forall c rest, wf_lines (c :: rest) = true -> is_full_line c = true \/ is_partial_line c = true.
Proof.
  intros c [|r rest] H.
  - cbn [wf_lines] in H. now apply orb_true_iff in H.
  - change (wf_lines (c :: r :: rest)) with (is_full_line c && wf_lines (r :: rest)) in H. apply andb_true_iff in H. tauto.
Qed.

Lemma sts_loop_wf : forall ls cur skipped, wf_lines (cur :: skipped ++ ls) = true -> wf_lines (sts_loop cur skipped ls) = true.
Proof.
  induction ls as [|l ls IH]; intros cur skipped H; cbn [sts_loop].
  - pose proof (rstrip_line_no_nl cur (wf_cons_inv _ _ H)) as Hn.
    destruct (rstrip cur) as [|c m] eqn:E; [reflexivity|]. apply wf_single_partial; [discriminate | exact Hn].
  - destruct (str_isspace l).
    + apply IH. now rewrite <- app_assoc.
    + change (cur :: skipped ++ l :: ls) with ((cur :: skipped) ++ (l :: ls)) in H.
      apply wf_lines_app_inv in H as [F W]; [|discriminate].
      change (cur :: skipped ++ sts_loop l [] ls) with ((cur :: skipped) ++ sts_loop l [] ls).
      apply wf_lines_full_app; [exact F|]. apply IH. exact W.
Qed.

Lemma sts_loop_ok : forall ls cur skipped, text_ok cur = true -> forallb text_ok skipped = true -> forallb text_ok ls = true ->
  forallb text_ok (sts_loop cur skipped ls) = true.
Proof.
  induction ls as [|l ls IH]; intros cur skipped Hc Hs Hl; cbn [sts_loop].
  - pose proof (text_ok_forallb rstrip forallb_rstrip cur Hc) as Hm.
    destruct (rstrip cur); [reflexivity|]. cbn [forallb]. now rewrite Hm.
  - cbn in Hl. apply andb_true_iff in Hl as [H1 H2]. destruct (str_isspace l).
    + apply IH; auto. rewrite forallb_app, Hs. cbn. now rewrite H1.
    + cbn [forallb]. rewrite Hc. cbn [andb]. rewrite forallb_app, Hs. cbn [andb]. now apply IH.
Qed.

Lemma lf_ok_strip_trailing_space : lf_ok lf_strip_trailing_space.
Proof.
  intros ls [Hw Ht]. unfold lf_strip_trailing_space. destruct ls as [|l ls]; [split; reflexivity|].
  cbn in Ht. apply andb_true_iff in Ht as [H1 H2]. split; [now apply sts_loop_wf | now apply sts_loop_ok].
Qed.

(** ** strip *)
Lemma lstrip_split : forall l, exists pre, l = pre ++ lstrip l.
Proof.
  induction l as [|c l [pre E]]; [exists []; reflexivity|]. cbn [lstrip]. destruct (is_space c).
  - exists (c :: pre). cbn. now rewrite <- E.
  - exists []. reflexivity.
Qed.

Lemma lstrip_nil : forall l, lstrip l = [] -> forallb is_space l = true.
Proof.
  induction l as [|c l IH]; intros H; [reflexivity|]. cbn [lstrip] in H. destruct (is_space c) eqn:E; [|discriminate].
  cbn. rewrite E. now apply IH.
Qed.

Lemma lstrip_head : forall l c r, lstrip l = c :: r -> is_space c = false.
Proof.
  induction l as [|d l IH]; intros c r H; [discriminate|]. cbn [lstrip] in H. destruct (is_space d) eqn:E.
  - eapply IH. exact H.
  - injection H as <- _. exact E.
Qed.

Lemma full_suffix : forall pre s, s <> [] -> is_full_line (pre ++ s) = true -> is_full_line s = true.
Proof.
  induction pre as [|c pre IH]; intros s Hs H; [exact H|]. cbn [app] in H.
  destruct (pre ++ s) as [|d r] eqn:E; [destruct pre; destruct s; try discriminate; contradiction|].
  change (is_full_line (c :: d :: r)) with (negb (N.eqb c NL) && is_full_line (d :: r)) in H.
  apply andb_true_iff in H as [_ H]. rewrite <- E in H. now apply IH.
Qed.

Lemma partial_suffix : forall pre s, s <> [] -> is_partial_line (pre ++ s) = true -> is_partial_line s = true.
Proof.
  intros pre s Hs H. destruct s as [|c s]; [contradiction|].
  assert (F : forallb (fun c => negb (N.eqb c NL)) (pre ++ c :: s) = true) by (destruct (pre ++ c :: s); [discriminate | exact H]).
  rewrite forallb_app in F. apply andb_true_iff in F. exact (proj2 F).
Qed.

Definition nonspace (l : text) : Prop := str_isspace l = false /\ l <> [].

Lemma rstrip_nonspace : forall l, nonspace l -> rstrip l <> [].
Proof.
  intros l [Hs Hne] E. unfold rstrip in E. apply (f_equal (@rev char)) in E. rewrite rev_involutive in E. cbn in E.
  apply lstrip_nil in E. rewrite forallb_rev in E. destruct l; [contradiction|]. cbn [str_isspace] in Hs. congruence.
Qed.

Lemma strip_loop_wf : forall ls cur skipped, nonspace cur -> wf_lines (cur :: skipped ++ ls) = true ->
  wf_lines (strip_loop cur skipped ls) = true.
Proof.
  induction ls as [|l ls IH]; intros cur skipped Hc H; cbn [strip_loop].
  - pose proof (rstrip_line_no_nl cur (wf_cons_inv _ _ H)) as Hn.
    apply wf_single_partial; [now apply rstrip_nonspace | exact Hn].
  - destruct (str_isspace l) eqn:El.
    + apply IH; [exact Hc|]. now rewrite <- app_assoc.
    + change (cur :: skipped ++ l :: ls) with ((cur :: skipped) ++ (l :: ls)) in H.
      apply wf_lines_app_inv in H as [F W]; [|discriminate].
      change (cur :: skipped ++ strip_loop l [] ls) with ((cur :: skipped) ++ strip_loop l [] ls).
      apply wf_lines_full_app; [exact F|]. apply IH; [|exact W]. split; [exact El|].
      intros ->. destruct (wf_cons_inv _ _ W); discriminate.
Qed.

Lemma strip_loop_ok : forall ls cur skipped, text_ok cur = true -> forallb text_ok skipped = true -> forallb text_ok ls = true ->
  forallb text_ok (strip_loop cur skipped ls) = true.
Proof.
  induction ls as [|l ls IH]; intros cur skipped Hc Hs Hl; cbn [strip_loop].
  - cbn [forallb]. now rewrite (text_ok_forallb rstrip forallb_rstrip cur Hc).
  - cbn in Hl. apply andb_true_iff in Hl as [H1 H2]. destruct (str_isspace l).
    + apply IH; auto. rewrite forallb_app, Hs. cbn. now rewrite H1.
    + cbn [forallb]. rewrite Hc. cbn [andb]. rewrite forallb_app, Hs. cbn [andb]. now apply IH.
Qed.

Lemma drop_space_lines_good : forall ls, wf_lines ls = true -> forallb text_ok ls = true ->
  wf_lines (drop_space_lines ls) = true /\ forallb text_ok (drop_space_lines ls) = true /\
  (forall l rest, drop_space_lines ls = l :: rest -> str_isspace l = false).
Proof.
  induction ls as [|l ls IH]; intros Hw Ht; [repeat split; auto; discriminate|]. cbn [drop_space_lines].
  destruct (str_isspace l) eqn:E.
  - cbn in Ht. apply andb_true_iff in Ht as [_ Ht]. apply IH; [eapply wf_lines_tail; exact Hw | exact Ht].
  - repeat split; auto. intros l0 rest H. now injection H as <- _.
Qed.

Lemma lf_ok_strip : lf_ok lf_strip.
Proof.
  intros ls [Hw Ht]. unfold lf_strip. destruct (drop_space_lines_good ls Hw Ht) as [Hw' [Ht' Hns]].
  destruct (drop_space_lines ls) as [|l rest]; [split; reflexivity|].
  pose proof (Hns l rest eq_refl) as Hl. cbn in Ht'. apply andb_true_iff in Ht' as [T1 T2].
  destruct (lstrip_split l) as [pre E].
  assert (Hne : lstrip l <> []).
  { intros E0. apply lstrip_nil in E0. destruct l; [destruct (wf_cons_inv _ _ Hw'); discriminate|]. cbn [str_isspace] in Hl. congruence. }
  assert (Hns' : nonspace (lstrip l)).
  { split; [|exact Hne]. destruct (lstrip l) as [|c r] eqn:E1; [contradiction|]. cbn [str_isspace forallb].
    now rewrite (lstrip_head l c r E1). }
  split.
  - apply strip_loop_wf; [exact Hns'|]. cbn [app]. destruct rest as [|r2 rest].
    + cbn [wf_lines] in *. apply orb_true_iff in Hw' as [H|H]; apply orb_true_iff; rewrite E in H.
      * left. now apply (full_suffix pre).
      * right. now apply (partial_suffix pre).
    + change (wf_lines (l :: r2 :: rest)) with (is_full_line l && wf_lines (r2 :: rest)) in Hw'.
      apply andb_true_iff in Hw' as [H1 H2]. change (wf_lines (lstrip l :: r2 :: rest)) with (is_full_line (lstrip l) && wf_lines (r2 :: rest)).
      rewrite H2, andb_true_r. rewrite E in H1. now apply (full_suffix pre).
  - apply strip_loop_ok; [|reflexivity|exact T2]. apply (text_ok_forallb lstrip forallb_lstrip). exact T1.
Qed.

(** ** all three variants *)
Theorem lf_ok_strip_of : forall v, lf_ok (lf_strip_of v).
Proof. intros []; [apply lf_ok_strip | apply lf_ok_strip_trailing_space | apply lf_ok_strip_trailing_new_lines]. Qed.

Lemma wf_no_empty : forall ls, wf_lines ls = true -> ~ In [] ls.
Proof.
  induction ls as [|l ls IH]; intros H Hin; [exact Hin|]. destruct Hin as [->|Hin].
  - destruct (wf_cons_inv _ _ H); discriminate.
  - apply IH; [eapply wf_lines_tail; exact H | exact Hin].
Qed.

(** The lines handed out by a strip transformer are the lines of the stripped text: no empty element, joined = the
    text, for every admitted text. *)
Theorem strip_lines_are_lines : forall v t, text_ok t = true ->
  lf_strip_of v (lines_lf t) = lines_lf (concat (lf_strip_of v (lines_lf t))) /\
  ~ In [] (lf_strip_of v (lines_lf t)).
Proof.
  intros v t Ht. pose proof (lf_ok_strip_of v _ (good_lines_of_text t Ht)) as G. split.
  - symmetry. now apply good_lines_canonical.
  - apply wf_no_empty. exact (proj1 G).
Qed.
