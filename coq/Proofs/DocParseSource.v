(** Layer (a): the line-number bookkeeping of ParseSource is exact after every sequence of operations. *)
From Coq Require Import NArith List Bool Arith Lia.
From Exactly Require Import Model.Doc.
Import ListNotations.
Local Open Scope nat_scope.

Definition no_nl (t : text) : Prop := count_nl t = 0.
Definition line_start (pre : text) : Prop := pre = [] \/ exists p, pre = p ++ [NL].

Lemma count_nl_app : forall a b, count_nl (a ++ b) = count_nl a + count_nl b.
Proof. intros. unfold count_nl. rewrite filter_app, app_length. reflexivity. Qed.

Lemma count_nl_cons : forall c t, count_nl (c :: t) = (if N.eqb c NL then 1 else 0) + count_nl t.
Proof. intros. unfold count_nl. cbn. destruct (N.eqb c NL); reflexivity. Qed.

(** ** first line / rest *)
Lemma first_line_split : forall s,
    match after_first_nl s with
    | None => s = first_line s /\ no_nl s
    | Some r => s = first_line s ++ NL :: r
    end /\ no_nl (first_line s).
Proof.
  induction s as [|c s IH]; cbn.
  - split; [split|]; reflexivity.
  - unfold first_line in *. cbn. destruct (N.eqb c NL) eqn:E; cbn.
    + apply N.eqb_eq in E. subst. split; reflexivity.
    + destruct IH as [IH1 IH2]. unfold no_nl in *. rewrite !count_nl_cons, E. cbn.
      split; [|assumption].
      destruct (after_first_nl s) as [r|].
      * rewrite IH1 at 1. reflexivity.
      * destruct IH1 as [IH1 IH3]. split; [rewrite IH1 at 1; reflexivity|]. assumption.
Qed.

Lemma first_line_no_nl : forall s, no_nl (first_line s).
Proof. intros. apply first_line_split. Qed.

Lemma first_line_prefix : forall s, exists r, s = first_line s ++ r /\ (r = [] \/ exists r', r = NL :: r').
Proof.
  intros s. destruct (first_line_split s) as [H _]. destruct (after_first_nl s) as [r|].
  - exists (NL :: r). split; [assumption|]. right. eexists. reflexivity.
  - exists []. destruct H as [H _]. rewrite app_nil_r. split; [assumption|left; reflexivity].
Qed.

Lemma first_line_length : forall s, length (first_line s) <= length s.
Proof.
  intros s. destruct (first_line_prefix s) as [r [Hr _]]. rewrite Hr at 2. rewrite app_length. lia.
Qed.

Lemma no_nl_firstn : forall k t, no_nl t -> no_nl (firstn k t).
Proof.
  intros k t H. unfold no_nl in *. rewrite <- (firstn_skipn k t), count_nl_app in H. lia.
Qed.

Lemma no_nl_app : forall a b, no_nl (a ++ b) <-> no_nl a /\ no_nl b.
Proof. intros. unfold no_nl. rewrite count_nl_app. lia. Qed.

(** a prefix without newline lies inside the first line *)
Lemma no_nl_prefix_in_first_line : forall j t, j <= length t -> no_nl (firstn j t) -> j <= length (first_line t).
Proof.
  intros j t Hj Hn. destruct (first_line_prefix t) as [r [Ht Hr]].
  destruct (le_lt_dec j (length (first_line t))) as [|Hlt]; [assumption|exfalso].
  destruct Hr as [->|[r' ->]].
  - rewrite app_nil_r in Ht. rewrite <- Ht in Hlt. lia.
  - rewrite Ht in Hn. rewrite firstn_app in Hn. apply no_nl_app in Hn as [_ Hn].
    destruct (j - length (first_line t)) as [|d] eqn:Ed; [lia|].
    cbn in Hn. unfold no_nl in Hn. rewrite count_nl_cons in Hn. cbn in Hn. lia.
Qed.

Lemma firstn_first_line : forall j t, j <= length (first_line t) -> firstn j t = firstn j (first_line t).
Proof.
  intros j t Hj. destruct (first_line_prefix t) as [r [Ht _]]. rewrite Ht at 1.
  rewrite firstn_app. replace (j - length (first_line t)) with 0 by lia. cbn. rewrite app_nil_r. reflexivity.
Qed.

Lemma count_while_le : forall p l, count_while p l <= length l.
Proof. induction l as [|c l IH]; cbn; [lia|]. destruct (p c); cbn; lia. Qed.

(** ** after_last_nl *)
Lemma after_last_nl_spec : forall t,
    after_last_nl t <= length t /\
    (count_nl t = 0 -> after_last_nl t = 0) /\
    (0 < count_nl t ->
       0 < after_last_nl t /\ (exists p, firstn (after_last_nl t) t = p ++ [NL]) /\
       count_nl (firstn (after_last_nl t) t) = count_nl t /\ no_nl (skipn (after_last_nl t) t)).
Proof.
  induction t as [|c t [IH1 [IH2 IH3]]].
  - cbn. repeat split; try lia.
  - cbn [after_last_nl]. rewrite count_nl_cons. cbn [length].
    destruct (0 <? after_last_nl t) eqn:Ek.
    + apply Nat.ltb_lt in Ek.
      assert (Hc : 0 < count_nl t). { destruct (count_nl t) eqn:E; [rewrite IH2 in Ek by reflexivity; lia|lia]. }
      destruct (IH3 Hc) as [_ [[p Hp] [Hcnt Hno]]].
      split; [lia|]. split; [lia|]. intros _. split; [lia|]. cbn [firstn skipn].
      split; [exists (c :: p); rewrite Hp; reflexivity|].
      split; [rewrite count_nl_cons, Hcnt; reflexivity|assumption].
    + apply Nat.ltb_ge in Ek. assert (Ek0 : after_last_nl t = 0) by lia.
      assert (Hc : count_nl t = 0). { destruct (count_nl t) eqn:E; [reflexivity|]. destruct IH3 as [? _]; lia. }
      destruct (N.eqb c NL) eqn:Ec.
      * apply N.eqb_eq in Ec. subst c. split; [lia|]. split; [lia|]. intros _. split; [lia|].
        cbn [firstn skipn]. split; [exists []; reflexivity|].
        split; [rewrite count_nl_cons; cbn; lia|]. unfold no_nl. assumption.
      * split; [lia|]. split; [reflexivity|]. lia.
Qed.

(** ** The invariant *)
Inductive Inv (s : text) (p : psrc) : Prop :=
| InvLine (pre : text) (n : N) :
    s = pre ++ ps_src p -> line_start pre -> ps_line p = Some n -> n = (1 + N.of_nat (count_nl pre))%N ->
    ps_cur p = first_line (ps_src p) -> ps_col p <= length (ps_cur p) -> Inv s p
| InvEnd :
    ps_line p = None -> ps_src p = [] -> ps_col p = 0 -> ps_cur p = [] -> Inv s p.

Lemma inv_init : forall s, Inv s (ps_init s).
Proof.
  intros s. apply InvLine with (pre := []) (n := 1%N); cbn; try reflexivity; try lia. left. reflexivity.
Qed.

Lemma line_start_snoc : forall a, line_start (a ++ [NL]).
Proof. intros. right. exists a. reflexivity. Qed.

Lemma inv_consume_current_line : forall s p p', Inv s p -> ps_consume_current_line p = Some p' -> Inv s p'.
Proof.
  intros s p p' HI H. unfold ps_consume_current_line in H.
  destruct HI as [pre n Hs Hst Hl Hn Hcur Hcol|Hl Hsrc Hcol Hcur]; rewrite Hl in H; [|discriminate].
  pose proof (first_line_split (ps_src p)) as [Hsplit _].
  destruct (after_first_nl (ps_src p)) as [r|].
  - injection H as <-.
    apply InvLine with (pre := pre ++ first_line (ps_src p) ++ [NL]) (n := (n + 1)%N);
      cbn [ps_src ps_col ps_line ps_cur]; try reflexivity; try lia.
    + rewrite Hs, Hsplit at 1. rewrite <- !app_assoc. reflexivity.
    + rewrite app_assoc. apply line_start_snoc.
    + rewrite !count_nl_app. pose proof (first_line_no_nl (ps_src p)) as Hz. unfold no_nl in Hz. rewrite Hz.
      change (count_nl [NL]) with 1. lia.
  - injection H as <-. apply InvEnd; reflexivity.
Qed.

Lemma inv_consume_part : forall s p p' k, Inv s p -> ps_consume_part_of_current_line k p = Some p' -> Inv s p'.
Proof.
  intros s p p' k HI H. unfold ps_consume_part_of_current_line in H.
  destruct HI as [pre n Hs Hst Hl Hn Hcur Hcol|Hl Hsrc Hcol Hcur]; rewrite Hl in H; [|discriminate].
  destruct (length (ps_cur p) <? ps_col p + k) eqn:E; [discriminate|]. apply Nat.ltb_ge in E.
  injection H as <-. apply InvLine with (pre := pre) (n := n); cbn [ps_src ps_col ps_line ps_cur]; try reflexivity; assumption.
Qed.

Lemma inv_consume_space : forall s p p', Inv s p -> ps_consume_initial_space p = Some p' -> Inv s p'.
Proof.
  intros s p p' HI H. unfold ps_consume_initial_space in H.
  destruct HI as [pre n Hs Hst Hl Hn Hcur Hcol|Hl Hsrc Hcol Hcur]; rewrite Hl in H; [|discriminate].
  injection H as <-. apply InvLine with (pre := pre) (n := n); cbn [ps_src ps_col ps_line ps_cur]; try reflexivity; try assumption.
  pose proof (count_while_le is_space (skipn (ps_col p) (ps_cur p))) as Hc. rewrite skipn_length in Hc. lia.
Qed.

Lemma inv_consume : forall s p p' k, Inv s p -> ps_consume k p = Some p' -> Inv s p'.
Proof.
  intros s p p' k HI H. unfold ps_consume in H.
  destruct (length (ps_src p) - ps_col p <? k) eqn:Ek; [discriminate|]. apply Nat.ltb_ge in Ek.
  set (remaining := skipn (ps_col p) (ps_src p)) in *.
  destruct (count_nl (firstn k remaining)) as [|nl'] eqn:Enl.
  - (* stays on the current line *)
    injection H as <-.
    destruct HI as [pre n Hs Hst Hl Hn Hcur Hcol|Hl Hsrc Hcol Hcur].
    + apply InvLine with (pre := pre) (n := n); cbn [ps_src ps_col ps_line ps_cur]; try assumption.
      rewrite Hcur in *.
      assert (Hcs : ps_col p <= length (ps_src p)).
      { pose proof (first_line_length (ps_src p)). lia. }
      apply no_nl_prefix_in_first_line; [lia|].
      rewrite <- (firstn_skipn (ps_col p) (firstn (ps_col p + k) (ps_src p))).
      apply no_nl_app. split.
      * rewrite firstn_firstn. replace (Nat.min (ps_col p) (ps_col p + k)) with (ps_col p) by lia.
        rewrite firstn_first_line by assumption. apply no_nl_firstn, first_line_no_nl.
      * rewrite skipn_firstn_comm. replace (ps_col p + k - ps_col p) with k by lia. exact Enl.
    + rewrite Hsrc in Ek. cbn in Ek. assert (k = 0) by lia. subst k.
      apply InvEnd; cbn [ps_src ps_col ps_line ps_cur]; try assumption. lia.
  - (* crosses at least one newline *)
    destruct HI as [pre n Hs Hst Hl Hn Hcur Hcol|Hl Hsrc Hcol Hcur].
    2:{ exfalso. subst remaining. rewrite Hsrc in Enl. rewrite skipn_nil, firstn_nil in Enl. discriminate. }
    rewrite Hl in H. injection H as <-.
    assert (Hcs : ps_col p <= length (ps_src p)).
    { rewrite Hcur in Hcol. pose proof (first_line_length (ps_src p)). lia. }
    assert (Hrl : k <= length remaining). { subst remaining. rewrite skipn_length. lia. }
    destruct (after_last_nl_spec (firstn k remaining)) as [Hle [_ H3]].
    destruct H3 as [Hpos [[pp Hpp] [Hcnt Hno]]]; [lia|].
    set (idx := after_last_nl (firstn k remaining)) in *.
    rewrite firstn_length in Hle.
    assert (Hidx : idx <= k) by lia.
    rewrite firstn_firstn in Hpp, Hcnt. replace (Nat.min idx k) with idx in Hpp, Hcnt by lia.
    apply InvLine with (pre := pre ++ firstn (ps_col p) (ps_src p) ++ firstn idx remaining)
                       (n := (n + N.of_nat (S nl'))%N); cbn [ps_src ps_col ps_line ps_cur]; try reflexivity.
    + rewrite Hs at 1. rewrite <- (firstn_skipn (ps_col p) (ps_src p)) at 1. fold remaining.
      rewrite <- (firstn_skipn idx remaining) at 1. rewrite <- !app_assoc. reflexivity.
    + rewrite Hpp. rewrite !app_assoc. apply line_start_snoc.
    + rewrite !count_nl_app, Hcnt, Enl.
      assert (Hz : count_nl (firstn (ps_col p) (ps_src p)) = 0).
      { rewrite Hcur in Hcol. rewrite firstn_first_line by assumption. apply no_nl_firstn, first_line_no_nl. }
      rewrite Hz. lia.
    + apply no_nl_prefix_in_first_line.
      * rewrite skipn_length. lia.
      * rewrite firstn_skipn_comm. replace (idx + (k - idx)) with k by lia. exact Hno.
Qed.

Lemma inv_apply : forall s o p p', Inv s p -> ps_apply o p = Some p' -> Inv s p'.
Proof.
  intros s [|k|k|] p p' HI H; cbn in H.
  - eapply inv_consume_current_line; eassumption.
  - eapply inv_consume; eassumption.
  - eapply inv_consume_part; eassumption.
  - eapply inv_consume_space; eassumption.
Qed.

Lemma inv_run : forall s ops p p', Inv s p -> ps_run ops p = Some p' -> Inv s p'.
Proof.
  intros s. induction ops as [|o ops IH]; intros p p' HI H; cbn in H.
  - injection H as <-. assumption.
  - destruct (ps_apply o p) as [p1|] eqn:E; [|discriminate]. eapply IH; [eapply inv_apply; eassumption|assumption].
Qed.

(** After any sequence of successful operations on a source [s]: the original splits into a consumed
    prefix and the remaining source; the consumed prefix ends with the part [within] of the current line
    ([line_start]: what precedes it is empty or ends with a newline; [within] has no newline and its length is the
    column); the current line number is 1 + the number of newlines consumed; the current line text is the
    whole line of the original that contains the position. *)
Theorem parse_source_line_numbers :
  forall s ops p,
    ps_run ops (ps_init s) = Some p ->
    (forall n, ps_line p = Some n ->
       exists pre within,
         s = (pre ++ within) ++ ps_remaining_source p /\
         line_start pre /\ no_nl within /\ length within = ps_col p /\
         n = (1 + N.of_nat (count_nl (pre ++ within)))%N /\
         ps_cur p = first_line (within ++ ps_remaining_source p)) /\
    (ps_line p = None -> ps_remaining_source p = [] /\ ps_is_at_eof p = true).
Proof.
  intros s ops p H. pose proof (inv_run s ops _ _ (inv_init s) H) as HI.
  destruct HI as [pre n Hs Hst Hl Hn Hcur Hcol|Hl Hsrc Hcol Hcur].
  - split.
    + intros n' Hn'. rewrite Hl in Hn'. injection Hn' as <-.
      assert (Hcs : ps_col p <= length (ps_src p)).
      { rewrite Hcur in Hcol. pose proof (first_line_length (ps_src p)). lia. }
      exists pre, (firstn (ps_col p) (ps_src p)). unfold ps_remaining_source.
      assert (Hz : no_nl (firstn (ps_col p) (ps_src p))).
      { rewrite Hcur in Hcol. rewrite firstn_first_line by assumption. apply no_nl_firstn, first_line_no_nl. }
      repeat split.
      * rewrite <- app_assoc, firstn_skipn. assumption.
      * assumption.
      * assumption.
      * rewrite firstn_length. lia.
      * rewrite count_nl_app. unfold no_nl in Hz. rewrite Hz. lia.
      * rewrite firstn_skipn. assumption.
    + rewrite Hl. discriminate.
  - split.
    + rewrite Hl. discriminate.
    + intros _. unfold ps_remaining_source, ps_is_at_eof. rewrite Hsrc, Hl. split; [apply skipn_nil|reflexivity].
Qed.
