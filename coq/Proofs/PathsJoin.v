(** C12: pathlib join algebra; a path whose parts are all relative lies under its relativity root. *)
From Coq Require Import NArith List Bool.
From Exactly Require Import Model.Paths Spec.C12.
Import ListNotations.
Local Open Scope N_scope.

Lemma abs_iff : forall s, pp_is_absolute (parse_pp s) = str_abs s.
Proof.
  intros s. unfold pp_is_absolute, parse_pp, str_abs. cbn [pp_root].
  destruct s as [|c1 s1]; [reflexivity|]. cbn [root_of_text].
  destruct (N.eqb c1 SLASH) eqn:E1; [|reflexivity].
  destruct s1 as [|c2 s2]; [reflexivity|].
  destruct (N.eqb c2 SLASH) eqn:E2; [|reflexivity].
  destruct s2 as [|c3 s3]; [reflexivity|].
  destruct (N.eqb c3 SLASH); reflexivity.
Qed.

Lemma parts_are_components : forall s, pp_parts (parse_pp s) = components s.
Proof. reflexivity. Qed.

(** joining a relative PATH-STRING appends its components *)
Lemma join_rel : forall a s, str_abs s = false -> pp_join a (parse_pp s) = under a (components s).
Proof.
  intros a s H. unfold pp_join. rewrite abs_iff, H. reflexivity.
Qed.

(** joining an absolute PATH-STRING REPLACES the left operand (the known finding) *)
Lemma join_abs : forall a s, str_abs s = true -> pp_join a (parse_pp s) = parse_pp s.
Proof.
  intros a s H. unfold pp_join. rewrite abs_iff, H. reflexivity.
Qed.

Lemma ddv_value_eq : forall e d, ddv_value e d = ddv_value_dep e d.
Proof. intros e d. unfold ddv_value. destruct (ddv_exists_pre_sds d); reflexivity. Qed.

Lemma resolves_under_root : forall d e r,
  ddv_relativity d = Some r -> ddv_parts_rel d = true ->
  ddv_value e d = under (root_of e r) (suffix_parts d).
Proof.
  intros d e r. rewrite ddv_value_eq. induction d as [r0 p| p | b IH p]; cbn [ddv_relativity ddv_parts_rel ddv_value_dep suffix_parts].
  - intros Hr Hp. injection Hr as ->. apply negb_true_iff in Hp. apply join_rel; assumption.
  - discriminate.
  - intros Hr Hp. apply andb_true_iff in Hp as [Hb Hp]. apply negb_true_iff in Hp.
    rewrite (IH Hr Hb), (join_rel _ _ Hp). unfold under. cbn [pp_root pp_parts]. rewrite app_assoc. reflexivity.
Qed.

(** the current directory enters only through relativity -rel-cd, and then as the directory of the env the
    value is computed in (the time of USE; a symbol table holds no env) *)
Lemma rel_cd_at_use : forall d e,
  ddv_relativity d = Some RCwd -> ddv_parts_rel d = true ->
  ddv_value e d = under (e_cwd e) (suffix_parts d).
Proof. intros d e Hr Hp. rewrite (resolves_under_root d e RCwd Hr Hp). reflexivity. Qed.

Lemma root_of_same : forall e1 e2 r,
  e_hds_case e1 = e_hds_case e2 -> e_hds_act e1 = e_hds_act e2 -> e_sds e1 = e_sds e2 ->
  r <> RCwd -> root_of e1 r = root_of e2 r.
Proof.
  intros e1 e2 r H1 H2 H3 Hr. destruct r; cbn [root_of]; try congruence.
Qed.

Lemma only_cd_depends_on_cwd : forall d e1 e2,
  e_hds_case e1 = e_hds_case e2 -> e_hds_act e1 = e_hds_act e2 -> e_sds e1 = e_sds e2 ->
  ddv_relativity d <> Some RCwd -> ddv_value e1 d = ddv_value e2 d.
Proof.
  intros d e1 e2 H1 H2 H3. rewrite !ddv_value_eq.
  induction d as [r0 p| p | b IH p]; cbn [ddv_relativity ddv_value_dep]; intros Hr.
  - rewrite (root_of_same e1 e2 r0 H1 H2 H3); [reflexivity | congruence].
  - reflexivity.
  - rewrite (IH Hr). reflexivity.
Qed.

(** relativity and suffix are inherited through a definition by -rel SYMBOL / a leading reference *)
Lemma lstrip_components : forall s, components (lstrip_slash s) = components s.
Proof.
  induction s as [|c s IH]; [reflexivity|]. cbn [lstrip_slash].
  destruct (N.eqb c SLASH) eqn:E; [|reflexivity].
  rewrite IH. unfold components. cbn [split_on]. rewrite E. reflexivity.
Qed.

Lemma components_nil : components [] = [].
Proof. reflexivity. Qed.
