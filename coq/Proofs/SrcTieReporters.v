(** * Source tie, target Reporters (C16): the status sets of test_suite/reporters/simple_progress_reporter.py and
    junit.py as TRANSLATED FROM THE CURRENT SOURCE TEXT (Gen/Src_Reporters.v) against Model/Suite.v. *)
From Coq Require Import ZArith List Bool String.
From Exactly Require Import Lib.PyVal Model.Outcome Model.Suite Gen.Src_Reporters Proofs.SrcTieOutcomeEnc.
Import ListNotations.
Local Open Scope Z_scope.

Lemma tie_full_members :
  py_result_FullExeResultStatus_members
  = map enc_full [SYNTAX_ERROR; PASS; VALIDATION_ERROR; FAIL; SKIPPED; XFAIL; XPASS; HARD_ERROR; INTERNAL_ERROR].
Proof. reflexivity. Qed.

(** [result.execution_result.status not in SUCCESS_STATUSES] *)
Theorem tie_success_statuses s has_sds atc :
  py_in (enc_full s) py_simple_progress_reporter_SUCCESS_STATUSES = VBool (progress_success (Executed s has_sds atc)).
Proof. destruct s; reflexivity. Qed.

(** junit: [status in FAIL_STATUSES] -> failure, [elif status in ERROR_STATUSES] -> error *)
Theorem tie_junit_statuses s has_sds atc :
  py_in (enc_full s) py_junit_FAIL_STATUSES = VBool (is_failure (junit_classify (Executed s has_sds atc))) /\
  py_in (enc_full s) py_junit_ERROR_STATUSES = VBool (is_error (junit_classify (Executed s has_sds atc))).
Proof. destruct s; split; reflexivity. Qed.

(** test_suite/exit_values.py: the exit values of a suite run *)
Theorem tie_suite_exit_values :
  (py_attr_exit_code py_exit_values_ALL_PASS = VInt (fst (progress_final []))
   /\ py_attr_exit_identifier py_exit_values_ALL_PASS = VStr "OK") /\
  (forall r rs, progress_success r = false ->
     py_attr_exit_code py_exit_values_FAILED_TESTS = VInt (fst (progress_final (r :: rs)))) /\
  py_attr_exit_identifier py_exit_values_FAILED_TESTS = VStr "ERROR" /\
  (forall rep fs root outcome e, read_root fs root = inl e ->
     py_attr_exit_code py_exit_values_INVALID_SUITE = VInt (run_exit (run_suite rep fs root outcome))) /\
  py_attr_exit_identifier py_exit_values_INVALID_SUITE = VStr "INVALID_SUITE".
Proof.
  repeat split.
  - intros r rs H. unfold progress_final. cbn [forallb]. rewrite H. reflexivity.
  - intros rep fs root outcome e H. unfold run_suite. rewrite H. reflexivity.
Qed.
