(** Phase-order irrelevance: a document made of self-contained phase blocks gives, for every phase, the
    instructions of the blocks of that phase in their order — whatever the interleaving of blocks of
    different phases. *)
From Coq Require Import NArith List Bool Arith Lia.
From Exactly Require Import Model.Doc Spec.C07 Proofs.DocReader Proofs.DocTerm.
Import ListNotations.
Local Open Scope N_scope.

Lemma header_not_eof : forall h r, is_header_line h = true -> at_eof (h :: r) = false.
Proof. intros [|c h] r H; [discriminate|]. cbn. destruct r; reflexivity. Qed.

Lemma instr_contents_app : forall a b, instr_contents (a ++ b) = instr_contents a ++ instr_contents b.
Proof. intros. unfold instr_contents. rewrite filter_app, map_app. reflexivity. Qed.

Lemma sections_of_tagged : forall E t s,
    Forall (fun te => fst te = t) E -> sections_of E s = if sec_eqb t s then map snd E else [].
Proof.
  induction E as [|[t' e] E IH]; intros t s H.
  - destruct (sec_eqb t s); reflexivity.
  - apply Forall_cons_iff in H as [Ht HE]. cbn in Ht. subst t'.
    rewrite sections_of_cons, (IH t s HE). destruct (sec_eqb t s); reflexivity.
Qed.

(** what follows a block: the next block's header, or the empty line after the final newline *)
Definition good_tail (tail : list text) : Prop :=
  tail = [[]] \/ exists h r, tail = h :: r /\ is_header_line h = true.

Section Order.
  Variable iparse : sec -> text -> list text -> ires.
  Variable finc : sec -> lineseq -> text -> res tagged.
  Variable fi : fileinfo.

  (** Block [b], wherever it is placed and whatever block follows it, is read completely in its own phase,
      stops exactly at its end, contributes only to its own phase, and the instructions it contributes are [C]. *)
  Definition self_contained (b : block) (C : list content) : Prop :=
    forall n tail, good_tail tail ->
      exists E,
        (forall fuel, (length (b_body b ++ tail) < fuel)%nat ->
           flat_loop iparse finc fuel fi (b_sec b) n (b_body b ++ tail)
           = rbind (flat_loop iparse finc fuel fi (b_sec b) (n + N.of_nat (length (b_body b))) tail)
                   (fun o => Ok (E ++ o))) /\
        Forall (fun te => fst te = b_sec b) E /\
        instr_contents (map snd E) = C.

  Definition header_ok (b : block) : Prop :=
    is_header_line (b_header b) = true /\ header_of (b_header b) = HSec (b_sec b).

  Definition block_lines (bs : list block) : list text := concat (map (fun b => b_header b :: b_body b) bs).

  Lemma block_tail_good : forall bs, Forall header_ok bs -> good_tail (block_lines bs ++ [[]]).
  Proof.
    intros [|b bs] H.
    - left. reflexivity.
    - right. inversion H as [|? ? [Hh _] _]; subst. cbn. eexists _, _. split; [reflexivity|assumption].
  Qed.

  Lemma flat_blocks :
    forall (C : block -> list content) bs,
      Forall header_ok bs -> Forall (fun b => self_contained b (C b)) bs ->
      forall fuel cur n, (length (block_lines bs ++ [[]]) < fuel)%nat ->
        exists out, flat_loop iparse finc fuel fi cur n (block_lines bs ++ [[]]) = Ok out /\
                    forall s, instr_contents (sections_of out s)
                              = concat (map C (filter (fun b => sec_eqb (b_sec b) s) bs)).
  Proof.
    intros C. induction bs as [|b bs IH]; intros Hh Hsc fuel cur n Hlen.
    - destruct fuel as [|fuel]; [cbn in Hlen; lia|]. cbn. eexists. split; [reflexivity|]. intros s. reflexivity.
    - inversion Hh as [|? ? [Hb1 Hb2] Hh']; subst. inversion Hsc as [|? ? Hsb Hsc']; subst.
      destruct fuel as [|fuel]; [cbn in Hlen; lia|].
      change (block_lines (b :: bs) ++ [[]]) with (b_header b :: ((b_body b ++ block_lines bs) ++ [[]])) in *.
      rewrite <- app_assoc in *.
      cbn [flat_loop]. rewrite (header_not_eof _ _ Hb1), Hb1, Hb2.
      destruct (Hsb (n + 1) (block_lines bs ++ [[]]) (block_tail_good bs Hh')) as [E [HE [Htag HC]]].
      cbn [length] in Hlen.
      rewrite HE by lia.
      destruct (IH Hh' Hsc' fuel (b_sec b) (n + 1 + N.of_nat (length (b_body b)))) as [out [Hout Hsec]].
      { rewrite app_length in Hlen. lia. }
      rewrite Hout. cbn [rbind]. eexists. split; [reflexivity|].
      intros s. rewrite sections_of_app, instr_contents_app, Hsec, (sections_of_tagged E (b_sec b) s Htag).
      cbn [filter]. destruct (sec_eqb (b_sec b) s); cbn [map concat]; [rewrite HC|]; reflexivity.
  Qed.

  (** same blocks per phase, in the same order *)
  Definition same_order (bs bs' : list block) : Prop :=
    forall s, filter (fun b => sec_eqb (b_sec b) s) bs' = filter (fun b => sec_eqb (b_sec b) s) bs.

  Lemma same_order_in : forall bs bs' b, same_order bs bs' -> In b bs' -> In b bs.
  Proof.
    intros bs bs' b H Hin.
    assert (In b (filter (fun b0 => sec_eqb (b_sec b0) (b_sec b)) bs')) as Hf.
    { apply filter_In. split; [assumption|apply sec_eqb_refl]. }
    rewrite H in Hf. apply filter_In in Hf. tauto.
  Qed.

  Theorem flat_order_irrelevant :
    forall (C : block -> list content) bs bs',
      Forall header_ok bs -> Forall (fun b => self_contained b (C b)) bs -> same_order bs bs' ->
      forall fuel fuel' cur cur' n n',
        (length (block_lines bs ++ [[]]) < fuel)%nat -> (length (block_lines bs' ++ [[]]) < fuel')%nat ->
        exists out out',
          flat_loop iparse finc fuel fi cur n (block_lines bs ++ [[]]) = Ok out /\
          flat_loop iparse finc fuel' fi cur' n' (block_lines bs' ++ [[]]) = Ok out' /\
          forall s, instr_contents (sections_of out' s) = instr_contents (sections_of out s).
  Proof.
    intros C bs bs' Hh Hsc Hsame fuel fuel' cur cur' n n' Hlen Hlen'.
    assert (Hh' : Forall header_ok bs').
    { apply Forall_forall. intros b Hb. rewrite Forall_forall in Hh. apply Hh. eapply same_order_in; eassumption. }
    assert (Hsc' : Forall (fun b => self_contained b (C b)) bs').
    { apply Forall_forall. intros b Hb. rewrite Forall_forall in Hsc. apply Hsc. eapply same_order_in; eassumption. }
    destruct (flat_blocks C bs Hh Hsc fuel cur n Hlen) as [out [Ho Hs]].
    destruct (flat_blocks C bs' Hh' Hsc' fuel' cur' n' Hlen') as [out' [Ho' Hs']].
    exists out, out'. repeat split; try assumption.
    intros s. rewrite Hs, Hs', (Hsame s). reflexivity.
  Qed.
End Order.

(** The same for the reader of the model, on whole test-case files. *)
Theorem phase_order_irrelevant :
  forall iparse fs contents depth root path dir (C : block -> list content) bs bs',
    let fi := FileInfo path [] dir in
    let finc := flat_include iparse fs contents depth [root] fi in
    Forall header_ok bs -> Forall (fun b => self_contained iparse finc fi b (C b)) bs -> same_order bs bs' ->
    exists d d',
      parse_root iparse fs contents depth root path dir (doc_of_blocks bs) = Ok d /\
      parse_root iparse fs contents depth root path dir (doc_of_blocks bs') = Ok d' /\
      forall s, instr_contents (d' s) = instr_contents (d s).
Proof.
  intros iparse fs contents depth root path dir C bs bs' fi finc Hh Hsc Hsame.
  destruct (flat_order_irrelevant iparse finc fi C bs bs' Hh Hsc Hsame
              (S (length (doc_of_blocks bs))) (S (length (doc_of_blocks bs'))) SAct SAct 1 1) as [out [out' [Ho [Ho' Hs]]]].
  { unfold doc_of_blocks, block_lines. lia. }
  { unfold doc_of_blocks, block_lines. lia. }
  pose proof (elements_by_section iparse fs contents depth root path dir (doc_of_blocks bs)) as H1.
  pose proof (elements_by_section iparse fs contents depth root path dir (doc_of_blocks bs')) as H2.
  unfold flat_root in H1, H2. fold fi in H1, H2. fold finc in H1, H2.
  change (concat (map (fun b => b_header b :: b_body b) bs) ++ [[]]) with (doc_of_blocks bs) in *.
  unfold block_lines in Ho, Ho'.
  change (concat (map (fun b => b_header b :: b_body b) bs) ++ [[]]) with (doc_of_blocks bs) in Ho.
  change (concat (map (fun b => b_header b :: b_body b) bs') ++ [[]]) with (doc_of_blocks bs') in Ho'.
  rewrite Ho in H1. rewrite Ho' in H2.
  destruct (parse_root iparse fs contents depth root path dir (doc_of_blocks bs)) as [d|]; [|contradiction].
  destruct (parse_root iparse fs contents depth root path dir (doc_of_blocks bs')) as [d'|]; [|contradiction].
  exists d, d'. repeat split. intros s. rewrite H1, H2. apply Hs.
Qed.
