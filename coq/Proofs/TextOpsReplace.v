(** C05: [_lines_iterator_from_replacements] re-splits the substituted lines into exactly the
    lines of the concatenated substitutions. *)
From Coq Require Import ZArith NArith List Bool Lia.
From Exactly Require Import Lib.Text Lib.TextLemmas Lib.Lines Model.Interval Model.TextOps.
Import ListNotations.

Lemma split_nl_spec : forall t ps r, split_nl t = (ps, r) ->
  t = concat ps ++ r /\ Forall (fun l => is_full_line l = true) ps /\ no_nl r = true.
Proof.
  induction t as [|c t IH]; intros ps r H.
  - cbn in H. injection H as <- <-. repeat split; constructor.
  - cbn [split_nl] in H. destruct (split_nl t) as [ps' r'] eqn:E.
    destruct (IH ps' r' eq_refl) as [Ht [Hps Hr]].
    destruct (N.eqb c NL) eqn:Hc.
    + injection H as <- <-. split; [|split].
      * cbn [concat app]. f_equal. exact Ht.
      * constructor; [cbn; exact Hc | exact Hps].
      * exact Hr.
    + destruct ps' as [|p ps''].
      * injection H as <- <-. split; [|split].
        -- cbn [concat app] in *. f_equal. exact Ht.
        -- constructor.
        -- cbn. unfold not_nl. rewrite Hc. exact Hr.
      * injection H as <- <-. inversion Hps; subst. split; [|split].
        -- reflexivity.
        -- constructor; [now apply is_full_line_cons | assumption].
        -- exact Hr.
Qed.

Lemma replace_lines_spec : forall {A} (f : A -> text) (lines : list A) (segments : text),
  no_nl segments = true ->
  replace_lines f segments lines = lines_lf (segments ++ concat (map f lines)).
Proof.
  intros A f. induction lines as [|l lines IH]; intros segments Hseg.
  - cbn [replace_lines map concat]. rewrite app_nil_r. rewrite lines_lf_no_nl by exact Hseg. reflexivity.
  - cbn [replace_lines map concat]. destruct (split_nl (f l)) as [ps rest] eqn:E.
    destruct (split_nl_spec _ _ _ E) as [Hf [Hps Hrest]]. rewrite Hf.
    destruct ps as [|p ps].
    + cbn [concat app]. rewrite IH.
      * now rewrite <- app_assoc.
      * rewrite no_nl_app. now rewrite Hseg, Hrest.
    + inversion Hps; subst. cbn [concat].
      replace (segments ++ ((p ++ concat ps) ++ rest) ++ concat (map f lines))
        with ((segments ++ p) ++ (concat ps ++ (rest ++ concat (map f lines))))
        by (rewrite <- !app_assoc; reflexivity).
      rewrite lines_lf_app_full by (now apply full_line_prepend).
      rewrite lines_lf_app_fulls by assumption.
      rewrite IH by exact Hrest. reflexivity.
Qed.

Corollary replace_lines_text : forall {A} (f : A -> text) (lines : list A),
  concat (replace_lines f [] lines) = concat (map f lines).
Proof. intros. rewrite replace_lines_spec by reflexivity. cbn [app]. apply concat_lines_lf. Qed.

Corollary replace_lines_wf : forall {A} (f : A -> text) (lines : list A),
  wf_lines (replace_lines f [] lines) = true.
Proof. intros. rewrite replace_lines_spec by reflexivity. apply wf_lines_lines_lf. Qed.
