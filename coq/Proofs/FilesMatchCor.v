(** C15, corollaries of [matchers_sound]: verdicts do not depend on the order in which directories
    are listed; nested -selection is selection by the conjunction, nested -with-pruned is pruning
    by the disjunction. *)
From Coq Require Import NArith ZArith List Bool Arith Lia Permutation.
From Exactly Require Import Lib.Tree Model.Files Spec.C15 Proofs.FilesGen Proofs.FilesMatch.
Import ListNotations.

Section Cor.
  Variable O : oracles.

  (** whenever the manual's semantics gives a verdict, the code gives it, whatever the listing order *)
  Theorem fm_sound : forall scandir, (forall p l, Permutation (scandir p l) l) ->
    forall m e b, sem_fm O m e = Some b -> eval_fm scandir O m e = Ok b.
  Proof. intros scandir HP. exact (proj1 (matchers_sound scandir HP O)). Qed.

  Theorem order_insensitive : forall sc1 sc2,
    (forall p l, Permutation (sc1 p l) l) -> (forall p l, Permutation (sc2 p l) l) ->
    forall m e b, sem_fm O m e = Some b ->
    eval_fm sc1 O m e = Ok b /\ eval_fm sc2 O m e = Ok b.
  Proof. intros sc1 sc2 H1 H2 m e b H. split; apply fm_sound; assumption. Qed.

  (** ** The declarative semantics only looks at the values of the selection and prune functions *)
  Lemma walk_ext : forall (p1 p2 : elem -> option bool) mn mx, (forall e, p1 e = p2 e) ->
    forall t rel abs d, walk O p1 mn mx t rel abs d = walk O p2 mn mx t rel abs d.
  Proof.
    intros p1 p2 mn mx Hp. induction t as [c|es IH| |t IH] using tree_ind'; intros rel abs d; try reflexivity.
    - rewrite !walk_Dir. induction es as [|p es IHes]; [reflexivity|]. inversion IH as [|? ? Hh Ht]; subst.
      cbn [walk_list]. cbv zeta. rewrite (IHes Ht), Hp, Hh. reflexivity.
    - cbn [walk]. apply IH.
  Qed.

  Lemma strict_filter_ext : forall (s1 s2 : elem -> option bool), (forall e, s1 e = s2 e) ->
    forall l, strict_filter s1 l = strict_filter s2 l.
  Proof. intros s1 s2 H. induction l as [|e l IH]; cbn; [reflexivity | rewrite H, IH; reflexivity]. Qed.

  Lemma spec_files_ext : forall d a c s1 s2 p1 p2, (forall e, s1 e = s2 e) -> (forall e, p1 e = p2 e) ->
    spec_files O (SModel d a c s1 p1) = spec_files O (SModel d a c s2 p2).
  Proof.
    intros d a c s1 s2 p1 p2 Hs Hp. unfold spec_files. cbn [sm_cfg sm_dir sm_abs sm_prune sm_sel].
    destruct c as [|mn mx].
    - apply strict_filter_ext. exact Hs.
    - rewrite (walk_ext p1 p2 mn mx Hp). destruct (walk O p2 mn mx d [] a 0); [apply strict_filter_ext; exact Hs | reflexivity].
  Qed.

  Lemma sem_fsm_ext : forall m d a c s1 s2 p1 p2, (forall e, s1 e = s2 e) -> (forall e, p1 e = p2 e) ->
    sem_fsm O m (SModel d a c s1 p1) = sem_fsm O m (SModel d a c s2 p2).
  Proof.
    induction m as [b| |op n|f|f|full fc|f m IH|f m IH|m IH|m1 IH1 m2 IH2|m1 IH1 m2 IH2]; intros d a c s1 s2 p1 p2 Hs Hp;
      cbn [sem_fsm sm_dir sm_abs sm_cfg sm_sel sm_prune]; try rewrite (spec_files_ext d a c s1 s2 p1 p2 Hs Hp); try reflexivity.
    - apply IH; [|exact Hp]. intros e. rewrite Hs. reflexivity.
    - apply IH; [exact Hs|]. intros e. rewrite Hp. reflexivity.
    - rewrite (IH d a c s1 s2 p1 p2 Hs Hp). reflexivity.
    - rewrite (IH1 d a c s1 s2 p1 p2 Hs Hp), (IH2 d a c s1 s2 p1 p2 Hs Hp). reflexivity.
    - rewrite (IH1 d a c s1 s2 p1 p2 Hs Hp), (IH2 d a c s1 s2 p1 p2 Hs Hp). reflexivity.
  Qed.

  (** -selection f (-selection g M) selects by (f && g) *)
  Theorem selection_conj : forall f g m SM,
    sem_fsm O (SSelection f (SSelection g m)) SM = sem_fsm O (SSelection (FAnd f g) m) SM.
  Proof.
    intros f g m [d a c s p]. cbn [sem_fsm sm_dir sm_abs sm_cfg sm_sel sm_prune].
    apply sem_fsm_ext; [|reflexivity]. intros e. cbn [sem_fm]. destruct (s e) as [[|]|]; cbn; try reflexivity.
  Qed.

  (** -with-pruned f (-with-pruned g M) prunes by (f || g) *)
  Theorem prune_disj : forall f g m SM,
    sem_fsm O (SPrune f (SPrune g m)) SM = sem_fsm O (SPrune (FOr f g) m) SM.
  Proof.
    intros f g m [d a c s p]. cbn [sem_fsm sm_dir sm_abs sm_cfg sm_sel sm_prune].
    apply sem_fsm_ext; [reflexivity|]. intros e. cbn [sem_fm]. destruct (p e) as [[|]|]; cbn; try reflexivity.
  Qed.

  (** pruning is done before selection, "regardless of their mutual order" (manual) *)
  Theorem selection_prune_commute : forall f g m SM,
    sem_fsm O (SSelection f (SPrune g m)) SM = sem_fsm O (SPrune g (SSelection f m)) SM.
  Proof. intros f g m [d a c s p]. reflexivity. Qed.
End Cor.

(** The model of the code, directly: the files of a model restricted by [f] are the files of the
    model that [f] accepts (lazily: an exception of [f] ends the iteration). *)
Lemma filter_stream_conj : forall (a b : elem -> res bool) L er,
  filter_stream (conj2 a b) L er = let (l1, e1) := filter_stream a L er in filter_stream b l1 e1.
Proof.
  induction L as [|e L IH]; intros er; cbn [filter_stream]; [reflexivity|]. unfold conj2 at 1.
  destruct (a e) as [[|]|x]; cbn [filter_stream].
  - rewrite IH. destruct (filter_stream a L er) as [l1 e1]. cbn [filter_stream]. destruct (b e) as [[|]|y]; reflexivity.
  - apply IH.
  - reflexivity.
Qed.

Theorem files_sub_set : forall scandir (O : oracles) M f,
  files scandir O (sub_set M f) = let (items, er) := files scandir O M in filter_stream f items er.
Proof.
  intros scandir O [d a c s p] f. unfold files, sub_set. cbn [m_cfg m_prune m_dir m_abs m_sel].
  destruct (generate scandir O c p d a) as [items er]. destruct s as [g|]; [apply filter_stream_conj | reflexivity].
Qed.
