(** C14: the UTF-8 encoder and the strict decoder of Model/StrSrc.v are inverse on valid texts. *)
From Coq Require Import ZArith NArith List Bool Lia ZifyBool.
From Exactly Require Import Lib.Text Model.StrSrc.
Import ListNotations.
Local Open Scope N_scope.

(** Unicode scalar values: code points below 0x110000 that are not surrogates. *)
Definition valid_char (c : char) : bool := (c <? 55296) || ((57344 <=? c) && (c <? 1114112)).
Definition valid_text (t : text) : bool := forallb valid_char t.

Local Ltac rw b v :=
  let E := fresh "E" in
  assert (E : b = v) by (unfold is_cont, in_range; lia); rewrite E; clear E.

Lemma decode_char : forall (c : N) (rest : list N), valid_char c = true ->
  utf8_decode (utf8_char c ++ rest) = option_map (cons c) (utf8_decode rest).
Proof.
  intros c rest Hv. unfold valid_char in Hv. unfold utf8_char.
  assert (Q1 : c / 4096 = c / 64 / 64) by (rewrite N.div_div by lia; reflexivity).
  assert (Q2 : c / 262144 = c / 64 / 64 / 64) by (rewrite !N.div_div by lia; reflexivity).
  rewrite Q2, Q1.
  pose proof (N.div_mod' c 64) as D0. pose proof (N.mod_lt c 64 ltac:(lia)) as M0.
  pose proof (N.div_mod' (c / 64) 64) as D1. pose proof (N.mod_lt (c / 64) 64 ltac:(lia)) as M1.
  pose proof (N.div_mod' (c / 64 / 64) 64) as D2. pose proof (N.mod_lt (c / 64 / 64) 64 ltac:(lia)) as M2.
  set (r0 := c mod 64) in *. set (r1 := (c / 64) mod 64) in *. set (r2 := (c / 64 / 64) mod 64) in *.
  set (q3 := c / 64 / 64 / 64) in *. set (q2 := c / 64 / 64) in *. set (q1 := c / 64) in *.
  clearbody r0 r1 r2 q3 q2 q1. clear Q1 Q2.
  destruct (c <? 128) eqn:H1.
  { cbn [app utf8_decode]. rewrite H1. reflexivity. }
  destruct (c <? 2048) eqn:H2.
  { cbn [app utf8_decode].
    rw (192 + q1 <? 128) false.
    rw (in_range 194 223 (192 + q1)) true.
    rw (is_cont (128 + r0)) true.
    replace ((192 + q1 - 192) * 64 + (128 + r0 - 128)) with c by lia. reflexivity. }
  destruct (c <? 65536) eqn:H3.
  { cbn [app utf8_decode].
    rw (224 + q2 <? 128) false.
    rw (in_range 194 223 (224 + q2)) false.
    rw (in_range 224 239 (224 + q2)) true.
    assert (E : second3_ok (224 + q2) (128 + r1) = true).
    { unfold second3_ok, is_cont, in_range.
      destruct (224 + q2 =? 224) eqn:E1; [lia|]. destruct (224 + q2 =? 237) eqn:E2; lia. }
    rewrite E; clear E.
    rw (is_cont (128 + r0)) true. cbn [andb].
    replace ((224 + q2 - 224) * 4096 + (128 + r1 - 128) * 64 + (128 + r0 - 128)) with c by lia.
    reflexivity. }
  cbn [app utf8_decode].
  rw (240 + q3 <? 128) false.
  rw (in_range 194 223 (240 + q3)) false.
  rw (in_range 224 239 (240 + q3)) false.
  rw (in_range 240 244 (240 + q3)) true.
  assert (E : second4_ok (240 + q3) (128 + r2) = true).
  { unfold second4_ok, is_cont, in_range.
    destruct (240 + q3 =? 240) eqn:E1; [lia|]. destruct (240 + q3 =? 244) eqn:E2; lia. }
  rewrite E; clear E.
  rw (is_cont (128 + r1)) true.
  rw (is_cont (128 + r0)) true. cbn [andb].
  replace ((240 + q3 - 240) * 262144 + (128 + r2 - 128) * 4096 + (128 + r1 - 128) * 64 + (128 + r0 - 128)) with c by lia.
  reflexivity.
Qed.

Theorem utf8_roundtrip : forall t, valid_text t = true -> utf8_decode (utf8 t) = Some t.
Proof.
  induction t as [|c t IH]; intros H; [reflexivity|].
  cbn in H. apply andb_true_iff in H as [Hc Ht].
  cbn [utf8 flat_map]. rewrite decode_char by exact Hc.
  change (flat_map utf8_char t) with (utf8 t). rewrite (IH Ht). reflexivity.
Qed.

Lemma valid_text_app : forall a b, valid_text (a ++ b) = valid_text a && valid_text b.
Proof. intros. apply forallb_app. Qed.

Lemma valid_text_concat : forall ls, valid_text (concat ls) = forallb valid_text ls.
Proof. induction ls as [|l ls IH]; [reflexivity|]. cbn [concat forallb]. now rewrite valid_text_app, IH. Qed.
