(** Corollaries of the refinement theorem: the clauses of property C01 (and C03). *)
From Coq Require Import List Bool Arith Lia.
From Exactly Require Import Lib.Harness Model.Outcome Model.Exec Spec.C01 Proofs.ExecSpec.
Import ListNotations.
Local Arguments schedule : simpl never.

(** *** facts about plans *)
Lemma sched_list_events p k prev : forall is_ idx it,
  In it (sched_list p k prev idx is_) ->
  exists j i, fst it = EInstr p k j prev /\ idx <= j /\ nth_error is_ (j - idx) = Some i /\
              snd it = option_map (Failure p k j) (outcome (i k)).
Proof.
  induction is_ as [|i is' IH]; cbn; intros idx it H; [contradiction|].
  destruct H as [<-|H].
  - exists idx, i. cbn. rewrite Nat.sub_diag. repeat split; auto.
  - destruct (IH _ _ H) as (j & i' & E1 & Hle & Hn & E2). exists j, i'. repeat split; auto; [lia|].
    replace (j - idx) with (S (j - S idx)) by lia. exact Hn.
Qed.

Lemma sched_steps_events tc : forall ss it,
  In it (sched_steps tc ss) -> exists p k j, In (p, k) ss /\ fst it = EInstr p k j None.
Proof.
  induction ss as [|[p k] ss IH]; cbn; intros it H; [contradiction|].
  apply in_app_or in H as [H|H].
  - apply sched_list_events in H as (j & i & E & _). exists p, k, j. split; [left; reflexivity|exact E].
  - destruct (IH _ H) as (p' & k' & j & Hin & E). exists p', k', j. split; [right; exact Hin|exact E].
Qed.

Lemma tuf_incl l : forall it, In it (tuf l) -> In it l.
Proof.
  induction l as [|[e [f|]] l IH]; cbn; intros it H; auto.
  - destruct H as [H|[]]; auto.
  - destruct H as [H|H]; auto.
Qed.

(** every item of [tuf l] except the last one succeeded *)
Lemma tuf_all_but_last_ok l : forall pre it post, tuf l = pre ++ it :: post -> post <> [] -> snd it = None.
Proof.
  induction l as [|[e [f|]] l IH]; cbn; intros pre it post H Hne.
  - destruct pre; discriminate.
  - destruct pre as [|x pre]; cbn in H; injection H as _ H; [subst; contradiction|]. destruct pre; discriminate.
  - destruct pre as [|x pre]; cbn in H; injection H as H1 H2; [subst; reflexivity|]. eapply IH; eauto.
Qed.

(** the first failure is the failure of the last item of [tuf l] *)
Lemma tuf_last_is_ffail l f : ffail l = Some f -> exists pre e, tuf l = pre ++ [(e, Some f)] /\ Forall (fun it => snd it = None) pre.
Proof.
  induction l as [|[e [f'|]] l IH]; cbn; intros H; [discriminate| |].
  - injection H as ->. exists [], e. split; [reflexivity|constructor].
  - destruct (IH H) as (pre & e' & E & HF). exists ((e, None) :: pre), e'. rewrite E. split; [reflexivity|].
    constructor; [reflexivity|exact HF].
Qed.

Lemma ffail_none_all_ok l : ffail l = None -> Forall (fun it => snd it = None) l.
Proof.
  induction l as [|[e [f|]] l IH]; cbn; intros H; [constructor|discriminate|]. constructor; auto.
Qed.

(** *** shape of every execution trace *)
Definition cleanup_part (tc : testcase) (t : list event) : Prop :=
  t = [] \/ exists prev, t = map fst (tuf (sched_cleanup tc prev)).

Lemma spec_partial_shape tc :
  exists cl, fst (spec_partial tc) = map fst (tuf (schedule tc)) ++ cl /\ cleanup_part tc cl /\
             (cl = [] <-> exists f, ffail (schedule tc) = Some f /\ in_validation f = true).
Proof.
  unfold spec_partial. destruct (ffail (schedule tc)) as [f|] eqn:E.
  - destruct (in_validation f) eqn:Ev.
    + exists []. cbn. rewrite app_nil_r. split; [reflexivity|]. split; [left; reflexivity|].
      split; [intros _; exists f; auto | reflexivity].
    + eexists. cbn. split; [reflexivity|]. split; [right; eexists; reflexivity|].
      split; [intros H; discriminate H | intros (f' & Hf & Hv); congruence].
  - eexists. cbn. split; [reflexivity|]. split; [right; eexists; reflexivity|].
    split; [intros H; discriminate H | intros (f' & Hf & _); discriminate].
Qed.

(** ** C01 clause: fixed order, halt at the first failure.
    The trace is the plan up to and including its first failing item, followed by the cleanup
    part; every item before the failing one succeeded. *)
Theorem trace_is_plan_prefix_then_cleanup tc :
  exists cl, fst (partial_execute tc) = map fst (tuf (schedule tc)) ++ cl /\ cleanup_part tc cl.
Proof.
  rewrite partial_execute_refines_spec. destruct (spec_partial_shape tc) as (cl & E & Hc & _). eauto.
Qed.

(** ** C01 clause: validation of every phase precedes every main step, the sandbox and act/execute *)
Lemma validate_block_is_validation tc it :
  In it (sched_steps tc block_validate) -> is_validation_event (fst it) = true.
Proof.
  intros H. apply sched_steps_events in H as (p & k & j & Hin & ->).
  cbn in Hin. repeat (destruct Hin as [Hin|Hin]; [injection Hin as <- <-; reflexivity|]). contradiction.
Qed.
Lemma later_blocks_not_validation tc it :
  In it (sched_steps tc block_setup ++ sched_steps tc block_act ++
         (if tc_act_only tc then [] else sched_step tc (BeforeAssert, SMain) ++ sched_step tc (Assert, SMain))) ->
  is_validation_event (fst it) = false.
Proof.
  intros H. apply in_app_or in H as [H|H]; [|apply in_app_or in H as [H|H]].
  - apply sched_steps_events in H as (p & k & j & Hin & ->).
    cbn in Hin. repeat (destruct Hin as [Hin|Hin]; [injection Hin as <- <-; reflexivity|]). contradiction.
  - apply sched_steps_events in H as (p & k & j & Hin & ->).
    cbn in Hin. repeat (destruct Hin as [Hin|Hin]; [injection Hin as <- <-; reflexivity|]). contradiction.
  - destruct (tc_act_only tc); [contradiction|].
    apply in_app_or in H as [H|H]; apply sched_list_events in H as (j & i & -> & _); reflexivity.
Qed.

Lemma cleanup_not_validation tc prev it : In it (sched_cleanup tc prev) -> is_validation_event (fst it) = false.
Proof.
  cbn. intros [<-|H]; [reflexivity|]. apply sched_list_events in H as (j & i & -> & _). reflexivity.
Qed.

Lemma Forall_map_fst {A B} (P : A -> Prop) (l : list (A * B)) :
  Forall (fun it => P (fst it)) l -> Forall P (map fst l).
Proof. induction 1; cbn; constructor; auto. Qed.

Theorem validation_precedes_execution tc :
  exists t1 t2, fst (partial_execute tc) = t1 ++ t2 /\
                Forall (fun e => is_validation_event e = true) t1 /\
                Forall (fun e => is_validation_event e = false) t2.
Proof.
  destruct (trace_is_plan_prefix_then_cleanup tc) as (cl & E & Hc). rewrite E. unfold schedule.
  rewrite tuf_app.
  destruct (ffail (sched_steps tc block_validate)) as [f|] eqn:Ef.
  - exists (map fst (tuf (sched_steps tc block_validate))), cl. split; [reflexivity|]. split.
    + apply Forall_map_fst, Forall_forall. intros it Hin. eapply validate_block_is_validation, tuf_incl, Hin.
    + destruct Hc as [->|(prev & ->)]; [constructor|].
      apply Forall_map_fst, Forall_forall. intros it Hin. eapply cleanup_not_validation, tuf_incl, Hin.
  - exists (map fst (sched_steps tc block_validate)).
    eexists. rewrite map_app, <- app_assoc. split; [reflexivity|]. split.
    + apply Forall_map_fst, Forall_forall. intros it Hin. eapply validate_block_is_validation, Hin.
    + apply Forall_app. split.
      * apply Forall_map_fst, Forall_forall. intros it Hin. apply tuf_incl in Hin. cbn in Hin.
        destruct Hin as [<-|Hin]; [reflexivity|]. eapply later_blocks_not_validation, Hin.
      * destruct Hc as [->|(prev & ->)]; [constructor|].
        apply Forall_map_fst, Forall_forall. intros it Hin. eapply cleanup_not_validation, tuf_incl, Hin.
Qed.

(** ** C01 clause: once the sandbox exists, cleanup is run exactly once; without it, never *)
Definition is_cleanup_begin (e : event) : bool := match e with ECleanupBegin _ => true | _ => false end.
Definition count_ev (f : event -> bool) (t : list event) : nat := length (filter f t).

Lemma no_marker_in_sched_list f p k prev : forall is_ idx,
  (forall j, f (EInstr p k j prev) = false) -> filter f (map fst (tuf (sched_list p k prev idx is_))) = [].
Proof.
  induction is_ as [|i is' IH]; intros idx Hf; cbn; [reflexivity|].
  rewrite Hf. destruct (outcome (i k)); cbn; [reflexivity|]. apply IH, Hf.
Qed.

Lemma filter_map_tuf_none f l :
  (forall it, In it l -> f (fst it) = false) -> filter f (map fst (tuf l)) = [].
Proof.
  intros H. induction l as [|[e [x|]] l IH]; cbn; [reflexivity| |].
  - pose proof (H (e, Some x) (or_introl eq_refl)) as He. cbn in He. rewrite He. reflexivity.
  - pose proof (H (e, None) (or_introl eq_refl)) as He. cbn in He. rewrite He.
    apply IH. intros it Hin. apply H. right; exact Hin.
Qed.

Lemma schedule_items tc it :
  In it (schedule tc) ->
  fst it = ESandbox \/ exists p k j, fst it = EInstr p k j None.
Proof.
  unfold schedule. intros H. apply in_app_or in H as [H|H].
  - right. apply sched_steps_events in H as (p & k & j & _ & E). eauto.
  - destruct H as [<-|H]; [left; reflexivity|]. right.
    apply in_app_or in H as [H|H]; [apply sched_steps_events in H as (p & k & j & _ & E); eauto|].
    apply in_app_or in H as [H|H]; [apply sched_steps_events in H as (p & k & j & _ & E); eauto|].
    destruct (tc_act_only tc); [contradiction|].
    apply in_app_or in H as [H|H]; apply sched_list_events in H as (j & i & E & _); eauto.
Qed.

Lemma sandbox_in_plan_prefix_iff tc :
  In ESandbox (map fst (tuf (schedule tc))) <-> ~ (exists f, ffail (schedule tc) = Some f /\ in_validation f = true).
Proof.
  unfold schedule. rewrite tuf_app, ffail_app.
  destruct (ffail (sched_steps tc block_validate)) as [f|] eqn:E.
  - split.
    + intros Hin. apply in_map_iff in Hin as (it & Hf & Hin). apply tuf_incl in Hin.
      apply sched_steps_events in Hin as (p & k & j & _ & E'). congruence.
    + intros Hn. contradiction Hn. exists f. split; [reflexivity|].
      apply ffail_sched_steps in E. unfold in_validation.
      cbn in E. repeat (destruct E as [E|E]; [injection E as _ <-; reflexivity|]). contradiction.
  - split.
    + intros _ (f & Hf & Hv). cbn [ffail snd] in Hf.
      assert (Hnv : in_validation f = false).
      { rewrite !ffail_app in Hf. unfold in_validation.
        destruct (ffail (sched_steps tc block_setup)) as [f2|] eqn:E2.
        { injection Hf as <-. apply ffail_sched_steps in E2. cbn in E2.
          repeat (destruct E2 as [E2|E2]; [injection E2 as _ <-; reflexivity|]). contradiction. }
        destruct (ffail (sched_steps tc block_act)) as [f3|] eqn:E3.
        { injection Hf as <-. apply ffail_sched_steps in E3. cbn in E3.
          repeat (destruct E3 as [E3|E3]; [injection E3 as _ <-; reflexivity|]). contradiction. }
        destruct (tc_act_only tc); [discriminate|]. rewrite ffail_app in Hf.
        destruct (ffail (sched_step tc (BeforeAssert, SMain))) eqn:E4.
        { injection Hf as <-. apply ffail_sched_list in E4 as [_ ->]. reflexivity. }
        apply ffail_sched_list in Hf as [_ ->]. reflexivity. }
      congruence.
    + intros _. rewrite map_app. apply in_or_app. right. cbn. left. reflexivity.
Qed.

Theorem cleanup_exactly_once_iff_sandbox tc :
  let t := fst (partial_execute tc) in
  count_ev is_cleanup_begin t = (if existsb is_sandbox t then 1 else 0) /\
  (existsb is_sandbox t = pr_has_sds (snd (partial_execute tc))).
Proof.
  cbn zeta. rewrite partial_execute_refines_spec.
  assert (Hplan : filter is_cleanup_begin (map fst (tuf (schedule tc))) = []).
  { apply filter_map_tuf_none. intros it Hin. apply schedule_items in Hin as [->|(p & k & j & ->)]; reflexivity. }
  assert (Hcl : forall prev, filter is_cleanup_begin (map fst (tuf (sched_cleanup tc prev))) = [ECleanupBegin prev]
                             /\ existsb is_sandbox (map fst (tuf (sched_cleanup tc prev))) = false).
  { intros prev. cbn. split.
    - f_equal. apply no_marker_in_sched_list. reflexivity.
    - generalize 0. induction (tc_cleanup tc) as [|i is' IH]; intros n; cbn; [reflexivity|].
      destruct (outcome (i SMain)); cbn; [reflexivity|apply IH]. }
  pose proof (sandbox_in_plan_prefix_iff tc) as Hsb.
  unfold spec_partial, count_ev. destruct (ffail (schedule tc)) as [f|] eqn:E.
  - destruct (in_validation f) eqn:Ev; cbn [fst snd pr_has_sds].
    + rewrite Hplan.
      assert (Hno : existsb is_sandbox (map fst (tuf (schedule tc))) = false).
      { destruct (existsb is_sandbox (map fst (tuf (schedule tc)))) eqn:Ex; [|reflexivity].
        apply existsb_exists in Ex as (e & Hin & He). destruct e; try discriminate.
        apply Hsb in Hin. contradiction Hin. eauto. }
      rewrite Hno. split; reflexivity.
    + rewrite filter_app, Hplan, (proj1 (Hcl _)), existsb_app, (proj2 (Hcl _)), orb_false_r.
      assert (Hyes : existsb is_sandbox (map fst (tuf (schedule tc))) = true).
      { apply existsb_exists. exists ESandbox. split; [|reflexivity]. apply Hsb. intros (f' & Hf & Hv). congruence. }
      rewrite Hyes. split; reflexivity.
  - cbn [fst snd pr_has_sds].
    rewrite filter_app, Hplan, (proj1 (Hcl _)), existsb_app, (proj2 (Hcl _)), orb_false_r.
    assert (Hyes : existsb is_sandbox (map fst (tuf (schedule tc))) = true).
    { apply existsb_exists. exists ESandbox. split; [|reflexivity]. apply Hsb. intros (f' & Hf & _). discriminate. }
    rewrite Hyes. split; reflexivity.
Qed.

(** ** C01 clause: the outcome names the earliest failing step, or a failing cleanup step; and is
    never a success when any executed step failed. *)
Theorem outcome_names_earliest_failure tc :
  match pr_failure (snd (partial_execute tc)) with
  | None => ffail (schedule tc) = None /\ forall prev, In (ECleanupBegin prev) (fst (partial_execute tc)) -> ffail (sched_cleanup tc prev) = None
  | Some f => ffail (schedule tc) = Some f \/
              exists prev, In (ECleanupBegin prev) (fst (partial_execute tc)) /\ ffail (sched_cleanup tc prev) = Some f
  end.
Proof.
  rewrite partial_execute_refines_spec. unfold spec_partial.
  assert (Hplan : forall prev, ~ In (ECleanupBegin prev) (map fst (tuf (schedule tc)))).
  { intros prev Hin. apply in_map_iff in Hin as (it & E & Hin). apply tuf_incl, schedule_items in Hin.
    destruct Hin as [H|(p & k & j & H)]; congruence. }
  assert (Hcl : forall prev prev', In (ECleanupBegin prev) (map fst (tuf (sched_cleanup tc prev'))) -> prev = prev').
  { intros prev prev' Hin. cbn in Hin. destruct Hin as [H|Hin]; [congruence|].
    apply in_map_iff in Hin as (it & E & Hin). apply tuf_incl, sched_list_events in Hin as (j & i & E' & _). congruence. }
  destruct (ffail (schedule tc)) as [f|] eqn:E.
  - destruct (in_validation f); cbn [snd fst pr_failure]; [left; reflexivity|].
    destruct (is_main_of BeforeAssert f); [left; reflexivity|].
    destruct (ffail (sched_cleanup tc (prev_of (tc_act_only tc) (Some f)))) eqn:Ec; [|left; reflexivity].
    right. eexists. split; [|exact Ec]. apply in_or_app. right. cbn. left. reflexivity.
  - cbn [snd fst pr_failure].
    destruct (ffail (sched_cleanup tc (prev_of (tc_act_only tc) None))) eqn:Ec.
    + right. eexists. split; [|exact Ec]. apply in_or_app. right. cbn. left. reflexivity.
    + split; [reflexivity|]. intros prev Hin. apply in_app_or in Hin as [Hin|Hin]; [contradiction (Hplan _ Hin)|].
      apply Hcl in Hin. subst. exact Ec.
Qed.

(** the reported kind of failure is the one the failing instruction's behaviour produces *)
Theorem failure_status_is_that_steps_kind tc f :
  pr_failure (snd (partial_execute tc)) = Some f ->
  exists i, nth_error (instrs_of tc (f_phase f)) (f_idx f) = Some i /\ outcome (i (f_step f)) = Some (f_status f).
Proof.
  intros H. pose proof (outcome_names_earliest_failure tc) as Hn. rewrite H in Hn.
  assert (G : forall l, (forall it, In it l -> fst it = ESandbox \/ (exists prev, fst it = ECleanupBegin prev) \/
                           exists p k j prev i, fst it = EInstr p k j prev /\ nth_error (instrs_of tc p) j = Some i /\
                                                snd it = option_map (Failure p k j) (outcome (i k))) ->
                        (forall it, In it l -> (fst it = ESandbox \/ exists prev, fst it = ECleanupBegin prev) -> snd it = None) ->
                        ffail l = Some f ->
                        exists i, nth_error (instrs_of tc (f_phase f)) (f_idx f) = Some i /\ outcome (i (f_step f)) = Some (f_status f)).
  { induction l as [|[e [x|]] l IH]; cbn; intros Hall Hnone Hf; [discriminate| |].
    - injection Hf as ->. destruct (Hall (e, Some f) (or_introl eq_refl)) as [Hs|[Hs|(p & k & j & prev & i & E1 & E2 & E3)]].
      + specialize (Hnone _ (or_introl eq_refl) (or_introl Hs)). discriminate.
      + specialize (Hnone _ (or_introl eq_refl) (or_intror Hs)). discriminate.
      + cbn in E3. destruct (outcome (i k)) eqn:Eo; [|discriminate]. injection E3 as ->. cbn. eauto.
    - apply IH; auto. }
  assert (Hsl : forall p k prev is_ idx it, In it (sched_list p k prev idx is_) -> idx = 0 -> is_ = instrs_of tc p ->
                  exists p' k' j prev' i, fst it = EInstr p' k' j prev' /\ nth_error (instrs_of tc p') j = Some i /\
                                          snd it = option_map (Failure p' k' j) (outcome (i k'))).
  { intros p k prev is_ idx it Hin -> ->. apply sched_list_events in Hin as (j & i & E1 & _ & E2 & E3).
    rewrite Nat.sub_0_r in E2. exists p, k, j, prev, i. auto. }
  destruct Hn as [Hf|(prev & _ & Hf)].
  - apply (G (schedule tc)); auto.
    + intros it Hin. unfold schedule in Hin.
      assert (Hst : forall ss, In it (sched_steps tc ss) ->
                exists p' k' j prev' i, fst it = EInstr p' k' j prev' /\ nth_error (instrs_of tc p') j = Some i /\
                                        snd it = option_map (Failure p' k' j) (outcome (i k'))).
      { induction ss as [|[p k] ss IHs]; cbn; intros Hi; [contradiction|].
        apply in_app_or in Hi as [Hi|Hi]; [eapply Hsl; eauto | exact (IHs Hi)]. }
      apply in_app_or in Hin as [Hin|Hin]; [right; right; exact (Hst _ Hin)|].
      destruct Hin as [<-|Hin]; [left; reflexivity|]. right; right.
      apply in_app_or in Hin as [Hin|Hin]; [exact (Hst _ Hin)|]. apply in_app_or in Hin as [Hin|Hin]; [exact (Hst _ Hin)|].
      destruct (tc_act_only tc); [contradiction|].
      apply in_app_or in Hin as [Hin|Hin]; eapply Hsl; eauto.
    + intros it Hin Hs. unfold schedule in Hin.
      apply in_app_or in Hin as [Hin|Hin].
      { apply sched_steps_events in Hin as (p & k & j & _ & E). destruct Hs as [Hs|(pv & Hs)]; congruence. }
      destruct Hin as [<-|Hin]; [reflexivity|].
      assert (exists p k j, fst it = EInstr p k j None) as (p & k & j & E).
      { apply in_app_or in Hin as [Hin|Hin]; [apply sched_steps_events in Hin as (p & k & j & _ & E); eauto|].
        apply in_app_or in Hin as [Hin|Hin]; [apply sched_steps_events in Hin as (p & k & j & _ & E); eauto|].
        destruct (tc_act_only tc); [contradiction|].
        apply in_app_or in Hin as [Hin|Hin]; apply sched_list_events in Hin as (j & i & E & _); eauto. }
      destruct Hs as [Hs|(pv & Hs)]; congruence.
  - apply (G (sched_cleanup tc prev)); auto.
    + intros it Hin. cbn in Hin. destruct Hin as [<-|Hin]; [right; left; eexists; reflexivity|].
      right; right. eapply (Hsl Cleanup); eauto.
    + intros it Hin Hs. cbn in Hin. destruct Hin as [<-|Hin]; [reflexivity|].
      apply sched_list_events in Hin as (j & i & E & _). destruct Hs as [Hs|(pv & Hs)]; congruence.
Qed.

(** ** Full execution: never a pass verdict when an executed step failed *)
Theorem full_pass_implies_no_failure tc :
  In (fr_status (snd (full_execute tc))) [PASS; XPASS] ->
  ffail (sched_step tc (Conf, SMain)) = None /\ fr_failure (snd (full_execute tc)) = None /\
  pr_failure (snd (partial_execute tc)) = None.
Proof.
  rewrite full_execute_refines_spec. unfold spec_full.
  destruct (ffail (sched_step tc (Conf, SMain))) as [f|] eqn:E.
  - cbn. destruct (f_status f); cbn; intros [H|[H|[]]]; discriminate.
  - rewrite <- partial_execute_refines_spec.
    destruct (tc_status tc) eqn:Es; cbn.
    + destruct (partial_execute tc) as [t pr]. cbn. destruct (pr_failure pr) as [f|]; cbn; [|auto].
      destruct (f_status f); cbn; intros [H|[H|[]]]; discriminate.
    + intros [H|[H|[]]]; discriminate.
    + destruct (partial_execute tc) as [t pr]. cbn. destruct (pr_failure pr) as [f|]; cbn; [|auto].
      destruct (f_status f); cbn; intros [H|[H|[]]]; discriminate.
Qed.

(** SKIP short-circuits: only the conf phase runs *)
Theorem skip_runs_only_conf tc :
  tc_status tc = TSkip -> ffail (sched_step tc (Conf, SMain)) = None ->
  full_execute tc = (map fst (sched_step tc (Conf, SMain)), FResult SKIPPED None false false).
Proof.
  intros Hs Hc. rewrite full_execute_refines_spec. unfold spec_full. rewrite Hc, Hs. reflexivity.
Qed.
