(** * Source tie, target SuiteConf (C17): [_separate_configuration_elements] of
    test_suite/file_reading/suite_file_reading.py (with the element classes of section_document/model.py) as translated
    from the current source (Gen/Src_SuiteConf.v) against [separate] of Model/Cases.v.

    [isinstance(x, ConfigurationSectionInstruction)] is translated for a closed world: exact for objects of the classes
    of the target's world modules (the suite instruction [preprocessor.Instruction]; the case configuration instructions
    [actor.Instruction], [test_case_status._Instruction]), refused ([VErr]) for an object of any other class.
    The model's [conf_elem] has instruction elements only (comment and empty elements, which the code puts with the suite
    elements, are not in the model). *)
From Coq Require Import ZArith NArith List Bool String.
From Exactly Require Import Lib.PyVal Model.Cases Gen.Src_SuiteConf Proofs.PyValLemmas.
Import ListNotations.
Local Open Scope string_scope.

Section Separate.
  Context {I : Type}.
  (** fields of the instruction objects, which of the two case-instruction classes, description and source location *)
  Variables (suite_fields : preproc -> list pyval) (case_fields : I -> list pyval) (case_is_actor : I -> bool).
  Variables (descr loc : conf_elem I -> pyval).
  Hypothesis (Hd : forall e, py_ok (descr e) = true) (Hl : forall e, py_ok (loc e) = true).

  Definition enc_instruction (e : conf_elem I) : pyval :=
    match e with
    | CESuite p => VObj "preprocessor.Instruction" (suite_fields p)
    | CECase i => VObj (if case_is_actor i then "actor.Instruction" else "test_case_status._Instruction") (case_fields i)
    end.
  Definition enc_elem (e : conf_elem I) : pyval :=
    VObj "model.SectionContentElement"
      [VEnum "model.ElementType" "INSTRUCTION" (VInt 3); VObj "model.InstructionInfo" [enc_instruction e; descr e]; loc e].
  Definition enc_contents (l : list (conf_elem I)) : pyval := VObj "model.SectionContents" [VTuple (map enc_elem l)].

  Local Close Scope string_scope.

  Lemma separate_app_suite (l : list (conf_elem I)) p s c : separate l = (s, c) -> separate (l ++ [CESuite p]) = (s ++ [p], c).
  Proof.
    revert s c; induction l as [|[q|i] l IH]; intros s c; cbn [separate app].
    - now intros [= <- <-].
    - destruct (separate l) as [s0 c0]. intros [= <- <-]. now rewrite (IH s0 c0 eq_refl).
    - destruct (separate l) as [s0 c0]. intros [= <- <-]. now rewrite (IH s0 c0 eq_refl).
  Qed.
  Lemma separate_app_case (l : list (conf_elem I)) i s c : separate l = (s, c) -> separate (l ++ [CECase i]) = (s, c ++ [i]).
  Proof.
    revert s c; induction l as [|[q|j] l IH]; intros s c; cbn [separate app].
    - now intros [= <- <-].
    - destruct (separate l) as [s0 c0]. intros [= <- <-]. now rewrite (IH s0 c0 eq_refl).
    - destruct (separate l) as [s0 c0]. intros [= <- <-]. now rewrite (IH s0 c0 eq_refl).
  Qed.

  Theorem tie_separate_configuration_elements l :
    py_suite_file_reading__separate_configuration_elements (enc_contents l)
    = VTuple [enc_contents (map CESuite (fst (separate l))); enc_contents (map CECase (snd (separate l)))].
  Proof.
    unfold py_suite_file_reading__separate_configuration_elements, enc_contents. pycbn.
    unfold py_for. cbn [seq_items].
    match goal with |- context [fold_left ?f _ _] => set (F := f) end.
    assert (L : forall rest done,
      fold_left F (map enc_elem rest)
        (VTuple [VList (map enc_elem (map CESuite (fst (separate done))));
                 VList (map enc_elem (map CECase (snd (separate done))))])
      = VTuple [VList (map enc_elem (map CESuite (fst (separate (done ++ rest)))));
                VList (map enc_elem (map CECase (snd (separate (done ++ rest)))))]).
    { induction rest as [|e rest IH]; intro done.
      - now rewrite app_nil_r.
      - cbn [map fold_left]. unfold F at 2. cbn match.
        replace (done ++ e :: rest) with ((done ++ [e]) ++ rest) by now rewrite <- app_assoc.
        rewrite <- IH. f_equal.
        destruct (separate done) as [s c] eqn:E. cbn [fst snd].
        destruct e as [p|i].
        + rewrite (separate_app_suite _ p _ _ E). cbn [fst snd]. rewrite !map_app. cbn [map].
          unfold enc_elem at 1 2 3. cbn [enc_instruction]. pycbn. rewrite ?(Hd (CESuite p)), ?(Hl (CESuite p)). reflexivity.
        + rewrite (separate_app_case _ i _ _ E). cbn [fst snd]. rewrite !map_app. cbn [map].
          unfold enc_elem at 1 2 3. cbn [enc_instruction]. destruct (case_is_actor i); pycbn;
            rewrite ?(Hd (CECase i)), ?(Hl (CECase i)); reflexivity. }
    pose proof (L l []) as L0. cbn [separate fst snd map app] in L0. rewrite L0. pycbn. reflexivity.
  Qed.
End Separate.
