(** C14: lemmas about the spooled file and [frozen_from_write]. *)
From Coq Require Import NArith List Bool Lia ZifyBool.
From Exactly Require Import Lib.Text Lib.TextLemmas Model.StrSrc Proofs.Utf8.
Import ListNotations.
Local Open Scope N_scope.

Lemma utf8_app : forall a b, utf8 (a ++ b) = utf8 a ++ utf8 b.
Proof. intros. unfold utf8. apply flat_map_app. Qed.

Lemma tlen_app : forall a b, tlen (a ++ b) = tlen a + tlen b.
Proof. intros. unfold tlen. rewrite app_length. lia. Qed.

(** ** Appending at the end of the file *)
Lemma write_at_end : forall bytes new, write_at bytes (length bytes) new = bytes ++ new.
Proof.
  intros. unfold write_at. rewrite firstn_all. rewrite skipn_all2 by lia. now rewrite app_nil_r.
Qed.

(** The (repaired) rollover keeps contents and leaves the position at the end. *)
Lemma rollover_spec : forall d, rollover d = SpDisk (utf8 d) (length (utf8 d)).
Proof.
  intros d. unfold rollover. rewrite firstn_all, skipn_all. cbn [utf8 flat_map]. now rewrite app_nil_r.
Qed.

(** ** [spool_lines] *)
(** While everything fits in the buffer the spool stays in memory. *)
Lemma spool_lines_mem : forall b ls data,
  tlen (data ++ concat ls) <= b -> spool_lines b (SpMem data) ls = SpMem (data ++ concat ls).
Proof.
  induction ls as [|l ls IH]; intros data H; cbn [spool_lines concat].
  - now rewrite app_nil_r.
  - cbn [concat] in H. rewrite app_assoc in H.
    assert (Hl : (b <? tlen (data ++ l)) = false).
    { rewrite tlen_app in H. lia. }
    rewrite Hl. rewrite IH by exact H. now rewrite app_assoc.
Qed.

(** On disk with the position at the end, lines are appended. *)
Lemma spool_lines_disk : forall b ls d,
  spool_lines b (SpDisk (utf8 d) (length (utf8 d))) ls
  = SpDisk (utf8 (d ++ concat ls)) (length (utf8 (d ++ concat ls))).
Proof.
  induction ls as [|l ls IH]; intros d; cbn [spool_lines concat].
  - now rewrite app_nil_r.
  - unfold disk_write, write_text. rewrite write_at_end.
    rewrite <- app_length, <- utf8_app. rewrite IH. now rewrite app_assoc.
Qed.

(** A line sequence ends up, complete, in memory or on disk - whatever the buffer size. *)
Lemma spool_lines_complete : forall b ls d,
  spool_lines b (SpMem d) ls = SpMem (d ++ concat ls) \/
  spool_lines b (SpMem d) ls = SpDisk (utf8 (d ++ concat ls)) (length (utf8 (d ++ concat ls))).
Proof.
  induction ls as [|l ls IH]; intros d; cbn [spool_lines concat].
  - left. now rewrite app_nil_r.
  - destruct (b <? tlen (d ++ l)).
    + right. rewrite rollover_spec, spool_lines_disk. now rewrite app_assoc.
    + rewrite app_assoc. apply IH.
Qed.

(** ** What freezing gives *)
(** A frozen representation that holds exactly the text [t]. *)
Definition good_fz (t : text) (z : frozen) : Prop := z = FzMem t \/ z = FzDisk t \/ z = FzStrAndPath t t.

Lemma frozen_of_disk : forall b t,
  valid_text t = true -> read_text t = t ->
  exists z,
    (if b <? N.of_nat (length (utf8 t))
     then match utf8_decode (utf8 t) with Some r => Some (FzDisk r) | None => Some (FzBad (utf8 t)) end
     else match utf8_decode (utf8 t) with Some r => Some (FzStrAndPath (read_text r) r) | None => None end) = Some z
    /\ good_fz t z.
Proof.
  intros b t Hv Hr. rewrite (utf8_roundtrip t Hv).
  destruct (b <? N.of_nat (length (utf8 t))).
  - exists (FzDisk t). split; [reflexivity | right; left; reflexivity].
  - exists (FzStrAndPath t t). rewrite Hr. split; [reflexivity | right; right; reflexivity].
Qed.

(** Freezing what [writelines] writes. *)
Lemma frozen_from_lines : forall b ls,
  valid_text (concat ls) = true -> read_text (concat ls) = concat ls ->
  exists z, frozen_from_write b [WLines ls] = Some z /\ good_fz (concat ls) z.
Proof.
  intros b ls Hv Hr. unfold frozen_from_write, spool. cbn [fold_left spool_ev].
  destruct (spool_lines_complete b ls []) as [E|E]; rewrite E; cbn [app].
  - exists (FzMem (concat ls)). split; [reflexivity | left; reflexivity].
  - apply frozen_of_disk; assumption.
Qed.

(** Freezing what a child process writes. *)
Lemma frozen_from_fd : forall b out,
  valid_text out = true -> read_text out = out ->
  exists z, frozen_from_write b [WFd out] = Some z /\ good_fz out z.
Proof.
  intros b out Hv Hr. unfold frozen_from_write, spool. cbn [fold_left spool_ev].
  rewrite rollover_spec. cbn [utf8 flat_map length]. unfold disk_write, write_at.
  cbn [firstn skipn app Nat.add]. rewrite skipn_nil, app_nil_r.
  apply frozen_of_disk; assumption.
Qed.

(** When the text fits in the buffer it stays in memory. *)
Lemma frozen_from_lines_fits : forall b ls,
  tlen (concat ls) <= b -> frozen_from_write b [WLines ls] = Some (FzMem (concat ls)).
Proof.
  intros b ls H. unfold frozen_from_write, spool. cbn [fold_left spool_ev].
  rewrite spool_lines_mem by exact H. reflexivity.
Qed.

(** ** Arbitrary event sequences *)
Definition text_of (evs : list wev) : text := concat (map wev_text evs).

Lemma text_of_app : forall a b, text_of (a ++ b) = text_of a ++ text_of b.
Proof. intros. unfold text_of. now rewrite map_app, concat_app. Qed.

(** the spool holds exactly [d], position at the end *)
Definition sp_good (d : text) (st : spst) : Prop := st = SpMem d \/ st = SpDisk (utf8 d) (length (utf8 d)).

Lemma spool_ev_good : forall b e d st, sp_good d st -> sp_good (d ++ wev_text e) (spool_ev b st e).
Proof.
  intros b e d st [->| ->]; destruct e as [s|ls|r]; cbn [spool_ev wev_text]; unfold write_text.
  - destruct (negb (b =? 0) && (b <? tlen (d ++ s))); [right; apply rollover_spec | left; reflexivity].
  - destruct (spool_lines_complete b ls d) as [E|E]; rewrite E; [left | right]; reflexivity.
  - rewrite rollover_spec. right. unfold disk_write. rewrite write_at_end, <- app_length, <- utf8_app. reflexivity.
  - right. unfold disk_write. rewrite write_at_end, <- app_length, <- utf8_app. reflexivity.
  - right. rewrite spool_lines_disk. reflexivity.
  - right. unfold disk_write. rewrite write_at_end, <- app_length, <- utf8_app. reflexivity.
Qed.

Lemma spool_fold_good : forall b evs d st, sp_good d st -> sp_good (d ++ text_of evs) (fold_left (spool_ev b) evs st).
Proof.
  intros b. induction evs as [|e evs IH]; intros d st H; cbn [fold_left].
  - unfold text_of. cbn. now rewrite app_nil_r.
  - unfold text_of. cbn [map concat]. rewrite app_assoc. apply IH. now apply spool_ev_good.
Qed.

(** Freezing whatever sequence of writes: the frozen representation holds exactly the text written. *)
Lemma frozen_from_events : forall b evs,
  valid_text (text_of evs) = true -> read_text (text_of evs) = text_of evs ->
  exists z, frozen_from_write b evs = Some z /\ good_fz (text_of evs) z.
Proof.
  intros b evs Hv Hr. unfold frozen_from_write, spool.
  destruct (spool_fold_good b evs [] (SpMem []) (or_introl eq_refl)) as [E|E]; cbn [app] in E; rewrite E.
  - exists (FzMem (text_of evs)). split; [reflexivity | left; reflexivity].
  - apply frozen_of_disk; assumption.
Qed.

(** ** A regular file holds the events' text in order *)
Lemma file_of_events_text : forall evs, file_of_events evs = text_of evs.
Proof. reflexivity. Qed.

Lemma file_of_events_single : forall e, file_of_events [e] = wev_text e.
Proof. intros e. unfold file_of_events. cbn. apply app_nil_r. Qed.
