(** C15: populate-then-match.  The FILES-CONDITION that lists every file of a (link-free) tree with
    its type is satisfied by [matches -full] on the recursive contents of that tree. *)
From Coq Require Import NArith ZArith List Bool Arith Lia Permutation.
From Exactly Require Import Lib.Tree Model.Files Spec.C15 Proofs.FilesPopulate Proofs.FilesGen Proofs.FilesMatch Proofs.FilesWf.
Import ListNotations.

(** all names in the tree are plain components *)
Fixpoint plain_tree (t : tree) : Prop :=
  match t with
  | Dir es => (fix go (es : dirc) : Prop :=
                 match es with [] => True | p :: es' => plain_component (fst p) /\ plain_tree (snd p) /\ go es' end) es
  | Link (Some t') => plain_tree t'
  | _ => True
  end.

Fixpoint listing_list (es : dirc) (rel abs : path) : list elem :=
  match es with
  | [] => []
  | p :: es' => Elem (rel ++ [fst p]) (abs ++ [fst p]) (snd p)
                  :: listing (snd p) (rel ++ [fst p]) (abs ++ [fst p]) ++ listing_list es' rel abs
  end.

Lemma listing_Dir : forall es rel abs, listing (Dir es) rel abs = listing_list es rel abs.
Proof. intros es rel abs. cbn [listing]. induction es as [|p es IH]; [reflexivity|]. cbn [listing_list]. rewrite <- IH. reflexivity. Qed.

Definition nf : elem -> option bool := fun _ => Some false.

(** on a link-free tree, without limits and pruning, the declarative set is the listing *)
Lemma walk_listing : forall (O : oracles) t, link_free t = true -> forall rel abs d,
  walk O nf None None t rel abs d = Some (listing t rel abs).
Proof.
  intros O. induction t as [c|es IH| |t IH] using tree_ind'; intros LF rel abs d; try reflexivity; try discriminate.
  rewrite walk_Dir, listing_Dir. rewrite link_free_Dir in LF.
  induction es as [|[n c] es IHes]; [reflexivity|]. inversion IH as [|? ? Hc Hes]; subst.
  cbn [forallb snd] in LF. apply andb_true_iff in LF as [LFc LFes]. cbn [snd] in Hc.
  cbn [walk_list listing_list fst snd in_min at_max]. cbv zeta. unfold nf at 1.
  rewrite (IHes Hes LFes). unfold dir_test_spec.
  destruct c as [fc|sub|l]; cbn [resolve]; [reflexivity | rewrite (Hc LFc); reflexivity | discriminate].
Qed.

(* ---- names as text ---- *)
Lemma split_slash_noslash : forall n, ~ In SLASH n -> split_slash n = [n].
Proof.
  induction n as [|c n IH]; intros H; [reflexivity|]. cbn [split_slash].
  destruct (N.eqb c SLASH) eqn:E; [apply N.eqb_eq in E; subst c; exfalso; apply H; left; reflexivity|].
  rewrite IH; [reflexivity | intros Hin; apply H; right; exact Hin].
Qed.

Lemma split_slash_app : forall n rest, ~ In SLASH n -> split_slash (n ++ SLASH :: rest) = n :: split_slash rest.
Proof.
  induction n as [|c n IH]; intros rest H.
  - cbn [app split_slash]. rewrite N.eqb_refl. reflexivity.
  - cbn [app split_slash]. destruct (N.eqb c SLASH) eqn:E; [apply N.eqb_eq in E; subst c; exfalso; apply H; left; reflexivity|].
    rewrite IH; [reflexivity | intros Hin; apply H; right; exact Hin].
Qed.

Lemma posix_parts_join : forall p, Forall plain_component p -> posix_parts (join_path p) = p.
Proof.
  unfold posix_parts. induction p as [|n p IH]; intros F; [reflexivity|].
  inversion F as [|? ? [Hne [Hnd Hns]] Fp]; subst.
  assert (negb (name_eqb n [] || name_eqb n [DOT]) = true) as Hk.
  { apply negb_true_iff, orb_false_iff. split; apply name_eqb_neq; assumption. }
  destruct p as [|m p].
  - cbn [join_path]. rewrite (split_slash_noslash _ Hns). cbn [filter]. rewrite Hk. reflexivity.
  - change (join_path (n :: m :: p)) with (n ++ SLASH :: join_path (m :: p)).
    rewrite (split_slash_app _ _ Hns). cbn [filter]. rewrite Hk. rewrite (IH Fp). reflexivity.
Qed.

(** the relative paths of the listing consist of plain components *)
Lemma listing_plain : forall t, plain_tree t -> forall rel abs, Forall plain_component rel ->
  forall e, In e (listing t rel abs) -> Forall plain_component (e_rel e).
Proof.
  induction t as [c|es IH| |t IH] using tree_ind'; intros PT rel abs Frel e He; try (destruct He).
  rewrite listing_Dir in He. cbn [plain_tree] in PT.
  induction es as [|[n c] es IHes]; [destruct He|]. inversion IH as [|? ? Hc Hes]; subst. destruct PT as [Pn [Pc Pes]].
  cbn [listing_list fst snd] in He. cbn [snd] in Hc.
  assert (Forall plain_component (rel ++ [n])) as Fn by (apply Forall_app; split; [exact Frel | constructor; [exact Pn | constructor]]).
  destruct He as [<-|He]; [exact Fn|]. apply in_app_or in He as [He|He].
  - exact (Hc Pc _ _ Fn e He).
  - exact (IHes Hes Pes He).
Qed.

Lemma fc_names_cond_of : forall L, (forall e, In e L -> Forall plain_component (e_rel e)) ->
  fc_names (cond_of L) = map e_rel L.
Proof.
  induction L as [|e L IH]; intros H; [reflexivity|]. cbn [cond_of fc_names map].
  rewrite (posix_parts_join _ (H e (or_introl eq_refl))), IH; [reflexivity|]. intros e' He'. apply H. right. exact He'.
Qed.

Lemma dedup_id : forall l, NoDup l -> dedup l = l.
Proof.
  induction l as [|p l IH]; intros N; [reflexivity|]. inversion N as [|? ? Hp Nl]; subst. cbn [dedup].
  apply mem_path_false in Hp. rewrite Hp, (IH Nl). reflexivity.
Qed.

Lemma sem_type_of : forall O e, sem_fm O (FType (type_of (e_node e))) e = Some true.
Proof. intros O [r a [c|es|l]]; reflexivity. Qed.

(** the matcher the listing condition associates with the path of [e] holds for [e], provided no
    other listed file has that path *)
Lemma sem_fc_cond_of : forall O e L,
  (forall e', In e' L -> Forall plain_component (e_rel e')) ->
  (forall e', In e' L -> e_rel e' = e_rel e -> e' = e) ->
  sem_fc O (cond_of L) (e_rel e) e = Some true.
Proof.
  intros O e. induction L as [|e0 L IH]; intros HP HU; [reflexivity|].
  cbn [cond_of]. rewrite sem_fc_NameM. rewrite (posix_parts_join _ (HP e0 (or_introl eq_refl))).
  assert (sem_fc O (cond_of L) (e_rel e) e = Some true) as Hrest.
  { apply IH; intros e' He'; [apply HP | apply HU]; right; exact He'. }
  destruct (path_eqb (e_rel e0) (e_rel e)) eqn:E; [|exact Hrest].
  apply path_eqb_eq in E. rewrite (HU e0 (or_introl eq_refl) E). rewrite sem_type_of. cbn [and_then]. exact Hrest.
Qed.

Lemma NoDup_map_inj_in : forall (L : list elem) e e', NoDup (map e_rel L) -> In e L -> In e' L -> e_rel e' = e_rel e -> e' = e.
Proof.
  induction L as [|x L IH]; intros e e' N He He' E; [destruct He|]. cbn [map] in N. inversion N as [|? ? Hx NL]; subst.
  destruct He as [<-|He]; destruct He' as [<-|He'].
  - reflexivity.
  - exfalso. apply Hx. rewrite <- E. apply in_map. exact He'.
  - exfalso. apply Hx. rewrite E. apply in_map. exact He.
  - exact (IH e e' NL He He' E).
Qed.

(** The round trip, declaratively: [matches -full] of the complete typed listing holds on the
    recursive contents of a link-free tree with unique, plain names. *)
Theorem listing_matches_full : forall O t abs,
  link_free t = true -> wf_tree t -> plain_tree t ->
  sem_fsm O (SMatches true (cond_of (listing t [] abs)))
          (SModel t abs (Rec None None) (fun _ => Some true) nf) = Some true.
Proof.
  intros O t abs LF WF PT. set (L := listing t [] abs).
  assert (spec_files O (SModel t abs (Rec None None) (fun _ => Some true) nf) = Some L) as ES.
  { unfold spec_files. cbn [sm_cfg sm_dir sm_abs sm_prune sm_sel]. rewrite (walk_listing O t LF [] abs 0). fold L.
    clear. induction L as [|e L IH]; cbn [strict_filter]; [reflexivity | rewrite IH; reflexivity]. }
  pose proof (spec_files_distinct O (SModel t abs (Rec None None) (fun _ => Some true) nf) L WF ES) as DR.
  assert (forall e, In e L -> Forall plain_component (e_rel e)) as HP
      by (intros e He; exact (listing_plain t PT [] abs (Forall_nil _) e He)).
  assert (NoDup (map e_rel L)) as ND by (apply distinct_paths_NoDup; exact DR).
  cbn [sem_fsm]. rewrite ES, DR. cbn [negb]. rewrite (fc_names_cond_of L HP), (dedup_id _ ND).
  assert (forallb (fun k => has_rel k L) (map e_rel L) = true) as A.
  { apply forallb_forall. intros k Hk. apply has_rel_In. exact Hk. }
  assert (forallb (fun e => mem_path (e_rel e) (map e_rel L)) L = true) as B.
  { apply forallb_forall. intros e He. apply mem_path_In. apply in_map. exact He. }
  rewrite A, B. cbn [andb]. apply strict_forall_true. intros e He.
  apply sem_fc_cond_of; [exact HP|]. intros e' He' E. exact (NoDup_map_inj_in L e e' ND He He' E).
Qed.
