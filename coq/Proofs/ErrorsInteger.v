(** Proofs about [python_evaluate] over the integer-expression model (property C18, part b). *)
From Coq Require Import ZArith NArith List Bool Lia.
From Exactly Require Import Model.Outcome Model.Errors.
Import ListNotations.
Local Open Scope Z_scope.

Lemma int_binop_exc : forall op x y c, int_binop op x y = RExc c -> c = EZeroDivision.
Proof.
  intros op x y c H. destruct op; cbn in H; try discriminate;
    repeat match type of H with
           | (if ?b then _ else _) = _ => destruct b
           end; try discriminate; congruence.
Qed.

(** Integer arithmetic raises only ZeroDivisionError; an undefined name NameError; anything else
    comes from an oracle leaf. *)
Lemma py_eval_exc : forall e c, py_eval e = RExc c ->
  c = EZeroDivision \/ c = ENameError \/ In c (oracle_excs e).
Proof.
  induction e as [r|z| | |a IH|a IH|a IH|op a IHa b IHb]; intros c H; cbn in H.
  - subst r. right; right; cbn; left; reflexivity.
  - discriminate.
  - discriminate.
  - right; left; congruence.
  - destruct (py_eval a) eqn:Ea; try discriminate. cbn. apply IH; exact H.
  - cbn. apply IH; exact H.
  - destruct (py_eval a) eqn:Ea; try discriminate. cbn. apply IH; exact H.
  - cbn. destruct (py_eval a) as [x|ca|] eqn:Ea.
    + destruct (py_eval b) as [y|cb|] eqn:Eb.
      * left. eapply int_binop_exc; exact H.
      * destruct (IHb _ H) as [E | [E | E]]; [left; exact E | right; left; exact E | right; right; apply in_or_app; right; exact E].
      * discriminate.
    + destruct (IHa _ H) as [E | [E | E]]; [left; exact E | right; left; exact E | right; right; apply in_or_app; left; exact E].
    + discriminate.
Qed.

(** Every subclass of Exception raised by [eval] is turned into NotAnIntegerException. *)
Lemma chain_catches_every_exception : forall c, subclass c EException = true ->
  exists e', handle (chain_python_evaluate true) (Exc c PNone) = Raise e' /\ e_cls e' = ENotAnInteger.
Proof.
  intros c H. destruct c; try (vm_compute in H; discriminate); eexists; split; vm_compute; reflexivity.
Qed.

(** With the chain as it is now, an integer expression whose oracle leaves raise only subclasses
    of Exception is a value or "not an integer". *)
Lemma integer_never_escapes : forall e,
  (forall c, In c (oracle_excs e) -> subclass c EException = true) ->
  (exists z, python_evaluate true e = CValue z) \/ python_evaluate true e = CNotInt.
Proof.
  intros e Ho. unfold python_evaluate. destruct (py_eval e) as [z|c|] eqn:E.
  - left; exists z; reflexivity.
  - right.
    assert (Hc : subclass c EException = true).
    { destruct (py_eval_exc _ _ E) as [-> | [-> | Hin]]; [reflexivity | reflexivity | apply Ho; exact Hin]. }
    destruct (chain_catches_every_exception c Hc) as [e' [H1 H2]]. rewrite H1, H2. reflexivity.
  - right. vm_compute. reflexivity.
Qed.

Lemma integer_validation_never_internal : forall e,
  (forall c, In c (oracle_excs e) -> subclass c EException = true) ->
  integer_validation true e = SOk \/ integer_validation true e = SFail FValidation.
Proof.
  intros e Ho. unfold integer_validation.
  destruct (integer_never_escapes e Ho) as [[z H] | H]; rewrite H; [left | right]; reflexivity.
Qed.

(** What is not an Exception ([exit()] raises SystemExit) leaves python_evaluate and everything
    above it (finding KF-C18-3). *)
Lemma system_exit_escapes :
  python_evaluate true (IOracle (RExc ESystemExit)) = CEscapes ESystemExit /\
  integer_validation true (IOracle (RExc ESystemExit)) = SUncaught ESystemExit.
Proof. vm_compute. split; reflexivity. Qed.

(** The chain before commit 58541f0 lets ZeroDivisionError out: INTERNAL_ERROR. *)
Definition one_floordiv_zero : iexpr := IBin OFloorDiv (ILit 1) (ILit 0).

Lemma prefix_integer_internal :
  python_evaluate false one_floordiv_zero = CEscapes EZeroDivision /\
  integer_validation false one_floordiv_zero = SFail FInternal /\
  python_evaluate false (IBin OMod (ILit 1) (ILit 0)) = CEscapes EZeroDivision.
Proof. vm_compute. repeat split; reflexivity. Qed.

(** The model's // and % are Python's: floor division, remainder with the sign of the divisor. *)
Lemma floor_div_mod_python : forall x y, y <> 0 ->
  exists q r, int_binop OFloorDiv x y = RInt q /\ int_binop OMod x y = RInt r /\
              x = y * q + r /\ ((0 <= r < y) \/ (y < r <= 0)).
Proof.
  intros x y Hy. exists (x / y), (x mod y). cbn.
  destruct (y =? 0) eqn:E; [apply Z.eqb_eq in E; contradiction|].
  repeat split; try reflexivity.
  - apply Z.div_mod; exact Hy.
  - destruct (Z_lt_le_dec 0 y) as [Hp|Hn].
    + left. apply Z.mod_pos_bound; exact Hp.
    + right. apply Z.mod_neg_bound; lia.
Qed.

(** [**]: an int for a non-negative exponent; never an int for a negative one. *)
Lemma pow_negative_not_int : forall x y, y < 0 -> forall z, int_binop OPow x y <> RInt z.
Proof.
  intros x y Hy z. cbn. destruct (0 <=? y) eqn:E; [lia|]. destruct (x =? 0); discriminate.
Qed.
