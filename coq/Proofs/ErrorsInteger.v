(** Proofs about [python_evaluate] over the integer-expression model (property C18, part b). *)
From Coq Require Import ZArith NArith List Bool Lia.
From Exactly Require Import Model.Outcome Model.Errors.
Import ListNotations.
Local Open Scope Z_scope.

Lemma int_binop_exc : forall op x y c, int_binop op x y = RExc c -> c = EZeroDivision.
Proof.
  intros op x y c H. destruct op; cbn in H; try discriminate;
    repeat match type of H with
           | (if ?b then _ else _) = _ => destruct b
           end; try discriminate; congruence.
Qed.

(** Integer arithmetic raises only ZeroDivisionError; an undefined name NameError. *)
Lemma py_eval_exc : forall e c, py_eval e = RExc c -> c = EZeroDivision \/ c = ENameError.
Proof.
  induction e as [z| | |a IH|a IH|a IH|op a IHa b IHb]; intros c H; cbn in H.
  - discriminate.
  - discriminate.
  - right; congruence.
  - destruct (py_eval a) eqn:Ea; try discriminate. apply IH; exact H.
  - apply IH; exact H.
  - destruct (py_eval a) eqn:Ea; try discriminate. apply IH; exact H.
  - destruct (py_eval a) as [x|ca|] eqn:Ea.
    + destruct (py_eval b) as [y|cb|] eqn:Eb.
      * left. eapply int_binop_exc; exact H.
      * apply IHb; exact H.
      * discriminate.
    + apply IHa; exact H.
    + discriminate.
Qed.

(** With the chain as it is now, an integer expression is a value or "not an integer". *)
Lemma integer_never_escapes : forall e,
  (exists z, python_evaluate true e = CValue z) \/ python_evaluate true e = CNotInt.
Proof.
  intros e. unfold python_evaluate. destruct (py_eval e) as [z|c|] eqn:E.
  - left; exists z; reflexivity.
  - right. destruct (py_eval_exc _ _ E) as [-> | ->]; vm_compute; reflexivity.
  - right. vm_compute. reflexivity.
Qed.

Lemma integer_validation_never_internal : forall e,
  integer_validation true e = SOk \/ integer_validation true e = SFail FValidation.
Proof.
  intros e. unfold integer_validation.
  destruct (integer_never_escapes e) as [[z H] | H]; rewrite H; [left | right]; reflexivity.
Qed.

(** The chain before commit 58541f0 lets ZeroDivisionError out: INTERNAL_ERROR. *)
Definition one_floordiv_zero : iexpr := IBin OFloorDiv (ILit 1) (ILit 0).

Lemma prefix_integer_internal :
  python_evaluate false one_floordiv_zero = CEscapes EZeroDivision /\
  integer_validation false one_floordiv_zero = SFail FInternal /\
  python_evaluate false (IBin OMod (ILit 1) (ILit 0)) = CEscapes EZeroDivision.
Proof. vm_compute. repeat split; reflexivity. Qed.

(** The model's // and % are Python's: floor division, remainder with the sign of the divisor. *)
Lemma floor_div_mod_python : forall x y, y <> 0 ->
  exists q r, int_binop OFloorDiv x y = RInt q /\ int_binop OMod x y = RInt r /\
              x = y * q + r /\ ((0 <= r < y) \/ (y < r <= 0)).
Proof.
  intros x y Hy. exists (x / y), (x mod y). cbn.
  destruct (y =? 0) eqn:E; [apply Z.eqb_eq in E; contradiction|].
  repeat split; try reflexivity.
  - apply Z.div_mod; exact Hy.
  - destruct (Z_lt_le_dec 0 y) as [Hp|Hn].
    + left. apply Z.mod_pos_bound; exact Hp.
    + right. apply Z.mod_neg_bound; lia.
Qed.

(** [**]: an int for a non-negative exponent; never an int for a negative one. *)
Lemma pow_negative_not_int : forall x y, y < 0 -> forall z, int_binop OPow x y <> RInt z.
Proof.
  intros x y Hy z. cbn. destruct (0 <=? y) eqn:E; [lia|]. destruct (x =? 0); discriminate.
Qed.
