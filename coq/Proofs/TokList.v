(** C09: the list-element loop (model of generic_parser.ElementsUntilEndOfLineParser2 with the
    string element parser of parse_list): elements are exactly the written tokens, up to the end of
    the line, continued over lines that end in a lone backslash. *)
From Coq Require Import NArith List Bool Arith Lia.
From Exactly Require Import Lib.Harness Model.Tok Spec.C09 Proofs.TokLex Proofs.TokStream Proofs.TokTotal
     Proofs.TokSplit Proofs.TokHere Proofs.TokParse.
Import ListNotations.
Local Open Scope N_scope.

Arguments py_isspace : simpl never.
Arguments is_sep : simpl never.
Arguments is_sep_no_nl : simpl never.
Arguments is_shlex_ws : simpl never.
Arguments naked_char : simpl never.

(** * the current line *)
Definition first_line (s : text) : text :=
  match find_nl_from s 0 with None => s | Some k => firstn k s end.

Lemma find_nl_from_shift : forall s a b,
  find_nl_from s (a + b) = match find_nl_from s a with Some k => Some (k + b)%nat | None => None end.
Proof.
  induction s as [|c s IH]; intros a b; [reflexivity|].
  cbn [find_nl_from]. destruct (c =? NL); [reflexivity|]. rewrite <- IH. f_equal.
Qed.

Lemma remaining_is_first_line : forall pre s io head err eof,
  ts_remaining_part_of_current_line (TS (pre ++ s) io (length pre) head err eof) = first_line s.
Proof.
  intros. unfold ts_remaining_part_of_current_line, first_line, find_nl. cbn [ts_src ts_start].
  rewrite skipn_app_len. destruct s as [|c s].
  - rewrite app_nil_r, Nat.eqb_refl. reflexivity.
  - assert (E : Nat.eqb (length pre) (length (pre ++ c :: s)) = false).
    { apply Nat.eqb_neq. rewrite app_length. cbn [length]. lia. }
    rewrite E. replace (length pre) with (0 + length pre)%nat at 1 by lia. rewrite find_nl_from_shift.
    destruct (find_nl_from (c :: s) 0) as [k|]; [|reflexivity].
    unfold slice. rewrite skipn_app_len. f_equal. lia.
Qed.

Lemma first_line_app : forall a r, no_nl a = true -> first_line (a ++ r) = a ++ first_line r.
Proof.
  induction a as [|c a IH]; intros r H; [reflexivity|].
  unfold no_nl in H. cbn [existsb] in H. rewrite negb_orb in H. apply andb_true_iff in H as [Hc Ha].
  apply negb_true_iff in Hc. rewrite N.eqb_sym in Hc.
  unfold first_line in *. cbn [app find_nl_from]. rewrite Hc.
  change 1%nat with (0 + 1)%nat. rewrite find_nl_from_shift. specialize (IH r Ha).
  destruct (find_nl_from (a ++ r) 0) as [k|].
  - replace (k + 1)%nat with (S k) by lia. cbn [firstn]. f_equal. exact IH.
  - f_equal. exact IH.
Qed.

Lemma first_line_after : forall after, first_line (render_after after) = [].
Proof. intros [a|]; reflexivity. Qed.

Lemma first_line_nl : forall r, first_line (NL :: r) = [].
Proof. reflexivity. Qed.

(** * white space *)
Lemma rstrip_nil_all : forall p s, rstrip_by p s = [] -> forallb p s = true.
Proof.
  intros p s H. unfold rstrip_by in H. apply (f_equal (@rev _)) in H. rewrite rev_involutive in H. cbn in H.
  apply lstrip_nil_all in H. rewrite forallb_rev in H. exact H.
Qed.

Lemma rstrip_app_solid : forall p a b, solid p a -> rstrip_by p (a ++ b) = a ++ rstrip_by p b.
Proof.
  intros p a b [_ (a' & d & -> & Hd)]. unfold rstrip_by. rewrite !rev_app_distr. cbn [rev app].
  assert (L : forall x y, lstrip_by p (x ++ d :: y) = if forallb p x then d :: y else lstrip_by p x ++ d :: y).
  { induction x as [|c x IH]; intros y; cbn [app lstrip_by forallb].
    - rewrite Hd. reflexivity.
    - destruct (p c); cbn [andb]; [apply IH | reflexivity]. }
  rewrite L. destruct (forallb p (rev b)) eqn:E.
  - assert (lstrip_by p (rev b) = []) as ->.
    { clear -E. induction (rev b) as [|c x IH]; [reflexivity|]. cbn in E |- *. apply andb_true_iff in E as [Hc Hx]. rewrite Hc. auto. }
    cbn [rev]. rewrite rev_involutive, app_nil_r. reflexivity.
  - rewrite rev_app_distr. cbn [rev]. rewrite rev_involutive. reflexivity.
Qed.

Lemma strip_py_line : forall seps a y,
  forallb py_isspace seps = true -> solid py_isspace a -> strip_py (seps ++ a ++ y) = a ++ rstrip_py y.
Proof.
  intros seps a y Hs Ha. unfold strip_py, strip_by. rewrite lstrip_spaces by assumption.
  destruct (solid_first _ _ Ha) as (c & r & E & Hc). rewrite E at 1. cbn [app]. rewrite lstrip_nonspace by assumption.
  change (c :: r ++ y) with ((c :: r) ++ y). rewrite <- E. apply rstrip_app_solid. assumption.
Qed.

Lemma has_nonspace_not_isspace : forall a b c x, py_isspace x = false ->
  py_str_isspace (a ++ (x :: b) ++ c) = false.
Proof.
  intros a b c x Hx. unfold py_str_isspace. rewrite !forallb_app. cbn [forallb]. rewrite Hx.
  rewrite andb_false_r. cbn. apply andb_false_r.
Qed.

Lemma sep_no_nl_sep : forall c, is_sep_no_nl c = true -> is_sep c = true.
Proof. intros c. unfold is_sep_no_nl, is_sep. rewrite !orb_true_iff. tauto. Qed.

Lemma text_eqb_sym : forall a b, text_eqb a b = text_eqb b a.
Proof.
  induction a as [|x a IH]; intros [|y b]; cbn; try reflexivity. rewrite N.eqb_sym, IH. reflexivity.
Qed.

(** * items *)
Definition bsl_tok : stoken := [Naked [BSL]].
Definition tok_of (i : litem) : stoken := match i with LTok t _ => t | LCont _ _ => bsl_tok end.
Definition after_tok (i : litem) : text := match i with LTok _ sep => sep | LCont sp1 sp2 => sp1 ++ NL :: sp2 end.
Definition body (its : list litem) : text := concat (map render_litem its).

Lemma render_litem_split : forall i, render_litem i = render_tok (tok_of i) ++ after_tok i.
Proof. intros [t sep|sp1 sp2]; reflexivity. Qed.

Lemma body_cons : forall i its, body (i :: its) = render_tok (tok_of i) ++ after_tok i ++ body its.
Proof. intros. unfold body. cbn [map concat]. rewrite render_litem_split, <- app_assoc. reflexivity. Qed.

Section ListLoop.
  Variable alnum : N -> bool.

  (** the element the code makes of a token *)
  Definition element_of (t : stoken) : element :=
    match fragments_of alnum t with
    | [FSym n] => if tok_quoted t then EStr [FSym n] else ESym n
    | frs => EStr frs
    end.
  Definition elements (its : list litem) : list element :=
    flat_map (fun i => match i with LTok t _ => [element_of t] | LCont _ _ => [] end) its.

  (** well-formed items of a list without a stopping parenthesis, whose tokens do not contain
      new-lines: every element is a well-formed string token that is not a reserved word (and not
      an unquoted token with the characters ")"); separators between things on a line are
      non-empty; a lone backslash element is followed by something on its line *)
  Fixpoint wfl (its : list litem) : bool :=
    match its with
    | [] => true
    | LTok t sep :: its' =>
        wf_tok t && no_nl (render_tok t) && negb (is_reserved_word t) &&
        negb (negb (tok_quoted t) && text_eqb (chars_tok t) [41]) &&
        forallb is_sep_no_nl sep &&
        match its' with [] => negb (is_backslash_tok t) | _ => nonempty sep end && wfl its'
    | LCont sp1 sp2 :: its' => forallb is_sep_no_nl sp1 && forallb is_sep_no_nl sp2 && wfl its'
    end.

  Lemma bsl_tok_wf : wf_tok bsl_tok = true.
  Proof. reflexivity. Qed.

  Lemma tok_of_wf : forall i its, wfl (i :: its) = true -> wf_tok (tok_of i) = true /\ no_nl (render_tok (tok_of i)) = true.
  Proof.
    intros [t sep|sp1 sp2] its H; cbn [wfl tok_of] in *.
    - rewrite !andb_true_iff in H. tauto.
    - split; reflexivity.
  Qed.

  (** what follows the token of the first item is empty or begins with a separator *)
  Lemma after_rest_ok : forall i its tail, wfl (i :: its) = true ->
    (tail = [] \/ exists a, tail = NL :: a) ->
    rest_ok (after_tok i ++ body its ++ tail).
  Proof.
    intros [t sep|sp1 sp2] its tail H Htail; cbn [wfl after_tok] in *.
    - rewrite !andb_true_iff in H. destruct H as [[[[[[_ _] _] _] Hsep] Hnext] _].
      destruct sep as [|c sep].
      + destruct its as [|i' its']; [|discriminate]. cbn [body map concat app].
        destruct Htail as [-> | (a & ->)]; [left; reflexivity | right; exists NL, a; auto].
      + right. cbn in Hsep. apply andb_true_iff in Hsep as [Hc _]. exists c. eexists. split; [reflexivity|].
        apply sep_no_nl_sep. assumption.
    - rewrite !andb_true_iff in H. destruct H as [[H1 _] _]. right.
      destruct sp1 as [|c sp1]; cbn [app].
      + exists NL. eexists. split; reflexivity.
      + cbn in H1. apply andb_true_iff in H1 as [Hc _]. exists c. eexists. split; [reflexivity | apply sep_no_nl_sep; assumption].
  Qed.

  (** the state of the stream when the loop looks at the items [its]: the position is at the end
      of [pre]; [seps] and the items follow; the head is the token of the first item, read by a
      consume from there *)
  Definition head_inv (ts : tstream) (pre seps : text) (its : list litem) (tail : text) : Prop :=
    match its with
    | [] => True
    | i :: its' =>
        ts_err ts = false /\ ts_head ts = Some (spec_token (tok_of i)) /\
        ts_io ts = (length pre + length seps + length (render_tok (tok_of i)) + adv (after_tok i ++ body its' ++ tail))%nat /\
        ts_eof ts = hits_eof (after_tok i ++ body its' ++ tail)
    end.

  (** consuming at the end of [pre2] establishes the invariant for the following items *)
  Lemma establish_inv : forall its pre2 seps2 tail start0 head eof0,
    wfl its = true -> forallb is_sep_no_nl seps2 = true -> (tail = [] \/ exists a, tail = NL :: a) ->
    (its <> [] -> eof0 = false) ->
    exists ts', ts_consume (TS (pre2 ++ seps2 ++ body its ++ tail) (length pre2) start0 head false eof0) = Ok (head, ts') /\
                ts_src ts' = pre2 ++ seps2 ++ body its ++ tail /\ ts_start ts' = length pre2 /\
                head_inv ts' pre2 seps2 its tail.
  Proof.
    intros its pre2 seps2 tail start0 head eof0 Hwf Hseps Htail Heof.
    destruct its as [|i its'].
    - destruct (consume_total (TS (pre2 ++ seps2 ++ body [] ++ tail) (length pre2) start0 head false eof0) eq_refl)
        as (ts' & Hc & Hsrc & Hst). exists ts'. cbn [ts_src ts_io ts_head] in *. repeat split; auto.
    - rewrite (Heof ltac:(discriminate)).
      destruct (tok_of_wf _ _ Hwf) as [Htok _].
      destruct (sep_no_nl_facts _ Hseps) as (Hs1 & _ & _).
      pose proof (after_rest_ok i its' tail Hwf Htail) as Hr.
      rewrite body_cons. rewrite <- !app_assoc.
      rewrite (consume_token pre2 seps2 (tok_of i) (after_tok i ++ body its' ++ tail) start0 head Hs1 Htok Hr).
      eexists. split; [reflexivity|]. cbn [ts_src ts_start]. split; [reflexivity|]. split; [reflexivity|].
      cbn [head_inv ts_err ts_head ts_io ts_eof]. repeat split; reflexivity.
  Qed.

  Lemma find_nl_at : forall pre l rest, no_nl l = true ->
    find_nl (pre ++ l ++ NL :: rest) (length pre) = Some (length pre + length l)%nat.
  Proof. intros. unfold find_nl. rewrite skipn_app_len. apply find_nl_from_no_nl. assumption. Qed.

  Lemma rstrip_all_space : forall s, forallb py_isspace s = true -> rstrip_py s = [].
  Proof.
    intros s H. unfold rstrip_py, rstrip_by. rewrite <- (app_nil_r (rev s)).
    rewrite lstrip_spaces by (rewrite forallb_rev; assumption). reflexivity.
  Qed.

  Lemma tail_first_line : forall tail, (tail = [] \/ exists a, tail = NL :: a) -> first_line tail = [].
  Proof. intros tail [-> | (a & ->)]; reflexivity. Qed.

  Lemma model_not_reserved : forall t, is_reserved_word t = false ->
    is_plain (spec_token t) && existsb (text_eqb (t_source (spec_token t))) reserved_tokens = false.
  Proof.
    intros t H. destruct (existsb (text_eqb (t_source (spec_token t))) reserved_tokens) eqn:E; [|apply andb_false_r].
    cbn [spec_token t_source] in E. apply model_reserved_is_reserved in E. congruence.
  Qed.

  (** the first line of what follows the position, when an item comes first *)
  Lemma line_of_item : forall seps i its tail,
    forallb is_sep_no_nl seps = true -> wfl (i :: its) = true ->
    first_line (seps ++ body (i :: its) ++ tail) =
    seps ++ render_tok (tok_of i) ++ first_line (after_tok i ++ body its ++ tail).
  Proof.
    intros seps i its tail Hs Hwf. destruct (sep_no_nl_facts _ Hs) as (_ & Hs2 & _).
    destruct (tok_of_wf _ _ Hwf) as [_ Hnl].
    rewrite body_cons. rewrite <- !app_assoc. rewrite first_line_app by assumption. rewrite first_line_app by assumption.
    reflexivity.
  Qed.

  (** a line that begins (after separators) with a token is not blank *)
  Lemma line_not_blank : forall seps t y, wf_tok t = true -> py_str_isspace (seps ++ render_tok t ++ y) = false.
  Proof.
    intros seps t y Ht. destruct (solid_first _ _ (tok_solid t Ht)) as (c & r & E & Hc). rewrite E.
    apply has_nonspace_not_isspace. assumption.
  Qed.

  Lemma list_loop_spec : forall its fuel acc pre seps tail ts,
    wfl its = true -> forallb is_sep_no_nl seps = true -> (tail = [] \/ exists a, tail = NL :: a) ->
    ts_src ts = pre ++ seps ++ body its ++ tail -> ts_start ts = length pre -> head_inv ts pre seps its tail ->
    (length its < fuel)%nat ->
    exists ts' pre' seps',
      list_loop alnum fuel acc ts = Ok (acc ++ elements its, ts') /\
      ts_src ts' = pre' ++ seps' ++ tail /\ ts_start ts' = length pre' /\ forallb is_sep_no_nl seps' = true /\
      pre' ++ seps' = pre ++ seps ++ body its.
  Proof.
    induction its as [|i its IH]; intros fuel acc pre seps tail ts Hwf Hseps Htail Hsrc Hstart Hinv Hfuel;
      (destruct fuel as [|fuel]; [lia|]); cbn [list_loop].
    - (* no more items: at end of line *)
      destruct ts as [src io start head err eof]. cbn [ts_src ts_start] in Hsrc, Hstart. subst src start.
      cbn [body map concat app] in *.
      assert (Heol : tp_is_at_eol (TS (pre ++ seps ++ tail) io (length pre) head err eof) = true).
      { unfold tp_is_at_eol. rewrite remaining_is_first_line.
        destruct (sep_no_nl_facts _ Hseps) as (_ & Hs2 & Hs3).
        rewrite first_line_app by assumption. rewrite tail_first_line by assumption. rewrite app_nil_r.
        destruct seps; [reflexivity|]. unfold py_str_isspace. rewrite Hs3. reflexivity. }
      rewrite Heol. cbn [negb]. eexists. exists pre, seps. rewrite app_nil_r. cbn [elements flat_map].
      repeat split; auto. rewrite app_nil_r. reflexivity.
    - pose proof Hinv as (Herr & Hhead & Hio & Heof).
      destruct ts as [src io start head err eof]. cbn [ts_src ts_start ts_err ts_head ts_io ts_eof] in *. subst src start err head.
      destruct (sep_no_nl_facts _ Hseps) as (Hs1 & Hs2 & Hs3).
      destruct (tok_of_wf _ _ Hwf) as [Htok Htoknl].
      set (src := pre ++ seps ++ body (i :: its) ++ tail) in *.
      set (Y := first_line (after_tok i ++ body its ++ tail)).
      assert (Hline : forall io' head' err' eof',
                 ts_remaining_part_of_current_line (TS src io' (length pre) head' err' eof') = seps ++ render_tok (tok_of i) ++ Y).
      { intros. unfold src. rewrite remaining_is_first_line. apply line_of_item; assumption. }
      assert (Hneol : forall hd, tp_is_at_eol (TS src io (length pre) hd false eof) = false).
      { intros hd. unfold tp_is_at_eol. rewrite Hline. rewrite line_not_blank by assumption.
        destruct (solid_first _ _ (tok_solid _ Htok)) as (c & r & E & _). rewrite E.
        destruct seps; reflexivity. }
      rewrite Hneol. cbn [negb]. rewrite Hline.
      rewrite strip_py_line; [|assumption | apply tok_solid; assumption].
      destruct i as [t sep | sp1 sp2]; cbn [tok_of after_tok] in *.
      + (* an element *)
        cbn [wfl] in Hwf. rewrite !andb_true_iff in Hwf.
        destruct Hwf as [[[[[[Hwt Hnl] Hres] Hparen] Hsep] Hnext] Hwf'].
        apply negb_true_iff in Hres. apply negb_true_iff in Hparen.
        destruct (sep_no_nl_facts _ Hsep) as (Hp1 & Hp2 & Hp3).
        (* not a continuation line *)
        assert (Hcont : text_eqb (render_tok t ++ rstrip_py Y) [BSL] = false).
        { apply text_eqb_neq. intros C.
          destruct (solid_first _ _ (tok_solid t Hwt)) as (c & r & E & Hc). rewrite E in C. cbn [app] in C.
          injection C as -> C. apply app_eq_nil in C as [-> C].
          assert (Hb : is_backslash_tok t = true) by (unfold is_backslash_tok; rewrite E; reflexivity).
          destruct its as [|i' its']; [rewrite Hb in Hnext; discriminate|].
          apply rstrip_nil_all in C. unfold Y in C. rewrite first_line_app in C by assumption.
          destruct (tok_of_wf _ _ Hwf') as [Htok' Hnl'].
          rewrite body_cons in C. rewrite <- !app_assoc in C. rewrite first_line_app in C by assumption.
          destruct (solid_first _ _ (tok_solid _ Htok')) as (c' & r' & E' & Hc'). rewrite E' in C.
          rewrite !forallb_app in C. cbn [forallb app] in C. rewrite Hc' in C.
          cbn [andb] in C. rewrite andb_false_r in C. discriminate. }
        rewrite Hcont.
        (* not the stopping parenthesis *)
        assert (Hnp : tp_has_valid_head_unquoted_equals [41] (TS src io (length pre) (Some (spec_token t)) false eof) = false).
        { unfold tp_has_valid_head_unquoted_equals. cbn [ts_head].
          unfold spec_token, is_quoted, is_plain, tok_type. cbn [t_type t_string].
          destruct (tok_quoted t); cbn [negb]; [apply andb_false_r|]. cbn [negb andb] in Hparen.
          rewrite text_eqb_sym in Hparen. rewrite Hparen. apply andb_false_r. }
        rewrite Hnp.
        (* the element parser *)
        unfold parse_symref_or_string, parse_fragments_w_is_plain.
        unfold ts_is_null. cbn [ts_head].
        (* the consume: establishes the invariant for the rest *)
        set (rest := sep ++ body its ++ tail) in *.
        set (k := adv rest) in *.
        assert (Hk : k = adv sep /\ (k <= length sep)%nat \/ (sep = [] /\ its = [])).
        { unfold k, rest. destruct sep as [|c sep']; [right | left].
          - destruct its; [auto | discriminate].
          - cbn [app adv]. destruct (c =? NL); cbn [length]; split; auto; lia. }
        assert (Hk' : (k <= length sep)%nat /\ forallb is_sep_no_nl (skipn k sep) = true /\
                      firstn k rest = firstn k sep /\ (its <> [] -> hits_eof rest = false)).
        { unfold k, rest. destruct sep as [|c sep'].
          - destruct its as [|x its0]; [|discriminate]. cbn [app body map concat].
            destruct Htail as [-> | (a & ->)]; cbn; repeat split; auto; try lia; try contradiction.
          - cbn [app adv]. destruct (c =? NL); cbn; repeat split; auto; try lia.
            cbn in Hsep. apply andb_true_iff in Hsep as [_ Hsep]. exact Hsep. }
        destruct Hk' as (Hk1 & Hk2 & Hk3 & Hk4).
        pose (pre2 := pre ++ seps ++ render_tok t ++ firstn k sep).
        assert (Esrc : src = pre2 ++ skipn k sep ++ body its ++ tail).
        { unfold src, pre2. rewrite body_cons. cbn [tok_of after_tok]. rewrite <- !app_assoc.
          rewrite (app_assoc (firstn k sep)), firstn_skipn. reflexivity. }
        assert (Eio : io = length pre2).
        { rewrite Hio. unfold pre2. rewrite !app_length, firstn_length. fold rest. fold k. lia. }
        destruct (establish_inv its pre2 (skipn k sep) tail (length pre) (Some (spec_token t)) eof Hwf' Hk2 Htail) as (ts1 & Hc & Hsrc1 & Hst1 & Hinv1).
        { intros Hne. rewrite Heof. fold rest. auto. }
        rewrite <- Esrc, <- Eio in Hc. rewrite Hc. cbn [bind fst snd].
        rewrite (model_not_reserved t Hres). rewrite parse_fragments_spec_token by assumption.
        assert (Hfin : forall el, el = element_of t ->
                  exists ts' pre' seps',
                    list_loop alnum fuel (acc ++ [el]) ts1 = Ok (acc ++ elements (LTok t sep :: its), ts') /\
                    ts_src ts' = pre' ++ seps' ++ tail /\ ts_start ts' = length pre' /\ forallb is_sep_no_nl seps' = true /\
                    pre' ++ seps' = pre ++ seps ++ body (LTok t sep :: its)).
        { intros el ->.
          destruct (IH fuel (acc ++ [element_of t]) pre2 (skipn k sep) tail ts1 Hwf' Hk2 Htail Hsrc1 Hst1 Hinv1 ltac:(cbn [length] in Hfuel; lia))
            as (ts' & pre' & seps' & Hloop & Hs' & Hst' & Hsp' & Hcat).
          exists ts', pre', seps'. split; [rewrite Hloop; cbn [elements flat_map]; rewrite <- app_assoc; reflexivity|].
          repeat split; auto. rewrite Hcat. unfold pre2. rewrite body_cons. cbn [tok_of after_tok]. rewrite <- !app_assoc.
          rewrite (app_assoc (firstn k sep)), firstn_skipn. reflexivity. }
        unfold element_of in Hfin. unfold is_plain, spec_token, tok_type. cbn [t_type].
        destruct (fragments_of alnum t) as [|[c|n] [|f frs]]; cbn [bind fst snd]; try (apply Hfin; reflexivity).
        destruct (tok_quoted t); cbn [bind fst snd]; apply Hfin; reflexivity.
      + (* a continuation line *)
        cbn [wfl] in Hwf. rewrite !andb_true_iff in Hwf. destruct Hwf as [[Hsp1 Hsp2] Hwf'].
        destruct (sep_no_nl_facts _ Hsp1) as (Hq1 & Hq2 & Hq3).
        assert (EY : Y = sp1).
        { unfold Y. rewrite <- app_assoc. rewrite first_line_app by assumption. cbn [app]. rewrite first_line_nl. apply app_nil_r. }
        rewrite EY. rewrite rstrip_all_space by assumption.
        change (render_tok bsl_tok ++ []) with [BSL]. rewrite text_eqb_refl.
        (* consuming the line *)
        set (l := seps ++ [BSL] ++ sp1).
        assert (Hl : no_nl l = true).
        { unfold l, no_nl in *. rewrite !existsb_app, !negb_orb. rewrite Hs2, Hq2. reflexivity. }
        assert (Esrc : src = pre ++ l ++ NL :: (sp2 ++ body its ++ tail)).
        { unfold src, l. rewrite body_cons. cbn [tok_of after_tok]. rewrite <- !app_assoc. reflexivity. }
        assert (Hne : Nat.eqb (length pre) (length src) = false).
        { apply Nat.eqb_neq. rewrite Esrc, !app_length. cbn [length]. lia. }
        assert (Hfind : find_nl src (length pre) = Some (length pre + length l)%nat) by (rewrite Esrc; apply find_nl_at; assumption).
        assert (Hret : slice src (length pre) (length pre + length l) = l) by (rewrite Esrc; apply slice_mid; reflexivity).
        assert (Hnb : relex_lexer_blank l = true).
        { unfold relex_lexer_blank, l, strip_ws.
          rewrite (strip_solid is_shlex_ws seps [BSL] sp1); [reflexivity | exact Hs1 | exact Hq1 |].
          split; [exists BSL, []; split; reflexivity | exists [], BSL; split; reflexivity]. }
        unfold ts_consume_line, ts_consume_line_with. cbn [ts_src ts_start ts_io ts_head ts_err ts_eof]. rewrite Hne, Hfind, Hret, Hnb.
        pose (pre2 := pre ++ l ++ [NL]).
        assert (Esrc2 : src = pre2 ++ sp2 ++ body its ++ tail) by (rewrite Esrc; unfold pre2; rewrite <- !app_assoc; reflexivity).
        assert (Elen2 : (length pre + length l + 1)%nat = length pre2) by (unfold pre2; len).
        rewrite Elen2, Esrc2.
        destruct (establish_inv its pre2 sp2 tail (length pre) (Some (spec_token bsl_tok)) eof Hwf' Hsp2 Htail) as (ts1 & Hc & Hsrc1 & Hst1 & Hinv1).
        { intros _. rewrite Heof. destruct sp1; reflexivity. }
        rewrite Hc. cbn [bind snd].
        destruct (IH fuel acc pre2 sp2 tail ts1 Hwf' Hsp2 Htail Hsrc1 Hst1 Hinv1 ltac:(cbn [length] in Hfuel; lia))
          as (ts' & pre' & seps' & Hloop & Hs' & Hst' & Hsp' & Hcat).
        exists ts', pre', seps'. split; [rewrite Hloop; reflexivity|].
        repeat split; auto. rewrite Hcat. unfold pre2, l. rewrite body_cons. cbn [tok_of after_tok]. rewrite <- !app_assoc. reflexivity.
  Qed.

  (** the loops never swallow a missing / syntactically invalid look-ahead token: when the head is null
      (end of source, or SYNTAX_ERROR after an unterminated quote) while the current line is not blank
      and is not a continuation line, the element parser is asked and reports the error *)
  Lemma list_loop_null_head_is_error : forall fuel acc ts,
    ts_head ts = None -> tp_is_at_eol ts = false ->
    text_eqb (strip_py (ts_remaining_part_of_current_line ts)) [BSL] = false ->
    list_loop alnum (S fuel) acc ts = Raise ExInvalidArg /\ args_loop alnum (S fuel) acc ts = Raise ExInvalidArg.
  Proof.
    intros fuel acc ts Hh He Hc.
    assert (Hp : tp_has_valid_head_unquoted_equals [41] ts = false).
    { unfold tp_has_valid_head_unquoted_equals, tp_has_valid_head_token, ts_is_null. rewrite Hh. reflexivity. }
    split; cbn [list_loop args_loop]; rewrite He, Hc, Hp; cbn [negb].
    - unfold parse_symref_or_string, parse_fragments_w_is_plain, ts_is_null. rewrite Hh. reflexivity.
    - unfold args_element, look_ahead_state. rewrite Hh. destruct (negb (ts_err ts)); reflexivity.
  Qed.

  Lemma body_length : forall its, wfl its = true -> (length its <= length (body its))%nat.
  Proof.
    induction its as [|i its IH]; intros H; [cbn; lia|].
    destruct (tok_of_wf _ _ H) as [Htok _]. destruct (tok_first_char _ Htok) as (c & r & E & _).
    assert (H' : wfl its = true) by (destruct i; cbn [wfl] in H; rewrite !andb_true_iff in H; tauto).
    specialize (IH H'). rewrite body_cons, E, !app_length. cbn [length]. lia.
  Qed.

  Lemma after_tail : forall after, render_after after = [] \/ exists a, render_after after = NL :: a.
  Proof. intros [a|]; [right; exists a; reflexivity | left; reflexivity]. Qed.

  (** C09_list_elements: a list written as  lead item ... item [NL after]  where an item is a string
      token followed by blanks, or a lone backslash, blanks, new-line, blanks (the continuation):
      the elements are exactly the written tokens, in order, each with the fragments of
      C09_substitution (a naked token that is exactly one symbol reference becomes a symbol
      element); the parser stops at the end of the (last) line. *)
  Theorem list_elements : forall lead its after,
    forallb is_sep_no_nl lead = true -> wfl its = true ->
    exists ts ts',
      ts_init (lead ++ body its ++ render_after after) = Ok ts /\
      list_parse alnum ts = Ok (elements its, ts') /\
      ts_position ts' = length (lead ++ body its).
  Proof.
    intros lead its after Hlead Hwf.
    pose proof (after_tail after) as Htail. set (tail := render_after after) in *.
    destruct (establish_inv its [] lead tail 0%nat None false Hwf Hlead Htail ltac:(auto)) as (ts0 & Hc & Hsrc0 & Hst0 & Hinv0).
    cbn [app length] in Hc, Hsrc0, Hst0.
    unfold ts_init. rewrite Hc. cbn [bind snd]. exists ts0.
    unfold list_parse.
    destruct (list_loop_spec its (2 * length (ts_src ts0) + 2) [] [] lead tail ts0 Hwf Hlead Htail Hsrc0 Hst0 Hinv0)
      as (ts1 & pre' & seps' & Hloop & Hsrc1 & Hst1 & Hsp' & Hcat).
    { pose proof (body_length its Hwf). rewrite Hsrc0, !app_length. lia. }
    rewrite Hloop. cbn [bind fst snd app].
    destruct ts1 as [src1 io1 start1 head1 err1 eof1]. cbn [ts_src ts_start] in Hsrc1, Hst1. subst src1 start1.
    destruct (sep_no_nl_facts _ Hsp') as (_ & Hq2 & Hq3).
    assert (Heol : tp_is_at_eol (TS (pre' ++ seps' ++ tail) io1 (length pre') head1 err1 eof1) = true).
    { unfold tp_is_at_eol. rewrite remaining_is_first_line. rewrite first_line_app by assumption.
      rewrite tail_first_line by assumption. rewrite app_nil_r.
      destruct seps'; [reflexivity|]. unfold py_str_isspace. rewrite Hq3. reflexivity. }
    rewrite Heol.
    destruct (consume_line_spec false (TS (pre' ++ seps' ++ tail) io1 (length pre') head1 err1 eof1)) as (ts2 & Hc2 & Hsrc2 & Hst2).
    rewrite Hc2. cbn [bind fst snd]. exists ts2. split; [reflexivity|]. split; [reflexivity|].
    unfold ts_position. rewrite Hst2. cbn [ts_src ts_start].
    assert (Hn : next_start false (pre' ++ seps' ++ tail) (length pre') = (length pre' + length seps')%nat).
    { destruct Htail as [-> | (a & ->)].
      - rewrite app_nil_r. destruct (line_last pre' seps' false Hq2) as [_ H2]. rewrite H2, app_length. reflexivity.
      - destruct (line_with_nl pre' seps' a false Hq2) as [_ H2]. rewrite H2. lia. }
    rewrite Hn. rewrite <- app_length, Hcat. cbn [app]. reflexivity.
  Qed.
End ListLoop.
