(** C11 x C01: the order in which the settings model (Model/Settings.v [run]) executes the
    instructions of a history IS the order of the main-step events of C01's phased executor
    (Model/Exec.v [full_execute]) run on the test case the history translates to - including the
    halt at a failing [cd] and the jump into cleanup.  So "later" in C11's theorems is "later in
    the execution order proved in C01".

    Part 1 (definitions): the translation [lower], the instrumented run [run_i] (the points at
    which [run] executes an instruction, with the observations made there), [main_points].
    Part 2: [run] is [run_i] flattened; simulation; the executor's order is [pt_ltb];
    no-backward-effect restated with the executor's trace order. *)
From Coq Require Import NArith List Bool Arith Lia Sorted.
From Exactly Require Import Lib.Harness Model.Outcome Model.Exec Model.Settings Spec.C01 Spec.C11
  Proofs.ExecSpec Proofs.SettingsExpand Proofs.SettingsRefine Proofs.SettingsPrefix.
Import ListNotations.

(** * Part 1: definitions *)

Definition exec_phase (p : phase_id) : phase :=
  match p with PSetup => Setup | PBeforeAssert => BeforeAssert | PAssert => Assert | PCleanup => Cleanup end.

(** an instruction that does something only in its main step *)
Definition main_only (b : beh) : instr := fun k => match k with SMain => b | _ => BOk end.

(** how the main step of [o] started in state [s] ends: the only failing instruction of a C11
    history is a [cd] whose directory does not exist (it returns a hard error) *)
Definition beh_of_op (d : env) (dirs : list path) (in_setup : bool) (o : op) (s : state) : beh :=
  match step d dirs in_setup o s with
  | SOk _ => BOk
  | SHardError _ => BHardRet
  | SOutOfFuel => BExn          (* unreachable: [step_not_out_of_fuel] *)
  end.

Definition next_state (d : env) (dirs : list path) (in_setup : bool) (o : op) (s : state) : state :=
  match step d dirs in_setup o s with SOk s' => s' | _ => s end.

(** the instructions of one phase started in state [s], as instructions of the phased executor *)
Fixpoint lower_ops (d : env) (dirs : list path) (in_setup : bool) (s : state) (ops : list op) : list instr :=
  match ops with
  | [] => []
  | o :: ops' => main_only (beh_of_op d dirs in_setup o s) :: lower_ops d dirs in_setup (next_state d dirs in_setup o s) ops'
  end.

(** the processes an instruction starts, without their point *)
Definition procs (d : env) (p : phase_id) (o : op) (s : state) : list obs :=
  match o with
  | OProbe => [obs_non_act d s]
  | OEnvProg t _ _ => obs_value d 0 (appliers (match p with PSetup => true | _ => false end) t) s
  | _ => []
  end.

(** [run_ops] instrumented: every instruction whose main step is executed, with the observations
    made there (possibly none) *)
Fixpoint run_ops_i (d : env) (dirs : list path) (p : phase_id) (idx : nat) (ops : list op) (s : state)
  : list (point * list obs) * state * status :=
  match ops with
  | [] => ([], s, Done)
  | o :: ops' =>
      let here := (PtInstr p idx, procs d p o s) in
      match step d dirs (match p with PSetup => true | _ => false end) o s with
      | SOk s' => let '(t, s'', r) := run_ops_i d dirs p (S idx) ops' s' in (here :: t, s'', r)
      | SHardError s' => ([here], s', Halted)
      | SOutOfFuel => ([here], s, OutOfFuel)
      end
  end.

Definition seg_i (c : config) (p : phase_id) (ops : list op) (s : state) :=
  run_ops_i (c_default c) (c_dirs c) p 0 ops s.

(** [run] instrumented (same shape as [run]) *)
Definition run_i (c : config) (h : history) : list (point * list obs) :=
  let cl s := fst (fst (seg_i c PCleanup (h_cleanup h) s)) in
  let '(t1, s1, r1) := seg_i c PSetup (h_setup h) (initial c) in
  t1 ++ match r1 with
        | OutOfFuel => []
        | Halted => cl s1
        | Done =>
            (PtAct, [obs_act (c_default c) s1]) ::
            let '(t2, s2, r2) := seg_i c PBeforeAssert (h_before_assert h) s1 in
            t2 ++ match r2 with
                  | OutOfFuel => []
                  | Halted => cl s2
                  | Done =>
                      let '(t3, s3, r3) := seg_i c PAssert (h_assert h) s2 in
                      t3 ++ match r3 with OutOfFuel => [] | _ => cl s3 end
                  end
        end.

Definition flatten (t : list (point * list obs)) : list (point * obs) :=
  flat_map (fun x => map (pair (fst x)) (snd x)) t.

(** the translation of a history to a test case of the phased executor: no [conf] instructions,
    status PASS, an act phase that succeeds; every op an instruction that is OK at every step
    except that a failing [cd] returns a hard error from its main step.  The state in which each
    phase starts is the one the settings model reaches (cleanup: where the earlier phases ended or
    halted). *)
Definition lower (c : config) (h : history) : testcase :=
  let d := c_default c in
  let dirs := c_dirs c in
  let '(_, s1, r1) := seg_i c PSetup (h_setup h) (initial c) in
  let '(_, s2, r2) := seg_i c PBeforeAssert (h_before_assert h) s1 in
  let '(_, s3, _) := seg_i c PAssert (h_assert h) s2 in
  let sc := match r1 with Halted => s1 | _ => match r2 with Halted => s2 | _ => s3 end end in
  TC [] (lower_ops d dirs true (initial c) (h_setup h)) ok_instr
     (lower_ops d dirs false s1 (h_before_assert h)) (lower_ops d dirs false s2 (h_assert h))
     (lower_ops d dirs false sc (h_cleanup h)) TPass false.

(** the main-step events of a trace of the phased executor, as points of C11 *)
Definition point_of_event (e : event) : list point :=
  match e with
  | EInstr Setup SMain i _ => [PtInstr PSetup i]
  | EInstr Act SExecute _ _ => [PtAct]
  | EInstr BeforeAssert SMain i _ => [PtInstr PBeforeAssert i]
  | EInstr Assert SMain i _ => [PtInstr PAssert i]
  | EInstr Cleanup SMain i _ => [PtInstr PCleanup i]
  | _ => []
  end.
Definition main_points (t : list event) : list point := flat_map point_of_event t.

(** [q] occurs before [pt] in a trace *)
Definition precedes {A} (l : list A) (q pt : A) : Prop := exists l1 l2 l3, l = l1 ++ q :: l2 ++ pt :: l3.

(** * Part 2: proofs *)

(** ** [run] is [run_i] flattened *)
Lemma processes_of_procs : forall d p idx o s,
  processes_of d p idx o s = map (pair (PtInstr p idx)) (procs d p o s).
Proof. intros d p idx o s. destruct o; reflexivity. Qed.

Lemma run_ops_flatten : forall d dirs p ops idx s,
  run_ops d dirs p idx ops s =
  (flatten (fst (fst (run_ops_i d dirs p idx ops s))), snd (fst (run_ops_i d dirs p idx ops s)), snd (run_ops_i d dirs p idx ops s)).
Proof.
  intros d dirs p ops. induction ops as [|o ops IH]; intros idx s.
  - reflexivity.
  - cbn [run_ops run_ops_i]. rewrite processes_of_procs.
    destruct (step d dirs (match p with PSetup => true | _ => false end) o s) as [s1|s1|].
    + rewrite (IH (S idx) s1). destruct (run_ops_i d dirs p (S idx) ops s1) as [[t s''] r]. reflexivity.
    + cbn. rewrite app_nil_r. reflexivity.
    + cbn. rewrite app_nil_r. reflexivity.
Qed.

Lemma flatten_app : forall a b, flatten (a ++ b) = flatten a ++ flatten b.
Proof. intros. unfold flatten. apply flat_map_app. Qed.

Theorem run_is_run_i : forall c h, fst (run c h) = flatten (run_i c h).
Proof.
  intros c h. rewrite run_trace. unfold trace_all, trace_from_ba, trace_from_assert, cl, seg, tr, run_i, seg_i.
  rewrite (run_ops_flatten _ _ PSetup).
  destruct (run_ops_i (c_default c) (c_dirs c) PSetup 0 (h_setup h) (initial c)) as [[t1 s1] r1]. cbn [fst snd].
  rewrite flatten_app. f_equal. destruct r1; try reflexivity.
  - change (flatten ((PtAct, [obs_act (c_default c) s1]) :: ?x)) with ((PtAct, obs_act (c_default c) s1) :: flatten x).
    cbn [flatten flat_map fst snd map app]. f_equal. fold (flatten).
    rewrite (run_ops_flatten _ _ PBeforeAssert).
    destruct (run_ops_i (c_default c) (c_dirs c) PBeforeAssert 0 (h_before_assert h) s1) as [[t2 s2] r2]. cbn [fst snd].
    change (flat_map (fun x : point * list obs => map (pair (fst x)) (snd x))) with flatten.
    rewrite flatten_app. f_equal. destruct r2; try reflexivity.
    + rewrite (run_ops_flatten _ _ PAssert).
      destruct (run_ops_i (c_default c) (c_dirs c) PAssert 0 (h_assert h) s2) as [[t3 s3] r3]. cbn [fst snd].
      rewrite flatten_app. f_equal. destruct r3; try reflexivity; rewrite (run_ops_flatten _ _ PCleanup); reflexivity.
    + rewrite (run_ops_flatten _ _ PCleanup). reflexivity.
  - rewrite (run_ops_flatten _ _ PCleanup). reflexivity.
Qed.

(** ** the model never runs out of fuel *)
Lemma modify_some : forall m e, exists e', modify m e = Some e'.
Proof.
  intros [n v|n] e; cbn [modify].
  - rewrite expand_vars_spec. eexists. reflexivity.
  - eexists. reflexivity.
Qed.

Lemma apply_all_some : forall d m aps s, exists s', apply_all d m aps s = Some s'.
Proof.
  intros d m aps. induction aps as [|a aps IH]; intros s; cbn [apply_all].
  - eexists. reflexivity.
  - destruct a; unfold apply_act, apply_non_act.
    + destruct (modify_some m (populated d (st_act s))) as [e' ->]. apply IH.
    + destruct (modify_some m (populated d (st_nonact s))) as [e' ->]. apply IH.
Qed.

Lemma step_not_out_of_fuel : forall d dirs b o s, step d dirs b o s <> SOutOfFuel.
Proof.
  intros d dirs b o s. destruct o as [t md | t n v | cb suffix | t | cb suffix | ]; cbn [step]; try discriminate.
  - destruct (apply_all_some d md (appliers b t) s) as [s' ->]. discriminate.
  - destruct (apply_all_some d (MSet n v) (appliers b t) s) as [s' ->]. discriminate.
  - destruct (walk (base_dir (st_cwd s) cb) suffix) as [dd|]; [|discriminate].
    destruct (existsb (path_eqb dd) dirs); discriminate.
Qed.

(** ** main steps of one phase *)
Lemma point_of_main_event : forall p idx prev,
  point_of_event (EInstr (exec_phase p) SMain idx prev) = [PtInstr p idx].
Proof. intros [| | |] idx prev; reflexivity. Qed.

Lemma run_list_lower : forall d dirs p prev ops idx s,
  main_points (fst (run_list (exec_phase p) SMain prev idx (lower_ops d dirs (is_setup p) s ops))) =
    map fst (fst (fst (run_ops_i d dirs p idx ops s))) /\
  (snd (run_list (exec_phase p) SMain prev idx (lower_ops d dirs (is_setup p) s ops)) = None <->
   snd (run_ops_i d dirs p idx ops s) = Done) /\
  snd (run_ops_i d dirs p idx ops s) <> OutOfFuel.
Proof.
  intros d dirs p prev ops. induction ops as [|o ops IH]; intros idx s.
  - cbn. split; [reflexivity|]. split; [split; reflexivity|discriminate].
  - cbn [lower_ops run_list run_ops_i]. unfold main_only at 1, beh_of_op, next_state. fold (is_setup p).
    pose proof (step_not_out_of_fuel d dirs (is_setup p) o s) as Hoof.
    destruct (step d dirs (is_setup p) o s) as [s1|s1|]; [| |contradiction]; cbn [outcome].
    + specialize (IH (S idx) s1).
      destruct (run_list (exec_phase p) SMain prev (S idx) (lower_ops d dirs (is_setup p) s1 ops)) as [t f].
      destruct (run_ops_i d dirs p (S idx) ops s1) as [[ti s''] r]. cbn [fst snd] in *.
      destruct IH as (I1 & I2 & I3). split; [|split; assumption].
      unfold main_points in *. cbn [flat_map map fst]. rewrite point_of_main_event, I1. reflexivity.
    + cbn [fst snd]. split; [|split; [split; discriminate|discriminate]].
      unfold main_points. cbn [flat_map map fst]. rewrite point_of_main_event. reflexivity.
Qed.

(** ** the other steps: nothing fails, no main-step event *)
Lemma run_steps_cons : forall tc s ss,
  run_steps tc (s :: ss) =
  let (t, r) := run_step tc s in
  match r with Some f => (t, Some f) | None => let (t', r') := run_steps tc ss in (t ++ t', r') end.
Proof. reflexivity. Qed.

Definition quiet_step (tc : testcase) (pk : phase * stepk) : Prop :=
  snd pk <> SMain /\ snd pk <> SExecute /\ forall i, In i (instrs_of tc (fst pk)) -> i (snd pk) = BOk.

Lemma run_list_quiet : forall p k l idx,
  k <> SMain -> k <> SExecute -> (forall i, In i l -> i k = BOk) ->
  snd (run_list p k None idx l) = None /\ main_points (fst (run_list p k None idx l)) = [].
Proof.
  intros p k l. induction l as [|i l IH]; intros idx Hm Hx H.
  - split; reflexivity.
  - cbn [run_list]. rewrite (H i (or_introl eq_refl)). cbn [outcome].
    destruct (IH (S idx) Hm Hx (fun j Hj => H j (or_intror Hj))) as [I1 I2].
    destruct (run_list p k None (S idx) l) as [t r]. cbn [fst snd] in *. split; [exact I1|].
    unfold main_points in *. cbn [flat_map]. rewrite I2. destruct p, k; try reflexivity; congruence.
Qed.

Lemma run_steps_quiet : forall tc ss,
  Forall (quiet_step tc) ss ->
  snd (run_steps tc ss) = None /\ main_points (fst (run_steps tc ss)) = [].
Proof.
  intros tc ss H. induction H as [|pk ss (Hm & Hx & Hok) _ [I1 I2]].
  - split; reflexivity.
  - rewrite run_steps_cons. unfold run_step.
    destruct (run_list_quiet (fst pk) (snd pk) (instrs_of tc (fst pk)) 0 Hm Hx Hok) as [Q1 Q2].
    destruct (run_list (fst pk) (snd pk) None 0 (instrs_of tc (fst pk))) as [t r]. cbn [fst snd] in *. subst r.
    destruct (run_steps tc ss) as [t' r']. cbn [fst snd] in *. split; [exact I1|].
    unfold main_points in *. rewrite flat_map_app, Q2, I2. reflexivity.
Qed.

Lemma lower_ops_nonmain : forall d dirs b ops s i k, In i (lower_ops d dirs b s ops) -> k <> SMain -> i k = BOk.
Proof.
  intros d dirs b ops. induction ops as [|o ops IH]; intros s i k Hin Hk; cbn [lower_ops] in Hin.
  - contradiction.
  - destruct Hin as [<-|Hin]; [|apply (IH _ _ _ Hin Hk)]. unfold main_only. destruct k; try reflexivity. congruence.
Qed.

Lemma lower_quiet : forall c h pk,
  snd pk <> SMain -> snd pk <> SExecute -> fst pk <> Conf -> quiet_step (lower c h) pk.
Proof.
  intros c h [p k] Hm Hx Hc. cbn [fst snd] in *. split; [exact Hm|]. split; [exact Hx|].
  unfold lower.
  destruct (seg_i c PSetup (h_setup h) (initial c)) as [[t1 s1] r1].
  destruct (seg_i c PBeforeAssert (h_before_assert h) s1) as [[t2 s2] r2].
  destruct (seg_i c PAssert (h_assert h) s2) as [[t3 s3] r3].
  intros i Hin. destruct p; cbn [fst snd instrs_of tc_conf tc_setup tc_atc tc_before_assert tc_assert tc_cleanup] in Hin;
    try congruence; try (eapply lower_ops_nonmain; [exact Hin|exact Hm]).
  destruct Hin as [<-|[]]. reflexivity.
Qed.

Lemma block_validate_quiet : forall c h, Forall (quiet_step (lower c h)) block_validate.
Proof. intros c h. unfold block_validate. repeat (apply Forall_cons; [apply lower_quiet; discriminate|]). apply Forall_nil. Qed.

Lemma block_setup_tl_quiet : forall c h, Forall (quiet_step (lower c h)) (tl block_setup).
Proof. intros c h. unfold block_setup. cbn [tl]. repeat (apply Forall_cons; [apply lower_quiet; discriminate|]). apply Forall_nil. Qed.

Lemma main_points_app : forall a b, main_points (a ++ b) = main_points a ++ main_points b.
Proof. intros. unfold main_points. apply flat_map_app. Qed.

(** ** simulation *)
Theorem partial_execute_main_points : forall c h,
  main_points (fst (partial_execute (lower c h))) = map fst (run_i c h).
Proof.
  intros c h.
  pose proof (run_steps_quiet _ _ (block_validate_quiet c h)) as [V1 V2].
  pose proof (run_steps_quiet _ _ (block_setup_tl_quiet c h)) as [Q1 Q2].
  unfold partial_execute.
  destruct (run_steps (lower c h) block_validate) as [tv rv]. cbn [fst snd] in V1, V2. subst rv.
  change block_setup with ((Setup, SMain) :: tl block_setup). rewrite run_steps_cons.
  destruct (run_steps (lower c h) (tl block_setup)) as [tq rq]. cbn [fst snd] in Q1, Q2. subst rq.
  unfold block_act. rewrite run_steps_cons. cbn [run_steps].
  unfold run_step, run_cleanup, with_cleanup_replace, finish_with_cleanup, run_cleanup. cbn [fst snd].
  unfold run_i, lower.
  pose proof (run_list_lower (c_default c) (c_dirs c) PSetup None (h_setup h) 0 (initial c)) as (S1 & S2 & S3).
  fold (seg_i c PSetup (h_setup h) (initial c)) in S1, S2, S3.
  destruct (seg_i c PSetup (h_setup h) (initial c)) as [[t1 s1] r1]. cbn [fst snd] in S1, S2, S3.
  pose proof (run_list_lower (c_default c) (c_dirs c) PBeforeAssert None (h_before_assert h) 0 s1) as (B1 & B2 & B3).
  fold (seg_i c PBeforeAssert (h_before_assert h) s1) in B1, B2, B3.
  destruct (seg_i c PBeforeAssert (h_before_assert h) s1) as [[t2 s2] r2]. cbn [fst snd] in B1, B2, B3.
  pose proof (run_list_lower (c_default c) (c_dirs c) PAssert None (h_assert h) 0 s2) as (A1 & A2 & A3).
  fold (seg_i c PAssert (h_assert h) s2) in A1, A2, A3.
  destruct (seg_i c PAssert (h_assert h) s2) as [[t3 s3] r3]. cbn [fst snd] in A1, A2, A3.
  cbn [instrs_of tc_conf tc_setup tc_atc tc_before_assert tc_assert tc_cleanup tc_act_only exec_phase is_setup] in *.
  destruct (run_list Setup SMain None 0 (lower_ops (c_default c) (c_dirs c) true (initial c) (h_setup h))) as [ts fs].
  cbn [fst snd] in S1, S2.
  destruct fs as [f|].
  - (* setup halted *)
    assert (r1 = Halted) as -> by (destruct r1; [destruct S2 as [_ S2]; discriminate (S2 eq_refl)|reflexivity|contradiction]).
    pose proof (run_list_lower (c_default c) (c_dirs c) PCleanup (Some Exec.PSetup) (h_cleanup h) 0 s1) as (C1 & _ & _).
    fold (seg_i c PCleanup (h_cleanup h) s1) in C1. cbn [exec_phase is_setup] in C1.
    destruct (run_list Cleanup SMain (Some Exec.PSetup) 0 (lower_ops (c_default c) (c_dirs c) false s1 (h_cleanup h))) as [tcl rcl].
    cbn [fst snd] in *. rewrite !main_points_app. change (main_points (ESandbox :: ?x)) with (main_points x).
    rewrite main_points_app. change (main_points (ECleanupBegin Exec.PSetup :: tcl)) with (main_points tcl).
    rewrite V2, S1, C1, map_app. reflexivity.
  - (* setup completed *)
    assert (r1 = Done) as -> by (apply S2; reflexivity).
    change (run_list Act SExecute None 0 [ok_instr]) with ([EInstr Act SExecute 0 None], @None failure). cbn iota. rewrite app_nil_r.
    destruct (run_list BeforeAssert SMain None 0 (lower_ops (c_default c) (c_dirs c) false s1 (h_before_assert h))) as [tb fb].
    cbn [fst snd] in B1, B2.
    destruct fb as [f|].
    + (* before-assert halted *)
      assert (r2 = Halted) as -> by (destruct r2; [destruct B2 as [_ B2]; discriminate (B2 eq_refl)|reflexivity|contradiction]).
      pose proof (run_list_lower (c_default c) (c_dirs c) PCleanup (Some Exec.PBeforeAssert) (h_cleanup h) 0 s2) as (C1 & _ & _).
      fold (seg_i c PCleanup (h_cleanup h) s2) in C1. cbn [exec_phase is_setup] in C1.
      destruct (run_list Cleanup SMain (Some Exec.PBeforeAssert) 0 (lower_ops (c_default c) (c_dirs c) false s2 (h_cleanup h))) as [tcl rcl].
      cbn [fst snd] in *.
      rewrite !main_points_app. change (main_points (ESandbox :: ?x)) with (main_points x).
      rewrite !main_points_app. change (main_points (ECleanupBegin Exec.PBeforeAssert :: tcl)) with (main_points tcl).
      change (main_points [EInstr Act SExecute 0 None]) with [PtAct].
      rewrite V2, S1, Q2, B1, C1. cbn [app map fst]. rewrite !map_app. cbn [map fst app]. rewrite ?map_app, ?app_nil_r. reflexivity.
    + assert (r2 = Done) as -> by (apply B2; reflexivity).
      destruct (run_list Assert SMain None 0 (lower_ops (c_default c) (c_dirs c) false s2 (h_assert h))) as [ta fa].
      cbn [fst snd] in A1, A2.
      pose proof (run_list_lower (c_default c) (c_dirs c) PCleanup (Some Exec.PAssert) (h_cleanup h) 0 s3) as (C1 & _ & _).
      fold (seg_i c PCleanup (h_cleanup h) s3) in C1. cbn [exec_phase is_setup] in C1.
      assert (Hsc : match r3 with Halted => s3 | _ => s3 end = s3) by (destruct r3; reflexivity).
      destruct (run_list Cleanup SMain (Some Exec.PAssert) 0 (lower_ops (c_default c) (c_dirs c) false s3 (h_cleanup h))) as [tcl rcl].
      cbn [fst snd] in *.
      rewrite !main_points_app. change (main_points (ESandbox :: ?x)) with (main_points x).
      rewrite !main_points_app. change (main_points (ECleanupBegin Exec.PAssert :: tcl)) with (main_points tcl).
      change (main_points [EInstr Act SExecute 0 None]) with [PtAct].
      rewrite V2, S1, Q2, B1, A1, C1. cbn [app map fst]. rewrite !map_app. cbn [map fst app]. rewrite ?map_app, ?app_nil_r.
      destruct r3; [reflexivity|reflexivity|contradiction].
Qed.

Lemma lower_conf_status : forall c h, tc_conf (lower c h) = [] /\ tc_status (lower c h) = TPass.
Proof.
  intros c h. unfold lower.
  destruct (seg_i c PSetup (h_setup h) (initial c)) as [[t1 s1] r1].
  destruct (seg_i c PBeforeAssert (h_before_assert h) s1) as [[t2 s2] r2].
  destruct (seg_i c PAssert (h_assert h) s2) as [[t3 s3] r3]. split; reflexivity.
Qed.

Theorem full_execute_main_points : forall c h,
  main_points (fst (full_execute (lower c h))) = map fst (run_i c h).
Proof.
  intros c h. destruct (lower_conf_status c h) as [Hc Hs]. unfold full_execute, run_step.
  cbn [fst snd instrs_of]. rewrite Hc, Hs. cbn [run_list].
  pose proof (partial_execute_main_points c h) as H.
  destruct (partial_execute (lower c h)) as [t pr]. cbn [fst app] in *. exact H.
Qed.

(** ** the executor's order of main steps is [pt_ltb] *)
Definition pt_lt (a b : point) : Prop := pt_ltb a b = true.

Lemma rank_lt : forall a b, (pt_rank a < pt_rank b)%nat -> pt_lt a b.
Proof. intros a b H. unfold pt_lt, pt_ltb. apply orb_true_iff. left. apply Nat.ltb_lt. exact H. Qed.

Lemma run_ops_i_sorted : forall d dirs p ops idx s,
  StronglySorted pt_lt (map fst (fst (fst (run_ops_i d dirs p idx ops s)))) /\
  Forall (fun pt => exists k, pt = PtInstr p k /\ (idx <= k)%nat) (map fst (fst (fst (run_ops_i d dirs p idx ops s)))).
Proof.
  intros d dirs p ops. induction ops as [|o ops IH]; intros idx s.
  - split; constructor.
  - cbn [run_ops_i].
    assert (Hone : StronglySorted pt_lt [PtInstr p idx] /\
                   Forall (fun pt => exists k, pt = PtInstr p k /\ (idx <= k)%nat) [PtInstr p idx]).
    { split; constructor; try constructor. exists idx. split; [reflexivity|lia]. }
    destruct (step d dirs (match p with PSetup => true | _ => false end) o s) as [s1|s1|]; try exact Hone.
    specialize (IH (S idx) s1). destruct (run_ops_i d dirs p (S idx) ops s1) as [[t s''] r]. cbn [fst snd map] in *.
    destruct IH as [I1 I2]. split.
    + constructor; [exact I1|]. eapply Forall_impl; [|exact I2]. intros pt (k & -> & Hk).
      unfold pt_lt, pt_ltb. cbn [pt_index]. replace (pt_rank (PtInstr p k)) with (pt_rank (PtInstr p idx)) by (destruct p; reflexivity).
      rewrite Nat.ltb_irrefl, Nat.eqb_refl. cbn [orb andb]. apply Nat.ltb_lt. lia.
    + constructor; [exists idx; split; [reflexivity|lia]|].
      eapply Forall_impl; [|exact I2]. intros pt (k & -> & Hk). exists k. split; [reflexivity|lia].
Qed.

Lemma seg_i_sorted : forall c p ops s,
  StronglySorted pt_lt (map fst (fst (fst (seg_i c p ops s)))) /\
  Forall (fun pt => pt_rank pt = pt_rank (PtInstr p 0)) (map fst (fst (fst (seg_i c p ops s)))).
Proof.
  intros c p ops s. unfold seg_i. destruct (run_ops_i_sorted (c_default c) (c_dirs c) p ops 0 s) as [H1 H2].
  split; [exact H1|]. eapply Forall_impl; [|exact H2]. intros pt (k & -> & _). destruct p; reflexivity.
Qed.

Lemma sorted_app_rank : forall n l1 l2,
  StronglySorted pt_lt l1 -> StronglySorted pt_lt l2 ->
  Forall (fun x => pt_rank x = n) l1 -> Forall (fun y => (n < pt_rank y)%nat) l2 ->
  StronglySorted pt_lt (l1 ++ l2).
Proof.
  intros n l1 l2 H1 H2 R1 R2. induction H1 as [|x l1 Hs IH Hx]; cbn [app]; [exact H2|].
  inversion R1 as [|? ? Rx R1']; subst. constructor; [apply IH; exact R1'|].
  apply Forall_app. split; [exact Hx|]. eapply Forall_impl; [|exact R2]. intros y Hy. apply rank_lt. cbn beta in Hy. lia.
Qed.

(** [good n l]: the points of [l] are in executor order and all of rank >= n *)
Definition good (n : nat) (l : list (point * list obs)) : Prop :=
  StronglySorted pt_lt (map fst l) /\ Forall (fun y => (n <= pt_rank y)%nat) (map fst l).

Lemma good_nil : forall n, good n [].
Proof. intros n. split; constructor. Qed.

Lemma good_weaken : forall n m l, (m <= n)%nat -> good n l -> good m l.
Proof.
  intros n m l H [G1 G2]. split; [exact G1|]. eapply Forall_impl; [|exact G2]. intros y Hy. cbn beta in *. lia.
Qed.

Lemma good_seg_app : forall c p ops s n tail,
  n = pt_rank (PtInstr p 0) -> good (S n) tail -> good n (fst (fst (seg_i c p ops s)) ++ tail).
Proof.
  intros c p ops s n tail -> [T1 T2]. destruct (seg_i_sorted c p ops s) as [H1 H2]. split; rewrite map_app.
  - apply (sorted_app_rank (pt_rank (PtInstr p 0))); assumption.
  - apply Forall_app. split.
    + eapply Forall_impl; [|exact H2]. intros y Hy. cbn beta in *. lia.
    + eapply Forall_impl; [|exact T2]. intros y Hy. cbn beta in *. lia.
Qed.

Definition cl_i (c : config) (h : history) (s : state) := fst (fst (seg_i c PCleanup (h_cleanup h) s)).
Definition from_assert_i (c : config) (h : history) (s2 : state) :=
  let '(t3, s3, r3) := seg_i c PAssert (h_assert h) s2 in
  t3 ++ match r3 with OutOfFuel => [] | _ => cl_i c h s3 end.
Definition from_ba_i (c : config) (h : history) (s1 : state) :=
  let '(t2, s2, r2) := seg_i c PBeforeAssert (h_before_assert h) s1 in
  t2 ++ match r2 with OutOfFuel => [] | Halted => cl_i c h s2 | Done => from_assert_i c h s2 end.

Lemma cl_good : forall c h s, good 4 (cl_i c h s).
Proof.
  intros c h s. unfold cl_i. rewrite <- (app_nil_r (fst (fst (seg_i c PCleanup (h_cleanup h) s)))).
  apply good_seg_app; [reflexivity|apply good_nil].
Qed.

Lemma from_assert_good : forall c h s, good 3 (from_assert_i c h s).
Proof.
  intros c h s. unfold from_assert_i.
  pose proof (fun tail => good_seg_app c PAssert (h_assert h) s 3 tail eq_refl) as H.
  destruct (seg_i c PAssert (h_assert h) s) as [[t3 s3] r3]. cbn [fst] in H. apply H.
  destruct r3; [apply cl_good|apply cl_good|apply good_nil].
Qed.

Lemma from_ba_good : forall c h s, good 2 (from_ba_i c h s).
Proof.
  intros c h s. unfold from_ba_i.
  pose proof (fun tail => good_seg_app c PBeforeAssert (h_before_assert h) s 2 tail eq_refl) as H.
  destruct (seg_i c PBeforeAssert (h_before_assert h) s) as [[t2 s2] r2]. cbn [fst] in H. apply H.
  destruct r2; [apply from_assert_good|apply (good_weaken 4); [lia|apply cl_good]|apply good_nil].
Qed.

Lemma run_i_shape : forall c h,
  run_i c h =
  let '(t1, s1, r1) := seg_i c PSetup (h_setup h) (initial c) in
  t1 ++ match r1 with
        | OutOfFuel => []
        | Halted => cl_i c h s1
        | Done => (PtAct, [obs_act (c_default c) s1]) :: from_ba_i c h s1
        end.
Proof. reflexivity. Qed.

Theorem run_i_sorted : forall c h, StronglySorted pt_lt (map fst (run_i c h)).
Proof.
  intros c h. rewrite run_i_shape.
  pose proof (fun tail => good_seg_app c PSetup (h_setup h) (initial c) 0 tail eq_refl) as H.
  destruct (seg_i c PSetup (h_setup h) (initial c)) as [[t1 s1] r1]. cbn [fst] in H. apply H.
  destruct r1; [|apply (good_weaken 4); [lia|apply cl_good]|apply good_nil].
  destruct (from_ba_good c h s1) as [G1 G2]. split; cbn [map fst].
  - constructor; [exact G1|]. eapply Forall_impl; [|exact G2]. intros y Hy. apply rank_lt. cbn [pt_rank]. cbn beta in Hy. lia.
  - constructor; [cbn; lia|]. eapply Forall_impl; [|exact G2]. intros y Hy. cbn beta in *. lia.
Qed.

(** ** order in a sorted trace *)
Lemma sorted_precedes : forall l q pt, StronglySorted pt_lt l -> precedes l q pt -> pt_lt q pt.
Proof.
  intros l q pt Hs (l1 & l2 & l3 & ->). induction l1 as [|x l1 IH]; cbn [app] in Hs.
  - inversion Hs as [|? ? _ Hall]; subst. rewrite Forall_forall in Hall. apply Hall. apply in_or_app. right. left. reflexivity.
  - inversion Hs; subst. apply IH. assumption.
Qed.

Lemma pt_lt_asym : forall a b, pt_lt a b -> pt_lt b a -> False.
Proof.
  intros a b H1 H2. unfold pt_lt, pt_ltb in *.
  apply orb_true_iff in H1. apply orb_true_iff in H2.
  destruct H1 as [H1|H1], H2 as [H2|H2];
    repeat match goal with
           | H : (_ <? _)%nat = true |- _ => apply Nat.ltb_lt in H
           | H : _ && _ = true |- _ => apply andb_true_iff in H; destruct H
           | H : (_ =? _)%nat = true |- _ => apply Nat.eqb_eq in H
           end; lia.
Qed.

Lemma in_two_precedes : forall {A} (l : list A) a b, In a l -> In b l -> a <> b -> precedes l a b \/ precedes l b a.
Proof.
  intros A l a b. induction l as [|x l IH]; intros Ha Hb Hne; [contradiction|].
  destruct Ha as [->|Ha], Hb as [->|Hb].
  - contradiction.
  - left. apply in_split in Hb as (l2 & l3 & ->). exists [], l2, l3. reflexivity.
  - right. apply in_split in Ha as (l2 & l3 & ->). exists [], l2, l3. reflexivity.
  - destruct (IH Ha Hb Hne) as [(l1 & l2 & l3 & ->)|(l1 & l2 & l3 & ->)]; [left|right]; exists (x :: l1), l2, l3; reflexivity.
Qed.

(** the order of the main steps in the executor's trace is exactly [pt_ltb] *)
Theorem exec_order_is_pt_ltb : forall c h q pt,
  let E := main_points (fst (full_execute (lower c h))) in
  In q E -> In pt E -> (precedes E q pt <-> pt_ltb q pt = true).
Proof.
  intros c h q pt E Hq Hpt. subst E. rewrite full_execute_main_points in *. pose proof (run_i_sorted c h) as Hs. split.
  - intros Hp. exact (sorted_precedes _ _ _ Hs Hp).
  - intros Hlt. assert (Hne : q <> pt).
    { intros ->. exact (pt_lt_asym pt pt Hlt Hlt). }
    destruct (in_two_precedes _ _ _ Hq Hpt Hne) as [Hp|Hp]; [exact Hp|].
    exfalso. exact (pt_lt_asym _ _ Hlt (sorted_precedes _ _ _ Hs Hp)).
Qed.

(** every observation of [run] is made at a main step of the executor's trace *)
Theorem observed_points_are_exec_main_events : forall c h q o,
  In (q, o) (fst (run c h)) -> In q (main_points (fst (full_execute (lower c h)))).
Proof.
  intros c h q o Hin. rewrite full_execute_main_points, run_is_run_i in *. unfold flatten in Hin.
  apply in_flat_map in Hin as ([pt obsl] & Hx & Hin). cbn [fst snd] in Hin.
  apply in_map_iff in Hin as (ob & Heq & _). injection Heq as <- _.
  apply in_map_iff. exists (pt, obsl). split; [reflexivity|exact Hx].
Qed.

(** ** no backward effect, with the executor's trace order *)
Theorem no_backward_effect_exec_order : forall c h h' pt q o,
  agree_before pt h h' ->
  precedes (main_points (fst (full_execute (lower c h)))) q pt ->
  In (q, o) (fst (run c h)) -> In (q, o) (fst (run c h')).
Proof.
  intros c h h' pt q o Hag Hp Hin. rewrite full_execute_main_points in Hp.
  pose proof (sorted_precedes _ _ _ (run_i_sorted c h) Hp) as Hlt.
  assert (Hf : In (q, o) (filter (fun po => pt_ltb (fst po) pt) (fst (run c h)))).
  { apply filter_In. split; [exact Hin|exact Hlt]. }
  rewrite (no_backward_effect_trace c h h' pt Hag) in Hf. apply filter_In in Hf. apply Hf.
Qed.

(** the same with C01's declarative protocol specification in place of the executor *)
Theorem spec_full_main_points : forall c h,
  main_points (fst (spec_full (lower c h))) = map fst (run_i c h).
Proof. intros c h. rewrite <- full_execute_refines_spec. apply full_execute_main_points. Qed.
