(** Source locations are exact: every element of the reading of a test-case file records the number of its
    first line, the lines it came from, the file, and the chain of inclusion directives that led to the file. *)
From Coq Require Import NArith List Bool Arith Lia.
From Exactly Require Import Lib.Harness Model.Doc Spec.C07 Proofs.DocReader.
Import ListNotations.
Local Open Scope N_scope.

(** * Boolean equalities *)
Lemma text_eqb_refl : forall t, text_eqb t t = true.
Proof. induction t as [|c t IH]; cbn; [reflexivity|]. rewrite N.eqb_refl, IH. reflexivity. Qed.

Lemma text_eqb_eq : forall a b, text_eqb a b = true -> a = b.
Proof.
  induction a as [|x a IH]; destruct b as [|y b]; cbn; intros H; try reflexivity; try discriminate.
  apply andb_true_iff in H as [H1 H2]. apply N.eqb_eq in H1. apply IH in H2. congruence.
Qed.

Lemma lines_eqb_refl : forall l, lines_eqb l l = true.
Proof. induction l as [|x l IH]; cbn; [reflexivity|]. rewrite text_eqb_refl. exact IH. Qed.

Lemma is_suffix_skipn : forall c l, is_suffix (skipn c l) l = true.
Proof.
  unfold is_suffix. induction c as [|c IH]; intros l.
  - cbn [skipn]. destruct l; cbn [length is_suffix_fuel]; rewrite text_eqb_refl; reflexivity.
  - destruct l as [|x l]; cbn [skipn length is_suffix_fuel].
    + reflexivity.
    + destruct (text_eqb (skipn c l) (x :: l)); [reflexivity|]. apply IH.
Qed.

Lemma skipn_skipn' {A} : forall x y (l : list A), skipn x (skipn y l) = skipn (x + y) l.
Proof.
  intros x y. revert x. induction y as [|y IH]; intros x l.
  - rewrite Nat.add_0_r. reflexivity.
  - destruct l as [|a l]; [rewrite !skipn_nil; reflexivity|]. rewrite Nat.add_succ_r. cbn [skipn]. apply IH.
Qed.

(** * Positions in a file: [at_pos fl i ls]: [ls] is what remains of [fl] from the 0-based line [i] *)
Definition at_pos (fl : list text) (i : nat) (ls : list text) : Prop := skipn i fl = ls.

Lemma at_pos_length : forall fl i l r, at_pos fl i (l :: r) -> (i + S (length r) = length fl)%nat.
Proof.
  intros fl i l r H. unfold at_pos in H. pose proof (skipn_length i fl) as HL. rewrite H in HL. cbn in HL. lia.
Qed.

Lemma at_pos_next : forall fl i l r, at_pos fl i (l :: r) -> at_pos fl (S i) r.
Proof.
  intros fl i l r H. unfold at_pos in *. change (S i) with (1 + i)%nat. rewrite <- skipn_skipn'. rewrite H. reflexivity.
Qed.

Lemma at_pos_skip : forall fl i ls k, at_pos fl i ls -> at_pos fl (k + i) (skipn k ls).
Proof. intros fl i ls k H. unfold at_pos in *. rewrite <- skipn_skipn', H. reflexivity. Qed.

Lemma file_lines_at : forall fl i l r len,
    at_pos fl i (l :: r) -> (len <= S (length r))%nat ->
    file_lines fl (N.of_nat (S i)) len = Some (firstn len (l :: r)).
Proof.
  intros fl i l r len H Hlen. unfold file_lines.
  destruct (N.of_nat (S i) =? 0) eqn:E; [apply N.eqb_eq in E; lia|].
  replace (N.to_nat (N.of_nat (S i) - 1)) with i by lia.
  pose proof (at_pos_length _ _ _ _ H) as HL.
  destruct (i + len <=? length fl)%nat eqn:E2; [|apply Nat.leb_gt in E2; lia].
  unfold at_pos in H. rewrite H. reflexivity.
Qed.

(** * The element parsers record the lines they consumed *)
Lemma act_take_spec : forall rest, act_take rest = map un_escape (firstn (length (act_take rest)) rest) /\
                                   (length (act_take rest) <= length rest)%nat.
Proof.
  induction rest as [|l r [IH1 IH2]]; cbn [act_take].
  - split; [reflexivity|cbn; lia].
  - destruct (at_eof (l :: r)); [split; [reflexivity|cbn; lia]|].
    destruct (is_header_line l); [split; [reflexivity|cbn; lia]|].
    cbn [length firstn map]. split; [f_equal; exact IH1|lia].
Qed.

Lemma take_while_lines_spec : forall p rest,
    take_while_lines p rest = firstn (length (take_while_lines p rest)) rest /\
    (length (take_while_lines p rest) <= length rest)%nat /\ forallb p (take_while_lines p rest) = true.
Proof.
  induction rest as [|l r [IH1 [IH2 IH3]]]; cbn [take_while_lines].
  - repeat split; cbn; lia.
  - destruct (p l) eqn:E; cbn [length firstn forallb].
    + rewrite E. repeat split; [f_equal; exact IH1|lia|exact IH3].
    + repeat split; lia.
Qed.

Section Located.
  Variable iparse : sec -> text -> list text -> ires.
  Variable fs : N -> text -> fsres.
  Variable contents : N -> option (list text).
  Variable fl : list text.     (* the lines of the file being read *)

  (** what a step of the description+instruction parser may be *)
  Definition good_instr (s : sec) (st : step) : Prop :=
    match st with
    | SElem k src _ => k = KInstr /\ (s <> SAct -> src_ok fl s k src = true)
    | SIncl _ _ => False
    | _ => True
    end.

  Lemma src_ok_instr : forall s i lm restm c k',
      s <> SAct -> at_pos fl i (lm :: restm) -> (k' <= length restm)%nat ->
      src_ok fl s KInstr (LineSeq (N.of_nat (S i)) (skipn c lm :: firstn k' restm)) = true.
  Proof.
    intros s i lm restm c k' Hs Hpos Hk. unfold src_ok. cbn [ls_first ls_lines length].
    rewrite firstn_length. replace (Nat.min k' (length restm)) with k' by lia.
    rewrite (file_lines_at fl i lm restm (S k') Hpos) by lia. cbn [firstn hd tl].
    rewrite is_suffix_skipn, lines_eqb_refl. destruct s; try reflexivity. contradiction.
  Qed.

  Lemma instr_at_good : forall s n i lm c restm,
      at_pos fl i (lm :: restm) -> good_instr s (instr_at iparse s n (N.of_nat (S i)) lm c restm).
  Proof.
    intros s n i lm c restm Hpos. unfold instr_at.
    destruct (iparse s (skipn c lm) restm) as [kk| |nn|]; cbn; try exact I.
    destruct kk as [|k']; cbn; try exact I.
    destruct (k' <=? length restm)%nat eqn:E; cbn; try exact I.
    apply Nat.leb_le in E. split; [reflexivity|]. intros Hs. apply src_ok_instr; assumption.
  Qed.

  Lemma skip_lines_good : forall s n ls i err,
      at_pos fl i ls -> good_instr s (skip_lines iparse s n (N.of_nat (S i)) err ls).
  Proof.
    intros s n. induction ls as [|l r IH]; intros i err Hpos; cbn [skip_lines].
    - exact I.
    - destruct (at_eof (l :: r)); [exact I|].
      destruct (is_empty_or_comment l).
      + replace (N.of_nat (S i) + 1) with (N.of_nat (S (S i))) by lia. apply IH. eapply at_pos_next; eassumption.
      + apply instr_at_good. assumption.
  Qed.

  Lemma skip_cursor_good : forall s n l0 i lm c restm,
      at_pos fl i (lm :: restm) -> good_instr s (skip_cursor iparse s n l0 (N.of_nat (S i)) lm c restm).
  Proof.
    intros s n l0 i lm c restm Hpos. unfold skip_cursor.
    assert (G : good_instr s (if (c + count_while is_space (skipn c lm) <? length lm)%nat
                              then instr_at iparse s n (N.of_nat (S i)) lm (c + count_while is_space (skipn c lm)) restm
                              else skip_lines iparse s n (N.of_nat (S i) + 1) (LineSeq n [l0]) restm)).
    { destruct (c + count_while is_space (skipn c lm) <? length lm)%nat.
      - apply instr_at_good. assumption.
      - replace (N.of_nat (S i) + 1) with (N.of_nat (S (S i))) by lia. apply skip_lines_good.
        eapply at_pos_next; eassumption. }
    destruct (skipn c lm); [destruct restm|]; try exact G. exact I.
  Qed.

  Lemma find_btick_lines_pos : forall ls i m lm c restm,
      at_pos fl i ls -> find_btick_lines (N.of_nat (S i)) ls = Some (m, lm, c, restm) ->
      exists j, m = N.of_nat (S j) /\ at_pos fl j (lm :: restm).
  Proof.
    induction ls as [|l r IH]; intros i m lm c restm Hpos H; cbn [find_btick_lines] in H.
    - discriminate.
    - destruct (find_char c_btick l).
      + injection H as <- <- <- <-. exists i. split; [reflexivity|assumption].
      + replace (N.of_nat (S i) + 1) with (N.of_nat (S (S i))) in H by lia.
        eapply IH; [|eassumption]. eapply at_pos_next; eassumption.
  Qed.

  Lemma instr_step_good : forall s i l0 rest,
      at_pos fl i (l0 :: rest) -> good_instr s (instr_step iparse s (N.of_nat (S i)) l0 rest).
  Proof.
    intros s i l0 rest Hpos. unfold instr_step.
    destruct (skipn (count_while is_space l0) l0) as [|ch r0].
    - apply skip_cursor_good. assumption.
    - destruct (ch =? c_btick).
      + destruct (find_char c_btick r0).
        * apply skip_cursor_good. assumption.
        * destruct (find_btick_lines (N.of_nat (S i) + 1) rest) as [[[[m lm] c] restm]|] eqn:E; [|exact I].
          replace (N.of_nat (S i) + 1) with (N.of_nat (S (S i))) in E by lia.
          destruct (find_btick_lines_pos rest (S i) m lm c restm (at_pos_next _ _ _ _ Hpos) E) as [j [-> Hj]].
          apply skip_cursor_good. assumption.
      + apply skip_cursor_good. assumption.
  Qed.

  (** every element step records lines of the file *)
  Lemma elem_step_src_ok : forall s i l0 rest k src consumed,
      at_pos fl i (l0 :: rest) -> elem_step iparse s (N.of_nat (S i)) l0 rest = SElem k src consumed ->
      src_ok fl s k src = true.
  Proof.
    intros s i l0 rest k src consumed Hpos H.
    remember (N.of_nat (S i)) as n eqn:Hn.
    assert (A : act_step n l0 rest = SElem k src consumed -> src_ok fl SAct k src = true).
    { unfold act_step. intros A. injection A as <- <- _. rewrite Hn.
      destruct (act_take_spec rest) as [Ha Hl].
      unfold src_ok. cbn [ls_first ls_lines length].
      rewrite (file_lines_at fl i l0 rest (S (length (act_take rest))) Hpos) by lia.
      cbn [firstn map]. rewrite <- Ha. apply lines_eqb_refl. }
    assert (B : forall s', s' <> SAct -> nonact_step iparse s' n l0 rest = SElem k src consumed ->
                           src_ok fl s' k src = true).
    { intros s' Hs' B. unfold nonact_step in B.
      destruct (is_empty_line l0) eqn:Ee.
      { injection B as <- <- _. rewrite Hn. destruct (take_while_lines_spec is_empty_line rest) as [Ht [Hl Hp]].
        unfold src_ok. cbn [ls_first ls_lines length].
        rewrite (file_lines_at fl i l0 rest (S (length (take_while_lines is_empty_line rest))) Hpos) by lia.
        cbn [firstn]. rewrite <- Ht. cbn [forallb]. rewrite lines_eqb_refl, Ee, Hp. destruct s'; reflexivity. }
      destruct (is_comment_line l0) eqn:Ec.
      { injection B as <- <- _. rewrite Hn. destruct (take_while_lines_spec is_comment_line rest) as [Ht [Hl Hp]].
        unfold src_ok. cbn [ls_first ls_lines length].
        rewrite (file_lines_at fl i l0 rest (S (length (take_while_lines is_comment_line rest))) Hpos) by lia.
        cbn [firstn]. rewrite <- Ht. cbn [forallb]. rewrite lines_eqb_refl, Ec, Hp. destruct s'; reflexivity. }
      destruct (incl_step n l0) as [st|] eqn:Ei.
      - unfold incl_step in Ei. destruct (split_ws l0) as [|t args]; try discriminate.
        destruct (text_eqb t including_token); try discriminate.
        destruct args as [|tok [|? ?]]; injection Ei as <-; discriminate.
      - pose proof (instr_step_good s' i l0 rest Hpos) as G. rewrite <- Hn, B in G. destruct G as [-> G]. apply G. assumption. }
    destruct s; cbn [elem_step] in H; try (apply B; [discriminate|assumption]). apply A. assumption.
  Qed.

  (** an inclusion step is a line [including TOKEN] of the file *)
  Lemma elem_step_incl : forall s n l0 rest src tok,
      elem_step iparse s n l0 rest = SIncl src tok ->
      src = LineSeq n [l0] /\ split_ws l0 = [including_token; tok].
  Proof.
    intros s n l0 rest src tok H.
    assert (B : forall s', nonact_step iparse s' n l0 rest = SIncl src tok ->
                           src = LineSeq n [l0] /\ split_ws l0 = [including_token; tok]).
    { intros s' B. unfold nonact_step in B.
      destruct (is_empty_line l0); [discriminate|]. destruct (is_comment_line l0); [discriminate|].
      destruct (incl_step n l0) as [st|] eqn:Ei.
      - unfold incl_step in Ei. destruct (split_ws l0) as [|t args]; try discriminate.
        destruct (text_eqb t including_token) eqn:Et; try discriminate.
        apply text_eqb_eq in Et. subst t.
        destruct args as [|tok' [|? ?]]; injection Ei as <-; try discriminate.
        injection B as <- <-. split; reflexivity.
      - exfalso.
        (* the description+instruction parser never yields a directive; position is irrelevant here *)
        unfold instr_step in B.
        assert (NI : forall m lm c restm, instr_at iparse s' n m lm c restm <> SIncl src tok).
        { intros. unfold instr_at. destruct (iparse s' (skipn c lm) restm) as [[|k']| | |]; try discriminate.
          destruct (k' <=? length restm)%nat; discriminate. }
        assert (NL : forall ls m err, skip_lines iparse s' n m err ls <> SIncl src tok).
        { induction ls as [|l r IHl]; intros m err; cbn [skip_lines]; [discriminate|].
          destruct (at_eof (l :: r)); [discriminate|]. destruct (is_empty_or_comment l); [apply IHl|apply NI]. }
        assert (NC : forall m lm c restm, skip_cursor iparse s' n l0 m lm c restm <> SIncl src tok).
        { intros. unfold skip_cursor.
          assert (G : (if (c + count_while is_space (skipn c lm) <? length lm)%nat
                       then instr_at iparse s' n m lm (c + count_while is_space (skipn c lm)) restm
                       else skip_lines iparse s' n (m + 1) (LineSeq n [l0]) restm) <> SIncl src tok).
          { destruct (c + count_while is_space (skipn c lm) <? length lm)%nat; [apply NI|apply NL]. }
          destruct (skipn c lm); [destruct restm|]; try exact G. discriminate. }
        destruct (skipn (count_while is_space l0) l0) as [|ch r0].
        + eapply NC; eassumption.
        + destruct (ch =? c_btick).
          * destruct (find_char c_btick r0); [eapply NC; eassumption|].
            destruct (find_btick_lines (n + 1) rest) as [[[[m lm] c] restm]|]; [eapply NC; eassumption|discriminate].
          * eapply NC; eassumption. }
    destruct s; cbn [elem_step] in H; try (eapply B; eassumption). unfold act_step in H. discriminate.
  Qed.
End Located.

(** * Chains *)
Section Walk.
  Variable fs : N -> text -> fsres.
  Variable contents : N -> option (list text).

  Lemma walk_app : forall c1 c2 fid dir display,
      walk fs contents fid dir display (c1 ++ c2) =
      match walk fs contents fid dir display c1 with
      | Some (fid', dir', d') => walk fs contents fid' dir' d' c2
      | None => None
      end.
  Proof.
    induction c1 as [|[p [ln lines]] c1 IH]; intros c2 fid dir display; cbn [app walk].
    - reflexivity.
    - destruct lines as [|t [|? ?]]; try reflexivity.
      destruct (contents fid) as [fl|]; try reflexivity.
      destruct (text_eqb p display && option_eqb lines_eqb (file_lines fl ln 1) (Some [t])); try reflexivity.
      destruct (split_ws t) as [|kw [|tok [|? ?]]]; try reflexivity.
      destruct (text_eqb kw including_token); try reflexivity.
      destruct (fs dir tok) as [|d' [[fid' dir']|]]; try reflexivity. apply IH.
  Qed.

  Lemma walk_step : forall fid dir display fl i l0 rest tok d' fid' dir',
      contents fid = Some fl -> at_pos fl i (l0 :: rest) -> split_ws l0 = [including_token; tok] ->
      fs dir tok = FsEntry d' (Some (fid', dir')) ->
      walk fs contents fid dir display [Loc display (LineSeq (N.of_nat (S i)) [l0])] = Some (fid', dir', d').
  Proof.
    intros fid dir display fl i l0 rest tok d' fid' dir' Hc Hpos Hsp Hfs. cbn [walk].
    rewrite Hc, text_eqb_refl, (file_lines_at fl i l0 rest 1 Hpos) by lia.
    cbn [firstn option_eqb andb]. rewrite lines_eqb_refl, Hsp, text_eqb_refl, Hfs. reflexivity.
  Qed.
End Walk.

(** * The whole reading *)
Section Reading.
  Variable iparse : sec -> text -> list text -> ires.
  Variable fs : N -> text -> fsres.
  Variable contents : N -> option (list text).
  Variable root rdir : N.
  Variable rpath : text.

  Definition Q (te : sec * element) : Prop := located_element fs contents root rdir rpath (fst te) (snd te) = true.

  (** the file [fid] (lines [fl]) is being read as [fi]: its chain leads to it *)
  Definition reading (fid : N) (fl : list text) (fi : fileinfo) : Prop :=
    contents fid = Some fl /\ walk fs contents root rdir rpath (fi_chain fi) = Some (fid, fi_dir fi, fi_path fi).

  Lemma flat_loop_located :
    forall finc fid fl fi, reading fid fl fi ->
    (forall cur i l0 rest tok spl,
        at_pos fl i (l0 :: rest) -> split_ws l0 = [including_token; tok] ->
        finc cur (LineSeq (N.of_nat (S i)) [l0]) tok = Ok spl -> Forall Q spl) ->
    forall fuel cur i ls out,
      at_pos fl i ls -> flat_loop iparse finc fuel fi cur (N.of_nat (S i)) ls = Ok out -> Forall Q out.
  Proof.
    intros finc fid fl fi [Hc Hw] Hinc. induction fuel as [|fuel IH]; intros cur i ls out Hpos H; cbn [flat_loop] in H.
    - discriminate.
    - destruct ls as [|l0 rest]; [injection H as <-; constructor|].
      destruct (at_eof (l0 :: rest)); [injection H as <-; constructor|].
      destruct (is_header_line l0).
      + destruct (header_of l0); try discriminate.
        replace (N.of_nat (S i) + 1) with (N.of_nat (S (S i))) in H by lia.
        eapply IH; [|eassumption]. eapply at_pos_next; eassumption.
      + destruct (elem_step iparse cur (N.of_nat (S i)) l0 rest) as [k src consumed|src tok|src| |] eqn:Est; try discriminate.
        * replace (N.of_nat (S i) + N.of_nat consumed) with (N.of_nat (S (consumed + i))) in H by lia.
          destruct (flat_loop iparse finc fuel fi cur (N.of_nat (S (consumed + i))) (skipn consumed (l0 :: rest))) as [out'|] eqn:Er;
            cbn [rbind] in H; [|discriminate].
          injection H as <-. constructor.
          -- unfold Q, located_element. cbn [fst snd e_chain e_path e_kind e_src]. rewrite Hw, text_eqb_refl, Hc. cbn [andb].
             eapply elem_step_src_ok; eassumption.
          -- eapply IH; [|eassumption]. apply at_pos_skip. assumption.
        * destruct (elem_step_incl iparse cur _ l0 rest src tok Est) as [-> Hsp].
          destruct (finc cur (LineSeq (N.of_nat (S i)) [l0]) tok) as [spl|] eqn:Ei; cbn [rbind] in H; [|discriminate].
          replace (N.of_nat (S i) + 1) with (N.of_nat (S (S i))) in H by lia.
          destruct (flat_loop iparse finc fuel fi cur (N.of_nat (S (S i))) rest) as [out'|] eqn:Er; cbn [rbind] in H; [|discriminate].
          injection H as <-. apply Forall_app. split.
          -- eapply Hinc; eassumption.
          -- eapply IH; [|eassumption]. eapply at_pos_next; eassumption.
  Qed.

  Lemma flat_include_located :
    forall depth chain_ids fid fl fi, reading fid fl fi ->
    forall cur i l0 rest tok spl,
      at_pos fl i (l0 :: rest) -> split_ws l0 = [including_token; tok] ->
      flat_include iparse fs contents depth chain_ids fi cur (LineSeq (N.of_nat (S i)) [l0]) tok = Ok spl -> Forall Q spl.
  Proof.
    induction depth as [|depth IH]; intros chain_ids fid fl fi Hr cur i l0 rest tok spl Hpos Hsp H; cbn [flat_include] in H.
    - discriminate.
    - destruct (fs (fi_dir fi) tok) as [|display [[fid' dir']|]] eqn:Hfs; try discriminate.
      destruct (existsb (N.eqb fid') chain_ids); try discriminate.
      destruct (contents fid') as [ls|] eqn:Hc'; try discriminate.
      destruct Hr as [Hc Hw].
      set (fi' := FileInfo display (fi_chain fi ++ [Loc (fi_path fi) (LineSeq (N.of_nat (S i)) [l0])]) dir') in *.
      assert (Hr' : reading fid' ls fi').
      { split; [assumption|]. unfold fi'. cbn [fi_chain fi_dir fi_path]. rewrite walk_app, Hw.
        eapply walk_step; eassumption. }
      eapply (flat_loop_located _ fid' ls fi' Hr') with (i := 0%nat); [|reflexivity|exact H].
      intros cur' i' l0' rest' tok' spl' Hpos' Hsp' H'. eapply IH; eassumption.
  Qed.

  Theorem flat_root_located :
    forall depth ls out,
      contents root = Some ls ->
      flat_root iparse fs contents depth root rpath rdir ls = Ok out -> Forall Q out.
  Proof.
    intros depth ls out Hc H. unfold flat_root in H.
    set (fi := FileInfo rpath [] rdir) in *.
    assert (Hr : reading root ls fi). { split; [assumption|reflexivity]. }
    eapply (flat_loop_located _ root ls fi Hr) with (i := 0%nat); [|reflexivity|exact H].
    intros cur i l0 rest tok spl Hpos Hsp H'. eapply flat_include_located; eassumption.
  Qed.
End Reading.

(** The same for the reader of the model. *)
Theorem source_location_exact :
  forall iparse fs contents depth root path dir ls d,
    contents root = Some ls ->
    parse_root iparse fs contents depth root path dir ls = Ok d ->
    forall s e, In e (d s) -> located_element fs contents root dir path s e = true.
Proof.
  intros iparse fs contents depth root path dir ls d Hc H s e Hin.
  pose proof (elements_by_section iparse fs contents depth root path dir ls) as HE. rewrite H in HE.
  destruct (flat_root iparse fs contents depth root path dir ls) as [out|] eqn:Ef; [|contradiction].
  pose proof (flat_root_located iparse fs contents root dir path depth ls out Hc Ef) as HQ.
  rewrite HE in Hin. unfold sections_of in Hin. apply in_map_iff in Hin as [[t e'] [He Hf]]. cbn in He. subst e'.
  apply filter_In in Hf as [Hf Ht]. cbn in Ht. apply sec_eqb_eq in Ht. subst t.
  rewrite Forall_forall in HQ. apply (HQ (s, e)). assumption.
Qed.
