(** * Source tie, target SymbolSyntax (C09): the delimiters of a symbol reference as written in symbol/symbol_syntax.py
    (Gen/Src_SymbolSyntax.v, translated from the current source) are the characters Model/Tok.v searches for.
    (The functions of symbol_syntax.py work on str with find / isalnum / while: outside the translator's subset.) *)
From Coq Require Import NArith List String Ascii.
From Exactly Require Import Lib.PyVal Model.Tok Gen.Src_SymbolSyntax.
Import ListNotations.

Definition codes (s : string) : list N := map N_of_ascii (list_ascii_of_string s).

Theorem tie_symbol_reference_delimiters :
  (exists s, py_symbol_syntax_SYMBOL_REFERENCE_BEGIN = VStr s /\ codes s = [AT; LBR]) /\
  (exists s, py_symbol_syntax_SYMBOL_REFERENCE_END = VStr s /\ codes s = [RBR; AT]).
Proof. split; eexists; split; reflexivity. Qed.
