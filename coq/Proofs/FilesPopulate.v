(** C15, populate side: entries are applied in the listed order; a clash is a HARD_ERROR that
    leaves the tree as it was; the name validator; frame / locality of the file-system primitives
    and of [make] / [populate] (= nothing outside of the populated directory is touched). *)
From Coq Require Import NArith List Bool Arith Lia.
From Exactly Require Import Lib.Tree Model.Files Spec.C15.
Import ListNotations.

(* ------------------------------------------------------------------------------------------ *)
(** * Induction on entries (nested through the lists of [EDirList]) *)
Section EntryInd.
  Variable P : entry -> Prop.
  Hypothesis HFile : forall nm m, P (EFile nm m).
  Hypothesis HDir : forall nm, P (EDir nm).
  Hypothesis HList : forall nm md es, Forall P es -> P (EDirList nm md es).
  Hypothesis HCopy : forall nm md src, P (EDirCopy nm md src).

  Fixpoint entry_ind' (e : entry) : P e :=
    match e with
    | EFile nm m => HFile nm m
    | EDir nm => HDir nm
    | EDirList nm md es =>
        HList nm md es ((fix go (es : list entry) : Forall P es :=
                           match es with
                           | [] => Forall_nil _
                           | e' :: es' => Forall_cons e' (entry_ind' e') (go es')
                           end) es)
    | EDirCopy nm md src => HCopy nm md src
    end.
End EntryInd.

(* ------------------------------------------------------------------------------------------ *)
(** * [populate] in order *)

Lemma populate_app : forall es1 es2 base st,
  populate (es1 ++ es2) base st =
  match populate es1 base st with
  | (st', Done) => populate es2 base st'
  | r => r
  end.
Proof.
  induction es1 as [|e es1 IH]; intros es2 base st; cbn [app populate].
  - reflexivity.
  - destruct (make e base st) as [st' [| |]]; [apply IH | reflexivity | reflexivity].
Qed.

(** The loop inside [make] for a nested list is [populate]. *)
Lemma inner_loop_populate : forall es p st,
  (fix go (es : list entry) (st : tree) : tree * outcome :=
     match es with
     | [] => (st, Done)
     | e' :: es' => match make e' p st with
                    | (st', Done) => go es' st'
                    | r => r
                    end
     end) es st = populate es p st.
Proof. induction es as [|e es IH]; intros p st; cbn [populate]; [reflexivity|]. destruct (make e p st) as [st' [| |]]; [apply IH | reflexivity | reflexivity]. Qed.

Definition name_escapes (nm : name) : bool := posix_abs nm || mem_name DOTDOT (posix_parts nm).

Definition append_text (c : list N) : tree -> option tree :=
  fun t => match t with File c0 => Some (File (c0 ++ c)) | _ => None end.

(** [make], one equation per form of FILE-SPEC (the nested loop written as [populate]). *)
Lemma make_eq : forall e base st,
  make e base st =
  let p := base ++ posix_parts (entry_name e) in
  if name_escapes (entry_name e) then (st, OutsideModel) else
  match e with
  | EFile _ None => create p (File []) st
  | EFile _ (Some (Create, c)) => create p (File c) st
  | EFile _ (Some (Append, c)) =>
      match stat_existing p st with
      | ExFile _ => match alter p (append_text c) st with
                    | Some st1 => (st1, Done)
                    | None => (st, HardError)
                    end
      | ExViaLink => (st, OutsideModel)
      | ExDir | ExBad => (st, HardError)
      end
  | EDir _ => create p (Dir []) st
  | EDirList _ Create es =>
      match create p (Dir []) st with
      | (st1, Done) => populate es p st1
      | r => r
      end
  | EDirList _ Append es =>
      match stat_existing p st with
      | ExDir => populate es p st
      | ExViaLink => (st, OutsideModel)
      | ExFile _ | ExBad => (st, HardError)
      end
  | EDirCopy _ Create src =>
      match create p (Dir []) st with
      | (st1, Done) => copy_into src p st1
      | r => r
      end
  | EDirCopy _ Append src =>
      match stat_existing p st with
      | ExDir => copy_into src p st
      | ExViaLink => (st, OutsideModel)
      | ExFile _ | ExBad => (st, HardError)
      end
  end.
Proof.
  intros e base st. unfold name_escapes.
  destruct e as [nm [[[|] c]|]|nm|nm [|] es|nm [|] src]; cbn [make entry_name];
    destruct (posix_abs nm || mem_name DOTDOT (posix_parts nm)); try reflexivity.
  - destruct (create (base ++ posix_parts nm) (Dir []) st) as [st1 [| |]]; try reflexivity. apply inner_loop_populate.
  - destruct (stat_existing (base ++ posix_parts nm) st); try reflexivity. apply inner_loop_populate.
Qed.

(* ------------------------------------------------------------------------------------------ *)
(** * Names: what the validator guarantees *)

Lemma split_slash_nonempty : forall s, split_slash s <> [].
Proof.
  induction s as [|c s IH]; cbn; [discriminate|].
  destruct (N.eqb c SLASH); [discriminate|]. destruct (split_slash s); [contradiction | discriminate].
Qed.

Lemma split_slash_no_slash : forall s, Forall (fun c => ~ In SLASH c) (split_slash s).
Proof.
  induction s as [|c s IH]; cbn.
  - constructor; [intros [] | constructor].
  - destruct (N.eqb c SLASH) eqn:E.
    + constructor; [intros [] | exact IH].
    + destruct (split_slash s) as [|x r]; [constructor; [|constructor] |].
      * intros [H|[]]. subst c. rewrite N.eqb_refl in E. discriminate.
      * inversion IH as [|? ? Hx Hr]; subst. constructor; [|exact Hr].
        intros [H|H]; [subst c; rewrite N.eqb_refl in E; discriminate | contradiction].
Qed.

(** A component of [PurePosixPath(s).parts] is a non-empty name other than ["."] without ["/"]. *)
Definition plain_component (c : name) : Prop := c <> [] /\ c <> [DOT] /\ ~ In SLASH c.

Lemma posix_parts_plain : forall s, Forall plain_component (posix_parts s).
Proof.
  intros s. unfold posix_parts. apply Forall_forall. intros c Hc. apply filter_In in Hc as [Hin Hf].
  apply negb_true_iff, orb_false_iff in Hf as [H1 H2].
  apply name_eqb_neq in H1. apply name_eqb_neq in H2.
  repeat split; try assumption.
  pose proof (split_slash_no_slash s) as F. rewrite Forall_forall in F. apply F. exact Hin.
Qed.

Lemma mem_name_false : forall n l, mem_name n l = false <-> ~ In n l.
Proof.
  intros n l. unfold mem_name. split.
  - intros H Hin. assert (existsb (name_eqb n) l = true) as E; [|congruence].
    apply existsb_exists. exists n. split; [exact Hin | apply name_eqb_refl].
  - intros H. destruct (existsb (name_eqb n) l) eqn:E; [|reflexivity].
    apply existsb_exists in E as [x [Hx Ex]]. apply name_eqb_eq in Ex. subst x. contradiction.
Qed.

(** file_list.py [_IsValidPosixPath] accepts only relative names all of whose components are plain
    names different from [".."]. *)
Lemma valid_name_sound : forall s,
  valid_name s = true ->
  s <> [] /\ posix_abs s = false /\ ~ In DOTDOT (posix_parts s) /\ Forall plain_component (posix_parts s).
Proof.
  intros s H. unfold valid_name in H. destruct s as [|c s]; [discriminate|].
  destruct (mem_char COLON (c :: s) || mem_char SEMICOLON (c :: s)); [discriminate|].
  destruct (posix_abs (c :: s)) eqn:Ea; [discriminate|].
  destruct (mem_name DOTDOT (posix_parts (c :: s))) eqn:Ed; [discriminate|].
  repeat split; [discriminate | apply mem_name_false; exact Ed | apply posix_parts_plain].
Qed.

Lemma valid_name_not_escaping : forall s, valid_name s = true -> name_escapes s = false.
Proof.
  intros s H. apply valid_name_sound in H as (_ & Ha & Hd & _). unfold name_escapes. rewrite Ha.
  apply mem_name_false in Hd. rewrite Hd. reflexivity.
Qed.

(* ------------------------------------------------------------------------------------------ *)
(** * Association lists, [get] / [put] *)

Lemma lookup_update_same : forall (n : name) (v : tree) es, lookup n es <> None -> lookup n (update n v es) = Some v.
Proof.
  induction es as [|[k w] es IH]; cbn; intros H; [contradiction|].
  destruct (name_eqb k n) eqn:E; cbn; rewrite E; [reflexivity | apply IH; exact H].
Qed.

Lemma update_update : forall (n : name) (v w : tree) es, update n v (update n w es) = update n v es.
Proof.
  induction es as [|[k x] es IH]; cbn; [reflexivity|].
  destruct (name_eqb k n) eqn:E; cbn; rewrite E; [reflexivity | rewrite IH; reflexivity].
Qed.

Lemma update_same : forall (n : name) (v : tree) es, lookup n es = Some v -> update n v es = es.
Proof.
  induction es as [|[k x] es IH]; cbn; intros H; [reflexivity|].
  destruct (name_eqb k n) eqn:E; [injection H as ->; reflexivity | rewrite IH; [reflexivity | exact H]].
Qed.

Lemma get_app : forall p q t, get (p ++ q) t = match get p t with Some x => get q x | None => None end.
Proof.
  induction p as [|n p IH]; intros q t; cbn [app get]; [reflexivity|].
  destruct t as [c|es|l]; try reflexivity. destruct (lookup n es); [apply IH | reflexivity].
Qed.

Lemma get_put : forall p t x y, get p t = Some x -> get p (put p y t) = Some y.
Proof.
  induction p as [|n p IH]; intros t x y H; cbn [get put] in *; [reflexivity|].
  destruct t as [c|es|l]; try discriminate. destruct (lookup n es) as [c|] eqn:E; [|discriminate].
  cbn [get]. rewrite lookup_update_same; [|congruence]. eapply IH. exact H.
Qed.

Lemma put_put : forall p t x y, put p x (put p y t) = put p x t.
Proof.
  induction p as [|n p IH]; intros t x y; cbn [put]; [reflexivity|].
  destruct t as [c|es|l]; try reflexivity. destruct (lookup n es) as [c|] eqn:E; cbn [put].
  - rewrite lookup_update_same; [|congruence]. rewrite IH, update_update. reflexivity.
  - rewrite E. reflexivity.
Qed.

Lemma put_get_id : forall p t x, get p t = Some x -> put p x t = t.
Proof.
  induction p as [|n p IH]; intros t x H; cbn [get put] in *; [congruence|].
  destruct t as [c|es|l]; try discriminate. destruct (lookup n es) as [c|] eqn:E; [|discriminate].
  rewrite (IH _ _ H). rewrite update_same; [reflexivity | exact E].
Qed.

Lemma put_app : forall p q t x y, get p t = Some x -> put (p ++ q) y t = put p (put q y x) t.
Proof.
  induction p as [|n p IH]; intros q t x y H; cbn [app get put] in *; [congruence|].
  destruct t as [c|es|l]; try discriminate. destruct (lookup n es) as [c|] eqn:E; [|discriminate].
  rewrite (IH _ _ _ _ H). reflexivity.
Qed.

(* ------------------------------------------------------------------------------------------ *)
(** * Frame lemmas: an operation at [base ++ p] on [st] is the operation at [p] on the subtree
      at [base], put back *)

Lemma lstat_frame : forall base p st sub, get base st = Some sub -> lstat (base ++ p) st = lstat p sub.
Proof.
  induction base as [|n b IH]; intros p st sub H; cbn [app get] in *; [congruence|].
  destruct st as [c|es|l]; try discriminate. destruct (lookup n es) as [c|] eqn:E; [|discriminate].
  cbn [lstat]. rewrite E. apply IH. exact H.
Qed.

Definition mk_put (base : path) (st : tree) (r : mk) : mk :=
  match r with MOk s' => MOk (put base s' st) | r => r end.

Lemma mkdirs_frame : forall base p st sub, get base st = Some sub -> mkdirs (base ++ p) st = mk_put base st (mkdirs p sub).
Proof.
  induction base as [|n b IH]; intros p st sub H; cbn [app get] in *.
  - injection H as ->. unfold mk_put. destruct (mkdirs p sub); reflexivity.
  - destruct st as [c|es|l]; try discriminate. destruct (lookup n es) as [c|] eqn:E; [|discriminate].
    cbn [mkdirs]. rewrite E. rewrite (IH p c sub H). unfold mk_put. destruct (mkdirs p sub); cbn [put]; rewrite ?E; reflexivity.
Qed.

Lemma alter_frame : forall base p f st sub, get base st = Some sub ->
  alter (base ++ p) f st = option_map (fun s' => put base s' st) (alter p f sub).
Proof.
  induction base as [|n b IH]; intros p f st sub H; cbn [app get] in *.
  - injection H as ->. destruct (alter p f sub); reflexivity.
  - destruct st as [c|es|l]; try discriminate. destruct (lookup n es) as [c|] eqn:E; [|discriminate].
    cbn [alter]. rewrite E. rewrite (IH p f c sub H). destruct (alter p f sub); cbn [option_map put]; rewrite ?E; reflexivity.
Qed.

Lemma split_last_None : forall p, split_last p = None -> p = [].
Proof.
  induction p as [|n p IH]; cbn; intros H; [reflexivity|].
  destruct p as [|m p]; [discriminate|]. destruct (split_last (m :: p)) as [[q l]|]; [discriminate|].
  discriminate (IH eq_refl).
Qed.

Lemma split_last_app : forall base p q l, split_last p = Some (q, l) -> split_last (base ++ p) = Some (base ++ q, l).
Proof.
  induction base as [|n b IH]; intros p q l H; cbn [app]; [exact H|].
  specialize (IH p q l H). cbn [split_last]. destruct (b ++ p) as [|m r] eqn:E.
  - destruct b; [|discriminate]. cbn in E. subst p. discriminate.
  - rewrite IH. reflexivity.
Qed.

Definition frame (base : path) (st : tree) (r : tree * outcome) : tree * outcome := (put base (fst r) st, snd r).

Lemma create_frame : forall base p new st sub, get base st = Some sub ->
  create (base ++ p) new st = frame base st (create p new sub).
Proof.
  intros base p new st sub H. unfold create, frame. rewrite (lstat_frame _ _ _ _ H).
  destruct (lstat p sub) as [t| | |] eqn:El; cbn [fst snd]; try (rewrite (put_get_id _ _ _ H); reflexivity).
  - (* LNoEnt *)
    destruct (split_last p) as [[q l]|] eqn:Es.
    + rewrite (split_last_app _ _ _ _ Es). rewrite (mkdirs_frame _ _ _ _ H). unfold mk_put.
      destruct (mkdirs q sub) as [s1| |]; cbn [fst snd]; try (rewrite (put_get_id _ _ _ H); reflexivity).
      rewrite (alter_frame base q _ (put base s1 st) s1 (get_put _ _ _ _ H)).
      destruct (alter q (add_entry l new) s1); cbn [option_map fst snd]; rewrite ?put_put; reflexivity.
    + apply split_last_None in Es. subst p. discriminate.
  - (* LNotDir *)
    destruct (split_last p) as [[q l]|] eqn:Es.
    + rewrite (split_last_app _ _ _ _ Es). rewrite (mkdirs_frame _ _ _ _ H). unfold mk_put.
      destruct (mkdirs q sub) as [s1| |]; cbn [fst snd]; try (rewrite (put_get_id _ _ _ H); reflexivity).
      rewrite (alter_frame base q _ (put base s1 st) s1 (get_put _ _ _ _ H)).
      destruct (alter q (add_entry l new) s1); cbn [option_map fst snd]; rewrite ?put_put; reflexivity.
    + apply split_last_None in Es. subst p. discriminate.
Qed.

Lemma stat_existing_frame : forall base p st sub, get base st = Some sub ->
  stat_existing (base ++ p) st = stat_existing p sub.
Proof. intros. unfold stat_existing. rewrite (lstat_frame _ _ _ _ H). reflexivity. Qed.

Lemma copy_into_frame : forall src base p st sub, get base st = Some sub ->
  copy_into src (base ++ p) st = frame base st (copy_into src p sub).
Proof.
  induction src as [|[n s] src IH]; intros base p st sub H; cbn [copy_into]; unfold frame in *.
  - cbn [fst snd]. rewrite (put_get_id _ _ _ H). reflexivity.
  - rewrite <- app_assoc. rewrite (lstat_frame _ _ _ _ H).
    destruct (lstat (p ++ [n]) sub); cbn [fst snd]; try (rewrite (put_get_id _ _ _ H); reflexivity).
    destruct (deref s) as [[c|] er]; cbn [fst snd]; try (rewrite (put_get_id _ _ _ H); reflexivity).
    rewrite (alter_frame _ _ _ _ _ H).
    destruct (alter p (add_entry n c) sub) as [s1|]; cbn [option_map fst snd]; try (rewrite (put_get_id _ _ _ H); reflexivity).
    destruct er; cbn [fst snd]; [reflexivity|].
    rewrite (IH base p (put base s1 st) s1 (get_put _ _ _ _ H)). cbn [fst snd]. rewrite put_put. reflexivity.
Qed.

(** [make] and [populate] at [base ++ b] only see, and only change, the subtree at [base]. *)
Definition make_frame_stmt (e : entry) : Prop :=
  forall base b st sub, get base st = Some sub -> make e (base ++ b) st = frame base st (make e b sub).

Lemma populate_frame_of : forall es, Forall make_frame_stmt es ->
  forall base b st sub, get base st = Some sub -> populate es (base ++ b) st = frame base st (populate es b sub).
Proof.
  induction es as [|e es IH]; intros F base b st sub H; cbn [populate]; unfold frame.
  - cbn [fst snd]. rewrite (put_get_id _ _ _ H). reflexivity.
  - inversion F as [|? ? He Fes]; subst. rewrite (He base b st sub H). unfold frame.
    destruct (make e b sub) as [s1 [| |]]; cbn [fst snd]; try reflexivity.
    rewrite (IH Fes base b (put base s1 st) s1 (get_put _ _ _ _ H)). unfold frame. rewrite put_put. reflexivity.
Qed.

Lemma make_frame : forall e, make_frame_stmt e.
Proof.
  induction e as [nm m|nm|nm md es IH|nm md src] using entry_ind'; intros base b st sub H; rewrite !make_eq; cbn zeta;
    rewrite <- !app_assoc; cbn [entry_name];
    (destruct (name_escapes nm); [unfold frame; cbn [fst snd]; rewrite (put_get_id _ _ _ H); reflexivity|]).
  - destruct m as [[[|] c]|].
    + apply create_frame. exact H.
    + rewrite (stat_existing_frame _ _ _ _ H).
      destruct (stat_existing (b ++ posix_parts nm) sub); unfold frame; cbn [fst snd]; try (rewrite (put_get_id _ _ _ H); reflexivity).
      rewrite (alter_frame _ _ _ _ _ H). destruct (alter (b ++ posix_parts nm) (append_text c) sub); cbn [option_map fst snd];
        [reflexivity | rewrite (put_get_id _ _ _ H); reflexivity].
    + apply create_frame. exact H.
  - apply create_frame. exact H.
  - destruct md.
    + rewrite (create_frame _ _ _ _ _ H). unfold frame at 1.
      destruct (create (b ++ posix_parts nm) (Dir []) sub) as [s1 [| |]]; cbn [fst snd]; try reflexivity.
      rewrite (populate_frame_of es IH base (b ++ posix_parts nm) (put base s1 st) s1 (get_put _ _ _ _ H)).
      unfold frame. rewrite put_put. reflexivity.
    + rewrite (stat_existing_frame _ _ _ _ H).
      destruct (stat_existing (b ++ posix_parts nm) sub); unfold frame; cbn [fst snd]; try (rewrite (put_get_id _ _ _ H); reflexivity).
      apply (populate_frame_of es IH). exact H.
  - destruct md.
    + rewrite (create_frame _ _ _ _ _ H). unfold frame at 1.
      destruct (create (b ++ posix_parts nm) (Dir []) sub) as [s1 [| |]]; cbn [fst snd]; try reflexivity.
      rewrite (copy_into_frame src base (b ++ posix_parts nm) (put base s1 st) s1 (get_put _ _ _ _ H)).
      unfold frame. rewrite put_put. reflexivity.
    + rewrite (stat_existing_frame _ _ _ _ H).
      destruct (stat_existing (b ++ posix_parts nm) sub); unfold frame; cbn [fst snd]; try (rewrite (put_get_id _ _ _ H); reflexivity).
      apply copy_into_frame. exact H.
Qed.

Theorem populate_frame : forall es base b st sub, get base st = Some sub ->
  populate es (base ++ b) st = frame base st (populate es b sub).
Proof.
  intros es. apply populate_frame_of. apply Forall_forall. intros e _. apply make_frame.
Qed.

(** Confinement: populating the directory at [base] changes nothing but the subtree at [base], and
    what it does there does not depend on anything else. *)
Corollary populate_confined : forall es base st sub, get base st = Some sub ->
  populate es base st = (put base (fst (populate es [] sub)) st, snd (populate es [] sub)).
Proof.
  intros es base st sub H. pose proof (populate_frame es base [] st sub H) as E. rewrite app_nil_r in E. exact E.
Qed.

(* ------------------------------------------------------------------------------------------ *)
(** * A clash is a HARD_ERROR, and nothing is changed *)

Lemma create_clash : forall p new st t, lstat p st = LFound t -> create p new st = (st, HardError).
Proof. intros p new st t H. unfold create. rewrite H. reflexivity. Qed.
