(** Proofs about the routing model of Model/Errors.v (property C18, part a). *)
From Coq Require Import ZArith NArith List Bool Lia.
From Exactly Require Import Model.Outcome Model.Errors.
Import ListNotations.

(** *** The enumerations are complete *)
Lemma all_pyexc_complete : forall c, In c all_pyexc.
Proof. intros c. destruct c; unfold all_pyexc; repeat (first [left; reflexivity | right]). Qed.

Lemma all_payload_complete : forall p, In p all_payload.
Proof.
  intros p. destruct p as [|a|s]; [|destruct a|destruct s]; vm_compute;
    repeat (first [left; reflexivity | right]).
Qed.

Lemma all_exc_complete : forall e, In e all_exc.
Proof.
  intros [c p]. unfold all_exc. apply in_flat_map. exists c. split; [apply all_pyexc_complete|].
  apply in_map. apply all_payload_complete.
Qed.

Lemma all_site_complete : forall s, In s all_site.
Proof. intros s. destruct s; unfold all_site; repeat (first [left; reflexivity | right]). Qed.

Lemma all_tc_status_complete : forall m, In m all_tc_status.
Proof. intros m. destruct m; unfold all_tc_status; repeat (first [left; reflexivity | right]). Qed.

(** Lifting a boolean check over the three finite domains. *)
Definition forall_mse (f : tc_status -> site -> exc -> bool) : bool :=
  forallb (fun m => forallb (fun s => forallb (fun e => f m s e) all_exc) all_site) all_tc_status.

Lemma forall_mse_spec : forall f, forall_mse f = true -> forall m s e, f m s e = true.
Proof.
  intros f H m s e. unfold forall_mse in H.
  rewrite forallb_forall in H. specialize (H m (all_tc_status_complete m)).
  rewrite forallb_forall in H. specialize (H s (all_site_complete s)).
  rewrite forallb_forall in H. exact (H e (all_exc_complete e)).
Qed.

Definition is_ret {A} (r : res A) : bool := match r with Ret _ => true | Raise _ => false end.

Definition ordinary (e : exc) : bool := wf_exc e && subclass (e_cls e) EException.

(** *** Routing is total on subclasses of Exception *)
Lemma routing_total_b :
  forall_mse (fun m s e => implb (ordinary e) (is_ret (route m s e))) = true.
Proof. vm_compute. reflexivity. Qed.

Lemma routing_total : forall m s e,
  wf_exc e = true -> subclass (e_cls e) EException = true -> exists r, route m s e = Ret r.
Proof.
  intros m s e Hw Hs. pose proof (forall_mse_spec _ routing_total_b m s e) as H. cbv beta in H.
  unfold ordinary in H. rewrite Hw, Hs in H. cbn in H.
  destruct (route m s e) as [r|x]; [exists r; reflexivity | discriminate].
Qed.

Lemma routing_suite_total_b :
  forall_mse (fun m s e => implb (ordinary e) (is_ret (route_suite m s e))) = true.
Proof. vm_compute. reflexivity. Qed.

Lemma routing_suite_total : forall m s e,
  wf_exc e = true -> subclass (e_cls e) EException = true -> exists r, route_suite m s e = Ret r.
Proof.
  intros m s e Hw Hs. pose proof (forall_mse_spec _ routing_suite_total_b m s e) as H. cbv beta in H.
  unfold ordinary in H. rewrite Hw, Hs in H. cbn in H.
  destruct (route_suite m s e) as [r|x]; [exists r; reflexivity | discriminate].
Qed.

(** What is not an Exception is never caught: it leaves the program. *)
Lemma non_exception_escapes_b :
  forall_mse (fun m s e => implb (wf_exc e && negb (subclass (e_cls e) EException))
                                 (negb (is_ret (route m s e)) && negb (is_ret (route_suite m s e)))) = true.
Proof. vm_compute. reflexivity. Qed.

Lemma non_exception_escapes : forall m s e,
  wf_exc e = true -> subclass (e_cls e) EException = false ->
  (exists x, route m s e = Raise x) /\ (exists x, route_suite m s e = Raise x).
Proof.
  intros m s e Hw Hs. pose proof (forall_mse_spec _ non_exception_escapes_b m s e) as H. cbv beta in H.
  rewrite Hw, Hs in H. cbn in H.
  destruct (route m s e) as [r|x]; [discriminate|].
  destruct (route_suite m s e) as [r'|x']; [discriminate|].
  split; eexists; reflexivity.
Qed.

(** *** Whatever an instruction parser (or the name extractor) raises is a syntax error *)
Definition pres_res_is (r : res pres) (p : pres) : bool :=
  match r with Ret q => pres_eqb q p | Raise _ => false end.

Lemma pres_eqb_eq : forall a b, pres_eqb a b = true -> a = b.
Proof.
  intros [a|s|] [b|t|]; cbn; try discriminate; try reflexivity.
  - destruct a, b; cbn; intros; try discriminate; reflexivity.
  - destruct s, t; cbn; intros; try discriminate; reflexivity.
Qed.

Lemma pres_res_is_eq : forall r p, pres_res_is r p = true -> r = Ret p.
Proof. intros [q|x] p H; cbn in H; [apply pres_eqb_eq in H; congruence | discriminate]. Qed.

Lemma parse_time_b :
  forall_mse (fun m s e => implb (ordinary e)
     (match s with
      | SInstrParse | SNameExtract => pres_res_is (route m s e) (RAccess ACC_SYNTAX_ERROR)
      | _ => true
      end)) = true.
Proof. vm_compute. reflexivity. Qed.

Lemma parse_time_errors_are_syntax_errors : forall m e,
  wf_exc e = true -> subclass (e_cls e) EException = true ->
  route m SInstrParse e = Ret (RAccess ACC_SYNTAX_ERROR) /\
  route m SNameExtract e = Ret (RAccess ACC_SYNTAX_ERROR).
Proof.
  intros m e Hw Hs. split.
  - pose proof (forall_mse_spec _ parse_time_b m SInstrParse e) as H. cbv beta in H.
    unfold ordinary in H. rewrite Hw, Hs in H. cbn [implb andb] in H. apply pres_res_is_eq. exact H.
  - pose proof (forall_mse_spec _ parse_time_b m SNameExtract e) as H. cbv beta in H.
    unfold ordinary in H. rewrite Hw, Hs in H. cbn [implb andb] in H. apply pres_res_is_eq. exact H.
Qed.

(** *** HardErrorException raised by a step is HARD_ERROR, in every phase and with every [status] *)
Definition is_step_site (s : site) : bool :=
  match s with SConfInstr | SInstrStep | SActParse | SActStep => true | _ => false end.

(** With [status = SKIP] nothing after the [conf] phase runs. *)
Definition reachable (m : tc_status) (s : site) : bool :=
  match m, s with
  | TSkip, (SInstrStep | SActParse | SActStep | SSdsSetup) => false
  | _, _ => true
  end.

Lemma hard_error_b :
  forallb (fun m => forallb (fun s => implb (is_step_site s && reachable m s)
     (pres_res_is (route m s (Exc EHardError PNone)) (RExecuted HARD_ERROR))) all_site) all_tc_status = true.
Proof. vm_compute. reflexivity. Qed.

Lemma hard_error_is_hard_error : forall m s,
  is_step_site s = true -> reachable m s = true ->
  route m s (Exc EHardError PNone) = Ret (RExecuted HARD_ERROR).
Proof.
  intros m s Hs Hr. pose proof hard_error_b as H.
  rewrite forallb_forall in H. specialize (H m (all_tc_status_complete m)).
  rewrite forallb_forall in H. specialize (H s (all_site_complete s)).
  rewrite Hs, Hr in H. cbn [implb andb] in H. apply pres_res_is_eq. exact H.
Qed.

(** *** INTERNAL_ERROR comes only from an execution site and never from a HardErrorException;
        apart from a PhaseStepFailureException that already carries INTERNAL_ERROR, the step
        raised something that is not a HardErrorException. *)
Definition is_parse_site (s : site) : bool :=
  match s with SNameExtract | SInstrParse => true | _ => false end.

Lemma internal_b :
  forall_mse (fun m s e => implb (wf_exc e)
     (match route m s e with
      | Ret r => implb (is_internal r)
                   (negb (is_parse_site s) && implb (is_step_site s) (negb (subclass (e_cls e) EHardError)))
      | Raise _ => true
      end)) = true.
Proof. vm_compute. reflexivity. Qed.

Lemma internal_error_only_from_non_hard_error : forall m s e r,
  wf_exc e = true -> route m s e = Ret r -> is_internal r = true ->
  is_parse_site s = false /\ (is_step_site s = true -> subclass (e_cls e) EHardError = false).
Proof.
  intros m s e r Hw Hr Hi. pose proof (forall_mse_spec _ internal_b m s e) as H. cbv beta in H.
  rewrite Hw, Hr, Hi in H. cbn [implb] in H. apply andb_true_iff in H as [H1 H2].
  split.
  - destruct (is_parse_site s); [discriminate | reflexivity].
  - intros Hs. rewrite Hs in H2. cbn [implb] in H2.
    destruct (subclass (e_cls e) EHardError); [discriminate | reflexivity].
Qed.

(** The actor's ParseException is a syntax error of the act phase. *)
Lemma act_parse_exception_is_syntax_error : forall m,
  m <> TSkip -> route m SActParse (Exc EActorParseException PNone) = Ret (RExecuted SYNTAX_ERROR).
Proof. intros m Hm; destruct m; try (exfalso; apply Hm; reflexivity); vm_compute; reflexivity. Qed.

(** [subclass] is what the parent chain says (fuel 5 reaches the root from every class). *)
Lemma subclass_refl : forall c, subclass c c = true.
Proof. intros c; destruct c; vm_compute; reflexivity. Qed.

Lemma ancestors_reach_root : forall c, existsb (pyexc_eqb EBaseException) (ancestors 5 c) = true.
Proof. intros c; destruct c; vm_compute; reflexivity. Qed.

Lemma pyexc_eqb_eq : forall a b, pyexc_eqb a b = true <-> a = b.
Proof.
  intros a b. split.
  - unfold pyexc_eqb. intros H. apply N.eqb_eq in H. destruct a; destruct b; try reflexivity; vm_compute in H; discriminate.
  - intros ->. unfold pyexc_eqb. apply N.eqb_refl.
Qed.
