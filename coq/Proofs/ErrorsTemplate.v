(** Proofs about the replacement-template model (property C18, part c). *)
From Coq Require Import ZArith NArith List Bool Lia ZifyBool.
From Exactly Require Import Model.Outcome Model.Errors.
Import ListNotations.
Local Open Scope N_scope.

(** With the handler of commit 57480c0 an invalid template is a HARD_ERROR of the step. *)
Lemma replacement_never_internal : forall ng names ident t,
  replace_step true ng names ident t = SOk \/
  replace_step true ng names ident t = SFail FHard \/
  (replace_step true ng names ident t = SUnknown /\ parse_template ng names ident t = TOracleMiss).
Proof.
  intros ng names ident t. unfold replace_step.
  destruct (parse_template ng names ident t).
  - left; reflexivity.
  - right; left; vm_compute; reflexivity.
  - right; left; vm_compute; reflexivity.
  - right; right; split; reflexivity.
Qed.

(** An ASCII-only template never consults the oracle. *)
Lemma group_name_ascii_no_miss : forall ng names ident name rest k,
  k <> TOracleMiss -> forallb (fun c => c <? 128) name = true ->
  group_name ng names ident name rest k <> TOracleMiss.
Proof.
  intros ng names ident name rest k Hk Ha. unfold group_name, addgroup.
  destruct name as [|c name']; [discriminate|].
  destruct (ttext_eqb rest [BSL]); [discriminate|].
  destruct (forallb is_digit (c :: name')).
  - destruct (ng <? _); [discriminate | exact Hk].
  - rewrite Ha. destruct (is_ascii_ident (c :: name')); [|discriminate].
    destruct (existsb _ names); [exact Hk | discriminate].
Qed.

(** Before the repair the exception left [process]: INTERNAL_ERROR. ['\6'] with no group;
    ['\g<foo>'] raises IndexError. *)
Lemma prefix_replacement_internal :
  replace_step false 0 [] [] [92; 54] = SFail FInternal /\
  replace_step false 1 [] [] [92; 103; 60; 102; 111; 111; 62] = SFail FInternal /\
  parse_template 1 [] [] [92; 103; 60; 102; 111; 111; 62] = TIndexError /\
  replace_step true 0 [] [] [92; 54] = SFail FHard.
Proof. vm_compute. repeat split; reflexivity. Qed.

(** A template without backslash is always valid. *)
Lemma template_without_backslash_ok : forall ng names ident t,
  forallb (fun c => negb (N.eqb c BSL)) t = true -> parse_template ng names ident t = TOk.
Proof.
  intros ng names ident t. unfold parse_template. induction t as [|c t IH]; intros H; cbn in *.
  - reflexivity.
  - apply andb_true_iff in H as [Hc Ht]. destruct (c =? BSL); [discriminate|]. apply IH; exact Ht.
Qed.

(** [\d] at the end of a template (d = 1..9) refers to group d: valid iff the regex has that group. *)
Lemma template_group_reference : forall ng names ident d,
  is_digit d = true -> d <> 48 ->
  parse_template ng names ident [BSL; d] = if ng <? digit_val d then TReError else TOk.
Proof.
  intros ng names ident d Hd H0. unfold parse_template, is_digit in *. cbn.
  assert (E1 : (d =? 103) = false) by lia. assert (E2 : (d =? 48) = false) by lia.
  rewrite E1, E2. unfold is_digit. rewrite Hd. unfold addgroup. reflexivity.
Qed.
