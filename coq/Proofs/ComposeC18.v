(** * C18 o C01: the exception-routing model ([Model/Errors.v]: except-chains of [execute_element],
    [execute_action_and_catch_internal_error_exception], [ActHelper.parse], the executor, the
    processor) and the executor model ([Model/Exec.v]: behaviours of steps) agree.

    Vocabularies: C18 speaks of a [site] and an exception [exc] (class + payload); Exec of a step
    [(phase, stepk, index)] and a behaviour [beh] ("raises HardErrorException" [BHardRaise],
    "raises any other exception" [BExn], "the actor raises ParseException" [BSyntax]).  The
    translations [site_of] and [raise_beh] below are defined from the class hierarchy only
    ([subclass]), not from the except-chains. *)
From Coq Require Import ZArith List Bool Arith Lia.
From Exactly Require Import Lib.Harness Model.Outcome Model.Exec Model.Errors Spec.C01 Spec.C02
  Proofs.ExecSpec Proofs.ExecCorollaries Proofs.OutcomeTable Proofs.PredOnModelC01 Proofs.Compose Proofs.ComposeLib.
Import ListNotations.
Local Arguments schedule : simpl never.

(** ** A test case whose only non-OK behaviour is step [k] of instruction [idx] of phase [p] *)
Definition single_fault (tc : testcase) (p : phase) (k : stepk) (idx : nat) (b : beh) : Prop :=
  (exists i, nth_error (instrs_of tc p) idx = Some i) /\
  forall p' k' j i, nth_error (instrs_of tc p') j = Some i ->
    i k' = if phase_eqb p' p && stepk_eqb k' k && Nat.eqb j idx then b else BOk.

(** is the step executed at all (given that nothing before it fails)? *)
Definition executed (tc : testcase) (p : phase) (k : stepk) : bool :=
  pk_eqb (p, k) (Conf, SMain) ||
  (negb (tc_status_eqb (tc_status tc) TSkip) &&
   (existsb (pk_eqb (p, k)) (plan_of (tc_act_only tc)) || pk_eqb (p, k) (Cleanup, SMain))).

Lemma ffail_single p' k' prev st tgt : forall (l : list instr) s,
  (forall j i, nth_error l j = Some i -> outcome (i k') = if Nat.eqb (s + j) tgt then Some st else None) ->
  ffail (sched_list p' k' prev s l) =
  if (s <=? tgt) && (tgt <? s + length l) then Some (Failure p' k' tgt st) else None.
Proof.
  induction l as [|i l IH]; intros s H.
  - cbn [sched_list ffail length]. destruct (Nat.leb_spec s tgt), (Nat.ltb_spec tgt (s + 0)); try reflexivity. lia.
  - cbn [sched_list ffail snd length]. pose proof (H 0 i eq_refl) as H0. rewrite Nat.add_0_r in H0. rewrite H0.
    destruct (Nat.eqb_spec s tgt) as [->|Hne]; cbn [option_map].
    + destruct (Nat.leb_spec tgt tgt), (Nat.ltb_spec tgt (tgt + S (length l))); try reflexivity; lia.
    + rewrite IH.
      * destruct (Nat.leb_spec (S s) tgt), (Nat.ltb_spec tgt (S s + length l)),
                 (Nat.leb_spec s tgt), (Nat.ltb_spec tgt (s + S (length l))); try reflexivity; lia.
      * intros j i' Hj. specialize (H (S j) i' Hj). replace (S s + j) with (s + S j) by lia. exact H.
Qed.

Section SingleFault.
  Variables (tc : testcase) (p : phase) (k : stepk) (idx : nat) (b : beh) (st : fail_status).
  Hypothesis Hsf : single_fault tc p k idx b.
  Hypothesis Hout : outcome b = Some st.
  Let F := Failure p k idx st.

  Lemma single_step p' k' prev :
    ffail (sched_list p' k' prev 0 (instrs_of tc p')) = if pk_eqb (p', k') (p, k) then Some F else None.
  Proof.
    destruct Hsf as [(i0 & Hi0) Hall]. unfold pk_eqb. cbn [fst snd].
    destruct (phase_eqb p' p && stepk_eqb k' k) eqn:E.
    - apply andb_true_iff in E as [E1 E2]. apply phase_eqb_eq in E1. apply stepk_eqb_eq in E2. subst p' k'.
      rewrite (ffail_single p k prev st idx).
      + assert (idx < length (instrs_of tc p)) by (apply nth_error_Some; congruence).
        destruct (Nat.leb_spec 0 idx), (Nat.ltb_spec idx (0 + length (instrs_of tc p))); try reflexivity; lia.
      + intros j i Hj. rewrite (Hall _ k _ _ Hj), phase_eqb_refl, stepk_eqb_refl. cbn [andb plus].
        destruct (Nat.eqb j idx); [exact Hout|reflexivity].
    - apply ffail_quiet. intros i Hin. apply In_nth_error in Hin as (j & Hj). rewrite (Hall _ k' _ _ Hj), E. reflexivity.
  Qed.

  Lemma single_steps : forall ss,
    ffail (sched_steps tc ss) = if existsb (pk_eqb (p, k)) ss then Some F else None.
  Proof.
    induction ss as [|[p' k'] ss IH]; [reflexivity|]. rewrite ffail_steps_cons. unfold sched_step. cbn [fst snd].
    rewrite single_step, IH. cbn [existsb].
    assert (E : pk_eqb (p, k) (p', k') = pk_eqb (p', k') (p, k)).
    { unfold pk_eqb. cbn [fst snd]. destruct p, p', k, k'; reflexivity. }
    rewrite E. destruct (pk_eqb (p', k') (p, k)); reflexivity.
  Qed.

  (** the executor's verdict and reported failure on such a case *)
  Theorem single_fault_result :
    executed tc p k = true ->
    fr_failure (snd (full_execute tc)) = Some F /\
    fr_status (snd (full_execute tc)) =
      (if pk_eqb (p, k) (Conf, SMain) then full_of_fail st else translate_status (tc_status tc) (Some st)).
  Proof.
    intros Hex. rewrite full_result_declarative. cbn [fr_failure fr_status].
    unfold verdict, reported_failure, conf_plan, executed in *.
    change (sched_step tc (Conf, SMain)) with (sched_list Conf SMain None 0 (instrs_of tc Conf)).
    rewrite single_step. change (pk_eqb (Conf, SMain) (p, k)) with (pk_eqb (Conf, SMain) (p, k)).
    assert (Esym : pk_eqb (Conf, SMain) (p, k) = pk_eqb (p, k) (Conf, SMain)) by (destruct p, k; reflexivity).
    rewrite Esym. destruct (pk_eqb (p, k) (Conf, SMain)) eqn:Ec; [split; reflexivity|]. cbn [orb] in Hex.
    apply andb_true_iff in Hex as [Hns Hin].
    assert (Hcl : forall prev, ffail (sched_cleanup tc prev) = if pk_eqb (Cleanup, SMain) (p, k) then Some F else None).
    { intros prev. cbn [sched_cleanup ffail snd]. apply (single_step Cleanup SMain (Some prev)). }
    rewrite schedule_ffail, single_steps.
    assert (Esym2 : pk_eqb (Cleanup, SMain) (p, k) = pk_eqb (p, k) (Cleanup, SMain)) by (destruct p, k; reflexivity).
    destruct (existsb (pk_eqb (p, k)) (plan_of (tc_act_only tc))) eqn:Ep.
    - assert (Hnc : pk_eqb (p, k) (Cleanup, SMain) = false).
      { destruct (pk_eqb (p, k) (Cleanup, SMain)) eqn:E; [|reflexivity]. apply pk_eqb_eq in E. injection E as -> ->.
        destruct (tc_act_only tc); discriminate Ep. }
      rewrite Hcl, Esym2, Hnc.
      destruct (tc_status tc); [|discriminate Hns|];
        (destruct (in_validation F || is_main_of BeforeAssert F); split; try reflexivity;
         unfold F; cbn [option_map f_status]; destruct st; reflexivity).
    - cbn [orb] in Hin. rewrite Hcl, Esym2, Hin.
      destruct (tc_status tc); [|discriminate Hns|]; split; try reflexivity;
        unfold F; cbn [option_map f_status]; destruct st; reflexivity.
  Qed.
End SingleFault.

(** ** The translation between the vocabularies *)
Definition site_of (p : phase) (k : stepk) : site :=
  match p, k with
  | Conf, _ => SConfInstr
  | Exec.Act, Exec.SActParse => Errors.SActParse
  | Exec.Act, _ => SActStep
  | _, _ => SInstrStep
  end.

(** what "the step raises [e]" is in Exec's vocabulary, by the class of [e] alone *)
Definition raise_beh (s : site) (e : exc) : beh :=
  if match s with SActParse => subclass (e_cls e) EActorParseException | _ => false end then BSyntax
  else if subclass (e_cls e) EHardError then BHardRaise else BExn.

Definition is_act_site (s : site) : bool := match s with SActParse | SActStep => true | _ => false end.

(** the routing table of C18 for the executor's sites, through the translation *)
Lemma route_table mode p k (e : exc) :
  subclass (e_cls e) EException = true ->
  (is_act_site (site_of p k) = true -> subclass (e_cls e) EPhaseStepFailure = false) ->
  exists st, outcome (raise_beh (site_of p k) e) = Some st /\
    route mode (site_of p k) e =
      Ret (RExecuted (match site_of p k with
                      | SConfInstr => full_of_fail st
                      | _ => full_status_of None mode (Some st)
                      end)).
Proof.
  intros Hexc Hpsf. destruct e as [c pl]. cbn [e_cls] in *.
  destruct p, k; cbn [site_of is_act_site] in *;
    destruct c; try discriminate Hexc; try (specialize (Hpsf eq_refl); discriminate Hpsf);
    eexists; (split; [reflexivity|]); destruct mode; reflexivity.
Qed.

(** ** C18's route = Exec's executor, on the test case whose only non-OK behaviour is "that step
    raises that exception" *)
Theorem route_is_executor tc p k idx (e : exc) :
  subclass (e_cls e) EException = true ->
  (is_act_site (site_of p k) = true -> subclass (e_cls e) EPhaseStepFailure = false) ->
  single_fault tc p k idx (raise_beh (site_of p k) e) -> executed tc p k = true ->
  route (tc_status tc) (site_of p k) e = Ret (RExecuted (fr_status (snd (full_execute tc)))) /\
  exists st, outcome (raise_beh (site_of p k) e) = Some st /\
             fr_failure (snd (full_execute tc)) = Some (Failure p k idx st).
Proof.
  intros Hexc Hpsf Hsf Hex.
  destruct (route_table (tc_status tc) p k e Hexc Hpsf) as (st & Hout & Hroute).
  destruct (single_fault_result tc p k idx _ st Hsf Hout Hex) as [Hf Hs].
  split; [|exists st; auto]. rewrite Hroute, Hs. f_equal. f_equal.
  unfold executed in Hex. destruct (pk_eqb (p, k) (Conf, SMain)) eqn:Ec.
  - apply pk_eqb_eq in Ec. injection Ec as -> ->. reflexivity.
  - cbn [orb] in Hex. apply andb_true_iff in Hex as [Hns Hin].
    assert (Hs' : site_of p k <> SConfInstr).
    { destruct p; try (destruct k; discriminate). exfalso. destruct k, (tc_act_only tc); discriminate Hin. }
    destruct (site_of p k); try contradiction; destruct (tc_status tc); try discriminate Hns; reflexivity.
Qed.

(** Corollary: a step that raises HardErrorException is HARD_ERROR, one that raises anything else
    (an [Exception]; at act/parse other than the actor's ParseException) is INTERNAL_ERROR - at that
    step, in both models, whatever the test-case status. *)
Theorem raising_step_verdict tc p k idx (e : exc) :
  subclass (e_cls e) EException = true -> subclass (e_cls e) EPhaseStepFailure = false ->
  subclass (e_cls e) EActorParseException = false ->
  single_fault tc p k idx (raise_beh (site_of p k) e) -> executed tc p k = true ->
  let st := if subclass (e_cls e) EHardError then FHard else FInternal in
  route (tc_status tc) (site_of p k) e = Ret (RExecuted (full_of_fail st)) /\
  fr_status (snd (full_execute tc)) = full_of_fail st /\
  fr_failure (snd (full_execute tc)) = Some (Failure p k idx st).
Proof.
  intros Hexc Hpsf Hape Hsf Hex. cbn zeta.
  destruct (route_is_executor tc p k idx e Hexc (fun _ => Hpsf) Hsf Hex) as (Hr & st & Hout & Hf).
  assert (Hst : st = if subclass (e_cls e) EHardError then FHard else FInternal).
  { unfold raise_beh in Hout. rewrite Hape in Hout.
    assert (E : (if match site_of p k with SActParse => false | _ => false end then BSyntax
                 else if subclass (e_cls e) EHardError then BHardRaise else BExn) =
                (if subclass (e_cls e) EHardError then BHardRaise else BExn)) by (destruct (site_of p k); reflexivity).
    rewrite E in Hout. destruct (subclass (e_cls e) EHardError); cbn in Hout; congruence. }
  subst st. rewrite Hf. split; [|split; [|reflexivity]].
  - rewrite Hr. f_equal. f_equal.
    destruct (single_fault_result tc p k idx _ _ Hsf Hout Hex) as [_ Hs]. rewrite Hs.
    destruct (pk_eqb (p, k) (Conf, SMain)); [reflexivity|].
    destruct (tc_status tc), (subclass (e_cls e) EHardError); reflexivity.
  - destruct (single_fault_result tc p k idx _ _ Hsf Hout Hex) as [_ Hs]. rewrite Hs.
    destruct (pk_eqb (p, k) (Conf, SMain)); [reflexivity|].
    destruct (tc_status tc), (subclass (e_cls e) EHardError); reflexivity.
Qed.

(** ** Such test cases exist: [n] instructions per phase, all OK at every step, except step [k] of
    instruction [idx] of phase [p] (for [p] = act: of the actor / action to check) *)
Definition nth_fault (n idx : nat) (k : stepk) (b : beh) : list instr :=
  map (fun j => if Nat.eqb j idx then failing_at k b else ok_instr) (seq 0 n).
Definition one_fault (n : nat) (p : phase) (k : stepk) (idx : nat) (b : beh) (mode : Outcome.tc_status) (act_only : bool)
  : testcase :=
  let l q := nth_fault n (if phase_eqb q p then idx else n) k b in
  TC (l Conf) (l Setup) (if phase_eqb Exec.Act p then failing_at k b else ok_instr) (l BeforeAssert) (l Assert) (l Cleanup)
     mode act_only.

Lemma nth_error_seq n j : j < n -> nth_error (seq 0 n) j = Some j.
Proof.
  intros H. rewrite (nth_error_nth' (seq 0 n) 0) by (rewrite seq_length; exact H). rewrite seq_nth by exact H. reflexivity.
Qed.

Lemma nth_fault_nth n tgt k b j i :
  nth_error (nth_fault n tgt k b) j = Some i ->
  j < n /\ i = if Nat.eqb j tgt then failing_at k b else ok_instr.
Proof.
  unfold nth_fault. intros H.
  assert (Hj : j < n).
  { assert (j < length (map (fun j => if Nat.eqb j tgt then failing_at k b else ok_instr) (seq 0 n)))
      by (apply nth_error_Some; congruence). rewrite map_length, seq_length in H0. exact H0. }
  split; [exact Hj|].
  rewrite (map_nth_error _ j (seq 0 n) (nth_error_seq n j Hj)) in H. congruence.
Qed.

Lemma one_fault_single n p k idx b mode ao :
  (if phase_eqb Exec.Act p then idx = 0 else idx < n) -> single_fault (one_fault n p k idx b mode ao) p k idx b.
Proof.
  intros Hidx. split.
  - destruct p; cbn [phase_eqb] in Hidx; cbn [one_fault instrs_of tc_conf tc_setup tc_atc tc_before_assert tc_assert tc_cleanup phase_eqb];
      try (subst idx; eexists; reflexivity);
      (unfold nth_fault; rewrite (map_nth_error _ idx (seq 0 n) (nth_error_seq n idx Hidx)); eexists; reflexivity).
  - intros p' k' j i Hj.
    assert (Hsym : stepk_eqb k k' = stepk_eqb k' k) by (destruct k, k'; reflexivity).
    destruct p'; cbn [one_fault instrs_of tc_conf tc_setup tc_atc tc_before_assert tc_assert tc_cleanup] in Hj;
         try (apply nth_fault_nth in Hj as [Hlt ->];
              match goal with |- context [phase_eqb ?q p] => destruct (phase_eqb q p) eqn:E end; cbn [andb];
              [destruct (Nat.eqb j idx); unfold failing_at, ok_instr; rewrite ?Hsym, ?andb_true_r, ?andb_false_r; [destruct (stepk_eqb k' k)|]; reflexivity
              |replace (Nat.eqb j n) with false by (symmetry; apply Nat.eqb_neq; lia); reflexivity]).
    (* act *)
    destruct j as [|j]; [|destruct j; cbn [nth_error] in Hj; discriminate Hj]. cbn [nth_error] in Hj. injection Hj as <-.
    destruct p; cbn [phase_eqb andb] in *; try reflexivity.
    subst idx. unfold failing_at. rewrite Hsym, Nat.eqb_refl, andb_true_r. destruct (stepk_eqb k' k); reflexivity.
Qed.

(** Non-vacuity: three instructions per phase; assert[1] raises ZeroDivisionError in validate-post-setup
    (status FAIL); setup[2] raises HardErrorException in main; the actor raises its ParseException. *)
Example route_examples :
  let e1 := Exc EZeroDivision PNone in
  let t1 := one_fault 3 Assert SValPost 1 (raise_beh (site_of Assert SValPost) e1) TFail false in
  let e2 := Exc EHardError PNone in
  let t2 := one_fault 3 Setup SMain 2 (raise_beh (site_of Setup SMain) e2) TPass false in
  let e3 := Exc EActorParseException PNone in
  let t3 := one_fault 3 Exec.Act Exec.SActParse 0 (raise_beh (site_of Exec.Act Exec.SActParse) e3) TPass false in
  executed t1 Assert SValPost = true /\
  route TFail SInstrStep e1 = Ret (RExecuted INTERNAL_ERROR) /\
  snd (full_execute t1) = FResult INTERNAL_ERROR (Some (Failure Assert SValPost 1 FInternal)) true false /\
  route TPass SInstrStep e2 = Ret (RExecuted HARD_ERROR) /\
  snd (full_execute t2) = FResult HARD_ERROR (Some (Failure Setup SMain 2 FHard)) true false /\
  route TPass Errors.SActParse e3 = Ret (RExecuted SYNTAX_ERROR) /\
  snd (full_execute t3) = FResult SYNTAX_ERROR (Some (Failure Exec.Act Exec.SActParse 0 FSyntax)) false false.
Proof. vm_compute. repeat split. Qed.

(** The exclusion of PhaseStepFailureException at the act sites is necessary: C18's chain
    [execute_action_and_catch_internal_error_exception] re-raises it (the executor then reports the
    status it carries), while Exec's vocabulary has only "raises any other exception" = INTERNAL_ERROR.
    (No actor raises that internal class; the two models differ on it.) *)
Theorem route_is_executor_for_phase_step_failure_refuted :
  exists tc (e : exc),
    subclass (e_cls e) EException = true /\
    single_fault tc Exec.Act SExecute 0 (raise_beh (site_of Exec.Act SExecute) e) /\ executed tc Exec.Act SExecute = true /\
    route (tc_status tc) (site_of Exec.Act SExecute) e = Ret (RExecuted FAIL) /\
    fr_status (snd (full_execute tc)) = INTERNAL_ERROR.
Proof.
  exists (one_fault 1 Exec.Act SExecute 0 BExn TPass false), (Exc EPhaseStepFailure (PStep FFail)).
  split; [reflexivity|]. split; [apply (one_fault_single 1 Exec.Act SExecute 0 BExn TPass false); reflexivity|].
  split; [reflexivity|]. split; vm_compute; reflexivity.
Qed.
