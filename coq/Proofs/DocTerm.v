(** The reader never runs out of fuel: every step of the line loop consumes at least one line, and the
    chain of including files cannot repeat a file, so it is never longer than the number of files. *)
From Coq Require Import NArith List Bool Arith Lia.
From Exactly Require Import Model.Doc Spec.C07 Proofs.DocReader.
Import ListNotations.
Local Open Scope N_scope.

Lemma NoDup_snoc {A} : forall (l : list A) x, NoDup l -> ~ In x l -> NoDup (l ++ [x]).
Proof.
  induction l as [|a l IH]; intros x Hnd Hnin; cbn.
  - constructor; [intros []|constructor].
  - inversion Hnd as [|? ? Ha Hl]; subst. constructor.
    + intros Hin. apply in_app_or in Hin as [Hin|[<-|[]]]; [contradiction|]. apply Hnin. left. reflexivity.
    + apply IH; [assumption|]. intros Hin. apply Hnin. right. assumption.
Qed.

Section Term.
  Variable iparse : sec -> text -> list text -> ires.
  Variable fs : N -> text -> fsres.
  Variable contents : N -> option (list text).

  Lemma instr_at_pos : forall s n m lm c restm k src consumed,
      instr_at iparse s n m lm c restm = SElem k src consumed -> (1 <= consumed)%nat.
  Proof.
    intros s n m lm c restm k src consumed H. unfold instr_at in H.
    destruct (iparse s (skipn c lm) restm) as [kk| |nn|]; try discriminate.
    destruct kk as [|k']; try discriminate.
    destruct (k' <=? length restm)%nat; try discriminate.
    injection H as _ _ <-. lia.
  Qed.

  Lemma skip_lines_pos : forall s n ls m err k src consumed,
      skip_lines iparse s n m err ls = SElem k src consumed -> (1 <= consumed)%nat.
  Proof.
    intros s n. induction ls as [|l r IH]; intros m err k src consumed H; cbn [skip_lines] in H.
    - discriminate.
    - destruct (at_eof (l :: r)); try discriminate.
      destruct (is_empty_or_comment l).
      + eapply IH; eassumption.
      + eapply instr_at_pos; eassumption.
  Qed.

  Lemma skip_cursor_pos : forall s n l0 m lm c restm k src consumed,
      skip_cursor iparse s n l0 m lm c restm = SElem k src consumed -> (1 <= consumed)%nat.
  Proof.
    intros s n l0 m lm c restm k src consumed H. unfold skip_cursor in H.
    assert (G : (if (c + count_while is_space (skipn c lm) <? length lm)%nat
                 then instr_at iparse s n m lm (c + count_while is_space (skipn c lm)) restm
                 else skip_lines iparse s n (m + 1) (LineSeq n [l0]) restm) = SElem k src consumed -> (1 <= consumed)%nat).
    { destruct (c + count_while is_space (skipn c lm) <? length lm)%nat; intros G.
      - eapply instr_at_pos; eassumption.
      - eapply skip_lines_pos; eassumption. }
    destruct (skipn c lm) eqn:E1; [destruct restm eqn:E2|]; try discriminate; apply G; assumption.
  Qed.

  Lemma elem_step_pos : forall s n l0 rest k src consumed,
      elem_step iparse s n l0 rest = SElem k src consumed -> (1 <= consumed)%nat.
  Proof.
    intros s n l0 rest k src consumed H.
    assert (A : act_step n l0 rest = SElem k src consumed -> (1 <= consumed)%nat).
    { unfold act_step. intros A. injection A as _ _ <-. cbn. lia. }
    assert (B : forall s', nonact_step iparse s' n l0 rest = SElem k src consumed -> (1 <= consumed)%nat).
    { intros s' B. unfold nonact_step in B.
      destruct (is_empty_line l0). { injection B as _ _ <-. lia. }
      destruct (is_comment_line l0). { injection B as _ _ <-. lia. }
      destruct (incl_step n l0) as [st|] eqn:Ei.
      - unfold incl_step in Ei. destruct (split_ws l0) as [|t args]; try discriminate.
        destruct (text_eqb t including_token); try discriminate.
        destruct args as [|tok [|? ?]]; injection Ei as <-; discriminate.
      - unfold instr_step in B.
        destruct (skipn (count_while is_space l0) l0) as [|ch r0].
        + eapply skip_cursor_pos; eassumption.
        + destruct (ch =? c_btick).
          * destruct (find_char c_btick r0).
            -- eapply skip_cursor_pos; eassumption.
            -- destruct (find_btick_lines (n + 1) rest) as [[[[m lm] c] restm]|]; try discriminate.
               eapply skip_cursor_pos; eassumption.
          * eapply skip_cursor_pos; eassumption. }
    destruct s; cbn [elem_step] in H; auto; eapply B; eassumption.
  Qed.

  (** the line loop: more fuel than lines is enough *)
  Lemma loop_no_fuel :
    forall inc, (forall cur src tok, inc cur src tok <> Err EFuel) ->
    forall fuel fi cur n ls doc, (length ls < fuel)%nat -> loop iparse inc fuel fi cur n ls doc <> Err EFuel.
  Proof.
    intros inc Hinc. induction fuel as [|fuel IH]; intros fi cur n ls doc Hlen; [lia|].
    cbn [loop]. destruct ls as [|l0 rest]; [discriminate|].
    destruct (at_eof (l0 :: rest)); [discriminate|].
    cbn [length] in Hlen.
    destruct (is_header_line l0).
    - destruct (header_of l0); try discriminate. apply IH. lia.
    - destruct (elem_step iparse cur n l0 rest) as [k src consumed|src tok|src| |] eqn:Est; try discriminate.
      + apply IH. apply elem_step_pos in Est. rewrite skipn_length. cbn [length]. lia.
      + destruct (inc cur src tok) as [d|e] eqn:Ei.
        * apply IH. lia.
        * intros H. injection H as ->. apply (Hinc cur src tok). assumption.
  Qed.

  (** inclusion: [keys] bounds the files that exist; the chain [visited] has no repetition *)
  Lemma include_no_fuel :
    forall keys, (forall fid, contents fid <> None -> In fid keys) ->
    forall depth visited fi cur src tok,
      NoDup visited -> incl visited keys -> (length keys < depth + length visited)%nat ->
      include_file iparse fs contents depth visited fi cur src tok <> Err EFuel.
  Proof.
    intros keys Hkeys. induction depth as [|depth IH]; intros visited fi cur src tok Hnd Hincl Hlen.
    - exfalso. pose proof (NoDup_incl_length Hnd Hincl). lia.
    - cbn [include_file].
      destruct (fs (fi_dir fi) tok) as [|display [[fid dir']|]]; try discriminate.
      destruct (existsb (N.eqb fid) visited) eqn:Eex; try discriminate.
      destruct (contents fid) as [ls|] eqn:Ec; try discriminate.
      unfold read_lines. apply loop_no_fuel; [|lia].
      intros cur' src' tok'. apply IH.
      + apply NoDup_snoc; [assumption|].
        intros Hin. assert (existsb (N.eqb fid) visited = true).
        { apply existsb_exists. exists fid. split; [assumption|apply N.eqb_refl]. }
        congruence.
      + intros x Hx. apply in_app_or in Hx as [Hx|[<-|[]]]; [apply Hincl; assumption|].
        apply Hkeys. congruence.
      + rewrite app_length. cbn. lia.
  Qed.
End Term.

(** * The whole parse: with as much inclusion depth as there are files (+1) fuel never runs out *)
Lemma contents_of_table_in : forall files fid, contents_of_table files fid <> None -> In fid (map fst files).
Proof.
  intros files fid H. unfold contents_of_table in H.
  destruct (find (fun e => fst e =? fid) files) as [e|] eqn:E; [|congruence].
  apply find_some in E as [Hin Heq]. apply N.eqb_eq in Heq. subst. apply in_map. assumption.
Qed.

Theorem root_terminates :
  forall iparse fs files root path dir ls,
    parse_root iparse fs (contents_of_table files) (S (length files)) root path dir ls <> Err EFuel.
Proof.
  intros. unfold parse_root, read_lines. apply loop_no_fuel; [|lia].
  intros cur src tok. apply include_no_fuel with (keys := root :: map fst files).
  - intros fid H. right. apply contents_of_table_in. assumption.
  - constructor; [intros []|constructor].
  - intros x [<-|[]]. left. reflexivity.
  - cbn. rewrite map_length. lia.
Qed.

(** * Cyclic inclusion: a file that resolves to one of the files on the chain of including files is reported *)
Theorem cycle_is_error :
  forall iparse fs contents depth visited fi cur src tok display fid dir',
    fs (fi_dir fi) tok = FsEntry display (Some (fid, dir')) -> In fid visited ->
    include_file iparse fs contents (S depth) visited fi cur src tok
    = Err (EAccess (Some cur) display (fi_chain fi ++ [Loc (fi_path fi) src]) Cyclic).
Proof.
  intros iparse fs contents depth visited fi cur src tok display fid dir' Hfs Hin.
  cbn [include_file]. rewrite Hfs.
  assert (E : existsb (N.eqb fid) visited = true).
  { apply existsb_exists. exists fid. split; [assumption|apply N.eqb_refl]. }
  rewrite E. reflexivity.
Qed.
