(** * Source tie, target Timeout (C19): the default timeout as written in definitions/os_proc_env.py
    (Gen/Src_Timeout.v, translated from the current source) is finite, and is the value the C19 check tabulates from the
    running code (Gen/C19_tables.v) and runs the model with ([t_default] of Model/Timeout.v is a parameter). *)
From Coq Require Import ZArith NArith List Bool String.
From Exactly Require Import Lib.PyVal Model.Timeout Gen.Src_Timeout Gen.C19_tables.
Local Open Scope Z_scope.

Definition enc_tmo (t : tmo) : pyval := match t with Some n => VInt (Z.of_N n) | None => VNone end.

Theorem tie_default_timeout :
  py_os_proc_env_TIMEOUT__DEFAULT = enc_tmo gen_default_timeout /\
  exists n : N, py_os_proc_env_TIMEOUT__DEFAULT = enc_tmo (Some n).
Proof. split; [reflexivity | exists 60%N; reflexivity]. Qed.
