(** C05 / C13: the [filter] of Model/TextOps.v (every line is offered to the matcher) equals the
    implementation's algorithm WITH the read-ahead line interval, as modelled and proved exact in
    C13 (Model/Interval.v [filter_impl], Proofs/FilterExact.v).  The line matcher is translated to
    C13's matcher language: [line-num] leaves keep their integer matcher, [contents] leaves become
    matchers of unknown class whose truth is given by this model's evaluator. *)
From Coq Require Import ZArith NArith List Bool Lia.
From Exactly Require Import Lib.Text Lib.Lines Model.Interval Model.TextOps Proofs.FilterExact Proofs.TextOpsCorrect.
Import ListNotations.

(** the [contents] leaves of a line matcher, left to right *)
Fixpoint contents_leaves (lm : TextOps.lmatcher) : list smatcher :=
  match lm with
  | LContents m => [m]
  | LLineNum _ | LConst _ => []
  | LNot m => contents_leaves m
  | LAnd a b | LOr a b => contents_leaves a ++ contents_leaves b
  end.

(** translation; [k] = number of [contents] leaves to the left *)
Fixpoint to_c13 (lm : TextOps.lmatcher) (k : nat) : Interval.lmatcher :=
  match lm with
  | LContents _ => MLeaf (LUnknown k)
  | LLineNum im => MLeaf (LNum im)
  | LConst b => MConst b
  | LNot m => MNeg (to_c13 m k)
  | LAnd a b => MConj (to_c13 a k) [to_c13 b (k + length (contents_leaves a))]
  | LOr a b => MDisj (to_c13 a k) [to_c13 b (k + length (contents_leaves a))]
  end.

Section Bridge.
  Variable re_search : nat -> text -> bool.
  Variable re_full : nat -> text -> bool.
  Variable re_sub : nat -> text -> text.
  Variable py_upper : text -> text.
  Variable py_lower : text -> text.
  Variable is_space : char -> bool.
  Variable mem_buff : N.
  Notation EM := (eval_m re_search re_full re_sub py_upper py_lower is_space mem_buff).
  Notation EL := (eval_lm re_search re_full re_sub py_upper py_lower is_space mem_buff).

  Definition no_io (k : nat) (x : Z) : bool := false.
  (** the oracle of C13's unknown-class matchers: the [k]-th contents matcher on the line contents *)
  Definition contents_oracle (all : list smatcher) (k : nat) (n : Z) (line : text) : bool :=
    EM (nth k all (SConst false)) (str_src (rstrip_nl line)).

  Lemma to_c13_matches : forall lm pre post n line,
    lmatches text no_io (contents_oracle (pre ++ contents_leaves lm ++ post)) (to_c13 lm (length pre)) n line
    = EL lm n (rstrip_nl line).
  Proof.
    induction lm as [m|im|b|m IH|a IHa b IHb|a IHa b IHb]; intros pre post n line.
    - cbn [to_c13 contents_leaves]. unfold lmatches. cbn [holds lleaf_holds]. unfold contents_oracle.
      rewrite app_nth2 by lia. rewrite Nat.sub_diag. reflexivity.
    - reflexivity.
    - reflexivity.
    - cbn [to_c13 contents_leaves]. unfold lmatches in *. cbn [holds].
      change (EL (LNot m) n (rstrip_nl line)) with (negb (EL m n (rstrip_nl line))). now rewrite <- (IH pre post n line).
    - cbn [to_c13 contents_leaves]. unfold lmatches in *. cbn [holds forallb].
      change (EL (LAnd a b) n (rstrip_nl line)) with (if EL a n (rstrip_nl line) then EL b n (rstrip_nl line) else false).
      rewrite <- (IHa pre (contents_leaves b ++ post)). rewrite <- (IHb (pre ++ contents_leaves a) post).
      rewrite app_length, <- !app_assoc. rewrite andb_true_r.
      destruct (holds lleaf _ (to_c13 a (length pre))); reflexivity.
    - cbn [to_c13 contents_leaves]. unfold lmatches in *. cbn [holds existsb].
      change (EL (LOr a b) n (rstrip_nl line)) with (if EL a n (rstrip_nl line) then true else EL b n (rstrip_nl line)).
      rewrite <- (IHa pre (contents_leaves b ++ post)). rewrite <- (IHb (pre ++ contents_leaves a) post).
      rewrite app_length, <- !app_assoc. rewrite orb_false_r.
      destruct (holds lleaf _ (to_c13 a (length pre))); reflexivity.
  Qed.

  (** [filter LINE-MATCHER] with the read-ahead interval (C13's model of
      filter/line_matcher.py + model_construction.py + matcher_interval.py) = the filter of this model *)
  Theorem filter_read_ahead_exact : forall (lm : TextOps.lmatcher) (lines : list text),
    filter_impl text no_io (contents_oracle (contents_leaves lm)) true (to_c13 lm 0) lines
    = map fst (filter (fun line => EL lm (fst (snd line)) (snd (snd line))) (original_and_model_iter lines)).
  Proof.
    intros lm lines. rewrite filter_exact. unfold filter_spec, original_and_model_iter.
    rewrite filter_map', map_map. cbn [fst snd]. f_equal. apply filter_ext_in'. intros [n line] _. cbn [fst snd].
    pose proof (to_c13_matches lm [] [] n line) as H. cbn [app length] in H. rewrite app_nil_r in H. exact H.
  Qed.
End Bridge.
