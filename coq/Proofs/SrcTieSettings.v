(** * Source tie, target Settings (C11): test_case/phases/instruction_settings.py, setup/settings_builder.py and the applier
    selection of impls/instructions/multi_phase/environ/impl.py as translated from the current source
    (Gen/Src_Settings.v) against Model/Settings.v.

    [InstructionSettings.set_timeout] / [set_environ] are setters (only [self.f = e]): translated as the function
    (self, value) |-> the updated self.  What the appliers DO (populate from the default environ, call the modifier,
    [_expand_vars]: dict mutation, regular expressions, calls of stored functions) is outside the translator's subset. *)
From Coq Require Import ZArith NArith List Bool String.
From Exactly Require Import Lib.PyVal Model.Settings Gen.Src_Settings Proofs.PyValLemmas.
Import ListNotations.
Local Open Scope Z_scope.

Definition enc_timeout (t : timeout) : pyval := match t with Some n => VInt (Z.of_N n) | None => VNone end.

(** ** InstructionSettings: [encE] any encoding of an optional environment (None = not set: inherit), [g] the default
    environ getter *)
Section InstructionSettings.
  Variable encE : option env -> pyval.
  Variable g : pyval.
  Hypothesis (HE : forall e, py_ok (encE e) = true) (Hg : py_ok g = true).

  Definition enc_settings (s : state) : pyval :=
    VObj "instruction_settings.InstructionSettings"%string [encE (st_nonact s); g; enc_timeout (st_timeout s)].

  Lemma ok_timeout t : py_ok (enc_timeout t) = true. Proof. now destruct t. Qed.

  Theorem tie_settings_ctor s :
    py_instruction_settings_InstructionSettings (encE (st_nonact s)) g (enc_timeout (st_timeout s)) = enc_settings s.
  Proof.
    unfold py_instruction_settings_InstructionSettings, enc_settings.
    pose proof (HE (st_nonact s)). pose proof (ok_timeout (st_timeout s)). pyoks. reflexivity.
  Qed.

  Theorem tie_settings_getters s :
    py_instruction_settings_InstructionSettings_timeout_in_seconds (enc_settings s) = enc_timeout (st_timeout s) /\
    py_instruction_settings_InstructionSettings_environ (enc_settings s) = encE (st_nonact s) /\
    py_attr_default_environ_getter (enc_settings s) = g.
  Proof.
    pose proof (HE (st_nonact s)). pose proof (ok_timeout (st_timeout s)).
    unfold py_instruction_settings_InstructionSettings_timeout_in_seconds,
      py_instruction_settings_InstructionSettings_environ, enc_settings.
    repeat split; pycbn; pyoks; reflexivity.
  Qed.

  (** the [timeout] instruction: [settings.set_timeout(t)] is the model's step for [OTimeout t] on this component *)
  Theorem tie_set_timeout default dirs in_setup t s s' :
    step default dirs in_setup (OTimeout t) s = SOk s' ->
    py_instruction_settings_InstructionSettings_set_timeout (enc_settings s) (enc_timeout t) = enc_settings s'.
  Proof.
    cbn [step]. intros [= <-]. pose proof (HE (st_nonact s)). pose proof (ok_timeout t).
    unfold py_instruction_settings_InstructionSettings_set_timeout, enc_settings. cbn [st_nonact st_timeout].
    pycbn. pyoks. reflexivity.
  Qed.

  (** [settings.set_environ(e)] replaces the non-act environment and nothing else *)
  Theorem tie_set_environ e s :
    py_instruction_settings_InstructionSettings_set_environ (enc_settings s) (encE e)
    = enc_settings (State e (st_act s) (st_timeout s) (st_cwd s)).
  Proof.
    pose proof (HE e). pose proof (ok_timeout (st_timeout s)).
    unfold py_instruction_settings_InstructionSettings_set_environ, enc_settings. cbn [st_nonact st_timeout].
    pycbn. pyoks. reflexivity.
  Qed.
End InstructionSettings.

(** SetupSettingsBuilder: the act environment; [new_empty()] = nothing set *)
Theorem tie_setup_settings_builder stdin e : py_ok stdin = true -> py_ok e = true ->
  py_attr_environ (py_settings_builder_SetupSettingsBuilder stdin e) = e /\
  py_attr_environ py_settings_builder_SetupSettingsBuilder_new_empty = VNone.
Proof.
  intros Hs He. split; [|reflexivity].
  unfold py_settings_builder_SetupSettingsBuilder. pyoks.
  unfold py_settings_builder_SetupSettingsBuilder_environ. pycbn. pyoks. reflexivity.
Qed.

(** ** Which appliers an [env] instruction uses: [_resolve_applier_factory] + [_resolve_applier] = [appliers] *)
Definition enc_target (t : target) : pyval :=
  let act := VEnum "impl.Phase" "ACT" (VInt 1) in
  let non_act := VEnum "impl.Phase" "NON_ACT" (VInt 2) in
  VSet match t with TBoth => [act; non_act] | TAct => [act] | TNonAct => [non_act] end%string.

(** the applier objects that can be in the sequence *)
Inductive aobj := AEmptySeq | AActApplier | ANonActApplier.
Definition leaf (a : aobj) : list applier :=
  match a with AEmptySeq => [] | AActApplier => [ApAct] | ANonActApplier => [ApNonAct] end.

Section Appliers.
  Variables (settings ctor sps modifier : pyval).   (* instruction settings, app-env constructor, setup settings, modifier *)
  Hypothesis (H1 : py_ok settings = true) (H2 : py_ok ctor = true) (H3 : py_ok sps = true) (H4 : py_ok modifier = true).
  Hypothesis (Hsps : sps <> VNone).

  Definition enc_aobj (a : aobj) : pyval :=
    match a with
    | AEmptySeq => VObj "impl.SequenceOfAppliers" [VTuple []]
    | AActApplier => VObj "impl.ModifierApplierForSetupPhase" [settings; ctor; sps]
    | ANonActApplier => VObj "impl.ModifierApplierForNonSetupPhase" [settings; ctor]
    end%string.

  (** [setup_phase_settings] is None outside the setup phase *)
  Definition enc_factory (in_setup : bool) : pyval :=
    py_impl_TheInstructionEmbryo__resolve_applier_factory settings ctor (if in_setup then sps else VNone).

  Lemma sps_not_none : py_is_none sps = VBool false.
  Proof. destruct sps; try reflexivity; try discriminate; congruence. Qed.

  Theorem tie_resolve_applier in_setup t :
    exists l : list aobj,
      py_impl_TheInstructionEmbryo__resolve_applier
        (VObj "impl.TheInstructionEmbryo"%string [enc_target t; modifier]) (enc_factory in_setup)
      = VObj "impl.SequenceOfAppliers"%string [VList (map enc_aobj l)]
      /\ flat_map leaf l = appliers in_setup t.
  Proof.
    unfold enc_factory, py_impl_TheInstructionEmbryo__resolve_applier_factory.
    destruct in_setup.
    - pyoks. rewrite sps_not_none. pycbn.
      unfold py_impl__ApplierFactoryWSupportForSetupAndNonSetupPhases. pyoks.
      destruct t; [exists [AActApplier; ANonActApplier] | exists [AActApplier] | exists [ANonActApplier]];
        (split; [|reflexivity]);
        unfold py_impl_TheInstructionEmbryo__resolve_applier; cbn; pyoks; cbn; pyoks;
        unfold py_impl_ModifierApplierForSetupPhase, py_impl_ModifierApplierForNonSetupPhase; pyoks; reflexivity.
    - pyoks. unfold py_impl__ApplierFactoryWSupportForNonSetupPhase. pyoks.
      destruct t; [exists [AEmptySeq; ANonActApplier] | exists [AEmptySeq] | exists [ANonActApplier]];
        (split; [|reflexivity]);
        unfold py_impl_TheInstructionEmbryo__resolve_applier; cbn; pyoks; cbn; pyoks;
        unfold py_impl_ModifierApplierForSetupPhase, py_impl_ModifierApplierForNonSetupPhase; pyoks; reflexivity.
  Qed.
End Appliers.

(** the names of the sandbox sub directories (tcfs/sds.py) that [cd -rel-act|-rel-tmp|-rel-result] resolves to *)
Theorem tie_sds_dir_names :
  (exists s, py_sds_SUB_DIRECTORY__ACT = VStr s /\ [str_codes s] = sds_act) /\
  (exists s, py_sds_SUB_DIRECTORY__TMP_USER = VStr s /\ [str_codes s] = sds_tmp) /\
  (exists s, py_sds_SUB_DIRECTORY__RESULT = VStr s /\ [str_codes s] = sds_result).
Proof. repeat split; eexists; split; reflexivity. Qed.
