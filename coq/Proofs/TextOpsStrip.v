(** C05: the three streaming algorithms of strip_space.py remove exactly the leading / trailing
    white space (resp. trailing new-lines) of the whole text, and yield well-formed lines. *)
From Coq Require Import ZArith NArith List Bool Lia.
From Exactly Require Import Lib.Text Lib.TextLemmas Lib.Lines Model.Interval Model.TextOps Spec.C05.
Import ListNotations.

Section StripBy.
  Variable p : char -> bool.
  Definition some_not (t : text) : bool := existsb (fun c => negb (p c)) t.

  Lemma forallb_false_some_not : forall t, forallb p t = false -> some_not t = true.
  Proof.
    induction t as [|c t IH]; intros H; [discriminate|]. cbn in *. destruct (p c); cbn in *; [now apply IH | reflexivity].
  Qed.

  Lemma some_not_forallb_false : forall t, some_not t = true -> forallb p t = false.
  Proof.
    induction t as [|c t IH]; intros H; [discriminate|]. cbn in *. destruct (p c); cbn in *; [now apply IH | reflexivity].
  Qed.

  Lemma some_not_app_l : forall a b, some_not a = true -> some_not (a ++ b) = true.
  Proof. intros a b H. unfold some_not in *. rewrite existsb_app, H. reflexivity. Qed.

  (** *** rstrip *)
  Lemma rstrip_by_all : forall t, forallb p t = true -> rstrip_by p t = [].
  Proof.
    induction t as [|c t IH]; intros H; [reflexivity|]. cbn in H. apply andb_true_iff in H as [H1 H2].
    cbn [rstrip_by]. rewrite IH by exact H2. now rewrite H1.
  Qed.

  Lemma rstrip_by_nonnil : forall t, some_not t = true -> rstrip_by p t <> [].
  Proof.
    induction t as [|c t IH]; intros H; [discriminate|]. cbn [rstrip_by].
    destruct (rstrip_by p t) eqn:E; [|discriminate].
    cbn in H. destruct (p c); [|discriminate]. cbn in H. exfalso. now apply IH.
  Qed.

  Lemma rstrip_by_app_drop : forall a b, forallb p b = true -> rstrip_by p (a ++ b) = rstrip_by p a.
  Proof.
    induction a as [|c a IH]; intros b H; [now apply rstrip_by_all|].
    cbn [app rstrip_by]. now rewrite IH.
  Qed.

  Lemma rstrip_by_app_keep : forall a b, some_not b = true -> rstrip_by p (a ++ b) = a ++ rstrip_by p b.
  Proof.
    induction a as [|c a IH]; intros b H; [reflexivity|].
    cbn [app rstrip_by]. rewrite IH by exact H.
    destruct (a ++ rstrip_by p b) eqn:E; [|reflexivity].
    apply app_eq_nil in E as [_ E]. exfalso. eapply rstrip_by_nonnil; eassumption.
  Qed.

  Lemma rstrip_by_snoc : forall t c, rstrip_by p (t ++ [c]) = if p c then rstrip_by p t else t ++ [c].
  Proof.
    intros t c. destruct (p c) eqn:E.
    - apply rstrip_by_app_drop. cbn. now rewrite E.
    - rewrite rstrip_by_app_keep; [cbn; now rewrite E | cbn; now rewrite E].
  Qed.

  Lemma rstrip_by_drop_trailing : forall t, rstrip_by p t = drop_trailing p t.
  Proof.
    intros t. unfold drop_trailing. induction t as [|c t IH] using rev_ind; [reflexivity|].
    rewrite rstrip_by_snoc. rewrite rev_app_distr. cbn [rev app dropwhile].
    destruct (p c); [exact IH|]. cbn. now rewrite rev_involutive.
  Qed.

  Lemma rstrip_by_prefix : forall t, exists suf, t = rstrip_by p t ++ suf /\ forallb p suf = true.
  Proof.
    induction t as [|c t [suf [H1 H2]]]; [exists []; split; reflexivity|].
    cbn [rstrip_by]. destruct (rstrip_by p t) eqn:E.
    - destruct (p c) eqn:Hc.
      + exists (c :: t). split; [reflexivity|]. cbn. rewrite Hc. cbn in H1. now rewrite H1.
      + exists t. split; [reflexivity|]. cbn in H1. now rewrite H1.
    - exists suf. split; [|exact H2]. cbn [app]. f_equal. exact H1.
  Qed.

  (** *** lstrip *)
  Lemma lstrip_by_dropwhile : forall t, lstrip_by p t = drop_leading p t.
  Proof. induction t as [|c t IH]; [reflexivity|]. cbn. now rewrite IH. Qed.

  Lemma lstrip_by_app_all : forall a b, forallb p a = true -> lstrip_by p (a ++ b) = lstrip_by p b.
  Proof.
    induction a as [|c a IH]; intros b H; [reflexivity|]. cbn in H. apply andb_true_iff in H as [H1 H2].
    cbn. rewrite H1. now apply IH.
  Qed.

  Lemma lstrip_by_app_keep : forall a b, some_not a = true -> lstrip_by p (a ++ b) = lstrip_by p a ++ b.
  Proof.
    induction a as [|c a IH]; intros b H; [discriminate|]. cbn in H. cbn [app lstrip_by].
    destruct (p c); [cbn in H; now apply IH | reflexivity].
  Qed.

  Lemma lstrip_by_suffix : forall t, exists pre, t = pre ++ lstrip_by p t /\ forallb p pre = true.
  Proof.
    induction t as [|c t [pre [H1 H2]]]; [exists []; split; reflexivity|].
    cbn [lstrip_by]. destruct (p c) eqn:Hc.
    - exists (c :: pre). split; [cbn; now rewrite <- H1 | cbn; now rewrite Hc].
    - exists []. split; reflexivity.
  Qed.

  Lemma lstrip_by_some_not : forall t, some_not t = true -> some_not (lstrip_by p t) = true.
  Proof.
    induction t as [|c t IH]; intros H; [discriminate|]. cbn [lstrip_by]. destruct (p c) eqn:Hc.
    - cbn in H. rewrite Hc in H. cbn in H. now apply IH.
    - exact H.
  Qed.

  Lemma some_not_nonnil : forall t, some_not t = true -> t <> [].
  Proof. intros [|c t] H; [discriminate | discriminate]. Qed.

  (** *** The loop *)
  Variable skip : text -> bool.
  Variable final : text -> list text.
  (** [ok]: the lines the loop is run on; [good]: what the pending line [cur] always is *)
  Variable ok : text -> Prop.
  Hypothesis Hskip : forall l, ok l -> skip l = true -> forallb p l = true.
  Hypothesis Hkeep : forall l, ok l -> skip l = false -> some_not l = true.

  Lemma strip_loop_text : forall lines cur skipped,
    Forall ok lines -> (forall c, (c = cur \/ In c lines) -> concat (final c) = rstrip_by p c) ->
    forallb p (concat skipped) = true ->
    concat (strip_loop skip final cur skipped lines) = rstrip_by p (cur ++ concat skipped ++ concat lines).
  Proof.
    induction lines as [|next lines IH]; intros cur skipped Hok Hfinal Hsk.
    - cbn [strip_loop concat]. rewrite app_nil_r. rewrite rstrip_by_app_drop by exact Hsk. apply Hfinal. now left.
    - inversion Hok as [|? ? Hnext Hlines]; subst. cbn [strip_loop]. destruct (skip next) eqn:E.
      + rewrite IH.
        * rewrite concat_app. cbn [concat]. rewrite app_nil_r. now rewrite <- !app_assoc.
        * exact Hlines.
        * intros c [->|Hc]; apply Hfinal; [now left | right; now right].
        * rewrite concat_app, forallb_app. cbn [concat]. rewrite app_nil_r. rewrite Hsk. cbn. now apply Hskip.
      + cbn [concat]. rewrite concat_app. rewrite IH.
        * cbn [concat app].
          rewrite (rstrip_by_app_keep cur). rewrite (rstrip_by_app_keep (concat skipped)). reflexivity.
          -- apply some_not_app_l. now apply Hkeep.
          -- unfold some_not. rewrite existsb_app. apply orb_true_iff. right. apply some_not_app_l. now apply Hkeep.
        * exact Hlines.
        * intros c [->|Hc]; apply Hfinal; right; [now left | now right].
        * reflexivity.
  Qed.

  (** Well-formedness of the output.  [good]: invariant of the pending line. *)
  Variable good : text -> Prop.
  Hypothesis Hgood : forall l, skip l = false -> line_ok l -> good l.
  Hypothesis Hfinal_wf : forall c, line_ok c -> good c -> final c = [] \/ exists x, final c = [x] /\ line_ok x.

  Lemma strip_loop_wf : forall lines cur skipped,
    wf_lines (cur :: skipped ++ lines) = true -> good cur ->
    wf_lines (strip_loop skip final cur skipped lines) = true.
  Proof.
    induction lines as [|next lines IH]; intros cur skipped Hwf Hg.
    - cbn [strip_loop]. rewrite app_nil_r in Hwf.
      destruct (Hfinal_wf cur) as [->|[x [-> Hx]]]; [eapply wf_lines_head_ok; exact Hwf | exact Hg | reflexivity |].
      now apply wf_lines_single.
    - cbn [strip_loop]. destruct (skip next) eqn:E.
      + apply IH; [|exact Hg]. now rewrite <- app_assoc.
      + change (cur :: skipped ++ next :: lines) with ((cur :: skipped) ++ next :: lines) in Hwf.
        apply wf_lines_app_inv in Hwf as [Hfull Hrest].
        change (cur :: skipped ++ strip_loop skip final next [] lines)
          with ((cur :: skipped) ++ strip_loop skip final next [] lines).
        apply wf_lines_app_full; [exact Hfull|].
        apply IH; [exact Hrest|]. apply Hgood; [exact E|]. eapply wf_lines_head_ok; exact Hrest.
  Qed.
End StripBy.
