(** C15: what [populate] (the model of the code, working with paths from the root on one tree)
    produces is what the FILE-LIST denotes (Spec [denote], compositional); a HARD_ERROR is raised
    exactly when the list denotes nothing. *)
From Coq Require Import NArith List Bool Arith Lia.
From Exactly Require Import Lib.Tree Model.Files Spec.C15 Proofs.FilesPopulate.
Import ListNotations.

(** The relation between a run of the model on the directory with contents [d] and the
    denotation [r] of the same thing. *)
Definition agrees (run : tree * outcome) (r : option dirc) : Prop :=
  match snd run with
  | Done => exists d', r = Some d' /\ fst run = Dir d'
  | HardError => r = None
  | OutsideModel => True
  end.

(* ------------------------------------------------------------------------------------------ *)
(** * [get] and [lstat]; [alter] *)

Lemma get_lstat : forall p st, get p st = match lstat p st with LFound x => Some x | _ => None end.
Proof.
  induction p as [|n p IH]; intros st; cbn [get lstat]; [reflexivity|].
  destruct st as [c|es|l]; [reflexivity| |].
  - destruct (lookup n es); [apply IH | reflexivity].
  - destruct (resolve (Link l)) as [[?|?|?]|]; reflexivity.
Qed.

Lemma alter_get : forall p g st, alter p g st = match get p st with
                                                | Some x => option_map (fun x' => put p x' st) (g x)
                                                | None => None
                                                end.
Proof.
  induction p as [|n p IH]; intros g st; cbn [alter get put].
  - destruct (g st); reflexivity.
  - destruct st as [c|es|l]; try reflexivity. destruct (lookup n es) as [c|] eqn:E; [|reflexivity].
    rewrite IH. destruct (get p c) as [x|]; [|reflexivity]. destruct (g x); cbn [option_map put]; rewrite ?E; reflexivity.
Qed.

(* ------------------------------------------------------------------------------------------ *)
(** * [at_path] on something that must exist *)

Lemma set_entry_found : forall n (t c : tree) d, lookup n d = Some c -> set_entry n t d = update n t d.
Proof. intros n t c d H. unfold set_entry. rewrite H. reflexivity. Qed.

Lemma set_entry_new : forall n (t : tree) d, lookup n d = None -> set_entry n t d = d ++ [(n, t)].
Proof. intros n t d H. unfold set_entry. rewrite H. reflexivity. Qed.

Definition dirc_of (t : tree) : option dirc := match t with Dir d => Some d | _ => None end.

Lemma get_cons : forall n p d, get (n :: p) (Dir d) = match lookup n d with Some c => get p c | None => None end.
Proof. reflexivity. Qed.

Lemma put_cons : forall n p x d,
  put (n :: p) x (Dir d) = match lookup n d with Some c => Dir (update n (put p x c) d) | None => Dir d end.
Proof. reflexivity. Qed.

Lemma at_path_cons2 : forall n m p f d,
  at_path (n :: m :: p) f d =
  match lookup n d with
  | Some (Dir sub) => match at_path (m :: p) f sub with Some sub' => Some (set_entry n (Dir sub') d) | None => None end
  | Some _ => None
  | None => match at_path (m :: p) f [] with Some sub' => Some (set_entry n (Dir sub') d) | None => None end
  end.
Proof. reflexivity. Qed.

Lemma put_dir : forall p x d, p <> [] -> exists s, put p x (Dir d) = Dir s.
Proof. intros [|n p] x d H; [contradiction|]. rewrite put_cons. destruct (lookup n d); eauto. Qed.

Lemma at_path_none : forall p f d, (forall o, f o = None) -> at_path p f d = None.
Proof.
  induction p as [|n p IH]; intros f d Hf; cbn [at_path]; [reflexivity|].
  destruct p as [|m p].
  - rewrite Hf. reflexivity.
  - destruct (lookup n d) as [[c|sub|l]|]; try reflexivity; rewrite (IH f _ Hf); reflexivity.
Qed.

(** If [f] refuses "nothing there", [at_path] is: find the node, apply [f], put the result back. *)
Lemma at_path_existing : forall p f d, f None = None -> p <> [] ->
  at_path p f d = match get p (Dir d) with
                  | Some x => match f (Some x) with
                              | Some x' => dirc_of (put p x' (Dir d))
                              | None => None
                              end
                  | None => None
                  end.
Proof.
  induction p as [|n p IH]; intros f d Hf Hp; [contradiction|].
  destruct p as [|m p].
  - cbn [at_path get put]. destruct (lookup n d) as [c|] eqn:E.
    + destruct (f (Some c)) as [x'|]; [|reflexivity]. cbn [dirc_of]. rewrite (set_entry_found _ _ _ _ E). reflexivity.
    + rewrite Hf. reflexivity.
  - rewrite at_path_cons2, get_cons. destruct (lookup n d) as [[c|sub|l]|] eqn:E; try reflexivity.
    + rewrite (IH f sub Hf); [|discriminate].
      destruct (get (m :: p) (Dir sub)) as [x|]; [|reflexivity].
      destruct (f (Some x)) as [x'|]; [|reflexivity].
      rewrite (put_cons n (m :: p) x' d), E. destruct (put_dir (m :: p) x' sub) as [s' ->]; [discriminate|]. cbn [dirc_of].
      rewrite (set_entry_found _ _ _ _ E). reflexivity.
    + rewrite (IH f [] Hf); [|discriminate]. rewrite get_cons. cbn [lookup]. reflexivity.
Qed.

(* ------------------------------------------------------------------------------------------ *)
(** * [create] and [at_path .. must_not_exist] *)

Lemma mkdirs_empty : forall q, mkdirs q (Dir []) = MOk (chain q).
Proof. destruct q as [|n q]; reflexivity. Qed.

Lemma lookup_app_new : forall n (t : tree) d, lookup n d = None -> lookup n (d ++ [(n, t)]) = Some t.
Proof.
  induction d as [|[k w] d IH]; cbn; intros H; [rewrite name_eqb_refl; reflexivity|].
  destruct (name_eqb k n); [discriminate | apply IH; exact H].
Qed.

Lemma update_app_new : forall n (t t' : tree) d, lookup n d = None -> update n t' (d ++ [(n, t)]) = d ++ [(n, t')].
Proof.
  induction d as [|[k w] d IH]; cbn; intros H; [rewrite name_eqb_refl; reflexivity|].
  destruct (name_eqb k n); [discriminate | rewrite IH; [reflexivity | exact H]].
Qed.

Lemma split_last_cons : forall n p q l, split_last p = Some (q, l) -> split_last (n :: p) = Some (n :: q, l).
Proof. intros n p q l H. apply (split_last_app [n] p q l H). Qed.

Lemma split_last_some : forall p, p <> [] -> exists q l, split_last p = Some (q, l).
Proof.
  intros p Hp. destruct (split_last p) as [[q l]|] eqn:E; [eauto|]. apply split_last_None in E. contradiction.
Qed.

Lemma split_last_app_inv : forall p q l, split_last p = Some (q, l) -> p = q ++ [l].
Proof.
  induction p as [|n p IH]; intros q l H; [discriminate|].
  destruct p as [|m p]; [cbn in H; inversion H; subst; reflexivity|].
  change (split_last (n :: m :: p)) with (match split_last (m :: p) with Some (q, l) => Some (n :: q, l) | None => None end) in H.
  destruct (split_last (m :: p)) as [[q' l']|] eqn:E; [|discriminate].
  inversion H; subst. cbn [app]. f_equal. apply IH. reflexivity.
Qed.

(** After a successful [create] the new node is at the path. *)
Lemma create_get : forall p new st t, create p new st = (t, Done) -> get p t = Some new.
Proof.
  intros p new st t H. unfold create in H.
  assert (forall q l, split_last p = Some (q, l) ->
          match mkdirs q st with
          | MOk st1 => match alter q (add_entry l new) st1 with Some st2 => (st2, Done) | None => (st1, HardError) end
          | MNotDir => (st, HardError) | MViaLink => (st, OutsideModel) end = (t, Done) -> get p t = Some new) as K.
  { intros q l Es K. destruct (mkdirs q st) as [st1| |]; try discriminate.
    rewrite alter_get in K. destruct (get q st1) as [x|] eqn:Eg; [|discriminate].
    destruct (add_entry l new x) as [x'|] eqn:Ea; cbn [option_map] in K; [|discriminate]. injection K as <-.
    rewrite (split_last_app_inv _ _ _ Es), get_app, (get_put _ _ _ _ Eg).
    unfold add_entry in Ea. destruct x as [?|xs|?]; try discriminate. destruct (lookup l xs) eqn:El; [discriminate|].
    injection Ea as <-. cbn [get]. rewrite (lookup_app_new _ _ _ El). reflexivity. }
  destruct (lstat p st); try discriminate; (destruct (split_last p) as [[q l]|] eqn:Es; [exact (K q l eq_refl H) | discriminate]).
Qed.

(** Creating below a fresh chain of directories. *)
Lemma create_in_empty : forall p new, p <> [] ->
  exists sub', create p new (Dir []) = (Dir sub', Done)
               /\ forall onew, at_path p (must_not_exist onew) [] = match onew with Some x => dirc_of (put p x (Dir sub')) | None => None end.
Proof.
  induction p as [|n p IH]; intros new Hp; [contradiction|].
  destruct p as [|m p].
  - exists [(n, new)]. split; [reflexivity|]. intros [x|]; cbn; [rewrite name_eqb_refl; reflexivity | reflexivity].
  - destruct (IH new) as [sub' [Hc Ha]]; [discriminate|].
    exists [(n, Dir sub')]. split.
    + unfold create in *. cbn [lstat lookup]. cbn [lstat lookup] in Hc.
      destruct (split_last (m :: p)) as [[q l]|] eqn:Es; [|apply split_last_None in Es; discriminate].
      rewrite (split_last_cons n _ _ _ Es). rewrite mkdirs_empty in Hc.
      cbn [mkdirs lookup app alter]. rewrite name_eqb_refl.
      destruct (alter q (add_entry l new) (chain q)) as [s2|]; [|discriminate].
      injection Hc as ->. cbn [update]. rewrite name_eqb_refl. reflexivity.
    + intros onew. rewrite at_path_cons2. cbn [lookup]. rewrite Ha. destruct onew as [x|]; [|reflexivity].
      rewrite (put_cons n (m :: p) x [(n, Dir sub')]). cbn [lookup]. rewrite name_eqb_refl. cbn [update]. rewrite name_eqb_refl.
      destruct (put_dir (m :: p) x sub') as [s' ->]; [discriminate|]. cbn [dirc_of]. reflexivity.
Qed.

(** [create] on a directory vs the declarative insertion:
    success = the path did not exist and [at_path] inserts the same thing (whatever is inserted);
    HARD_ERROR = [at_path .. must_not_exist] denotes nothing (whatever was to be inserted). *)
Lemma create_spec : forall p new d,
  match create p new (Dir d) with
  | (t, Done) => exists d', t = Dir d'
                            /\ forall onew, at_path p (must_not_exist onew) d =
                                            match onew with Some x => dirc_of (put p x t) | None => None end
  | (t, HardError) => t = Dir d /\ forall onew, at_path p (must_not_exist onew) d = None
  | (_, OutsideModel) => True
  end.
Proof.
  induction p as [|n p IH]; intros new d.
  - cbn. split; [reflexivity | intros; reflexivity].
  - destruct p as [|m p].
    + (* last component *)
      unfold create. cbn [lstat split_last mkdirs alter add_entry]. destruct (lookup n d) as [c|] eqn:E.
      * split; [reflexivity|]. intros onew. cbn [at_path]. rewrite E. reflexivity.
      * exists (d ++ [(n, new)]). split; [reflexivity|].
        intros onew. cbn [at_path]. rewrite E. destruct onew as [x|]; cbn [must_not_exist]; [|reflexivity].
        cbn [put]. rewrite (lookup_app_new _ _ _ E). cbn [dirc_of]. rewrite (set_entry_new _ _ _ E), (update_app_new _ _ _ _ E). reflexivity.
    + assert (Hat : forall onew, at_path (n :: m :: p) (must_not_exist onew) d =
                match lookup n d with
                | Some (Dir sub) => match at_path (m :: p) (must_not_exist onew) sub with Some sub' => Some (set_entry n (Dir sub') d) | None => None end
                | Some _ => None
                | None => match at_path (m :: p) (must_not_exist onew) [] with Some sub' => Some (set_entry n (Dir sub') d) | None => None end
                end) by reflexivity.
      destruct (lookup n d) as [c|] eqn:E.
      * (* the first component exists: frame *)
        assert (Hg : get [n] (Dir d) = Some c) by (cbn; rewrite E; reflexivity).
        change (n :: m :: p) with ([n] ++ (m :: p)). rewrite (create_frame [n] (m :: p) new (Dir d) c Hg). unfold frame.
        cbn [put]. rewrite E. cbn [app].
        destruct c as [fc|sub|l].
        -- (* a regular file in the way *)
           unfold create. cbn [lstat]. destruct (split_last_some (m :: p)) as [q [l Es]]; [discriminate|]. rewrite Es.
           destruct q; cbn [mkdirs fst snd]; (split; [rewrite update_same; [reflexivity | exact E] | intros; rewrite Hat; reflexivity]).
        -- specialize (IH new sub). destruct (create (m :: p) new (Dir sub)) as [t [| |]]; cbn [fst snd]; [| |exact I].
           ++ destruct IH as [sub' [-> Hins]]. exists (update n (Dir sub') d). split; [reflexivity|].
              ** intros onew. rewrite Hat, Hins. destruct onew as [x|]; [|reflexivity].
                 change (put (n :: m :: p) x (Dir (update n (Dir sub') d)))
                   with (match lookup n (update n (Dir sub') d) with
                         | Some c => Dir (update n (put (m :: p) x c) (update n (Dir sub') d))
                         | None => Dir (update n (Dir sub') d) end).
                 rewrite lookup_update_same; [|congruence]. rewrite update_update.
                 destruct (put (m :: p) x (Dir sub')) as [?|s|?] eqn:Ep; cbn [dirc_of];
                   try (exfalso; cbn [put] in Ep; destruct (lookup m sub'); discriminate).
                 rewrite (set_entry_found _ _ _ _ E). reflexivity.
           ++ destruct IH as [-> Hins]. split; [rewrite update_same; [reflexivity | exact E]|].
              intros onew. rewrite Hat, Hins. reflexivity.
        -- (* a symbolic link in the way *)
           unfold create. cbn [lstat]. destruct (split_last_some (m :: p)) as [q [l' Es]]; [discriminate|]. rewrite Es.
           destruct (resolve (Link l)) as [[?|?|?]|] eqn:Er; cbn [fst snd]; try exact I;
             (destruct q; cbn [mkdirs]; rewrite Er; cbn [fst snd]; (split; [rewrite update_same; [reflexivity | exact E] | intros; rewrite Hat; reflexivity])).
      * (* the first component is new: everything below is created *)
        destruct (create_in_empty (m :: p) new) as [sub' [Hc Ha]]; [discriminate|].
        unfold create in *. cbn [lstat] in *. rewrite E. cbn [lookup] in Hc.
        destruct (split_last (m :: p)) as [[q l]|] eqn:Es; [|apply split_last_None in Es; discriminate].
        rewrite (split_last_cons n _ _ _ Es). rewrite mkdirs_empty in Hc. cbn [mkdirs]. rewrite E.
        cbn [alter]. rewrite (lookup_app_new _ _ _ E).
        destruct (alter q (add_entry l new) (chain q)) as [s2|]; [|discriminate]. injection Hc as ->.
        rewrite (update_app_new _ _ _ _ E).
        exists (d ++ [(n, Dir sub')]). split; [reflexivity|].
        intros onew. rewrite Hat, Ha. destruct onew as [x|]; [|reflexivity].
           change (put (n :: m :: p) x (Dir (d ++ [(n, Dir sub')])))
             with (match lookup n (d ++ [(n, Dir sub')]) with
                   | Some c => Dir (update n (put (m :: p) x c) (d ++ [(n, Dir sub')]))
                   | None => Dir (d ++ [(n, Dir sub')]) end).
           rewrite (lookup_app_new _ _ _ E), (update_app_new _ _ _ _ E).
           destruct (put (m :: p) x (Dir sub')) as [?|s|?] eqn:Ep; cbn [dirc_of];
             try (exfalso; cbn [put] in Ep; destruct (lookup m sub'); discriminate).
           rewrite (set_entry_new _ _ _ E). reflexivity.
Qed.

Lemma create_agrees : forall p new d, agrees (create p new (Dir d)) (at_path p (must_not_exist (Some new)) d).
Proof.
  intros p new d. unfold agrees. pose proof (create_spec p new d) as S.
  destruct (create p new (Dir d)) as [t [| |]] eqn:Ec; cbn [fst snd]; [| |exact I].
  - destruct S as [d' [-> Hins]]. exists d'. split; [|reflexivity].
    rewrite Hins. rewrite (put_get_id _ _ _ (create_get _ _ _ _ Ec)). reflexivity.
  - destruct S as [_ Hins]. apply Hins.
Qed.

(* ------------------------------------------------------------------------------------------ *)
(** * Copies *)

Fixpoint deref_list (es : dirc) : dirc * bool :=
  match es with
  | [] => ([], false)
  | p :: es' =>
      let d := deref (snd p) in
      let r' := deref_list es' in
      (match fst d with Some c => (fst p, c) :: fst r' | None => fst r' end, snd d || snd r')
  end.

Lemma deref_Dir : forall es, deref (Dir es) = (Some (Dir (fst (deref_list es))), snd (deref_list es)).
Proof. intros es. reflexivity. Qed.

Fixpoint copy_list (es : dirc) : option dirc :=
  match es with
  | [] => Some []
  | p :: es' => match copy_of (snd p), copy_list es' with
                | Some c, Some r => Some ((fst p, c) :: r)
                | _, _ => None
                end
  end.

Lemma copy_of_Dir : forall es, copy_of (Dir es) = option_map Dir (copy_list es).
Proof. intros es. change (copy_of (Dir es)) with (match copy_list es with Some es' => Some (Dir es') | None => None end). destruct (copy_list es); reflexivity. Qed.

Definition clean (r : option tree * bool) : option tree :=
  match r with (Some c, false) => Some c | _ => None end.

Lemma deref_none_err : forall t, fst (deref t) = None -> snd (deref t) = true.
Proof.
  induction t as [c|es _| |t IH] using tree_ind'; intros H.
  - discriminate.
  - rewrite deref_Dir in H. discriminate.
  - reflexivity.
  - cbn [deref] in *. apply IH. exact H.
Qed.

Lemma copy_of_deref : forall t, copy_of t = clean (deref t).
Proof.
  induction t as [c|es IH| |t IH] using tree_ind'.
  - reflexivity.
  - rewrite copy_of_Dir, deref_Dir. unfold clean.
    assert (copy_list es = if snd (deref_list es) then None else Some (fst (deref_list es))) as ->.
    { induction es as [|p es IHes]; [reflexivity|]. inversion IH as [|? ? Hp Hes]; subst.
      cbn [copy_list deref_list fst snd]. rewrite (IHes Hes), Hp. unfold clean.
      pose proof (deref_none_err (snd p)) as Hn.
      destruct (deref (snd p)) as [[c|] [|]]; cbn [fst snd orb] in *; try reflexivity.
      - destruct (snd (deref_list es)); reflexivity.
      - discriminate (Hn eq_refl). }
    destruct (snd (deref_list es)); reflexivity.
  - reflexivity.
  - cbn [copy_of deref]. exact IH.
Qed.

Lemma copy_into_spec : forall src d, agrees (copy_into src [] (Dir d)) (add_copies src d).
Proof.
  induction src as [|[n s] src IH]; intros d; cbn [copy_into add_copies app].
  - unfold agrees. cbn. eauto.
  - cbn [lstat]. rewrite copy_of_deref. destruct (lookup n d) as [c|] eqn:E.
    + unfold agrees. cbn. reflexivity.
    + destruct (deref s) as [[c|] [|]]; unfold clean; cbn [alter add_entry]; rewrite ?E; try (unfold agrees; cbn; reflexivity).
      apply IH.
Qed.

(* ------------------------------------------------------------------------------------------ *)
(** * The main theorem *)

Lemma inner_loop_denote : forall es d,
  (fix go (es : list entry) (d : dirc) : option dirc :=
     match es with
     | [] => Some d
     | e' :: es' => match denote_entry e' d with
                    | Some d' => go es' d'
                    | None => None
                    end
     end) es d = denote es d.
Proof. induction es as [|e es IH]; intros d; cbn [denote]; [reflexivity|]. destruct (denote_entry e d); [apply IH | reflexivity]. Qed.

Definition append_text_spec (c : list N) : option tree -> option tree :=
  fun o => match o with Some (File c0) => Some (File (c0 ++ c)) | _ => None end.
Definition into_dir (g : dirc -> option dirc) : option tree -> option tree :=
  fun o => match o with Some (Dir sub) => option_map Dir (g sub) | _ => None end.

Lemma denote_entry_eq : forall e d,
  denote_entry e d =
  let p := posix_parts (entry_name e) in
  match e with
  | EFile _ None => at_path p (must_not_exist (Some (File []))) d
  | EFile _ (Some (Create, c)) => at_path p (must_not_exist (Some (File c))) d
  | EFile _ (Some (Append, c)) => at_path p (append_text_spec c) d
  | EDir _ => at_path p (must_not_exist (Some (Dir []))) d
  | EDirList _ md es =>
      match md, p with
      | Append, [] => denote es d
      | Create, _ => at_path p (must_not_exist (option_map Dir (denote es []))) d
      | Append, _ => at_path p (into_dir (denote es)) d
      end
  | EDirCopy _ md src =>
      match md, p with
      | Append, [] => add_copies src d
      | Create, _ => at_path p (must_not_exist (option_map Dir (add_copies src []))) d
      | Append, _ => at_path p (into_dir (add_copies src)) d
      end
  end.
Proof.
  intros e d. destruct e as [nm [[[|] c]|]|nm|nm md es|nm md src]; reflexivity.
Qed.


Lemma populate_at : forall es p st sub, get p st = Some sub -> populate es p st = frame p st (populate es [] sub).
Proof. intros es p st sub H. pose proof (populate_frame es p [] st sub H) as E. rewrite app_nil_r in E. exact E. Qed.

Lemma copy_into_at : forall src p st sub, get p st = Some sub -> copy_into src p st = frame p st (copy_into src [] sub).
Proof. intros src p st sub H. pose proof (copy_into_frame src p [] st sub H) as E. rewrite app_nil_r in E. exact E. Qed.

Lemma stat_existing_get : forall p st,
  match stat_existing p st with
  | ExFile c => get p st = Some (File c)
  | ExDir => exists sub, get p st = Some (Dir sub)
  | ExBad => get p st = None \/ exists l, get p st = Some (Link l)
  | ExViaLink => True
  end.
Proof.
  intros p st. unfold stat_existing. rewrite get_lstat. destruct (lstat p st) as [[c|sub|l]| | |]; eauto.
  destruct (resolve (Link l)); eauto.
Qed.

(** Modifying something that must exist: success. *)
Lemma existing_ok : forall p d f x x', f None = None -> p <> [] -> get p (Dir d) = Some x -> f (Some x) = Some x' ->
  agrees (put p x' (Dir d), Done) (at_path p f d).
Proof.
  intros p d f x x' Hf Hp Hg Hx. rewrite (at_path_existing p f d Hf Hp), Hg, Hx.
  destruct (put_dir p x' d Hp) as [s E]. rewrite E. unfold agrees. cbn. eauto.
Qed.

(** ... and failure. *)
Lemma existing_bad : forall p d f, f None = None ->
  (p = [] \/ get p (Dir d) = None \/ exists x, get p (Dir d) = Some x /\ f (Some x) = None) ->
  at_path p f d = None.
Proof.
  intros p d f Hf [->|H]; [reflexivity|]. destruct p as [|n p]; [reflexivity|].
  rewrite (at_path_existing (n :: p) f d Hf); [|discriminate].
  destruct H as [->|[x [-> ->]]]; reflexivity.
Qed.

Definition make_denotes_stmt (e : entry) : Prop := forall d, agrees (make e [] (Dir d)) (denote_entry e d).

Lemma populate_denotes_of : forall es, Forall make_denotes_stmt es ->
  forall d, agrees (populate es [] (Dir d)) (denote es d).
Proof.
  induction es as [|e es IH]; intros F d; cbn [populate denote].
  - unfold agrees. cbn. eauto.
  - inversion F as [|? ? He Fes]; subst. specialize (He d). unfold agrees in He.
    destruct (make e [] (Dir d)) as [t [| |]]; cbn [fst snd] in He.
    + destruct He as [d' [-> ->]]. apply IH. exact Fes.
    + rewrite He. unfold agrees. cbn. reflexivity.
    + unfold agrees. cbn. exact I.
Qed.

(** Creating a directory and filling it (by a nested list, or by copies): [fill] is the model's
    run on the new directory, [g] what the contents denotes. *)
Lemma create_and_fill : forall p d (fill : path -> tree -> tree * outcome) (g : dirc -> option dirc),
  (forall q st sub, get q st = Some sub -> fill q st = frame q st (fill [] sub)) ->
  (forall sub, agrees (fill [] (Dir sub)) (g sub)) ->
  agrees (match create p (Dir []) (Dir d) with (st1, Done) => fill p st1 | r => r end)
         (at_path p (must_not_exist (option_map Dir (g []))) d).
Proof.
  intros p d fill g Hframe Hfill. pose proof (create_spec p (Dir []) d) as S.
  destruct (create p (Dir []) (Dir d)) as [st1 [| |]] eqn:Ec; [| |unfold agrees; cbn; exact I].
  - destruct S as [d1 [-> Hins]]. pose proof (create_get _ _ _ _ Ec) as Hg.
    rewrite (Hframe p (Dir d1) (Dir []) Hg). rewrite Hins. specialize (Hfill []). unfold agrees in *. unfold frame.
    destruct (fill [] (Dir [])) as [t [| |]]; cbn [fst snd] in *.
    + destruct Hfill as [di [-> ->]]. cbn [option_map].
      assert (p <> []) as Hp. { intros ->. unfold create in Ec. cbn in Ec. discriminate. }
      destruct (put_dir p (Dir di) d1 Hp) as [s E]. rewrite E. cbn. eauto.
    + rewrite Hfill. reflexivity.
    + exact I.
  - destruct S as [_ Hins]. unfold agrees. cbn. apply Hins.
Qed.

(** Adding to an existing directory. *)
Lemma fill_existing : forall p d (fill : path -> tree -> tree * outcome) (g : dirc -> option dirc),
  (forall q st sub, get q st = Some sub -> fill q st = frame q st (fill [] sub)) ->
  (forall sub, agrees (fill [] (Dir sub)) (g sub)) ->
  agrees (match stat_existing p (Dir d) with
          | ExDir => fill p (Dir d)
          | ExViaLink => (Dir d, OutsideModel)
          | ExFile _ | ExBad => (Dir d, HardError)
          end)
         (match p with [] => g d | _ => at_path p (into_dir g) d end).
Proof.
  intros p d fill g Hframe Hfill. pose proof (stat_existing_get p (Dir d)) as S.
  destruct (stat_existing p (Dir d)) as [c| | |].
  - (* a regular file *)
    destruct p as [|n p]; [cbn in S; discriminate|]. unfold agrees. cbn [fst snd].
    apply existing_bad; [reflexivity|]. right. right. eauto.
  - destruct S as [sub Hg]. rewrite (Hframe p (Dir d) (Dir sub) Hg). specialize (Hfill sub).
    destruct p as [|n p].
    + cbn in Hg. injection Hg as <-. unfold frame. cbn [put]. destruct (fill [] (Dir d)); exact Hfill.
    + unfold agrees, frame in *. destruct (fill [] (Dir sub)) as [t [| |]]; cbn [fst snd] in *.
      * destruct Hfill as [s' [Hgs ->]].
        apply (existing_ok (n :: p) d (into_dir g) (Dir sub) (Dir s')); [reflexivity | discriminate | exact Hg |].
        cbn. rewrite Hgs. reflexivity.
      * apply existing_bad; [reflexivity|]. right. right. exists (Dir sub). split; [exact Hg|]. cbn. rewrite Hfill. reflexivity.
      * exact I.
  - destruct p as [|n p]; [cbn in S; destruct S as [S|[l S]]; discriminate|]. unfold agrees. cbn [fst snd].
    apply existing_bad; [reflexivity|]. right. destruct S as [S|[l S]]; [left; exact S | right; eauto].
  - unfold agrees. cbn. exact I.
Qed.

Lemma make_denotes : forall e, make_denotes_stmt e.
Proof.
  induction e as [nm m|nm|nm md es IH|nm md src] using entry_ind'; intros d; rewrite make_eq, denote_entry_eq; cbn zeta;
    cbn [entry_name app]; (destruct (name_escapes nm); [unfold agrees; cbn; exact I|]).
  - destruct m as [[[|] c]|]; try apply create_agrees.
    (* file NAME += c *)
    pose proof (stat_existing_get (posix_parts nm) (Dir d)) as S.
    destruct (stat_existing (posix_parts nm) (Dir d)) as [c0| | |].
    + rewrite alter_get, S. cbn [append_text option_map].
      destruct (posix_parts nm) as [|n p] eqn:Ep; [cbn in S; discriminate|].
      apply (existing_ok (n :: p) d (append_text_spec c) (File c0) (File (c0 ++ c))); [reflexivity | discriminate | exact S | reflexivity].
    + destruct S as [sub Hg]. unfold agrees. cbn [fst snd]. apply existing_bad; [reflexivity|].
      destruct (posix_parts nm); [left; reflexivity | right; right; eauto].
    + unfold agrees. cbn [fst snd]. apply existing_bad; [reflexivity|].
      destruct (posix_parts nm); [left; reflexivity | right]. destruct S as [S|[l S]]; [left; exact S | right; eauto].
    + unfold agrees. cbn. exact I.
  - apply create_agrees.
  - destruct md.
    + apply (create_and_fill (posix_parts nm) d (populate es) (denote es)).
      * intros q st sub Hg. apply populate_at. exact Hg.
      * apply populate_denotes_of. exact IH.
    + pose proof (fill_existing (posix_parts nm) d (populate es) (denote es)) as K.
      destruct (posix_parts nm); apply K; try (intros q st sub Hg; apply populate_at; exact Hg); apply populate_denotes_of; exact IH.
  - destruct md.
    + apply (create_and_fill (posix_parts nm) d (copy_into src) (add_copies src)).
      * intros q st sub Hg. apply copy_into_at. exact Hg.
      * apply copy_into_spec.
    + pose proof (fill_existing (posix_parts nm) d (copy_into src) (add_copies src)) as K.
      destruct (posix_parts nm); apply K; try (intros q st sub Hg; apply copy_into_at; exact Hg); apply copy_into_spec.
Qed.

(** The tree [populate] leaves in a directory is the tree the FILE-LIST denotes; it raises a
    HARD_ERROR exactly when the list denotes nothing. *)
Theorem populate_denotes : forall es d, agrees (populate es [] (Dir d)) (denote es d).
Proof. intros es. apply populate_denotes_of. apply Forall_forall. intros e _. apply make_denotes. Qed.
