(** * C10 o C01: the verdicts the program-execution model ([Model/Prog.v]) assigns to the main steps
    of its instructions, run through the executor model ([Model/Exec.v]).

    C10's evaluator [run_case_with] carries its own minimal phase protocol (first non-pass of
    setup / act / before-assert / assert, then cleanup).  Here every instruction of a C10 case is
    given, as its behaviour in Exec's vocabulary, the status C10's [exec_instr] computes for it in the
    state in which it is executed (PASS -> [BOk], FAIL -> [BFail], HARD_ERROR -> [BHardRet]; a
    non-zero exit of the action to check is not a failure: [exec_act] passes); instructions that C10
    does not execute get [BOk] (by Compose_agree_up_to_first_failure they cannot matter).  The
    theorem: Exec's [full_execute] on that test case reports the verdict C10's table predicts, under
    every test-case status, and locates it at the instruction. *)
From Coq Require Import ZArith NArith List Bool Arith Lia.
From Exactly Require Import Lib.Harness Model.Outcome Model.Exec Spec.C01 Spec.C02
  Proofs.ExecSpec Proofs.ExecCorollaries Proofs.OutcomeTable Proofs.PredOnModelC01 Proofs.Compose Proofs.ComposeLib.
From Exactly Require Import Model.Prog.
Import ListNotations.
Local Arguments schedule : simpl never.

(** ** Exec side: test cases whose instructions act only in their main step (act: in execute) *)
Definition main_at (b : beh) : Exec.instr := fun k => match k with SMain => b | _ => BOk end.
Definition exec_at (b : beh) : Exec.instr := fun k => match k with SExecute => b | _ => BOk end.
Definition mains (p : Exec.phase) (prev : option prev_phase) (bs : list beh) : list item :=
  sched_list p SMain prev 0 (map main_at bs).
Definition main_case (bs : list beh) (ba : beh) (bb bas bc : list beh) (mode : Outcome.tc_status) : testcase :=
  Exec.TC [] (map main_at bs) (exec_at ba) (map main_at bb) (map main_at bas) (map main_at bc) mode false.

Definition is_main_step (s : Exec.phase * stepk) : bool :=
  match s with
  | (Exec.Act, SExecute) => true
  | (Exec.Act, _) | (Conf, _) => false
  | (_, SMain) => true
  | _ => false
  end.

Lemma main_case_quiet bs ba bb bas bc mode s :
  is_main_step s = false -> ffail (sched_step (main_case bs ba bb bas bc mode) s) = None.
Proof.
  destruct s as [p k]. intros HQ. unfold sched_step. cbn [fst snd]. apply ffail_quiet. intros i Hin.
  destruct p; cbn [main_case instrs_of tc_conf tc_setup tc_atc tc_before_assert tc_assert tc_cleanup] in Hin;
    try contradiction;
    try (apply in_map_iff in Hin as (b & <- & _); destruct k; try reflexivity; discriminate HQ).
  destruct Hin as [<-|[]]. destruct k; try reflexivity; discriminate HQ.
Qed.

Definition pick_cleanup (fc : option failure) (f : failure) : failure := match fc with Some f' => f' | None => f end.

(** the executor's result on such a case, from the first failures of the four main lists, the act
    behaviour and the cleanup list *)
Lemma main_case_result bs ba bb bas bc mode :
  mode <> TSkip ->
  let tc := main_case bs ba bb bas bc mode in
  let fc prev := ffail (mains Cleanup (Some prev) bc) in
  let reported :=
    match ffail (mains Setup None bs) with
    | Some f => Some (pick_cleanup (fc PSetup) f)
    | None =>
        match option_map (Failure Exec.Act SExecute 0) (Exec.outcome ba) with
        | Some f => Some (pick_cleanup (fc PAct) f)
        | None =>
            match ffail (mains BeforeAssert None bb) with
            | Some f => Some f
            | None =>
                match ffail (mains Assert None bas) with
                | Some f => Some (pick_cleanup (fc PAssert) f)
                | None => fc PAssert
                end
            end
        end
    end in
  fr_failure (snd (full_execute tc)) = reported /\
  fr_status (snd (full_execute tc)) = translate_status mode (option_map f_status reported).
Proof.
  intros Hmode. cbn zeta. rewrite full_result_declarative. cbn [fr_failure fr_status].
  set (tc := main_case bs ba bb bas bc mode).
  assert (Hconf : ffail (conf_plan tc) = None) by reflexivity.
  assert (Hst : tc_status tc = mode) by reflexivity.
  assert (Hcl : forall prev, ffail (sched_cleanup tc prev) = ffail (mains Cleanup (Some prev) bc)) by reflexivity.
  assert (Hsch : ffail (schedule tc) =
            match ffail (mains Setup None bs) with
            | Some f => Some f
            | None => match option_map (Failure Exec.Act SExecute 0) (Exec.outcome ba) with
                      | Some f => Some f
                      | None => match ffail (mains BeforeAssert None bb) with
                                | Some f => Some f
                                | None => ffail (mains Assert None bas)
                                end
                      end
            end).
  { rewrite schedule_ffail, (ffail_steps_filter tc is_main_step).
    2:{ intros s _ HQ. apply main_case_quiet, HQ. }
    change (filter is_main_step (plan_of (tc_act_only tc)))
      with [(Setup, SMain); (Exec.Act, SExecute); (BeforeAssert, SMain); (Assert, SMain)].
    rewrite !ffail_steps_cons. cbn [sched_steps flat_map ffail].
    change (ffail (sched_step tc (Setup, SMain))) with (ffail (mains Setup None bs)).
    change (ffail (sched_step tc (BeforeAssert, SMain))) with (ffail (mains BeforeAssert None bb)).
    change (ffail (sched_step tc (Assert, SMain))) with (ffail (mains Assert None bas)).
    assert (Hact : ffail (sched_step tc (Exec.Act, SExecute)) = option_map (Failure Exec.Act SExecute 0) (Exec.outcome ba)).
    { unfold sched_step. cbn [fst snd instrs_of tc main_case tc_atc sched_list ffail exec_at].
      destruct (Exec.outcome ba); reflexivity. }
    rewrite Hact.
    destruct (ffail (mains Setup None bs)); [reflexivity|].
    destruct (option_map (Failure Exec.Act SExecute 0) (Exec.outcome ba)); [reflexivity|].
    destruct (ffail (mains BeforeAssert None bb)); [reflexivity|].
    destruct (ffail (mains Assert None bas)); reflexivity. }
  unfold verdict, reported_failure. rewrite Hconf, Hst, Hsch.
  assert (Htr : forall x, doc_verdict mode x = translate_status mode x).
  { intros x. rewrite <- verdict_table_no_conf_failure. destruct mode; [reflexivity|contradiction Hmode; reflexivity|reflexivity]. }
  assert (Hmatch : forall x : option failure, match mode with TSkip => None | _ => x end = x)
    by (intros x; destruct mode; [reflexivity|contradiction Hmode; reflexivity|reflexivity]).
  rewrite Htr, Hmatch.
  destruct (ffail (mains Setup None bs)) as [f|] eqn:E1.
  { apply ffail_sched_list in E1 as [Hp Hk]. unfold in_validation, is_main_of, prev_of. rewrite Hp, Hk. cbn [orb].
    rewrite Hcl. unfold pick_cleanup. destruct (ffail (mains Cleanup (Some PSetup) bc)); split; reflexivity. }
  destruct (Exec.outcome ba) as [sa|] eqn:E2; cbn [option_map].
  { unfold in_validation, is_main_of, prev_of. cbn [f_phase f_step orb].
    rewrite Hcl. unfold pick_cleanup. destruct (ffail (mains Cleanup (Some PAct) bc)); split; reflexivity. }
  destruct (ffail (mains BeforeAssert None bb)) as [f|] eqn:E3.
  { apply ffail_sched_list in E3 as [Hp Hk]. unfold in_validation, is_main_of. rewrite Hp, Hk. cbn [orb]. split; reflexivity. }
  destruct (ffail (mains Assert None bas)) as [f|] eqn:E4.
  { apply ffail_sched_list in E4 as [Hp Hk]. unfold in_validation, is_main_of, prev_of. rewrite Hp, Hk. cbn [orb].
    rewrite Hcl. unfold pick_cleanup. destruct (ffail (mains Cleanup (Some PAssert) bc)); split; reflexivity. }
  cbn [prev_of tc_act_only tc main_case]. rewrite Hcl. split; reflexivity.
Qed.

(** ** C10 side *)
Definition beh_of_status (s : status) : beh :=
  match s with StPass => BOk | StFail => BFail | StHard => BHardRet end.
Definition kind_of (s : status) : fail_status := match s with StFail => FFail | _ => FHard end.

Section Lower.
  Variable R : table -> program -> res rprog.
  Variable A : list part -> option text.
  Variable fuel : nat.

  (** the behaviour of every instruction of a phase started in state [st]: the status of its main
      step if it is executed, OK if it is not *)
  Fixpoint phase_behs (ph : phase) (l : list instr) (st : state) : list beh :=
    match l with
    | [] => []
    | i :: l' =>
        match exec_instr R A fuel ph i st with
        | Ok (StPass, st') => BOk :: phase_behs ph l' st'
        | Ok (s, _) => beh_of_status s :: map (fun _ => BOk) l'
        | Err _ => map (fun _ => BOk) l
        end
    end.
  (** number of passing instructions before the first that does not pass *)
  Fixpoint fail_idx (ph : phase) (l : list instr) (st : state) : nat :=
    match l with
    | [] => 0
    | i :: l' =>
        match exec_instr R A fuel ph i st with
        | Ok (StPass, st') => S (fail_idx ph l' st')
        | _ => 0
        end
    end.
  Definition oks (l : list instr) : list beh := map (fun _ => BOk) l.

  Lemma ffail_oks p prev {X} (l : list X) s0 : ffail (sched_list p SMain prev s0 (map main_at (map (fun _ => BOk) l))) = None.
  Proof.
    apply ffail_quiet. intros i Hin. apply in_map_iff in Hin as (b & <- & Hb). apply in_map_iff in Hb as (x & <- & _). reflexivity.
  Qed.

  Lemma phase_behs_ffail p prev ph : forall l st s0 s st',
    exec_phase R A fuel ph l st = Ok (s, st') ->
    ffail (sched_list p SMain prev s0 (map main_at (phase_behs ph l st))) =
    match s with
    | StPass => None
    | _ => Some (Failure p SMain (s0 + fail_idx ph l st) (kind_of s))
    end.
  Proof.
    induction l as [|i l IH]; intros st s0 s st' H; cbn [exec_phase phase_behs fail_idx] in *.
    - injection H as <- _. reflexivity.
    - destruct (exec_instr R A fuel ph i st) as [[[] st1]|e]; [| | |discriminate].
      + cbn [map sched_list ffail snd main_at Exec.outcome option_map]. rewrite (IH _ (S s0) _ _ H).
        destruct s; [reflexivity| |]; do 2 f_equal; lia.
      + injection H as <- _. cbn [map sched_list ffail snd main_at Exec.outcome option_map beh_of_status kind_of].
        rewrite Nat.add_0_r. reflexivity.
      + injection H as <- _. cbn [map sched_list ffail snd main_at Exec.outcome option_map beh_of_status kind_of].
        rewrite Nat.add_0_r. reflexivity.
  Qed.

  (** "located at the instruction": a non-OK behaviour at position [j] is the status [exec_instr]
      computes for the j-th instruction in the state reached after the first [j] passed *)
  Lemma phase_behs_located ph : forall l st j b,
    nth_error (phase_behs ph l st) j = Some b -> b <> BOk ->
    exists i stj s stj',
      nth_error l j = Some i /\ exec_phase R A fuel ph (firstn j l) st = Ok (StPass, stj) /\
      exec_instr R A fuel ph i stj = Ok (s, stj') /\ s <> StPass /\ b = beh_of_status s /\ j = fail_idx ph l st.
  Proof.
    assert (Hoks : forall (X : Type) (l : list X) j b, nth_error (map (fun _ => BOk) l) j = Some b -> b = BOk).
    { intros X l j b H. apply nth_error_In, in_map_iff in H as (x & <- & _). reflexivity. }
    induction l as [|i l IH]; intros st j b Hj Hb; cbn [phase_behs fail_idx] in *; [destruct j; discriminate|].
    destruct (exec_instr R A fuel ph i st) as [[[] st1]|e] eqn:E.
    - destruct j as [|j]; [injection Hj as <-; contradiction|]. cbn [nth_error] in Hj.
      destruct (IH _ _ _ Hj Hb) as (i' & stj & s & stj' & H1 & H2 & H3 & H4 & H5 & H6).
      exists i', stj, s, stj'. cbn [firstn exec_phase nth_error]. rewrite E. repeat split; auto.
    - destruct j as [|j]; [|cbn [nth_error] in Hj; apply Hoks in Hj; contradiction].
      injection Hj as <-. exists i, st, StFail, st1. repeat split; auto. discriminate.
    - destruct j as [|j]; [|cbn [nth_error] in Hj; apply Hoks in Hj; contradiction].
      injection Hj as <-. exists i, st, StHard, st1. repeat split; auto. discriminate.
    - apply (Hoks _ (i :: l)) in Hj. contradiction.
  Qed.

  (** ** The C10 case as a test case of the executor *)
  Definition lower (mode : Outcome.tc_status) (cwd : text) (tbl0 : table) (c : tcase) (oracle : list outcome) : testcase :=
    let st0 := initial_state tbl0 cwd oracle in
    let bc (stc : option state) := match stc with Some st => phase_behs PhCleanup (tc_cleanup c) st | None => oks (tc_cleanup c) end in
    let bs := phase_behs PhSetup (tc_setup c) st0 in
    match exec_phase R A fuel PhSetup (tc_setup c) st0 with
    | Ok (StPass, st1) =>
        match exec_act R A fuel (tc_act c) st1 with
        | Ok (StPass, st2) =>
            let bb := phase_behs PhBefore (tc_before c) st2 in
            match exec_phase R A fuel PhBefore (tc_before c) st2 with
            | Ok (StPass, st3) =>
                let bas := phase_behs PhAssert (tc_assert c) st3 in
                match exec_phase R A fuel PhAssert (tc_assert c) st3 with
                | Ok (_, st4) => main_case bs BOk bb bas (bc (Some st4)) mode
                | Err _ => main_case bs BOk bb bas (bc None) mode
                end
            | Ok (_, st3) => main_case bs BOk bb (oks (tc_assert c)) (bc (Some st3)) mode
            | Err _ => main_case bs BOk bb (oks (tc_assert c)) (bc None) mode
            end
        | Ok (s, st2) => main_case bs (beh_of_status s) (oks (tc_before c)) (oks (tc_assert c)) (bc (Some st2)) mode
        | Err _ => main_case bs BOk (oks (tc_before c)) (oks (tc_assert c)) (bc None) mode
        end
    | Ok (_, st1) => main_case bs BOk (oks (tc_before c)) (oks (tc_assert c)) (bc (Some st1)) mode
    | Err _ => main_case bs BOk (oks (tc_before c)) (oks (tc_assert c)) (bc None) mode
    end.
End Lower.

(** ** The composition *)
Section Compose.
  Variable R : table -> program -> res rprog.
  Variable A : list part -> option text.
  Variable fuel : nat.

  (* [cleanup_and_finish] got two more arguments (C10 builder, model now follows executor.py): [swallow] (true
     on the path from a before-assert failure: a cleanup failure is swallowed) and the phase code of the
     earlier failure. *)
  Lemma cleanup_verdict earlier eph c st res :
    cleanup_and_finish R A fuel false earlier eph c st = Ok res ->
    exists sc stc, exec_phase R A fuel PhCleanup (tc_cleanup c) st = Ok (sc, stc) /\
                   rs_verdict res = match sc with StPass => earlier | _ => sc end /\
                   rs_phase res = match sc with StPass => eph | _ => phase_code PhCleanup end.
  Proof.
    unfold cleanup_and_finish. destruct (exec_phase R A fuel PhCleanup (tc_cleanup c) st) as [[sc stc]|e]; [|discriminate].
    intros H. exists sc, stc. split; [reflexivity|]. destruct sc; injection H as <-; split; reflexivity.
  Qed.

  Lemma cleanup_swallowed_verdict earlier eph c st res :
    cleanup_and_finish R A fuel true earlier eph c st = Ok res -> rs_verdict res = earlier /\ rs_phase res = eph.
  Proof.
    unfold cleanup_and_finish. destruct (exec_phase R A fuel PhCleanup (tc_cleanup c) st) as [[sc stc]|e]; [|discriminate].
    intros H. destruct sc; injection H as <-; split; reflexivity.
  Qed.

  (** C10's phase codes ([Prog.phase_code]) for the executor's phases *)
  Definition code_of_phase (p : Exec.phase) : N :=
    match p with Setup => 1 | Exec.Act => 2 | BeforeAssert => 3 | Assert => 4 | Cleanup => 5 | Conf => 0 end%N.

  Ltac finish_leaf Hmode :=
    match goal with
    | |- context [full_execute (main_case ?bs ?ba ?bb ?bas ?bc ?mode)] =>
        destruct (main_case_result bs ba bb bas bc mode Hmode) as [Hf Hs]; cbn zeta in Hf, Hs; rewrite Hs, Hf
    end.

  Theorem verdict_through_executor mode cwd tbl0 c oracle res :
    run_case_with R A fuel cwd tbl0 c oracle = Ok res -> mode <> TSkip ->
    let r := snd (full_execute (lower R A fuel mode cwd tbl0 c oracle)) in
    fr_status r = translate_status mode (option_map f_status (fr_failure r)) /\
    match fr_failure r with
    | None => rs_verdict res = StPass /\ rs_phase res = 0%N
    | Some f =>
        rs_verdict res <> StPass /\
        f_step f = (match f_phase f with Exec.Act => SExecute | _ => SMain end) /\
        kind_of (rs_verdict res) = f_status f /\
        rs_phase res = code_of_phase (f_phase f)
    end.
  Proof.
    intros Hrun Hmode. cbn zeta. unfold lower, run_case_with in *.
    set (st0 := initial_state tbl0 cwd oracle) in *.
    destruct (exec_phase R A fuel PhSetup (tc_setup c) st0) as [[s1 st1]|e] eqn:E1; [|discriminate].
    pose proof (phase_behs_ffail R A fuel Setup None PhSetup _ _ 0 _ _ E1) as F1. fold (mains Setup None (phase_behs R A fuel PhSetup (tc_setup c) st0)) in F1.
    Ltac leaf_tail :=
      cbn; (split; [reflexivity|]); repeat split; try discriminate; auto;
      try (intros Hx; contradiction Hx; reflexivity).
    destruct s1.
    2,3: (destruct (cleanup_verdict _ _ _ _ _ Hrun) as (sc & stc & Ec & Hv & Hph);
          pose proof (phase_behs_ffail R A fuel Cleanup (Some PSetup) PhCleanup _ _ 0 _ _ Ec) as Fc;
          fold (mains Cleanup (Some PSetup) (phase_behs R A fuel PhCleanup (tc_cleanup c) st1)) in Fc;
          finish_leaf Hmode; rewrite F1, Fc, Hv, Hph; destruct sc; leaf_tail).
    (* setup passes: act *)
    destruct (exec_act R A fuel (tc_act c) st1) as [[s2 st2]|e] eqn:E2; [|discriminate].
    destruct s2.
    2,3: (destruct (cleanup_verdict _ _ _ _ _ Hrun) as (sc & stc & Ec & Hv & Hph);
          pose proof (phase_behs_ffail R A fuel Cleanup (Some PAct) PhCleanup _ _ 0 _ _ Ec) as Fc;
          fold (mains Cleanup (Some PAct) (phase_behs R A fuel PhCleanup (tc_cleanup c) st2)) in Fc;
          finish_leaf Hmode; rewrite F1, Fc, Hv, Hph; cbn [beh_of_status Exec.outcome option_map]; destruct sc; leaf_tail).
    (* act passes: before-assert *)
    destruct (exec_phase R A fuel PhBefore (tc_before c) st2) as [[s3 st3]|e] eqn:E3; [|discriminate].
    pose proof (phase_behs_ffail R A fuel BeforeAssert None PhBefore _ _ 0 _ _ E3) as F3.
    fold (mains BeforeAssert None (phase_behs R A fuel PhBefore (tc_before c) st2)) in F3.
    destruct s3.
    2,3: (destruct (cleanup_swallowed_verdict _ _ _ _ _ Hrun) as [Hv Hph];
          finish_leaf Hmode; rewrite F1, F3, Hv, Hph; cbn [beh_of_status Exec.outcome option_map]; leaf_tail).
    (* before-assert passes: assert, then cleanup *)
    destruct (exec_phase R A fuel PhAssert (tc_assert c) st3) as [[s4 st4]|e] eqn:E4; [|discriminate].
    pose proof (phase_behs_ffail R A fuel Assert None PhAssert _ _ 0 _ _ E4) as F4.
    fold (mains Assert None (phase_behs R A fuel PhAssert (tc_assert c) st3)) in F4.
    destruct s4;
      (destruct (cleanup_verdict _ _ _ _ _ Hrun) as (sc & stc & Ec & Hv & Hph);
       pose proof (phase_behs_ffail R A fuel Cleanup (Some PAssert) PhCleanup _ _ 0 _ _ Ec) as Fc;
       fold (mains Cleanup (Some PAssert) (phase_behs R A fuel PhCleanup (tc_cleanup c) st4)) in Fc;
       finish_leaf Hmode; rewrite F1, F3, F4, Fc, Hv, Hph; cbn [beh_of_status Exec.outcome option_map];
       destruct sc; leaf_tail).
  Qed.
End Compose.

(** the verdict in the executor's own terms, and the exit code *)
Corollary verdict_table R A fuel mode cwd tbl0 c oracle res :
  run_case_with R A fuel cwd tbl0 c oracle = Ok res -> mode <> TSkip ->
  let r := snd (full_execute (lower R A fuel mode cwd tbl0 c oracle)) in
  (fr_failure r = None -> rs_verdict res = StPass /\ rs_phase res = 0%N /\ fr_status r = translate_status mode None) /\
  (forall f, fr_failure r = Some f ->
     fr_status r = translate_status mode (Some (kind_of (rs_verdict res))) /\
     rs_phase res = code_of_phase (f_phase f)).
Proof.
  intros Hrun Hmode. cbn zeta. destruct (verdict_through_executor R A fuel mode cwd tbl0 c oracle res Hrun Hmode) as [Hs Hf].
  cbn zeta in Hs, Hf. split.
  - intros E. rewrite E in *. destruct Hf as [H1 H2]. split; [exact H1|]. split; [exact H2|exact Hs].
  - intros f E. rewrite E in *. destruct Hf as (_ & _ & Hk & Hp). rewrite Hs, Hk. split; [reflexivity|exact Hp].
Qed.

(** The two building blocks of C10's table, as behaviours of Exec: a program run as an instruction
    ([run], [$], [%]) with a non-ignored non-zero exit code is FAIL in [assert] and a hard error
    elsewhere; the action to check passes whatever its exit code. *)
Lemma run_instruction_beh R A fuel ph ign p st o trs w' :
  run_program R A fuel (st_tbl st) (st_cwd st) p [] (st_world st) = EOk (o, trs) w' ->
  phase_behs R A fuel ph [IRun ign p] st =
  [if ign || (o_code o =? 0)%N then BOk else match ph with PhAssert => BFail | _ => BHardRet end].
Proof.
  intros H. cbn [phase_behs exec_instr]. rewrite H. cbn [fst]. unfold exit_code_verdict.
  destruct ign; [reflexivity|]. cbn [orb]. destruct (o_code o =? 0)%N; [reflexivity|]. destruct ph; reflexivity.
Qed.

Lemma act_exit_code_never_fails R A fuel p st o trs w' :
  run_program R A fuel (st_tbl st) (st_cwd st) p (opt_list (st_stdin st)) (st_world st) = EOk (o, trs) w' ->
  exists st', exec_act R A fuel (ActCommand p) st = Ok (StPass, st').
Proof. intros H. cbn [exec_act]. rewrite H. eexists. reflexivity. Qed.

(** ** Non-vacuity *)
Definition prog_p : program := PCmd (Cmd (DSys [FConst [112%N]]) []) acc_empty.
(** [setup]: run -ignore-exit-code (exit 5); [act]: the program exits 9; [before-assert]: run (exit 0);
    [assert]: run (exit 2) then exit-code == 9; [cleanup]: run (exit 0). *)
Definition case_a : tcase :=
  TC [IRun true prog_p] (ActCommand prog_p) [IRun false prog_p] [IRun false prog_p; IExitCode 9] [IRun false prog_p].
Definition oracle_a : list outcome := [Out 5 [] []; Out 9 [] []; Out 0 [] []; Out 2 [] []; Out 0 [] []].
(** [setup]: run (exit 0), run (exit 3): HARD_ERROR; [cleanup] still runs its program *)
Definition case_b : tcase := TC [IRun false prog_p; IRun false prog_p] ActNull [] [IExitCode 0] [IRun false prog_p].
Definition oracle_b : list outcome := [Out 0 [] []; Out 3 [] []; Out 0 [] []].

Example verdict_examples :
  option_map rs_verdict (match run_case 10 [47%N] [] case_a oracle_a with Ok r => Some r | Err _ => None end) = Some StFail /\
  snd (full_execute (lower resolve_tbl assemble_in_order 10 TPass [47%N] [] case_a oracle_a)) =
    FResult FAIL (Some (Failure Assert SMain 0 FFail)) true true /\
  fr_status (snd (full_execute (lower resolve_tbl assemble_in_order 10 TFail [47%N] [] case_a oracle_a))) = XFAIL /\
  option_map rs_verdict (match run_case 10 [47%N] [] case_b oracle_b with Ok r => Some r | Err _ => None end) = Some StHard /\
  snd (full_execute (lower resolve_tbl assemble_in_order 10 TFail [47%N] [] case_b oracle_b)) =
    FResult HARD_ERROR (Some (Failure Setup SMain 1 FHard)) true false /\
  filter is_cleanup_main (fst (full_execute (lower resolve_tbl assemble_in_order 10 TFail [47%N] [] case_b oracle_b))) =
    [EInstr Cleanup SMain 0 (Some PSetup)].
Proof. vm_compute. repeat split. Qed.

(** The restriction "unless the reported failure is in before-assert" is necessary: C10's minimal
    protocol lets a failure of [cleanup] be the verdict also after a failure of [before-assert];
    the executor (as the real [_continue_from_before_assert]) keeps the before-assert failure.
    Witness (not expressible in real test-case syntax: [exit-code] is an [assert] instruction; with
    real instructions both failures are HARD_ERROR and only the location differs): before-assert
    [exit-code == 1] after an act that exits 0, cleanup [run] exiting 1. *)
Definition case_r : tcase := TC [] ActNull [IExitCode 1] [] [IRun false prog_p].
(* was [verdict_after_before_assert_failure_refuted] while Model/Prog.v let the cleanup failure win; the model now
   follows _continue_from_before_assert, and on the former witness model and executor agree (C10 builder). *)
Theorem verdict_after_before_assert_failure_agrees :
  exists res f,
    run_case 10 [47%N] [] case_r [Out 1 [] []] = Ok res /\
    fr_failure (snd (full_execute (lower resolve_tbl assemble_in_order 10 TPass [47%N] [] case_r [Out 1 [] []]))) = Some f /\
    f_phase f = BeforeAssert /\ f_status f = FFail /\ rs_verdict res = StFail /\ kind_of (rs_verdict res) = f_status f.
Proof.
  eexists _, (Failure BeforeAssert SMain 0 FFail). split; [vm_compute; reflexivity|].
  split; [vm_compute; reflexivity|]. cbn. repeat split.
Qed.

(** Location, on concrete cases with real instruction sets ([run] exiting 1 = HARD_ERROR everywhere):
    a before-assert failure followed by a failing cleanup is reported in before-assert by both models;
    a setup (act / assert) failure followed by a failing cleanup is reported in cleanup by both. *)
Definition case_ba_cl : tcase := TC [] ActNull [IRun false prog_p] [] [IRun false prog_p].
Definition case_su_cl : tcase := TC [IRun false prog_p] ActNull [] [] [IRun false prog_p].
Definition case_as_cl : tcase := TC [] ActNull [] [IRun false prog_p] [IRun false prog_p].
Example location_examples :
  let o := [Out 1 [] []; Out 1 [] []] in
  let ph c := option_map rs_phase (match run_case 10 [47%N] [] c o with Ok r => Some r | Err _ => None end) in
  let fx c := option_map (fun f => (f_phase f, f_status f))
                (fr_failure (snd (full_execute (lower resolve_tbl assemble_in_order 10 TPass [47%N] [] c o)))) in
  ph case_ba_cl = Some 3%N /\ fx case_ba_cl = Some (BeforeAssert, FHard) /\
  ph case_su_cl = Some 5%N /\ fx case_su_cl = Some (Cleanup, FHard) /\
  ph case_as_cl = Some 5%N /\ fx case_as_cl = Some (Cleanup, FHard).
Proof. vm_compute. repeat split. Qed.
