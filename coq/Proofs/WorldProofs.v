(** Proofs for C04 (sandbox lifecycle, isolation) and C03 (validation precedes execution). *)
From Coq Require Import List Bool Arith ZArith Lia.
From Exactly Require Import Lib.Harness Model.Outcome Model.Exec Model.World Spec.C01 Proofs.ExecSpec Proofs.ExecCorollaries.
Import ListNotations.

(** ** C04 *)
Lemma cwd_restored keep tc eff w : w_cwd (fst (fst (execute_in_world keep tc eff w))) = w_cwd w.
Proof. unfold execute_in_world. destruct (full_execute tc). reflexivity. Qed.

(** no event changes os.environ: instructions only ever see (and modify) a copy *)
Lemma apply_event_environ eff s e : w_environ (x_world (apply_event eff s e)) = w_environ (x_world s).
Proof. destruct e as [p k i pr| |pr]; cbn; [destruct (eff _)|..]; reflexivity. Qed.
Lemma fold_environ eff t : forall s, w_environ (x_world (fold_left (apply_event eff) t s)) = w_environ (x_world s).
Proof. induction t as [|e t IH]; cbn; intros s; [reflexivity|]. rewrite IH. apply apply_event_environ. Qed.

Lemma environ_untouched keep tc eff w : w_environ (fst (fst (execute_in_world keep tc eff w))) = w_environ w.
Proof.
  unfold execute_in_world. destruct (full_execute tc) as [t r]. cbn.
  set (s := fold_left _ _ _).
  assert (E : w_environ (x_world s) = w_environ w) by (unfold s; rewrite fold_environ; reflexivity).
  destruct (x_root s); [destruct (negb keep && fr_has_sds r)|]; cbn; exact E.
Qed.

(** *** sandbox roots.  State invariant of the fold: at most one sandbox is created, it is fresh,
    and [x_root] remembers it. *)
Definition roots_inv (w0 : world) (s : xstate) : Prop :=
  match x_root s with
  | None => w_roots (x_world s) = w_roots w0 /\ w_next (x_world s) = w_next w0
  | Some r => r = w_next w0 /\ w_roots (x_world s) = r :: w_roots w0
  end.

Lemma apply_event_no_sandbox eff s e : is_sandbox e = false ->
  x_root (apply_event eff s e) = x_root s /\ w_roots (x_world (apply_event eff s e)) = w_roots (x_world s)
  /\ w_next (x_world (apply_event eff s e)) = w_next (x_world s).
Proof. destruct e as [p k i pr| |pr]; cbn; intros H; [destruct (eff _)|discriminate|]; repeat split. Qed.

Lemma fold_no_sandbox eff t : forall s, forallb (fun e => negb (is_sandbox e)) t = true ->
  x_root (fold_left (apply_event eff) t s) = x_root s /\
  w_roots (x_world (fold_left (apply_event eff) t s)) = w_roots (x_world s) /\
  w_next (x_world (fold_left (apply_event eff) t s)) = w_next (x_world s).
Proof.
  induction t as [|e t IH]; cbn; intros s H; [repeat split|].
  apply andb_true_iff in H as [He Ht]. apply negb_true_iff in He.
  destruct (IH (apply_event eff s e) Ht) as (A & B & C).
  destruct (apply_event_no_sandbox eff s e He) as (A' & B' & C'). repeat split; congruence.
Qed.

(** a trace of [full_execute] contains the sandbox event at most once *)
Lemma count_sandbox_tuf_sched_list p k prev : forall is_ idx,
  forallb (fun e => negb (is_sandbox e)) (map fst (tuf (sched_list p k prev idx is_))) = true.
Proof. induction is_ as [|i is' IH]; intros idx; cbn; [reflexivity|]. destruct (outcome (i k)); cbn; auto. Qed.

Lemma no_sandbox_in_items l :
  (forall it, In it l -> is_sandbox (fst it) = false) -> forallb (fun e => negb (is_sandbox e)) (map fst (tuf l)) = true.
Proof.
  intros H. apply forallb_forall. intros e Hin. apply in_map_iff in Hin as (it & <- & Hin).
  apply tuf_incl in Hin. rewrite (H _ Hin). reflexivity.
Qed.

Lemma partial_trace_sandbox_shape tc :
  let t := fst (partial_execute tc) in
  forallb (fun e => negb (is_sandbox e)) t = true \/
  exists t1 t2, t = t1 ++ ESandbox :: t2 /\ forallb (fun e => negb (is_sandbox e)) t1 = true /\
                forallb (fun e => negb (is_sandbox e)) t2 = true.
Proof.
  cbn zeta. destruct (trace_is_plan_prefix_then_cleanup tc) as (cl & E & Hc). rewrite E.
  assert (Hcl : forallb (fun e => negb (is_sandbox e)) cl = true).
  { destruct Hc as [->|(prev & ->)]; [reflexivity|]. apply no_sandbox_in_items.
    intros it Hin. cbn in Hin. destruct Hin as [<-|Hin]; [reflexivity|].
    apply sched_list_events in Hin as (j & i & -> & _). reflexivity. }
  unfold schedule. rewrite tuf_app.
  assert (Hv : forall it, In it (sched_steps tc block_validate) -> is_sandbox (fst it) = false).
  { intros it Hin. apply sched_steps_events in Hin as (p & k & j & _ & ->). reflexivity. }
  destruct (ffail (sched_steps tc block_validate)) eqn:Ef.
  - left. rewrite forallb_app, Hcl, andb_true_r. apply no_sandbox_in_items, Hv.
  - right. exists (map fst (sched_steps tc block_validate)).
    eexists. rewrite map_app, <- app_assoc. cbn [tuf snd map fst]. split; [reflexivity|]. split.
    + apply forallb_forall. intros e Hin. apply in_map_iff in Hin as (it & <- & Hin). rewrite (Hv _ Hin). reflexivity.
    + rewrite forallb_app, Hcl, andb_true_r. apply no_sandbox_in_items.
      intros it Hin. apply in_app_or in Hin as [Hin|Hin]; [apply sched_steps_events in Hin as (p & k & j & _ & ->); reflexivity|].
      apply in_app_or in Hin as [Hin|Hin]; [apply sched_steps_events in Hin as (p & k & j & _ & ->); reflexivity|].
      destruct (tc_act_only tc); [contradiction|].
      apply in_app_or in Hin as [Hin|Hin]; apply sched_list_events in Hin as (j & i & -> & _); reflexivity.
Qed.

Lemma partial_trace_sandbox_shape2 tc :
  let t := fst (partial_execute tc) in
  (forallb (fun e => negb (is_sandbox e)) t = true /\ pr_has_sds (snd (partial_execute tc)) = false) \/
  (exists t1 t2, t = t1 ++ ESandbox :: t2 /\ forallb (fun e => negb (is_sandbox e)) t1 = true /\
                 forallb (fun e => negb (is_sandbox e)) t2 = true) /\ pr_has_sds (snd (partial_execute tc)) = true.
Proof.
  cbn zeta. pose proof (partial_trace_sandbox_shape tc) as Hp. pose proof (cleanup_exactly_once_iff_sandbox tc) as [_ Hs].
  cbn zeta in Hp, Hs. rewrite <- Hs.
  destruct Hp as [Hp|(t1 & t2 & E & H1 & H2)].
  - left. split; [exact Hp|].
    destruct (existsb is_sandbox (fst (partial_execute tc))) eqn:Ex; [|reflexivity].
    apply existsb_exists in Ex as (e & Hin & He). rewrite forallb_forall in Hp. specialize (Hp _ Hin).
    rewrite He in Hp. discriminate.
  - right. split; [exists t1, t2; auto|]. rewrite E, existsb_app. cbn. apply orb_true_r.
Qed.

Lemma full_trace_sandbox_shape tc :
  let t := fst (full_execute tc) in
  (forallb (fun e => negb (is_sandbox e)) t = true /\ fr_has_sds (snd (full_execute tc)) = false) \/
  (exists t1 t2, t = t1 ++ ESandbox :: t2 /\ forallb (fun e => negb (is_sandbox e)) t1 = true /\
                 forallb (fun e => negb (is_sandbox e)) t2 = true) /\ fr_has_sds (snd (full_execute tc)) = true.
Proof.
  cbn zeta. unfold full_execute. rewrite run_step_spec.
  assert (Hc : forallb (fun e => negb (is_sandbox e)) (map fst (tuf (sched_step tc (Conf, SMain)))) = true)
    by apply count_sandbox_tuf_sched_list.
  destruct (ffail (sched_step tc (Conf, SMain))) eqn:Ef; [left; cbn; auto|].
  pose proof (partial_trace_sandbox_shape2 tc) as Hp. cbn zeta in Hp.
  assert (G : forall mode,
    let '(t, pr) := partial_execute tc in
    let full := (map fst (tuf (sched_step tc (Conf, SMain))) ++ t,
                 FResult (translate_status mode (option_map f_status (pr_failure pr))) (pr_failure pr) (pr_has_sds pr) (pr_has_atc_outcome pr)) in
    (forallb (fun e => negb (is_sandbox e)) (fst full) = true /\ fr_has_sds (snd full) = false) \/
    (exists t1 t2, fst full = t1 ++ ESandbox :: t2 /\ forallb (fun e => negb (is_sandbox e)) t1 = true /\
                   forallb (fun e => negb (is_sandbox e)) t2 = true) /\ fr_has_sds (snd full) = true).
  { intros mode. destruct (partial_execute tc) as [t pr]. cbn [fst snd fr_has_sds] in *.
    destruct Hp as [[Hp Hs]|[(t1 & t2 & -> & H1 & H2) Hs]].
    - left. split; [rewrite forallb_app, Hc, Hp; reflexivity|exact Hs].
    - right. split; [|exact Hs].
      exists (map fst (tuf (sched_step tc (Conf, SMain))) ++ t1), t2. rewrite <- app_assoc. split; [reflexivity|].
      split; [rewrite forallb_app, Hc, H1; reflexivity|exact H2]. }
  destruct (tc_status tc) eqn:Es.
  - specialize (G TPass). destruct (partial_execute tc). exact G.
  - left. cbn. auto.
  - specialize (G TFail). destruct (partial_execute tc). exact G.
Qed.

(** Without --keep the set of existing sandbox roots after an execution is what it was before;
    with --keep exactly the one fresh root is added, iff a sandbox was created. *)
Theorem sandbox_removed_or_kept keep tc eff w :
  (forall r, In r (w_roots w) -> r < w_next w) ->
  let '(w', t, r) := execute_in_world keep tc eff w in
  if fr_has_sds r then
    (if keep then w_roots w' = w_next w :: w_roots w else w_roots w' = w_roots w) /\ ~ In (w_next w) (w_roots w)
  else w_roots w' = w_roots w.
Proof.
  intros Hfresh. unfold execute_in_world.
  pose proof (full_trace_sandbox_shape tc) as Hshape. cbn zeta in Hshape.
  destruct (full_execute tc) as [t r]. cbn [fst snd] in Hshape.
  set (s0 := X w (w_environ w) None None).
  destruct Hshape as [[Hno Hsds]|[(t1 & t2 & -> & H1 & H2) Hsds]]; rewrite Hsds.
  - destruct (fold_no_sandbox eff t s0 Hno) as (A & B & C). cbn in A, B. rewrite A. cbn. exact B.
  - rewrite fold_left_app. cbn [fold_left].
    destruct (fold_no_sandbox eff t1 s0 H1) as (A & B & C). cbn in A, B, C.
    set (s1 := fold_left (apply_event eff) t1 s0) in *.
    set (s2 := apply_event eff s1 ESandbox).
    assert (E2 : x_root s2 = Some (w_next w) /\ w_roots (x_world s2) = w_next w :: w_roots w).
    { unfold s2. cbn. rewrite B, C. split; reflexivity. }
    destruct (fold_no_sandbox eff t2 s2 H2) as (A' & B' & C').
    destruct E2 as [E2a E2b]. rewrite A', E2a.
    assert (Hnotin : ~ In (w_next w) (w_roots w)) by (intros Hin; apply Hfresh in Hin; lia).
    split; [|exact Hnotin].
    destruct keep; cbn [negb andb].
    + cbn [w_roots]. rewrite B', E2b. reflexivity.
    + unfold remove_root. cbn [w_roots]. rewrite B', E2b. cbn [filter]. rewrite Nat.eqb_refl. cbn [negb].
      clear - Hnotin. induction (w_roots w) as [|x l IH]; cbn; [reflexivity|].
      destruct (Nat.eqb_spec x (w_next w)) as [->|Hne]; [contradiction Hnotin; left; reflexivity|].
      cbn. f_equal. apply IH. intros Hin. apply Hnotin. right. exact Hin.
Qed.

(** Execution starts with act/ of the fresh sandbox as current directory. *)
Theorem starts_in_act_dir eff tc w t1 t2 :
  fst (full_execute tc) = t1 ++ ESandbox :: t2 ->
  forallb (fun e => negb (is_sandbox e)) t1 = true ->
  w_cwd (x_world (fold_left (apply_event eff) (t1 ++ [ESandbox]) (X w (w_environ w) None None))) = DSub (w_next w) DAct.
Proof.
  intros _ H1. rewrite fold_left_app. cbn.
  destruct (fold_no_sandbox eff t1 (X w (w_environ w) None None) H1) as (_ & _ & C). cbn in C. rewrite C. reflexivity.
Qed.

(** ** C03 *)
(** A test case with a defect that validation detects: nothing is executed. *)
Theorem invalid_case_has_no_effect tc f :
  ffail (sched_steps tc block_validate) = Some f ->
  let (t, r) := partial_execute tc in
  Forall (fun e => is_validation_event e = true) t /\ ~ In ESandbox t /\
  pr_failure r = Some f /\ pr_has_sds r = false /\ pr_has_atc_outcome r = false.
Proof.
  intros Hf. rewrite partial_execute_refines_spec. unfold spec_partial, schedule.
  rewrite tuf_app, ffail_app, Hf.
  assert (Hv : in_validation f = true).
  { apply ffail_sched_steps in Hf. unfold in_validation. cbn in Hf.
    repeat (destruct Hf as [Hf|Hf]; [injection Hf as _ <-; reflexivity|]). contradiction. }
  rewrite Hv. repeat split.
  - apply Forall_map_fst, Forall_forall. intros it Hin. eapply validate_block_is_validation, tuf_incl, Hin.
  - intros Hin. apply in_map_iff in Hin as (it & E & Hin). apply tuf_incl, sched_steps_events in Hin as (p & k & j & _ & E').
    congruence.
Qed.

(** the status of such a failure: validation steps report SYNTAX_ERROR (act parse), VALIDATION_ERROR,
    or the hard/internal error that the validation step itself produced *)
Theorem invalid_case_verdict tc f :
  ffail (sched_steps tc block_validate) = Some f ->
  exists i, nth_error (instrs_of tc (f_phase f)) (f_idx f) = Some i /\ outcome (i (f_step f)) = Some (f_status f)
            /\ in_validation f = true.
Proof.
  intros Hf. pose proof (invalid_case_has_no_effect tc f Hf) as H.
  destruct (partial_execute tc) as [t r] eqn:E. destruct H as (_ & _ & Hr & _).
  pose proof (failure_status_is_that_steps_kind tc f) as G. rewrite E in G. destruct (G Hr) as (i & A & B).
  exists i. repeat split; auto.
  apply ffail_sched_steps in Hf. unfold in_validation. cbn in Hf.
  repeat (destruct Hf as [Hf|Hf]; [injection Hf as _ <-; reflexivity|]). contradiction.
Qed.

(** a file that cannot be read / preprocessed / parsed as a whole: nothing at all happens *)
Theorem access_error_no_execution keep s eff w e :
  access s = StageErr e -> process keep s eff w = (w, [], AccessErr e).
Proof. unfold process. intros ->. reflexivity. Qed.

Theorem parse_error_anywhere_is_access_error s :
  s_readable s = true -> s_preprocess_ok s = true -> s_includes_readable s = true -> s_parses s = false ->
  access s = StageErr ACC_SYNTAX_ERROR.
Proof. unfold access. intros -> -> -> ->. reflexivity. Qed.

(** the [symbol] command never executes anything *)
Theorem symbol_command_no_execution s :
  Forall (fun e => is_validation_event e = true) (fst (symbol_command s)).
Proof.
  unfold symbol_command. destruct (access s) as [tc|e]; [|constructor].
  rewrite run_step_spec.
  assert (Hc : Forall (fun e => is_validation_event e = true) (map fst (tuf (sched_step tc (Conf, SMain))))).
  { apply Forall_map_fst, Forall_forall. intros it Hin. apply tuf_incl, sched_list_events in Hin as (j & i & -> & _). reflexivity. }
  destruct (ffail (sched_step tc (Conf, SMain))); [exact Hc|].
  rewrite run_steps_spec. cbn [fst]. apply Forall_app. split; [exact Hc|].
  apply Forall_map_fst, Forall_forall. intros it Hin. apply tuf_incl, sched_steps_events in Hin as (p & k & j & Hin & ->).
  cbn in Hin. repeat (destruct Hin as [Hin|Hin]; [injection Hin as <- <-; reflexivity|]). contradiction.
Qed.
