(** C13 (part 1, [filter LINE-MATCHER]): the property predicates of [check_icase] and
    [check_lcase] hold of the model's own values - for every matcher expression, every list of
    probed integers, every text (list of line contents) and every oracle table for matchers of
    unknown class - and correspondence on a case implies the property predicate on that case. *)
From Coq Require Import ZArith NArith List Bool Lia.
From Exactly Require Import Lib.Harness Model.Interval Spec.C13 Proofs.IntervalSound Proofs.FilterExact.
Import ListNotations.
Local Open Scope Z_scope.

(** * integer matchers *)
(** the model's own observation: its (pos, inv) pair and its truth value at every probe *)
Definition icase_of_model (m : imatcher) (probes : list Z) : icase :=
  ICase m (interval_of_imatcher true m) (map (fun x => (x, imatches no_ioracle m x)) probes).

Lemma sound_b_true h w x : Sound h w x -> sound_b h w x = true.
Proof. unfold Sound, sound_b. intros [H1 H2]. destruct h; auto. Qed.

Lemma opt_z_eqb_eq (a b : option Z) : option_eqb Z.eqb a b = true <-> a = b.
Proof.
  destruct a as [x|], b as [y|]; cbn; split; intros H; try reflexivity; try discriminate.
  - apply Z.eqb_eq in H. congruence.
  - injection H as ->. apply Z.eqb_refl.
Qed.
Lemma itv_eqb_eq a b : itv_eqb a b = true <-> a = b.
Proof.
  destruct a as [|l1 u1], b as [|l2 u2]; cbn; split; intros H; try reflexivity; try discriminate.
  - apply andb_true_iff in H as [H1 H2]. apply opt_z_eqb_eq in H1, H2. congruence.
  - injection H as -> ->. apply andb_true_iff. split; apply opt_z_eqb_eq; reflexivity.
Qed.

Theorem check_icase_on_model : forall m probes, check_icase (icase_of_model m probes) = (true, true).
Proof.
  intros m probes. unfold check_icase, icase_of_model. cbn [ic_m ic_impl ic_truth].
  rewrite !(proj2 (itv_eqb_eq _ _) eq_refl). cbn [andb]. f_equal.
  - apply forallb_forall. intros xh Hin. apply in_map_iff in Hin as (x & <- & _). apply eqb_reflx.
  - apply forallb_forall. intros xh Hin. apply in_map_iff in Hin as (x & <- & _). cbn [fst snd].
    apply sound_b_true, int_interval_sound.
Qed.

Theorem corr_implies_property_icase : forall c, fst (check_icase c) = true -> snd (check_icase c) = true.
Proof.
  intros [m [ip ii] truth]. unfold check_icase. cbn [ic_m ic_impl ic_truth fst snd pos inv].
  rewrite !andb_true_iff. intros [[H1 H2] H3]. apply itv_eqb_eq in H1, H2.
  rewrite forallb_forall in H3. apply forallb_forall. intros [x h] Hin. specialize (H3 _ Hin). cbn [fst snd] in *.
  apply eqb_prop in H3. subst h.
  replace (WI ip ii) with (interval_of_imatcher true m) by (destruct (interval_of_imatcher true m); cbn in *; congruence).
  apply sound_b_true, int_interval_sound.
Qed.

(** * line matchers *)
Definition lcase_of_model (m : lmatcher) (lines : list N) (otab : list (list N)) : lcase :=
  let lo := tab_loracle otab in
  LCase m lines otab
    (pos (interval_of_lmatcher true m))
    (map (fun nl => lmatches N no_ioracle lo m (fst nl) (snd nl)) (enumerate_from N 1 lines))
    (filter_impl N no_ioracle lo true m lines).

Lemma n_eqb_eq (a b : N) : N.eqb a b = true <-> a = b. Proof. apply N.eqb_eq. Qed.
Lemma bool_eqb_eq (a b : bool) : Bool.eqb a b = true <-> a = b. Proof. apply eqb_true_iff. Qed.

Lemma select_enumerate {line} (f : Z * line -> bool) : forall ls n,
  select (map f (enumerate_from line n ls)) ls = map snd (filter f (enumerate_from line n ls)).
Proof.
  induction ls as [|l ls IH]; intros n; cbn [enumerate_from map select filter]; [reflexivity|].
  destruct (f (n, l)); cbn [map snd]; rewrite IH; reflexivity.
Qed.
Lemma length_enumerate {line} : forall (ls : list line) n, length (enumerate_from line n ls) = length ls.
Proof. induction ls as [|l ls IH]; intros n; cbn; [reflexivity|]. rewrite IH. reflexivity. Qed.
Lemma combine_fst_map {A B} (f : A * B -> bool) (l : list (A * B)) :
  combine (map fst l) (map f l) = map (fun p => (fst p, f p)) l.
Proof. induction l as [|p l IH]; cbn; [reflexivity|]. rewrite IH. reflexivity. Qed.

(** the property predicate on given (pos, truth, out), as a function, so that both theorems
    below can talk about it *)
Lemma lcase_property_of_model m lines otab :
  let lo := tab_loracle otab in
  let numbered := enumerate_from N 1 lines in
  let truth := map (fun nl => lmatches N no_ioracle lo m (fst nl) (snd nl)) numbered in
  list_eqb N.eqb (filter_impl N no_ioracle lo true m lines) (select truth lines) &&
  Nat.eqb (length truth) (length lines) &&
  forallb (fun nh => implb (snd nh) (mem (fst nh) (pos (interval_of_lmatcher true m))))
          (combine (map fst numbered) truth) = true.
Proof.
  cbn zeta. rewrite !andb_true_iff. repeat split.
  - apply (list_eqb_eq _ n_eqb_eq). rewrite filter_exact. unfold filter_spec.
    symmetry. apply (select_enumerate (fun nl => lmatches N no_ioracle (tab_loracle otab) m (fst nl) (snd nl))).
  - apply Nat.eqb_eq. rewrite map_length. apply length_enumerate.
  - rewrite (combine_fst_map (fun nl => lmatches N no_ioracle (tab_loracle otab) m (fst nl) (snd nl))).
    apply forallb_forall. intros nh Hin. apply in_map_iff in Hin as ([n l] & <- & Hin). cbn [fst snd].
    apply (enum_ge N) in Hin. cbn [fst] in Hin.
    destruct (lmatches N no_ioracle (tab_loracle otab) m n l) eqn:E; [|reflexivity]. cbn [implb].
    apply (line_interval_pos_sound no_ioracle (tab_loracle otab) m n l Hin E).
Qed.

Theorem check_lcase_on_model : forall m lines otab, check_lcase (lcase_of_model m lines otab) = (true, true).
Proof.
  intros m lines otab. unfold check_lcase, lcase_of_model.
  cbn [lc_m lc_lines lc_otab lc_impl_pos lc_impl_truth lc_impl_out]. cbn zeta.
  f_equal; [|apply lcase_property_of_model].
  rewrite (proj2 (itv_eqb_eq _ _) eq_refl), (proj2 (list_eqb_eq _ n_eqb_eq _ _) eq_refl),
          (proj2 (list_eqb_eq _ bool_eqb_eq _ _) eq_refl). reflexivity.
Qed.

Theorem corr_implies_property_lcase : forall c, fst (check_lcase c) = true -> snd (check_lcase c) = true.
Proof.
  intros [m lines otab ipos truth out]. unfold check_lcase.
  cbn [lc_m lc_lines lc_otab lc_impl_pos lc_impl_truth lc_impl_out fst snd]. cbn zeta.
  rewrite !andb_true_iff. intros [[H1 H2] H3].
  apply itv_eqb_eq in H1. apply (list_eqb_eq _ n_eqb_eq) in H2. apply (list_eqb_eq _ bool_eqb_eq) in H3.
  subst ipos truth out. rewrite <- !andb_true_iff. apply lcase_property_of_model.
Qed.

(** Non-vacuity: [! line-num ( <= 2 || >= 10 ) && <unknown 0>] on 11 lines; the predicate accepts
    the model's values and rejects: an output that lost a line, an interval that excludes an
    accepted line (what the code before the repair computed for a negated disjunction), a
    truth list of the wrong length; and for integer matchers an unsound inversion. *)
Example c13_predicates_accept_and_reject :
  let im : imatcher := MDisj (MLeaf (ICmp CLe 2)) [MLeaf (ICmp CGe 10)] in
  let m : lmatcher := MConj (MLeaf (LNum (MNeg im))) [MLeaf (LUnknown 0)] in
  let lines := [1;2;3;4;5;6;7;8;9;10;11]%N in
  let otab := [[4;6;8;10]%N] in
  let c := lcase_of_model m lines otab in
  lc_impl_pos c = NE (Some 3) (Some 9) /\ lc_impl_out c = [4;6;8]%N /\ check_lcase c = (true, true) /\
  snd (check_lcase (LCase m lines otab (lc_impl_pos c) (lc_impl_truth c) [4;8]%N)) = false /\
  snd (check_lcase (LCase m lines otab (NE (Some 5) (Some 9)) (lc_impl_truth c) (lc_impl_out c))) = false /\
  snd (check_lcase (LCase m lines otab (lc_impl_pos c) (true :: lc_impl_truth c) (lc_impl_out c))) = false /\
  check_icase (icase_of_model im [0; 2; 5; 10; 12]) = (true, true) /\
  snd (check_icase (ICase im (interval_of_imatcher false im) [(5, false)])) = false.
Proof. vm_compute. repeat split. Qed.
