(** C09: here-documents and text-until-end-of-line (model of parse_rich_string.py). *)
From Coq Require Import NArith List Bool Arith Lia.
From Exactly Require Import Lib.Harness Model.Tok Spec.C09 Proofs.TokLex Proofs.TokStream Proofs.TokTotal.
Import ListNotations.
Local Open Scope N_scope.

Arguments py_isspace : simpl never.
Arguments is_sep : simpl never.
Arguments is_shlex_ws : simpl never.
Arguments is_quote : simpl never.
Arguments naked_char : simpl never.

(** * small facts *)
Lemma text_eqb_eq : forall a b, text_eqb a b = true <-> a = b.
Proof.
  induction a as [|x a IH]; intros [|y b]; cbn; split; intros H; try reflexivity; try discriminate.
  - apply andb_true_iff in H as [H1 H2]. apply N.eqb_eq in H1. apply IH in H2. congruence.
  - injection H as -> ->. rewrite N.eqb_refl. apply IH. reflexivity.
Qed.

Lemma text_eqb_refl : forall a, text_eqb a a = true.
Proof. intros. apply text_eqb_eq. reflexivity. Qed.

Lemma text_eqb_neq : forall a b, text_eqb a b = false <-> a <> b.
Proof.
  intros a b. split.
  - intros H E. apply text_eqb_eq in E. congruence.
  - intros H. destruct (text_eqb a b) eqn:E; [apply text_eqb_eq in E; contradiction | reflexivity].
Qed.

Lemma find_nl_from_no_nl : forall l pos rest,
  no_nl l = true -> find_nl_from (l ++ NL :: rest) pos = Some (pos + length l)%nat.
Proof.
  induction l as [|c l IH]; intros pos rest H.
  - cbn. f_equal. lia.
  - unfold no_nl in H. cbn [existsb] in H. rewrite negb_orb in H. apply andb_true_iff in H as [Hc Hl].
    cbn [app find_nl_from]. rewrite N.eqb_sym. apply negb_true_iff in Hc. rewrite Hc.
    rewrite IH by exact Hl. cbn [length]. f_equal. lia.
Qed.

Lemma find_nl_from_none : forall l pos, no_nl l = true -> find_nl_from l pos = None.
Proof.
  induction l as [|c l IH]; intros pos H; [reflexivity|].
  unfold no_nl in H. cbn [existsb] in H. rewrite negb_orb in H. apply andb_true_iff in H as [Hc Hl].
  cbn [find_nl_from]. rewrite N.eqb_sym. apply negb_true_iff in Hc. rewrite Hc. apply IH. exact Hl.
Qed.

(** the current line when the position is at the end of [pre] *)
Lemma line_with_nl : forall pre l rest fwd,
  no_nl l = true ->
  let src := pre ++ l ++ NL :: rest in
  (forall io head err eof, ts_remaining_part_of_current_line (TS src io (length pre) head err eof) = l) /\
  next_start fwd src (length pre) = (length pre + length l + if fwd then 1 else 0)%nat.
Proof.
  intros pre l rest fwd Hl src.
  assert (Hne : Nat.eqb (length pre) (length src) = false).
  { apply Nat.eqb_neq. unfold src. rewrite !app_length. cbn [length]. lia. }
  assert (Hf : find_nl src (length pre) = Some (length pre + length l)%nat).
  { unfold find_nl, src. rewrite skipn_app_len. apply find_nl_from_no_nl. exact Hl. }
  split.
  - intros. unfold ts_remaining_part_of_current_line. cbn [ts_src ts_start]. rewrite Hne, Hf.
    unfold src. apply slice_mid. reflexivity.
  - unfold next_start. rewrite Hne, Hf. reflexivity.
Qed.

Lemma line_last : forall pre l fwd,
  no_nl l = true ->
  let src := pre ++ l in
  (forall io head err eof, ts_remaining_part_of_current_line (TS src io (length pre) head err eof) = l) /\
  next_start fwd src (length pre) = length src.
Proof.
  intros pre l fwd Hl src. unfold src.
  destruct l as [|c l].
  - rewrite app_nil_r. split.
    + intros. unfold ts_remaining_part_of_current_line. cbn [ts_src ts_start]. rewrite Nat.eqb_refl. reflexivity.
    + unfold next_start. rewrite Nat.eqb_refl. reflexivity.
  - assert (Hne : Nat.eqb (length pre) (length (pre ++ c :: l)) = false).
    { apply Nat.eqb_neq. rewrite app_length. cbn [length]. lia. }
    assert (Hf : find_nl (pre ++ c :: l) (length pre) = None).
    { unfold find_nl. rewrite skipn_app_len. apply find_nl_from_none. exact Hl. }
    split.
    + intros. unfold ts_remaining_part_of_current_line. cbn [ts_src ts_start]. rewrite Hne, Hf. apply skipn_app_len.
    + unfold next_start. rewrite Hne, Hf. reflexivity.
Qed.

(** * the contents loop *)
Section Here.
  Variable alnum : N -> bool.

  (** all lines present, then the marker line *)
  Lemma heredoc_loop_end : forall lines fuel marker acc pre after ts,
    forallb (fun l => no_nl l && negb (text_eqb l marker)) lines = true ->
    no_nl marker = true -> marker <> [] ->
    ts_src ts = pre ++ render_lines lines ++ marker ++ render_after after ->
    ts_start ts = length pre ->
    (length lines < fuel)%nat ->
    exists ts',
      heredoc_contents alnum fuel marker acc ts = Ok (split alnum (lines_content (acc ++ lines)), ts') /\
      ts_src ts' = ts_src ts /\
      ts_start ts' = (length pre + length (render_lines lines) + length marker)%nat.
  Proof.
    induction lines as [|l lines IH]; intros fuel marker acc pre after ts Hlines Hm Hmne Hsrc Hstart Hfuel;
      (destruct fuel as [|fuel]; [lia|]); cbn [heredoc_contents].
    - (* the marker line *)
      cbn [render_lines map concat app] in Hsrc.
      destruct ts as [src io start head err eof]. cbn [ts_src ts_start] in Hsrc, Hstart. subst src start.
      assert (Hcur : tp_has_current_line (TS (pre ++ marker ++ render_after after) io (length pre) head err eof) = true).
      { unfold tp_has_current_line, ts_is_at_end. cbn [ts_src ts_start]. apply negb_true_iff, Nat.eqb_neq.
        rewrite !app_length. destruct marker; [contradiction | cbn [length]; lia]. }
      rewrite Hcur.
      destruct (consume_line_spec false (TS (pre ++ marker ++ render_after after) io (length pre) head err eof))
        as (ts1 & Hc & Hsrc1 & Hst1).
      cbn [ts_src ts_start] in Hsrc1, Hst1.
      assert (Hline : ts_remaining_part_of_current_line (TS (pre ++ marker ++ render_after after) io (length pre) head err eof) = marker
                      /\ next_start false (pre ++ marker ++ render_after after) (length pre) = (length pre + length marker)%nat).
      { destruct after as [a|]; cbn [render_after].
        - destruct (line_with_nl pre marker a false Hm) as [H1 H2]. split; [apply H1 | rewrite H2; lia].
        - rewrite app_nil_r. destruct (line_last pre marker false Hm) as [H1 H2]. split; [apply H1 | rewrite H2, app_length; reflexivity]. }
      destruct Hline as [Hl1 Hl2]. rewrite Hl1 in Hc. rewrite Hc. cbn [bind].
      rewrite text_eqb_refl. rewrite app_nil_r. exists ts1. cbn [ts_src]. repeat split; auto.
      rewrite Hst1, Hl2. cbn [render_lines map concat length]. lia.
    - cbn [forallb] in Hlines. apply andb_true_iff in Hlines as [Hl Hlines]. apply andb_true_iff in Hl as [Hl_nl Hl_ne].
      apply negb_true_iff in Hl_ne.
      change (render_lines (l :: lines)) with ((l ++ [NL]) ++ render_lines lines) in Hsrc.
      rewrite <- !app_assoc in Hsrc. cbn [app] in Hsrc.
      destruct ts as [src io start head err eof]. cbn [ts_src ts_start] in Hsrc, Hstart. subst start.
      set (rest := render_lines lines ++ marker ++ render_after after) in *.
      assert (Hcur : tp_has_current_line (TS src io (length pre) head err eof) = true).
      { unfold tp_has_current_line, ts_is_at_end. cbn [ts_src ts_start]. apply negb_true_iff, Nat.eqb_neq.
        rewrite Hsrc, !app_length. cbn [length]. lia. }
      rewrite Hcur.
      destruct (consume_line_spec false (TS src io (length pre) head err eof)) as (ts1 & Hc & Hsrc1 & Hst1).
      cbn [ts_src ts_start] in Hsrc1, Hst1.
      destruct (line_with_nl pre l rest false Hl_nl) as [H1 H2]. rewrite <- Hsrc in H1, H2.
      rewrite H1 in Hc. rewrite Hc. cbn [bind]. rewrite Hl_ne.
      (* second call: forward to the next line *)
      destruct ts1 as [src1 io1 start1 head1 err1 eof1]. cbn [ts_src ts_start] in Hsrc1, Hst1. subst src1.
      rewrite H2 in Hst1. rewrite Nat.add_0_r in Hst1. subst start1.
      destruct (consume_line_spec true (TS src io1 (length pre + length l) head1 err1 eof1)) as (ts2 & Hc2 & Hsrc2 & Hst2).
      cbn [ts_src ts_start] in Hsrc2, Hst2.
      assert (Hsrc' : src = (pre ++ l) ++ [] ++ NL :: rest) by (rewrite Hsrc, <- app_assoc; reflexivity).
      destruct (line_with_nl (pre ++ l) [] rest true eq_refl) as [H3 H4]. rewrite <- Hsrc' in H3, H4.
      rewrite app_length in H3, H4.
      rewrite H3 in Hc2. rewrite Hc2. cbn [bind snd].
      rewrite H4 in Hst2. cbn [length] in Hst2.
      destruct (IH fuel marker (acc ++ [l]) (pre ++ l ++ [NL]) after ts2) as (ts' & Hr & Hs' & Hp'); auto.
      + rewrite Hsrc2, Hsrc. rewrite <- !app_assoc. reflexivity.
      + rewrite Hst2, !app_length. cbn [length]. lia.
      + cbn [length] in Hfuel. lia.
      + rewrite Hr. exists ts'. rewrite <- app_assoc. cbn [app]. split; [reflexivity|]. split; [cbn [ts_src]; congruence|].
        rewrite Hp'. change (render_lines (l :: lines)) with ((l ++ [NL]) ++ render_lines lines).
        rewrite !app_length. cbn [length]. lia.
  Qed.

  (** no marker line: end of file is reached *)
  Lemma heredoc_loop_missing : forall lines fuel marker acc pre last ts,
    forallb (fun l => no_nl l && negb (text_eqb l marker)) lines = true ->
    match last with Some l => no_nl l = true /\ l <> marker | None => True end ->
    ts_src ts = pre ++ render_lines lines ++ match last with Some l => l | None => [] end ->
    ts_start ts = length pre ->
    (S (length lines) < fuel)%nat ->
    heredoc_contents alnum fuel marker acc ts = Raise ExInvalidArg.
  Proof.
    induction lines as [|l lines IH]; intros fuel marker acc pre last ts Hlines Hlast Hsrc Hstart Hfuel;
      (destruct fuel as [|fuel]; [lia|]); cbn [heredoc_contents].
    - cbn [render_lines map concat app] in Hsrc.
      destruct ts as [src io start head err eof]. cbn [ts_src ts_start] in Hsrc, Hstart. subst src start.
      destruct last as [l|].
      + destruct Hlast as [Hl Hne].
        destruct (tp_has_current_line (TS (pre ++ l) io (length pre) head err eof)) eqn:Hcur; [|reflexivity].
        destruct (consume_line_spec false (TS (pre ++ l) io (length pre) head err eof)) as (ts1 & Hc & Hsrc1 & Hst1).
        cbn [ts_src ts_start] in Hsrc1, Hst1.
        destruct (line_last pre l false Hl) as [H1 H2]. rewrite H1 in Hc. rewrite Hc. cbn [bind].
        apply text_eqb_neq in Hne. rewrite Hne.
        destruct (consume_line_spec true ts1) as (ts2 & Hc2 & Hsrc2 & Hst2).
        rewrite Hc2. cbn [bind snd].
        destruct fuel as [|fuel]; [lia|]. cbn [heredoc_contents].
        assert (Hend : tp_has_current_line ts2 = false).
        { unfold tp_has_current_line, ts_is_at_end. rewrite Hst2, Hsrc2, Hst1, Hsrc1, H2.
          unfold next_start. rewrite Nat.eqb_refl. rewrite Nat.eqb_refl. reflexivity. }
        rewrite Hend. reflexivity.
      + rewrite app_nil_r.
        assert (Hend : tp_has_current_line (TS pre io (length pre) head err eof) = false).
        { unfold tp_has_current_line, ts_is_at_end. cbn [ts_src ts_start]. rewrite Nat.eqb_refl. reflexivity. }
        rewrite Hend. reflexivity.
    - cbn [forallb] in Hlines. apply andb_true_iff in Hlines as [Hl Hlines]. apply andb_true_iff in Hl as [Hl_nl Hl_ne].
      apply negb_true_iff in Hl_ne.
      change (render_lines (l :: lines)) with ((l ++ [NL]) ++ render_lines lines) in Hsrc.
      rewrite <- !app_assoc in Hsrc. cbn [app] in Hsrc.
      destruct ts as [src io start head err eof]. cbn [ts_src ts_start] in Hsrc, Hstart. subst start.
      set (rest := render_lines lines ++ match last with Some l0 => l0 | None => [] end) in *.
      assert (Hcur : tp_has_current_line (TS src io (length pre) head err eof) = true).
      { unfold tp_has_current_line, ts_is_at_end. cbn [ts_src ts_start]. apply negb_true_iff, Nat.eqb_neq.
        rewrite Hsrc, !app_length. cbn [length]. lia. }
      rewrite Hcur.
      destruct (consume_line_spec false (TS src io (length pre) head err eof)) as (ts1 & Hc & Hsrc1 & Hst1).
      cbn [ts_src ts_start] in Hsrc1, Hst1.
      destruct (line_with_nl pre l rest false Hl_nl) as [H1 H2]. rewrite <- Hsrc in H1, H2.
      rewrite H1 in Hc. rewrite Hc. cbn [bind]. rewrite Hl_ne.
      destruct ts1 as [src1 io1 start1 head1 err1 eof1]. cbn [ts_src ts_start] in Hsrc1, Hst1. subst src1.
      rewrite H2 in Hst1. rewrite Nat.add_0_r in Hst1. subst start1.
      destruct (consume_line_spec true (TS src io1 (length pre + length l) head1 err1 eof1)) as (ts2 & Hc2 & Hsrc2 & Hst2).
      cbn [ts_src ts_start] in Hsrc2, Hst2.
      assert (Hsrc' : src = (pre ++ l) ++ [] ++ NL :: rest) by (rewrite Hsrc, <- app_assoc; reflexivity).
      destruct (line_with_nl (pre ++ l) [] rest true eq_refl) as [H3 H4]. rewrite <- Hsrc' in H3, H4.
      rewrite app_length in H3, H4.
      rewrite H3 in Hc2. rewrite Hc2. cbn [bind snd].
      rewrite H4 in Hst2. cbn [length] in Hst2.
      apply (IH fuel marker (acc ++ [l]) (pre ++ l ++ [NL]) last ts2); auto.
      + rewrite Hsrc2, Hsrc. rewrite <- !app_assoc. reflexivity.
      + rewrite Hst2, !app_length. cbn [length]. lia.
      + cbn [length] in Hfuel. lia.
  Qed.
End Here.

(** * entering a here-document *)
Lemma is_marker_char_spec : forall c, is_marker_char c = marker_char c.
Proof.
  intros c. unfold is_marker_char, marker_char.
  destruct (48 <=? c), (c <=? 57), (97 <=? c), (c <=? 122), (65 <=? c), (c <=? 90), (c =? 95), (c =? 45); reflexivity.
Qed.

Lemma marker_char_naked : forall c, marker_char c = true -> naked_char c = true.
Proof.
  intros c H. unfold marker_char in H. unfold naked_char, py_isspace, py_space_chars, DQ, SQ. cbn [existsb].
  rewrite !orb_true_iff, !andb_true_iff, !N.leb_le, !N.eqb_eq in H.
  repeat match goal with |- context [c =? ?k] => let E := fresh "E" in destruct (c =? k) eqn:E; [apply N.eqb_eq in E; lia | clear E] end.
  repeat match goal with |- context [?k =? c] => let E := fresh "E" in destruct (k =? c) eqn:E; [apply N.eqb_eq in E; lia | clear E] end.
  reflexivity.
Qed.

Lemma marker_no_nl : forall m, forallb marker_char m = true -> no_nl m = true.
Proof.
  induction m as [|c m IH]; intros H; [reflexivity|].
  cbn in H. apply andb_true_iff in H as [Hc Hm]. unfold no_nl. cbn [existsb]. rewrite negb_orb.
  apply andb_true_iff. split; [|apply IH; assumption].
  apply negb_true_iff, N.eqb_neq. intros <-. unfold marker_char, NL in Hc. cbn in Hc. discriminate.
Qed.

Lemma strip_py_spaces : forall s, forallb py_isspace s = true -> strip_py s = [].
Proof.
  intros s H. unfold strip_py, strip_by. rewrite <- (app_nil_r s). rewrite lstrip_spaces by assumption. reflexivity.
Qed.

Lemma sep_no_nl_facts : forall s, forallb is_sep_no_nl s = true ->
  forallb is_sep s = true /\ no_nl s = true /\ forallb py_isspace s = true.
Proof.
  induction s as [|c s IH]; intros H; [auto|].
  cbn [forallb] in H. apply andb_true_iff in H as [Hc Hs]. destruct (IH Hs) as (I1 & I2 & I3).
  unfold is_sep_no_nl in Hc. rewrite !orb_true_iff, !N.eqb_eq in Hc.
  assert (Hc' : is_sep c = true /\ (NL =? c) = false /\ py_isspace c = true) by (destruct Hc as [[-> | ->] | ->]; auto).
  destruct Hc' as (C1 & C2 & C3).
  cbn [forallb]. rewrite C1, C3, I1, I3. unfold no_nl in *. cbn [existsb]. rewrite C2. auto.
Qed.

Section HereTop.
  Variable alnum : N -> bool.

  Definition here_tok (marker : text) : stoken := [Naked ([60; 60] ++ marker)].

  Lemma here_tok_wf : forall marker, forallb marker_char marker = true -> wf_tok (here_tok marker) = true.
  Proof.
    intros marker H. unfold wf_tok, here_tok. cbn [nonempty forallb wf_frag app andb].
    rewrite andb_true_r.
    assert (forallb naked_char marker = true).
    { clear -H. induction marker as [|c m IH]; [reflexivity|]. cbn in H |- *. apply andb_true_iff in H as [Hc Hm].
      rewrite (marker_char_naked _ Hc), IH by assumption. reflexivity. }
    cbn [forallb]. rewrite H0. reflexivity.
  Qed.

  (** after [lead <<MARKER trail NL] the parser is in the contents loop, positioned at [body] *)
  Lemma heredoc_enter : forall lead marker trail body,
    forallb is_sep lead = true -> marker <> [] -> forallb marker_char marker = true ->
    forallb is_sep_no_nl trail = true ->
    let src := lead ++ [60; 60] ++ marker ++ trail ++ NL :: body in
    exists ts0 ts2,
      ts_init src = Ok ts0 /\
      rich_string_parse alnum ts0 = heredoc_contents alnum (S (length src)) marker [] ts2 /\
      ts_src ts2 = src /\
      ts_start ts2 = length (lead ++ [60; 60] ++ marker ++ trail ++ [NL]).
  Proof.
    intros lead marker trail body Hlead Hmne Hm Htrail src.
    destruct (sep_no_nl_facts _ Htrail) as (Ht1 & Ht2 & Ht3).
    pose proof (here_tok_wf marker Hm) as Hwf.
    set (tk := [60; 60] ++ marker).
    assert (Etk : render_tok (here_tok marker) = tk) by (unfold render_tok, here_tok; cbn; rewrite app_nil_r; reflexivity).
    assert (Hr : rest_ok (trail ++ NL :: body)).
    { right. destruct trail as [|c tr]; [exists NL, body; auto|].
      cbn in Ht1. apply andb_true_iff in Ht1 as [Hc _]. exists c. eexists. split; [reflexivity | assumption]. }
    pose proof (consume_token [] lead (here_tok marker) (trail ++ NL :: body) 0%nat None Hlead Hwf Hr) as H0.
    rewrite Etk in H0. cbn [app length] in H0.
    assert (Esrc : lead ++ tk ++ trail ++ NL :: body = src) by (unfold src, tk; rewrite <- !app_assoc; reflexivity).
    rewrite Esrc in H0.
    set (io0 := (0 + length lead + length tk + adv (trail ++ NL :: body))%nat) in *.
    unfold ts_init. rewrite H0. cbn [bind snd].
    eexists. 
    set (ts0 := TS src io0 0 (Some (spec_token (here_tok marker))) false (hits_eof (trail ++ NL :: body))).
    (* the parser *)
    destruct (consume_total ts0 eq_refl) as (ts1 & Hc1 & Hsrc1 & Hst1). cbn [ts_src ts_io ts0] in Hsrc1, Hst1.
    (* position io0 and the rest of the marker line *)
    assert (Hpos : exists pre1 l1, src = pre1 ++ l1 ++ NL :: body /\ io0 = length pre1 /\ no_nl l1 = true /\
                                   forallb py_isspace l1 = true /\
                                   (length pre1 + length l1 + 1)%nat = length (lead ++ [60; 60] ++ marker ++ trail ++ [NL])).
    { unfold io0. destruct trail as [|c tr].
      - exists (lead ++ tk), []. cbn [app adv]. rewrite N.eqb_refl. repeat split; auto.
        + rewrite <- Esrc, <- app_assoc. reflexivity.
        + rewrite app_length. lia.
        + unfold tk. rewrite !app_length. cbn [length]. rewrite !app_length. cbn [length]. lia.
      - exists (lead ++ tk ++ [c]), tr. cbn [app adv].
        assert (Hc : (c =? NL) = false).
        { unfold no_nl in Ht2. cbn [existsb] in Ht2. rewrite negb_orb in Ht2. apply andb_true_iff in Ht2 as [Hc _].
          apply negb_true_iff in Hc. rewrite N.eqb_sym. exact Hc. }
        rewrite Hc. cbn in Ht3. apply andb_true_iff in Ht3 as [_ Ht3'].
        unfold no_nl in Ht2. cbn [existsb] in Ht2. rewrite negb_orb in Ht2. apply andb_true_iff in Ht2 as [_ Ht2'].
        repeat split; auto.
        + rewrite <- Esrc, <- !app_assoc. reflexivity.
        + rewrite !app_length. cbn [length]. lia.
        + unfold tk. rewrite !app_length. cbn [length]. rewrite !app_length. cbn [length]. rewrite !app_length. cbn [length]. lia. }
    destruct Hpos as (pre1 & l1 & Esrc1 & Eio & Hl1 & Hl1s & Elen).
    destruct ts1 as [src1 io1 start1 head1 err1 eof1]. cbn [ts_src ts_start] in Hsrc1, Hst1. subst src1 start1.
    destruct (line_with_nl pre1 l1 body true Hl1) as [Hrem Hnext]. rewrite <- Esrc1 in Hrem, Hnext. rewrite <- Eio in Hrem, Hnext.
    destruct (consume_line_spec true (TS src io1 io0 head1 err1 eof1)) as (ts2 & Hc2 & Hsrc2 & Hst2).
    cbn [ts_src ts_start] in Hsrc2, Hst2. rewrite Hrem in Hc2. rewrite Hnext in Hst2.
    exists ts2. split; [reflexivity|]. split; [|split; [assumption | rewrite Hst2, Eio; exact Elen]].
    assert (Ety : tok_type (here_tok marker) = PLAIN) by reflexivity.
    assert (Echars : chars_tok (here_tok marker) = 60 :: 60 :: marker) by (unfold chars_tok, here_tok; cbn; rewrite app_nil_r; reflexivity).
    subst ts0. unfold spec_token in *. rewrite Ety, Echars, Etk in *.
    unfold rich_string_parse.
    cbn [tp_require_has_valid_head_token look_ahead_state ts_head bind t_source].
    unfold tk at 1. cbn [app starts_with_here_doc_prefix].
    unfold heredoc_parse. cbn [tp_require_has_valid_head_token look_ahead_state ts_head bind is_quoted is_plain t_type negb].
    rewrite Hc1. cbn [bind snd t_string here_doc_marker ts_src].
    assert (Hmk : nonempty marker && forallb is_marker_char marker = true).
    { assert (G : forallb is_marker_char marker = true).
      { clear -Hm. induction marker as [|c m IH]; [reflexivity|]. cbn in Hm |- *. apply andb_true_iff in Hm as [Hc Hm].
        rewrite is_marker_char_spec, Hc, IH by assumption. reflexivity. }
      destruct marker; [contradiction|]. cbn [nonempty andb]. exact G. }
    rewrite Hmk.
    unfold tp_report_superfluous. rewrite Hrem. rewrite strip_py_spaces by assumption. cbn [nonempty bind].
    rewrite Hc2. cbn [bind snd]. reflexivity.
  Qed.
End HereTop.

Section HereTheorems.
  Variable alnum : N -> bool.

  Lemma lines_length : forall (lines : list text), (length lines <= length (render_lines lines))%nat.
  Proof.
    induction lines as [|l ls IH]; [cbn; lia|].
    change (render_lines (l :: ls)) with ((l ++ [NL]) ++ render_lines ls). rewrite !app_length. cbn [length]. lia.
  Qed.

  (** C09_heredoc_exact: the here-document  lead <<MARKER trail NL line1 NL ... linek NL MARKER [NL after]
      denotes exactly its lines, each with its new-line, whatever the lines look like (other
      markers, section headers, comments, quotes, any white space), as long as none of them IS the
      marker; the parser stops right after the end marker. *)
  Theorem heredoc_exact : forall lead marker trail lines after,
    forallb is_sep lead = true ->
    wf_rich (RHere marker trail lines (HEnd after)) = true ->
    exists ts ts',
      ts_init (lead ++ render_rich (RHere marker trail lines (HEnd after))) = Ok ts /\
      rich_string_parse alnum ts = Ok (split alnum (render_lines lines), ts') /\
      ts_position ts' = length (lead ++ [60; 60] ++ marker ++ trail ++ [NL] ++ render_lines lines ++ marker).
  Proof.
    intros lead marker trail lines after Hlead Hwf.
    cbn [wf_rich] in Hwf. rewrite !andb_true_iff in Hwf. destruct Hwf as [[[[Hmne Hm] Htrail] Hlines] _].
    assert (Hmne' : marker <> []) by (destruct marker; [discriminate | discriminate]).
    cbn [render_rich].
    set (body := render_lines lines ++ marker ++ render_after after).
    destruct (heredoc_enter alnum lead marker trail body Hlead Hmne' Hm Htrail) as (ts0 & ts2 & Hinit & Hparse & Hsrc2 & Hst2).
    change (lead ++ [60; 60] ++ marker ++ trail ++ [NL] ++ body) with (lead ++ [60; 60] ++ marker ++ trail ++ NL :: body).
    exists ts0.
    destruct (heredoc_loop_end alnum lines (S (length (lead ++ [60; 60] ++ marker ++ trail ++ NL :: body))) marker []
                (lead ++ [60; 60] ++ marker ++ trail ++ [NL]) after ts2) as (ts' & Hloop & _ & Hpos); auto.
    - apply marker_no_nl. assumption.
    - rewrite Hsrc2. rewrite <- !app_assoc. reflexivity.
    - pose proof (lines_length lines). unfold body. len.
    - exists ts'. split; [assumption|]. split; [rewrite Hparse; exact Hloop|].
      unfold ts_position. rewrite Hpos. len.
  Qed.

  (** C09_unterminated_is_error (here-document): no line equal to the marker up to the end of the
      source: a syntax error (SingleInstructionInvalidArgumentException) *)
  Theorem heredoc_unterminated : forall lead marker trail lines last,
    forallb is_sep lead = true ->
    wf_rich (RHere marker trail lines (HMissing last)) = true ->
    exists ts,
      ts_init (lead ++ render_rich (RHere marker trail lines (HMissing last))) = Ok ts /\
      rich_string_parse alnum ts = Raise ExInvalidArg.
  Proof.
    intros lead marker trail lines last Hlead Hwf.
    cbn [wf_rich] in Hwf. rewrite !andb_true_iff in Hwf. destruct Hwf as [[[[Hmne Hm] Htrail] Hlines] Hlast].
    assert (Hmne' : marker <> []) by (destruct marker; [discriminate | discriminate]).
    cbn [render_rich].
    set (tail := match last with Some l => l | None => [] end).
    set (body := render_lines lines ++ tail).
    destruct (heredoc_enter alnum lead marker trail body Hlead Hmne' Hm Htrail) as (ts0 & ts2 & Hinit & Hparse & Hsrc2 & Hst2).
    replace (match last with None => [] | Some l => l end) with tail by (unfold tail; destruct last; reflexivity).
    change (lead ++ [60; 60] ++ marker ++ trail ++ [NL] ++ render_lines lines ++ tail)
      with (lead ++ [60; 60] ++ marker ++ trail ++ NL :: body).
    exists ts0. split; [assumption|]. rewrite Hparse.
    apply (heredoc_loop_missing alnum lines _ marker [] (lead ++ [60; 60] ++ marker ++ trail ++ [NL]) last ts2); auto.
    - destruct last as [l|]; [|exact I]. rewrite !andb_true_iff in Hlast. destruct Hlast as [[H1 H2] _].
      split; [assumption|]. apply negb_true_iff in H2. apply text_eqb_neq. assumption.
    - rewrite Hsrc2. unfold body, tail. rewrite <- !app_assoc. reflexivity.
    - pose proof (lines_length lines). unfold body. len.
  Qed.
End HereTheorems.
