(** C04: the property half of [check_c04] is true of the world model's own values, for ALL test
    cases, chdir effects and --keep or not.

    [check_c04] compares five observation fields with [execute_in_world] (cwd restored, environ the
    same, sandbox roots existing afterwards, sandbox roots created, has_sds).  Two further fields are
    observations the correspondence half does not compare:
      - [d_obs_cwd_is_act_at_first_post_sds_step]: the model HAS a value for it
        ([x_cwd_after_sandbox], the current directory right after the sandbox event) - it is used below;
      - [d_obs_layout_ok]: the directory layout created by [construct_at] is file-system behaviour
        outside the model (Props/C04.v says so); it stays a free variable of the statements.
    Proved: on the model's values the property half is exactly [opt_true layout]; and for every
    case, correspondence forces the five compared conjuncts of the property half to hold. *)
From Coq Require Import List Bool Arith Lia.
From Exactly Require Import Lib.Harness Model.Outcome Model.Exec Model.World Spec.C01 Spec.C04 Proofs.WorldProofs.
Import ListNotations.

(** the model's value of "the current directory is act/ of the sandbox at the first step after the
    sandbox was created"; [None] when no sandbox is created *)
Definition model_cwd_is_act (tc : testcase) (eff : effects) (w : world) : option bool :=
  let s := fold_left (apply_event eff) (fst (full_execute tc)) (X w (w_environ w) None None) in
  match x_cwd_after_sandbox s, x_root s with
  | Some d, Some r => Some (dir_eqb d (DSub r DAct))
  | Some _, None => Some false
  | None, _ => None
  end.

(** The observation built from the model's own values ([layout] is not modelled). *)
Definition obs_of_model_c04 (keep : bool) (tc : testcase) (evs : list event) (layout : option bool) : c04_case :=
  let '(w', t, r) := execute_in_world keep tc (eff_of evs) w0 in
  C04Case tc keep evs
    (dir_eqb (w_cwd w') (w_cwd w0))
    (list_eqb (pair_eqb Nat.eqb Nat.eqb) (w_environ w') (w_environ w0))
    (if fr_has_sds r then 1 else 0)
    (length (w_roots w'))
    (fr_has_sds r)
    (model_cwd_is_act tc (eff_of evs) w0)
    layout.

Lemma dir_eqb_refl d : dir_eqb d d = true.
Proof. destruct d as [n|r|r []]; cbn; rewrite ?Nat.eqb_refl; reflexivity. Qed.

(** the sandbox invariant of the fold: the directory recorded at the sandbox event is act/ of the
    recorded root *)
Lemma cwd_after_sandbox_inv eff t : forall s,
  x_cwd_after_sandbox s = option_map (fun r => DSub r DAct) (x_root s) ->
  x_cwd_after_sandbox (fold_left (apply_event eff) t s) =
  option_map (fun r => DSub r DAct) (x_root (fold_left (apply_event eff) t s)).
Proof.
  induction t as [|e t IH]; cbn [fold_left]; intros s H; [exact H|]. apply IH.
  destruct e as [p k i pr| |pr]; cbn; [destruct (eff _); cbn; exact H|reflexivity|exact H].
Qed.

Theorem model_cwd_is_act_true tc eff w :
  model_cwd_is_act tc eff w = None \/ model_cwd_is_act tc eff w = Some true.
Proof.
  unfold model_cwd_is_act.
  pose proof (cwd_after_sandbox_inv eff (fst (full_execute tc)) (X w (w_environ w) None None) eq_refl) as H.
  destruct (x_root _) as [r|]; cbn in H; rewrite H; [right; rewrite dir_eqb_refl; reflexivity|left; reflexivity].
Qed.

(** what the world model guarantees about the five compared values *)
Lemma model_values keep tc evs :
  let '(w', t, r) := execute_in_world keep tc (eff_of evs) w0 in
  dir_eqb (w_cwd w') (w_cwd w0) = true /\
  list_eqb (pair_eqb Nat.eqb Nat.eqb) (w_environ w') (w_environ w0) = true /\
  length (w_roots w') = (if keep && fr_has_sds r then 1 else 0).
Proof.
  pose proof (cwd_restored keep tc (eff_of evs) w0) as H1.
  pose proof (environ_untouched keep tc (eff_of evs) w0) as H2.
  assert (Hfresh : forall r, In r (w_roots w0) -> r < w_next w0) by (intros r []).
  pose proof (sandbox_removed_or_kept keep tc (eff_of evs) w0 Hfresh) as H3.
  destruct (execute_in_world keep tc (eff_of evs) w0) as [[w' t] r]. cbn [fst] in H1, H2.
  rewrite H1, H2. split; [apply dir_eqb_refl|]. split; [reflexivity|].
  destruct (fr_has_sds r); [destruct H3 as [H3 _]|]; destruct keep; rewrite H3; reflexivity.
Qed.

(** On the model's own values the property half is true up to the unmodelled layout observation,
    and the correspondence half is true. *)
Theorem check_c04_on_model : forall keep tc evs layout,
  check_c04 (obs_of_model_c04 keep tc evs layout) = (true, opt_true layout).
Proof.
  intros keep tc evs layout. unfold obs_of_model_c04.
  pose proof (model_values keep tc evs) as H. pose proof (model_cwd_is_act_true tc (eff_of evs) w0) as Hc.
  destruct (execute_in_world keep tc (eff_of evs) w0) as [[w' t] r] eqn:E.
  destruct H as (H1 & H2 & H3). unfold check_c04.
  cbn [d_tc d_keep d_chdir_events d_obs_cwd_restored d_obs_environ_same d_obs_created d_obs_exist_after d_obs_has_sds
       d_obs_cwd_is_act_at_first_post_sds_step d_obs_layout_ok].
  rewrite E, H1, H2, H3, !Nat.eqb_refl, !eqb_reflx. cbn [andb Bool.eqb].
  f_equal. destruct Hc as [-> | ->]; reflexivity.
Qed.

(** For EVERY case: when the correspondence half holds, the five conjuncts of the property half
    that speak about modelled behaviour hold; what remains are the two pure observations. *)
Theorem corr_implies_property_c04 : forall c,
  fst (check_c04 c) = true ->
  snd (check_c04 c) = opt_true (d_obs_cwd_is_act_at_first_post_sds_step c) && opt_true (d_obs_layout_ok c).
Proof.
  intros c. unfold check_c04. pose proof (model_values (d_keep c) (d_tc c) (d_chdir_events c)) as H.
  destruct (execute_in_world (d_keep c) (d_tc c) (eff_of (d_chdir_events c)) w0) as [[w' t] r].
  destruct H as (H1 & H2 & H3). cbn [fst snd]. rewrite H1, H2, H3, !andb_true_iff.
  intros [[[[C1 C2] C3] C4] C5]. apply eqb_prop in C1, C2, C5. apply Nat.eqb_eq in C3, C4.
  rewrite <- C1, <- C2, <- C3, <- C4, <- C5, !Nat.eqb_refl. cbn [andb]. reflexivity.
Qed.

(** Non-vacuity: a case that changes directory in setup and fails in assert, with --keep; the
    predicate rejects each perturbed observation. *)
Example c04_predicate_accepts_and_rejects :
  let tc := TC [] [ok_instr] ok_instr [] [failing_at SMain BFail] [ok_instr] TPass false in
  let evs := [EInstr Setup SMain 0 None] in
  let c := obs_of_model_c04 true tc evs (Some true) in
  d_obs_created c = 1 /\ d_obs_exist_after c = 1 /\ d_obs_cwd_is_act_at_first_post_sds_step c = Some true /\
  check_c04 c = (true, true) /\
  snd (check_c04 (C04Case tc true evs false true 1 1 true (Some true) (Some true))) = false /\   (* cwd not restored *)
  snd (check_c04 (C04Case tc true evs true false 1 1 true (Some true) (Some true))) = false /\   (* environ changed *)
  snd (check_c04 (C04Case tc true evs true true 2 1 true (Some true) (Some true))) = false /\    (* two sandboxes *)
  snd (check_c04 (C04Case tc true evs true true 1 0 true (Some true) (Some true))) = false /\    (* --keep but removed *)
  snd (check_c04 (C04Case tc false evs true true 1 1 true (Some true) (Some true))) = false /\   (* left behind *)
  snd (check_c04 (C04Case tc true evs true true 1 1 true (Some false) (Some true))) = false.     (* not in act/ *)
Proof. vm_compute. repeat split. Qed.
