(** C20: the finite theorems over the inventory regenerated from the live program (Gen/C20_inventory.v).
    Each is decided by the kernel ([vm_compute]) and lifted to the declarative statement with the soundness
    lemmas of HelpBasics.  The bound of every quantifier is the inventory itself. *)
From Coq Require Import List Bool String ZArith.
From Exactly Require Import Lib.Harness Model.Help Spec.C20 Proofs.HelpBasics Gen.C20_inventory.
Import ListNotations.

Lemma live_holdsb : C20_holdsb live = true.
Proof. vm_compute. reflexivity. Qed.

Lemma live_holds : C20_holds live.
Proof. apply C20_holdsb_spec. exact live_holdsb. Qed.

Lemma live_tie : inventory_tieb live = true.
Proof. vm_compute. reflexivity. Qed.

Lemma live_rendered_agree :
  (forall p, In p (inv_phases live) ->
     agree (pi_help_struct p) (pi_help_rendered p) /\ agree (pi_help_struct p) (pi_help_rendered_all p)) /\
  (forall e, In e (inv_entities live) -> agree (ei_help_struct e) (ei_help_rendered e)).
Proof.
  split.
  - intros p Hp.
    assert (H : forallb (fun p => agreeb (pi_help_struct p) (pi_help_rendered p)
                                  && agreeb (pi_help_struct p) (pi_help_rendered_all p)) (inv_phases live) = true)
      by (vm_compute; reflexivity).
    rewrite forallb_forall in H. specialize (H p Hp). apply andb_true_iff in H as [H1 H2].
    split; apply agreeb_agree; assumption.
  - intros e He.
    assert (H : forallb (fun e => agreeb (ei_help_struct e) (ei_help_rendered e)) (inv_entities live) = true)
      by (vm_compute; reflexivity).
    rewrite forallb_forall in H. apply agreeb_agree. exact (H e He).
Qed.

Lemma live_accepted_eq_documented :
  (forall p, In p (inv_phases live) ->
     agree (pi_accepted p) (pi_help_struct p) /\ agree (pi_help_struct p) (pi_help_rendered p)) /\
  (forall s, In s (inv_suite_sections live) -> agree (si_accepted s) (suite_documented live s)) /\
  (forall e, In e (inv_entities live) ->
     agree (ei_accepted e) (ei_help_struct e) /\ agree (ei_help_struct e) (ei_help_rendered e)) /\
  (forall t, In t (inv_entity_types_program live) -> exists e, In e (inv_entities live) /\ ei_type e = t).
Proof.
  destruct live_holds as [H1 [H2 [H3 [H4 _]]]]. destruct live_rendered_agree as [R1 R2].
  split; [|split; [|split]].
  - intros p Hp. split; [apply (H1 p Hp) | apply (R1 p Hp)].
  - intros s Hs. apply (H2 s Hs).
  - intros e He. split; [apply (H3 e He) | apply (R2 e He)].
  - exact H4.
Qed.

(** in every way of running a test case that the inventory probes *)
Lemma live_accepted_in_every_way_of_running :
  (forall p m, In p (inv_phases live) -> In m (pi_modes p) -> mode_ok (pi_help_struct p) m) /\
  (forall e m, In e (inv_entities live) -> In m (ei_modes e) -> mode_ok (ei_help_struct e) m) /\
  (forall s m, In s (inv_suite_sections live) -> In m (si_modes s) -> mode_ok (suite_documented live s) m).
Proof.
  destruct live_holds as [H1 [H2 [H3 _]]]. split; [|split].
  - intros p m Hp Hm. destruct (H1 p Hp) as [_ [_ [H _]]]. apply H. exact Hm.
  - intros e m He Hm. destruct (H3 e He) as [_ [_ [H _]]]. apply H. exact Hm.
  - intros s m Hs Hm. destruct (H2 s Hs) as [_ [_ H]]. apply H. exact Hm.
Qed.

Lemma live_every_help_request_succeeds :
  (forall r, In r (inv_requests live) -> hr_expected_valid r = true -> displayed_successfully r) /\
  (forall p n, In p (inv_phases live) -> In n (pi_accepted p) ->
     has_successful_run (inv_requests live) (request_for_instruction (pi_name p) n)) /\
  (forall s n, In s (inv_suite_sections live) -> In n (si_accepted s) ->
     has_successful_run (inv_requests live) (request_for_suite_instruction (inv_kw live) (si_name s) n) \/
     exists ph, In ph (si_corresponds s) /\ has_successful_run (inv_requests live) (request_for_instruction ph n)) /\
  (forall e n, In e (inv_entities live) -> In n (ei_accepted e) ->
     has_successful_run (inv_requests live) (request_for_entity (ei_type e) n)) /\
  (forall p, In p (inv_phases live) -> has_successful_run (inv_requests live) [pi_name p]) /\
  (forall e, In e (inv_entities live) -> has_successful_run (inv_requests live) [ei_type e]).
Proof.
  destruct live_holds as [H1 [H2 [H3 _]]].
  split; [|split; [|split; [|split; [|split]]]].
  - intros r Hr Hv.
    assert (H : forallb (fun r => implb (hr_expected_valid r) (displayed_successfullyb r)) (inv_requests live) = true)
      by (vm_compute; reflexivity).
    rewrite forallb_forall in H. specialize (H r Hr). rewrite Hv in H. apply displayed_successfullyb_spec. exact H.
  - intros p n Hp Hn. apply (H1 p Hp). exact Hn.
  - intros s n Hs Hn. apply (H2 s Hs). exact Hn.
  - intros e n He Hn. apply (H3 e He). exact Hn.
  - intros p Hp.
    assert (H : forallb (fun p => has_successful_runb (inv_requests live) [pi_name p]) (inv_phases live) = true)
      by (vm_compute; reflexivity).
    rewrite forallb_forall in H. apply has_successful_runb_spec. exact (H p Hp).
  - intros e He.
    assert (H : forallb (fun e => has_successful_runb (inv_requests live) [ei_type e]) (inv_entities live) = true)
      by (vm_compute; reflexivity).
    rewrite forallb_forall in H. apply has_successful_runb_spec. exact (H e He).
Qed.

Lemma live_every_href_has_unique_target :
  forall h, In h (inv_html_hrefs live) -> count_occ string_dec (inv_html_ids live) h = 1.
Proof. destruct live_holds as [_ [_ [_ [_ H]]]]. exact H. Qed.

(** ** The structural theorem applied to the live parser dictionaries *)
Definition ctor_list_of (pairs : list (string * string)) : @ctor_list unit string :=
  map (fun kd => (fst kd, fun _ : string => (tt, snd kd))) pairs.

Lemma obs_dict_is_instruction_set : forall pairs, obs_dict pairs = instruction_set_from (ctor_list_of pairs).
Proof.
  intros pairs. unfold obs_dict, instruction_set_from, ctor_list_of. rewrite map_map. reflexivity.
Qed.

Definition faithfulb (pairs : list (string * string)) : bool :=
  forallb (fun kd => String.eqb (snd kd) (fst kd)) pairs.

Lemma faithfulb_name_faithful : forall pairs, faithfulb pairs = true -> name_faithful obs_doc_name (ctor_list_of pairs).
Proof.
  intros pairs H n c Hin. unfold ctor_list_of in Hin. apply in_map_iff in Hin as [[k d] [E Hkd]].
  cbn [fst snd] in E. injection E as <- <-. cbn [snd]. unfold obs_doc_name.
  unfold faithfulb in H. rewrite forallb_forall in H. specialize (H (k, d) Hkd). cbn [fst snd] in H.
  apply String.eqb_eq. exact H.
Qed.

Lemma live_constructors_name_faithful :
  (forall p, In p (inv_phases live) -> forall k d, In (k, d) (pi_dict p) -> d = k) /\
  (forall s, In s (inv_suite_sections live) -> forall k d, In (k, d) (si_own_dict s) -> d = k).
Proof.
  split.
  - intros p Hp k d Hkd.
    assert (H : forallb (fun p => faithfulb (pi_dict p)) (inv_phases live) = true) by (vm_compute; reflexivity).
    rewrite forallb_forall in H. specialize (H p Hp). unfold faithfulb in H. rewrite forallb_forall in H.
    specialize (H (k, d) Hkd). apply String.eqb_eq in H. exact H.
  - intros s Hs k d Hkd.
    assert (H : forallb (fun s => faithfulb (si_own_dict s)) (inv_suite_sections live) = true) by (vm_compute; reflexivity).
    rewrite forallb_forall in H. specialize (H s Hs). unfold faithfulb in H. rewrite forallb_forall in H.
    specialize (H (k, d) Hkd). apply String.eqb_eq in H. exact H.
Qed.

(** For every phase of the live program: what the modelled derivation lists for the observed dictionary is what the
    modelled dictionary parser accepts — obtained from the general theorem and name-faithfulness, not by evaluating
    both sides. *)
Lemma live_same_source : forall p, In p (inv_phases live) ->
  forall x, In x (listed_names obs_doc_name (obs_dict (pi_dict p))) <-> parser_accepts (obs_dict (pi_dict p)) x = true.
Proof.
  intros p Hp x. rewrite obs_dict_is_instruction_set. apply same_source_same_names.
  apply faithfulb_name_faithful. unfold faithfulb. rewrite forallb_forall. intros [k d] Hkd. cbn [fst snd].
  apply String.eqb_eq. apply (proj1 live_constructors_name_faithful p Hp k d Hkd).
Qed.
