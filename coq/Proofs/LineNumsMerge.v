(** C13 part 2: range_merge.merge — the merged ranges denote the same set of line numbers as
    the partitioning, and they satisfy what the segment walker needs ([walk_ok]). *)
From Coq Require Import ZArith List Bool Lia ZifyBool Permutation.
From Exactly Require Import Model.LineNums Spec.C13b.
Import ListNotations.
Local Open Scope Z_scope.

Notation segs_in k segs := (existsb (in_seg k) segs).
Definition valid (s : from_to) : Prop := fst s <= snd s.
Definition pos1 (s : from_to) : Prop := 1 <= fst s.

(** ** generalities *)
Lemma existsb_perm : forall {X} (f : X -> bool) l l', Permutation l l' -> existsb f l = existsb f l'.
Proof.
  intros X f l l' H. induction H; cbn; try congruence.
  - destruct (f x), (f y); reflexivity.
Qed.

Lemma existsb_filter_valid : forall k segs,
    segs_in k (filter is_valid_segment segs) = segs_in k segs.
Proof.
  induction segs as [|[a b] segs IH]; cbn; [reflexivity|].
  unfold is_valid_segment at 1. cbn [fst snd]. destruct (a <=? b) eqn:E; cbn; rewrite IH; [reflexivity|].
  unfold in_seg at 2. cbn [fst snd]. replace ((a <=? k) && (k <=? b)) with false by lia. reflexivity.
Qed.

Lemma filter_valid_Forall : forall segs, Forall valid (filter is_valid_segment segs).
Proof.
  induction segs as [|s segs IH]; cbn; [constructor|].
  destruct (is_valid_segment s) eqn:E; [constructor|]; auto. unfold is_valid_segment in E. unfold valid. lia.
Qed.

Lemma filter_Forall : forall {X} (P : X -> Prop) f l, Forall P l -> Forall P (filter f l).
Proof.
  intros X P f l H. induction H; cbn; [constructor|]. destruct (f x); [constructor|]; auto.
Qed.

(** ** sorted(...) *)
Fixpoint ssorted (l : list from_to) : Prop :=
  match l with [] => True | x :: t => Forall (fun y => fst x <= fst y) t /\ ssorted t end.

Lemma insert_sorted_perm : forall x l, Permutation (insert_sorted x l) (x :: l).
Proof.
  induction l as [|y l IH]; cbn; [reflexivity|].
  destruct (lex_leb x y); [reflexivity|].
  rewrite IH. apply perm_swap.
Qed.

Lemma sort_segments_perm : forall l, Permutation (sort_segments l) l.
Proof.
  induction l as [|x l IH]; cbn; [reflexivity|]. rewrite insert_sorted_perm. now constructor.
Qed.

Lemma insert_sorted_ssorted : forall x l, ssorted l -> ssorted (insert_sorted x l).
Proof.
  induction l as [|y l IH]; intros H; cbn [insert_sorted].
  - cbn. auto.
  - destruct H as [Hy Hl]. destruct (lex_leb x y) eqn:E; unfold lex_leb in E.
    + cbn [ssorted]. split; [|split; assumption].
      constructor; [lia|]. eapply Forall_impl; [|exact Hy]. cbn. intros; lia.
    + cbn [ssorted]. split; [|now apply IH].
      eapply Permutation_Forall; [symmetry; apply insert_sorted_perm|].
      constructor; [lia|exact Hy].
Qed.

Lemma sort_segments_ssorted : forall l, ssorted (sort_segments l).
Proof. induction l as [|x l IH]; cbn; [exact I|]. now apply insert_sorted_ssorted. Qed.

(** ** _merge_segments *)
(** non-empty segments, each starting at least two after the end of its predecessor *)
Definition gapped (l : list from_to) : Prop :=
  match l with [] => True | s :: t => valid s /\ chain (snd s) t None end.

Lemma merge_segments_go_set : forall k rest cur,
    valid cur -> Forall valid rest -> Forall (fun y => fst cur <= fst y) rest -> ssorted rest ->
    segs_in k (merge_segments_go cur rest) = in_seg k cur || segs_in k rest.
Proof.
  intros k. induction rest as [|next rest IH]; intros cur Hv Hvr Hle Hs; cbn [merge_segments_go existsb].
  - reflexivity.
  - inversion Hvr as [|? ? Hvn Hvr']; subst. inversion Hle as [|? ? Hcn Hle']; subst.
    destruct Hs as [Hn Hs]. unfold can_be_one. unfold valid in *.
    destruct (fst next <=? snd cur + 1) eqn:E.
    + rewrite IH; cbn [fst snd]; try assumption; [|unfold valid; cbn; lia].
      rewrite orb_assoc. f_equal. unfold in_seg. cbn [fst snd]. lia.
    + cbn [existsb]. rewrite IH by assumption. reflexivity.
Qed.

Lemma merge_segments_go_gapped : forall rest cur,
    valid cur -> Forall valid rest ->
    exists s t, merge_segments_go cur rest = s :: t /\ fst s = fst cur /\ snd cur <= snd s /\ valid s /\ chain (snd s) t None.
Proof.
  induction rest as [|next rest IH]; intros cur Hv Hvr; cbn [merge_segments_go].
  - exists cur, []. cbn. unfold valid in *. repeat split; lia.
  - inversion Hvr as [|? ? Hvn Hvr']; subst. unfold can_be_one, valid in *.
    destruct (fst next <=? snd cur + 1) eqn:E.
    + destruct (IH (fst cur, Z.max (snd cur) (snd next))) as (s & t & E1 & E2 & E3 & E4 & E5);
        [unfold valid; cbn; lia|assumption|].
      cbn [fst snd] in *. exists s, t. repeat split; try assumption; lia.
    + destruct (IH next Hvn Hvr') as (s & t & E1 & E2 & E3 & E4 & E5).
      exists cur, (s :: t). rewrite E1. cbn [chain]. unfold valid in *. repeat split; try assumption; lia.
Qed.

Lemma merge_segments_go_pos1 : forall rest cur,
    pos1 cur -> Forall pos1 rest -> Forall pos1 (merge_segments_go cur rest).
Proof.
  induction rest as [|next rest IH]; intros cur Hc Hr; cbn [merge_segments_go].
  - now constructor.
  - inversion Hr; subst. destruct (can_be_one cur next).
    + apply IH; [exact Hc|assumption].
    + constructor; [exact Hc|]. now apply IH.
Qed.

Lemma chain_Forall : forall segs n, chain n segs None -> Forall (fun s => n + 2 <= fst s) segs.
Proof.
  induction segs as [|s segs IH]; intros n H; [constructor|].
  cbn [chain] in H. destruct H as (H1 & H2 & H3). constructor; [exact H1|].
  eapply Forall_impl; [|apply (IH _ H3)]. cbn. intros; lia.
Qed.

Lemma chain_valid : forall segs n tail, chain n segs tail -> Forall valid segs.
Proof.
  induction segs as [|s segs IH]; intros n tail H; [constructor|].
  cbn [chain] in H. destruct H as (H1 & H2 & H3). constructor; [exact H2|]. eapply IH; exact H3.
Qed.

Lemma gapped_valid : forall segs, gapped segs -> Forall valid segs.
Proof. intros [|s t] H; [constructor|]. destruct H as [H1 H2]. constructor; [exact H1|]. eapply chain_valid; exact H2. Qed.

Lemma chain_gapped : forall segs n, chain n segs None -> gapped segs.
Proof. intros [|s t] n H; [exact I|]. cbn [chain] in H. cbn. tauto. Qed.

Lemma chain_mono : forall segs tail n n', n' <= n -> chain n segs tail -> chain n' segs tail.
Proof.
  intros [|s t] tail n n' Hn H; cbn [chain] in *.
  - destruct tail; [lia|exact I].
  - destruct H as (H1 & H2 & H3). repeat split; [lia|exact H2|exact H3].
Qed.

(** ** _merge_head_to *)
Lemma merge_head_to_set : forall k segs h h' out,
    Forall valid segs -> merge_head_to h segs = (h', out) ->
    (k <=? h') || segs_in k out = (k <=? h) || segs_in k segs.
Proof.
  intros k. induction segs as [|[a b] segs IH]; intros h h' out Hv E; cbn [merge_head_to fst snd] in E.
  - injection E as <- <-. reflexivity.
  - inversion Hv as [|? ? Hv1 Hv']; subst. unfold valid in Hv1. cbn [fst snd] in Hv1.
    destruct (a <=? h + 1) eqn:Ea.
    + rewrite (IH _ _ _ Hv' E). cbn [existsb]. rewrite orb_assoc. f_equal.
      unfold in_seg. cbn [fst snd]. lia.
    + destruct (merge_head_to h segs) as [i o] eqn:E'. injection E as <- <-.
      pose proof (IH _ _ _ Hv' E') as IH'. cbn [existsb].
      destruct (in_seg k (a, b)); cbn [orb]; [now rewrite !orb_true_r|exact IH'].
Qed.

Lemma merge_head_to_Forall : forall (P : from_to -> Prop) segs h h' out,
    Forall P segs -> merge_head_to h segs = (h', out) -> Forall P out.
Proof.
  intros P. induction segs as [|ft segs IH]; intros h h' out HP E; cbn [merge_head_to] in E.
  - injection E as <- <-. constructor.
  - inversion HP; subst. destruct (fst ft <=? h + 1).
    + eapply IH; eassumption.
    + destruct (merge_head_to h segs) as [i o] eqn:E'. injection E as <- <-.
      constructor; [assumption|]. eapply IH; [eassumption|exact E'].
Qed.

Lemma merge_head_to_none : forall segs h,
    Forall (fun s => h + 2 <= fst s) segs -> merge_head_to h segs = (h, segs).
Proof.
  induction segs as [|ft segs IH]; intros h H; cbn [merge_head_to]; [reflexivity|].
  inversion H; subst. replace (fst ft <=? h + 1) with false by lia. now rewrite IH.
Qed.

Lemma merge_head_to_inv : forall segs h h' out,
    gapped segs -> merge_head_to h segs = (h', out) -> h <= h' /\ chain h' out None.
Proof.
  induction segs as [|[a b] segs IH]; intros h h' out Hg E.
  - cbn in E. injection E as <- <-. cbn. split; [lia|exact I].
  - destruct Hg as [Hv Hc]. unfold valid in Hv. cbn [fst snd] in *.
    cbn [merge_head_to fst snd] in E.
    destruct (a <=? h + 1) eqn:Ea.
    + apply IH in E; [|eapply chain_gapped; exact Hc]. destruct E as [E1 E2]. split; [lia|exact E2].
    + rewrite merge_head_to_none in E.
      * injection E as <- <-. split; [lia|]. cbn [chain fst snd]. repeat split; [lia|exact Hv|exact Hc].
      * eapply Forall_impl; [|apply (chain_Forall _ _ Hc)]. cbn. intros; lia.
Qed.

(** ** _merge_tail_from *)
Lemma merge_tail_fold_acc : forall l t acc,
    fold_left merge_tail_step l (t, acc)
    = let (t', o) := fold_left merge_tail_step l (t, []) in (t', o ++ acc).
Proof.
  induction l as [|ft l IH]; intros t acc; cbn [fold_left].
  - reflexivity.
  - cbn [merge_tail_step]. destruct (t - 1 <=? snd ft).
    + apply IH.
    + rewrite (IH t (ft :: acc)), (IH t [ft]).
      destruct (fold_left merge_tail_step l (t, [])) as [t' o]. now rewrite <- app_assoc.
Qed.

Lemma merge_tail_from_snoc : forall segs ft t,
    merge_tail_from t (segs ++ [ft])
    = if t - 1 <=? snd ft then merge_tail_from (Z.min t (fst ft)) segs
      else let (t', o) := merge_tail_from t segs in (t', o ++ [ft]).
Proof.
  intros segs ft t. unfold merge_tail_from. rewrite rev_app_distr. cbn [rev app fold_left merge_tail_step].
  destruct (t - 1 <=? snd ft); [reflexivity|]. apply merge_tail_fold_acc.
Qed.

Lemma merge_tail_from_set : forall k segs t t' out,
    Forall valid segs -> merge_tail_from t segs = (t', out) ->
    segs_in k out || (t' <=? k) = segs_in k segs || (t <=? k).
Proof.
  intros k. induction segs as [|[a b] segs IH] using rev_ind; intros t t' out Hv E.
  - cbn in E. injection E as <- <-. reflexivity.
  - rewrite merge_tail_from_snoc in E. cbn [fst snd] in E.
    apply Forall_app in Hv. destruct Hv as [Hv Hv1]. inversion Hv1 as [|? ? Hab _]; subst.
    unfold valid in Hab. cbn [fst snd] in Hab.
    rewrite existsb_app. cbn [existsb]. rewrite orb_false_r.
    destruct (t - 1 <=? b) eqn:Eb.
    + rewrite (IH _ _ _ Hv E). rewrite <- orb_assoc. f_equal. unfold in_seg. cbn [fst snd]. lia.
    + destruct (merge_tail_from t segs) as [t2 o] eqn:E'. injection E as <- <-.
      pose proof (IH _ _ _ Hv E') as IH'.
      rewrite existsb_app. cbn [existsb].
      destruct (in_seg k (a, b)); rewrite ?orb_true_r, ?orb_false_r; cbn [orb]; [reflexivity|exact IH'].
Qed.

Lemma merge_tail_from_none : forall segs t,
    Forall (fun s => snd s + 2 <= t) segs -> merge_tail_from t segs = (t, segs).
Proof.
  induction segs as [|ft segs IH] using rev_ind; intros t H; [reflexivity|].
  apply Forall_app in H. destruct H as [H H1]. inversion H1; subst.
  rewrite merge_tail_from_snoc. replace (t - 1 <=? snd ft) with false by lia. now rewrite IH.
Qed.

Lemma chain_app_l : forall l1 l2 n, chain n (l1 ++ l2) None -> chain n l1 None.
Proof.
  induction l1 as [|s l1 IH]; intros l2 n H; [exact I|].
  cbn [app chain] in *. destruct H as (H1 & H2 & H3). repeat split; try assumption. eapply IH; exact H3.
Qed.

Lemma chain_snoc_Forall : forall l n ft, chain n (l ++ [ft]) None -> Forall (fun s => snd s + 2 <= fst ft) l.
Proof.
  induction l as [|s l IH]; intros n ft H; [constructor|].
  cbn [app chain] in H. destruct H as (H1 & H2 & H3). constructor.
  - pose proof (IH _ _ H3) as HF. destruct l as [|f l]; cbn [app chain] in H3; [lia|].
    inversion HF; subst. lia.
  - eapply IH; exact H3.
Qed.

Lemma merge_tail_from_inv : forall segs t t' out,
    merge_tail_from t segs = (t', out) ->
    t' <= t
    /\ (forall n, chain n segs None -> chain n out None)
    /\ (forall P : from_to -> Prop, Forall P segs -> Forall P out)
    /\ ((exists n, chain n segs None) -> Forall (fun s => snd s + 2 <= t') out)
    /\ (1 <= t -> Forall pos1 segs -> 1 <= t').
Proof.
  induction segs as [|[a b] segs IH] using rev_ind; intros t t' out E.
  - cbn in E. injection E as <- <-. repeat split; auto; lia.
  - rewrite merge_tail_from_snoc in E. cbn [fst snd] in E.
    destruct (t - 1 <=? b) eqn:Eb.
    + apply IH in E. destruct E as (E1 & E2 & E3 & E4 & E5). repeat split.
      * lia.
      * intros n Hc. apply E2. eapply chain_app_l; exact Hc.
      * intros P HP. apply E3. apply Forall_app in HP. tauto.
      * intros [n Hc]. apply E4. exists n. eapply chain_app_l; exact Hc.
      * intros Ht HP. apply Forall_app in HP. destruct HP as [HP HP1]. inversion HP1; subst.
        unfold pos1 in *. cbn [fst] in *. apply E5; [lia|exact HP].
    + destruct (merge_tail_from t segs) as [t2 o] eqn:E'. injection E as <- <-.
      assert (Hn : (exists n, chain n (segs ++ [(a, b)]) None) -> merge_tail_from t segs = (t, segs)).
      { intros [n Hc]. apply merge_tail_from_none. apply chain_snoc_Forall in Hc as HF.
        apply chain_valid in Hc. apply Forall_app in Hc. destruct Hc as [_ Hc]. inversion Hc as [|? ? Hab _]; subst.
        unfold valid in Hab. cbn [fst snd] in *.
        eapply Forall_impl; [|exact HF]. cbn. intros; lia. }
      destruct (IH _ _ _ E') as (E1 & E2 & E3 & E4 & E5). repeat split.
      * exact E1.
      * intros n Hc. rewrite Hn in E' by (exists n; exact Hc). injection E' as <- <-. exact Hc.
      * intros P HP. apply Forall_app in HP. destruct HP as [HP HP1]. apply Forall_app. split; [now apply E3|exact HP1].
      * intros Hex. rewrite (Hn Hex) in E'. injection E' as <- <-. destruct Hex as [n Hc].
        apply Forall_app. split.
        -- apply chain_snoc_Forall in Hc as HF. apply chain_valid in Hc. apply Forall_app in Hc.
           destruct Hc as [_ Hc]. inversion Hc as [|? ? Hab _]; subst. unfold valid in Hab. cbn [fst snd] in *.
           eapply Forall_impl; [|exact HF]. cbn. intros; lia.
        -- constructor; [cbn; lia|constructor].
      * intros Ht HP. apply Forall_app in HP. destruct HP as [HP _]. now apply E5.
Qed.

Lemma chain_add_tail : forall out n t,
    chain n out None -> Forall (fun s => snd s + 2 <= t) out -> n + 2 <= t -> chain n out (Some t).
Proof.
  induction out as [|s out IH]; intros n t Hc HF Hn; cbn [chain] in *; [exact Hn|].
  destruct Hc as (H1 & H2 & H3). inversion HF; subst. repeat split; try assumption. apply IH; assumption.
Qed.

(** ** max / min of the head and tail entries *)
Lemma max_list_spec : forall k xs x, (k <=? max_list x xs) = existsb (fun h => k <=? h) (x :: xs).
Proof.
  intros k. unfold max_list. induction xs as [|y xs IH]; intros x; cbn [fold_left existsb].
  - now rewrite orb_false_r.
  - rewrite IH. cbn [existsb]. rewrite orb_assoc. f_equal. lia.
Qed.

Lemma min_list_spec : forall k xs x, (min_list x xs <=? k) = existsb (fun t => t <=? k) (x :: xs).
Proof.
  intros k. unfold min_list. induction xs as [|y xs IH]; intros x; cbn [fold_left existsb].
  - now rewrite orb_false_r.
  - rewrite IH. cbn [existsb]. rewrite orb_assoc. f_equal. lia.
Qed.

Lemma max_list_ge1 : forall xs x, Forall (fun h => 1 <= h) (x :: xs) -> 1 <= max_list x xs.
Proof.
  unfold max_list. induction xs as [|y xs IH]; intros x H; cbn [fold_left].
  - now inversion H.
  - inversion H as [|? ? H1 H2]; subst. inversion H2; subst. apply IH. constructor; [lia|assumption].
Qed.

Lemma min_list_ge1 : forall xs x, Forall (fun h => 1 <= h) (x :: xs) -> 1 <= min_list x xs.
Proof.
  unfold min_list. induction xs as [|y xs IH]; intros x H; cbn [fold_left].
  - now inversion H.
  - inversion H as [|? ? H1 H2]; subst. inversion H2; subst. apply IH. constructor; [lia|assumption].
Qed.

(** ** merge, stage by stage *)
Definition stage1 (segs0 : list from_to) : list from_to :=
  match segs0 with [] => [] | s :: ss => merge_segments_go s ss end.

Definition stage2 (head0 : option Z) (segs1 : list from_to) : option Z * list from_to :=
  match head0 with
  | None => (None, segs1)
  | Some h => let (h', out) := merge_head_to h segs1 in (Some h', out)
  end.

Definition stage3 (tail0 : option Z) (segs2 : list from_to) : option Z * list from_to :=
  match tail0 with
  | None => (None, segs2)
  | Some t => let (t', out) := merge_tail_from t segs2 in (Some t', out)
  end.

Definition finish (head1 : option Z) (segs3 : list from_to) (tail1 : option Z) : merged :=
  let everything :=
    match tail1 with
    | None => false
    | Some t => (t =? 1) || match head1 with Some h => t <=? h + 1 | None => false end
    end in
  if everything then merged_everything
  else
    match head1, segs3 with
    | None, first :: rest =>
        if fst first =? 1 then Merged (Some (snd first)) rest tail1 false
        else Merged head1 segs3 tail1 false
    | _, _ => Merged head1 segs3 tail1 false
    end.

Definition segs0_of (p : partitioning) := sort_segments (filter is_valid_segment (segments p)).
Definition head0_of (p : partitioning) := match head_to p with [] => None | x :: xs => Some (max_list x xs) end.
Definition tail0_of (p : partitioning) := match tail_from p with [] => None | x :: xs => Some (min_list x xs) end.

Lemma merge_stages : forall p,
    merge p =
    if is_nil (segs0_of p) && is_none (head0_of p) && is_none (tail0_of p) then merged_empty
    else
      let '(head1, segs2) := stage2 (head0_of p) (stage1 (segs0_of p)) in
      let '(tail1, segs3) := stage3 (tail0_of p) segs2 in
      finish head1 segs3 tail1.
Proof.
  intros p. unfold merge, segs0_of, head0_of, tail0_of, stage1, stage2, stage3, finish.
  destruct (is_nil _ && _ && _); [reflexivity|].
  destruct (match head_to p with [] => None | x :: xs => Some (max_list x xs) end) as [h|].
  - destruct (merge_head_to h _) as [h' o].
    destruct (match tail_from p with [] => None | x :: xs => Some (min_list x xs) end) as [t|]; [|reflexivity].
    destruct (merge_tail_from t o); reflexivity.
  - destruct (match tail_from p with [] => None | x :: xs => Some (min_list x xs) end) as [t|]; [|reflexivity].
    destruct (merge_tail_from t _); reflexivity.
Qed.

Lemma segs0_set : forall p k, segs_in k (segs0_of p) = segs_in k (segments p).
Proof.
  intros. unfold segs0_of. rewrite (existsb_perm _ _ _ (sort_segments_perm _)). apply existsb_filter_valid.
Qed.

Lemma segs0_valid : forall p, Forall valid (segs0_of p).
Proof.
  intros. unfold segs0_of. eapply Permutation_Forall; [symmetry; apply sort_segments_perm|]. apply filter_valid_Forall.
Qed.

Lemma segs0_pos1 : forall p, Forall pos1 (segments p) -> Forall pos1 (segs0_of p).
Proof.
  intros p H. unfold segs0_of. eapply Permutation_Forall; [symmetry; apply sort_segments_perm|]. now apply filter_Forall.
Qed.

Lemma head0_set : forall p k,
    match head0_of p with Some h => k <=? h | None => false end = existsb (fun h => k <=? h) (head_to p).
Proof. intros. unfold head0_of. destruct (head_to p); [reflexivity|]. apply max_list_spec. Qed.

Lemma tail0_set : forall p k,
    match tail0_of p with Some t => t <=? k | None => false end = existsb (fun t => t <=? k) (tail_from p).
Proof. intros. unfold tail0_of. destruct (tail_from p); [reflexivity|]. apply min_list_spec. Qed.

Lemma stage1_set : forall segs0 k, Forall valid segs0 -> ssorted segs0 -> segs_in k (stage1 segs0) = segs_in k segs0.
Proof.
  intros [|s ss] k Hv Hs; [reflexivity|]. cbn [stage1]. inversion Hv; subst. destruct Hs as [Hs1 Hs2].
  now rewrite merge_segments_go_set.
Qed.

Lemma stage1_gapped : forall segs0, Forall valid segs0 -> gapped (stage1 segs0).
Proof.
  intros [|s ss] Hv; [exact I|]. cbn [stage1]. inversion Hv; subst.
  destruct (merge_segments_go_gapped ss s) as (s' & t & E1 & E2 & E3 & E4 & E5); try assumption.
  rewrite E1. cbn. tauto.
Qed.

Lemma stage1_pos1 : forall segs0, Forall pos1 segs0 -> Forall pos1 (stage1 segs0).
Proof. intros [|s ss] H; [constructor|]. inversion H; subst. now apply merge_segments_go_pos1. Qed.

Lemma stage1_nonnil : forall segs0, segs0 <> [] -> Forall valid segs0 -> stage1 segs0 <> [].
Proof.
  intros [|s ss] H Hv; [congruence|]. cbn [stage1]. inversion Hv; subst.
  destruct (merge_segments_go_gapped ss s) as (s' & t & E1 & _); try assumption. rewrite E1. discriminate.
Qed.

Lemma stage2_set : forall head0 segs1 head1 segs2 tail k,
    Forall valid segs1 -> stage2 head0 segs1 = (head1, segs2) ->
    in_segments head1 segs2 tail k = in_segments head0 segs1 tail k.
Proof.
  intros [h|] segs1 head1 segs2 tail k Hv E; cbn [stage2] in E.
  - destruct (merge_head_to h segs1) as [h' o] eqn:E'. injection E as <- <-.
    unfold in_segments. f_equal. eapply merge_head_to_set; eassumption.
  - injection E as <- <-. reflexivity.
Qed.

Lemma stage3_set : forall tail0 segs2 tail1 segs3 head k,
    Forall valid segs2 -> stage3 tail0 segs2 = (tail1, segs3) ->
    in_segments head segs3 tail1 k = in_segments head segs2 tail0 k.
Proof.
  intros [t|] segs2 tail1 segs3 head k Hv E; cbn [stage3] in E.
  - destruct (merge_tail_from t segs2) as [t' o] eqn:E'. injection E as <- <-.
    unfold in_segments. rewrite <- !orb_assoc. f_equal. eapply merge_tail_from_set; eassumption.
  - injection E as <- <-. reflexivity.
Qed.

Definition some_present (head : option Z) (segs : list from_to) (tail : option Z) : Prop :=
  head <> None \/ segs <> [] \/ tail <> None.

Lemma finish_set : forall head1 segs3 tail1 k,
    1 <= k -> some_present head1 segs3 tail1 ->
    in_merged (finish head1 segs3 tail1) k = in_segments head1 segs3 tail1 k.
Proof.
  intros head1 segs3 tail1 k Hk Hp. unfold finish.
  match goal with |- context [if ?c then merged_everything else _] => destruct c eqn:Eev end.
  - (* everything *)
    cbn. symmetry. unfold in_segments. destruct tail1 as [t|]; [|discriminate].
    destruct head1 as [h|]; lia.
  - assert (Hgen : in_merged (Merged head1 segs3 tail1 false) k = in_segments head1 segs3 tail1 k).
    { unfold in_merged, is_everything. cbn [m_is_empty m_head m_body m_tail negb andb].
      destruct head1; [reflexivity|]. destruct tail1; [cbn [is_none andb]; reflexivity|].
      destruct segs3; [|reflexivity]. destruct Hp as [Hp|[Hp|Hp]]; congruence. }
    destruct head1 as [h|]; [exact Hgen|]. destruct segs3 as [|[a b] rest]; [exact Hgen|].
    cbn [fst snd]. destruct (a =? 1) eqn:Ea; [|exact Hgen].
    unfold in_merged, is_everything, in_segments. cbn [m_is_empty m_head m_body m_tail negb andb is_none orb existsb].
    f_equal. f_equal. unfold in_seg. cbn [fst snd]. lia.
Qed.

(** *** merge keeps the set of line numbers (>= 1) *)
Theorem merge_preserves_set : forall (p : partitioning) (k : Z),
    1 <= k -> in_merged (merge p) k = in_partitioning p k.
Proof.
  intros p k Hk. rewrite merge_stages.
  assert (Hin : in_partitioning p k = in_segments (head0_of p) (segs0_of p) (tail0_of p) k).
  { unfold in_partitioning, in_segments. now rewrite head0_set, tail0_set, segs0_set. }
  pose proof (segs0_valid p) as Hv0.
  assert (Hs0 : ssorted (segs0_of p)) by apply sort_segments_ssorted.
  destruct (is_nil (segs0_of p) && is_none (head0_of p) && is_none (tail0_of p)) eqn:Eemp.
  - rewrite Hin. destruct (segs0_of p); [|discriminate]. destruct (head0_of p); [discriminate|].
    destruct (tail0_of p); [discriminate|]. reflexivity.
  - destruct (stage2 (head0_of p) (stage1 (segs0_of p))) as [head1 segs2] eqn:E2.
    destruct (stage3 (tail0_of p) segs2) as [tail1 segs3] eqn:E3.
    pose proof (gapped_valid _ (stage1_gapped _ Hv0)) as Hv1.
    assert (Hv2 : Forall valid segs2).
    { destruct (head0_of p) as [h|]; cbn [stage2] in E2.
      - destruct (merge_head_to h _) as [h' o] eqn:E'. injection E2 as <- <-. eapply merge_head_to_Forall; eassumption.
      - injection E2 as <- <-. exact Hv1. }
    rewrite finish_set; [|exact Hk|].
    + rewrite (stage3_set _ _ _ _ _ _ Hv2 E3), (stage2_set _ _ _ _ _ _ Hv1 E2), Hin.
      unfold in_segments. now rewrite stage1_set.
    + (* something is present *)
      unfold some_present.
      destruct (head0_of p) as [h|] eqn:Eh; cbn [stage2] in E2.
      { destruct (merge_head_to h _) as [h' o]. injection E2 as <- <-. left; discriminate. }
      injection E2 as <- <-.
      destruct (tail0_of p) as [t|] eqn:Et; cbn [stage3] in E3.
      { destruct (merge_tail_from t _) as [t' o]. injection E3 as <- <-. right; right; discriminate. }
      injection E3 as <- <-. right; left. apply stage1_nonnil; [|exact Hv0].
      destruct (segs0_of p); [discriminate|discriminate].
Qed.

(** *** merge establishes what the walker needs *)
Lemma finish_walk_ok : forall head1 segs3 tail1,
    match head1 with
    | Some h => 1 <= h /\ chain h segs3 None
    | None => gapped segs3 /\ Forall pos1 segs3
    end ->
    match tail1 with
    | Some t => 1 <= t /\ Forall (fun s => snd s + 2 <= t) segs3
    | None => True
    end ->
    let m := finish head1 segs3 tail1 in walk_ok (m_head m) (m_body m) (m_tail m).
Proof.
  intros head1 segs3 tail1 Hh Ht. unfold finish.
  match goal with |- context [if ?c then merged_everything else _] => destruct c eqn:Eev end; [exact I|].
  assert (Htail : forall n, chain n segs3 None -> (forall t, tail1 = Some t -> n + 2 <= t) -> chain n segs3 tail1).
  { intros n Hc Hn. destruct tail1 as [t|]; [|exact Hc]. apply chain_add_tail; [exact Hc|tauto|]. now apply Hn. }
  destruct head1 as [h|].
  - cbn. destruct Hh as [Hh1 Hh2]. split; [exact Hh1|]. apply Htail; [exact Hh2|].
    intros t ->. lia.
  - destruct Hh as [Hg Hp]. destruct segs3 as [|[a b] rest].
    + cbn. destruct tail1 as [t|]; [|exact I]. cbn in Eev. lia.
    + destruct Hg as [Hv Hc]. unfold valid in Hv. cbn [fst snd] in *. inversion Hp as [|? ? Hp1 _]; subst.
      unfold pos1 in Hp1. cbn [fst] in Hp1.
      assert (Hrest : chain b rest tail1).
      { destruct tail1 as [t|]; [|exact Hc]. destruct Ht as [_ Ht]. inversion Ht; subst.
        apply chain_add_tail; [exact Hc|assumption|cbn [snd] in *; lia]. }
      destruct (a =? 1) eqn:Ea; cbn [m_head m_body m_tail walk_ok].
      * split; [lia|exact Hrest].
      * cbn [chain fst snd]. repeat split; [lia|exact Hv|exact Hrest].
Qed.

Theorem merge_invariant : forall (p : partitioning),
    part_ok p -> let m := merge p in walk_ok (m_head m) (m_body m) (m_tail m).
Proof.
  intros p (Hph & Hps & Hpt). cbv zeta. rewrite merge_stages.
  destruct (is_nil (segs0_of p) && is_none (head0_of p) && is_none (tail0_of p)); [exact I|].
  destruct (stage2 (head0_of p) (stage1 (segs0_of p))) as [head1 segs2] eqn:E2.
  destruct (stage3 (tail0_of p) segs2) as [tail1 segs3] eqn:E3.
  pose proof (segs0_valid p) as Hv0.
  pose proof (stage1_gapped _ Hv0) as Hg1.
  pose proof (stage1_pos1 _ (segs0_pos1 _ Hps)) as Hp1.
  (* after stage 2 *)
  assert (H2 : match head1 with
               | Some h => 1 <= h /\ chain h segs2 None
               | None => gapped segs2 /\ Forall pos1 segs2
               end).
  { unfold head0_of in E2. destruct (head_to p) as [|x xs] eqn:Eh; cbn [stage2] in E2.
    - injection E2 as <- <-. split; assumption.
    - destruct (merge_head_to (max_list x xs) _) as [h' o] eqn:E'. injection E2 as <- <-.
      apply merge_head_to_inv in E'; [|exact Hg1]. destruct E' as [E1 E2'].
      pose proof (max_list_ge1 xs x Hph). split; [lia|exact E2']. }
  (* after stage 3 *)
  apply finish_walk_ok.
  - unfold tail0_of in E3. destruct (tail_from p) as [|x xs] eqn:Et; cbn [stage3] in E3.
    + injection E3 as <- <-. exact H2.
    + destruct (merge_tail_from (min_list x xs) segs2) as [t' o] eqn:E'. injection E3 as <- <-.
      apply merge_tail_from_inv in E'. destruct E' as (E1 & E2' & E3' & E4 & E5).
      destruct head1 as [h|].
      * destruct H2 as [H2a H2b]. split; [exact H2a|now apply E2'].
      * destruct H2 as [H2a H2b]. split; [|now apply E3'].
        destruct segs2 as [|s t]; [cbn in *|].
        -- (* out of [] *) specialize (E3' (fun _ => False) (Forall_nil _)). destruct o; [exact I|inversion E3'; contradiction].
        -- destruct H2a as [Hv Hc].
           assert (Hc' : chain (fst s - 2) (s :: t) None) by (cbn [chain]; repeat split; [lia|exact Hv|exact Hc]).
           apply E2' in Hc'. eapply chain_gapped; exact Hc'.
  - unfold tail0_of in E3. destruct (tail_from p) as [|x xs] eqn:Et; cbn [stage3] in E3.
    + injection E3 as <- <-. exact I.
    + destruct (merge_tail_from (min_list x xs) segs2) as [t' o] eqn:E'. injection E3 as <- <-.
      apply merge_tail_from_inv in E'. destruct E' as (E1 & E2' & E3' & E4 & E5).
      pose proof (min_list_ge1 xs x Hpt) as Hmin.
      assert (Hpos2 : Forall pos1 segs2).
      { destruct head1 as [h|]; [|tauto]. destruct H2 as [H2a H2b].
        eapply Forall_impl; [|apply (chain_Forall _ _ H2b)]. unfold pos1. cbn. intros; lia. }
      split; [now apply E5|]. apply E4.
      destruct head1 as [h|]; [exists h; tauto|]. destruct H2 as [H2a _].
      destruct segs2 as [|s t]; [exists 0; exact I|]. destruct H2a as [Hv Hc].
      exists (fst s - 2). cbn [chain]. repeat split; [lia|exact Hv|exact Hc].
Qed.
