(** C05: the four comparison strategies of [equals] all decide equality of the two texts. *)
From Coq Require Import ZArith NArith List Bool Lia.
From Exactly Require Import Lib.Text Lib.TextLemmas Lib.Lines Model.Interval Model.TextOps.
Import ListNotations.

Lemma tlen_app : forall a b, tlen (a ++ b) = (tlen a + tlen b)%N.
Proof. intros. unfold tlen. rewrite app_length. lia. Qed.

(** The reader of whole lines stops early only when at least [min_num] characters have been read. *)
Lemma read_lines_min_spec : forall min_num lines actual_read,
  read_lines_min min_num actual_read lines = lines \/
  exists rest, lines = read_lines_min min_num actual_read lines ++ rest /\
               (min_num <= actual_read + tlen (concat (read_lines_min min_num actual_read lines)))%N.
Proof.
  induction lines as [|l lines IH]; intros actual_read; [now left|].
  cbn [read_lines_min]. destruct (min_num <=? actual_read + tlen l)%N eqn:E.
  - right. exists lines. split; [reflexivity|]. cbn [concat]. rewrite app_nil_r. apply N.leb_le in E. exact E.
  - destruct (IH (actual_read + tlen l)%N) as [H|[rest [H1 H2]]].
    + left. now rewrite H.
    + right. exists rest. split; [cbn [app]; now rewrite <- H1|].
      cbn [concat]. rewrite tlen_app. lia.
Qed.

Lemma read_header_decides : forall operand lines,
  text_eqb (read_header (min_num_chars_to_read operand) lines) operand = text_eqb (concat lines) operand.
Proof.
  intros operand lines. unfold read_header.
  destruct (read_lines_min_spec (min_num_chars_to_read operand) lines 0) as [H|[rest [H1 H2]]].
  - now rewrite H.
  - set (r := read_lines_min (min_num_chars_to_read operand) 0 lines) in *.
    assert (Hlen : (tlen operand < tlen (concat r))%N) by (unfold min_num_chars_to_read in H2; lia).
    rewrite (text_eqb_neq (concat r) operand).
    + symmetry. apply text_eqb_neq. intros E. rewrite H1 in E. rewrite concat_app in E.
      rewrite <- E in Hlen. rewrite tlen_app in Hlen. lia.
    + intros E. rewrite E in Hlen. lia.
Qed.

Theorem equals_all_strategies : forall expected actual : src,
  equals_impl expected actual = text_eqb (text_of expected) (text_of actual).
Proof.
  intros expected actual. unfold equals_impl.
  change (text_of (freeze expected)) with (text_of expected).
  destruct (s_ext (freeze expected)); destruct (s_ext actual).
  - apply text_eqb_sym.
  - rewrite read_header_decides. now rewrite concat_lines_lf.
  - rewrite text_eqb_sym. rewrite read_header_decides. apply text_eqb_sym.
  - reflexivity.
Qed.
