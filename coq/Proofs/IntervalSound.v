(** Soundness of the matcher-interval analysis (property C13, first half). *)
From Coq Require Import ZArith List Bool Lia ZifyBool.
From Exactly Require Import Model.Interval.
Import ListNotations.
Local Open Scope Z_scope.

(** [w] is sound for a matcher whose truth value at [x] is [h]: every [x] the matcher accepts
    lies in [pos w], every [x] it rejects lies in [inv w]. *)
Definition Sound (h : bool) (w : wi) (x : Z) : Prop :=
  (h = true -> mem x (pos w) = true) /\ (h = false -> mem x (inv w) = true).

Lemma sound_inversion h w x : Sound h w x -> Sound (negb h) (inversion w) x.
Proof. unfold Sound, inversion; cbn [pos inv]; intros [H1 H2]; destruct h; cbn; split; intros; try discriminate; auto. Qed.

(** *** membership lemmas for union / intersection *)
Ltac des_opts := repeat match goal with
  | o : option Z |- _ => destruct o
  end.

Lemma mem_of x lo hi : mem x (pos (of_ lo hi)) = mem x (NE lo hi).
Proof. destruct lo, hi; reflexivity. Qed.

Lemma union_pos_l a b x : mem x (pos a) = true -> mem x (pos (union a b)) = true.
Proof.
  unfold union. destruct (pos a) as [|la ua] eqn:Ea; [discriminate|].
  destruct (pos b) as [|lb ub] eqn:Eb; [now rewrite Ea|].
  rewrite mem_of. des_opts; cbn; intros H; lia.
Qed.
Lemma union_pos_r a b x : mem x (pos b) = true -> mem x (pos (union a b)) = true.
Proof.
  unfold union. destruct (pos a) as [|la ua] eqn:Ea; [auto|].
  destruct (pos b) as [|lb ub] eqn:Eb; [discriminate|].
  rewrite mem_of. des_opts; cbn; intros H; lia.
Qed.
Lemma intersection_pos a b x :
  mem x (pos a) = true -> mem x (pos b) = true -> mem x (pos (intersection a b)) = true.
Proof.
  unfold intersection. destruct (pos a) as [|la ua] eqn:Ea; [discriminate|].
  destruct (pos b) as [|lb ub] eqn:Eb; [discriminate|].
  des_opts; cbn [anyof]; try rewrite mem_of; cbn; intros H1 H2;
    try match goal with |- context [?p >? ?q] => destruct (Z.gtb_spec p q) end; cbn; try rewrite mem_of; cbn; lia.
Qed.

Lemma fold_union_mono xs : forall a x, mem x (pos a) = true -> mem x (pos (fold_left union xs a)) = true.
Proof. induction xs as [|y ys IH]; cbn; intros a x H; [exact H|]. apply IH, union_pos_l, H. Qed.
Lemma fold_union_in xs : forall a x y, In y xs -> mem x (pos y) = true -> mem x (pos (fold_left union xs a)) = true.
Proof.
  induction xs as [|z zs IH]; cbn; intros a x y Hin H; [contradiction|].
  destruct Hin as [->|Hin]; [apply fold_union_mono, union_pos_r, H | eapply IH; eauto].
Qed.
Lemma fold_inter_all xs : forall a x, mem x (pos a) = true -> (forall y, In y xs -> mem x (pos y) = true) ->
  mem x (pos (fold_left intersection xs a)) = true.
Proof.
  induction xs as [|z zs IH]; cbn; intros a x Ha H; [exact Ha|].
  apply IH; [apply intersection_pos; auto | auto].
Qed.

(** reduce over a non-empty operand list, at the level of truth values *)
Lemma reduce_union_sound (x : Z) (w : wi) (ws : list wi) (h : bool) (hs : list bool) :
  (h = true -> mem x (pos w) = true) ->
  Forall2 (fun h' w' => h' = true -> mem x (pos w') = true) hs ws ->
  h || existsb (fun b => b) hs = true -> mem x (pos (reduce union w ws)) = true.
Proof.
  unfold reduce. intros Hw HF. revert w h Hw. induction HF as [|h' w' hs' ws' Hh' HF IH]; cbn; intros w h Hw H.
  - rewrite orb_false_r in H; auto.
  - apply (IH (union w w') (h || h')).
    + intros Hor. apply orb_true_iff in Hor as [Hh|Hh]; [apply union_pos_l | apply union_pos_r]; auto.
    + rewrite <- orb_assoc. exact H.
Qed.
Lemma reduce_inter_sound (x : Z) (w : wi) (ws : list wi) (h : bool) (hs : list bool) :
  (h = true -> mem x (pos w) = true) ->
  Forall2 (fun h' w' => h' = true -> mem x (pos w') = true) hs ws ->
  h && forallb (fun b => b) hs = true -> mem x (pos (reduce intersection w ws)) = true.
Proof.
  unfold reduce. intros Hw HF. revert w h Hw. induction HF as [|h' w' hs' ws' Hh' HF IH]; cbn; intros w h Hw H.
  - rewrite andb_true_r in H; auto.
  - apply (IH (intersection w w') (h && h')).
    + intros Hand. apply andb_true_iff in Hand as [Hh1 Hh2]. apply intersection_pos; auto.
    + rewrite <- andb_assoc. exact H.
Qed.

(** ** Induction principle for matcher expressions (nested lists). *)
Section MexprInd.
  Variable leaf : Type.
  Variable P : mexpr leaf -> Prop.
  Hypothesis Hconst : forall b, P (MConst b).
  Hypothesis Hneg : forall m, P m -> P (MNeg m).
  Hypothesis Hconj : forall m ms, P m -> Forall P ms -> P (MConj m ms).
  Hypothesis Hdisj : forall m ms, P m -> Forall P ms -> P (MDisj m ms).
  Hypothesis Hleaf : forall l, P (MLeaf l).
  Fixpoint mexpr_ind' (m : mexpr leaf) : P m :=
    match m with
    | MConst b => Hconst b
    | MNeg m => Hneg m (mexpr_ind' m)
    | MConj m ms => Hconj m ms (mexpr_ind' m)
        ((fix go (l : list (mexpr leaf)) : Forall P l :=
            match l with [] => Forall_nil _ | y :: ys => Forall_cons _ (mexpr_ind' y) (go ys) end) ms)
    | MDisj m ms => Hdisj m ms (mexpr_ind' m)
        ((fix go (l : list (mexpr leaf)) : Forall P l :=
            match l with [] => Forall_nil _ | y :: ys => Forall_cons _ (mexpr_ind' y) (go ys) end) ms)
    | MLeaf l => Hleaf l
    end.
End MexprInd.

Lemma existsb_map {A} (f : A -> bool) l : existsb f l = existsb (fun b => b) (map f l).
Proof. induction l; cbn; congruence. Qed.
Lemma forallb_map {A} (f : A -> bool) l : forallb f l = forallb (fun b => b) (map f l).
Proof. induction l; cbn; congruence. Qed.
Lemma negb_forallb {A} (f : A -> bool) l : negb (forallb f l) = existsb (fun a => negb (f a)) l.
Proof. induction l; cbn; [reflexivity|]. rewrite negb_andb; congruence. Qed.
Lemma negb_existsb {A} (f : A -> bool) l : negb (existsb f l) = forallb (fun a => negb (f a)) l.
Proof. induction l; cbn; [reflexivity|]. rewrite negb_orb; congruence. Qed.

(** ** (A) Full soundness without adaptation (the integer-matcher level). *)
Section NoAdaption.
  Variable leaf : Type.
  Variable leaf_holds : leaf -> bool.
  Variable leaf_interval : leaf -> option wi.
  Variable x : Z.
  Hypothesis leaf_sound : forall l i, leaf_interval l = Some i -> Sound (leaf_holds l) i x.

  Local Notation U := unlimited_with_unlimited_inversion.
  Local Notation ev := (eval leaf leaf_interval U no_adaption true).
  Local Notation evn := (eval_neg leaf leaf_interval U no_adaption true).
  Local Notation hd := (holds leaf leaf_holds).

  Lemma Forall2_map_both {A} (f : A -> bool) (g : A -> wi) (R : bool -> wi -> Prop) l :
    Forall (fun a => R (f a) (g a)) l -> Forall2 R (map f l) (map g l).
  Proof. induction 1; cbn; constructor; auto. Qed.

  Theorem noadapt_sound : forall m, Sound (hd m) (ev m) x /\ Sound (negb (hd m)) (evn m) x.
  Proof.
    induction m as [b|m IH|m ms IHm IHms|m ms IHm IHms|l] using mexpr_ind'.
    - (* const *) destruct b; cbn; unfold Sound, no_adaption; cbn; split; split; intros; try discriminate; reflexivity.
    - (* neg *) destruct IH as [IH1 IH2]. split.
      + change (ev (MNeg m)) with (no_adaption (evn m)). exact IH2.
      + change (evn (MNeg m)) with (ev m). cbn [holds]. rewrite negb_involutive. exact IH1.
    - (* conj *)
      assert (Hall : Forall (fun o => Sound (hd o) (ev o) x /\ Sound (negb (hd o)) (evn o) x) ms) by exact IHms.
      destruct IHm as [IHm1 IHm2]. split.
      + change (ev (MConj m ms)) with (bin_op no_adaption intersection union (ev m) (map ev ms)).
        unfold bin_op, Sound, no_adaption, custom; cbn [pos inv]. split; intros H.
        * cbn [holds] in H. rewrite forallb_map in H.
          eapply reduce_inter_sound; [apply IHm1 | | exact H].
          apply Forall2_map_both. eapply Forall_impl; [|exact Hall]. intros o [[A _] _]; exact A.
        * cbn [holds] in H.
          assert (H' : negb (holds leaf leaf_holds m) || existsb (fun b => b) (map (fun o => negb (holds leaf leaf_holds o)) ms) = true).
          { rewrite <- existsb_map, <- negb_forallb, <- negb_andb, H. reflexivity. }
          rewrite map_map. eapply reduce_union_sound; [| | exact H'].
          -- intros Hn. cbn. apply IHm1. destruct (holds leaf leaf_holds m); [discriminate|reflexivity].
          -- rewrite <- (map_map _ (fun w => inversion w)). rewrite map_map.
             apply Forall2_map_both. eapply Forall_impl; [|exact Hall]. intros o [[_ B] _] Hn; cbn.
             apply B. destruct (hd o); [discriminate|reflexivity].
      + change (evn (MConj m ms)) with
          (bin_op no_adaption union intersection (no_adaption (evn m)) (map (fun o => no_adaption (evn o)) ms)).
        unfold bin_op, Sound, no_adaption, custom; cbn [pos inv]. split; intros H.
        * cbn [holds] in H.
          assert (H' : negb (holds leaf leaf_holds m) || existsb (fun b => b) (map (fun o => negb (holds leaf leaf_holds o)) ms) = true).
          { rewrite <- existsb_map, <- negb_forallb, <- negb_andb. exact H. }
          eapply reduce_union_sound; [| | exact H'].
          -- apply IHm2.
          -- apply Forall2_map_both. eapply Forall_impl; [|exact Hall]. intros o [_ [B _]]; exact B.
        * cbn [holds] in H. apply negb_false_iff in H. rewrite forallb_map in H.
          rewrite map_map. eapply reduce_inter_sound; [| | exact H].
          -- intros Hn. cbn. apply IHm2. rewrite Hn; reflexivity.
          -- apply Forall2_map_both. eapply Forall_impl; [|exact Hall]. intros o [_ [_ B]] Hn; cbn.
             apply B. rewrite Hn; reflexivity.
    - (* disj *)
      assert (Hall : Forall (fun o => Sound (hd o) (ev o) x /\ Sound (negb (hd o)) (evn o) x) ms) by exact IHms.
      destruct IHm as [IHm1 IHm2]. split.
      + change (ev (MDisj m ms)) with (bin_op no_adaption union intersection (ev m) (map ev ms)).
        unfold bin_op, Sound, no_adaption, custom; cbn [pos inv]. split; intros H.
        * cbn [holds] in H. rewrite existsb_map in H.
          eapply reduce_union_sound; [apply IHm1 | | exact H].
          apply Forall2_map_both. eapply Forall_impl; [|exact Hall]. intros o [[A _] _]; exact A.
        * cbn [holds] in H. apply orb_false_iff in H as [H1 H2].
          assert (H' : negb (holds leaf leaf_holds m) && forallb (fun b => b) (map (fun o => negb (holds leaf leaf_holds o)) ms) = true).
          { rewrite <- forallb_map, <- negb_existsb, H1, H2. reflexivity. }
          rewrite map_map. eapply reduce_inter_sound; [| | exact H'].
          -- intros Hn. cbn. apply IHm1. exact H1.
          -- apply Forall2_map_both. eapply Forall_impl; [|exact Hall]. intros o [[_ B] _] Hn; cbn.
             apply B. destruct (hd o); [discriminate|reflexivity].
      + change (evn (MDisj m ms)) with
          (bin_op no_adaption intersection union (no_adaption (evn m)) (map (fun o => no_adaption (evn o)) ms)).
        unfold bin_op, Sound, no_adaption, custom; cbn [pos inv]. split; intros H.
        * cbn [holds] in H. rewrite negb_orb, negb_existsb, forallb_map in H.
          eapply reduce_inter_sound; [| | exact H].
          -- apply IHm2.
          -- apply Forall2_map_both. eapply Forall_impl; [|exact Hall]. intros o [_ [B _]]; exact B.
        * cbn [holds] in H. apply negb_false_iff in H. rewrite existsb_map in H.
          rewrite map_map. eapply reduce_union_sound; [| | exact H].
          -- intros Hn. cbn. apply IHm2. rewrite Hn; reflexivity.
          -- apply Forall2_map_both. eapply Forall_impl; [|exact Hall]. intros o [_ [_ B]] Hn; cbn.
             apply B. rewrite Hn; reflexivity.
    - (* leaf *)
      cbn. destruct (leaf_interval l) as [i|] eqn:E.
      + split; [exact (leaf_sound l i E) | apply sound_inversion, (leaf_sound l i E)].
      + unfold Sound; cbn; repeat split; reflexivity.
  Qed.
End NoAdaption.

(** ** (B) Soundness of the positive interval under an adaptation that preserves membership on
    a domain [D] (the line-matcher level: [D x := 1 <= x]).  Only [pos] is claimed: an adapted
    interval is rebuilt as a plain class instance and thereby loses a custom inversion; that
    is harmless because negation is pushed down to the leaves (De Morgan in
    [_NegationEvaluator]) where the un-adapted leaf interval and its inversion are used. *)
Section Adapted.
  Variable leaf : Type.
  Variable leaf_holds : leaf -> bool.
  Variable leaf_interval : leaf -> option wi.
  Variable adapt : wi -> wi.
  Variable x : Z.
  Hypothesis adapt_ok : forall w, mem x (pos w) = true -> mem x (pos (adapt w)) = true.
  Hypothesis leaf_sound : forall l i, leaf_interval l = Some i -> Sound (leaf_holds l) i x.

  Local Notation U := unlimited_with_unlimited_inversion.
  Local Notation ev := (eval leaf leaf_interval U adapt true).
  Local Notation evn := (eval_neg leaf leaf_interval U adapt true).
  Local Notation hd := (holds leaf leaf_holds).

  Theorem adapted_pos_sound : forall m,
      (hd m = true -> mem x (pos (ev m)) = true) /\ (hd m = false -> mem x (pos (evn m)) = true).
  Proof.
    induction m as [b|m IH|m ms IHm IHms|m ms IHm IHms|l] using mexpr_ind'.
    - destruct b; cbn; split; intros; try discriminate; try reflexivity; apply adapt_ok; reflexivity.
    - destruct IH as [IH1 IH2]. split.
      + change (ev (MNeg m)) with (adapt (evn m)). cbn [holds]. intros H. apply adapt_ok, IH2.
        destruct (hd m); [discriminate|reflexivity].
      + change (evn (MNeg m)) with (ev m). cbn [holds]. intros H. apply IH1.
        destruct (hd m); [reflexivity|discriminate].
    - destruct IHm as [IHm1 IHm2]. split; intros H.
      + change (ev (MConj m ms)) with (bin_op adapt intersection union (ev m) (map ev ms)).
        unfold bin_op, custom; cbn [pos]. cbn [holds] in H. rewrite forallb_map in H.
        eapply reduce_inter_sound; [apply IHm1 | | exact H].
        apply Forall2_map_both. eapply Forall_impl; [|exact IHms]. intros o [A _]; exact A.
      + change (evn (MConj m ms)) with
          (bin_op adapt union intersection (adapt (evn m)) (map (fun o => adapt (evn o)) ms)).
        unfold bin_op, custom; cbn [pos]. cbn [holds] in H.
        assert (H' : negb (hd m) || existsb (fun b => b) (map (fun o => negb (hd o)) ms) = true).
        { rewrite <- existsb_map, <- negb_forallb, <- negb_andb, H. reflexivity. }
        eapply reduce_union_sound; [| | exact H'].
        * intros Hn. apply adapt_ok, IHm2. destruct (hd m); [discriminate|reflexivity].
        * apply Forall2_map_both. eapply Forall_impl; [|exact IHms]. intros o [_ B] Hn.
          apply adapt_ok, B. destruct (hd o); [discriminate|reflexivity].
    - destruct IHm as [IHm1 IHm2]. split; intros H.
      + change (ev (MDisj m ms)) with (bin_op adapt union intersection (ev m) (map ev ms)).
        unfold bin_op, custom; cbn [pos]. cbn [holds] in H. rewrite existsb_map in H.
        eapply reduce_union_sound; [apply IHm1 | | exact H].
        apply Forall2_map_both. eapply Forall_impl; [|exact IHms]. intros o [A _]; exact A.
      + change (evn (MDisj m ms)) with
          (bin_op adapt intersection union (adapt (evn m)) (map (fun o => adapt (evn o)) ms)).
        unfold bin_op, custom; cbn [pos]. cbn [holds] in H. apply orb_false_iff in H as [H1 H2].
        assert (H' : negb (hd m) && forallb (fun b => b) (map (fun o => negb (hd o)) ms) = true).
        { rewrite <- forallb_map, <- negb_existsb, H1, H2. reflexivity. }
        eapply reduce_inter_sound; [| | exact H'].
        * intros Hn. apply adapt_ok, IHm2. exact H1.
        * apply Forall2_map_both. eapply Forall_impl; [|exact IHms]. intros o [_ B] Hn.
          apply adapt_ok, B. destruct (hd o); [discriminate|reflexivity].
    - cbn. destruct (leaf_interval l) as [i|] eqn:E.
      + destruct (leaf_sound l i E) as [S1 S2]. split; intros H; [apply adapt_ok, S1, H | apply S2, H].
      + unfold unknown', custom, inversion; cbn. split; intros _; apply adapt_ok; reflexivity.
  Qed.
End Adapted.

(** ** Instances *)
Lemma cmp_interval_sound c rhs x : Sound (cmp_holds c x rhs) (cmp_interval c rhs) x.
Proof.
  unfold Sound; destruct c; cbn; split; intros H; lia.
Qed.

Theorem int_interval_sound (oracle : nat -> Z -> bool) (m : imatcher) (x : Z) :
  Sound (imatches oracle m x) (interval_of_imatcher true m) x.
Proof.
  unfold imatches, interval_of_imatcher.
  apply (noadapt_sound ileaf (ileaf_holds oracle x) ileaf_interval x).
  intros [c rhs|k] i E; cbn in E; [|discriminate]. injection E as <-. apply cmp_interval_sound.
Qed.

Lemma adapt_line_ok x w : 1 <= x -> mem x (pos w) = true -> mem x (pos (adapt_to_line_num_range w)) = true.
Proof.
  intros Hx. unfold adapt_to_line_num_range, adapt_limit, FIRST_LINE_NUMBER.
  destruct (pos w) as [|lo hi] eqn:E; [discriminate|].
  destruct lo as [l|], hi as [u|]; cbn [option_map mem]; intros H.
  - destruct (Z.ltb_spec u 1); [lia|]. destruct (Z.eqb_spec (Z.max 1 l) 1); cbn; [lia|].
    destruct (Z.gtb_spec (Z.max 1 l) (Z.max 1 u)); cbn; lia.
  - destruct (Z.eqb_spec (Z.max 1 l) 1); cbn; lia.
  - destruct (Z.ltb_spec u 1); [lia|]. cbn; lia.
  - reflexivity.
Qed.

Theorem line_interval_pos_sound {line} (io : nat -> Z -> bool) (lo : nat -> Z -> line -> bool)
        (m : lmatcher) (n : Z) (l : line) :
  1 <= n -> lmatches line io lo m n l = true -> mem n (pos (interval_of_lmatcher true m)) = true.
Proof.
  intros Hn H. unfold lmatches, interval_of_lmatcher in *.
  refine (proj1 (adapted_pos_sound lleaf (lleaf_holds line io lo n l) (lleaf_interval true)
                   adapt_to_line_num_range n _ _ m) H).
  - intros w. apply adapt_line_ok, Hn.
  - intros [im|k] i E; cbn in E; [|discriminate]. injection E as <-. cbn. apply int_interval_sound.
Qed.
