(** C20: theorems about the models of util/value_lookup.lookup and of the help argument parser
    (cli/program_modes/help/argument_parsing.py): every documented entry can be reached from the command line. *)
From Coq Require Import List Bool String Ascii Arith ZArith Lia.
From Exactly Require Import Lib.Harness Model.Help Spec.C20 Proofs.HelpBasics.
Import ListNotations.
Local Open Scope string_scope.

(** ** value_lookup.lookup *)
Lemma lookup_go_exact : forall up keys matches,
  (exists k, In k keys /\ upper k = up) ->
  exists k, lookup_go up keys matches = Found k true /\ In k keys /\ upper k = up.
Proof.
  intros up keys. induction keys as [|k r IH]; intros matches [k0 [Hin E]]; [destruct Hin|].
  cbn [lookup_go]. destruct (String.eqb up (upper k)) eqn:Ek.
  - exists k. apply String.eqb_eq in Ek. split; [reflexivity|]. split; [left; reflexivity | symmetry; exact Ek].
  - assert (Hr : exists k1, In k1 r /\ upper k1 = up).
    { destruct Hin as [<-|Hin].
      - rewrite E in Ek. rewrite String.eqb_refl in Ek. discriminate.
      - exists k0. split; assumption. }
    destruct (contains up (upper k)).
    + destruct (IH (matches ++ [k])%list Hr) as [k1 [H1 [H2 H3]]]. exists k1. split; [exact H1|]. split; [right; exact H2 | exact H3].
    + destruct (IH matches Hr) as [k1 [H1 [H2 H3]]]. exists k1. split; [exact H1|]. split; [right; exact H2 | exact H3].
Qed.

(** a key is always found, as an exact match, by its own name (in any letter case) *)
Theorem lookup_finds_own_name : forall name keys,
  In name keys -> exists k, lookup name keys = Found k true /\ In k keys /\ upper k = upper name.
Proof.
  intros name keys H. unfold lookup. apply lookup_go_exact. exists name. split; [exact H | reflexivity].
Qed.

Lemma lookup_go_found_in : forall up keys matches k e,
  lookup_go up keys matches = Found k e -> In k keys \/ In k matches.
Proof.
  intros up keys. induction keys as [|k0 r IH]; intros matches k e; cbn [lookup_go].
  - destruct matches as [|m [|m' ms]]; intros H; try discriminate. injection H as <- <-. right. left. reflexivity.
  - destruct (String.eqb up (upper k0)).
    + intros H. injection H as <- <-. left. left. reflexivity.
    + destruct (contains up (upper k0)); intros H; apply IH in H.
      * destruct H as [H|H]; [left; right; exact H|]. apply in_app_or in H. destruct H as [H|[<-|[]]].
        -- right. exact H.
        -- left. left. reflexivity.
      * destruct H as [H|H]; [left; right; exact H | right; exact H].
Qed.

(** whatever the help finds is one of the documented names *)
Theorem lookup_found_is_key : forall pattern keys k e, lookup pattern keys = Found k e -> In k keys.
Proof.
  intros pattern keys k e H. unfold lookup in H. apply lookup_go_found_in in H. destruct H as [H|[]]. exact H.
Qed.

Lemma lookup_go_nomatch : forall up keys matches,
  lookup_go up keys matches = NoMatch <->
  matches = [] /\ forall k, In k keys -> String.eqb up (upper k) = false /\ contains up (upper k) = false.
Proof.
  intros up keys. induction keys as [|k0 r IH]; intros matches; cbn [lookup_go].
  - destruct matches as [|m [|m' ms]]; split; try (intros H; discriminate).
    + intros _. split; [reflexivity | intros k []].
    + reflexivity.
    + intros [H _]. discriminate.
    + intros [H _]. discriminate.
  - destruct (String.eqb up (upper k0)) eqn:E.
    + split; [intros H; discriminate|]. intros [_ H]. destruct (H k0 (or_introl eq_refl)) as [H1 _]. congruence.
    + destruct (contains up (upper k0)) eqn:C.
      * rewrite IH. split.
        -- intros [H _]. destruct matches; discriminate.
        -- intros [_ H]. destruct (H k0 (or_introl eq_refl)) as [_ H2]. congruence.
      * rewrite IH. split; intros [Hm H]; (split; [exact Hm|]).
        -- intros k [<-|Hk]; [split; assumption | apply H; exact Hk].
        -- intros k Hk. apply H. right. exact Hk.
Qed.

(** "No matching ..." is answered only when no documented name contains the pattern *)
Theorem lookup_nomatch_iff : forall pattern keys,
  lookup pattern keys = NoMatch <->
  forall k, In k keys -> String.eqb (upper pattern) (upper k) = false /\ contains (upper pattern) (upper k) = false.
Proof.
  intros pattern keys. unfold lookup. rewrite lookup_go_nomatch. split; [intros [_ H]; exact H | intros H; split; [reflexivity | exact H]].
Qed.

(** ** auxiliary facts *)
Lemma NoDupb_NoDup : forall l, NoDupb l = true -> NoDup l.
Proof.
  induction l as [|x r IH]; intros H; [constructor|].
  cbn in H. apply andb_true_iff in H as [H1 H2]. constructor.
  - apply negb_true_iff in H1. apply mem_false_not_In. exact H1.
  - apply IH. exact H2.
Qed.

Lemma NoDup_map_inj : forall {A : Type} (f : A -> string) l x y,
  NoDup (map f l) -> In x l -> In y l -> f x = f y -> x = y.
Proof.
  intros A f l. induction l as [|a l IH]; intros x y H Hx Hy E; [destruct Hx|].
  cbn [map] in H. inversion H as [|? ? Hn Hd]; subst.
  destruct Hx as [<-|Hx], Hy as [<-|Hy].
  - reflexivity.
  - exfalso. apply Hn. rewrite E. apply in_map. exact Hy.
  - exfalso. apply Hn. rewrite <- E. apply in_map. exact Hx.
  - apply IH; assumption.
Qed.

Lemma NoDup_app_l : forall {A : Type} (l1 l2 : list A), NoDup (l1 ++ l2) -> NoDup l1.
Proof.
  intros A l1 l2. induction l1 as [|x l1 IH]; intros H; [constructor|].
  cbn in H. inversion H as [|? ? Hn Hd]; subst. constructor.
  - intros Hin. apply Hn. apply in_or_app. left. exact Hin.
  - apply IH. exact Hd.
Qed.

Lemma NoDup_app_r : forall {A : Type} (l1 l2 : list A), NoDup (l1 ++ l2) -> NoDup l2.
Proof.
  intros A l1 l2. induction l1 as [|x l1 IH]; intros H; [exact H|].
  cbn in H. inversion H; subst. apply IH. assumption.
Qed.

Lemma NoDup_app_disjoint : forall {A : Type} (l1 l2 : list A) x, NoDup (l1 ++ l2) -> In x l1 -> In x l2 -> False.
Proof.
  intros A l1 l2 x. induction l1 as [|y l1 IH]; intros H H1 H2; [destruct H1|].
  cbn in H. inversion H as [|? ? Hn Hd]; subst. destruct H1 as [<-|H1].
  - apply Hn. apply in_or_app. right. exact H2.
  - apply IH; assumption.
Qed.

Lemma dict_get_of_pairs_NoDup : forall {V : Type} (l : list (string * V)) k v,
  NoDup (map fst l) -> In (k, v) l -> dict_get k (dict_of_pairs l) = Some v.
Proof.
  intros V l k v Hnd Hin.
  assert (Hk : In k (dict_keys (dict_of_pairs l))).
  { apply dict_of_pairs_keys. apply in_map_iff. exists (k, v). split; [reflexivity | exact Hin]. }
  apply dict_get_Some_iff_mem in Hk as [v' Hv']. rewrite Hv'. f_equal.
  apply dict_get_In in Hv'. apply dict_of_pairs_entries in Hv'.
  assert (E : (k, v') = (k, v)) by (apply (NoDup_map_inj fst l); [exact Hnd | exact Hv' | exact Hin | reflexivity]).
  injection E as ->. reflexivity.
Qed.

Lemma find_name_NoDup : forall (l : list section_help) h,
  NoDup (map sh_name l) -> In h l -> find (fun x => String.eqb (sh_name x) (sh_name h)) l = Some h.
Proof.
  intros l h Hnd Hin.
  destruct (find (fun x => String.eqb (sh_name x) (sh_name h)) l) as [h'|] eqn:F.
  - apply find_some in F as [Hin' E]. apply String.eqb_eq in E. f_equal.
    apply (NoDup_map_inj sh_name l); assumption.
  - exfalso. apply (find_none _ _ F) in Hin. rewrite String.eqb_refl in Hin. discriminate.
Qed.

(** ** what [well_named] gives *)
Record wn_facts (kw : keywords) (a : app_help) : Prop := {
  wn_nodup : NoDup ([kw_help kw; kw_htmldoc kw; kw_case kw; kw_suite kw; kw_symbol kw]
                    ++ map fst (ah_entities a) ++ map sh_name (ah_phases a));
  wn_sections : NoDup (map sh_name (ah_suite_sections a));
  wn_lower : forall s, In s ([kw_help kw; kw_htmldoc kw; kw_case kw; kw_suite kw; kw_symbol kw]
                             ++ map fst (ah_entities a) ++ map sh_name (ah_phases a)) -> lower s = s
}.

Lemma well_named_facts : forall kw a, well_named kw a = true -> wn_facts kw a.
Proof.
  intros kw a H. unfold well_named in H. apply andb_true_iff in H as [H _].
  apply andb_true_iff in H as [H H3]. apply andb_true_iff in H as [H1 H2].
  constructor.
  - apply NoDupb_NoDup. exact H1.
  - apply NoDupb_NoDup. exact H2.
  - intros s Hs. rewrite forallb_forall in H3. apply String.eqb_eq. apply H3. exact Hs.
Qed.

Section Reach.
  Variable kw : keywords.
  Variable a : app_help.
  Hypothesis WN : wn_facts kw a.

  Let reserved := [kw_help kw; kw_htmldoc kw; kw_case kw; kw_suite kw; kw_symbol kw].
  Let types := map fst (ah_entities a).
  Let phases := map sh_name (ah_phases a).

  Lemma nd_types : NoDup types.
  Proof. pose proof (wn_nodup kw a WN) as H. apply NoDup_app_r in H. apply NoDup_app_l in H. exact H. Qed.

  Lemma nd_phases : NoDup phases.
  Proof. pose proof (wn_nodup kw a WN) as H. apply NoDup_app_r in H. apply NoDup_app_r in H. exact H. Qed.

  Lemma type_not_reserved : forall t, In t types -> ~ In t reserved.
  Proof.
    intros t Ht Hr. apply (NoDup_app_disjoint reserved (types ++ phases) t (wn_nodup kw a WN) Hr).
    apply in_or_app. left. exact Ht.
  Qed.

  Lemma phase_not_reserved : forall p, In p phases -> ~ In p reserved.
  Proof.
    intros p Hp Hr. apply (NoDup_app_disjoint reserved (types ++ phases) p (wn_nodup kw a WN) Hr).
    apply in_or_app. right. exact Hp.
  Qed.

  Lemma phase_not_type : forall p, In p phases -> ~ In p types.
  Proof.
    intros p Hp Ht. pose proof (wn_nodup kw a WN) as H. apply NoDup_app_r in H.
    apply (NoDup_app_disjoint types phases p H Ht Hp).
  Qed.

  Lemma entity_dict_mem : forall t, dict_mem t (entity_dict a) = true <-> In t types.
  Proof. intros t. rewrite dict_mem_In. unfold entity_dict. apply dict_of_pairs_keys. Qed.

  Lemma phase_dict_mem : forall p, dict_mem p (phase_dict a) = true <-> In p phases.
  Proof.
    intros p. rewrite dict_mem_In. unfold phase_dict. rewrite dict_of_pairs_keys. rewrite map_map. cbn [fst]. reflexivity.
  Qed.

  Lemma neq_eqb_false : forall x y : string, x <> y -> String.eqb x y = false.
  Proof. intros x y H. apply String.eqb_neq. exact H. Qed.

  (** the dispatch of Parser.apply for a first argument that is a phase name *)
  Lemma dispatch_phase : forall p rest, In p phases ->
    parse_help kw a (p :: rest) =
    match rest with
    | [x] => parse_instruction_in_phase kw a p x
    | _ :: _ => PHelpError
    | [] => if String.eqb p (kw_instructions kw) then POk RInstructionSet
            else if dict_mem p (phase_dict a) then POk (RPhase p) else parse_instruction_search a p
    end.
  Proof.
    intros p rest Hp. cbn [parse_help].
    assert (HL : lower p = p). { apply (wn_lower kw a WN). apply in_or_app. right. apply in_or_app. right. exact Hp. }
    rewrite HL.
    pose proof (phase_not_reserved p Hp) as NR. cbn [reserved In] in NR.
    rewrite (neq_eqb_false p (kw_help kw)) by (intros E; apply NR; left; symmetry; exact E).
    assert (HT : dict_mem p (entity_dict a) = false).
    { destruct (dict_mem p (entity_dict a)) eqn:E; [|reflexivity]. apply entity_dict_mem in E.
      exfalso. apply (phase_not_type p Hp E). }
    rewrite HT.
    rewrite (neq_eqb_false p (kw_htmldoc kw)) by (intros E; apply NR; right; left; symmetry; exact E).
    rewrite (neq_eqb_false p (kw_case kw)) by (intros E; apply NR; right; right; left; symmetry; exact E).
    rewrite (neq_eqb_false p (kw_suite kw)) by (intros E; apply NR; right; right; right; left; symmetry; exact E).
    rewrite (neq_eqb_false p (kw_symbol kw)) by (intros E; apply NR; right; right; right; right; left; symmetry; exact E).
    reflexivity.
  Qed.

  Lemma dispatch_type : forall t rest, In t types -> parse_help kw a (t :: rest) = parse_entity_help a t rest.
  Proof.
    intros t rest Ht. cbn [parse_help].
    assert (HL : lower t = t). { apply (wn_lower kw a WN). apply in_or_app. right. apply in_or_app. left. exact Ht. }
    rewrite HL.
    pose proof (type_not_reserved t Ht) as NR. cbn [reserved In] in NR.
    rewrite (neq_eqb_false t (kw_help kw)) by (intros E; apply NR; left; symmetry; exact E).
    rewrite (proj2 (entity_dict_mem t) Ht). reflexivity.
  Qed.

  Lemma dispatch_suite : forall rest, parse_help kw a (kw_suite kw :: rest) = parse_suite_help kw a rest.
  Proof.
    intros rest. cbn [parse_help].
    assert (HR : In (kw_suite kw) reserved) by (cbn; tauto).
    assert (HL : lower (kw_suite kw) = kw_suite kw). { apply (wn_lower kw a WN). apply in_or_app. left. exact HR. }
    rewrite HL.
    pose proof (NoDup_app_l _ _ (wn_nodup kw a WN)) as ND. fold reserved in ND. cbn [reserved] in ND.
    inversion ND as [|? ? N1 ND1]; subst. inversion ND1 as [|? ? N2 ND2]; subst. inversion ND2 as [|? ? N3 ND3]; subst.
    rewrite (neq_eqb_false (kw_suite kw) (kw_help kw)) by (intros E; apply N1; rewrite <- E; cbn; tauto).
    assert (HT : dict_mem (kw_suite kw) (entity_dict a) = false).
    { destruct (dict_mem (kw_suite kw) (entity_dict a)) eqn:E; [|reflexivity]. apply entity_dict_mem in E.
      exfalso. apply (type_not_reserved _ E HR). }
    rewrite HT.
    rewrite (neq_eqb_false (kw_suite kw) (kw_htmldoc kw)) by (intros E; apply N2; rewrite <- E; cbn; tauto).
    rewrite (neq_eqb_false (kw_suite kw) (kw_case kw)) by (intros E; apply N3; rewrite <- E; cbn; tauto).
    rewrite String.eqb_refl. reflexivity.
  Qed.

  Theorem help_reaches_every_entry : forall argv, names_entry kw a argv -> exists r, parse_help kw a argv = POk r.
  Proof.
    intros argv H. destruct H as [h Hh | h keys n Hh Hk Hn | t names Ht | t names n words Ht Hn Hw Hj | h Hh | h keys n Hh Hk Hn].
    - (* help PHASE *)
      assert (Hp : In (sh_name h) phases) by (apply in_map; exact Hh).
      rewrite (dispatch_phase _ [] Hp). destruct (String.eqb (sh_name h) (kw_instructions kw)); [eexists; reflexivity|].
      rewrite (proj2 (phase_dict_mem _) Hp). eexists; reflexivity.
    - (* help PHASE INSTRUCTION *)
      assert (Hp : In (sh_name h) phases) by (apply in_map; exact Hh).
      rewrite (dispatch_phase _ [n] Hp). unfold parse_instruction_in_phase.
      assert (G : dict_get (sh_name h) (phase_dict a) = Some h).
      { unfold phase_dict. apply dict_get_of_pairs_NoDup.
        - rewrite map_map. cbn [fst]. exact nd_phases.
        - apply in_map_iff. exists h. split; [reflexivity | exact Hh]. }
      rewrite G, Hk. destruct (String.eqb n (kw_instructions kw)); [eexists; reflexivity|].
      destruct (lookup_finds_own_name n keys Hn) as [k [E _]]. rewrite E. eexists; reflexivity.
    - (* help ENTITY-TYPE *)
      assert (HT : In t types) by (apply in_map_iff; exists (t, names); split; [reflexivity | exact Ht]).
      rewrite (dispatch_type _ [] HT). cbn. eexists; reflexivity.
    - (* help ENTITY-TYPE ENTITY-NAME... *)
      assert (HT : In t types) by (apply in_map_iff; exists (t, names); split; [reflexivity | exact Ht]).
      rewrite (dispatch_type _ words HT). unfold parse_entity_help.
      destruct words as [|w ws]; [congruence|].
      assert (G : dict_get t (entity_dict a) = Some names).
      { unfold entity_dict. apply dict_get_of_pairs_NoDup; [exact nd_types | exact Ht]. }
      rewrite G, Hj. destruct (lookup_finds_own_name n names Hn) as [k [E _]]. rewrite E. eexists; reflexivity.
    - (* help suite SECTION *)
      rewrite dispatch_suite. cbn [parse_suite_help List.length Nat.eqb].
      destruct (String.eqb (sh_name h) (kw_spec kw) && true); [eexists; reflexivity|].
      rewrite (find_name_NoDup _ h (wn_sections kw a WN) Hh). eexists; reflexivity.
    - (* help suite SECTION INSTRUCTION *)
      rewrite dispatch_suite. cbn [parse_suite_help List.length Nat.eqb]. rewrite andb_false_r.
      rewrite (find_name_NoDup _ h (wn_sections kw a WN) Hh). rewrite Hk.
      destruct (lookup_finds_own_name n keys Hn) as [k [E _]]. rewrite E. eexists; reflexivity.
  Qed.
End Reach.

Theorem help_reaches_every_entry_wn : forall kw a argv,
  well_named kw a = true -> names_entry kw a argv -> exists r, parse_help kw a argv = POk r.
Proof. intros kw a argv H. apply help_reaches_every_entry. apply well_named_facts. exact H. Qed.
