(** C01: the property predicate [P_C01] that the check evaluates on the OBSERVED behaviour of the
    real program is true of the model's own behaviour, for ALL test cases (any number of
    instructions per phase, any behaviours - admissible or not - any status, --act or not).

    [obs_of_model tc] is the observation record built from [full_execute tc] exactly as
    [check_c01] compares it.  Consequences proved here:
      - [check_c01_on_model]      : the check on the model's own observation is (true, true);
      - [corr_determines_obs]     : the correspondence half of [check_c01] being true forces the
                                    observation to BE [obs_of_model] of the test case;
      - [corr_implies_property]   : hence correspondence on an input implies the property
                                    predicate on that input.
    No side condition on the behaviours is needed. *)
From Coq Require Import List Bool Arith Lia.
From Exactly Require Import Lib.Harness Model.Outcome Model.Exec Spec.C01 Proofs.ExecSpec Proofs.ExecCorollaries.
Import ListNotations.
Local Arguments schedule : simpl never.

(** The model's own observation, in the shape the harness records one of the real program. *)
Definition obs_of_model (tc : testcase) : c01_obs :=
  let (mt, mr) := full_execute tc in
  C01Obs (filter observable mt) (fr_status mr)
         (option_map (fun f => (f_phase f, f_step f)) (fr_failure mr))
         (fr_has_sds mr) (fr_has_atc_outcome mr).

(** * Items of a plan agree with the behaviours [P_C01] looks up by event *)
Definition ev_fails (tc : testcase) (e : event) : bool :=
  match outcome (beh_of_event tc e) with Some _ => true | None => false end.

Definition item_wf (tc : testcase) (it : item) : Prop :=
  match fst it with
  | EInstr p k j pv => snd it = option_map (Failure p k j) (outcome (beh_of_event tc (fst it)))
  | _ => snd it = None
  end.

Lemma sched_list_wf tc p k prev : Forall (item_wf tc) (sched_list p k prev 0 (instrs_of tc p)).
Proof.
  apply Forall_forall. intros [e r] Hin. apply sched_list_events in Hin as (j & i & E1 & _ & Hn & E2).
  rewrite Nat.sub_0_r in Hn. cbn in E1, E2. subst e. unfold item_wf. cbn. rewrite Hn. exact E2.
Qed.

Lemma sched_steps_wf tc ss : Forall (item_wf tc) (sched_steps tc ss).
Proof.
  induction ss as [|[p k] ss IH]; cbn; [constructor|]. apply Forall_app. split; [apply sched_list_wf|exact IH].
Qed.

Lemma schedule_wf tc : Forall (item_wf tc) (schedule tc).
Proof.
  unfold schedule. apply Forall_app. split; [apply sched_steps_wf|]. constructor; [reflexivity|].
  apply Forall_app. split; [apply sched_steps_wf|]. apply Forall_app. split; [apply sched_steps_wf|].
  destruct (tc_act_only tc); [constructor|]. apply Forall_app. split; apply sched_list_wf.
Qed.

Lemma wf_fails tc it : item_wf tc it -> ev_fails tc (fst it) = match snd it with Some _ => true | None => false end.
Proof.
  destruct it as [e r]. unfold item_wf, ev_fails. cbn [fst snd]. destruct e; intros ->; cbn; try reflexivity.
  destruct (outcome _); reflexivity.
Qed.

(** halt at the first failure: in a trace that is a plan cut after its first failing item, every
    event but the last behaves OK *)
Lemma abo_tuf tc l : Forall (item_wf tc) l -> all_before_ok tc (map fst (tuf l)) = true.
Proof.
  induction 1 as [|it l Hw _ IH]; [reflexivity|].
  cbn [tuf map]. apply wf_fails in Hw. unfold ev_fails in Hw.
  destruct (snd it) eqn:Es; [reflexivity|].
  cbn [all_before_ok]. destruct (outcome (beh_of_event tc (fst it))); [discriminate|].
  rewrite IH. destruct (map fst (tuf l)); reflexivity.
Qed.

(** the failing events of such a trace: none, or exactly the first failing item *)
Fixpoint ffail_ev (l : list item) : list event :=
  match l with
  | [] => []
  | it :: l' => match snd it with Some _ => [fst it] | None => ffail_ev l' end
  end.

Lemma filter_fails_tuf tc l : Forall (item_wf tc) l -> filter (ev_fails tc) (map fst (tuf l)) = ffail_ev l.
Proof.
  induction 1 as [|it l Hw _ IH]; [reflexivity|].
  cbn [tuf map filter ffail_ev]. rewrite (wf_fails _ _ Hw). destruct (snd it); [reflexivity|exact IH].
Qed.

Lemma ffail_ev_none l : ffail l = None -> ffail_ev l = [].
Proof. induction l as [|[e [f|]] l IH]; cbn; intros H; [reflexivity|discriminate|auto]. Qed.

Lemma ffail_ev_some tc l f : Forall (item_wf tc) l -> ffail l = Some f ->
  exists pv, ffail_ev l = [EInstr (f_phase f) (f_step f) (f_idx f) pv] /\
             outcome (beh_of_event tc (EInstr (f_phase f) (f_step f) (f_idx f) pv)) = Some (f_status f).
Proof.
  induction 1 as [|[e r] l Hw _ IH]; cbn [ffail ffail_ev fst snd]; [discriminate|].
  destruct r as [f'|]; [|exact IH]. intros [= ->]. unfold item_wf in Hw. cbn [fst snd] in Hw.
  destruct e as [p k j pv| |]; try discriminate.
  destruct (outcome (beh_of_event tc (EInstr p k j pv))) as [st|] eqn:Eo; [|discriminate].
  cbn in Hw. injection Hw as ->. cbn [f_phase f_step f_idx f_status]. exists pv. split; [reflexivity|exact Eo].
Qed.

(** * Kinds of events *)
(** events of the plan outside cleanup/main: the sandbox marker and steps that are told no phase *)
Definition main_event (e : event) : bool :=
  match e with
  | ESandbox => true
  | EInstr Cleanup SMain _ _ => false
  | EInstr _ _ _ None => true
  | _ => false
  end.
Definition cleanup_event (pv : prev_phase) (e : event) : bool :=
  match e with EInstr Cleanup SMain _ (Some pv') => prev_phase_eqb pv' pv | _ => false end.

Lemma sched_steps_all tc (Q : event -> bool) ss :
  (forall p k j, In (p, k) ss -> Q (EInstr p k j None) = true) ->
  forall it, In it (sched_steps tc ss) -> Q (fst it) = true.
Proof.
  intros H it Hin. apply sched_steps_events in Hin as (p & k & j & Hin & ->). apply H, Hin.
Qed.

Ltac enum_steps Hin := cbn in Hin; repeat (destruct Hin as [Hin|Hin]; [injection Hin as <- <-; reflexivity|]); contradiction.

Lemma conf_main tc it : In it (sched_step tc (Conf, SMain)) -> main_event (fst it) = true.
Proof. intros H. apply sched_list_events in H as (j & i & -> & _). reflexivity. Qed.

Lemma schedule_main tc it : In it (schedule tc) -> main_event (fst it) = true.
Proof.
  unfold schedule. intros H. apply in_app_or in H as [H|H].
  { revert it H. apply sched_steps_all. intros p k j Hin. enum_steps Hin. }
  destruct H as [<-|H]; [reflexivity|].
  apply in_app_or in H as [H|H]. { revert it H. apply sched_steps_all. intros p k j Hin. enum_steps Hin. }
  apply in_app_or in H as [H|H]. { revert it H. apply sched_steps_all. intros p k j Hin. enum_steps Hin. }
  destruct (tc_act_only tc); [contradiction|].
  apply in_app_or in H as [H|H]; apply sched_list_events in H as (j & i & -> & _); reflexivity.
Qed.

Lemma prev_phase_eqb_refl pv : prev_phase_eqb pv pv = true.
Proof. destruct pv; reflexivity. Qed.

Lemma cleanup_list_events tc pv it :
  In it (sched_list Cleanup SMain (Some pv) 0 (tc_cleanup tc)) -> cleanup_event pv (fst it) = true.
Proof. intros H. apply sched_list_events in H as (j & i & -> & _). cbn. apply prev_phase_eqb_refl. Qed.

Lemma Forall_map_fst' (Q : event -> bool) (l : list item) :
  (forall it, In it l -> Q (fst it) = true) -> Forall (fun e => Q e = true) (map fst l).
Proof. intros H. apply Forall_map_fst, Forall_forall. exact H. Qed.

Lemma filter_all {A} (f : A -> bool) l : Forall (fun x => f x = true) l -> filter f l = l.
Proof. induction 1 as [|x l Hx _ IH]; cbn; [reflexivity|]. rewrite Hx, IH. reflexivity. Qed.
Lemma filter_none {A} (f : A -> bool) l : Forall (fun x => f x = false) l -> filter f l = [].
Proof. induction 1 as [|x l Hx _ IH]; cbn; [reflexivity|]. rewrite Hx, IH. reflexivity. Qed.

Lemma main_event_props e : main_event e = true ->
  observable e = true /\ is_cleanup_main e = false /\
  (match e with EInstr Cleanup SMain 0 _ => true | _ => false end) = false.
Proof. destruct e as [[] [] [|j] [pv|]| |]; cbn; intros H; try discriminate; auto. Qed.
Lemma cleanup_event_props pv e : cleanup_event pv e = true ->
  observable e = true /\ is_cleanup_main e = true /\ is_sandbox e = false /\ is_validation_event e = false.
Proof. destruct e as [[] [] j [pv'|]| |]; cbn; intros H; try discriminate; auto. Qed.

(** * validation first *)
Lemma svf_nonval l : Forall (fun e => is_validation_event e = false) l -> forall b, sorted_validation_first b l = true.
Proof. induction 1 as [|e l He _ IH]; intros b; cbn; [reflexivity|]. rewrite He. apply IH. Qed.
Lemma svf_app V R :
  Forall (fun e => is_validation_event e = true) V -> Forall (fun e => is_validation_event e = false) R ->
  sorted_validation_first false (V ++ R) = true.
Proof.
  intros HV HR. induction HV as [|e V He _ IH]; cbn; [apply svf_nonval, HR|]. rewrite He, IH. reflexivity.
Qed.

Lemma Forall_filter {A} (Q : A -> Prop) f l : Forall Q l -> Forall Q (filter f l).
Proof. induction 1 as [|x l Hx _ IH]; cbn; [constructor|]. destruct (f x); [constructor|]; auto. Qed.

Lemma full_trace_validation_first tc :
  sorted_validation_first false (filter observable (fst (full_execute tc))) = true.
Proof.
  assert (Hc : forall l : list item, (forall it, In it l -> In it (sched_step tc (Conf, SMain))) ->
                         Forall (fun e => is_validation_event e = true) (map fst l)).
  { intros l Hl. apply Forall_map_fst, Forall_forall. intros it Hin. apply Hl in Hin.
    apply sched_list_events in Hin as (j & i & -> & _). reflexivity. }
  unfold full_execute. rewrite run_step_spec.
  destruct (ffail (sched_step tc (Conf, SMain))) as [f|] eqn:E.
  - cbn [fst]. rewrite <- (app_nil_r (filter _ _)). apply svf_app; [|constructor].
    apply Forall_filter, Hc. apply tuf_incl.
  - rewrite (tuf_no_fail _ E).
    assert (G : sorted_validation_first false
                  (filter observable (map fst (sched_step tc (Conf, SMain)) ++ fst (partial_execute tc))) = true).
    { destruct (validation_precedes_execution tc) as (t1 & t2 & -> & H1 & H2).
      rewrite app_assoc, filter_app. apply svf_app; [|apply Forall_filter, H2].
      apply Forall_filter, Forall_app. split; [apply Hc; auto|exact H1]. }
    destruct (tc_status tc); destruct (partial_execute tc) as [t pr]; cbn [fst] in *; try exact G.
    rewrite <- (app_nil_r (filter _ _)). apply svf_app; [|constructor]. apply Forall_filter, Hc. auto.
Qed.

(** * Shape of the observable trace and of the result of every execution of the model *)
Definition cl_items (tc : testcase) (cl : option prev_phase) : list item :=
  match cl with None => [] | Some pv => sched_list Cleanup SMain (Some pv) 0 (tc_cleanup tc) end.
Definition is_some {A} (o : option A) : bool := match o with Some _ => true | None => false end.

Definition result_ok (tc : testcase) (main cln : list item) (r : fresult) : Prop :=
  match fr_failure r with
  | None => ffail main = None /\ ffail cln = None /\
            (fr_status r = PASS \/ fr_status r = XPASS \/ fr_status r = SKIPPED)
  | Some f => (ffail main = Some f \/ ffail cln = Some f) /\
              (fr_status r = translate_status (tc_status tc) (Some (f_status f)) \/
               fr_status r = full_of_fail (f_status f))
  end.

Lemma observable_main (l : list item) : (forall it, In it l -> main_event (fst it) = true) -> filter observable (map fst l) = map fst l.
Proof.
  intros H. apply filter_all, Forall_map_fst'. intros it Hin. apply (main_event_props _ (H _ Hin)).
Qed.
Lemma observable_cleanup tc pv :
  filter observable (map fst (tuf (sched_cleanup tc pv))) = map fst (tuf (cl_items tc (Some pv))).
Proof.
  cbn. apply filter_all, Forall_map_fst'. intros it Hin. apply tuf_incl, cleanup_list_events in Hin.
  apply (cleanup_event_props _ _ Hin).
Qed.
Lemma ffail_cleanup tc pv : ffail (sched_cleanup tc pv) = ffail (cl_items tc (Some pv)).
Proof. reflexivity. Qed.

Lemma no_sandbox_in_conf tc (l : list item) :
  (forall it, In it l -> In it (sched_step tc (Conf, SMain))) -> existsb is_sandbox (map fst l) = false.
Proof.
  intros H. induction l as [|it l IH]; cbn; [reflexivity|].
  destruct (sched_list_events _ _ _ _ _ _ (H it (or_introl eq_refl))) as (j & i & -> & _). cbn.
  apply IH. intros it' Hin. apply H. right; exact Hin.
Qed.

Lemma sandbox_in_plan_b tc :
  existsb is_sandbox (map fst (tuf (schedule tc))) =
  match ffail (schedule tc) with Some f => negb (in_validation f) | None => true end.
Proof.
  pose proof (sandbox_in_plan_prefix_iff tc) as Hsb.
  destruct (existsb is_sandbox (map fst (tuf (schedule tc)))) eqn:Ex.
  - apply existsb_exists in Ex as (e & Hin & He). destruct e; try discriminate. apply Hsb in Hin.
    destruct (ffail (schedule tc)) as [f|]; [|reflexivity]. destruct (in_validation f) eqn:Ev; [|reflexivity].
    contradiction Hin. eauto.
  - destruct (ffail (schedule tc)) as [f|] eqn:Ef.
    + destruct (in_validation f) eqn:Ev; [reflexivity|]. exfalso.
      assert (Hin : In ESandbox (map fst (tuf (schedule tc)))) by (apply Hsb; intros (f' & Hf & Hv); congruence).
      assert (existsb is_sandbox (map fst (tuf (schedule tc))) = true) by (apply existsb_exists; exists ESandbox; auto).
      congruence.
    + exfalso.
      assert (Hin : In ESandbox (map fst (tuf (schedule tc)))) by (apply Hsb; intros (f' & Hf & Hv); discriminate).
      assert (existsb is_sandbox (map fst (tuf (schedule tc))) = true) by (apply existsb_exists; exists ESandbox; auto).
      congruence.
Qed.

Theorem model_shape tc :
  exists (main : list item) (cl : option prev_phase),
    filter observable (fst (full_execute tc)) = map fst (tuf main) ++ map fst (tuf (cl_items tc cl)) /\
    Forall (item_wf tc) main /\
    (forall it, In it main -> main_event (fst it) = true) /\
    existsb is_sandbox (map fst (tuf main)) = is_some cl /\
    fr_has_sds (snd (full_execute tc)) = is_some cl /\
    (forall pv, cl = Some pv -> pv = prev_of (tc_act_only tc) (ffail main)) /\
    result_ok tc main (cl_items tc cl) (snd (full_execute tc)).
Proof.
  set (c := sched_step tc (Conf, SMain)).
  assert (Hcw : Forall (item_wf tc) c) by apply sched_list_wf.
  assert (Hcm : forall it, In it c -> main_event (fst it) = true) by apply conf_main.
  rewrite full_execute_refines_spec. unfold spec_full. fold c.
  destruct (ffail c) as [f0|] eqn:E0.
  { (* the configuration phase fails *)
    exists c, None. cbn [fst snd cl_items tuf map is_some fr_has_sds]. rewrite app_nil_r.
    split; [apply observable_main; intros it Hin; apply Hcm, tuf_incl, Hin|].
    split; [exact Hcw|]. split; [exact Hcm|].
    split; [apply (no_sandbox_in_conf tc); apply tuf_incl|]. split; [reflexivity|]. split; [discriminate|].
    unfold result_ok. cbn [fr_failure fr_status]. rewrite E0. auto. }
  assert (Hskip : forall r, fr_failure r = None -> fr_status r = SKIPPED -> fr_has_sds r = false ->
            exists main cl,
              filter observable (map fst c) = map fst (tuf main) ++ map fst (tuf (cl_items tc cl)) /\
              Forall (item_wf tc) main /\ (forall it, In it main -> main_event (fst it) = true) /\
              existsb is_sandbox (map fst (tuf main)) = is_some cl /\ fr_has_sds r = is_some cl /\
              (forall pv, cl = Some pv -> pv = prev_of (tc_act_only tc) (ffail main)) /\
              result_ok tc main (cl_items tc cl) r).
  { intros r Hf Hs Hsds. exists c, None. cbn [cl_items tuf map is_some]. rewrite app_nil_r, (tuf_no_fail _ E0).
    split; [apply observable_main, Hcm|]. split; [exact Hcw|]. split; [exact Hcm|].
    split; [apply (no_sandbox_in_conf tc); auto|]. split; [exact Hsds|]. split; [discriminate|].
    unfold result_ok. rewrite Hf, Hs. auto. }
  assert (Hrun : forall mode, mode = tc_status tc -> mode <> TSkip ->
            exists main cl,
              filter observable (fst (let (t, pr) := spec_partial tc in
                 (map fst c ++ t,
                  FResult (translate_status mode (option_map f_status (pr_failure pr))) (pr_failure pr)
                          (pr_has_sds pr) (pr_has_atc_outcome pr))))
                = map fst (tuf main) ++ map fst (tuf (cl_items tc cl)) /\
              Forall (item_wf tc) main /\ (forall it, In it main -> main_event (fst it) = true) /\
              existsb is_sandbox (map fst (tuf main)) = is_some cl /\
              fr_has_sds (snd (let (t, pr) := spec_partial tc in
                 (map fst c ++ t,
                  FResult (translate_status mode (option_map f_status (pr_failure pr))) (pr_failure pr)
                          (pr_has_sds pr) (pr_has_atc_outcome pr)))) = is_some cl /\
              (forall pv, cl = Some pv -> pv = prev_of (tc_act_only tc) (ffail main)) /\
              result_ok tc main (cl_items tc cl)
                (snd (let (t, pr) := spec_partial tc in
                 (map fst c ++ t,
                  FResult (translate_status mode (option_map f_status (pr_failure pr))) (pr_failure pr)
                          (pr_has_sds pr) (pr_has_atc_outcome pr))))).
  { intros mode Hmode Hns.
    assert (Hw : Forall (item_wf tc) (c ++ schedule tc)) by (apply Forall_app; split; [exact Hcw|apply schedule_wf]).
    assert (Hm : forall it, In it (c ++ schedule tc) -> main_event (fst it) = true).
    { intros it Hin. apply in_app_or in Hin as [Hin|Hin]; [apply Hcm, Hin|eapply schedule_main, Hin]. }
    assert (Htuf : tuf (c ++ schedule tc) = c ++ tuf (schedule tc)) by (rewrite tuf_app, E0; reflexivity).
    assert (Hff : ffail (c ++ schedule tc) = ffail (schedule tc)) by (rewrite ffail_app, E0; reflexivity).
    assert (Hobs : filter observable (map fst (c ++ tuf (schedule tc))) = map fst (c ++ tuf (schedule tc))).
    { rewrite <- Htuf. apply observable_main. intros it Hin. apply Hm, tuf_incl, Hin. }
    assert (Hsb : existsb is_sandbox (map fst (c ++ tuf (schedule tc))) =
                  match ffail (schedule tc) with Some f => negb (in_validation f) | None => true end).
    { rewrite map_app, existsb_app.
      assert (Hx : existsb is_sandbox (@map item _ fst c) = false) by (apply (no_sandbox_in_conf tc); auto).
      rewrite Hx. apply sandbox_in_plan_b. }
    unfold spec_partial.
    destruct (ffail (schedule tc)) as [f|] eqn:Ef.
    - destruct (in_validation f) eqn:Ev.
      + (* a validation step fails: no sandbox, no cleanup *)
        exists (c ++ schedule tc), None. rewrite Htuf. cbn [fst snd cl_items tuf map is_some fr_has_sds pr_has_sds].
        rewrite app_nil_r, <- map_app.
        split; [exact Hobs|]. split; [exact Hw|]. split; [exact Hm|]. split; [exact Hsb|].
        split; [reflexivity|]. split; [discriminate|].
        unfold result_ok. cbn [fr_failure fr_status pr_failure option_map ffail]. rewrite Hff, <- Hmode. auto.
      + (* a later step fails: cleanup runs *)
        exists (c ++ schedule tc), (Some (prev_of (tc_act_only tc) (Some f))).
        rewrite Htuf. cbn [fst snd is_some fr_has_sds pr_has_sds].
        split.
        { rewrite app_assoc, <- map_app, filter_app. f_equal; [exact Hobs|apply observable_cleanup]. }
        split; [exact Hw|]. split; [exact Hm|]. split; [exact Hsb|]. split; [reflexivity|].
        split; [intros pv [= <-]; rewrite Hff; reflexivity|].
        unfold result_ok. cbn [fr_failure fr_status pr_failure]. rewrite Hff, ffail_cleanup, <- Hmode.
        destruct (is_main_of BeforeAssert f); cbn [option_map]; [auto|].
        destruct (ffail (cl_items tc (Some (prev_of (tc_act_only tc) (Some f))))); cbn [option_map]; auto.
    - (* nothing fails before cleanup *)
      exists (c ++ schedule tc), (Some (prev_of (tc_act_only tc) None)).
      rewrite Htuf. cbn [fst snd is_some fr_has_sds pr_has_sds].
      split.
      { rewrite app_assoc, <- map_app, filter_app. f_equal; [exact Hobs|apply observable_cleanup]. }
      split; [exact Hw|]. split; [exact Hm|]. split; [exact Hsb|]. split; [reflexivity|].
      split; [intros pv [= <-]; rewrite Hff; reflexivity|].
      unfold result_ok. cbn [fr_failure fr_status pr_failure]. rewrite Hff, ffail_cleanup, <- Hmode.
      destruct (ffail (cl_items tc (Some (prev_of (tc_act_only tc) None)))); cbn [option_map]; [auto|].
      split; [reflexivity|]. split; [reflexivity|]. destruct mode; [auto|contradiction|auto]. }
  destruct (tc_status tc) eqn:Es.
  - apply (Hrun TPass); [reflexivity|discriminate].
  - cbn [fst snd]. apply Hskip; reflexivity.
  - apply (Hrun TFail); [reflexivity|discriminate].
Qed.

Lemma phase_eqb_refl p : phase_eqb p p = true. Proof. destruct p; reflexivity. Qed.
Lemma stepk_eqb_refl k : stepk_eqb k k = true. Proof. destruct k; reflexivity. Qed.
Lemma phase_eqb_eq a b : phase_eqb a b = true -> a = b. Proof. destruct a, b; cbn; congruence. Qed.
Lemma stepk_eqb_eq a b : stepk_eqb a b = true -> a = b. Proof. destruct a, b; cbn; congruence. Qed.
(** * no step is skipped *)
Lemma nss_app : forall l1 l2 seen, nss_from seen (l1 ++ l2) = nss_from seen l1 && nss_from (rev l1 ++ seen) l2.
Proof.
  induction l1 as [|e l1 IH]; intros l2 seen; [reflexivity|]. cbn [app nss_from rev]. rewrite IH, <- app_assoc, andb_assoc. reflexivity.
Qed.
Lemma nss_prefix l1 l2 seen : nss_from seen (l1 ++ l2) = true -> nss_from seen l1 = true.
Proof. rewrite nss_app. intros H. apply andb_true_iff in H. apply H. Qed.

Lemma tuf_prefix (l : list item) : exists r, l = tuf l ++ r.
Proof.
  induction l as [|[e [f|]] l IH]; [exists []; reflexivity|exists l; reflexivity|].
  destruct IH as (r & E). exists r. cbn [tuf snd app]. rewrite <- E. reflexivity.
Qed.

Lemma is_step_refl p k i pv : is_step p k i (EInstr p k i pv) = true.
Proof. cbn. rewrite phase_eqb_refl, stepk_eqb_refl, Nat.eqb_refl. reflexivity. Qed.

Lemma in_sched_list_events p k prev : forall (l : list instr) s j,
  s <= j < s + length l -> In (EInstr p k j prev) (map fst (sched_list p k prev s l)).
Proof.
  induction l as [|i l IH]; intros s j H; cbn [length] in H; [lia|]. cbn [sched_list map fst].
  destruct (Nat.eq_dec j s) as [->|Hne]; [left; reflexivity|]. right. apply IH. lia.
Qed.

(** one block of the plan: fine if what it demands has been seen for all its indices *)
Lemma nss_sched_list p k prev : forall (l : list instr) s seen,
  (forall k' j, In k' (required_before p k) -> s <= j < s + length l -> existsb (is_step p k' j) seen = true) ->
  nss_from seen (map fst (sched_list p k prev s l)) = true.
Proof.
  induction l as [|i l IH]; intros s seen H; [reflexivity|]. cbn [sched_list map fst nss_from length] in *.
  apply andb_true_iff. split.
  - apply forallb_forall. intros k' Hk'. apply H; [exact Hk'|lia].
  - apply IH. intros k' j Hk' Hj. cbn [existsb]. rewrite (H k' j Hk') by lia. apply orb_true_r.
Qed.

(** the plan as a list of steps ([None]: the sandbox marker); what a step demands must be among the
    steps done before it *)
Definition sevs (tc : testcase) (s : option (phase * stepk)) : list event :=
  match s with None => [ESandbox] | Some pk => map fst (sched_step tc pk) end.
Definition step_done (done : list (phase * stepk)) (p : phase) (k : stepk) : bool :=
  existsb (fun s => phase_eqb (fst s) p && stepk_eqb (snd s) k) done.
Fixpoint check_steps (done : list (phase * stepk)) (ss : list (option (phase * stepk))) : bool :=
  match ss with
  | [] => true
  | None :: ss' => check_steps done ss'
  | Some (p, k) :: ss' => forallb (step_done done p) (required_before p k) && check_steps ((p, k) :: done) ss'
  end.
Definition seen_inv (tc : testcase) (done : list (phase * stepk)) (seen : list event) : Prop :=
  forall p k j, step_done done p k = true -> j < length (instrs_of tc p) -> existsb (is_step p k j) seen = true.

Lemma existsb_app_r {X} (f : X -> bool) a b : existsb f b = true -> existsb f (a ++ b) = true.
Proof. intros H. rewrite existsb_app, H. apply orb_true_r. Qed.

Lemma nss_steps tc : forall ss done seen,
  check_steps done ss = true -> seen_inv tc done seen ->
  nss_from seen (flat_map (sevs tc) ss) = true /\ 
  seen_inv tc (rev (flat_map (fun s => match s with Some pk => [pk] | None => [] end) ss) ++ done)
              (rev (flat_map (sevs tc) ss) ++ seen).
Proof.
  induction ss as [|[[p k]|] ss IH]; intros done seen Hc Hinv; cbn [check_steps flat_map] in *.
  - split; [reflexivity|exact Hinv].
  - apply andb_true_iff in Hc as [Hreq Hc]. rewrite nss_app.
    assert (Hinv' : seen_inv tc ((p, k) :: done) (rev (sevs tc (Some (p, k))) ++ seen)).
    { intros p' k' j Hd Hj. cbn [step_done existsb fst snd] in Hd. apply orb_true_iff in Hd as [Hd|Hd].
      - apply andb_true_iff in Hd as [H1 H2]. apply phase_eqb_eq in H1. apply stepk_eqb_eq in H2. subst p' k'.
        rewrite existsb_app. apply orb_true_iff. left. apply existsb_exists.
        exists (EInstr p k j None). split; [|apply is_step_refl]. apply in_rev. rewrite rev_involutive.
        cbn [sevs]. unfold sched_step. cbn [fst snd]. apply in_sched_list_events. lia.
      - apply existsb_app_r, Hinv; assumption. }
    destruct (IH _ _ Hc Hinv') as [H1 H2]. split.
    + apply andb_true_iff. split; [|exact H1]. cbn [sevs]. unfold sched_step. cbn [fst snd].
      apply nss_sched_list. intros k' j Hk' Hj. apply Hinv; [|lia].
      rewrite forallb_forall in Hreq. apply Hreq, Hk'.
    + rewrite !rev_app_distr, <- !app_assoc. cbn [rev app]. exact H2.
  - rewrite nss_app. cbn [sevs nss_from andb rev app].
    assert (Hinv' : seen_inv tc done (ESandbox :: seen)).
    { intros p' k' j Hd Hj. cbn [existsb is_step]. apply Hinv; assumption. }
    destruct (IH _ _ Hc Hinv') as [H1 H2]. split; [exact H1|].
    rewrite <- ?app_assoc. cbn [app]. exact H2.
Qed.

Definition plan_full (act_only : bool) : list (option (phase * stepk)) :=
  Some (Conf, SMain) :: map Some block_validate ++ None ::
  map Some (block_setup ++ block_act ++ if act_only then [] else [(BeforeAssert, SMain); (Assert, SMain)]).

Lemma flat_map_map_some tc ss : flat_map (sevs tc) (map Some ss) = map fst (sched_steps tc ss).
Proof.
  induction ss as [|s ss IH]; [reflexivity|]. cbn [map flat_map sevs sched_steps]. rewrite IH. unfold sched_steps.
  rewrite map_app. reflexivity.
Qed.

Lemma full_plan_events tc :
  map fst (sched_step tc (Conf, SMain) ++ schedule tc) = flat_map (sevs tc) (plan_full (tc_act_only tc)).
Proof.
  unfold plan_full, schedule. cbn [flat_map]. rewrite flat_map_app. cbn [flat_map sevs].
  rewrite !flat_map_map_some, !map_app. cbn [map fst]. f_equal. f_equal. f_equal.
  unfold sched_steps. rewrite !flat_map_app, !map_app. f_equal. f_equal.
  destruct (tc_act_only tc); [reflexivity|]. cbn [flat_map]. rewrite app_nil_r. reflexivity.
Qed.

(** the whole, uncut plan skips nothing; hence none of its prefixes does *)
Lemma full_plan_nss tc :
  nss_from [] (map fst (sched_step tc (Conf, SMain) ++ schedule tc)) = true /\
  seen_inv tc (rev (flat_map (fun s => match s with Some pk => [pk] | None => [] end) (plan_full (tc_act_only tc))) ++ [])
           (rev (map fst (sched_step tc (Conf, SMain) ++ schedule tc)) ++ []).
Proof.
  rewrite full_plan_events. apply nss_steps.
  - destruct (tc_act_only tc); reflexivity.
  - intros p k j Hd. discriminate Hd.
Qed.

Lemma nss_tuf seen (l : list item) : nss_from seen (map fst l) = true -> nss_from seen (map fst (tuf l)) = true.
Proof. intros H. destruct (tuf_prefix l) as (r & E). rewrite E, map_app in H. apply nss_prefix in H. exact H. Qed.

(** after the validation block everything it contains has been seen *)
Lemma validated_seen tc :
  seen_inv tc (rev block_validate ++ [(Conf, SMain)])
           (rev (map fst (sched_step tc (Conf, SMain) ++ sched_steps tc block_validate))).
Proof.
  destruct (nss_steps tc (Some (Conf, SMain) :: map Some block_validate) [] []) as [_ H].
  - reflexivity.
  - intros p k j Hd. discriminate Hd.
  - cbn [flat_map] in H. rewrite flat_map_map_some in H. rewrite !app_nil_r in H.
    rewrite map_app. cbn [sevs] in H. exact H.
Qed.

Lemma partial_nss tc :
  ffail (sched_step tc (Conf, SMain)) = None ->
  nss_from [] (filter observable (map fst (sched_step tc (Conf, SMain)) ++ fst (spec_partial tc))) = true.
Proof.
  intros E0. set (c := sched_step tc (Conf, SMain)) in *.
  destruct (full_plan_nss tc) as [HP _]. fold c in HP.
  assert (Hpre : forall l r, map fst (c ++ schedule tc) = l ++ r -> nss_from [] l = true).
  { intros l r E. apply (nss_prefix l r). rewrite <- E. exact HP. }
  assert (Hm : forall it, In it (c ++ tuf (schedule tc)) -> main_event (fst it) = true).
  { intros it Hin. apply in_app_or in Hin as [Hin|Hin]; [apply (conf_main tc), Hin|eapply schedule_main, tuf_incl, Hin]. }
  destruct (tuf_prefix (schedule tc)) as (r & Er).
  assert (Hcut : nss_from [] (map fst (c ++ tuf (schedule tc))) = true).
  { apply (Hpre _ (map fst r)). rewrite <- map_app, <- app_assoc, <- Er. reflexivity. }
  unfold spec_partial.
  assert (Hcl : forall pv,
            (match ffail (schedule tc) with Some f => in_validation f = false | None => True end) ->
            nss_from [] (filter observable (map fst c ++ map fst (tuf (schedule tc)) ++ map fst (tuf (sched_cleanup tc pv)))) = true).
  { intros pv Hnv.
    assert (EV : ffail (sched_steps tc block_validate) = None).
    { destruct (ffail (sched_steps tc block_validate)) as [f'|] eqn:EV; [|reflexivity]. exfalso.
      assert (Hf : ffail (schedule tc) = Some f') by (unfold schedule; rewrite ffail_app, EV; reflexivity).
      rewrite Hf in Hnv. apply ffail_sched_steps in EV. unfold in_validation in Hnv. cbn in EV.
      repeat (destruct EV as [EV|EV]; [injection EV as _ EV; rewrite <- EV in Hnv; discriminate Hnv|]). contradiction. }
    match goal with |- nss_from [] ?x = true =>
      assert (Hobs : x = map fst (c ++ tuf (schedule tc)) ++ map fst (tuf (cl_items tc (Some pv)))) end.
    { rewrite app_assoc, filter_app. f_equal; [|apply observable_cleanup]. rewrite <- map_app. apply (observable_main _ Hm). }
    rewrite Hobs, nss_app, Hcut. cbn [andb].
    apply nss_tuf. cbn [cl_items].
    apply nss_sched_list. intros k' j Hk' Hj. rewrite app_nil_r.
    assert (Esplit : tuf (schedule tc) = sched_steps tc block_validate ++ tuf ((ESandbox, None) :: sched_steps tc block_setup ++ sched_steps tc block_act ++
              (if tc_act_only tc then [] else sched_step tc (BeforeAssert, SMain) ++ sched_step tc (Assert, SMain)))).
    { unfold schedule. rewrite tuf_app, EV. reflexivity. }
    rewrite Esplit, app_assoc, map_app, rev_app_distr. apply existsb_app_r.
    apply (validated_seen tc); [|cbn [instrs_of]; lia].
    cbn in Hk'. destruct Hk' as [<-|[<-|[]]]; reflexivity. }
  destruct (ffail (schedule tc)) as [f|] eqn:Ef.
  - destruct (in_validation f) eqn:Ev; cbn [fst].
    + match goal with |- nss_from [] ?x = true => assert (Hobs : x = map fst (c ++ tuf (schedule tc))) end.
      { rewrite <- map_app. apply (observable_main _ Hm). }
      rewrite Hobs. exact Hcut.
    + apply Hcl. reflexivity.
  - cbn [fst]. apply Hcl. exact I.
Qed.

Theorem model_no_step_skipped tc : no_step_skipped (filter observable (fst (full_execute tc))) = true.
Proof.
  unfold no_step_skipped. set (c := sched_step tc (Conf, SMain)).
  destruct (full_plan_nss tc) as [HP _]. fold c in HP.
  assert (Hconf : forall l r, c = l ++ r -> nss_from [] (filter observable (map fst l)) = true).
  { intros l r E. rewrite observable_main.
    - apply (nss_prefix _ (map fst (r ++ schedule tc))). rewrite <- map_app, app_assoc, <- E. exact HP.
    - intros it Hin. apply (conf_main tc). fold c. rewrite E. apply in_or_app. left. exact Hin. }
  rewrite full_execute_refines_spec. unfold spec_full. fold c.
  destruct (ffail c) as [f0|] eqn:E0.
  { cbn [fst]. destruct (tuf_prefix c) as (r & Er). apply (Hconf _ r Er). }
  pose proof (partial_nss tc E0) as Hp. fold c in Hp.
  destruct (tc_status tc); [| cbn [fst]; apply (Hconf c []); rewrite app_nil_r; reflexivity |];
    destruct (spec_partial tc) as [t pr]; cbn [fst] in *; exact Hp.
Qed.

(** * [P_C01], clause by clause *)
Definition is_cleanup0 (e : event) : bool := match e with EInstr Cleanup SMain 0 _ => true | _ => false end.
Definition first_fail_of (l : list event) : option failure :=
  match l with EInstr p k i _ :: _ => Some (Failure p k i FHard) | _ => None end.
Definition is_success (s : full_status) : bool :=
  full_status_eqb s PASS || full_status_eqb s XPASS || full_status_eqb s SKIPPED.
Definition names_failing (tc : testcase) (o : c01_obs) (p : phase) (k : stepk) (e : event) : bool :=
  match e with
  | EInstr p' k' _ _ => phase_eqb p p' && stepk_eqb k k' &&
      (full_status_eqb (o_status o) (translate_status (tc_status tc) (outcome (beh_of_event tc e)))
       || full_status_eqb (o_status o) (match outcome (beh_of_event tc e) with Some s => full_of_fail s | None => PASS end))
  | _ => false end.
Definition verdict_ok (tc : testcase) (o : c01_obs) (failed_events : list event) : bool :=
  match failed_events with
  | [] => match o_failing o with None => true | Some _ => false end && is_success (o_status o)
  | _ => negb (is_success (o_status o)) &&
         match o_failing o with
         | None => false
         | Some (p, k) => existsb (names_failing tc o p k) failed_events
         end
  end.

(** [P_C01] restated with named clauses (definitionally the same predicate) *)
Lemma P_C01_alt tc o :
  P_C01 tc o =
  (let tr := o_trace o in
   let non_cleanup := filter (fun e => negb (is_cleanup_main e)) tr in
   let cleanup_evs := filter is_cleanup_main tr in
   sorted_validation_first false tr && no_step_skipped tr && all_before_ok tc non_cleanup && all_before_ok tc cleanup_evs &&
   Nat.eqb (length (filter is_cleanup0 tr))
           (if existsb is_sandbox tr && negb (match tc_cleanup tc with [] => true | _ => false end) then 1 else 0) &&
   Bool.eqb (o_has_sds o) (existsb is_sandbox tr) &&
   forallb (cleanup_event (prev_of (tc_act_only tc) (first_fail_of (filter (ev_fails tc) non_cleanup)))) cleanup_evs &&
   verdict_ok tc o (filter (ev_fails tc) tr)).
Proof. reflexivity. Qed.

Lemma verdict_nonempty tc o l : l <> [] ->
  verdict_ok tc o l = negb (is_success (o_status o)) &&
                      match o_failing o with None => false | Some (p, k) => existsb (names_failing tc o p k) l end.
Proof. destruct l; [contradiction|reflexivity]. Qed.

Lemma cleanup0_later p k prev l : forall n, filter is_cleanup0 (map fst (tuf (sched_list p k prev (S n) l))) = [].
Proof.
  induction l as [|i l IH]; intros n; cbn [sched_list tuf map fst snd filter]; [reflexivity|].
  assert (E : is_cleanup0 (EInstr p k (S n) prev) = false) by (destruct p, k; reflexivity). rewrite E.
  destruct (outcome (i k)); cbn [option_map map filter]; [reflexivity|apply IH].
Qed.
Lemma cleanup0_count prev l :
  length (filter is_cleanup0 (map fst (tuf (sched_list Cleanup SMain prev 0 l)))) = match l with [] => 0 | _ => 1 end.
Proof.
  destruct l as [|i l]; [reflexivity|]. cbn. destruct (outcome (i SMain)); cbn; [reflexivity|].
  rewrite cleanup0_later. reflexivity.
Qed.

Lemma full_status_eqb_refl s : full_status_eqb s s = true. Proof. destruct s; reflexivity. Qed.

Theorem P_C01_holds_on_model : forall tc, P_C01 tc (obs_of_model tc) = true.
Proof.
  intros tc.
  pose proof (full_trace_validation_first tc) as Hval.
  pose proof (model_no_step_skipped tc) as Hnss.
  destruct (model_shape tc) as (main & cl & Htr & Hw & Hm & Hsb & Hsds & Hpv & Hres).
  rewrite P_C01_alt. unfold obs_of_model. destruct (full_execute tc) as [mt mr]. cbn [fst snd] in *.
  cbn zeta. cbn [o_trace o_has_sds].
  rewrite Htr in *. clear Htr mt.
  set (o := C01Obs _ _ _ _ _).
  set (A := map fst (tuf main)) in *. set (B := map fst (tuf (cl_items tc cl))) in *.
  assert (HA : Forall (fun e => main_event e = true) A).
  { apply Forall_map_fst'. intros it Hin. apply Hm, tuf_incl, Hin. }
  assert (HclW : Forall (item_wf tc) (cl_items tc cl)).
  { destruct cl as [pv|]; [apply (sched_list_wf tc Cleanup SMain)|constructor]. }
  assert (HB : forall pv, cl = Some pv -> Forall (fun e => cleanup_event pv e = true) B).
  { intros pv ->. apply Forall_map_fst'. intros it Hin. apply tuf_incl in Hin. eapply cleanup_list_events, Hin. }
  assert (HB' : Forall (fun e => is_cleanup_main e = true /\ is_sandbox e = false) B).
  { destruct cl as [pv|]; [|constructor].
    eapply Forall_impl; [|apply (HB pv eq_refl)]. intros e He. apply cleanup_event_props in He. tauto. }
  assert (Hnc : filter (fun e => negb (is_cleanup_main e)) (A ++ B) = A).
  { rewrite filter_app, filter_all, filter_none, app_nil_r; [reflexivity| |].
    - eapply Forall_impl; [|exact HB']. intros e [-> _]. reflexivity.
    - eapply Forall_impl; [|exact HA]. intros e He. apply main_event_props in He as (_ & -> & _). reflexivity. }
  assert (Hcm : filter is_cleanup_main (A ++ B) = B).
  { rewrite filter_app, filter_none, filter_all; [reflexivity| |].
    - eapply Forall_impl; [|exact HB']. intros e [H _]; exact H.
    - eapply Forall_impl; [|exact HA]. intros e He. apply (main_event_props _ He). }
  assert (HsbAB : existsb is_sandbox (A ++ B) = is_some cl).
  { rewrite existsb_app, Hsb.
    assert (E : existsb is_sandbox B = false).
    { clear -HB'. induction HB' as [|e l [_ He] _ IH]; cbn; [reflexivity|]. rewrite He. exact IH. }
    rewrite E. apply orb_false_r. }
  rewrite Hnc, Hcm, HsbAB, Hval, Hnss. cbn [andb].
  (* halts at the first failure *)
  assert (H2 : all_before_ok tc A = true) by (apply abo_tuf, Hw).
  assert (H3 : all_before_ok tc B = true) by (apply abo_tuf, HclW).
  rewrite H2, H3. cbn [andb].
  (* cleanup exactly once iff sandbox *)
  assert (H4 : Nat.eqb (length (filter is_cleanup0 (A ++ B)))
                 (if is_some cl && negb (match tc_cleanup tc with [] => true | _ => false end) then 1 else 0) = true).
  { rewrite filter_app, filter_none, app_nil_l.
    2:{ eapply Forall_impl; [|exact HA]. intros e He. apply (main_event_props _ He). }
    subst B. destruct cl as [pv|]; cbn [cl_items is_some andb]; [|reflexivity].
    rewrite cleanup0_count. destruct (tc_cleanup tc); reflexivity. }
  rewrite H4, Hsds, eqb_reflx. cbn [andb].
  (* cleanup is told the phase that ran last *)
  assert (HfA : filter (ev_fails tc) A = ffail_ev main) by (apply filter_fails_tuf, Hw).
  assert (HfB : filter (ev_fails tc) B = ffail_ev (cl_items tc cl)) by (apply filter_fails_tuf, HclW).
  assert (H6 : forallb (cleanup_event (prev_of (tc_act_only tc) (first_fail_of (filter (ev_fails tc) A)))) B = true).
  { destruct cl as [pv|] eqn:Ecl; [|reflexivity].
    assert (E : prev_of (tc_act_only tc) (first_fail_of (filter (ev_fails tc) A)) = pv).
    { rewrite (Hpv pv eq_refl), HfA. destruct (ffail main) as [f|] eqn:Ef.
      - destruct (ffail_ev_some tc main f Hw Ef) as (pv' & -> & _). reflexivity.
      - rewrite (ffail_ev_none _ Ef). reflexivity. }
    rewrite E. apply forallb_forall. apply Forall_forall, HB. reflexivity. }
  rewrite H6. cbn [andb].
  (* the verdict *)
  rewrite filter_app, HfA, HfB. unfold result_ok in Hres.
  assert (Hof : o_failing o = option_map (fun f => (f_phase f, f_step f)) (fr_failure mr)) by reflexivity.
  assert (Hos : o_status o = fr_status mr) by reflexivity.
  clearbody o.
  destruct (fr_failure mr) as [f|] eqn:Ef.
  - destruct Hres as [Hwhere Hst]. rewrite <- Hos in Hst. cbn [option_map] in Hof.
    assert (Hns : is_success (o_status o) = false).
    { destruct Hst as [-> | ->]; destruct (tc_status tc), (f_status f); reflexivity. }
    assert (Hname : forall pv, outcome (beh_of_event tc (EInstr (f_phase f) (f_step f) (f_idx f) pv)) = Some (f_status f) ->
                      names_failing tc o (f_phase f) (f_step f) (EInstr (f_phase f) (f_step f) (f_idx f) pv) = true).
    { intros pv Ho. unfold names_failing. rewrite Ho, phase_eqb_refl, stepk_eqb_refl. cbn [andb].
      destruct Hst as [-> | ->]; rewrite full_status_eqb_refl; [reflexivity|apply orb_true_r]. }
    rewrite verdict_nonempty, Hns, Hof.
    2:{ destruct Hwhere as [Hf|Hf].
        - destruct (ffail_ev_some tc _ f Hw Hf) as (pv & -> & _). discriminate.
        - destruct (ffail_ev_some tc _ f HclW Hf) as (pv & -> & _). intros H. apply app_eq_nil in H as [_ H]. discriminate. }
    cbn [negb andb]. rewrite existsb_app.
    destruct Hwhere as [Hf|Hf].
    + destruct (ffail_ev_some tc _ f Hw Hf) as (pv & -> & Ho). cbn [existsb]. rewrite (Hname pv Ho). reflexivity.
    + destruct (ffail_ev_some tc _ f HclW Hf) as (pv & -> & Ho). cbn [existsb]. rewrite (Hname pv Ho). apply orb_true_r.
  - destruct Hres as (Hf1 & Hf2 & Hst). rewrite (ffail_ev_none _ Hf1), (ffail_ev_none _ Hf2).
    cbn [app verdict_ok]. rewrite Hof, Hos. cbn [option_map andb].
    destruct Hst as [-> | [-> | ->]]; reflexivity.
Qed.

(** * The check on the model's own observation; correspondence determines the observation *)
Lemma prev_eqb_refl p : prev_eqb p p = true. Proof. destruct p; reflexivity. Qed.
Lemma event_eqb_refl e : event_eqb e e = true.
Proof.
  destruct e as [p k i [pv|]| |pv]; cbn; rewrite ?phase_eqb_refl, ?stepk_eqb_refl, ?Nat.eqb_refl, ?prev_eqb_refl; reflexivity.
Qed.
Lemma prev_eqb_eq a b : prev_eqb a b = true -> a = b. Proof. destruct a, b; cbn; congruence. Qed.
Lemma full_status_eqb_eq a b : full_status_eqb a b = true -> a = b. Proof. destruct a, b; cbn; congruence. Qed.
Lemma event_eqb_eq a b : event_eqb a b = true <-> a = b.
Proof.
  split; [|intros ->; apply event_eqb_refl].
  destruct a as [p k i pv| |pv], b as [p' k' i' pv'| |pv']; cbn; try discriminate; try reflexivity.
  - rewrite !andb_true_iff. intros [[[H1 H2] H3] H4].
    apply phase_eqb_eq in H1. apply stepk_eqb_eq in H2. apply Nat.eqb_eq in H3. subst.
    destruct pv as [a|], pv' as [b|]; cbn in H4; try discriminate; [apply prev_eqb_eq in H4; subst|]; reflexivity.
  - intros H. apply prev_eqb_eq in H. subst. reflexivity.
Qed.

Theorem corr_determines_obs : forall c, fst (check_c01 c) = true -> c_obs c = obs_of_model (c_tc c).
Proof.
  intros [tc o]. unfold check_c01, obs_of_model. cbn [c_tc c_obs]. destruct (full_execute tc) as [mt mr]. cbn [fst].
  rewrite !andb_true_iff. intros [[[[H1 H2] H3] H4] H5].
  apply (list_eqb_eq _ event_eqb_eq) in H1. apply full_status_eqb_eq in H2. apply eqb_prop in H4, H5.
  destruct o as [tr st fl sds atc]. cbn [o_trace o_status o_failing o_has_sds o_has_atc] in *. subst.
  f_equal. unfold failing_eqb in H3. destruct (fr_failure mr) as [f|], fl as [[p k]|]; cbn; try discriminate; [|reflexivity].
  apply andb_true_iff in H3 as [Hp Hk]. apply phase_eqb_eq in Hp. apply stepk_eqb_eq in Hk. subst. reflexivity.
Qed.

Theorem check_c01_on_model : forall tc, check_c01 (C01Case tc (obs_of_model tc)) = (true, true).
Proof.
  intros tc. unfold check_c01. cbn [c_tc c_obs]. rewrite P_C01_holds_on_model.
  unfold obs_of_model. destruct (full_execute tc) as [mt mr]. cbn [o_trace o_status o_failing o_has_sds o_has_atc].
  f_equal. rewrite !andb_true_iff. repeat split.
  - apply (list_eqb_eq _ event_eqb_eq). reflexivity.
  - apply full_status_eqb_refl.
  - destruct (fr_failure mr) as [f|]; cbn; [|reflexivity]. rewrite phase_eqb_refl, stepk_eqb_refl. reflexivity.
  - apply eqb_reflx.
  - apply eqb_reflx.
Qed.

(** correspondence on an input implies the property predicate on that input *)
Theorem corr_implies_property : forall c, fst (check_c01 c) = true -> snd (check_c01 c) = true.
Proof.
  intros c H. apply corr_determines_obs in H. unfold check_c01. destruct (full_execute (c_tc c)). cbn [snd].
  rewrite H. apply P_C01_holds_on_model.
Qed.

(** Non-vacuity: the predicate is not trivially true - it rejects observations that differ from the
    model's in each clause.  [tc0]: 2 instructions per phase, assert[1] raises a hard error,
    cleanup[0] raises an exception (39 events; the assert failure is replaced by the cleanup one). *)
Definition tc0 : testcase :=
  TC [ok_instr] [ok_instr; ok_instr] ok_instr [ok_instr; ok_instr] [ok_instr; failing_at SMain BHardRaise]
     [failing_at SMain BExn; ok_instr] TPass false.
Example P_C01_accepts_model_tc0 :
  let o := obs_of_model tc0 in
  length (o_trace o) = 38 /\ o_status o = INTERNAL_ERROR /\ o_failing o = Some (Cleanup, SMain) /\ P_C01 tc0 o = true.
Proof. vm_compute. repeat split. Qed.
Example P_C01_rejects_perturbations :
  let o := obs_of_model tc0 in
  (* a success verdict after a failure *)
  P_C01 tc0 (C01Obs (o_trace o) PASS None (o_has_sds o) (o_has_atc o)) = false /\
  (* a step that did not fail is named *)
  P_C01 tc0 (C01Obs (o_trace o) (o_status o) (Some (Setup, SMain)) (o_has_sds o) (o_has_atc o)) = false /\
  (* cleanup not run although the sandbox exists *)
  P_C01 tc0 (C01Obs (filter (fun e => negb (is_cleanup_main e)) (o_trace o)) HARD_ERROR (Some (Assert, SMain)) true true) = false /\
  (* execution continues after the failing assert instruction *)
  P_C01 tc0 (C01Obs (o_trace o ++ [EInstr Assert SMain 1 None]) (o_status o) (o_failing o) (o_has_sds o) (o_has_atc o)) = false /\
  (* cleanup is told the wrong phase *)
  P_C01 tc0 (C01Obs (map (fun e => match e with EInstr Cleanup SMain i _ => EInstr Cleanup SMain i (Some PSetup) | _ => e end) (o_trace o))
                    (o_status o) (o_failing o) (o_has_sds o) (o_has_atc o)) = false /\
  (* a main step before validation is complete *)
  P_C01 tc0 (C01Obs (EInstr Setup SMain 0 None :: o_trace o) (o_status o) (o_failing o) (o_has_sds o) (o_has_atc o)) = false /\
  (* has_sds disagrees with the sandbox *)
  P_C01 tc0 (C01Obs (o_trace o) (o_status o) (o_failing o) false (o_has_atc o)) = false.
Proof. vm_compute. repeat split. Qed.

(** the clause [no_step_skipped] is what rejects an execution in which post-setup validation of the
    [assert] instructions was skipped (everything else unchanged), or act/prepare ran before
    act/validate-exe-input *)
Example P_C01_rejects_skipped_steps :
  let o := obs_of_model tc0 in
  let without_assert_post := filter (fun e => match e with EInstr Assert SValPost _ _ => false | _ => true end) (o_trace o) in
  let swapped := map (fun e => match e with
                               | EInstr Act SPrepare i p => EInstr Act SValExeInput i p
                               | EInstr Act SValExeInput i p => EInstr Act SPrepare i p
                               | _ => e end) (o_trace o) in
  no_step_skipped (o_trace o) = true /\
  length without_assert_post = 36 /\ no_step_skipped without_assert_post = false /\
  P_C01 tc0 (C01Obs without_assert_post (o_status o) (o_failing o) (o_has_sds o) (o_has_atc o)) = false /\
  sorted_validation_first false without_assert_post = true /\
  no_step_skipped swapped = false.
Proof. vm_compute. repeat split. Qed.
