(** Proofs for C16. *)
From Coq Require Import ZArith NArith List Bool Lia Sorting.Permutation Sorting.Sorted.
From Exactly Require Import Lib.Harness Model.Outcome Model.Suite Spec.C16.
Import ListNotations.
Local Open Scope nat_scope.

(** *** reading errors: nothing is processed *)
Lemma invalid_suite_no_case rep fs root outcome e :
  read_root fs root = inl e -> run_suite rep fs root outcome = Run 3 true [].
Proof. unfold run_suite. intros ->. reflexivity. Qed.

Lemma valid_suite_not_invalid rep fs root outcome h :
  read_root fs root = inr h ->
  run_invalid (run_suite rep fs root outcome) = false /\ run_processed (run_suite rep fs root outcome) = processed h.
Proof. unfold run_suite. intros ->. split; reflexivity. Qed.

(** *** order: postorder enumeration + per-suite case lists = the declarative listing *)
Lemma flat_map_app {A B} (f : A -> list B) l1 l2 : flat_map f (l1 ++ l2) = flat_map f l1 ++ flat_map f l2.
Proof. induction l1; cbn; [reflexivity|]. rewrite IHl1, app_assoc. reflexivity. Qed.

Lemma flat_map_flat_map {A B C} (f : A -> list B) (g : B -> list C) l :
  flat_map g (flat_map f l) = flat_map (fun a => flat_map g (f a)) l.
Proof. induction l; cbn; [reflexivity|]. rewrite flat_map_app, IHl. reflexivity. Qed.

Section HInd.
  Variable P : hierarchy -> Prop.
  Hypothesis HH : forall p subs cs, Forall P subs -> P (H p subs cs).
  Fixpoint hierarchy_ind' (h : hierarchy) : P h :=
    match h with
    | H p subs cs => HH p subs cs
        ((fix go (l : list hierarchy) : Forall P l :=
            match l with [] => Forall_nil _ | y :: ys => Forall_cons _ (hierarchy_ind' y) (go ys) end) subs)
    end.
End HInd.

Lemma processed_is_listing h : processed h = listing h.
Proof.
  unfold processed. induction h as [p subs cs IH] using hierarchy_ind'.
  cbn [postorder listing]. rewrite flat_map_app. cbn [flat_map h_path h_cases]. rewrite app_nil_r. f_equal.
  rewrite flat_map_flat_map. induction IH as [|s subs' Hs _ IH']; cbn; [reflexivity|]. rewrite Hs, IH'. reflexivity.
Qed.

(** every listed case of every suite of the hierarchy is processed exactly once: the number of
    processed entries for suite [s] and case [c] is the number of times [s] lists [c]. *)
Definition count {A} (f : A -> bool) (l : list A) : nat := length (filter f l).
Fixpoint count_listed (s c : fname) (h : hierarchy) : nat :=
  match h with
  | H p subs cs =>
      fold_right (fun sub n => count_listed s c sub + n) 0 subs +
      (if N.eqb p s then count (N.eqb c) cs else 0)
  end.

Lemma count_app {A} (f : A -> bool) l1 l2 : count f (l1 ++ l2) = count f l1 + count f l2.
Proof. unfold count. rewrite filter_app, app_length. reflexivity. Qed.

Lemma count_map_pair p s c cs :
  count (pairN_eqb (s, c)) (map (fun c' => (p, c')) cs) = if N.eqb p s then count (N.eqb c) cs else 0.
Proof.
  assert (E : forall c', pairN_eqb (s, c) (p, c') = N.eqb p s && N.eqb c c').
  { intros c'. unfold pairN_eqb, pair_eqb; cbn. rewrite (N.eqb_sym s p). reflexivity. }
  unfold count. destruct (N.eqb p s) eqn:Eps.
  - induction cs as [|c' cs IH]; [reflexivity|]. cbn [map filter]. rewrite E. cbn [andb].
    destruct (N.eqb c c'); cbn [length]; rewrite IH; reflexivity.
  - induction cs as [|c' cs IH]; [reflexivity|]. cbn [map filter]. rewrite E. cbn [andb]. exact IH.
Qed.

Lemma each_listed_case_once h s c : count (pairN_eqb (s, c)) (processed h) = count_listed s c h.
Proof.
  rewrite processed_is_listing. induction h as [p subs cs IH] using hierarchy_ind'.
  cbn [listing count_listed]. rewrite count_app, count_map_pair. f_equal.
  induction IH as [|sub subs' Hs _ IH']; cbn [flat_map fold_right]; [reflexivity|]. rewrite count_app, Hs, IH'. reflexivity.
Qed.

(** *** globs are sorted *)
Lemma glob_sorted ms : exists l, resolve_instr (RGlob ms) = Some l /\ Permutation ms l /\
                                 LocallySorted (fun x y => is_true (N.leb x y)) l.
Proof.
  exists (NSort.sort ms). split; [reflexivity|]. split; [apply NSort.Permuted_sort | apply NSort.LocallySorted_sort].
Qed.

(** *** reporters *)
Lemma forallb_ext' {A} (f g : A -> bool) l : (forall a, f a = g a) -> forallb f l = forallb g l.
Proof. intros E. induction l as [|a l IH]; cbn; [reflexivity|]. rewrite E, IH. reflexivity. Qed.

Lemma progress_success_is_documented r : progress_success r = successful r.
Proof. destruct r as [s h c|a|]; [destruct s|..]; reflexivity. Qed.

Lemma progress_ok_iff results :
  (progress_final results = (0%Z, true) <-> forallb successful results = true) /\
  (progress_final results = (4%Z, false) <-> forallb successful results = false).
Proof.
  unfold progress_final. rewrite (forallb_ext' _ _ results progress_success_is_documented).
  destruct (forallb successful results); split; split; intros; try reflexivity; try discriminate.
Qed.

Lemma junit_child_iff_unsuccessful r : (junit_classify r = JNone) <-> successful r = true.
Proof. destruct r as [s h c|a|]; [destruct s|..]; cbn; split; intros; try reflexivity; try discriminate. Qed.

Lemma filter_partition_length {A} (f g : A -> bool) (l : list A) :
  (forall a, In a l -> f a && g a = false) ->
  length (filter f l) + length (filter g l) = length (filter (fun a => f a || g a) l).
Proof.
  induction l as [|a l IH]; cbn; intros Hd; [reflexivity|].
  specialize (IH (fun x Hx => Hd x (or_intror Hx))). specialize (Hd a (or_introl eq_refl)).
  destruct (f a), (g a); cbn in *; try discriminate; lia.
Qed.

Lemma junit_counts_ok results :
  let jr := junit_report results in
  j_tests jr = length results /\
  j_failures jr + j_errors jr = length (filter (fun r => negb (successful r)) results) /\
  length (j_children jr) = length results /\
  Forall2 (fun r ch => successful r = false <-> ch <> JNone) results (j_children jr).
Proof.
  cbn. repeat split.
  - rewrite filter_partition_length by (intros []; reflexivity).
    induction results as [|r rs IH]; cbn; [reflexivity|].
    assert (E : is_failure (junit_classify r) || is_error (junit_classify r) = negb (successful r)).
    { destruct r as [s h c|a|]; [destruct s|..]; reflexivity. }
    rewrite E. destruct (negb (successful r)); cbn; rewrite IH; reflexivity.
  - apply map_length.
  - induction results as [|r rs IH]; cbn; constructor; [|exact IH].
    pose proof (junit_child_iff_unsuccessful r) as [A B]. split.
    + intros Hs Hn. rewrite (A Hn) in Hs. discriminate.
    + intros Hn. destruct (successful r) eqn:E; [|reflexivity]. contradiction Hn. apply B. reflexivity.
Qed.

Lemma reporters_agree results :
  snd (progress_final results) = true <-> j_failures (junit_report results) + j_errors (junit_report results) = 0.
Proof.
  destruct (junit_counts_ok results) as (_ & Hc & _). rewrite Hc. clear Hc.
  unfold progress_final. rewrite (forallb_ext' _ _ results progress_success_is_documented).
  induction results as [|r rs IH]; cbn; [split; reflexivity|].
  destruct (successful r); cbn; [exact IH|]. split; intros; [discriminate|lia].
Qed.

(** The junit reporter as it was before commit "fix: junit reporter: an executed case ending in
    SYNTAX_ERROR ...": an executed SYNTAX_ERROR got no child and was not counted. *)
Definition junit_classify_prefix (r : proc_result) : junit_child :=
  match r with
  | Executed SYNTAX_ERROR _ _ => JNone
  | _ => junit_classify r
  end.
Lemma junit_prefix_refuted : exists r, successful r = false /\ junit_classify_prefix r = JNone.
Proof. exists (Executed SYNTAX_ERROR false None). split; reflexivity. Qed.
