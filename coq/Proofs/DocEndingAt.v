(** The source of an instruction-argument error (_ErrMsgSourceConstructor.ending_at): what the parser had
    consumed when it raised, without trailing white space, split into lines — each reported line comes from
    the corresponding line of the file; the last one may stop where the parser stopped. *)
From Coq Require Import NArith List Bool Arith Lia.
From Exactly Require Import Lib.Harness Model.Doc Spec.C07 Proofs.DocParseSource Proofs.DocLocated.
Import ListNotations.
Local Open Scope N_scope.

(** * drop_while / rstrip *)
Lemma drop_while_app : forall p a b,
    drop_while p (a ++ b) = match drop_while p a with [] => drop_while p b | _ => drop_while p a ++ b end.
Proof.
  induction a as [|x a IH]; intros b; cbn [app drop_while].
  - destruct (drop_while p b); reflexivity.
  - destruct (p x); [apply IH|reflexivity].
Qed.

Lemma drop_while_idem : forall p l, drop_while p (drop_while p l) = drop_while p l.
Proof.
  induction l as [|x l IH]; cbn [drop_while]; [reflexivity|].
  destruct (p x) eqn:E; [exact IH|]. cbn [drop_while]. rewrite E. reflexivity.
Qed.

Lemma rstrip_idem : forall l, rstrip (rstrip l) = rstrip l.
Proof. intros. unfold rstrip. rewrite rev_involutive, drop_while_idem. reflexivity. Qed.

Lemma rev_eq_nil {A} : forall l : list A, rev l = [] -> l = [].
Proof. intros l H. destruct l as [|x l]; [reflexivity|]. cbn in H. destruct (rev l); discriminate. Qed.

Lemma rstrip_app : forall a b,
    rstrip (a ++ b) = match rstrip b with [] => rstrip a | _ => a ++ rstrip b end.
Proof.
  intros a b. unfold rstrip. rewrite rev_app_distr, drop_while_app.
  destruct (drop_while is_space (rev b)) as [|x r] eqn:E.
  - cbn [rev]. reflexivity.
  - rewrite rev_app_distr, rev_involutive.
    destruct (rev (x :: r)) eqn:E2; [apply rev_eq_nil in E2; discriminate|]. reflexivity.
Qed.

Lemma rstrip_nl_cons : forall x, rstrip (NL :: x) = match rstrip x with [] => [] | _ => NL :: rstrip x end.
Proof.
  intros x. change (NL :: x) with ([NL] ++ x). rewrite rstrip_app.
  destruct (rstrip x); reflexivity.
Qed.

(** * prefixes / suffixes *)
Lemma is_prefix_refl : forall t, is_prefix t t = true.
Proof. induction t as [|c t IH]; cbn; [reflexivity|]. rewrite N.eqb_refl. exact IH. Qed.

Lemma is_prefix_app : forall a b, is_prefix a (a ++ b) = true.
Proof. induction a as [|c a IH]; intros b; cbn; [reflexivity|]. rewrite N.eqb_refl. apply IH. Qed.

Lemma is_prefix_firstn : forall k t, is_prefix (firstn k t) t = true.
Proof. intros k t. rewrite <- (firstn_skipn k t) at 2. apply is_prefix_app. Qed.

Lemma is_prefix_trans : forall a b c, is_prefix a b = true -> is_prefix b c = true -> is_prefix a c = true.
Proof.
  induction a as [|x a IH]; intros b c H1 H2; [reflexivity|].
  destruct b as [|y b]; [discriminate|]. destruct c as [|z c]; [discriminate|]. cbn in *.
  apply andb_true_iff in H1 as [E1 H1]. apply andb_true_iff in H2 as [E2 H2].
  apply N.eqb_eq in E1. apply N.eqb_eq in E2. subst. rewrite N.eqb_refl. eapply IH; eassumption.
Qed.

Lemma rstrip_prefix : forall t, is_prefix (rstrip t) t = true.
Proof.
  intros t. unfold rstrip.
  assert (G : forall l, exists sp, l = sp ++ drop_while is_space l).
  { induction l as [|c l [sp IH]]; [exists []; reflexivity|]. cbn [drop_while].
    destruct (is_space c); [exists (c :: sp); cbn; f_equal; exact IH|exists []; reflexivity]. }
  destruct (G (rev t)) as [sp Hsp].
  assert (Ht : t = rev (drop_while is_space (rev t)) ++ rev sp).
  { rewrite <- rev_app_distr, <- Hsp, rev_involutive. reflexivity. }
  rewrite Ht at 2. apply is_prefix_app.
Qed.

Lemma is_suffix_nil : forall b, is_suffix [] b = true.
Proof.
  unfold is_suffix. induction b as [|x b IH]; [reflexivity|]. cbn [length is_suffix_fuel text_eqb]. exact IH.
Qed.

Lemma is_suffix_app : forall a b, is_suffix b (a ++ b) = true.
Proof.
  intros a b. pose proof (is_suffix_skipn (length a) (a ++ b)) as H.
  assert (E : skipn (length a) (a ++ b) = b).
  { clear H. induction a as [|x a IH]; [reflexivity|exact IH]. }
  rewrite E in H. exact H.
Qed.

Lemma came_from_same : forall t, came_from t t = true.
Proof. intros. unfold came_from. apply (is_suffix_skipn 0). Qed.

Lemma came_from_skipn : forall c l, came_from (skipn c l) l = true.
Proof.
  intros c l. unfold came_from. rewrite <- (firstn_skipn c l) at 2. rewrite rstrip_app.
  destruct (rstrip (skipn c l)) eqn:E; [apply is_suffix_nil|]. apply is_suffix_app.
Qed.

Lemma came_from_rstrip_skipn : forall c l, came_from (rstrip (skipn c l)) l = true.
Proof. intros. unfold came_from. rewrite rstrip_idem. apply came_from_skipn. Qed.

(** * split_lines *)
Lemma split_lines_aux_acc : forall s cur, split_lines_aux cur s = match split_lines_aux [] s with
                                                                   | l :: r => (rev cur ++ l) :: r
                                                                   | [] => []
                                                                   end.
Proof.
  induction s as [|c s IH]; intros cur; cbn [split_lines_aux].
  - cbn. rewrite app_nil_r. reflexivity.
  - destruct (c =? NL).
    + cbn. rewrite app_nil_r. reflexivity.
    + rewrite (IH (c :: cur)), (IH [c]). destruct (split_lines_aux [] s); [reflexivity|].
      cbn [rev app]. rewrite <- app_assoc. reflexivity.
Qed.

Lemma split_lines_no_nl : forall t, no_nl t -> split_lines t = [t].
Proof.
  unfold split_lines. induction t as [|c t IH]; intros H; [reflexivity|].
  unfold no_nl in H. rewrite count_nl_cons in H. cbn [split_lines_aux].
  destruct (c =? NL) eqn:E; [cbn in H; lia|]. rewrite split_lines_aux_acc, IH by (unfold no_nl; cbn in H; lia). reflexivity.
Qed.

Lemma split_lines_app_nl : forall a y, no_nl a -> split_lines (a ++ NL :: y) = a :: split_lines y.
Proof.
  unfold split_lines. induction a as [|c a IH]; intros y H.
  - cbn [app split_lines_aux]. rewrite N.eqb_refl. reflexivity.
  - unfold no_nl in H. rewrite count_nl_cons in H. cbn [app split_lines_aux].
    destruct (c =? NL) eqn:E; [cbn in H; lia|].
    rewrite split_lines_aux_acc, IH by (unfold no_nl; cbn in H; lia). reflexivity.
Qed.

Lemma no_nl_prefix : forall a b, is_prefix a b = true -> no_nl b -> no_nl a.
Proof.
  induction a as [|x a IH]; intros b Hp Hb; [reflexivity|].
  destruct b as [|y b]; [discriminate|]. cbn in Hp. apply andb_true_iff in Hp as [E Hp]. apply N.eqb_eq in E. subst y.
  unfold no_nl in *. rewrite count_nl_cons in *. specialize (IH b Hp). lia.
Qed.

Lemma err_lines_ok_cons2 : forall f r r1 rs x act,
    err_lines_ok f (r :: r1 :: rs) (x :: act) = came_from r x && err_lines_ok false (r1 :: rs) act.
Proof. intros. destruct act; reflexivity. Qed.

(** * the lines after the first one *)
Lemma tail_lines_ok : forall M k,
    Forall no_nl M -> M <> [] ->
    rstrip (firstn k (join_lines M)) <> [] ->
    (length (split_lines (rstrip (firstn k (join_lines M)))) <= length M)%nat /\
    err_lines_ok false (split_lines (rstrip (firstn k (join_lines M))))
                 (firstn (length (split_lines (rstrip (firstn k (join_lines M))))) M) = true.
Proof.
  induction M as [|a M IH]; intros k HM Hne HY; [contradiction|].
  apply Forall_cons_iff in HM as [Ha HM].
  assert (Single : forall Y, no_nl Y -> (came_from Y a = true \/ is_prefix (rstrip Y) a = true) ->
                             (length (split_lines Y) <= length (a :: M))%nat /\
                             err_lines_ok false (split_lines Y) (firstn (length (split_lines Y)) (a :: M)) = true).
  { intros Y HYn Hc. rewrite (split_lines_no_nl Y HYn). cbn [length firstn err_lines_ok negb andb].
    split; [lia|]. destruct Hc as [Hc|Hc]; rewrite Hc; [reflexivity|apply orb_true_r]. }
  destruct M as [|b M'].
  - (* last line of the file part: a prefix of [a] *)
    cbn [join_lines] in *. apply Single.
    + eapply no_nl_prefix; [apply rstrip_prefix|]. apply no_nl_firstn. exact Ha.
    + right. rewrite rstrip_idem. eapply is_prefix_trans; [apply rstrip_prefix|apply is_prefix_firstn].
  - change (join_lines (a :: b :: M')) with (a ++ NL :: join_lines (b :: M')) in *.
    rewrite firstn_app in *.
    destruct (k - length a)%nat as [|k'] eqn:Ek.
    + (* stops inside [a] *)
      cbn [firstn] in *. rewrite app_nil_r in *. apply Single.
      * eapply no_nl_prefix; [apply rstrip_prefix|]. apply no_nl_firstn. exact Ha.
      * right. rewrite rstrip_idem. eapply is_prefix_trans; [apply rstrip_prefix|apply is_prefix_firstn].
    + assert (Hfa : firstn k a = a). { apply firstn_all2. lia. }
      rewrite Hfa in *. cbn [firstn] in *.
      rewrite rstrip_app, rstrip_nl_cons in *.
      destruct (rstrip (firstn k' (join_lines (b :: M')))) as [|y Y'] eqn:EY.
      * (* only white space after [a] *)
        apply Single.
        -- eapply no_nl_prefix; [apply rstrip_prefix|exact Ha].
        -- left. unfold came_from. rewrite rstrip_idem. apply (is_suffix_skipn 0).
      * rewrite (split_lines_app_nl a (y :: Y') Ha).
        assert (Hne' : b :: M' <> []) by discriminate.
        assert (HY' : rstrip (firstn k' (join_lines (b :: M'))) <> []) by (rewrite EY; discriminate).
        destruct (IH k' HM Hne' HY') as [IHl IHe].
        rewrite EY in IHl, IHe. cbn [length firstn]. split; [cbn [length] in *; lia|].
        assert (Hrefl : came_from a a = true). { unfold came_from. apply (is_suffix_skipn 0). }
        destruct (split_lines (y :: Y')) as [|r1 rs] eqn:ES; [cbn [length firstn err_lines_ok]; rewrite Hrefl; reflexivity|].
        cbn [length firstn] in *. 
        rewrite err_lines_ok_cons2, Hrefl. exact IHe.
Qed.

Lemma split_lines_aux_ne : forall s cur, split_lines_aux cur s <> [].
Proof.
  induction s as [|c s IH]; intros cur; cbn [split_lines_aux]; [discriminate|].
  destruct (c =? NL); [discriminate|apply IH].
Qed.

Lemma no_nl_skipn : forall k t, no_nl t -> no_nl (skipn k t).
Proof.
  intros k t H. unfold no_nl in *. rewrite <- (firstn_skipn k t), count_nl_app in H. lia.
Qed.

(** * ending_at *)
Theorem ending_at_ok : forall fl i lm restm c nchars,
    Forall no_nl fl -> at_pos fl i (lm :: restm) ->
    err_src_ok fl (ending_at (N.of_nat (S i)) lm c restm nchars) = true.
Proof.
  intros fl i lm restm c nchars Hfl Hpos. unfold ending_at.
  destruct (nchars <? length lm)%nat eqn:En.
  { unfold err_src_ok. cbn [ls_first ls_lines length].
    rewrite (file_lines_at fl i lm restm 1 Hpos) by lia. cbn [firstn err_lines_ok].
    rewrite came_from_same. reflexivity. }
  apply Nat.ltb_ge in En.
  assert (Hlines : Forall no_nl (lm :: restm)).
  { unfold at_pos in Hpos. rewrite <- Hpos. apply Forall_forall. intros x Hx.
    rewrite Forall_forall in Hfl. apply Hfl. rewrite <- (firstn_skipn i fl). apply in_or_app. right. exact Hx. }
  apply Forall_cons_iff in Hlines as [Hlm Hrest].
  set (r0 := skipn c lm).
  assert (Hr0 : no_nl r0) by (apply no_nl_skipn; exact Hlm).
  assert (Hlen0 : (length r0 <= nchars)%nat). { unfold r0. rewrite skipn_length. lia. }
  (* a report of the single line [rstrip r0] *)
  assert (Single : err_src_ok fl (LineSeq (N.of_nat (S i)) (split_lines (rstrip r0))) = true).
  { assert (Hn : no_nl (rstrip r0)) by (eapply no_nl_prefix; [apply rstrip_prefix|exact Hr0]).
    rewrite (split_lines_no_nl _ Hn). unfold err_src_ok. cbn [ls_first ls_lines length].
    rewrite (file_lines_at fl i lm restm 1 Hpos) by lia. cbn [firstn err_lines_ok].
    unfold r0. rewrite came_from_rstrip_skipn. reflexivity. }
  destruct restm as [|b M'].
  - cbn [join_lines]. rewrite firstn_all2 by exact Hlen0. exact Single.
  - change (join_lines (r0 :: b :: M')) with (r0 ++ NL :: join_lines (b :: M')).
    rewrite firstn_app, (firstn_all2 r0) by exact Hlen0.
    destruct (nchars - length r0)%nat as [|k'] eqn:Ek.
    + cbn [firstn]. rewrite app_nil_r. exact Single.
    + cbn [firstn]. rewrite rstrip_app, rstrip_nl_cons.
      destruct (rstrip (firstn k' (join_lines (b :: M')))) as [|y Y'] eqn:EY; [exact Single|].
      rewrite (split_lines_app_nl r0 (y :: Y') Hr0).
      assert (Hne : b :: M' <> []) by discriminate.
      assert (HY : rstrip (firstn k' (join_lines (b :: M'))) <> []) by (rewrite EY; discriminate).
      destruct (tail_lines_ok (b :: M') k' Hrest Hne HY) as [Hl He]. rewrite EY in Hl, He.
      destruct (split_lines (y :: Y')) as [|r1 rs] eqn:ES.
      { exfalso. unfold split_lines in ES. eapply split_lines_aux_ne; eassumption. }
      unfold err_src_ok. cbn [ls_first ls_lines length].
      rewrite (file_lines_at fl i lm (b :: M') (S (S (length rs))) Hpos) by (cbn [length] in *; lia).
      cbn [firstn].
      rewrite err_lines_ok_cons2. unfold r0 at 1. rewrite came_from_skipn. exact He.
Qed.
